/-
  Lemmas.GenScanner — normal form of the TRANSLATED `StreamingScanner::next` (`SyModel/Generated/Code/Scanner.lean`,
  src/sync/scanner.rs:254-343) for EVERY instance `ext : Ext W`:

    * `round`   — one round of the Rust `loop` as a function of what `walker_next` answered: `none` = the round `continue`s
                  (the root itself), `some a` = the scanner answers `a`;
    * `iter`    — the rounds iterated up to a fuel; `scanner_next_nf : scanner_next ext self = iter ext self ext.fuel` is THE
                  ONLY THEOREM THAT DEPENDS ON THE SHAPE OF THE GENERATED CODE;
    * `decidedWithin`, `iter_fuel_irrelevant`, `iter_exhausted` — fuel sufficiency;
    * `iter_listed` — every entry answered as `some (.ok fe)` was built by `mkEntry` in a round whose walker answer, metadata,
                  relative path and `read_link` answer are exhibited (the invariant the field theorems of
                  `Props/GenScanner.lean` are read off from);
    * `strip_prefix_ne_dot` — about `Rs.strip_prefix` itself.
-/
import SyModel.Generated.Code.Scanner
namespace SyModel.Lemmas.GenScanner
open SyModel.Generated SyModel.Generated.Scanner

def runM {W α : Type} (x : Rs.M W α) (w : W) : Except Rs.Err α × W := x.run.run w

/-- what `StreamingScanner::next` answers: `None`, `Some(Err(..))`, `Some(Ok(entry))` -/
abbrev Answer := Option (Except Rs.Err FileEntry)

/-! ### running `Rs.M` -/

theorem run_bind {W α β : Type} (x : Rs.M W α) (f : α → Rs.M W β) (w : W) :
    runM (x >>= f) w = match runM x w with
      | (.ok a, w') => runM (f a) w'
      | (.error e, w') => (.error e, w') := by
  show (ExceptT.bind x f) w = _
  simp only [ExceptT.bind, ExceptT.mk]
  show (StateT.bind x _) w = _
  simp only [StateT.bind, runM]
  show (match x w with | (a, s) => _) = (match x w with | (.ok a, w') => _ | (.error e, w') => _)
  rcases x w with ⟨r, w'⟩
  cases r <;> rfl

theorem run_pure {W α : Type} (a : α) (w : W) : runM (pure a : Rs.M W α) w = (.ok a, w) := rfl
theorem run_throw {W α : Type} (e : Rs.Err) (w : W) : runM (throw e : Rs.M W α) w = (.error e, w) := rfl
theorem run_capture {W α : Type} (x : Rs.M W α) (w : W) : runM (Rs.capture x) w = (.ok (runM x w).1, (runM x w).2) := rfl

/-! ### the closed forms of the two pure helpers -/

/-- `detect_sparse_file`: sparse iff the size exceeds 4096 and the allocated bytes (512-byte blocks) are below `size - 4096` -/
theorem detect_sparse_file_eq (p : Rs.Path) (md : SMeta) :
    detect_sparse_file p md = (decide (md.size > 4096) && decide (md.blocks * 512 < md.size - 4096), md.blocks * 512) := rfl

theorem detect_hardlink_info_eq (md : SMeta) : detect_hardlink_info md = (some md.ino, md.nlink) := rfl

/-! ### the entry a round builds -/

/-- `(is_sparse, allocated_size)` as line 297 computes it: only regular files are asked -/
def sparsePair (path : Rs.Path) (md : SMeta) : Bool × Nat :=
  if (!md.is_dir && !md.is_symlink) = true then detect_sparse_file path md else (false, 0)

/-- the `FileEntry { .. }` of line 325, from the values the round has collected -/
def mkEntry (path rel : Rs.Path) (md : SMeta) (tgt : Option Rs.Path) (xa : Option (Rs.HashMap Rs.Str (List Nat)))
    (acl : Option (List Nat)) (bsd : Option Nat) (t : Rs.SystemTime) : FileEntry :=
  { path := path, relative_path := rel, size := md.size, modified := t, is_dir := md.is_dir, is_symlink := md.is_symlink,
    symlink_target := tgt, is_sparse := (sparsePair path md).1, allocated_size := (sparsePair path md).2, xattrs := xa,
    inode := some md.ino, nlink := md.nlink, acls := acl, bsd_flags := bsd }

/-- lines 290-294: `read_link(..).ok()` for a symlink, `None` otherwise (`read_link` is only CALLED for a symlink) -/
def linkTarget {W : Type} (ext : Ext W) (path : Rs.Path) (md : SMeta) : Rs.M W (Option Rs.Path) :=
  if md.is_symlink = true then Rs.capture (ext.std_fs_read_link path) >>= fun r => pure (Rs.ok r) else pure none

/-- lines 306-340, once the link target is there: xattrs, ACLs (operations, in program order), then the modification time -/
def entryRest {W : Type} (ext : Ext W) (path rel : Rs.Path) (md : SMeta) (tgt : Option Rs.Path) :
    Rs.M W (Except Rs.Err FileEntry) :=
  ext.read_xattrs path >>= fun xa =>
    ext.read_acls path >>= fun acl =>
      match md.mtime with
      | .ok t => pure (.ok (mkEntry path rel md tgt xa acl (ext.read_bsd_flags md) t))
      | .error _ => pure (.error Rs.Err.io)

/-- lines 288-340, after the metadata and the relative path are there -/
def entryTail {W : Type} (ext : Ext W) (path rel : Rs.Path) (md : SMeta) : Rs.M W (Except Rs.Err FileEntry) :=
  linkTarget ext path md >>= entryRest ext path rel md

/-- ONE ROUND of the `loop`, given what `walker_next` answered.  `none`: the round `continue`s; `some a`: `next` returns `a`. -/
def round {W : Type} (ext : Ext W) (self : StreamingScanner) : Option (Except Rs.Err DirEntry) → Rs.M W (Option Answer)
  | none => pure (some none)
  | some (.error _) => pure (some (some (.error Rs.Err.io)))
  | some (.ok de) =>
    if (de.path == self.root) = true then pure none
    else match de.md with
      | .error _ => pure (some (some (.error Rs.Err.io)))
      | .ok md =>
        match Rs.strip_prefix de.path self.root with
        | .error _ => pure (some (some (.error Rs.Err.other)))
        | .ok rel => entryTail ext de.path rel md >>= fun r => pure (some (some r))

/-- a whole round: ask the walker, then `round` -/
def step {W : Type} (ext : Ext W) (self : StreamingScanner) : Rs.M W (Option Answer) :=
  ext.walker_next () >>= round ext self

/-- the rounds iterated: out of fuel is `Rs.Err.other` (the Rust `loop` has no such exit) -/
def iter {W : Type} (ext : Ext W) (self : StreamingScanner) : Nat → Rs.M W Answer
  | 0 => throw Rs.Err.other
  | n + 1 => step ext self >>= fun r => match r with
    | some a => pure a
    | none => iter ext self n

/-! ### `scanner_next` IS `iter` -/

/-- loop state of the generated `for`: `(the value of an early return, ())` -/
abbrev LoopSt := Option Answer × Unit

def wrap : Option Answer → ForInStep LoopSt
  | none => ForInStep.yield (none, ())
  | some a => ForInStep.done (some a, ())

def post {W : Type} (s : LoopSt) : Rs.M W Answer :=
  match s.fst with
  | some r => pure r
  | none => throw Rs.Err.other

theorem forIn_list_iter {W ι : Type} (ext : Ext W) (self : StreamingScanner) (l : List ι) :
    (forIn l ((none, ()) : LoopSt) (fun _ _ => step ext self >>= fun r => pure (wrap r)) >>= post : Rs.M W Answer) =
      iter ext self l.length := by
  induction l with
  | nil => rfl
  | cons a l ih =>
    rw [List.forIn_cons]
    simp only [List.length_cons, iter, bind_assoc, pure_bind]
    refine bind_congr fun r => ?_
    cases r with
    | none => exact ih
    | some a => rfl

theorem forIn_range_iter {W : Type} (ext : Ext W) (self : StreamingScanner) (n : Nat) :
    (forIn [0:n] ((none, ()) : LoopSt) (fun _ _ => step ext self >>= fun r => pure (wrap r)) >>= post : Rs.M W Answer) =
      iter ext self n := by
  rw [Std.Legacy.Range.forIn_eq_forIn_range', forIn_list_iter]
  simp [Std.Legacy.Range.size]

/-- **NORMAL FORM** — THE ONLY THEOREM THAT DEPENDS ON THE SHAPE OF THE GENERATED CODE: the translated `next` is the rounds
    iterated up to `ext.fuel`, for every instance -/
theorem scanner_next_nf {W : Type} (ext : Ext W) (self : StreamingScanner) :
    scanner_next ext self = iter ext self ext.fuel := by
  rw [← forIn_range_iter]
  unfold scanner_next
  congr 1
  · congr 1
    funext _ _
    unfold step
    rw [bind_assoc]
    refine bind_congr fun ans => ?_
    rcases ans with _ | ⟨e | de⟩
    · rfl
    · rfl
    · simp only [round, pure_bind]
      by_cases hroot : (de.path == self.root) = true
      · simp only [hroot, if_true, pure_bind]; rfl
      · simp only [hroot]
        rcases hmd : de.md with e | md
        · rfl
        · simp only
          rcases hsp : Rs.strip_prefix de.path self.root with e | rel
          · rfl
          · simp only [entryTail, entryRest, linkTarget, bind_assoc, Bool.false_eq_true, if_false]
            obtain ⟨size, blocks, ino, nlink, isdir, issym, mtime⟩ := md
            cases issym
            · simp only [Bool.false_eq_true, if_false, pure_bind]
              refine bind_congr fun xa => bind_congr fun acl => ?_
              rcases mtime with e | t <;> rfl
            · simp only [if_true, bind_assoc, pure_bind]
              refine bind_congr fun r => bind_congr fun xa => bind_congr fun acl => ?_
              rcases mtime with e | t <;> rfl
  · funext s
    rcases s with ⟨a, u⟩
    cases a <;> rfl

/-! ### one round, run -/

theorem run_iter_succ {W : Type} (ext : Ext W) (self : StreamingScanner) (n : Nat) (w : W) :
    runM (iter ext self (n + 1)) w = match runM (step ext self) w with
      | (.ok (some a), w') => (.ok a, w')
      | (.ok none, w') => runM (iter ext self n) w'
      | (.error e, w') => (.error e, w') := by
  rw [iter, run_bind]
  rcases runM (step ext self) w with ⟨e | r, w'⟩
  · rfl
  · cases r <;> rfl

theorem run_step {W : Type} (ext : Ext W) (self : StreamingScanner) (w : W) :
    runM (step ext self) w = match runM (ext.walker_next ()) w with
      | (.ok ans, w') => runM (round ext self ans) w'
      | (.error e, w') => (.error e, w') := by
  rw [step, run_bind]
  rcases runM (ext.walker_next ()) w with ⟨e | r, w'⟩ <;> rfl

/-- the value `linkTarget` answers -/
def linkValue {W : Type} (ext : Ext W) (path : Rs.Path) (md : SMeta) (w : W) : Option Rs.Path :=
  if md.is_symlink = true then Rs.ok (runM (ext.std_fs_read_link path) w).1 else none

/-- the world after `linkTarget`: `read_link` is only called for a symlink -/
def linkWorld {W : Type} (ext : Ext W) (path : Rs.Path) (md : SMeta) (w : W) : W :=
  if md.is_symlink = true then (runM (ext.std_fs_read_link path) w).2 else w

/-- `linkTarget` never fails and is `read_link(..).ok()` at the world it is called in -/
theorem run_linkTarget {W : Type} (ext : Ext W) (path : Rs.Path) (md : SMeta) (w : W) :
    runM (linkTarget ext path md) w = (.ok (linkValue ext path md w), linkWorld ext path md w) := by
  unfold linkTarget linkValue linkWorld
  by_cases h : md.is_symlink = true
  · simp only [h, if_true]; rw [run_bind, run_capture]; rfl
  · simp only [h]; rfl

theorem entryRest_ok {W : Type} (ext : Ext W) (path rel : Rs.Path) (md : SMeta) (tgt : Option Rs.Path) (w w' : W)
    (fe : FileEntry) (h : runM (entryRest ext path rel md tgt) w = (.ok (.ok fe), w')) :
    ∃ xa acl t, md.mtime = .ok t ∧ fe = mkEntry path rel md tgt xa acl (ext.read_bsd_flags md) t := by
  unfold entryRest at h
  rw [run_bind] at h
  rcases hx : runM (ext.read_xattrs path) w with ⟨e | xa, w2⟩
  · rw [hx] at h; simp at h
  · rw [hx] at h; simp only at h
    rw [run_bind] at h
    rcases ha : runM (ext.read_acls path) w2 with ⟨e | acl, w3⟩
    · rw [ha] at h; simp at h
    · rw [ha] at h; simp only at h
      rcases ht : md.mtime with e | t
      · rw [ht] at h; simp [run_pure] at h
      · rw [ht] at h; simp only [run_pure] at h
        injection h with h _; injection h with h; injection h with h
        exact ⟨xa, acl, t, rfl, h.symm⟩

/-- an entry answered by `entryTail` is `mkEntry` of the metadata, with the link target read at the world the tail starts in -/
theorem entryTail_ok {W : Type} (ext : Ext W) (path rel : Rs.Path) (md : SMeta) (w w' : W) (fe : FileEntry)
    (h : runM (entryTail ext path rel md) w = (.ok (.ok fe), w')) :
    ∃ xa acl t, md.mtime = .ok t ∧ fe = mkEntry path rel md (linkValue ext path md w) xa acl (ext.read_bsd_flags md) t := by
  unfold entryTail at h
  rw [run_bind, run_linkTarget] at h
  exact entryRest_ok ext path rel md _ _ _ fe h
/-! ### what a round answers -/

/-- **a round that lists an entry**: the walker answered an entry other than the root, its metadata and relative path were
    there, and the entry is `mkEntry` of them (link target: `read_link` at the world right after the walker's answer) -/
theorem round_listed {W : Type} (ext : Ext W) (self : StreamingScanner) (ans : Option (Except Rs.Err DirEntry)) (w w' : W)
    (fe : FileEntry) (h : runM (round ext self ans) w = (.ok (some (some (.ok fe))), w')) :
    ∃ de md rel xa acl t, ans = some (.ok de) ∧ de.path ≠ self.root ∧ de.md = .ok md ∧
      Rs.strip_prefix de.path self.root = .ok rel ∧ md.mtime = .ok t ∧
      fe = mkEntry de.path rel md (linkValue ext de.path md w) xa acl (ext.read_bsd_flags md) t := by
  rcases ans with _ | ⟨e | de⟩
  · simp [round, run_pure] at h
  · simp [round, run_pure] at h
  · unfold round at h
    by_cases hroot : (de.path == self.root) = true
    · simp [hroot, run_pure] at h
    · simp only [hroot] at h
      have hne : de.path ≠ self.root := by simpa using hroot
      rcases hmd : de.md with e | md
      · rw [hmd] at h; simp [run_pure] at h
      · rw [hmd] at h; simp only at h
        rcases hsp : Rs.strip_prefix de.path self.root with e | rel
        · rw [hsp] at h; simp [run_pure] at h
        · rw [hsp] at h; simp only [Bool.false_eq_true, if_false] at h
          rw [run_bind] at h
          rcases ht : runM (entryTail ext de.path rel md) w with ⟨e | r, w2⟩
          · rw [ht] at h; simp at h
          · rw [ht] at h; simp only [run_pure] at h
            injection h with h hw; injection h with h; injection h with h; injection h with h
            subst h
            obtain ⟨xa, acl, t, hmt, hfe⟩ := entryTail_ok ext de.path rel md w w2 fe ht
            exact ⟨de, md, rel, xa, acl, t, rfl, hne, hmd, hsp, hmt, hfe⟩

/-- **a round `continue`s exactly when the walker answered the root itself** (and then performs no operation) -/
theorem round_skip_iff {W : Type} (ext : Ext W) (self : StreamingScanner) (ans : Option (Except Rs.Err DirEntry)) (w w' : W) :
    runM (round ext self ans) w = (.ok none, w') ↔ (∃ de, ans = some (.ok de) ∧ de.path = self.root) ∧ w' = w := by
  constructor
  · intro h
    rcases ans with _ | ⟨e | de⟩
    · simp [round, run_pure] at h
    · simp [round, run_pure] at h
    · unfold round at h
      by_cases hroot : (de.path == self.root) = true
      · simp only [hroot, if_true, run_pure] at h
        injection h with _ hw
        exact ⟨⟨de, rfl, by simpa using hroot⟩, hw.symm⟩
      · simp only [hroot] at h
        rcases hmd : de.md with e | md
        · rw [hmd] at h; simp [run_pure] at h
        · rw [hmd] at h; simp only at h
          rcases hsp : Rs.strip_prefix de.path self.root with e | rel
          · rw [hsp] at h; simp [run_pure] at h
          · rw [hsp] at h; simp only [Bool.false_eq_true, if_false] at h
            rw [run_bind] at h
            rcases ht : runM (entryTail ext de.path rel md) w with ⟨e | r, w2⟩
            · rw [ht] at h; simp at h
            · rw [ht] at h; simp [run_pure] at h
  · rintro ⟨⟨de, rfl, hp⟩, rfl⟩
    have : (de.path == self.root) = true := by simp [hp]
    simp only [round, this, if_true, run_pure]
/-! ### the iteration: listed entries, fuel -/

/-- **every listed entry comes from a round**: an answer `some (.ok fe)` of `iter` (any fuel) exhibits the walker answer, the
    metadata, the relative path and the world `w1` right after the walker's answer (where `read_link` is asked) -/
theorem iter_listed {W : Type} (ext : Ext W) (self : StreamingScanner) (n : Nat) (w w' : W) (fe : FileEntry)
    (h : runM (iter ext self n) w = (.ok (some (.ok fe)), w')) :
    ∃ w0 w1 de md rel xa acl t, runM (ext.walker_next ()) w0 = (.ok (some (.ok de)), w1) ∧ de.path ≠ self.root ∧
      de.md = .ok md ∧ Rs.strip_prefix de.path self.root = .ok rel ∧ md.mtime = .ok t ∧
      fe = mkEntry de.path rel md (linkValue ext de.path md w1) xa acl (ext.read_bsd_flags md) t := by
  induction n generalizing w with
  | zero => simp [iter, run_throw] at h
  | succ n ih =>
    rw [run_iter_succ] at h
    rcases hs : runM (step ext self) w with ⟨e | r, w2⟩
    · rw [hs] at h; simp at h
    · rw [hs] at h
      cases r with
      | none => exact ih w2 h
      | some a =>
        simp only at h
        injection h with h hw; injection h with h; subst h; subst hw
        rw [run_step] at hs
        rcases hwk : runM (ext.walker_next ()) w with ⟨e | ans, w1⟩
        · rw [hwk] at hs; simp at hs
        · rw [hwk] at hs; simp only at hs
          obtain ⟨de, md, rel, xa, acl, t, rfl, h1, h2, h3, h4, h5⟩ := round_listed ext self ans w1 w2 fe hs
          exact ⟨w, w1, de, md, rel, xa, acl, t, hwk, h1, h2, h3, h4, h5⟩

/-- does one of the first `n` rounds from `w` decide (answer, or fail) rather than `continue` -/
def decidedWithin {W : Type} (ext : Ext W) (self : StreamingScanner) : Nat → W → Bool
  | 0, _ => false
  | n + 1, w => match runM (step ext self) w with
    | (.ok none, w') => decidedWithin ext self n w'
    | _ => true

/-- **fuel sufficiency**: once some round among the first `n` decides, any larger fuel gives the same result and world -/
theorem iter_fuel_irrelevant {W : Type} (ext : Ext W) (self : StreamingScanner) (n m : Nat) (w : W)
    (h : decidedWithin ext self n w = true) (hnm : n ≤ m) : runM (iter ext self m) w = runM (iter ext self n) w := by
  induction n generalizing m w with
  | zero => simp [decidedWithin] at h
  | succ n ih =>
    obtain ⟨m, rfl⟩ : ∃ k, m = k + 1 := ⟨m - 1, by omega⟩
    rw [run_iter_succ, run_iter_succ]
    unfold decidedWithin at h
    rcases hs : runM (step ext self) w with ⟨e | r, w2⟩
    · rfl
    · cases r with
      | some a => rfl
      | none =>
        rw [hs] at h
        exact ih m w2 h (by omega)

/-- **fuel exhaustion**: when all `n` rounds `continue`, the translated loop throws `Rs.Err.other` (the Rust `loop` would go on) -/
theorem iter_exhausted {W : Type} (ext : Ext W) (self : StreamingScanner) (n : Nat) (w : W)
    (h : decidedWithin ext self n w = false) : (runM (iter ext self n) w).1 = .error Rs.Err.other := by
  induction n generalizing w with
  | zero => rfl
  | succ n ih =>
    rw [run_iter_succ]
    unfold decidedWithin at h
    rcases hs : runM (step ext self) w with ⟨e | r, w2⟩
    · rw [hs] at h; simp at h
    · cases r with
      | some a => rw [hs] at h; simp at h
      | none => rw [hs] at h; exact ih w2 h

/-- `k` rounds in a row in which the walker answers the root itself, from world `w` to world `w'` -/
inductive Skips {W : Type} (ext : Ext W) (self : StreamingScanner) : Nat → W → W → Prop
  | zero (w : W) : Skips ext self 0 w w
  | succ {k : Nat} {w w1 w2 : W} (de : DirEntry) (hw : runM (ext.walker_next ()) w = (.ok (some (.ok de)), w1))
      (hroot : de.path = self.root) (rest : Skips ext self k w1 w2) : Skips ext self (k + 1) w w2

theorem step_skip_iff {W : Type} (ext : Ext W) (self : StreamingScanner) (w w' : W) :
    runM (step ext self) w = (.ok none, w') ↔
      ∃ de, runM (ext.walker_next ()) w = (.ok (some (.ok de)), w') ∧ de.path = self.root := by
  rw [run_step]
  rcases hwk : runM (ext.walker_next ()) w with ⟨e | ans, w1⟩
  · simp
  · simp only [round_skip_iff]
    constructor
    · rintro ⟨⟨de, rfl, hp⟩, rfl⟩; exact ⟨de, rfl, hp⟩
    · rintro ⟨de, h, hp⟩
      injection h with h1 h2; injection h1 with h1
      exact ⟨⟨de, h1, hp⟩, h2.symm⟩

theorem iter_of_skips {W : Type} (ext : Ext W) (self : StreamingScanner) (k m : Nat) (w w1 : W)
    (hs : Skips ext self k w w1) : runM (iter ext self (k + m)) w = runM (iter ext self m) w1 := by
  induction hs with
  | zero w => simp
  | succ de hw hroot rest ih =>
    rename_i k w w1 w2
    have : runM (step ext self) w = (.ok none, w1) := (step_skip_iff ext self w w1).mpr ⟨de, hw, hroot⟩
    rw [show k + 1 + m = (k + m) + 1 by omega, run_iter_succ, this]
    exact ih

/-- **the answer does not depend on the fuel** (explicit form): after `k < fuel` root answers, a round that answers `a`
    makes `a` the result — whatever the fuel -/
theorem iter_answer_after_skips {W : Type} (ext : Ext W) (self : StreamingScanner) (k fuel : Nat) (w w1 w2 : W) (a : Answer)
    (hs : Skips ext self k w w1) (hk : k < fuel) (hstep : runM (step ext self) w1 = (.ok (some a), w2)) :
    runM (iter ext self fuel) w = (.ok a, w2) := by
  obtain ⟨m, rfl⟩ : ∃ m, fuel = k + (m + 1) := ⟨fuel - k - 1, by omega⟩
  rw [iter_of_skips ext self k (m + 1) w w1 hs, run_iter_succ, hstep]

/-- the same for a round in which an operation fails -/
theorem iter_error_after_skips {W : Type} (ext : Ext W) (self : StreamingScanner) (k fuel : Nat) (w w1 w2 : W) (e : Rs.Err)
    (hs : Skips ext self k w w1) (hk : k < fuel) (hstep : runM (step ext self) w1 = (.error e, w2)) :
    runM (iter ext self fuel) w = (.error e, w2) := by
  obtain ⟨m, rfl⟩ : ∃ m, fuel = k + (m + 1) := ⟨fuel - k - 1, by omega⟩
  rw [iter_of_skips ext self k (m + 1) w w1 hs, run_iter_succ, hstep]

/-- a round whose walker answer is not the root entry never `continue`s -/
theorem step_decides {W : Type} (ext : Ext W) (self : StreamingScanner) (w w1 : W) (ans : Option (Except Rs.Err DirEntry))
    (hw : runM (ext.walker_next ()) w = (.ok ans, w1)) (hnr : ∀ de, ans = some (.ok de) → de.path ≠ self.root) (w2 : W) :
    runM (step ext self) w ≠ (.ok none, w2) := by
  intro h
  obtain ⟨de, h1, h2⟩ := (step_skip_iff ext self w w2).mp h
  rw [hw] at h1
  injection h1 with h1 _; injection h1 with h1
  exact hnr de h1 h2

/-- after `k` root answers exactly the fuels `≤ k` are exhausted -/
theorem skips_exhausted {W : Type} (ext : Ext W) (self : StreamingScanner) (k : Nat) (w w1 : W)
    (hs : Skips ext self k w w1) : runM (iter ext self k) w = (.error Rs.Err.other, w1) := by
  have := iter_of_skips ext self k 0 w w1 hs
  rw [Nat.add_zero] at this
  rw [this]; rfl
/-! ### `Rs.strip_prefix` never answers "." for a clean path other than the base -/

/-- cleanliness of a path text, as far as `relative_path ≠ "."` needs it: the text is not `"."` and does not end in `"/."`
    (decidable; the walker never yields such paths: `ignore` joins directory-entry names, and `.`/`..` are not entries) -/
def noDotTail (p : Rs.Path) : Bool := p != ['.'] && !(['/', '.'].isSuffixOf p)

theorem strip_prefix_ne_dot (p base : Rs.Path) (hne : p ≠ base) (hc : noDotTail p = true) :
    Rs.strip_prefix p base ≠ .ok ['.'] := by
  simp only [noDotTail, Bool.and_eq_true, bne_iff_ne, ne_eq, Bool.not_eq_true', ] at hc
  obtain ⟨hc1, hc2⟩ := hc
  unfold Rs.strip_prefix
  have h1 : (p == base) = false := by simpa using hne
  simp only [h1, Bool.false_eq_true, if_false]
  by_cases hb : base.isEmpty = true
  · simp only [hb, if_true]
    intro h; injection h with h; exact hc1 h
  · simp only [hb]
    by_cases hp : (base ++ ['/']).isPrefixOf p = true
    · simp only [hp, if_true]
      intro h; injection h with h
      obtain ⟨t, rfl⟩ := List.isPrefixOf_iff_prefix.mp hp
      have : t = ['.'] := by
        have : (base ++ ['/'] ++ t).drop (base.length + 1) = t := by
          rw [List.drop_left' (by simp)]
        rw [this] at h; exact h
      subst this
      have : (['/', '.'] : List Char).isSuffixOf (base ++ ['/'] ++ ['.']) = true := by
        rw [List.isSuffixOf_iff_suffix]
        exact ⟨base, by simp⟩
      rw [this] at hc2; exact absurd hc2 (by simp)
    · simp only [hp]
      intro h; cases h

/-- the hypothesis is needed: the two shapes it excludes DO strip to "." -/
example : Rs.strip_prefix ['a', '/', '.'] ['a'] = .ok ['.'] := rfl
example : Rs.strip_prefix ['.'] [] = .ok ['.'] := rfl
example : noDotTail ['a', '/', '.'] = false ∧ noDotTail ['.'] = false ∧ noDotTail ['a', '/', '.', 'x'] = true ∧
    noDotTail ['a', '/', 'b'] = true := by decide
end SyModel.Lemmas.GenScanner
