/-
  Helper lemmas for the delta model: `applyOps` over appended op lists, the
  generator invariant, and the tiling property of `checksums`.
-/
import SyModel.Delta.Core
namespace SyModel.Delta

theorem applyOps_append (old : Bytes) (a b : List Op) :
    applyOps old (a ++ b) =
      match applyOps old a, applyOps old b with
      | some x, some y => some (x ++ y)
      | _, _ => none := by
  induction a with
  | nil => simp [applyOps]; cases applyOps old b <;> simp
  | cons op a ih =>
    cases op with
    | copy off sz =>
      simp only [List.cons_append, applyOps, ih]
      cases readExact old off sz <;> cases applyOps old a <;> cases applyOps old b <;> simp
    | data d =>
      simp only [List.cons_append, applyOps, ih]
      cases applyOps old a <;> cases applyOps old b <;> simp

theorem applyOps_snoc_copy (old : Bytes) (ops : List Op) (off sz : Nat) (pre w : Bytes)
    (h : applyOps old ops = some pre) (hr : readExact old off sz = some w) :
    applyOps old (ops ++ [.copy off sz]) = some (pre ++ w) := by
  simp [applyOps_append, h, applyOps, hr]

theorem applyOps_snoc_data (old : Bytes) (ops : List Op) (d pre : Bytes)
    (h : applyOps old ops = some pre) :
    applyOps old (ops ++ [.data d]) = some (pre ++ d) := by
  simp [applyOps_append, h, applyOps]

theorem applyOps_flush (old : Bytes) (litRev : Bytes) (opsRev : List Op) (pre : Bytes)
    (h : applyOps old opsRev.reverse = some pre) :
    applyOps old (flush litRev opsRev).reverse = some (pre ++ litRev.reverse) := by
  unfold flush
  cases litRev with
  | nil => simpa using h
  | cons x l =>
    simp only [List.isEmpty_cons, Bool.false_eq_true, ↓reduceIte, List.reverse_cons (a := Op.data _)]
    exact applyOps_snoc_data old _ _ _ h

theorem find?_some_mem {α} {p : α → Bool} {l : List α} {a : α} (h : l.find? p = some a) :
    a ∈ l ∧ p a = true := ⟨List.mem_of_find?_eq_some h, List.find?_some h⟩

/-- Candidates are *sound for* `new`: a strong-hash hit against any contiguous piece of `new`
    means the referenced range of `old` holds exactly those bytes. -/
def CandidatesSound {H} [BEq H] (strong : Bytes → H) (old new : Bytes) (cs : List (Block H)) : Prop :=
  ∀ c ∈ cs, ∀ w : Bytes, w <:+: new → (c.strong == strong w) = true →
    readExact old c.offset c.size = some w

theorem take_infix_of_suffix {α} {pre rest new : List α} (h : pre ++ rest = new) (n : Nat) :
    rest.take n <:+: new := by
  refine ⟨pre, rest.drop n, ?_⟩
  rw [← h, List.append_assoc, List.take_append_drop]

theorem genMemGo_spec {H} [BEq H] (strong : Bytes → H) (old new : Bytes) (cs : List (Block H)) (bs : Nat)
    (hbs : 0 < bs) (hs : CandidatesSound strong old new cs)
    (rest : Bytes) (roll : Adler) (litRev : Bytes) (opsRev : List Op) (pre : Bytes)
    (hops : applyOps old opsRev.reverse = some pre)
    (hnew : pre ++ litRev.reverse ++ rest = new) :
    applyOps old (genMemGo strong cs bs rest roll litRev opsRev) = some new := by
  fun_induction genMemGo strong cs bs rest roll litRev opsRev generalizing pre with
  | case1 roll litRev opsRev =>
    have := applyOps_flush old litRev opsRev pre hops
    simpa [← hnew] using this
  | case2 x tl roll litRev opsRev hfull c hfind hbs0 =>
    omega
  | case3 x tl roll litRev opsRev hfull c hfind hbs0 rest' roll' ih =>
    obtain ⟨hmem, hp⟩ := find?_some_mem hfind
    simp only [Bool.and_eq_true] at hp
    have hinf : (x :: tl).take bs <:+: new := take_infix_of_suffix hnew bs
    have hr := hs c hmem _ hinf hp.2
    have hfl := applyOps_flush old litRev opsRev pre hops
    apply ih (pre ++ litRev.reverse ++ (x :: tl).take bs)
    · rw [List.reverse_cons]; exact applyOps_snoc_copy old _ _ _ _ _ hfl hr
    · simp only [List.reverse_nil, List.append_nil, List.append_assoc, rest']
      rw [List.take_append_drop]; simpa using hnew
  | case4 x tl roll litRev opsRev hfull hfind roll' ih =>
    apply ih pre hops
    simpa using hnew
  | case5 x tl roll litRev opsRev hfull c hfind =>
    obtain ⟨hmem, hp⟩ := find?_some_mem hfind
    simp only [Bool.and_eq_true] at hp
    have hinf : (x :: tl) <:+: new := ⟨pre ++ litRev.reverse, [], by simpa using hnew⟩
    have hr := hs c hmem _ hinf hp.2.2
    have hfl := applyOps_flush old litRev opsRev pre hops
    rw [List.reverse_cons, applyOps_snoc_copy old _ _ _ _ _ hfl hr, hnew]
  | case6 x tl roll litRev opsRev hfull hfind roll' ih =>
    apply ih pre hops
    simpa using hnew

end SyModel.Delta

namespace SyModel.Delta

/-- What `checksums` guarantees about each entry (block tiling of `old`). -/
structure BlockOK {H} (strong : Bytes → H) (old : Bytes) (bs : Nat) (c : Block H) : Prop where
  pos    : 0 < c.size
  le     : c.size ≤ bs
  range  : c.offset + c.size ≤ old.length
  weak   : c.weak = hashBytes ((old.drop c.offset).take c.size)
  strong : c.strong = strong ((old.drop c.offset).take c.size)
  tiled  : c.offset % bs = 0
  last   : c.size = bs ∨ c.offset + c.size = old.length

theorem checksumsFrom_ok {H} (strong : Bytes → H) (old : Bytes) (bs : Nat) (off : Nat) (l : Bytes)
    (hl : l = old.drop off) (hoff : off % bs = 0) :
    ∀ c ∈ checksumsFrom strong bs off l, BlockOK strong old bs c := by
  fun_induction checksumsFrom strong bs off l with
  | case1 off l h => intro c hc; simp at hc
  | case2 off l h blk ih =>
    have hbs : bs ≠ 0 := fun e => h (Or.inl e)
    have hne : l ≠ [] := fun e => h (Or.inr e)
    have hlen : 0 < l.length := List.length_pos_iff.mpr hne
    have hlenl : l.length = old.length - off := by rw [hl]; simp
    intro c hc
    rcases List.mem_cons.mp hc with rfl | hc
    · have hblk : blk = (old.drop off).take (min bs l.length) := by
        simp only [blk, hl]; rw [List.take_eq_take_iff]; simp
      have hsz : blk.length = min bs l.length := by simp [blk]
      refine ⟨?_, ?_, ?_, ?_, ?_, hoff, ?_⟩ <;> simp only [hsz]
      · omega
      · omega
      · omega
      · rw [hblk]
      · rw [hblk]
      · omega
    · apply ih _ _ c hc
      · rw [hl, List.drop_drop]
      · rw [Nat.add_mod, hoff]; simp

theorem checksums_ok {H} (strong : Bytes → H) (old : Bytes) (bs : Nat) :
    ∀ c ∈ checksums strong bs old, BlockOK strong old bs c :=
  checksumsFrom_ok strong old bs 0 old (by simp) (by simp)

/-- No strong-hash collision between a block of `old` and a contiguous piece of `new`
    (a statement about the two inputs, not global injectivity of the hash). -/
def NoCollision {H} [BEq H] (strong : Bytes → H) (old new : Bytes) (bs : Nat) : Prop :=
  ∀ c ∈ checksums strong bs old, ∀ w : Bytes, w <:+: new →
    (strong ((old.drop c.offset).take c.size) == strong w) = true →
      (old.drop c.offset).take c.size = w

theorem candidatesSound_of_noCollision {H} [BEq H] (strong : Bytes → H) (old new : Bytes) (bs : Nat)
    (h : NoCollision strong old new bs) :
    CandidatesSound strong old new (checksums strong bs old) := by
  intro c hc w hw hst
  have ok := checksums_ok strong old bs c hc
  rw [ok.strong] at hst
  have := h c hc w hw hst
  unfold readExact
  rw [if_pos (Or.inr ok.range), this]

/-- A successful `applyOps` only ever read ranges inside `old`. -/
theorem copies_in_range_of_apply (old : Bytes) (ops : List Op) (r : Bytes)
    (h : applyOps old ops = some r) :
    ∀ off sz, Op.copy off sz ∈ ops → sz = 0 ∨ off + sz ≤ old.length := by
  induction ops generalizing r with
  | nil => intro _ _ hm; simp at hm
  | cons op ops ih =>
    intro off sz hm
    cases op with
    | copy o s =>
      simp only [applyOps] at h
      cases hre : readExact old o s with
      | none => simp [hre] at h
      | some b =>
        cases hap : applyOps old ops with
        | none => simp [hre, hap] at h
        | some r' =>
          rcases List.mem_cons.mp hm with heq | hm
          · injection heq with h1 h2
            subst h1 h2
            unfold readExact at hre
            split at hre
            · assumption
            · simp at hre
          · exact ih r' hap off sz hm
    | data d =>
      simp only [applyOps] at h
      cases hap : applyOps old ops with
      | none => simp [hap] at h
      | some r' =>
        rcases List.mem_cons.mp hm with heq | hm
        · cases heq
        · exact ih r' hap off sz hm

end SyModel.Delta
