/-
  Lemmas about the glob model: the backtracking matcher `matchesFrom` (with its early
  `EntirePatternDoesntMatch` exit) decides the declarative relation `Matches` on well-formed token
  lists, and `Pattern::new` only produces well-formed token lists.
-/
import SyModel.Filter.Spec
set_option linter.unusedVariables false
namespace SyModel.Filter

/-! ### the candidate suffixes a sequence token tries, in order -/

/-- the suffixes `seqLoop` hands to its continuation, in order (the last `[]` is the fall-through
    of the `for` loop after the `while` loop has exhausted the iterator) -/
def cands (isRec : Bool) : List Char → List (List Char)
  | [] => [[]]
  | c :: file => if isRec && c != '/' then cands isRec file else file :: cands isRec file

/-- first result that is not `SubPatternDoesntMatch` -/
def firstNonSub (k : List Char → MatchResult) : List (List Char) → MatchResult
  | [] => .subPatternDoesntMatch
  | s :: ss =>
    match k s with
    | .subPatternDoesntMatch => firstNonSub k ss
    | m => m

theorem seqLoop_eq (isRec : Bool) (k : List Char → MatchResult) (file : List Char) :
    seqLoop isRec k file = firstNonSub k (cands isRec file) := by
  induction file with
  | nil =>
    simp only [seqLoop, cands, firstNonSub]
    cases k [] <;> rfl
  | cons c file ih =>
    simp only [seqLoop, cands]
    by_cases h : (isRec && c != '/') = true
    · simp only [h, if_true]; exact ih
    · simp only [h, Bool.false_eq_true, if_false, firstNonSub]
      cases hk : k file <;> simp [ih]

theorem matchesFrom_seq (tok : Token) (rest : List Token) (file : List Char) (h : tok.isSeq = true) :
    matchesFrom (tok :: rest) file
      = firstNonSub (matchesFrom rest) (file :: cands (tok == .anyRecSeq) file) := by
  simp only [matchesFrom, h, if_true, firstNonSub, seqLoop_eq]
  cases matchesFrom rest file <;> rfl

theorem firstNonSub_sub {k : List Char → MatchResult} {l : List (List Char)}
    (h : firstNonSub k l = .subPatternDoesntMatch) : ∀ s ∈ l, k s = .subPatternDoesntMatch := by
  induction l with
  | nil => intro s hs; cases hs
  | cons x xs ih =>
    intro s hs
    simp only [firstNonSub] at h
    cases hx : k x <;> rw [hx] at h <;> simp at h
    rcases List.mem_cons.mp hs with rfl | hs
    · exact hx
    · exact ih h s hs

theorem firstNonSub_match {k : List Char → MatchResult} {l : List (List Char)}
    (h : firstNonSub k l = .match) : ∃ s ∈ l, k s = .match := by
  induction l with
  | nil => simp [firstNonSub] at h
  | cons x xs ih =>
    simp only [firstNonSub] at h
    cases hx : k x <;> rw [hx] at h <;> simp at h
    · exact ⟨x, List.mem_cons_self, hx⟩
    · obtain ⟨s, hs, hk⟩ := ih h
      exact ⟨s, List.mem_cons_of_mem _ hs, hk⟩

theorem firstNonSub_entire {k : List Char → MatchResult} {l : List (List Char)}
    (h : firstNonSub k l = .entirePatternDoesntMatch) :
    ∃ l1 x l2, l = l1 ++ x :: l2 ∧ (∀ y ∈ l1, k y = .subPatternDoesntMatch) ∧
      k x = .entirePatternDoesntMatch := by
  induction l with
  | nil => simp [firstNonSub] at h
  | cons x xs ih =>
    simp only [firstNonSub] at h
    cases hx : k x <;> rw [hx] at h <;> simp at h
    · obtain ⟨l1, y, l2, he, hs, hy⟩ := ih h
      refine ⟨x :: l1, y, l2, by simp [he], ?_, hy⟩
      intro z hz
      rcases List.mem_cons.mp hz with rfl | hz
      · exact hx
      · exact hs z hz
    · exact ⟨[], x, xs, rfl, (by intro y hy; cases hy), hx⟩

/-- what the candidates are: the empty string, and every suffix that follows a character — for
    `**` only those that follow a `/` -/
theorem mem_cands (isRec : Bool) (y s : List Char) :
    y ∈ cands isRec s ↔ y = [] ∨ ∃ pre c, s = pre ++ c :: y ∧ (isRec = true → c = '/') := by
  induction s with
  | nil =>
    simp only [cands, List.mem_singleton]
    constructor
    · intro h; exact Or.inl h
    · rintro (h | ⟨pre, c, h, _⟩)
      · exact h
      · cases pre <;> simp at h
  | cons d f ih =>
    simp only [cands]
    by_cases hskip : (isRec && d != '/') = true
    · simp only [hskip, if_true, ih]
      have hr : isRec = true := by
        cases isRec <;> simp at hskip ⊢
      have hd : d ≠ '/' := by
        cases isRec <;> simp at hskip; exact hskip
      constructor
      · rintro (h | ⟨pre, c, h, hc⟩)
        · exact Or.inl h
        · exact Or.inr ⟨d :: pre, c, by simp [h], hc⟩
      · rintro (h | ⟨pre, c, h, hc⟩)
        · exact Or.inl h
        · cases pre with
          | nil =>
            simp only [List.nil_append, List.cons.injEq] at h
            exact absurd (h.1 ▸ hc hr) hd
          | cons p pre =>
            simp only [List.cons_append, List.cons.injEq] at h
            exact Or.inr ⟨pre, c, h.2, hc⟩
    · simp only [hskip, Bool.false_eq_true, if_false, List.mem_cons, ih]
      have hd : isRec = true → d = '/' := by
        intro hr; subst hr; simpa using hskip
      constructor
      · rintro (h | h | ⟨pre, c, h, hc⟩)
        · exact Or.inr ⟨[], d, by simp [h], hd⟩
        · exact Or.inl h
        · exact Or.inr ⟨d :: pre, c, by simp [h], hc⟩
      · rintro (h | ⟨pre, c, h, hc⟩)
        · exact Or.inr (Or.inl h)
        · cases pre with
          | nil =>
            simp only [List.nil_append, List.cons.injEq] at h
            exact Or.inl h.2.symm
          | cons p pre =>
            simp only [List.cons_append, List.cons.injEq] at h
            exact Or.inr (Or.inr ⟨pre, c, h.2, hc⟩)

theorem cands_true_sub_false {y s : List Char} (h : y ∈ cands true s) : y ∈ cands false s := by
  rw [mem_cands] at h ⊢
  rcases h with h | ⟨pre, c, h, _⟩
  · exact Or.inl h
  · exact Or.inr ⟨pre, c, h, by intro hh; cases hh⟩

/-- the candidates of a candidate are candidates -/
theorem cands_trans {r : Bool} {y x s : List Char}
    (hy : y ∈ x :: cands r x) (hx : x ∈ s :: cands r s) : y ∈ s :: cands r s := by
  rcases List.mem_cons.mp hy with rfl | hy
  · exact hx
  rcases List.mem_cons.mp hx with rfl | hx
  · exact List.mem_cons_of_mem _ hy
  apply List.mem_cons_of_mem
  rw [mem_cands] at hy hx ⊢
  rcases hy with hy | ⟨pre, c, hy, hc⟩
  · exact Or.inl hy
  rcases hx with hx | ⟨pre', c', hx, hc'⟩
  · subst hx; cases pre <;> simp at hy
  · exact Or.inr ⟨pre' ++ c' :: pre, c, by simp [hx, hy], hc⟩

/-- from the point where a candidate sits in the list onwards, everything is one of *its*
    candidates -/
theorem cands_tail (r : Bool) (s : List Char) :
    ∀ l1 x l2, cands r s = l1 ++ x :: l2 → ∀ y ∈ l2, y ∈ cands r x := by
  induction s with
  | nil =>
    intro l1 x l2 h y hy
    simp only [cands] at h
    cases l1 with
    | nil => simp only [List.nil_append, List.cons.injEq] at h; rw [← h.2] at hy; cases hy
    | cons a l1 => simp at h
  | cons d f ih =>
    intro l1 x l2 h y hy
    simp only [cands] at h
    by_cases hskip : (r && d != '/') = true
    · simp only [hskip, if_true] at h
      exact ih l1 x l2 h y hy
    · simp only [hskip, Bool.false_eq_true, if_false] at h
      cases l1 with
      | nil =>
        simp only [List.nil_append, List.cons.injEq] at h
        rw [← h.1, h.2]; exact hy
      | cons a l1 =>
        simp only [List.cons_append, List.cons.injEq] at h
        exact ih l1 x l2 h.2 y hy

theorem cands_tail' (r : Bool) (s : List Char) (l1 : List (List Char)) (x : List Char)
    (l2 : List (List Char)) (h : s :: cands r s = l1 ++ x :: l2) :
    ∀ y ∈ x :: l2, y ∈ x :: cands r x := by
  intro y hy
  rcases List.mem_cons.mp hy with rfl | hy
  · exact List.mem_cons_self
  apply List.mem_cons_of_mem
  cases l1 with
  | nil =>
    simp only [List.nil_append, List.cons.injEq] at h
    rw [← h.1, h.2]; exact hy
  | cons a l1 =>
    simp only [List.cons_append, List.cons.injEq] at h
    exact cands_tail r s l1 x l2 h.2 y hy

/-! ### the declarative relation -/

theorem matches_nil_iff (s : List Char) : Matches [] s ↔ s = [] := by
  constructor
  · intro h; cases h; rfl
  · rintro rfl; exact .nil

theorem matchesChar_not_seq {tok : Token} {c : Char} (h : tok.matchesChar c = true) :
    tok.isSeq = false := by
  cases tok <;> simp [Token.matchesChar, Token.isSeq] at h ⊢

theorem matches_one_iff (tok : Token) (rest : List Token) (s : List Char) (h : tok.isSeq = false) :
    Matches (tok :: rest) s ↔ ∃ c s', s = c :: s' ∧ tok.matchesChar c = true ∧ Matches rest s' := by
  constructor
  · intro hm
    cases hm with
    | one hc hr => exact ⟨_, _, rfl, hc, hr⟩
    | seq _ _ => simp [Token.isSeq] at h
    | recEmpty _ => simp [Token.isSeq] at h
    | recDirs _ _ => simp [Token.isSeq] at h
    | recTail _ _ => simp [Token.isSeq] at h
  · rintro ⟨c, s', rfl, hc, hr⟩
    exact .one hc hr

/-- a sequence token matches `s` iff the rest matches `s` or one of the candidate suffixes -/
theorem matches_seq_iff (tok : Token) (rest : List Token) (s : List Char) (h : tok.isSeq = true) :
    Matches (tok :: rest) s ↔ ∃ y ∈ s :: cands (tok == .anyRecSeq) s, Matches rest y := by
  cases tok <;> simp only [Token.isSeq, Bool.false_eq_true] at h
  · -- anySeq
    have hb : ((Token.anySeq == Token.anyRecSeq) = false) := by decide
    rw [hb]
    constructor
    · intro hm
      cases hm with
      | one hc _ => simp [Token.matchesChar] at hc
      | seq s₁ hr =>
        rename_i s₂
        cases s₁ with
        | nil => exact ⟨s₂, by simp, hr⟩
        | cons a s₁ =>
          refine ⟨s₂, List.mem_cons_of_mem _ ?_, hr⟩
          rw [mem_cands]
          -- (a :: s₁) ++ s₂ = pre ++ c :: s₂ with pre ++ [c] = a :: s₁
          have : ∃ pre c, a :: s₁ = pre ++ [c] := by
            have hne : a :: s₁ ≠ [] := by simp
            exact ⟨(a :: s₁).dropLast, (a :: s₁).getLast hne, (List.dropLast_concat_getLast hne).symm⟩
          obtain ⟨pre, c, hpc⟩ := this
          exact Or.inr ⟨pre, c, by rw [hpc]; simp, by intro hh; cases hh⟩
    · rintro ⟨y, hy, hr⟩
      rcases List.mem_cons.mp hy with rfl | hy
      · exact (Matches.seq [] hr)
      · rw [mem_cands] at hy
        rcases hy with rfl | ⟨pre, c, hs, _⟩
        · have := Matches.seq s hr
          simpa using this
        · have := Matches.seq (pre ++ [c]) hr
          rw [hs]; simpa using this
  · -- anyRecSeq
    have hb : ((Token.anyRecSeq == Token.anyRecSeq) = true) := by decide
    rw [hb]
    constructor
    · intro hm
      cases hm with
      | one hc _ => simp [Token.matchesChar] at hc
      | recEmpty hr => exact ⟨s, List.mem_cons_self, hr⟩
      | recDirs s₁ hr =>
        rename_i s₂
        refine ⟨s₂, List.mem_cons_of_mem _ ?_, hr⟩
        rw [mem_cands]
        exact Or.inr ⟨s₁, '/', rfl, fun _ => rfl⟩
      | recTail _ hr =>
        refine ⟨[], List.mem_cons_of_mem _ ?_, hr⟩
        rw [mem_cands]; exact Or.inl rfl
    · rintro ⟨y, hy, hr⟩
      rcases List.mem_cons.mp hy with rfl | hy
      · exact .recEmpty hr
      · rw [mem_cands] at hy
        rcases hy with rfl | ⟨pre, c, hs, hc⟩
        · exact .recTail s hr
        · have hc' : c = '/' := hc rfl
          subst hc'; rw [hs]
          exact .recDirs pre hr

/-! ### well-formedness facts -/

def isRecHead : List Token → Bool
  | .anyRecSeq :: _ => true
  | _ => false

theorem wfGo_tail {ok : Bool} {tok : Token} {rest : List Token} (h : wfGo ok (tok :: rest) = true) :
    ∃ ok', wfGo ok' rest = true := by
  cases tok <;> simp only [wfGo, Bool.and_eq_true] at h
  · exact ⟨_, h⟩
  · exact ⟨_, h⟩
  · exact ⟨_, h⟩
  · exact ⟨_, h.2⟩
  · exact ⟨_, h⟩
  · exact ⟨_, h⟩

/-- before a `**` there is `Char('/')` or another `**` -/
theorem wfGo_before_rec {ok : Bool} {tok : Token} {rest : List Token}
    (h : wfGo ok (tok :: rest) = true) (hr : isRecHead rest = true) :
    tok = .char '/' ∨ tok = .anyRecSeq := by
  cases rest with
  | nil => simp [isRecHead] at hr
  | cons t rest =>
    cases t <;> simp only [isRecHead, Bool.false_eq_true] at hr
    cases tok <;> simp only [wfGo, Bool.and_eq_true, Bool.false_and, Bool.false_eq_true] at h
    · rename_i c
      left
      have : c = '/' := by simpa using h.1
      rw [this]
    · right; rfl

/-! ### the matcher decides `Matches` -/

/-- The three-part invariant of the backtracking matcher on well-formed token lists. -/
theorem matchesFrom_spec (toks : List Token) :
    ∀ (ok : Bool), wfGo ok toks = true → ∀ s : List Char,
      (matchesFrom toks s = .subPatternDoesntMatch → ¬ Matches toks s) ∧
      (matchesFrom toks s = .match → Matches toks s) ∧
      (matchesFrom toks s = .entirePatternDoesntMatch →
        ∀ s' ∈ s :: cands (isRecHead toks) s, ¬ Matches toks s') := by
  induction toks with
  | nil =>
    intro ok _ s
    cases s with
    | nil => simp [matchesFrom, Matches.nil]
    | cons c s =>
      simp only [matchesFrom, reduceCtorEq, false_implies, and_true, true_implies, matches_nil_iff]
      simp
  | cons tok rest ih =>
    intro ok hwf s
    obtain ⟨ok', hwf'⟩ := wfGo_tail hwf
    by_cases hseq : tok.isSeq = true
    · -- a sequence token
      have hr : isRecHead (tok :: rest) = (tok == .anyRecSeq) := by
        cases tok <;> simp [Token.isSeq] at hseq <;> simp [isRecHead] <;> decide
      rw [matchesFrom_seq tok rest s hseq, hr]
      refine ⟨?_, ?_, ?_⟩
      · intro hres hm
        obtain ⟨y, hy, hmy⟩ := (matches_seq_iff tok rest s hseq).mp hm
        exact (ih ok' hwf' y).1 (firstNonSub_sub hres y hy) hmy
      · intro hres
        obtain ⟨y, hy, hky⟩ := firstNonSub_match hres
        exact (matches_seq_iff tok rest s hseq).mpr ⟨y, hy, (ih ok' hwf' y).2.1 hky⟩
      · intro hres s' hs' hm
        obtain ⟨l1, x, l2, hl, hsub, hx⟩ := firstNonSub_entire hres
        obtain ⟨y, hy, hmy⟩ := (matches_seq_iff tok rest s' hseq).mp hm
        have hys : y ∈ s :: cands (tok == .anyRecSeq) s := cands_trans hy hs'
        rw [hl] at hys
        rcases List.mem_append.mp hys with h1 | h2
        · exact (ih ok' hwf' y).1 (hsub y h1) hmy
        · have hyx : y ∈ x :: cands (tok == .anyRecSeq) x :=
            cands_tail' _ s l1 x l2 hl y h2
          have hyx' : y ∈ x :: cands (isRecHead rest) x := by
            by_cases hrr : isRecHead rest = true
            · -- then this token is `**` as well
              rcases wfGo_before_rec hwf hrr with h | h
              · subst h; simp [Token.isSeq] at hseq
              · subst h
                have : ((Token.anyRecSeq == Token.anyRecSeq) = true) := by decide
                rw [this] at hyx; rw [hrr]; exact hyx
            · have hrr' : isRecHead rest = false := by simpa using hrr
              rw [hrr']
              rcases List.mem_cons.mp hyx with h | h
              · exact h ▸ List.mem_cons_self
              · apply List.mem_cons_of_mem
                cases hb : (tok == Token.anyRecSeq)
                · rw [hb] at h; exact h
                · rw [hb] at h; exact cands_true_sub_false h
          exact (ih ok' hwf' x).2.2 hx y hyx' hmy
    · -- an ordinary token
      have hseq' : tok.isSeq = false := by simpa using hseq
      have hr : isRecHead (tok :: rest) = false := by
        cases tok <;> simp [Token.isSeq] at hseq' <;> simp [isRecHead]
      rw [hr]
      cases s with
      | nil =>
        have hres : matchesFrom (tok :: rest) [] = .entirePatternDoesntMatch := by
          simp [matchesFrom, hseq']
        rw [hres]
        refine ⟨by simp, by simp, ?_⟩
        intro _ s' hs' hm
        have : s' = [] := by
          simp only [cands, List.mem_cons, List.not_mem_nil, or_false, or_self] at hs'
          exact hs'
        subst this
        obtain ⟨c, t, h, _⟩ := (matches_one_iff tok rest [] hseq').mp hm
        cases h
      | cons c s₀ =>
        by_cases hc : tok.matchesChar c = true
        · have hres : matchesFrom (tok :: rest) (c :: s₀) = matchesFrom rest s₀ := by
            simp [matchesFrom, hseq', hc]
          rw [hres]
          refine ⟨?_, ?_, ?_⟩
          · intro h hm
            obtain ⟨c', t, he, _, hmt⟩ := (matches_one_iff tok rest _ hseq').mp hm
            cases he
            exact (ih ok' hwf' s₀).1 h hmt
          · intro h
            exact .one hc ((ih ok' hwf' s₀).2.1 h)
          · intro h s' hs' hm
            obtain ⟨c', t, he, hc', hmt⟩ := (matches_one_iff tok rest _ hseq').mp hm
            subst he
            -- `c' :: t` is a suffix of `c :: s₀`, so `t` is a suffix of `s₀` — aligned if needed
            have ht : t ∈ s₀ :: cands (isRecHead rest) s₀ := by
              have hsuf : c' :: t = c :: s₀ ∨ c' :: t ∈ cands false (c :: s₀) := List.mem_cons.mp hs'
              by_cases hrr : isRecHead rest = true
              · rw [hrr]
                rcases wfGo_before_rec hwf hrr with h' | h'
                · subst h'
                  have hc'' : c' = '/' := by simpa [Token.matchesChar] using hc'
                  subst hc''
                  rcases hsuf with h1 | h1
                  · simp only [List.cons.injEq] at h1
                    rw [h1.2]; exact List.mem_cons_self
                  · rw [mem_cands] at h1
                    rcases h1 with h1 | ⟨pre, d, h1, _⟩
                    · cases h1
                    · cases pre with
                      | nil =>
                        simp only [List.nil_append, List.cons.injEq] at h1
                        rw [h1.2]
                        apply List.mem_cons_of_mem
                        rw [mem_cands]
                        exact Or.inr ⟨[], '/', rfl, fun _ => rfl⟩
                      | cons p pre =>
                        simp only [List.cons_append, List.cons.injEq] at h1
                        apply List.mem_cons_of_mem
                        rw [mem_cands]
                        -- s₀ = pre ++ d :: '/' :: t = (pre ++ [d]) ++ '/' :: t
                        exact Or.inr ⟨pre ++ [d], '/', by rw [h1.2]; simp, fun _ => rfl⟩
                · subst h'; simp [Token.isSeq] at hseq'
              · have hrr' : isRecHead rest = false := by simpa using hrr
                rw [hrr']
                rcases hsuf with h1 | h1
                · simp only [List.cons.injEq] at h1
                  rw [h1.2]; exact List.mem_cons_self
                · rw [mem_cands] at h1
                  rcases h1 with h1 | ⟨pre, d, h1, _⟩
                  · cases h1
                  · cases pre with
                    | nil =>
                      simp only [List.nil_append, List.cons.injEq] at h1
                      rw [h1.2]
                      apply List.mem_cons_of_mem
                      rw [mem_cands]
                      exact Or.inr ⟨[], c', rfl, by intro hh; cases hh⟩
                    | cons p pre =>
                      simp only [List.cons_append, List.cons.injEq] at h1
                      apply List.mem_cons_of_mem
                      rw [mem_cands]
                      exact Or.inr ⟨pre ++ [d], c', by rw [h1.2]; simp, by intro hh; cases hh⟩
            exact (ih ok' hwf' s₀).2.2 h t ht hmt
        · have hc' : tok.matchesChar c = false := by simpa using hc
          have hres : matchesFrom (tok :: rest) (c :: s₀) = .subPatternDoesntMatch := by
            simp [matchesFrom, hseq', hc']
          rw [hres]
          refine ⟨?_, by simp, by simp⟩
          intro _ hm
          obtain ⟨c', t, he, hcc, _⟩ := (matches_one_iff tok rest _ hseq').mp hm
          cases he
          rw [hc'] at hcc; cases hcc

theorem globMatch_iff_of_wf (toks : List Token) (h : WF toks) (s : List Char) :
    globMatch toks s = true ↔ Matches toks s := by
  have hspec := matchesFrom_spec toks true h s
  unfold globMatch
  constructor
  · intro hm
    have : matchesFrom toks s = .match := by simpa using hm
    exact hspec.2.1 this
  · intro hm
    cases hres : matchesFrom toks s with
    | «match» => simp
    | subPatternDoesntMatch => exact absurd hm (hspec.1 hres)
    | entirePatternDoesntMatch => exact absurd hm (hspec.2.2 hres s List.mem_cons_self)

/-! ### `Pattern::new` produces well-formed token lists -/

/-- the `ok` flag of `wfGo` after a token list -/
def endFlag : Bool → List Token → Bool
  | ok, [] => ok
  | _, .anyRecSeq :: rest => endFlag true rest
  | _, .char c :: rest => endFlag (c == '/') rest
  | _, _ :: rest => endFlag false rest

theorem wfGo_append (ok : Bool) (a b : List Token) :
    wfGo ok (a ++ b) = (wfGo ok a && wfGo (endFlag ok a) b) := by
  induction a generalizing ok with
  | nil => simp [wfGo, endFlag]
  | cons t a ih =>
    cases t <;> simp [wfGo, endFlag, ih, Bool.and_assoc]

theorem endFlag_append (ok : Bool) (a b : List Token) :
    endFlag ok (a ++ b) = endFlag (endFlag ok a) b := by
  induction a generalizing ok with
  | nil => simp [endFlag]
  | cons t a ih =>
    cases t <;> simp [endFlag, ih]

theorem endFlag_getLast_rec (ok : Bool) (a : List Token) (h : a.getLast? = some .anyRecSeq) :
    endFlag ok a = true := by
  have hne : a ≠ [] := by intro e; simp [e] at h
  have : a = a.dropLast ++ [.anyRecSeq] := by
    have h1 := (List.dropLast_concat_getLast hne).symm
    have h2 : a.getLast hne = .anyRecSeq := by
      rw [List.getLast?_eq_some_getLast hne] at h
      exact Option.some.inj h
    rw [h2] at h1; exact h1
  rw [this, endFlag_append]; rfl

/-- what the parser loop maintains: the tokens so far are well formed, and whenever a `**` would
    be accepted next (`i == 2` or the previous character is `/`) the token list allows one -/
def ParseInv (pos : Nat) (prev : Option Char) (acc : List Token) : Prop :=
  wfGo true acc = true ∧ ((pos = 0 ∨ prev = some '/') → endFlag true acc = true)

theorem parseInv_push_plain {pos : Nat} {prev : Option Char} {acc : List Token} (t : Token)
    (pos' : Nat) (c : Char)
    (ht : t ≠ .anyRecSeq) (hpos : pos' ≠ 0)
    (hc : c = '/' → t = .char '/')
    (h : ParseInv pos prev acc) : ParseInv pos' (some c) (acc ++ [t]) := by
  obtain ⟨h1, _⟩ := h
  refine ⟨?_, ?_⟩
  · rw [wfGo_append, h1]
    cases t <;> simp [wfGo] at ht ⊢
  · rintro (h | h)
    · exact absurd h hpos
    · have : c = '/' := by simpa using h
      rw [hc this, endFlag_append]; simp [endFlag]

theorem parseInv_pushRec {pos : Nat} {prev : Option Char} {acc : List Token}
    (pos' : Nat) (c : Option Char) (hok : pos = 0 ∨ prev = some '/')
    (h : ParseInv pos prev acc) : ParseInv pos' c (pushRec acc) := by
  obtain ⟨h1, h2⟩ := h
  have he := h2 hok
  unfold pushRec
  split
  · rename_i hcond
    exact ⟨h1, fun _ => endFlag_getLast_rec _ _ hcond.2⟩
  · refine ⟨?_, fun _ => ?_⟩
    · rw [wfGo_append, h1, he]; simp [wfGo]
    · rw [endFlag_append]; simp [endFlag]

theorem parseGo_wf (fuel : Nat) : ∀ (pos : Nat) (prev : Option Char) (rest : List Char)
    (acc toks : List Token), ParseInv pos prev acc →
    parseGo fuel pos prev rest acc = .ok toks → WF toks := by
  induction fuel with
  | zero => intro pos prev rest acc toks _ h; simp [parseGo] at h
  | succ fuel ih =>
    intro pos prev rest acc toks hinv h
    cases rest with
    | nil =>
      simp only [parseGo] at h
      cases h
      exact hinv.1
    | cons c rest =>
      simp only [parseGo] at h
      split at h
      · -- '?'
        rename_i hc
        exact ih _ _ _ _ _ (parseInv_push_plain .anyChar _ c (by simp) (by omega)
          (by intro h'; rw [hc] at h'; cases h') hinv) h
      split at h
      · -- '*'
        rename_i hq hc
        split at h
        · cases h
        split at h
        · split at h
          · rename_i hok
            split at h
            · exact ih _ _ _ _ _ (parseInv_pushRec _ _ hok hinv) h
            · split at h
              · exact ih _ _ _ _ _ (parseInv_pushRec _ _ hok hinv) h
              · cases h
          · cases h
        · exact ih _ _ _ _ _ (parseInv_push_plain .anySeq _ '*' (by simp) (by omega)
            (by intro h'; cases h') hinv) h
      split at h
      · -- '['
        split at h
        · split at h
          · exact ih _ _ _ _ _ (parseInv_push_plain (.anyExcept _) _ ']' (by simp) (by omega)
              (by intro h'; cases h') hinv) h
          · cases h
        split at h
        · split at h
          · exact ih _ _ _ _ _ (parseInv_push_plain (.anyWithin _) _ ']' (by simp) (by omega)
              (by intro h'; cases h') hinv) h
          · cases h
        · cases h
      · -- literal character
        exact ih _ _ _ _ _ (parseInv_push_plain (.char c) _ c (by simp) (by omega)
          (by intro h'; rw [h']) hinv) h

/-- `Pattern::new` only yields well-formed token lists. -/
theorem parse_wf' {p : List Char} {toks : List Token} (h : parse p = .ok toks) : WF toks :=
  parseGo_wf _ 0 none p [] toks ⟨rfl, fun _ => rfl⟩ h

/-- the fuel handed to `parseGo` by `parse` always suffices: the `0` branch (which answers
    `wildcards 0`) is dead code — a reported `ERROR_WILDCARDS` position is at least `pos + 2` -/
theorem parseGo_fuel (fuel : Nat) : ∀ (pos : Nat) (prev : Option Char) (rest : List Char)
    (acc : List Token) (q : Nat), rest.length < fuel →
    parseGo fuel pos prev rest acc = .error (.wildcards q) → pos + 2 ≤ q := by
  induction fuel with
  | zero => intro pos prev rest acc q h; omega
  | succ fuel ih =>
    intro pos prev rest acc q hlen h
    cases rest with
    | nil => simp [parseGo] at h
    | cons c rest =>
      simp only [List.length_cons] at hlen
      have hl : rest.length < fuel := by omega
      have mono : ∀ {pos' prev' rest' acc'}, rest'.length < fuel → pos ≤ pos' →
          parseGo fuel pos' prev' rest' acc' = .error (.wildcards q) → pos + 2 ≤ q := by
        intro pos' prev' rest' acc' hl' hp h'
        have := ih pos' prev' rest' acc' q hl' h'; omega
      simp only [parseGo] at h
      split at h
      · exact mono hl (by omega) h
      split at h
      · split at h
        · cases h; omega
        split at h
        · split at h
          · split at h
            · exact mono (by simp; omega) (by omega) h
            · split at h
              · rename_i heq hd
                refine mono ?_ (by omega) h
                have : (List.drop (countStars rest + 1 - 1) rest).length ≤ rest.length := by
                  simp [List.length_drop]
                rw [heq] at this; simp only [List.length_cons] at this; omega
              · cases h
          · cases h
        · exact mono hl (by omega) h
      split at h
      · split at h
        · split at h
          · refine mono ?_ (by omega) h
            simp [List.length_drop]; omega
          · cases h
        split at h
        · split at h
          · refine mono ?_ (by omega) h
            simp [List.length_drop]; omega
          · cases h
        · cases h
      · exact mono hl (by omega) h

/-- `parse` never reports the out-of-fuel placeholder `wildcards 0` (a real `ERROR_WILDCARDS`
    position is at least 2). -/
theorem parse_wildcards_pos {p : List Char} {q : Nat} (h : parse p = .error (.wildcards q)) : 2 ≤ q := by
  have := parseGo_fuel (p.length + 1) 0 none p [] q (by omega) h
  omega

end SyModel.Filter
