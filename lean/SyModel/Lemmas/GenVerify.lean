/-
  Lemmas/GenVerify — vocabulary and helper lemmas for Props/GenVerify: the bridge between the TRANSLATED
  `SyncEngine::verify` / `SyncEngine::should_filter_by_size` (Generated/Code/Verify.lean, regenerated from
  src/sync/mod.rs on every run) and the handwritten model `Engine.verify` (Engine/Verify.lean, what C15 is about).

  Contents
    1. running a computation of the effect monad `Rs.M W = ExceptT Rs.Err (StateM W)`: `exec`, its equations, the
       loop lemma `exec_forIn_yield`, and the predicate `ReadOnly` with its closure rules;
    2. the WORLD the translated code is run in (`World`) and the instance `inst : Ext World`;
    3. the ABSTRACTION from the generated types to the model's (`pathOf`, `relOf`, `absEntry`, `absScan`, `cfgOf`,
       `absResult`) and `pathOf_injective`;
    4. `HashMap` as association list: `Rs.get` after the `insert_mut` loop is "the last file entry with that key";
    5. folds of the three loops as filters.
  Nothing here mentions the body of the generated functions.
-/
import SyModel.Generated.Code.Verify
import SyModel.Lemmas.Verify
namespace SyModel.GenVerify
open SyModel SyModel.Engine SyModel.Generated SyModel.Generated.Verify

/-! ## 1. running `Rs.M W` -/
section Monad
variable {W α β γ : Type}

/-- run a translated computation in world `w`: its `Result` and the world afterwards (an `Err` keeps the world
    reached so far: the state is inside the exception layer) -/
def exec (x : Rs.M W α) (w : W) : Except Rs.Err α × W := x.run.run w

/-- an operation that only LOOKS at the world -/
def reads (f : W → Except Rs.Err α) : Rs.M W α := ExceptT.mk (fun w => (f w, w))

theorem exec_pure (a : α) (w : W) : exec (pure a : Rs.M W α) w = (.ok a, w) := rfl
theorem exec_reads (f : W → Except Rs.Err α) (w : W) : exec (reads f) w = (f w, w) := rfl
theorem exec_capture (x : Rs.M W α) (w : W) :
    exec (Rs.capture x) w = (.ok (exec x w).1, (exec x w).2) := rfl

theorem exec_bind (x : Rs.M W α) (f : α → Rs.M W β) (w : W) :
    exec (x >>= f) w = match exec x w with
      | (.ok a, w') => exec (f a) w'
      | (.error e, w') => (.error e, w') := by
  unfold exec
  simp only [ExceptT.run_bind, StateT.run_bind]
  generalize StateT.run (ExceptT.run x) w = r
  obtain ⟨a, w'⟩ := r
  cases a <;> rfl

/-- a `for` loop whose body, in world `w`, always continues with `g x r` and leaves the world alone, is a fold -/
theorem exec_forIn_yield (l : List γ) (body : γ → β → Rs.M W (ForInStep β)) (g : γ → β → β) (w : W)
    (h : ∀ x ∈ l, ∀ r, exec (body x r) w = (.ok (.yield (g x r)), w)) (init : β) :
    exec (forIn l init body) w = (.ok (l.foldl (fun r x => g x r) init), w) := by
  induction l generalizing init with
  | nil => rfl
  | cons x t ih =>
    rw [List.forIn_cons, exec_bind, h x List.mem_cons_self init]
    exact ih (fun y hy => h y (List.mem_cons_of_mem _ hy)) _

/-- the computation never changes the world, whatever it returns (also when it fails) -/
structure ReadOnly (x : Rs.M W α) : Prop where
  same : ∀ w, (exec x w).2 = w

theorem ReadOnly.pure (a : α) : ReadOnly (pure a : Rs.M W α) := ⟨fun _ => rfl⟩
theorem ReadOnly.reads (f : W → Except Rs.Err α) : ReadOnly (reads f) := ⟨fun _ => rfl⟩
theorem ReadOnly.capture {x : Rs.M W α} (h : ReadOnly x) : ReadOnly (Rs.capture x) := ⟨fun w => h.same w⟩
theorem ReadOnly.ite {c : Prop} [Decidable c] {x y : Rs.M W α} (hx : ReadOnly x) (hy : ReadOnly y) :
    ReadOnly (if c then x else y) := by split <;> assumption
theorem ReadOnly.bind {x : Rs.M W α} {f : α → Rs.M W β} (hx : ReadOnly x) (hf : ∀ a, ReadOnly (f a)) :
    ReadOnly (x >>= f) := by
  constructor
  intro w
  rw [exec_bind]
  have := hx.same w
  generalize exec x w = r at this
  obtain ⟨a, w'⟩ := r
  cases a with
  | ok a => subst this; exact (hf a).same _
  | error e => exact this
/-- induction over a loop: a read-only body makes a read-only loop (whether it runs to the end, `break`s or fails) -/
theorem ReadOnly.forIn (l : List γ) (init : β) {body : γ → β → Rs.M W (ForInStep β)}
    (h : ∀ x r, ReadOnly (body x r)) : ReadOnly (forIn l init body) := by
  induction l generalizing init with
  | nil => exact ReadOnly.pure _
  | cons x t ih =>
    rw [List.forIn_cons]
    refine ReadOnly.bind (h x init) fun s => ?_
    cases s with
    | done b => exact ReadOnly.pure _
    | yield b => exact ih b
end Monad

/-! ## 2. the world and the instance of `Ext` -/

/-- What `sy --verify-only` can observe.
    * `scan root` — the answer of `transport.scan(root)`: the entries below `root` with ABSOLUTE `path`s, or the error
      that aborts the run (a root that cannot be listed);
    * `content p` — the content id of the file at absolute path `p`, `none` when it cannot be read.  Content ids stand
      for checksums: collision-freeness of xxh3/BLAKE3 is the standing assumption of C15, and the instance below makes
      the answer independent of WHICH real checksum is used;
    * `elapsed` — what `Instant::elapsed` will answer (time is not part of either tree; it only lands in `duration`). -/
structure World where
  scan : Rs.Path → Except Rs.Err (List FileEntry)
  content : Rs.Path → Option Nat
  elapsed : Rs.Duration

/-- comparing two files with a real (collision-free) checksum: both are read -/
def cmpReal (w : World) (a b : Rs.Path) : Except Rs.Err Bool :=
  match w.content a, w.content b with
  | some x, some y => .ok (x == y)
  | _, _ => .error .io

/-- `SyncEngine::compare_checksums` (src/sync/mod.rs) over `IntegrityVerifier::compute_file_checksum`
    (src/integrity/mod.rs): with `ChecksumType::None` both "checksums" are `Checksum::None` — equal, and no file is
    even opened; with a real checksum both files are read (`?` on either failure) and the checksums compared. -/
def cmpContents (w : World) (a b : Rs.Path) (v : IntegrityVerifier) : Except Rs.Err Bool :=
  if v.checksum_type = .None then .ok true else cmpReal w a b

theorem cmpContents_real (w : World) (a b : Rs.Path) (v : IntegrityVerifier) (hv : v.checksum_type ≠ .None) :
    cmpContents w a b v = cmpReal w a b := by
  unfold cmpContents; rw [if_neg hv]

/-- the instance: every operation only looks at the world -/
def inst : Ext World where
  std_time_Instant_now _ := pure {}
  transport_scan _ root := reads (fun w => w.scan root)
  compare_checksums _ a b v := reads (fun w => cmpContents w a b v)
  instant_elapsed _ := reads (fun w => .ok w.elapsed)

/-- every operation of an `Ext` leaves the world alone -/
structure ExtReadOnly {W : Type} (ext : Ext W) : Prop where
  now : ∀ u, ReadOnly (ext.std_time_Instant_now u)
  scan : ∀ t p, ReadOnly (ext.transport_scan t p)
  cmp : ∀ e a b v, ReadOnly (ext.compare_checksums e a b v)
  elapsed : ∀ i, ReadOnly (ext.instant_elapsed i)

theorem inst_readOnly : ExtReadOnly inst :=
  ⟨fun _ => ReadOnly.pure _, fun _ _ => ReadOnly.reads _, fun _ _ _ _ => ReadOnly.reads _, fun _ => ReadOnly.reads _⟩

/-! ## 3. the abstraction -/

/-- a path text as the model's component list (the model only ever compares relative paths for equality) -/
def pathOf (t : Rs.Path) : Engine.Path := (Rs.split t '/').map String.ofList

/-- the relative path the code computes for a scanned entry: `path.strip_prefix(root).unwrap_or(&path)` -/
def relOf (root : Rs.Path) (f : FileEntry) : Rs.Path := Rs.unwrap_or (Rs.strip_prefix f.path root) f.path

/-- a scanned entry as the model sees it; `relative_path`, times, links, xattrs, … are not read by `verify` -/
def absEntry (w : World) (root : Rs.Path) (f : FileEntry) : VEntry :=
  { rel := pathOf (relOf root f), isDir := f.is_dir, content := w.content f.path, size := f.size }

def absScan (w : World) (root : Rs.Path) (l : List FileEntry) : List VEntry := l.map (absEntry w root)

/-- `transport`, `perf_monitor`, `checksum`, `verification_mode`, `quiet` have no counterpart in the model:
    that they do not influence the result is part of the bridge theorem -/
def cfgOf (e : SyncEngine) : VCfg := ⟨e.min_size, e.max_size⟩

/-- `duration`, and the `error`/`action` texts of the error records, have no counterpart -/
def absResult (r : VerificationResult) : VResult :=
  { matched := r.files_matched,
    mismatched := r.files_mismatched.map pathOf,
    onlySrc := r.files_only_in_source.map pathOf,
    onlyDst := r.files_only_in_dest.map pathOf,
    errors := r.errors.map (fun x => pathOf x.path) }

/-- the inverse of `Rs.split` -/
def joinSep (c : Char) : List Rs.Str → Rs.Str
  | [] => []
  | [a] => a
  | a :: b :: t => a ++ c :: joinSep c (b :: t)

theorem splitAux_ne_nil (c : Char) (s cur : Rs.Str) : Rs.splitAux c s cur ≠ [] := by
  induction s generalizing cur with
  | nil => simp [Rs.splitAux]
  | cons x t ih =>
    unfold Rs.splitAux
    split
    · simp
    · exact ih _

theorem joinSep_splitAux (c : Char) (s cur : Rs.Str) : joinSep c (Rs.splitAux c s cur) = cur.reverse ++ s := by
  induction s generalizing cur with
  | nil => simp [Rs.splitAux, joinSep]
  | cons x t ih =>
    unfold Rs.splitAux
    split
    · rename_i hx
      have hx : x = c := by simpa using hx
      have ht := ih []
      cases hsp : Rs.splitAux c t [] with
      | nil => exact absurd hsp (splitAux_ne_nil c t [])
      | cons b r =>
        rw [hsp] at ht
        simp only [joinSep, ht, hx, List.reverse_nil, List.nil_append]
    · rw [ih]; simp

theorem joinSep_split (s : Rs.Str) (c : Char) : joinSep c (Rs.split s c) = s := by
  unfold Rs.split; rw [joinSep_splitAux]; rfl

/-- different path texts are different model paths: no hypothesis on the texts is needed -/
theorem pathOf_injective {a b : Rs.Path} (h : pathOf a = pathOf b) : a = b := by
  unfold pathOf at h
  have h2 := congrArg (List.map String.toList) h
  simp only [List.map_map] at h2
  have hid : (String.toList ∘ String.ofList) = id := by funext l; simp
  rw [hid, List.map_id, List.map_id] at h2
  rw [← joinSep_split a '/', ← joinSep_split b '/', h2]

theorem pathOf_beq (a b : Rs.Path) : (pathOf a == pathOf b) = (a == b) := by
  by_cases h : a = b
  · subst h; simp
  · have : pathOf a ≠ pathOf b := fun hp => h (pathOf_injective hp)
    rw [beq_eq_false_iff_ne.mpr this, beq_eq_false_iff_ne.mpr h]

theorem contains_map_pathOf (l : List Rs.Path) (t : Rs.Path) : (l.map pathOf).contains (pathOf t) = l.contains t := by
  induction l with
  | nil => rfl
  | cons a r ih => rw [List.map_cons, List.contains_cons, List.contains_cons, ih, pathOf_beq]

/-! ## 4. `dest_map`: an `insert` loop followed by `get` finds the LAST file entry with that relative path -/

theorem get_insert_mut {κ ν : Type} [BEq κ] [LawfulBEq κ] (m : Rs.HashMap κ ν) (k : κ) (v : ν) (t : κ) :
    Rs.get (Rs.insert_mut m k v) t = if k == t then some v else Rs.get m t := by
  unfold Rs.get Rs.insert_mut
  by_cases hk : (k == t) = true
  · simp [hk]
  · have hk' : k ≠ t := by simpa using hk
    simp only [List.find?_cons, hk, List.find?_filter]
    have : (fun a : κ × ν => !(a.1 == k) && a.1 == t) = (fun a => a.1 == t) := by
      funext a
      by_cases ha : a.1 = t
      · have : ¬ t = k := fun h => hk' h.symm
        simp [ha, this]
      · simp [ha]
    simp [this]

/-- the step of the first loop: directories are skipped -/
def mapStep (root : Rs.Path) (f : FileEntry) (m : Rs.HashMap Rs.Path FileEntry) : Rs.HashMap Rs.Path FileEntry :=
  if f.is_dir then m else Rs.insert_mut m (relOf root f) f

/-- the generated-side twin of the model's `destFile` -/
def destFileG (root : Rs.Path) (l : List FileEntry) (t : Rs.Path) : Option FileEntry :=
  (l.filter fun f => !f.is_dir && relOf root f == t).getLast?

theorem get_foldl_mapStep (root : Rs.Path) (l : List FileEntry) (m : Rs.HashMap Rs.Path FileEntry) (t : Rs.Path) :
    Rs.get (l.foldl (fun r x => mapStep root x r) m) t = (destFileG root l t).or (Rs.get m t) := by
  induction l generalizing m with
  | nil => rfl
  | cons x l ih =>
    rw [List.foldl_cons, ih]
    unfold destFileG mapStep
    simp only [List.filter_cons]
    cases hx : x.is_dir with
    | true => simp
    | false =>
      simp only [Bool.false_eq_true, ↓reduceIte, get_insert_mut, Bool.not_false, Bool.true_and]
      by_cases hr : (relOf root x == t) = true
      · simp only [hr, ↓reduceIte, List.getLast?_cons]
        cases (List.filter (fun f => !f.is_dir && relOf root f == t) l).getLast? <;> rfl
      · simp only [hr, Bool.false_eq_true, ↓reduceIte]

theorem get_dest_map (root : Rs.Path) (l : List FileEntry) (t : Rs.Path) :
    Rs.get (l.foldl (fun r x => mapStep root x r) []) t = destFileG root l t := by
  rw [get_foldl_mapStep]; cases destFileG root l t <;> rfl

/-- the model's lookup on the abstracted scan is the abstraction of the code's lookup -/
theorem destFile_absScan (w : World) (root : Rs.Path) (l : List FileEntry) (t : Rs.Path) :
    destFile (absScan w root l) (pathOf t) = (destFileG root l t).map (absEntry w root) := by
  unfold destFile destFileG absScan
  rw [List.filter_map, List.getLast?_map]
  congr 2
  apply List.filter_congr
  intro f _
  simp only [Function.comp_apply, absEntry, pathOf_beq]

/-! ## 5. the loops as filters -/

/-- the error record pushed for a pair that could not be compared (`e.to_string()` is not modelled) -/
def verifyError (rel : Rs.Path) : SyncError := { path := rel, error := [], action := ['v', 'e', 'r', 'i', 'f', 'y'] }

/-- what the second loop does to its four accumulators, given the entry's relative path and its model verdict -/
def accStep (rel : Rs.Path) (v : Verdict) (a : Nat × List Rs.Path × List Rs.Path × List SyncError) :
    Nat × List Rs.Path × List Rs.Path × List SyncError :=
  match v with
  | .matched => (a.1 + 1, a.2.1, a.2.2.1, a.2.2.2)
  | .mismatched => (a.1, a.2.1 ++ [rel], a.2.2.1, a.2.2.2)
  | .onlySrc => (a.1, a.2.1, a.2.2.1 ++ [rel], a.2.2.2)
  | .error => (a.1, a.2.1, a.2.2.1, a.2.2.2 ++ [verifyError rel])
  | .ignored => a

theorem foldl_accStep {γ : Type} (rel : γ → Rs.Path) (vd : γ → Verdict) (l : List γ)
    (a : Nat × List Rs.Path × List Rs.Path × List SyncError) :
    l.foldl (fun r x => accStep (rel x) (vd x) r) a =
      (a.1 + (l.filter (vd · == .matched)).length,
       a.2.1 ++ (l.filter (vd · == .mismatched)).map rel,
       a.2.2.1 ++ (l.filter (vd · == .onlySrc)).map rel,
       a.2.2.2 ++ (l.filter (vd · == .error)).map (fun x => verifyError (rel x))) := by
  induction l generalizing a with
  | nil => simp
  | cons x l ih =>
    rw [List.foldl_cons, ih]
    simp only [List.filter_cons]
    cases hv : vd x <;> simp [accStep, Nat.add_assoc, Nat.add_comm 1]

theorem foldl_push_if {γ δ : Type} (p : γ → Bool) (f : γ → δ) (l : List γ) (a : List δ) :
    l.foldl (fun r x => if p x then r ++ [f x] else r) a = a ++ (l.filter p).map f := by
  induction l generalizing a with
  | nil => simp
  | cons x l ih =>
    rw [List.foldl_cons, ih]
    cases hp : p x <;> simp [hp]

/-! ## 5b. scans: every path under its root, once ⇒ relative paths unique -/

/-- `p` is `root` itself or `root/rest` with a non-empty rest (path texts carry no trailing separator): what a scan of
    `root` returns -/
def UnderRoot (root p : Rs.Path) : Prop := p = root ∨ ∃ r, r ≠ [] ∧ p = root ++ '/' :: r

theorem relOf_root (root : Rs.Path) (f : FileEntry) (h : f.path = root) : relOf root f = [] := by
  simp [relOf, Rs.strip_prefix, Rs.unwrap_or, h]

theorem relOf_under (root r : Rs.Path) (f : FileEntry) (h : f.path = root ++ '/' :: r) :
    relOf root f = if root = [] then '/' :: r else r := by
  have hne : ¬ (root ++ '/' :: r = root) := by
    intro hh
    have := congrArg List.length hh
    simp at this
  by_cases hr : root = []
  · subst hr
    simp [relOf, Rs.strip_prefix, Rs.unwrap_or, h]
  · simp [relOf, Rs.strip_prefix, Rs.unwrap_or, h, hne, hr]

theorem relOf_inj_of_underRoot (root : Rs.Path) (f g : FileEntry) (hf : UnderRoot root f.path)
    (hg : UnderRoot root g.path) (h : relOf root f = relOf root g) : f.path = g.path := by
  rcases hf with hf | ⟨r, hr, hf⟩ <;> rcases hg with hg | ⟨r', hr', hg⟩
  · rw [hf, hg]
  · rw [relOf_root root f hf, relOf_under root r' g hg] at h
    split at h
    · cases h
    · exact absurd h.symm hr'
  · rw [relOf_root root g hg, relOf_under root r f hf] at h
    split at h
    · cases h
    · exact absurd h hr
  · rw [relOf_under root r f hf, relOf_under root r' g hg] at h
    split at h
    · rw [hf, hg, List.cons.inj h |>.2]
    · rw [hf, hg, h]

theorem nodup_relOf_of_underRoot (root : Rs.Path) (l : List FileEntry) (hu : ∀ f ∈ l, UnderRoot root f.path)
    (hn : (l.map (·.path)).Nodup) : (l.map (relOf root)).Nodup := by
  unfold List.Nodup at *
  rw [List.pairwise_map] at *
  exact hn.imp_of_mem fun ha hb hne hrel => hne (relOf_inj_of_underRoot root _ _ (hu _ ha) (hu _ hb) hrel)
/-! ## 6. what the translated `verify` returns, written with the model's `classify` -/

/-- the model's verdict on a scanned source entry -/
def verdictOf (e : SyncEngine) (w : World) (s d : Rs.Path) (D : List FileEntry) (f : FileEntry) : Verdict :=
  classify (cfgOf e) (absScan w d D) (absEntry w s f)

/-- the `VerificationResult` (path TEXTS, in scan order) for source scan `S` and destination scan `D` -/
def resultG (e : SyncEngine) (w : World) (s d : Rs.Path) (S D : List FileEntry) : VerificationResult :=
  { files_matched := (S.filter (verdictOf e w s d D · == .matched)).length,
    files_mismatched := (S.filter (verdictOf e w s d D · == .mismatched)).map (relOf s),
    files_only_in_source := (S.filter (verdictOf e w s d D · == .onlySrc)).map (relOf s),
    files_only_in_dest :=
      (D.filter fun g => !g.is_dir && !((S.filter (!·.is_dir)).map (relOf s)).contains (relOf d g)).map (relOf d),
    errors := (S.filter (verdictOf e w s d D · == .error)).map (fun f => verifyError (relOf s f)),
    duration := w.elapsed }

end SyModel.GenVerify
