/-
  From one path to whole worlds: what a sync of the repaired code leaves behind.
-/
import SyModel.Lemmas.BisyncView
namespace SyModel.Bisync

theorem consistent_viewOK {w : World} (h : Consistent w) (p : Path) : ViewOK (w.view p) := by
  refine ⟨h.1 p, ?_⟩
  intro l r rl rr h1 h2 h3 h4 m1 m2
  apply h.2 p l r rl rr h1 h2 _ m1 m2
  show (aget (p, Side.source) w.db, aget (p, Side.dest) w.db) = _
  have e3 : aget (p, Side.source) w.db = some rl := h3
  have e4 : aget (p, Side.dest) w.db = some rr := h4
  rw [e3, e4]

theorem viewOK_consistent {w : World} (h : ∀ p, ViewOK (w.view p)) : Consistent w := by
  refine ⟨fun p => (h p).1, ?_⟩
  intro p l r rl rr h1 h2 h3 m1 m2
  have e3 : aget (p, Side.source) w.db = some rl := congrArg Prod.fst h3
  have e4 : aget (p, Side.dest) w.db = some rr := congrArg Prod.snd h3
  exact (h p).2 l r rl rr h1 h2 e3 e4 m1 m2

/-- only a left (resp. right) file, no rows: a conflict copy waiting to be propagated. -/
def OneSided (v : View) : Prop :=
  (∃ f, v = ⟨some f, none, none, none⟩) ∨ (∃ f, v = ⟨none, some f, none, none⟩)

theorem OneSided.viewOK {v : View} (h : OneSided v) : ViewOK v := by
  rcases h with ⟨f, rfl⟩ | ⟨f, rfl⟩ <;> simp [ViewOK]

theorem synced_empty : Synced View.empty := by simp [Synced, View.empty]

/-- every path is in sync or is a pending conflict copy. -/
def PostSync (w : World) : Prop := ∀ q, Synced (w.view q) ∨ OneSided (w.view q)

theorem mem_conflictNames {w : World} {stamp : Nat} {q : Path} (h : q ∈ conflictNames w stamp) :
    ∃ p ∈ w.allPaths, q = conflictName p stamp .source ∨ q = conflictName p stamp .dest := by
  unfold conflictNames at h
  rw [List.mem_flatMap] at h
  obtain ⟨p, hp, hq⟩ := h
  simp only [List.mem_cons, List.mem_singleton, List.not_mem_nil, or_false] at hq
  exact ⟨p, hp, hq⟩

theorem isRen_some_files {strat stamp p} {v : View} (h : isRen (v.action .repaired strat stamp p) = true) :
    (∃ f, v.l = some f) ∧ (∃ g, v.r = some g) := by
  unfold isRen at h
  cases ha : v.action .repaired strat stamp p with
  | none => simp [ha] at h
  | some a =>
    have hen := action_enabled ha
    cases a <;> simp [ha, Action.isRename] at h
    simp only [enabled, Bool.and_eq_true, Option.isSome_iff_exists] at hen
    exact hen

theorem sync_postSync (strat : Strategy) (md stamp : Nat) (w : World) (hc : Consistent w)
    (hf : Fresh w stamp) (hnr : (sync .repaired strat md stamp w).refused = false) :
    PostSync (sync .repaired strat md stamp w).world := by
  obtain ⟨hs, _, _⟩ := sync_spec .repaired rfl strat md stamp w hf hnr
  intro q
  by_cases hq : q ∈ w.allPaths
  · left; rw [hs.own q hq]; exact stepView_synced _ _ _ _ _ (consistent_viewOK hc q)
  · by_cases hqn : q ∈ conflictNames w stamp
    · obtain ⟨p, hp, hq2⟩ := mem_conflictNames hqn
      rcases hq2 with rfl | rfl
      · rw [hs.nameS p hp]
        by_cases hr : isRen (w.act .repaired strat stamp p) = true
        · obtain ⟨⟨f, hl⟩, _⟩ := isRen_some_files hr
          right; left; exact ⟨f, by simp [hr, hl]⟩
        · left; simp [hr]; exact synced_empty
      · rw [hs.nameD p hp]
        by_cases hr : isRen (w.act .repaired strat stamp p) = true
        · obtain ⟨_, ⟨g, hg⟩⟩ := isRen_some_files hr
          right; right; exact ⟨g, by simp [hr, hg]⟩
        · left; simp [hr]; exact synced_empty
    · left; rw [hs.other q hq hqn]; exact synced_empty

theorem PostSync.consistent {w : World} (h : PostSync w) : Consistent w :=
  viewOK_consistent fun p => (h p).elim Synced.viewOK OneSided.viewOK

theorem synced_contents {v : View} (h : Synced v) : v.l.map File.content = v.r.map File.content := by
  obtain ⟨l, r, rl, rr⟩ := v
  cases l <;> cases r <;> simp only [Synced] at h
  · rfl
  · simp [h.1]

/-! ### the deletion limit -/

theorem changes_eq (cfg : Cfg) (w : World) :
    w.changes cfg = w.allPaths.filterMap fun p =>
      ((w.view p).ctype cfg).map fun ct => ⟨p, ct, (aget p w.left).map File.entry, (aget p w.right).map File.entry⟩ := by
  unfold World.changes classifyChanges World.allPaths
  congr 1
  funext p
  exact classifyOne_eq cfg w p

theorem not_exceeded_of_no_deletion (cfg : Cfg) (w : World) (md : Nat)
    (h : ∀ p ct, (w.view p).ctype cfg = some ct → ct.isDeletion = false) :
    deletionLimitExceeded (w.changes cfg) md = false := by
  have hf : (w.changes cfg).filter (·.ctype.isDeletion) = [] := by
    rw [List.filter_eq_nil_iff]
    intro c hc
    rw [changes_eq, List.mem_filterMap] at hc
    obtain ⟨p, _, hc⟩ := hc
    cases hct : (w.view p).ctype cfg with
    | none => simp [hct] at hc
    | some ct =>
      simp only [hct, Option.map_some, Option.some.injEq] at hc
      subst hc
      simp [h p ct hct]
  simp [deletionLimitExceeded, hf]

theorem oneSided_ctype {v : View} (h : OneSided v) :
    v.ctype .repaired = some .newInSource ∨ v.ctype .repaired = some .newInDest := by
  rcases h with ⟨f, rfl⟩ | ⟨f, rfl⟩
  · left; simp [View.ctype, classifySingle]
  · right; simp [View.ctype, classifySingle]

theorem postSync_not_refused {w : World} (h : PostSync w) (strat : Strategy) (md stamp : Nat) :
    (sync .repaired strat md stamp w).refused = false := by
  have : deletionLimitExceeded (w.changes .repaired) md = false := by
    apply not_exceeded_of_no_deletion
    intro p ct hct
    rcases h p with hs | ho
    · rw [synced_ctype hs] at hct; cases hct
    · rcases oneSided_ctype ho with e | e <;> rw [e] at hct <;> cases hct <;> rfl
  simp [sync, this]

theorem postSync_no_rename {w : World} (h : PostSync w) (strat : Strategy) (stamp : Nat) (p : Path) :
    isRen (w.act .repaired strat stamp p) = false := by
  unfold World.act
  rcases h p with hs | ho
  · rw [synced_action hs]; rfl
  · rcases ho with ⟨f, e⟩ | ⟨f, e⟩ <;> rw [e] <;>
      simp [View.action, View.ctype, classifySingle, resolveOne, isRen, Action.isRename]

/-- after a sync of a `PostSync` world every path is in sync (the pending copies went across). -/
theorem second_sync_synced {w : World} (h : PostSync w) (strat : Strategy) (md stamp : Nat)
    (hf : Fresh w stamp) :
    ∀ q, Synced ((sync .repaired strat md stamp w).world.view q) := by
  have hnr := postSync_not_refused h strat md stamp
  obtain ⟨hs, _, _⟩ := sync_spec .repaired rfl strat md stamp w hf hnr
  intro q
  by_cases hq : q ∈ w.allPaths
  · rw [hs.own q hq]; exact stepView_synced _ _ _ _ _ (consistent_viewOK h.consistent q)
  · by_cases hqn : q ∈ conflictNames w stamp
    · obtain ⟨p, hp, hq2⟩ := mem_conflictNames hqn
      have hr := postSync_no_rename h strat stamp p
      rcases hq2 with rfl | rfl
      · rw [hs.nameS p hp]; simp [hr]; exact synced_empty
      · rw [hs.nameD p hp]; simp [hr]; exact synced_empty
    · rw [hs.other q hq hqn]; exact synced_empty

end SyModel.Bisync
