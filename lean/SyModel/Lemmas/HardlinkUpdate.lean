/-
  Lemmas for C13 "after later updates": write-through updates keep the inode classes,
  temp+rename updates do not.
-/
import SyModel.Hardlink.Update
import SyModel.Lemmas.Hardlink
namespace SyModel.Hardlink

theorem updateSmall_ino (d : Dst) (p c q : Nat) :
    ((updateSmall d p c) q).map File.ino = (d q).map File.ino := by
  unfold updateSmall
  exact wt_ino d p c q

theorem sameIno_iff_ino (d : Dst) (p q : Nat) :
    sameIno d p q ↔ ∃ i, (d p).map File.ino = some i ∧ (d q).map File.ino = some i := by
  constructor
  · rintro ⟨f, g, hf, hg, h⟩
    exact ⟨f.ino, by simp [hf], by simp [hg, h]⟩
  · rintro ⟨i, hp, hq⟩
    simp only [Option.map_eq_some_iff] at hp hq
    obtain ⟨f, hf, hfi⟩ := hp
    obtain ⟨g, hg, hgi⟩ := hq
    exact ⟨f, g, hf, hg, by rw [hfi, hgi]⟩

theorem updateSmall_sameIno (d : Dst) (p c q r : Nat) :
    sameIno (updateSmall d p c) q r ↔ sameIno d q r := by
  rw [sameIno_iff_ino, sameIno_iff_ino, updateSmall_ino, updateSmall_ino]

theorem updateSmall_content (d : Dst) (p c q : Nat) (h : sameIno d p q) :
    ∃ f, updateSmall d p c q = some f ∧ f.content = c := by
  obtain ⟨f, g, hf, hg, he⟩ := h
  unfold updateSmall writeThrough
  simp [hf, hg, he]

end SyModel.Hardlink
