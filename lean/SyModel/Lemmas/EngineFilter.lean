/-
  The scan filter and scan order: with parents listed before their children, the selected set is
  closed under ancestors and everything below an excluded directory is dropped
  (src/sync/mod.rs:370-411 relies on exactly this order).
-/
import SyModel.Lemmas.EngineWF
namespace SyModel.Engine

/-- selected entries are not below any directory that was already excluded -/
theorem scanFilterGo_not_under (cfg : Cfg) (scan : List SEntry) (ex : List Path) (e : SEntry)
    (h : e ∈ scanFilterGo cfg scan ex) : ∀ x ∈ ex, isPrefix x e.rel = false := by
  induction scan generalizing ex with
  | nil => simp [scanFilterGo] at h
  | cons a rest ih =>
    rw [scanFilterGo] at h
    split at h
    · exact ih ex h
    · rename_i hnu
      have hnu' : ∀ x ∈ ex, isPrefix x a.rel = false := by
        intro x hx
        cases hp : isPrefix x a.rel with
        | false => rfl
        | true => exact absurd (List.any_eq_true.2 ⟨x, hx, hp⟩) hnu
      split at h
      · intro x hx
        apply ih _ h x
        split
        · exact List.mem_append_left _ hx
        · exact hx
      · split at h
        · rcases List.mem_cons.1 h with h | h
          · rw [h]; exact hnu'
          · exact ih ex h
        · split at h
          · exact ih ex h
          · rcases List.mem_cons.1 h with h | h
            · rw [h]; exact hnu'
            · exact ih ex h

/-- the exclusion list after processing a prefix of the scan -/
def exAfter (cfg : Cfg) : List SEntry → List Path → List Path
  | [], ex => ex
  | e :: rest, ex =>
    if ex.any (fun d => isPrefix d e.rel) then exAfter cfg rest ex
    else if e.excluded then exAfter cfg rest (if e.isDir then ex ++ [e.rel] else ex)
    else exAfter cfg rest ex

theorem scanFilterGo_append (cfg : Cfg) (l1 l2 : List SEntry) (ex : List Path) :
    scanFilterGo cfg (l1 ++ l2) ex = scanFilterGo cfg l1 ex ++ scanFilterGo cfg l2 (exAfter cfg l1 ex) := by
  induction l1 generalizing ex with
  | nil => simp [scanFilterGo, exAfter]
  | cons a rest ih =>
    rw [List.cons_append, scanFilterGo, scanFilterGo, exAfter]
    split
    · exact ih ex
    · split
      · exact ih _
      · split
        · rw [ih ex]; rfl
        · split
          · exact ih ex
          · rw [ih ex]; rfl

/-- a directory at the head of the scan is selected as soon as anything below it is -/
theorem head_dir_selected (cfg : Cfg) (d : SEntry) (rest : List SEntry) (ex : List Path) (e : SEntry)
    (hd : d.isDir = true) (he : e ∈ scanFilterGo cfg (d :: rest) ex) (hp : isPrefix d.rel e.rel = true) :
    d ∈ scanFilterGo cfg (d :: rest) ex := by
  rw [scanFilterGo] at he ⊢
  split
  · rename_i hu
    rw [if_pos hu] at he
    obtain ⟨x, hx, hpx⟩ := List.any_eq_true.1 hu
    have := scanFilterGo_not_under cfg rest ex e he x hx
    rw [isPrefix_trans hpx hp] at this; cases this
  · rename_i hu
    rw [if_neg hu] at he
    split
    · rename_i hexc
      rw [if_pos hexc] at he
      simp only [hd, ↓reduceIte] at he
      have := scanFilterGo_not_under cfg rest _ e he d.rel (by simp)
      rw [hp] at this; cases this
    · simp

/-- **parents first ⇒ the selected set is closed under ancestors** -/
theorem selected_ancestors_selected {cfg : Cfg} {scan : List SEntry} (hu : UniqueRels scan)
    (hpf : ParentsFirst scan) {e : SEntry} (he : e ∈ scanFilter cfg scan) {a : Path} (ha : a ∈ ancestors e.rel) :
    ∃ d ∈ scanFilter cfg scan, d.rel = a ∧ d.kind = .dir := by
  have hes := mem_of_mem_scanFilter he
  obtain ⟨n, hn, hget⟩ := List.getElem_of_mem hes
  obtain ⟨d, hdt, hdr, hdk⟩ := hpf n hn a (by rw [hget]; exact ha)
  refine ⟨d, ?_, hdr, hdk⟩
  obtain ⟨l1, l1', hl1⟩ := List.append_of_mem hdt
  have hscan : scan = l1 ++ d :: (l1' ++ scan.drop n) := by
    conv => lhs; rw [← List.take_append_drop n scan, hl1]
    simp
  have hedrop : e ∈ scan.drop n := by
    rw [← hget]; exact List.mem_drop_iff_getElem.2 ⟨0, by simpa using hn, by simp⟩
  -- `e` is not in `l1` and is not `d`
  have hpw := hu
  unfold UniqueRels at hpw
  rw [hscan, List.pairwise_append] at hpw
  obtain ⟨_, hpw2, hcross⟩ := hpw
  have hel1 : e ∉ l1 := by
    intro h
    exact hcross e h e (List.mem_cons_of_mem _ (List.mem_append_right _ hedrop)) rfl
  have hed : d.rel ≠ e.rel :=
    (List.pairwise_cons.1 hpw2).1 e (List.mem_append_right _ hedrop)
  have hprefix : isPrefix d.rel e.rel = true := by rw [hdr]; exact (mem_ancestors.1 ha).2.1
  have hdir : d.isDir = true := by simp [SEntry.isDir, hdk]
  unfold scanFilter at he ⊢
  rw [hscan, scanFilterGo_append] at he ⊢
  rcases List.mem_append.1 he with h | h
  · exact absurd ((scanFilterGo_sublist cfg l1 []).subset h) hel1
  · exact List.mem_append_right _ (head_dir_selected cfg d _ _ e hdir h hprefix)

/-- **parents first ⇒ the selected directory above a selected entry comes EARLIER in the selected list** (the filter
    keeps the scan's order) -/
theorem selected_ancestor_before {cfg : Cfg} {scan : List SEntry} (hu : UniqueRels scan)
    (hpf : ParentsFirst scan) {e : SEntry} (he : e ∈ scanFilter cfg scan) {a : Path} (ha : a ∈ ancestors e.rel) :
    ∃ d A B, scanFilter cfg scan = A ++ d :: B ∧ d.rel = a ∧ d.kind = .dir ∧ e ∈ B := by
  have hes := mem_of_mem_scanFilter he
  obtain ⟨n, hn, hget⟩ := List.getElem_of_mem hes
  obtain ⟨d, hdt, hdr, hdk⟩ := hpf n hn a (by rw [hget]; exact ha)
  obtain ⟨l1, l1', hl1⟩ := List.append_of_mem hdt
  have hscan : scan = l1 ++ d :: (l1' ++ scan.drop n) := by
    conv => lhs; rw [← List.take_append_drop n scan, hl1]
    simp
  have hedrop : e ∈ scan.drop n := by
    rw [← hget]; exact List.mem_drop_iff_getElem.2 ⟨0, by simpa using hn, by simp⟩
  have hpw := hu
  unfold UniqueRels at hpw
  rw [hscan, List.pairwise_append] at hpw
  obtain ⟨_, hpw2, hcross⟩ := hpw
  have hel1 : e ∉ l1 := by
    intro h
    exact hcross e h e (List.mem_cons_of_mem _ (List.mem_append_right _ hedrop)) rfl
  have hed : d.rel ≠ e.rel :=
    (List.pairwise_cons.1 hpw2).1 e (List.mem_append_right _ hedrop)
  have hprefix : isPrefix d.rel e.rel = true := by rw [hdr]; exact (mem_ancestors.1 ha).2.1
  have hdir : d.isDir = true := by simp [SEntry.isDir, hdk]
  unfold scanFilter at he ⊢
  rw [hscan, scanFilterGo_append] at he ⊢
  rcases List.mem_append.1 he with h | h
  · exact absurd ((scanFilterGo_sublist cfg l1 []).subset h) hel1
  · have hdsel := head_dir_selected cfg d _ _ e hdir h hprefix
    -- the head is selected: the filtered tail list starts with it
    have hshape : ∃ B, scanFilterGo cfg (d :: (l1' ++ scan.drop n)) (exAfter cfg l1 []) = d :: B := by
      rw [scanFilterGo] at hdsel ⊢
      split
      · rename_i hu'
        rw [if_pos hu'] at hdsel
        obtain ⟨x, hx, hpx⟩ := List.any_eq_true.1 hu'
        have := scanFilterGo_not_under cfg _ _ d hdsel x hx
        rw [hpx] at this; cases this
      · rename_i hu'
        rw [if_neg hu'] at hdsel
        split
        · rename_i hexc
          rw [if_pos hexc] at hdsel
          simp only [hdir, ↓reduceIte] at hdsel
          have := scanFilterGo_not_under cfg _ _ d hdsel d.rel (by simp)
          rw [isPrefix_refl] at this; cases this
        · exact ⟨_, rfl⟩
    obtain ⟨B, hB⟩ := hshape
    rw [hB] at h ⊢
    refine ⟨d, _, B, rfl, hdr, hdk, ?_⟩
    rcases List.mem_cons.1 h with h | h
    · exact absurd (h ▸ rfl) hed.symm
    · exact h

/-- **parents first ⇒ everything below an excluded (or dropped) directory is dropped** -/
theorem below_unselected_dir_dropped {cfg : Cfg} {scan : List SEntry} (hu : UniqueRels scan)
    (hpf : ParentsFirst scan) {d e : SEntry} (hd : d ∈ scan) (hdk : d.kind = .dir)
    (hdn : d ∉ scanFilter cfg scan) (hp : isPrefix d.rel e.rel = true)
    (hne : d.rel ≠ e.rel) (hd0 : d.rel ≠ []) : e ∉ scanFilter cfg scan := by
  intro hsel
  obtain ⟨d', hd', hr, _⟩ := selected_ancestors_selected hu hpf hsel (mem_ancestors.2 ⟨hd0, hp, hne⟩)
  have := hu.eq_of_rel (mem_of_mem_scanFilter hd') hd hr
  subst this; exact hdn hd'

end SyModel.Engine
