/-
  `unlinkLink` and `dirBase` (Engine/Model.lean): what `Transferrer::update` of a directory entry does to a symlink
  standing at the path before its `create_dir_all` (fix 862af11).  Shared by the entry-level lemma files
  (`Lemmas/Engine*.lean`) and the step-level ones (`Lemmas/Steps*.lean`), which do not import each other.
-/
import SyModel.Engine.Model
namespace SyModel.Engine

/-! ### `unlinkLink`, `dirBase` (update of a directory entry, fix 862af11) -/

theorem unlinkLink_get?_ne (dst : Map DNode) (p x : Path) (h : x ≠ p) :
    (unlinkLink dst p).get? x = dst.get? x := by
  unfold unlinkLink
  split
  · exact Map.get?_erase_ne _ _ _ (Ne.symm h)
  · rfl

theorem unlinkLink_get?_self (dst : Map DNode) (p : Path) :
    (unlinkLink dst p).get? p = match dst.get? p with | some (.symlink _) => none | o => o := by
  unfold unlinkLink
  split
  · rename_i s hs; simp [hs, Map.get?_erase_same]
  · rename_i hns
    split
    · rename_i s hs; exact absurd hs (hns s)
    · rfl

theorem unlinkLink_of_not_link (dst : Map DNode) (p : Path) (h : ∀ s, dst.get? p ≠ some (.symlink s)) :
    unlinkLink dst p = dst := by
  unfold unlinkLink
  split
  · rename_i s hs; exact absurd hs (h s)
  · rfl

theorem unlinkLink_of_link (dst : Map DNode) (p : Path) (s : String) (h : dst.get? p = some (.symlink s)) :
    unlinkLink dst p = dst.erase p := by
  unfold unlinkLink; simp [h]

theorem dirBase_get?_ne (act : Act) (dst : Map DNode) (p x : Path) (h : x ≠ p) :
    (dirBase act dst p).get? x = dst.get? x := by
  unfold dirBase; split
  · exact unlinkLink_get?_ne dst p x h
  · rfl

theorem dirBase_of_ne_update (act : Act) (dst : Map DNode) (p : Path) (h : act ≠ .update) :
    dirBase act dst p = dst := by
  unfold dirBase; simp [h]

theorem dirBase_of_not_link (act : Act) (dst : Map DNode) (p : Path) (h : ∀ s, dst.get? p ≠ some (.symlink s)) :
    dirBase act dst p = dst := by
  unfold dirBase; split
  · exact unlinkLink_of_not_link dst p h
  · rfl

/-- at its own path `dirBase` answers what was there, except that an update drops a symlink -/
theorem dirBase_get?_self (act : Act) (dst : Map DNode) (p : Path) :
    (dirBase act dst p).get? p = dst.get? p ∨
      (act = .update ∧ (∃ s, dst.get? p = some (.symlink s)) ∧ (dirBase act dst p).get? p = none) := by
  unfold dirBase; split
  · rename_i hu
    rw [unlinkLink_get?_self]
    split
    · rename_i s hs; exact Or.inr ⟨hu, ⟨s, hs⟩, rfl⟩
    · exact Or.inl rfl
  · exact Or.inl rfl

end SyModel.Engine
