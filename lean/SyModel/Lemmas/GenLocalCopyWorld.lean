/-
  Lemmas.GenLocalCopyWorld — PART 1 (TRUSTED) of the bridge for the translated unit `LocalCopy`
  (`SyModel/Generated/Code/LocalCopy.lean`: `LocalTransport::copy_file` and `LocalTransport::sync_file_with_delta`
  of src/transport/local.rs, with `remove_if_symlink`, `break_unshared_hard_link`).

  The world `LWorld` in which the translated code is run and the instance `posix cfg : Ext LWorld` that gives every
  operation of the unit its POSIX meaning.  The bridge theorems of `Props/GenLocalCopy.lean` are statements about
  `sync_file_with_delta (posix cfg) …` and `copy_file (posix cfg) …`, so a wrong operation HERE misrepresents the
  operating system: this file is trusted base and is kept small; every operation is commented with the POSIX / std
  fact it encodes.  Nothing is proved in this file.

  Simplifications (all stated again in INTEGRATION.md):
    * the name space is FLAT: a path text is a name; the directories above a name are not modelled (no ENOENT/ENOTDIR
      for a missing parent; `create_dir_all p` only makes `p` itself a directory).  A symlink's target text is a name;
    * a trailing symlink is followed at most `LINK_FUEL` times (ELOOP afterwards);
    * permissions, ownership, timestamps other than mtime, durability (`fsync`) are not modelled;
    * the clock does not advance during one call: every write stamps the inode with `LWorld.now`;
    * at most one operation of a run fails by injection (`LWorld.fault`, a countdown over the fallible operations).
-/
import SyModel.Generated.Code.LocalCopy
set_option autoImplicit false
namespace SyModel.LocalCopy
open SyModel.Generated SyModel.Generated.LocalCopy

/-- point update of a function -/
def upd {κ ν : Type} [DecidableEq κ] (f : κ → ν) (k : κ) (v : ν) : κ → ν := fun x => if x = k then v else f x

/-- what a NAME refers to: a regular file is a reference to an inode (several names may share one: hard links) -/
inductive Node where
  | file (ino : Nat)
  | dir
  | symlink (target : Rs.Path)
  deriving DecidableEq, Repr

/-- a regular file's inode: content (bytes as numbers, as in the translated code), modification time (ns), the names of
    its extended attributes, link count -/
structure Inode where
  bytes  : List Nat
  mtime  : Nat
  xattrs : List Rs.Str
  nlink  : Nat
  deriving DecidableEq, Repr

/-- an open file description: the INODE it refers to (it survives `unlink`/`rename` of the name it was opened by), the
    file position, and whether it was opened for writing -/
structure Handle where
  ino      : Nat
  pos      : Nat
  writable : Bool
  deriving DecidableEq, Repr

/-- the mutating system calls, as they are appended to `LWorld.log` -/
inductive Op where
  /-- `mkdir p` -/
  | mkdir (p : Rs.Path)
  /-- `unlink p`: the NAME is removed -/
  | unlink (p : Rs.Path)
  /-- `open(p, O_CREAT…)` on a free name: `p` now refers to the NEW inode `ino` -/
  | create (p : Rs.Path) (ino : Nat)
  /-- `open(…, O_TRUNC)` reached an EXISTING inode (possibly through a symlink): its content is gone -/
  | truncate (ino : Nat)
  /-- `pwrite(data, off)` into inode `ino` -/
  | write (ino off : Nat) (data : List Nat)
  /-- `ftruncate(ino, n)` -/
  | setLen (ino n : Nat)
  /-- `utimensat(p, t)` reached inode `ino` -/
  | utime (p : Rs.Path) (ino t : Nat)
  /-- `removexattr` on inode `ino` -/
  | xattrRemove (ino : Nat) (name : Rs.Str)
  /-- `rename(q, p)` -/
  | rename (q p : Rs.Path)
  deriving DecidableEq, Repr

/-- What one call of the local transport can see and change. -/
structure LWorld where
  /-- the directory entries: name ↦ what it refers to -/
  names      : Rs.Path → Option Node
  /-- the inode table; inode numbers `< nextIno` have been handed out -/
  inodes     : Nat → Option Inode
  nextIno    : Nat
  /-- open file descriptions; handles `< nextHandle` have been handed out -/
  handles    : Nat → Option Handle
  nextHandle : Nat
  /-- the working-file paths of the `TempFileGuard`s that are alive and still armed, newest first -/
  guards     : List Rs.Path
  /-- the mutating system calls performed so far, oldest first -/
  log        : List Op
  /-- the time the kernel stamps on an inode it writes -/
  now        : Nat
  /-- fault injection: `some k` — the `k`-th fallible operation from now (counting from 0) fails with EIO and changes
      nothing; `none` — no operation fails by injection -/
  fault      : Option Nat

/-- the answers of the decision procedures the transport consults (they read file-system geometry, allocation maps and
    sampled hashes, none of which is part of `LWorld`) -/
structure Cfg where
  /-- `is_file_sparse(&source_meta)` -/
  sparse        : Bool
  /-- `estimate_change_ratio(..)`: `none` = `Err`, `some b` = `Ok(r)` with `r.use_delta = b` -/
  ratio         : Option Bool
  /-- `supports_cow_reflinks(dest)` / `same_filesystem(source, dest)` -/
  cow           : Bool
  sameFs        : Bool
  /-- `IntegrityVerifier::verify_on_write()` (paranoid mode) -/
  verifyOnWrite : Bool
  /-- `fs::copy` also copies extended attributes (macOS `fclonefileat`/`fcopyfile`; not on Linux) -/
  copyXattrs    : Bool

/-- how many trailing symlinks a path lookup follows before ELOOP -/
abbrev LINK_FUEL : Nat := 8

/-- the name a lookup of `p` ends at when trailing symlinks are followed (`none`: ELOOP) -/
def follow (names : Rs.Path → Option Node) : Nat → Rs.Path → Option Rs.Path
  | 0, _ => none
  | n + 1, p =>
    match names p with
    | some (.symlink t) => follow names n t
    | _ => some p

/-- `stat`-like lookup: what `p` refers to after following trailing symlinks (never a symlink; `none`: nothing / ELOOP) -/
def LWorld.stat (w : LWorld) (p : Rs.Path) : Option Node := (follow w.names LINK_FUEL p).bind w.names

/-- the inode of the regular file `p` refers to (following trailing symlinks) -/
def LWorld.inoOf (w : LWorld) (p : Rs.Path) : Option Nat :=
  match w.stat p with
  | some (.file i) => some i
  | _ => none

def LWorld.logOp (w : LWorld) (o : Op) : LWorld := { w with log := w.log ++ [o] }

/-- one name of inode `i` is gone (the inode itself stays in the table: open descriptions keep it alive) -/
def LWorld.decLink (w : LWorld) (i : Nat) : LWorld :=
  match w.inodes i with
  | some n => { w with inodes := upd w.inodes i (some { n with nlink := n.nlink - 1 }) }
  | none => w

def zerosN (n : Nat) : List Nat := List.replicate n 0

/-- `pwrite(data, off)`: overwrite, extend the file when the range passes its end; a position beyond the end leaves a
    gap of zeros; writing nothing changes nothing (the `List Nat` twin of `Compress.writeAt`) -/
def writeAtN (file : List Nat) (off : Nat) (data : List Nat) : List Nat :=
  if data.isEmpty then file
  else (file ++ zerosN (off - file.length)).take off ++ data ++ file.drop (off + data.length)

/-- `ftruncate(n)`: cut, or extend with zeros (the `List Nat` twin of `Compress.setLen`) -/
def setLenN (file : List Nat) (n : Nat) : List Nat := file.take n ++ zerosN (n - file.length)

/-- an operation: a result and a new world, or an error that leaves the world as it was -/
abbrev Act (α : Type) := LWorld → Except Rs.Err (α × LWorld)

/-- a FALLIBLE system call: the injected fault, if it is due, makes it fail with EIO (and is used up); otherwise the
    countdown advances and the call does what it does — an error of its own leaves the world unchanged -/
def prim {α : Type} (f : Act α) : Rs.M LWorld α := fun w =>
  match w.fault with
  | some 0 => (.error .io, { w with fault := none })
  | some (k + 1) =>
    (match f { w with fault := some k } with
     | .ok (a, w') => (.ok a, w')
     | .error e => (.error e, { w with fault := some k }))
  | none =>
    (match f w with
     | .ok (a, w') => (.ok a, w')
     | .error e => (.error e, w))

/-! ### the system calls -/

/-- `Path::try_exists` / `exists` (`stat`): follows symlinks; a dangling link does not "exist" -/
def existsAct (p : Rs.Path) : Act Bool := fun w => .ok ((w.stat p).isSome, w)

/-- `fs::metadata` (`stat`): follows symlinks; ENOENT when nothing is there -/
def metadataAct (p : Rs.Path) : Act Rs.Metadata := fun w =>
  match w.stat p with
  | some .dir => .ok (⟨true, 0, 0⟩, w)
  | some (.file i) =>
    (match w.inodes i with
     | some n => .ok (⟨false, n.mtime, n.bytes.length⟩, w)
     | none => .error .io)
  | _ => .error .io

/-- `fs::symlink_metadata` (`lstat`): the entry ITSELF -/
def lstatAct (p : Rs.Path) : Act Rs.LMetadata := fun w =>
  match w.names p with
  | none => .error .io
  | some .dir => .ok (⟨.dir, 2⟩, w)
  | some (.symlink _) => .ok (⟨.symlink, 1⟩, w)
  | some (.file i) =>
    (match w.inodes i with
     | some n => .ok (⟨.file, n.nlink⟩, w)
     | none => .error .io)

/-- `fs::create_dir_all(p)`: `Ok` for the empty path and for an existing directory (also through a link); creates `p`
    when the name is free; fails (EEXIST/ENOTDIR) when something else has the name -/
def createDirAllAct (p : Rs.Path) : Act Unit := fun w =>
  if p = [] then .ok ((), w)
  else match w.names p with
    | none => .ok ((), { w with names := upd w.names p (some .dir) }.logOp (.mkdir p))
    | some _ => if w.stat p = some .dir then .ok ((), w) else .error .io

/-- `fs::remove_file(p)` (`unlink`): removes the NAME — a symlink itself, never its target; EISDIR on a directory,
    ENOENT on a free name -/
def removeFileAct (p : Rs.Path) : Act Unit := fun w =>
  match w.names p with
  | some (.symlink _) => .ok ((), { w with names := upd w.names p none }.logOp (.unlink p))
  | some (.file i) => .ok ((), ({ w with names := upd w.names p none }.decLink i).logOp (.unlink p))
  | _ => .error .io

/-- `open(p, O_WRONLY | O_CREAT | O_TRUNC)` — what `File::create` and the destination side of `fs::copy` do: trailing
    symlinks ARE FOLLOWED; a free final name gets a new empty inode; an existing regular file is truncated IN PLACE
    (same inode, all its other names see it); a directory is EISDIR.  Answers the inode. -/
def createTrunc (w : LWorld) (p : Rs.Path) : Option (Nat × LWorld) :=
  match follow w.names LINK_FUEL p with
  | none => none
  | some q =>
    match w.names q with
    | none =>
      some (w.nextIno,
        { w with names := upd w.names q (some (.file w.nextIno)),
                 inodes := upd w.inodes w.nextIno (some ⟨[], w.now, [], 1⟩),
                 nextIno := w.nextIno + 1 }.logOp (.create q w.nextIno))
    | some (.file i) =>
      (match w.inodes i with
       | some n => some (i, { w with inodes := upd w.inodes i (some { n with bytes := [], mtime := w.now }) }.logOp (.truncate i))
       | none => none)
    | some _ => none

/-- `std::fs::copy(src, dst)`: open `src` (following links), `createTrunc dst`, then copy the bytes the source holds
    AT THAT MOMENT (so a destination that resolves to the source's own inode yields an empty file), new mtime;
    extended attributes are copied on platforms that do so; answers the number of bytes copied -/
def fsCopyAct (cfg : Cfg) (src dst : Rs.Path) : Act Nat := fun w =>
  match w.inoOf src with
  | none => .error .io
  | some s =>
    match createTrunc w dst with
    | none => .error .io
    | some (j, w1) =>
      match w1.inodes s, w1.inodes j with
      | some ns, some nj =>
        .ok (ns.bytes.length,
          { w1 with inodes := upd w1.inodes j (some { nj with
              bytes := ns.bytes, mtime := w1.now,
              xattrs := (if cfg.copyXattrs then ns.xattrs ++ nj.xattrs else nj.xattrs) }) }.logOp (.write j 0 ns.bytes))
      | _, _ => .error .io

/-- `copy_sparse_file(src, dst)` (local.rs:36-170) as ONE operation: `if dst.exists() { remove_file(dst) }`, `File::create(dst)`,
    the data regions, `set_len(size)` — content-exact under the SEEK_DATA contract (`Props.C01Bytes`, `Covers`) -/
def copySparseAct (src dst : Rs.Path) : Act Nat := fun w =>
  match w.inoOf src with
  | none => .error .io
  | some s =>
    match w.inodes s with
    | none => .error .io
    | some ns =>
      let r : Except Rs.Err (Unit × LWorld) := if (w.stat dst).isSome then removeFileAct dst w else .ok ((), w)
      match r with
      | .error e => .error e
      | .ok (_, w0) =>
        match createTrunc w0 dst with
        | none => .error .io
        | some (j, w1) =>
          match w1.inodes j with
          | some nj => .ok (ns.bytes.length,
              { w1 with inodes := upd w1.inodes j (some { nj with bytes := ns.bytes, mtime := w1.now }) }.logOp (.write j 0 ns.bytes))
          | none => .error .io

/-- `fs::rename(q, p)`: ATOMICALLY, `p` refers to what `q` referred to and `q` is free; what `p` referred to before loses
    that name.  ENOENT without `q`; renaming over a directory is refused -/
def renameAct (q p : Rs.Path) : Act Unit := fun w =>
  match w.names q with
  | none => .error .io
  | some nq =>
    match w.names p with
    | some .dir => .error .io
    | some (.file i) => .ok ((), ({ w with names := upd (upd w.names p (some nq)) q none }.decLink i).logOp (.rename q p))
    | _ => .ok ((), { w with names := upd (upd w.names p (some nq)) q none }.logOp (.rename q p))

/-- `xattr::list(p)` on a regular file name -/
def xattrListAct (p : Rs.Path) : Act (List Rs.Str) := fun w =>
  match w.names p with
  | some (.file i) => (match w.inodes i with | some n => .ok (n.xattrs, w) | none => .error .io)
  | _ => .error .io

/-- `xattr::remove(p, name)`: ENODATA when the inode has no such attribute -/
def xattrRemoveAct (p : Rs.Path) (name : Rs.Str) : Act Unit := fun w =>
  match w.names p with
  | some (.file i) =>
    (match w.inodes i with
     | some n =>
       if name ∈ n.xattrs then
         .ok ((), { w with inodes := upd w.inodes i (some { n with xattrs := n.xattrs.filter (· ≠ name) }) }.logOp (.xattrRemove i name))
       else .error .io
     | none => .error .io)
  | _ => .error .io

/-- `filetime::set_file_mtime(p, t)` (`utimensat`, FOLLOWS symlinks) on a regular file -/
def setMtimeAct (p : Rs.Path) (t : Nat) : Act Unit := fun w =>
  match w.inoOf p with
  | some i =>
    (match w.inodes i with
     | some n => .ok ((), { w with inodes := upd w.inodes i (some { n with mtime := t }) }.logOp (.utime p i t))
     | none => .error .io)
  | none => .error .io

def LWorld.newHandle (w : LWorld) (i : Nat) (writable : Bool) : Nat × LWorld :=
  (w.nextHandle, { w with handles := upd w.handles w.nextHandle (some ⟨i, 0, writable⟩), nextHandle := w.nextHandle + 1 })

/-- `File::open(p)`: read only, follows symlinks, position 0; ENOENT / not a regular file -/
def fileOpenAct (p : Rs.Path) : Act Nat := fun w =>
  match w.inoOf p with
  | some i => .ok (w.newHandle i false)
  | none => .error .io

/-- `File::create(p)` = `createTrunc`, write only, position 0 -/
def fileCreateAct (p : Rs.Path) : Act Nat := fun w =>
  match createTrunc w p with
  | some (j, w1) => .ok (w1.newHandle j true)
  | none => .error .io

/-- `File::options().write(b).open(p)`: NO create, NO truncate; follows symlinks; position 0 -/
def ooOpenAct (o : Rs.OpenOptions) (p : Rs.Path) : Act Nat := fun w =>
  match w.inoOf p with
  | some i => .ok (w.newHandle i o.write)
  | none => .error .io

def LWorld.setPos (w : LWorld) (h : Nat) (hd : Handle) (p : Nat) : LWorld :=
  { w with handles := upd w.handles h (some { hd with pos := p }) }

/-- `read(&mut buf)` on a regular file opened for reading (EBADF on a write-only descriptor): FULL reads — `min buf.len() remaining` bytes arrive at the front of the buffer
    (the rest of the buffer keeps what it held), the position advances by that count, which is the answer -/
def readAct (h : Nat) (buf : List Nat) : Act (Nat × List Nat) := fun w =>
  match w.handles h with
  | none => .error .io
  | some hd =>
    if hd.writable then .error .io
    else match w.inodes hd.ino with
    | none => .error .io
    | some n =>
      let k := min buf.length (n.bytes.length - hd.pos)
      .ok ((k, (n.bytes.drop hd.pos).take k ++ buf.drop k), w.setPos h hd (hd.pos + k))

/-- `read_exact(&mut buf)`: fills the whole buffer or fails (`UnexpectedEof`); needs a descriptor opened for reading —
    the working file is opened write-only (`File::options().write(true)`), so on it the call fails with EBADF -/
def readExactAct (h : Nat) (buf : List Nat) : Act (List Nat) := fun w =>
  match w.handles h with
  | none => .error .io
  | some hd =>
    if hd.writable then .error .io
    else match w.inodes hd.ino with
      | none => .error .io
      | some n =>
        if hd.pos + buf.length ≤ n.bytes.length then
          .ok ((n.bytes.drop hd.pos).take buf.length, w.setPos h hd (hd.pos + buf.length))
        else .error .io

/-- `write_all(data)` on a descriptor opened for writing (EBADF otherwise): `pwrite` at the position, which advances;
    new mtime; nothing at all for empty data -/
def writeAllAct (h : Nat) (data : List Nat) : Act Unit := fun w =>
  match w.handles h with
  | none => .error .io
  | some hd =>
    if !hd.writable then .error .io
    else if data.isEmpty then .ok ((), w)
    else match w.inodes hd.ino with
      | none => .error .io
      | some n =>
        .ok ((), { (w.setPos h hd (hd.pos + data.length)) with
                     inodes := upd w.inodes hd.ino (some { n with bytes := writeAtN n.bytes hd.pos data, mtime := w.now }) }.logOp
                   (.write hd.ino hd.pos data))

/-- `seek`: `Start n` sets the position; `End`/`Current` are relative; a negative result is EINVAL -/
def seekAct (h : Nat) (s : Rs.SeekFrom) : Act Nat := fun w =>
  match w.handles h with
  | none => .error .io
  | some hd =>
    match w.inodes hd.ino with
    | none => .error .io
    | some n =>
      let p : Int := match s with
        | .Start k => k
        | .End k => n.bytes.length + k
        | .Current k => hd.pos + k
      if p < 0 then .error .io else .ok (p.toNat, w.setPos h hd p.toNat)

/-- `File::set_len(n)` (`ftruncate`) on a descriptor opened for writing; the position does not move; new mtime -/
def setLenAct (h : Nat) (len : Nat) : Act Unit := fun w =>
  match w.handles h with
  | none => .error .io
  | some hd =>
    if !hd.writable then .error .io
    else match w.inodes hd.ino with
      | none => .error .io
      | some n =>
        .ok ((), { w with inodes := upd w.inodes hd.ino (some { n with bytes := setLenN n.bytes len, mtime := w.now }) }.logOp
                   (.setLen hd.ino len))

/-- `has_hard_links(p)` (fs_util.rs:210): `metadata(p).map(|m| m.nlink() > 1).unwrap_or(false)` -/
def hasHardLinks (w : LWorld) (p : Rs.Path) : Bool :=
  match w.inoOf p with
  | some i => (match w.inodes i with | some n => decide (1 < n.nlink) | none => false)
  | none => false

/-- Drop of one `TempFileGuard` that is still armed (temp_file.rs:69-79): `if path.exists() { let _ = remove_file(path); }`
    — the removal is an ordinary fallible system call whose error is ignored -/
def dropGuard (w : LWorld) (p : Rs.Path) : LWorld :=
  if (w.stat p).isSome then (prim (removeFileAct p) w).2 else w

/-- the suffix of `working_file_path` (temp_file.rs:35-42) -/
def TEMP_SUFFIX : Rs.Str := ['.', 's', 'y', '.', 't', 'm', 'p']

/-- THE INSTANCE: every operation of the translated unit in the world above. -/
def posix (cfg : Cfg) : Ext LWorld where
  try_exists p := prim (existsAct p)
  tokio_fs_metadata p := prim (metadataAct p)
  fs_metadata p := prim (metadataAct p)
  tokio_fs_symlink_metadata p := prim (lstatAct p)
  fs_symlink_metadata p := prim (lstatAct p)
  create_dir_all p := prim (createDirAllAct p)
  remove_file p := prim (removeFileAct p)
  fs_copy s d := prim (fsCopyAct cfg s d)
  fs_rename q p := prim (renameAct q p)
  xattr_list p := prim (xattrListAct p)
  xattr_remove p n := prim (xattrRemoveAct p n)
  filetime_set_file_mtime p t := prim (setMtimeAct p t)
  -- allocation is not part of the world: the answer is a parameter
  is_file_sparse _ := pure cfg.sparse
  copy_sparse_file s d := prim (copySparseAct s d)
  -- reads both files (fallible), changes nothing; only `use_delta` of the answer is looked at by the caller
  estimate_change_ratio _ _ _ _ _ := prim (fun w =>
    match cfg.ratio with
    | some b => .ok (⟨b, 0, 0, 0⟩, w)
    | none => .error .io)
  supports_cow_reflinks _ := pure cfg.cow
  same_filesystem _ _ := pure cfg.sameFs
  has_hard_links p := fun w => (.ok (hasHardLinks w p), w)
  -- `<file name>.sy.tmp` next to `dest` (names are path texts without a trailing `/`)
  working_file_path p := p ++ TEMP_SUFFIX
  -- `Rs.Opaque` carries no identity: a unit creates at most one guard per call, `defuse` disarms the newest
  TempFileGuard_new p := fun w => (.ok {}, { w with guards := p :: w.guards })
  guard_defuse _ := fun w => (.ok (), { w with guards := w.guards.tail })
  -- end of the closure's scope: every guard that is still armed is dropped
  scope_exit _ := fun w => (.ok (), w.guards.foldl dropGuard { w with guards := [] })
  File_open p := prim (fileOpenAct p)
  File_create p := prim (fileCreateAct p)
  oo_open o p := prim (ooOpenAct o p)
  Instant_now _ := pure {}
  instant_elapsed _ := pure 0
  format_bytes _ := []
  h_read h buf := prim (readAct h buf)
  h_read_exact h buf := prim (readExactAct h buf)
  h_write_all h d := prim (writeAllAct h d)
  h_seek h s := prim (seekAct h s)
  h_set_len h n := prim (setLenAct h n)
  -- `File::flush` is a no-op in std (no user-space buffer)
  h_flush _ := pure ()
  verify_on_write _ := pure cfg.verifyOnWrite
  -- checksums are collision-free on the compared blocks (standing assumption of C01): equal iff the bytes are equal
  verify_block _ a b := pure (a == b)
  compute_data_checksum _ _ := pure 0
  to_hex _ := pure []

end SyModel.LocalCopy
