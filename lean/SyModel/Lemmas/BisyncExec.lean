/-
  Locality of one bidirectional sync: what `sync` does to a path depends only on what the
  world holds at that path (given fresh conflict names), so whole-world statements reduce to
  a case analysis over one `View`.
-/
import SyModel.Lemmas.BisyncMap
namespace SyModel.Bisync

/-- everything the world holds at one path. -/
structure View where
  l : Option File
  r : Option File
  rl : Option Row
  rr : Option Row
  deriving DecidableEq, Repr

def World.view (w : World) (p : Path) : View :=
  ⟨aget p w.left, aget p w.right, aget (p, Side.source) w.db, aget (p, Side.dest) w.db⟩

def View.ctype (cfg : Cfg) (v : View) : Option ChangeType :=
  classifySingle cfg (v.l.map File.entry) (v.r.map File.entry) v.rl v.rr

def View.action (cfg : Cfg) (strat : Strategy) (stamp : Nat) (p : Path) (v : View) : Option Action :=
  (v.ctype cfg).bind fun ct => resolveOne strat stamp ⟨p, ct, v.l.map File.entry, v.r.map File.entry⟩

theorem ctypeAt_eq (cfg : Cfg) (w : World) (p : Path) : w.ctypeAt cfg p = (w.view p).ctype cfg := rfl

/-! ### the action list is per path -/

theorem classifyOne_eq (cfg : Cfg) (w : World) (p : Path) :
    classifyOne cfg (scan w.left) (scan w.right) w.db.loadAll p =
      ((w.view p).ctype cfg).map fun ct =>
        ⟨p, ct, (aget p w.left).map File.entry, (aget p w.right).map File.entry⟩ := by
  unfold classifyOne
  simp only [prior_source, prior_dest, lookup_scan]
  rfl

theorem actions_eq (cfg : Cfg) (strat : Strategy) (stamp : Nat) (w : World) :
    resolveChanges strat stamp (w.changes cfg) =
      w.allPaths.filterMap fun p => (w.view p).action cfg strat stamp p := by
  unfold resolveChanges World.changes classifyChanges World.allPaths
  rw [List.filterMap_filterMap]
  congr 1
  funext p
  rw [classifyOne_eq]
  unfold View.action
  cases (w.view p).ctype cfg <;> rfl

theorem resolveConflict_path (strat : Strategy) (p : Path) (s d : Option Entry) (stamp : Nat) :
    (resolveConflict strat p s d stamp).path = p := by
  cases strat <;> cases s <;> cases d <;>
    simp only [resolveConflict, resolveByMtime, resolveBySize] <;>
    (repeat' split) <;> rfl

theorem resolveConflict_stamp (strat : Strategy) (p : Path) (s d : Option Entry) (stamp : Nat)
    (p' : Path) (s' d' : Entry) (st : Nat)
    (h : resolveConflict strat p s d stamp = .renameConflict p' s' d' st) : st = stamp := by
  cases strat <;> cases s <;> cases d <;>
    simp only [resolveConflict, resolveByMtime, resolveBySize] at h <;>
    (repeat' split at h) <;> first | (cases h; rfl) | (exact absurd h (by simp))

theorem resolveOne_path {strat stamp} {c : Change} {a : Action}
    (h : resolveOne strat stamp c = some a) : a.path = c.path := by
  obtain ⟨p, ct, s, d⟩ := c
  cases ct <;> cases s <;> cases d <;> simp [resolveOne] at h <;> subst h <;>
    first | rfl | exact resolveConflict_path ..

theorem resolveOne_stamp {strat stamp} {c : Change} {p' s' d' st}
    (h : resolveOne strat stamp c = some (.renameConflict p' s' d' st)) : st = stamp := by
  obtain ⟨p, ct, s, d⟩ := c
  cases ct <;> cases s <;> cases d <;> simp [resolveOne] at h <;>
    exact resolveConflict_stamp _ _ _ _ _ _ _ _ _ h

theorem action_path {cfg strat stamp p} {v : View} {a : Action}
    (h : v.action cfg strat stamp p = some a) : a.path = p := by
  unfold View.action at h
  cases hc : v.ctype cfg with
  | none => simp [hc] at h
  | some ct =>
    simp only [hc, Option.bind_some] at h
    exact resolveOne_path h

theorem action_stamp {cfg strat stamp p} {v : View} {p' s' d' st}
    (h : v.action cfg strat stamp p = some (.renameConflict p' s' d' st)) : st = stamp := by
  unfold View.action at h
  cases hc : v.ctype cfg with
  | none => simp [hc] at h
  | some ct =>
    simp only [hc, Option.bind_some] at h
    exact resolveOne_stamp h

/-! ### execution on lookup functions -/

structure FS where
  L : Path → Option File
  R : Path → Option File
  errs : List Path

def ExecState.abs (st : ExecState) : FS := ⟨fun q => aget q st.left, fun q => aget q st.right, st.errors⟩

def upd (f : Path → Option File) (k : Path) (v : Option File) : Path → Option File :=
  fun q => if q = k then v else f q

theorem upd_def (f : Path → Option File) (k : Path) (v : Option File) :
    upd f k v = fun q => if q = k then v else f q := rfl

def stepF (now : Nat) (F : FS) : Action → FS
  | .copyToSource p _ =>
    match F.R p with
    | some f => { F with L := upd F.L p (some { f with mtime := now }) }
    | none => { F with errs := F.errs ++ [p] }
  | .copyToDest p _ =>
    match F.L p with
    | some f => { F with R := upd F.R p (some { f with mtime := now }) }
    | none => { F with errs := F.errs ++ [p] }
  | .deleteFromSource p =>
    match F.L p with
    | some _ => { F with L := upd F.L p none }
    | none => { F with errs := F.errs ++ [p] }
  | .deleteFromDest p =>
    match F.R p with
    | some _ => { F with R := upd F.R p none }
    | none => { F with errs := F.errs ++ [p] }
  | .renameConflict p _ _ stamp =>
    match F.L p with
    | none => { F with errs := F.errs ++ [p] }
    | some fl =>
      let L' := upd (upd F.L p none) (conflictName p stamp .source) (some fl)
      match F.R p with
      | none => { F with L := L', errs := F.errs ++ [p] }
      | some fr => { L := L', R := upd (upd F.R p none) (conflictName p stamp .dest) (some fr), errs := F.errs }

theorem abs_execOne (now : Nat) (st : ExecState) (a : Action) :
    (execOne now st a).abs = stepF now st.abs a := by
  cases a with
  | copyToSource p e =>
    simp only [execOne, stepF, ExecState.abs, copyFile]
    cases h : aget p st.right <;> simp [h, upd_def, aget_aset]
  | copyToDest p e =>
    simp only [execOne, stepF, ExecState.abs, copyFile]
    cases h : aget p st.left <;> simp [h, upd_def, aget_aset]
  | deleteFromSource p =>
    simp only [execOne, stepF, ExecState.abs]
    cases h : aget p st.left <;> simp [h, upd_def, aget_aerase]
  | deleteFromDest p =>
    simp only [execOne, stepF, ExecState.abs]
    cases h : aget p st.right <;> simp [h, upd_def, aget_aerase]
  | renameConflict p s d stamp =>
    simp only [execOne, stepF, ExecState.abs, renameFile]
    cases h : aget p st.left with
    | none => simp [h]
    | some fl =>
      cases h2 : aget p st.right with
      | none => simp [h, h2, upd_def, aget_aset, aget_aerase]
      | some fr => simp [h, h2, upd_def, aget_aset, aget_aerase]

theorem abs_execActions (now : Nat) (acts : List Action) (st : ExecState) :
    (execActions now acts st).abs = acts.foldl (stepF now) st.abs := by
  unfold execActions
  induction acts generalizing st with
  | nil => rfl
  | cons a t ih => simp only [List.foldl_cons]; rw [ih, abs_execOne]

/-- the two files of the action's own path afterwards. -/
def own (now : Nat) (a : Option Action) (l r : Option File) : Option File × Option File :=
  match a with
  | none => (l, r)
  | some (.copyToSource ..) => match r with
    | some f => (some { f with mtime := now }, r)
    | none => (l, r)
  | some (.copyToDest ..) => match l with
    | some f => (l, some { f with mtime := now })
    | none => (l, r)
  | some (.deleteFromSource _) => (none, r)
  | some (.deleteFromDest _) => (l, none)
  | some (.renameConflict ..) => match l with
    | none => (l, r)
    | some _ => (none, none)

def enabled (a : Action) (l r : Option File) : Bool :=
  match a with
  | .copyToSource .. => r.isSome
  | .copyToDest .. => l.isSome
  | .deleteFromSource _ => l.isSome
  | .deleteFromDest _ => r.isSome
  | .renameConflict .. => l.isSome && r.isSome

def names (stamp : Nat) (p : Path) : List Path := [conflictName p stamp .source, conflictName p stamp .dest]

/-- well-formed action choice: the action of `p` works on `p` and uses the run's stamp. -/
def GoodChoice (stamp : Nat) (g : Path → Option Action) : Prop :=
  ∀ p a, g p = some a → a.path = p ∧ ∀ p' s d st, a = .renameConflict p' s d st → st = stamp

theorem stepF_frame (now stamp : Nat) (F : FS) (a : Action) (p q : Path)
    (hp : a.path = p) (hs : ∀ p' s d st, a = .renameConflict p' s d st → st = stamp)
    (h1 : q ≠ p) (h2 : q ≠ conflictName p stamp .source) (h3 : q ≠ conflictName p stamp .dest) :
    (stepF now F a).L q = F.L q ∧ (stepF now F a).R q = F.R q := by
  cases a with
  | copyToSource p' e =>
    subst hp; simp only [Action.path] at *; simp only [stepF]; cases h : F.R p' <;> simp [upd, h, h1]
  | copyToDest p' e =>
    subst hp; simp only [Action.path] at *; simp only [stepF]; cases h : F.L p' <;> simp [upd, h, h1]
  | deleteFromSource p' =>
    subst hp; simp only [Action.path] at *; simp only [stepF]; cases h : F.L p' <;> simp [upd, h, h1]
  | deleteFromDest p' =>
    subst hp; simp only [Action.path] at *; simp only [stepF]; cases h : F.R p' <;> simp [upd, h, h1]
  | renameConflict p' s d st =>
    subst hp
    have : st = stamp := hs _ _ _ _ rfl
    subst this
    simp only [stepF]
    simp only [Action.path] at h1 h2 h3
    cases F.L p' <;> cases h : F.R p' <;> simp [upd, h, h1, h2, h3]

theorem stepF_own (now stamp : Nat) (F : FS) (a : Action) (p : Path)
    (hp : a.path = p) (hs : ∀ p' s d st, a = .renameConflict p' s d st → st = stamp)
    (h2 : p ≠ conflictName p stamp .source) (h3 : p ≠ conflictName p stamp .dest) :
    ((stepF now F a).L p, (stepF now F a).R p) = own now (some a) (F.L p) (F.R p) := by
  cases a with
  | copyToSource p' e =>
    subst hp; simp only [Action.path] at *; simp only [stepF, own]; cases h : F.R p' <;> simp [upd, h]
  | copyToDest p' e =>
    subst hp; simp only [Action.path] at *; simp only [stepF, own]; cases h : F.L p' <;> simp [upd, h]
  | deleteFromSource p' =>
    subst hp; simp only [Action.path] at *; simp only [stepF, own]; cases h : F.L p' <;> simp [upd, h]
  | deleteFromDest p' =>
    subst hp; simp only [Action.path] at *; simp only [stepF, own]; cases h : F.R p' <;> simp [upd, h]
  | renameConflict p' s d st =>
    subst hp
    have : st = stamp := hs _ _ _ _ rfl
    subst this
    simp only [Action.path] at h2 h3
    simp only [stepF, own, Action.path]
    cases h : F.L p' <;> cases h' : F.R p' <;> simp [upd, h2, h3, h, h']

theorem stepF_errs (now : Nat) (F : FS) (a : Action) (h : enabled a (F.L a.path) (F.R a.path) = true) :
    (stepF now F a).errs = F.errs := by
  cases a <;> simp only [enabled, Action.path, Bool.and_eq_true] at h <;> simp only [stepF]
  · cases hh : F.R _ <;> simp_all
  · cases hh : F.L _ <;> simp_all
  · cases hh : F.L _ <;> simp_all
  · cases hh : F.R _ <;> simp_all
  · cases hh : F.L _ <;> cases hh' : F.R _ <;> simp_all

/-- where the renamed files end up. -/
theorem stepF_names (now stamp : Nat) (F : FS) (a : Action) (p : Path)
    (hp : a.path = p) (hs : ∀ p' s d st, a = .renameConflict p' s d st → st = stamp)
    (h2 : p ≠ conflictName p stamp .source) (h3 : p ≠ conflictName p stamp .dest)
    (h4 : conflictName p stamp .source ≠ conflictName p stamp .dest) :
    (stepF now F a).L (conflictName p stamp .source) =
        (if a.isRename = true ∧ (F.L p).isSome = true then F.L p else F.L (conflictName p stamp .source)) ∧
    (stepF now F a).R (conflictName p stamp .source) = F.R (conflictName p stamp .source) ∧
    (stepF now F a).L (conflictName p stamp .dest) = F.L (conflictName p stamp .dest) ∧
    (stepF now F a).R (conflictName p stamp .dest) =
        (if a.isRename = true ∧ (F.L p).isSome = true ∧ (F.R p).isSome = true then F.R p
         else F.R (conflictName p stamp .dest)) := by
  have h2' := Ne.symm h2
  have h3' := Ne.symm h3
  have h4' := Ne.symm h4
  cases a with
  | copyToSource p' e =>
    subst hp; simp only [Action.path] at *
    simp only [stepF, Action.isRename]; split <;> simp [upd, h2', h3']
  | copyToDest p' e =>
    subst hp; simp only [Action.path] at *
    simp only [stepF, Action.isRename]; split <;> simp [upd, h2', h3']
  | deleteFromSource p' =>
    subst hp; simp only [Action.path] at *
    simp only [stepF, Action.isRename]; split <;> simp [upd, h2', h3']
  | deleteFromDest p' =>
    subst hp; simp only [Action.path] at *
    simp only [stepF, Action.isRename]; split <;> simp [upd, h2', h3']
  | renameConflict p' s d st =>
    subst hp
    have : st = stamp := hs _ _ _ _ rfl
    subst this
    simp only [Action.path] at *
    simp only [stepF, Action.isRename]
    cases h : F.L p' <;> cases h' : F.R p' <;> simp [upd, h2', h3', h4, h4', h']

/-! ### the fold over all paths -/

structure FreshFor (stamp : Nat) (ps : List Path) : Prop where
  nodup : ps.Nodup
  nnodup : (ps.flatMap (names stamp)).Nodup
  disj : ∀ q ∈ ps.flatMap (names stamp), q ∉ ps

theorem FreshFor.tail {stamp p ps} (h : FreshFor stamp (p :: ps)) : FreshFor stamp ps := by
  refine ⟨(List.nodup_cons.mp h.nodup).2, ?_, ?_⟩
  · have := h.nnodup
    rw [List.flatMap_cons] at this
    exact (List.nodup_append.mp this).2.1
  · intro q hq hq'
    exact h.disj q (by rw [List.flatMap_cons]; exact List.mem_append_right _ hq) (List.mem_cons_of_mem _ hq')

theorem FreshFor.head {stamp p ps} (h : FreshFor stamp (p :: ps)) :
    p ∉ ps ∧ p ≠ conflictName p stamp .source ∧ p ≠ conflictName p stamp .dest ∧
    conflictName p stamp .source ≠ conflictName p stamp .dest ∧
    (∀ sd, conflictName p stamp sd ∉ ps) ∧
    (∀ sd, conflictName p stamp sd ∉ ps.flatMap (names stamp)) ∧
    (∀ q ∈ ps, ∀ sd, conflictName q stamp sd ≠ p) := by
  have hn := h.nnodup
  rw [List.flatMap_cons] at hn
  have hn' := List.nodup_append.mp hn
  have hmem : ∀ sd, conflictName p stamp sd ∈ (p :: ps).flatMap (names stamp) := by
    intro sd; rw [List.flatMap_cons]; apply List.mem_append_left
    cases sd <;> simp [names]
  have hmem' : ∀ sd, conflictName p stamp sd ∈ names stamp p := by
    intro sd; cases sd <;> simp [names]
  refine ⟨(List.nodup_cons.mp h.nodup).1, ?_, ?_, ?_, ?_, ?_, ?_⟩
  · intro e; exact h.disj _ (hmem .source) (by rw [← e]; exact List.mem_cons_self)
  · intro e; exact h.disj _ (hmem .dest) (by rw [← e]; exact List.mem_cons_self)
  · have := hn'.1; simp only [names, List.nodup_cons, List.mem_singleton] at this; exact this.1
  · intro sd hq; exact h.disj _ (hmem sd) (List.mem_cons_of_mem _ hq)
  · intro sd hq; exact hn'.2.2 _ (hmem' sd) _ hq rfl
  · intro q hq sd e
    refine h.disj (conflictName q stamp sd) ?_ (by rw [e]; exact List.mem_cons_self)
    rw [List.flatMap_cons]; apply List.mem_append_right
    rw [List.mem_flatMap]; exact ⟨q, hq, by cases sd <;> simp [names]⟩

def isRen (o : Option Action) : Bool := (o.map Action.isRename).getD false

def stepO (now : Nat) (F : FS) : Option Action → FS
  | none => F
  | some a => stepF now F a

def runF (now : Nat) (g : Path → Option Action) (ps : List Path) (F : FS) : FS :=
  (ps.filterMap g).foldl (stepF now) F

theorem runF_cons (now : Nat) (g : Path → Option Action) (p : Path) (ps : List Path) (F : FS) :
    runF now g (p :: ps) F = runF now g ps (stepO now F (g p)) := by
  unfold runF
  cases h : g p <;> simp [List.filterMap_cons, h, stepO]

/-- what the whole fold leaves at the conflict names of `p`. -/
def NamesSpec (stamp : Nat) (o : Option Action) (p : Path) (F F' : FS) : Prop :=
  F'.L (conflictName p stamp .source) =
      (if isRen o = true ∧ (F.L p).isSome = true then F.L p else F.L (conflictName p stamp .source)) ∧
  F'.R (conflictName p stamp .source) = F.R (conflictName p stamp .source) ∧
  F'.L (conflictName p stamp .dest) = F.L (conflictName p stamp .dest) ∧
  F'.R (conflictName p stamp .dest) =
      (if isRen o = true ∧ (F.L p).isSome = true ∧ (F.R p).isSome = true then F.R p
       else F.R (conflictName p stamp .dest))

theorem runF_spec (now stamp : Nat) (g : Path → Option Action) (hg : GoodChoice stamp g) :
    ∀ (ps : List Path) (F : FS), FreshFor stamp ps →
      (∀ q, q ∉ ps → q ∉ ps.flatMap (names stamp) →
        (runF now g ps F).L q = F.L q ∧ (runF now g ps F).R q = F.R q) ∧
      (∀ p ∈ ps, ((runF now g ps F).L p, (runF now g ps F).R p) = own now (g p) (F.L p) (F.R p)) ∧
      (∀ p ∈ ps, NamesSpec stamp (g p) p F (runF now g ps F)) ∧
      ((∀ p ∈ ps, ∀ a, g p = some a → enabled a (F.L p) (F.R p) = true) →
        (runF now g ps F).errs = F.errs) := by
  intro ps
  induction ps with
  | nil => intro F _; simp [runF]
  | cons p0 ps ih =>
    intro F hf
    obtain ⟨h0, h1, h2, h3, h4, h5, h6⟩ := hf.head
    have hft := hf.tail
    rw [runF_cons]
    -- facts about the first step
    have f1_frame : ∀ q, q ≠ p0 → q ≠ conflictName p0 stamp .source → q ≠ conflictName p0 stamp .dest →
        (stepO now F (g p0)).L q = F.L q ∧ (stepO now F (g p0)).R q = F.R q := by
      intro q a b c
      cases hgp : g p0 with
      | none => simp [stepO]
      | some act => exact stepF_frame now stamp F act p0 q (hg _ _ hgp).1 (hg _ _ hgp).2 a b c
    have f1_own : ((stepO now F (g p0)).L p0, (stepO now F (g p0)).R p0) = own now (g p0) (F.L p0) (F.R p0) := by
      cases hgp : g p0 with
      | none => simp [stepO, own]
      | some act => exact stepF_own now stamp F act p0 (hg _ _ hgp).1 (hg _ _ hgp).2 h1 h2
    have f1_names : NamesSpec stamp (g p0) p0 F (stepO now F (g p0)) := by
      cases hgp : g p0 with
      | none => simp [stepO, NamesSpec, isRen]
      | some act =>
        have := stepF_names now stamp F act p0 (hg _ _ hgp).1 (hg _ _ hgp).2 h1 h2 h3
        exact this
    obtain ⟨ihA, ihB, ihC, ihD⟩ := ih (stepO now F (g p0)) hft
    refine ⟨?_, ?_, ?_, ?_⟩
    · intro q hq hqn
      have hq0 : q ≠ p0 := fun e => hq (e ▸ List.mem_cons_self)
      have hq' : q ∉ ps := fun m => hq (List.mem_cons_of_mem _ m)
      rw [List.flatMap_cons, List.mem_append, not_or] at hqn
      have hqs : q ≠ conflictName p0 stamp .source := fun e => hqn.1 (by simp [names, e])
      have hqd : q ≠ conflictName p0 stamp .dest := fun e => hqn.1 (by simp [names, e])
      obtain ⟨a1, a2⟩ := ihA q hq' hqn.2
      obtain ⟨b1, b2⟩ := f1_frame q hq0 hqs hqd
      exact ⟨a1.trans b1, a2.trans b2⟩
    · intro p hp
      rcases List.mem_cons.mp hp with rfl | hp'
      · obtain ⟨a1, a2⟩ := ihA p h0 (by
          intro hm; rw [List.mem_flatMap] at hm
          obtain ⟨q, hq, hm⟩ := hm
          simp only [names, List.mem_cons, List.mem_singleton, List.not_mem_nil, or_false] at hm
          rcases hm with e | e
          · exact h6 q hq .source e.symm
          · exact h6 q hq .dest e.symm)
        rw [a1, a2]; exact f1_own
      · have hne : p ≠ p0 := fun e => h0 (e ▸ hp')
        obtain ⟨b1, b2⟩ := f1_frame p hne (fun e => h4 .source (e ▸ hp')) (fun e => h4 .dest (e ▸ hp'))
        rw [ihB p hp', b1, b2]
    · intro p hp
      rcases List.mem_cons.mp hp with rfl | hp'
      · -- the conflict names of the head are untouched by the rest
        have hs := ihA (conflictName p stamp .source) (h4 .source) (h5 .source)
        have hd := ihA (conflictName p stamp .dest) (h4 .dest) (h5 .dest)
        unfold NamesSpec at f1_names ⊢
        rw [hs.1, hs.2, hd.1, hd.2]; exact f1_names
      · have hne : p ≠ p0 := fun e => h0 (e ▸ hp')
        have hfp := (hft : FreshFor stamp ps)
        -- names of p differ from p0 and from the names of p0
        have n1 : ∀ sd, conflictName p stamp sd ≠ p0 := fun sd => h6 p hp' sd
        have n2 : ∀ sd sd', conflictName p stamp sd ≠ conflictName p0 stamp sd' := by
          intro sd sd' e
          apply h5 sd'
          rw [List.mem_flatMap]; exact ⟨p, hp', by rw [← e]; cases sd <;> simp [names]⟩
        obtain ⟨b1, b2⟩ := f1_frame p hne (fun e => h4 .source (e ▸ hp')) (fun e => h4 .dest (e ▸ hp'))
        obtain ⟨c1, c2⟩ := f1_frame (conflictName p stamp .source) (n1 _) (n2 _ _) (n2 _ _)
        obtain ⟨d1, d2⟩ := f1_frame (conflictName p stamp .dest) (n1 _) (n2 _ _) (n2 _ _)
        have := ihC p hp'
        unfold NamesSpec at this ⊢
        rw [b1, b2, c1, c2, d1, d2] at this
        exact this
    · intro hen
      have e1 : (stepO now F (g p0)).errs = F.errs := by
        cases hgp : g p0 with
        | none => simp [stepO]
        | some act =>
          have := hen p0 List.mem_cons_self act hgp
          simp only [stepO]
          apply stepF_errs
          rw [(hg _ _ hgp).1]; exact this
      rw [ihD ?_, e1]
      intro p hp' a ha
      have hne : p ≠ p0 := fun e => h0 (e ▸ hp')
      obtain ⟨b1, b2⟩ := f1_frame p hne (fun e => h4 .source (e ▸ hp')) (fun e => h4 .dest (e ▸ hp'))
      rw [b1, b2]; exact hen p (List.mem_cons_of_mem _ hp') a ha

end SyModel.Bisync
