/-
  Lemmas.GenEnginePlan — vocabulary and helper lemmas of `Props/GenEnginePlan.lean`: the bridge for the TRANSLATED
  round of the planning loop of `SyncEngine::sync` (`Generated/Code/EnginePlan.lean`, `plan_round`, regenerated on every
  run from src/sync/mod.rs, `for file in &source_files { … }`).

  Contents
    1. the round as a STRUCTURED PROGRAM `roundSpec` = `plannerCall → override1 → override2 → push`, and
       `plan_round_eq_spec`: the generated do-block IS that program, as an equation between computations, for ANY
       instance of `Ext W`;
    2. the composition with unit PlannerFx: field-wise maps between the two units' copies of `FileEntry`, `SyncTask`,
       `SyncAction`, `SymlinkMode`, `SyncEngine`, and the instance `ext2 p : EnginePlan.Ext PlanWorld` whose
       `plan_file_async` / `plan_symlink` ARE the generated functions of unit PlannerFx on `extOf`;
    3. the round read at the level of the world (`plan_round_run`): `roundTask`, `roundLinks`;
    4. `Rs.path_starts_with` on joined texts versus the model's component-wise `isPrefix`;
    5. the invariant `RL` relating `replaced_links` to the symlink nodes of the destination map.
-/
import SyModel.Generated.Code.EnginePlan
import SyModel.Lemmas.GenPlannerFx
set_option linter.unusedVariables false
set_option linter.unusedSimpArgs false
namespace SyModel.Lemmas.GenEnginePlan
open SyModel SyModel.Engine SyModel.Generated SyModel.Generated.EnginePlan
open SyModel.Lemmas.GenPlannerFx (PlanWorld runM runM_pure runM_bind runM_probe runM_capture runM_map probe extOf
  compsOf textOf CleanPath)

/-! ## 1. the structured program (any instance) -/

section anyInstance
variable {W : Type}

/-- `matches!(a, SyncAction::Skip | SyncAction::Create)` -/
def isSkipOrCreate : SyncAction → Bool
  | .Skip | .Create => true
  | _ => false

/-- `matches!(a, SyncAction::Skip)` -/
def isSkip : SyncAction → Bool
  | .Skip => true
  | _ => false

/-- the answer of override 1's `read_link` probe that forces the transfer: `Ok(Some(_)) | Err(_)` -/
def hit1 : Except Rs.Err (Option Rs.Path) → Bool
  | .ok (some _) => true
  | .ok none => false
  | .error _ => true

/-- the answer of override 2's `read_link` probe that makes the path a replaced link: `Ok(Some(_))` only -/
def hit2 : Except Rs.Err (Option Rs.Path) → Bool
  | .ok (some _) => true
  | .ok none => false
  | .error _ => false

@[simp] theorem hit1_some (t : Rs.Path) : hit1 (.ok (some t)) = true := rfl
@[simp] theorem hit1_none : hit1 (.ok none) = false := rfl
@[simp] theorem hit1_error (e : Rs.Err) : hit1 (.error e) = true := rfl
@[simp] theorem hit2_some (t : Rs.Path) : hit2 (.ok (some t)) = true := rfl
@[simp] theorem hit2_none : hit2 (.ok none) = false := rfl
@[simp] theorem hit2_error (e : Rs.Err) : hit2 (.error e) = false := rfl

/-- `task.action = a` -/
def setAct (t : SyncTask) (a : SyncAction) : SyncTask := { t with action := a }

/-- the planner call of the round: `plan_symlink` for symlink entries, `plan_file_async` for all others -/
def plannerCall (ext : Ext W) (self : SyncEngine) (file : FileEntry) (destination : Rs.Path) (planner : Rs.Opaque)
    (db : Option Rs.Opaque) : Rs.M W SyncTask :=
  if file.is_symlink then ext.plan_symlink self file destination planner db
  else ext.plan_file_async planner file destination self.transport db

/-- the condition under which override 1 asks its probe (the three conjuncts to the left of the `read_link` call) -/
def probe1Asked (file : FileEntry) (task : SyncTask) : Bool :=
  (!file.is_dir) && isSkipOrCreate task.action && Rs.is_some_and task.source (fun f => !f.is_symlink)

/-- override 1 (fixes 0eacf0e, 90eec9e): a destination symlink — or an unanswered probe — at the path of a
    non-directory, non-symlink source planned Skip/Create ⇒ Update.  The probe runs ONLY under `probe1Asked`. -/
def override1 (ext : Ext W) (self : SyncEngine) (file : FileEntry) (task : SyncTask) : Rs.M W SyncTask :=
  if probe1Asked file task then do
    let r ← Rs.capture (ext.t_read_link self.transport task.dest_path)
    pure (if hit1 r then setAct task .Update else task)
  else pure task

/-- `replaced_links.iter().any(|link| task.dest_path.starts_with(link))` -/
def belowReplaced (rl : List Rs.Path) (p : Rs.Path) : Bool := rl.any fun link => Rs.path_starts_with p link

/-- `nothing_to_transfer` (fix 135a0e1) -/
def nothingToTransfer (self : SyncEngine) (task : SyncTask) : Bool :=
  isSkip task.action && (self.symlink_mode != SymlinkMode.Preserve) && Rs.is_some_and task.source (fun f => f.is_symlink)

/-- override 2 (fixes 862af11, 135a0e1): below a replaced link ⇒ Create (unless nothing is transferred), with NO probe;
    else, for a directory entry only, the probe: a symlink there ⇒ Update and the path joins `replaced_links` -/
def override2 (ext : Ext W) (self : SyncEngine) (file : FileEntry) (task : SyncTask) (rl : List Rs.Path) :
    Rs.M W (SyncTask × List Rs.Path) :=
  if belowReplaced rl task.dest_path then
    pure (if nothingToTransfer self task then task else setAct task .Create, rl)
  else if file.is_dir then do
    let r ← Rs.capture (ext.t_read_link self.transport task.dest_path)
    pure (if hit2 r then (setAct task .Update, rl ++ [task.dest_path]) else (task, rl))
  else pure (task, rl)

/-- one round: planner call → override 1 → override 2 → push -/
def roundSpec (ext : Ext W) (self : SyncEngine) (file : FileEntry) (destination : Rs.Path) (planner : Rs.Opaque)
    (db : Option Rs.Opaque) (tasks : List SyncTask) (rl : List Rs.Path) :
    Rs.M W (Unit × List SyncTask × List Rs.Path) := do
  let t0 ← plannerCall ext self file destination planner db
  let t1 ← override1 ext self file t0
  let r ← override2 ext self file t1 rl
  pure ((), tasks ++ [r.1], r.2)

theorem hit1_eq (r : Except Rs.Err (Option Rs.Path)) :
    (match r with | .ok (some _) | .error _ => true | _ => false) = hit1 r := by
  rcases r with e | (_ | _) <;> rfl

theorem hit2_eq (r : Except Rs.Err (Option Rs.Path)) :
    (match r with | .ok (some _) => true | _ => false) = hit2 r := by
  rcases r with e | (_ | _) <;> rfl

/-- THE NORMAL FORM: the generated round IS the structured program, for every instance. -/
theorem plan_round_eq_spec (ext : Ext W) (self : SyncEngine) (file : FileEntry) (destination : Rs.Path)
    (planner : Rs.Opaque) (db : Option Rs.Opaque) (tasks : List SyncTask) (rl : List Rs.Path) :
    plan_round ext self file destination planner db tasks rl =
      roundSpec ext self file destination planner db tasks rl := by
  unfold plan_round roundSpec plannerCall
  simp only [bind_assoc, pure_bind]
  split <;> refine bind_congr fun task => ?_
  all_goals
    rcases task with ⟨src, dp, act, sc, dc⟩
    unfold override1 override2 belowReplaced
    cases hb : (rl.any fun link => Rs.path_starts_with dp link) <;> cases hd : file.is_dir <;> cases act <;>
      cases hs1 : (Rs.is_some_and src fun f => !f.is_symlink) <;>
      cases hs2 : (Rs.is_some_and src fun f => f.is_symlink) <;>
      cases hm : (self.symlink_mode != SymlinkMode.Preserve) <;>
      simp only [probe1Asked, isSkipOrCreate, isSkip, nothingToTransfer, setAct, Rs.any, hb, hd, hs1, hs2, hm,
        Bool.not_true, Bool.not_false, Bool.false_and, Bool.true_and, Bool.and_true, Bool.and_false,
        Bool.false_eq_true, if_true, if_false, pure_bind, bind_assoc] <;>
      first
        | rfl
        | (refine bind_congr fun r => ?_
           rcases r with e | (_ | _) <;>
             simp only [hit1_some, hit1_none, hit1_error, hit2_some, hit2_none, hit2_error, pure_bind,
               Bool.false_eq_true, if_true, if_false, hb, hs1, hs2, hm, Bool.false_and, Bool.true_and, Bool.and_true,
               Bool.and_false, Bool.not_false, Bool.not_true] <;> rfl)

end anyInstance

/-! ## 2. composition with unit PlannerFx

  The two units are translated separately, each with its own copy of `FileEntry`, `SyncTask`, `SyncAction`,
  `SymlinkMode` and its own view of `SyncEngine` (same fields).  `ext2 p` is the `Ext` of THIS unit whose
  `plan_file_async` / `plan_symlink` ARE the translated functions of unit PlannerFx, run on that unit's instance `extOf`
  over `PlanWorld`, through the field-by-field conversions below.  The planner is an opaque handle in this unit
  (the loop only passes it on); in unit PlannerFx it is the record `StrategyPlanner`: `ext2` is indexed by the planner
  value `p` the handle stands for.  `source_checksum` / `dest_checksum` are opaque here (`Checksum`): their presence is
  kept, their value is not (the planning loop never reads them). -/

def toPMode : SymlinkMode → PlannerFx.SymlinkMode
  | .Preserve => .Preserve | .Follow => .Follow | .Skip => .Skip

def toPEngine (s : SyncEngine) : PlannerFx.SyncEngine := { symlink_mode := toPMode s.symlink_mode, transport := s.transport }

def toPEntry (e : FileEntry) : PlannerFx.FileEntry :=
  { path := e.path, relative_path := e.relative_path, size := e.size, modified := e.modified, is_dir := e.is_dir,
    is_symlink := e.is_symlink, symlink_target := e.symlink_target, is_sparse := e.is_sparse,
    allocated_size := e.allocated_size, xattrs := e.xattrs, inode := e.inode, nlink := e.nlink, acls := e.acls,
    bsd_flags := e.bsd_flags }

def ofPEntry (e : PlannerFx.FileEntry) : FileEntry :=
  { path := e.path, relative_path := e.relative_path, size := e.size, modified := e.modified, is_dir := e.is_dir,
    is_symlink := e.is_symlink, symlink_target := e.symlink_target, is_sparse := e.is_sparse,
    allocated_size := e.allocated_size, xattrs := e.xattrs, inode := e.inode, nlink := e.nlink, acls := e.acls,
    bsd_flags := e.bsd_flags }

def ofPAct : PlannerFx.SyncAction → SyncAction
  | .Skip => .Skip | .Create => .Create | .Update => .Update | .Delete => .Delete

def toPAct : SyncAction → PlannerFx.SyncAction
  | .Skip => .Skip | .Create => .Create | .Update => .Update | .Delete => .Delete

def ofPTask (t : PlannerFx.SyncTask) : SyncTask :=
  { source := t.source.map ofPEntry, dest_path := t.dest_path, action := ofPAct t.action,
    source_checksum := t.source_checksum.map fun _ => ⟨⟩, dest_checksum := t.dest_checksum.map fun _ => ⟨⟩ }

/-- back to unit PlannerFx's task type (checksum VALUES are not kept by `ofPTask`; none of the abstraction maps reads
    them) -/
def toPTask (t : SyncTask) : PlannerFx.SyncTask :=
  { source := t.source.map toPEntry, dest_path := t.dest_path, action := toPAct t.action,
    source_checksum := none, dest_checksum := none }

@[simp] theorem toPEntry_ofPEntry (e : PlannerFx.FileEntry) : toPEntry (ofPEntry e) = e := rfl
@[simp] theorem ofPEntry_toPEntry (e : FileEntry) : ofPEntry (toPEntry e) = e := rfl
@[simp] theorem toPAct_ofPAct (a : PlannerFx.SyncAction) : toPAct (ofPAct a) = a := by cases a <;> rfl
@[simp] theorem ofPAct_toPAct (a : SyncAction) : ofPAct (toPAct a) = a := by cases a <;> rfl

/-- THE COMPOSED INSTANCE: the planner operations are the generated functions of unit PlannerFx on `extOf`; the link
    probe is that unit's `extOf.t_read_link` (`read_link` does not follow; it never fails on this world) -/
def ext2 (p : PlannerFx.StrategyPlanner) : Ext PlanWorld where
  plan_symlink self file dest _ db :=
    ofPTask <$> PlannerFx.SyncEngine.plan_symlink extOf (toPEngine self) (toPEntry file) dest p db
  plan_file_async _ file dest t db := ofPTask <$> p.plan_file_async extOf (toPEntry file) dest t db
  t_read_link := extOf.t_read_link

/-! ## 3. the round at the level of the world -/

open SyModel.Lemmas.GenPlannerFx (planAt linkPlan plan_file_async_run plan_symlink_run)

/-- what unit PlannerFx plans for the entry (world-level reading of `plan_symlink` / `plan_file_async`) -/
def planned (w : PlanWorld) (p : PlannerFx.StrategyPlanner) (self : SyncEngine) (file : FileEntry) (useDb : Bool) :
    PlannerFx.SyncTask :=
  if file.is_symlink then linkPlan w (toPEngine self) (toPEntry file) p useDb
  else
    { source := some (toPEntry file), dest_path := Rs.join w.root file.relative_path,
      action := (planAt w p (toPEntry file) useDb).1, source_checksum := (planAt w p (toPEntry file) useDb).2.1,
      dest_checksum := (planAt w p (toPEntry file) useDb).2.2 }

/-- override 1 on this world: the probe answers `Ok(linkAt path)`, never `Err` -/
def fix1 (w : PlanWorld) (file : FileEntry) (t : SyncTask) : SyncTask :=
  if probe1Asked file t && (w.linkAt t.dest_path).isSome then setAct t .Update else t

/-- override 2 on this world -/
def fix2 (w : PlanWorld) (self : SyncEngine) (file : FileEntry) (t : SyncTask) (rl : List Rs.Path) :
    SyncTask × List Rs.Path :=
  if belowReplaced rl t.dest_path then (if nothingToTransfer self t then t else setAct t .Create, rl)
  else if file.is_dir && (w.linkAt t.dest_path).isSome then (setAct t .Update, rl ++ [t.dest_path])
  else (t, rl)

/-- the task the round appends and the `replaced_links` it leaves -/
def roundOut (w : PlanWorld) (p : PlannerFx.StrategyPlanner) (self : SyncEngine) (file : FileEntry) (useDb : Bool)
    (rl : List Rs.Path) : SyncTask × List Rs.Path :=
  fix2 w self file (fix1 w file (ofPTask (planned w p self file useDb))) rl

theorem plannerCall_run (p : PlannerFx.StrategyPlanner) (self : SyncEngine) (file : FileEntry) (w : PlanWorld)
    (pl : Rs.Opaque) (db : Option Rs.Opaque) :
    runM (plannerCall (ext2 p) self file w.root pl db) w = (.ok (ofPTask (planned w p self file db.isSome)), w) := by
  unfold plannerCall planned ext2
  cases file.is_symlink
  · simp only [Bool.false_eq_true, if_false, runM_map, plan_file_async_run]
    rfl
  · simp only [if_true, runM_map, plan_symlink_run]

theorem read_link_run (p : PlannerFx.StrategyPlanner) (t : Rs.Opaque) (path : Rs.Path) (w : PlanWorld) :
    runM (Rs.capture ((ext2 p).t_read_link t path)) w = (.ok (.ok (w.linkAt path)), w) := by
  simp [ext2]

theorem override1_run (p : PlannerFx.StrategyPlanner) (self : SyncEngine) (file : FileEntry) (t : SyncTask)
    (w : PlanWorld) : runM (override1 (ext2 p) self file t) w = (.ok (fix1 w file t), w) := by
  unfold override1 fix1
  cases probe1Asked file t
  · rfl
  · simp only [if_true, runM_bind, read_link_run, runM_pure, Bool.true_and]
    cases w.linkAt t.dest_path <;> rfl

theorem override2_run (p : PlannerFx.StrategyPlanner) (self : SyncEngine) (file : FileEntry) (t : SyncTask)
    (rl : List Rs.Path) (w : PlanWorld) :
    runM (override2 (ext2 p) self file t rl) w = (.ok (fix2 w self file t rl), w) := by
  unfold override2 fix2
  cases belowReplaced rl t.dest_path
  · cases file.is_dir
    · rfl
    · simp only [Bool.false_eq_true, if_false, if_true, runM_bind, read_link_run, runM_pure, Bool.true_and]
      cases w.linkAt t.dest_path <;> rfl
  · rfl

/-- CORE: one round on the composed instance — for every planner value, engine view, entry, world, database handle,
    task list and `replaced_links` — never fails, leaves the world as it was, appends `(roundOut …).1` and answers
    `(roundOut …).2` as the new `replaced_links`. -/
theorem plan_round_run (p : PlannerFx.StrategyPlanner) (self : SyncEngine) (file : FileEntry) (w : PlanWorld)
    (pl : Rs.Opaque) (db : Option Rs.Opaque) (tasks : List SyncTask) (rl : List Rs.Path) :
    runM (plan_round (ext2 p) self file w.root pl db tasks rl) w =
      (.ok ((), tasks ++ [(roundOut w p self file db.isSome rl).1], (roundOut w p self file db.isSome rl).2), w) := by
  rw [plan_round_eq_spec]
  unfold roundSpec roundOut
  simp only [runM_bind, plannerCall_run, override1_run, override2_run, runM_pure]

/-! ## 4. `Rs.path_starts_with` on joined path texts is the model's component-wise `isPrefix` -/

theorem splitAux_append_sep (b c cur : Rs.Str) :
    Rs.splitAux '/' (b ++ '/' :: c) cur = Rs.splitAux '/' b cur ++ Rs.splitAux '/' c [] := by
  induction b generalizing cur with
  | nil => simp [Rs.splitAux]
  | cons x t ih =>
    show Rs.splitAux '/' (x :: (t ++ '/' :: c)) cur = _
    rw [Rs.splitAux, Rs.splitAux]
    split
    · rw [ih]; rfl
    · exact ih _

/-- the pieces of `b/c` are the pieces of `b` followed by the pieces of `c` -/
theorem split_append_sep (b c : Rs.Str) : Rs.split (b ++ '/' :: c) '/' = Rs.split b '/' ++ Rs.split c '/' :=
  splitAux_append_sep b c []

theorem compsOf_append_sep (b c : Rs.Str) : compsOf (b ++ '/' :: c) = compsOf b ++ compsOf c := by
  simp [compsOf, split_append_sep]

theorem compsOf_ne_nil (t : Rs.Str) : compsOf t ≠ [] := by
  unfold compsOf Rs.split
  intro h
  exact SyModel.Lemmas.GenPlannerFx.splitAux_ne_nil t [] (List.map_eq_nil_iff.1 h)

open SyModel.Lemmas.GenPlannerFx (joinPieces joinPieces_cons joinPieces_split compsOf_injective) in
theorem joinPieces_append (l1 l2 : List Rs.Str) (h1 : l1 ≠ []) (h2 : l2 ≠ []) :
    joinPieces (l1 ++ l2) = joinPieces l1 ++ '/' :: joinPieces l2 := by
  induction l1 with
  | nil => exact absurd rfl h1
  | cons a t ih =>
    cases t with
    | nil => simp [joinPieces_cons _ _ h2, joinPieces]
    | cons b t' =>
      have e : (a :: b :: t') ++ l2 = a :: ((b :: t') ++ l2) := rfl
      rw [e, joinPieces_cons a ((b :: t') ++ l2) (by simp), ih (by simp), joinPieces_cons a (b :: t') (by simp)]
      simp

open SyModel.Lemmas.GenPlannerFx (joinPieces joinPieces_cons joinPieces_split compsOf_injective) in
/-- text-level "equal, or continues after a separator" IS component-wise prefix — for ALL texts -/
theorem text_prefix_eq_isPrefix (a b : Rs.Str) :
    (a == b || (b ++ ['/']).isPrefixOf a) = isPrefix (compsOf b) (compsOf a) := by
  rw [Bool.eq_iff_iff]
  simp only [Bool.or_eq_true, beq_iff_eq, List.isPrefixOf_iff_prefix, isPrefix_iff]
  constructor
  · rintro (rfl | ⟨c, hc⟩)
    · exact List.prefix_refl _
    · have : a = b ++ '/' :: c := by rw [← hc]; simp
      rw [this, compsOf_append_sep]
      exact List.prefix_append _ _
  · rintro ⟨r, hr⟩
    unfold compsOf at hr
    have hr' := hr.symm
    rw [List.map_eq_append_iff] at hr'
    obtain ⟨l1, l2, hsplit, hl1, hl2⟩ := hr'
    have hl1' : l1 = Rs.split b '/' :=
      (List.map_inj_right (fun _ _ h => String.ofList_injective h)).1 hl1
    subst hl1'
    by_cases h2 : l2 = []
    · left
      subst h2
      rw [← joinPieces_split a, ← joinPieces_split b, hsplit]; simp
    · right
      refine ⟨joinPieces l2, ?_⟩
      have hne : Rs.split b '/' ≠ [] := SyModel.Lemmas.GenPlannerFx.splitAux_ne_nil b []
      have := joinPieces_append _ _ hne h2
      rw [← hsplit, joinPieces_split, joinPieces_split] at this
      rw [this]; simp

/-- FAITHFULNESS of the Prelude's `Rs.path_starts_with` on the paths the engine builds: for `destination.join(a)` and
    `destination.join(b)` with a non-empty relative text `b` it is the component-wise prefix test on the relative
    paths.  (The `q.isEmpty` clause of `path_starts_with` is dead on this domain: `join root b` is empty only when both
    `root` and `b` are.) -/
theorem path_starts_with_join (root a b : Rs.Path) (hb : b ≠ []) :
    Rs.path_starts_with (Rs.join root a) (Rs.join root b) = isPrefix (compsOf b) (compsOf a) := by
  rw [← text_prefix_eq_isPrefix]
  unfold Rs.path_starts_with Rs.join
  cases root with
  | nil =>
    have : b.isEmpty = false := by cases b <;> simp_all
    simp [this]
  | cons x t =>
    have hemp : ((x :: t) ++ '/' :: b).isEmpty = false := by simp
    have e1 : ((x :: t) ++ '/' :: b) ++ ['/'] = ((x :: t) ++ ['/']) ++ (b ++ ['/']) := by simp
    have e2 : ((x :: t) ++ '/' :: a) = ((x :: t) ++ ['/']) ++ a := by simp
    rw [Bool.eq_iff_iff]
    simp only [List.isEmpty_cons, Bool.false_eq_true, if_false, hemp, Bool.or_false, Bool.or_eq_true, beq_iff_eq,
      List.isPrefixOf_iff_prefix]
    rw [e1, e2, List.prefix_append_right_inj]
    simp

/-! ## 5. destination links above a path; the invariant `RL` -/

/-- the destination map holds a symlink node at the key -/
def isLinkNode : Option DNode → Bool
  | some (.symlink _) => true
  | _ => false

/-- some strict (non-root) ancestor of the key is a symlink node of the map: the key is reached THROUGH a link -/
def hasLinkAbove (m : Map DNode) (q : Engine.Path) : Bool := (ancestors q).any fun a => isLinkNode (m.get? a)

/-- the destination as the MODEL has it: links are not resolved, so nothing is listed below a symlink node.  Whatever
    the world lists below one is what probes see THROUGH the link; the model's map is the world's with that removed. -/
def pruneLinks (m : Map DNode) : Map DNode := m.filter fun kv => !hasLinkAbove m kv.1

theorem get?_filter_key (m : Map DNode) (f : Engine.Path → Bool) (q : Engine.Path) :
    Map.get? (m.filter fun kv => f kv.1) q = if f q then Map.get? m q else none := by
  induction m with
  | nil => simp
  | cons kv t ih =>
    obtain ⟨k, v⟩ := kv
    simp only [List.filter_cons]
    by_cases hk : k = q
    · subst hk
      cases hf : f k
      · simp only [Bool.false_eq_true, if_false, ih, hf]
      · simp only [if_true, Map.get?_cons]
    · cases hf : f k
      · simp only [Bool.false_eq_true, if_false, ih, Map.get?_cons, hk]
      · simp only [if_true, Map.get?_cons, hk, if_false, ih]

theorem get?_pruneLinks (m : Map DNode) (q : Engine.Path) :
    (pruneLinks m).get? q = if hasLinkAbove m q then none else m.get? q := by
  unfold pruneLinks
  rw [get?_filter_key m (fun k => !hasLinkAbove m k) q]
  cases hasLinkAbove m q <;> rfl

/-- the hypothesis in the words of the task statement: the map lists nothing strictly below a symlink node -/
def NothingBelowLinks (m : Map DNode) : Prop :=
  ∀ link q s, m.get? link = some (.symlink s) → link ≠ [] → isPrefix link q = true → q ≠ link → m.get? q = none

theorem get?_of_nothingBelow {m : Map DNode} (h : NothingBelowLinks m) (q : Engine.Path) :
    (if hasLinkAbove m q then none else m.get? q) = m.get? q := by
  cases hl : hasLinkAbove m q
  · rfl
  · simp only [if_true]
    unfold hasLinkAbove at hl
    obtain ⟨a, ha, hla⟩ := List.any_eq_true.1 hl
    obtain ⟨ha0, hap, hane⟩ := mem_ancestors.1 ha
    cases hg : m.get? a with
    | none => rw [hg] at hla; cases hla
    | some n =>
      cases n with
      | symlink s => exact (h a q s hg ha0 hap (Ne.symm hane)).symm
      | dir => rw [hg] at hla; cases hla
      | file d => rw [hg] at hla; cases hla

theorem pruneLinks_nothingBelow (m : Map DNode) : NothingBelowLinks (pruneLinks m) := by
  intro link q s hl h0 hp hne
  rw [get?_pruneLinks] at hl ⊢
  cases hla : hasLinkAbove m link
  · rw [hla] at hl
    simp only [Bool.false_eq_true, if_false] at hl
    have : hasLinkAbove m q = true := by
      unfold hasLinkAbove
      exact List.any_eq_true.2 ⟨link, mem_ancestors.2 ⟨h0, hp, Ne.symm hne⟩, by rw [hl]; rfl⟩
    simp [this]
  · rw [hla] at hl; simp at hl

end SyModel.Lemmas.GenEnginePlan
