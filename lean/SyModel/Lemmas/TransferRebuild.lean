/-
  Results of the two rebuild strategies (`SyModel.Transfer.BlockCompare`): projections of the
  folds, the rebuilt bytes, counters, write logs, and the fixed-size view of the comparison list.
-/
import SyModel.Lemmas.TransferBlocks
namespace SyModel.Transfer
open SyModel SyModel.Compress

/-! ### projections of the folds -/

def changedOf (B : List Blk) : Nat := (B.filter Blk.differs).length
def literalOf (B : List Blk) : Nat := ((B.filter Blk.differs).map (·.s.length)).sum

theorem changedOf_cons (b : Blk) (B : List Blk) :
    changedOf (b :: B) = (if b.differs then 1 else 0) + changedOf B := by
  unfold changedOf
  by_cases h : b.differs = true <;> simp [h] <;> omega

theorem literalOf_cons (b : Blk) (B : List Blk) :
    literalOf (b :: B) = (if b.differs then b.s.length else 0) + literalOf B := by
  unfold literalOf
  by_cases h : b.differs = true <;> simp [h]

theorem foldl_stepInPlace (B : List Blk) (st : Loop) :
    (B.foldl stepInPlace st).temp = B.foldl (fun t b => writeAt t b.off b.s) st.temp ∧
    (B.foldl stepInPlace st).changed = st.changed + changedOf B ∧
    (B.foldl stepInPlace st).literal = st.literal + literalOf B ∧
    (B.foldl stepInPlace st).writes = (B.map fun b => (b.off, b.s)).reverse ++ st.writes := by
  induction B generalizing st with
  | nil => simp [changedOf, literalOf]
  | cons b B ih =>
    obtain ⟨h1, h2, h3, h4⟩ := ih (stepInPlace st b)
    simp only [List.foldl_cons]
    refine ⟨h1, ?_, ?_, ?_⟩
    · rw [h2, changedOf_cons]; simp only [stepInPlace]; split <;> omega
    · rw [h3, literalOf_cons]; simp only [stepInPlace]; split <;> omega
    · rw [h4]; simp [stepInPlace]

theorem foldl_stepCow (B : List Blk) (st : Loop) :
    (B.foldl stepCow st).temp = B.foldl (fun t b => if b.differs then writeAt t b.off b.s else t) st.temp ∧
    (B.foldl stepCow st).changed = st.changed + changedOf B ∧
    (B.foldl stepCow st).literal = st.literal + literalOf B ∧
    (B.foldl stepCow st).writes = ((B.filter Blk.differs).map fun b => (b.off, b.s)).reverse ++ st.writes := by
  induction B generalizing st with
  | nil => simp [changedOf, literalOf]
  | cons b B ih =>
    obtain ⟨h1, h2, h3, h4⟩ := ih (stepCow st b)
    simp only [List.foldl_cons]
    refine ⟨?_, ?_, ?_, ?_⟩
    · rw [h1]; unfold stepCow; split <;> rfl
    · rw [h2, changedOf_cons]; unfold stepCow; split <;> simp <;> omega
    · rw [h3, literalOf_cons]; unfold stepCow; split <;> simp <;> omega
    · rw [h4]; unfold stepCow
      by_cases h : b.differs = true <;> simp [h]

/-- final `offset` (= `bytes_written`) of either fold over a chained list. -/
theorem foldl_step_offset (step : Loop → Blk → Loop)
    (hstep : ∀ st b, (step st b).offset = b.off + b.s.length)
    (B : List Blk) (st : Loop) (h : Chain st.offset B) :
    (B.foldl step st).offset = st.offset + (B.map (·.s.length)).sum := by
  induction B generalizing st with
  | nil => simp only [List.foldl_nil, List.map_nil, List.sum_nil, Nat.add_zero]
  | cons b B ih =>
    obtain ⟨h1, h2⟩ := h
    simp only [List.foldl_cons, List.map_cons, List.sum_cons]
    rw [ih (step st b) (by rw [hstep, h1]; exact h2), hstep, h1]
    omega

theorem stepInPlace_offset (st : Loop) (b : Blk) : (stepInPlace st b).offset = b.off + b.s.length := rfl
theorem stepCow_offset (st : Loop) (b : Blk) : (stepCow st b).offset = b.off + b.s.length := by
  unfold stepCow; split <;> rfl

theorem sum_length_flatMap (B : List Blk) : (B.map (·.s.length)).sum = (B.flatMap (·.s)).length := by
  induction B with
  | nil => rfl
  | cons b B ih => simp only [List.map_cons, List.sum_cons, List.flatMap_cons, List.length_append, ih]

/-! ### contiguous writes -/

theorem foldl_writeAt_chain (B : List Blk) (off : Nat) (t : Bytes) (h : Chain off B) :
    B.foldl (fun t b => writeAt t b.off b.s) t = writeAt t off (B.flatMap (·.s)) := by
  induction B generalizing off t with
  | nil => simp [writeAt]
  | cons b B ih =>
    obtain ⟨h1, h2⟩ := h
    simp only [List.foldl_cons, List.flatMap_cons]
    rw [ih _ _ h2, h1, writeAt_writeAt_adj]

theorem writeAt_full (src : Bytes) : writeAt (setLen [] src.length) 0 src = src := by
  apply ext_at0
  · rw [length_writeAt, length_setLen]
    split
    · rename_i h; rw [h]
    · omega
  · intro i hi
    rw [at0_writeAt, if_pos (by omega)]; rfl

/-! ### the rebuilt bytes -/

theorem rebuildInPlaceK_eq (k : Nat → Nat) (src dst : Bytes) :
    rebuildInPlaceK k src dst =
      (cmpBlocks k src dst).foldl stepInPlace
        { temp := setLen [] src.length, offset := 0, changed := 0, literal := 0, writes := [] } := by
  unfold rebuildInPlaceK cmpBlocks
  exact inPlaceGo_eq k src dst 0 _ dst (Or.inr (Or.inl ⟨rfl, rfl⟩))

theorem cowGo_start_eq (k : Nat → Nat) (src dst : Bytes) :
    cowGo k src dst 0 { temp := dst, offset := 0, changed := 0, literal := 0, writes := [] } =
      (cmpBlocks k src dst).foldl stepCow
        { temp := dst, offset := 0, changed := 0, literal := 0, writes := [] } := by
  unfold cmpBlocks
  exact cowGo_eq k src dst 0 _ dst (Or.inr (Or.inl ⟨rfl, rfl⟩))

theorem inplace_temp (k : Nat → Nat) (hk : ∀ p, 0 < k p) (src dst : Bytes) :
    (rebuildInPlaceK k src dst).temp = src := by
  rw [rebuildInPlaceK_eq, (foldl_stepInPlace _ _).1]
  show List.foldl (fun t b => writeAt t b.off b.s) (setLen [] src.length) (cmpBlocks k src dst) = src
  unfold cmpBlocks
  rw [foldl_writeAt_chain _ 0 _ (cmpBlocksGo_chain k 0 src dst), cmpBlocksGo_join k hk]
  exact writeAt_full src

theorem inplace_offset (k : Nat → Nat) (hk : ∀ p, 0 < k p) (src dst : Bytes) :
    (rebuildInPlaceK k src dst).offset = src.length := by
  rw [rebuildInPlaceK_eq]
  unfold cmpBlocks
  rw [foldl_step_offset stepInPlace stepInPlace_offset _ _ (cmpBlocksGo_chain k 0 src dst),
    sum_length_flatMap, cmpBlocksGo_join k hk]
  simp

/-- selective writes over a copy of the destination: below `off` nothing is touched, from `off` on
    the result reads as the source. -/
theorem cow_fold_spec (k : Nat → Nat) (hk : ∀ p, 0 < k p) (off : Nat) (srest drest t : Bytes)
    (ht : ∀ j, at0 t (off + j) = at0 drest j) :
    (∀ j, j < srest.length →
      at0 ((cmpBlocksGo k off srest drest).foldl (fun t b => if b.differs then writeAt t b.off b.s else t) t) (off + j)
        = at0 srest j) ∧
    (∀ i, i < off →
      at0 ((cmpBlocksGo k off srest drest).foldl (fun t b => if b.differs then writeAt t b.off b.s else t) t) i
        = at0 t i) := by
  fun_induction cmpBlocksGo k off srest drest generalizing t with
  | case1 off srest drest sb hnil =>
    have : srest.take (k off) = [] := hnil
    rcases List.take_eq_nil_iff.mp this with h | h
    · have := hk off; omega
    · subst h; simp
  | case2 off srest drest sb hne ih =>
    have hsb : sb = srest.take (k off) := rfl
    have hlen : sb.length ≤ k off := by rw [hsb, List.length_take]; omega
    have hlen2 : sb.length ≤ srest.length := by rw [hsb, List.length_take]; omega
    -- the temp file after this block
    let b : Blk := { off := off, s := sb, d := drest.take (k off) }
    let t1 : Bytes := if b.differs then writeAt t b.off b.s else t
    have ht1_hi : ∀ j, at0 t1 (off + sb.length + j) = at0 (drest.drop sb.length) j := by
      intro j
      rw [at0_drop]
      show at0 (if b.differs then writeAt t off sb else t) (off + sb.length + j) = _
      split
      · rw [at0_writeAt, if_neg (by omega), Nat.add_assoc]; exact ht _
      · rw [Nat.add_assoc]; exact ht _
    have ht1_mid : ∀ j, j < sb.length → at0 t1 (off + j) = at0 srest j := by
      intro j hj
      have hs : at0 sb j = at0 srest j := by rw [hsb, at0_take, if_pos (by omega)]
      show at0 (if b.differs then writeAt t off sb else t) (off + j) = _
      split
      · rw [at0_writeAt, if_pos (by omega), ← hs]; congr 1; omega
      · rename_i hd
        have heq : b.s = b.d := (Blk.differs_false_iff b).mp (by simpa using hd)
        have heq' : sb = drest.take (k off) := heq
        rw [ht j, ← hs, heq', at0_take, if_pos (by omega)]
    have ht1_lo : ∀ i, i < off → at0 t1 i = at0 t i := by
      intro i hi
      show at0 (if b.differs then writeAt t off sb else t) i = _
      split
      · rw [at0_writeAt, if_neg (by omega)]
      · rfl
    obtain ⟨ih1, ih2⟩ := ih t1 ht1_hi
    simp only [List.foldl_cons]
    constructor
    · intro j hj
      by_cases hjs : j < sb.length
      · rw [ih2 (off + j) (by omega)]; exact ht1_mid j hjs
      · have := ih1 (j - sb.length) (by simp only [List.length_drop]; omega)
        rw [at0_drop, show off + sb.length + (j - sb.length) = off + j by omega,
          show sb.length + (j - sb.length) = j by omega] at this
        exact this
    · intro i hi
      rw [ih2 i (by omega)]; exact ht1_lo i hi

theorem cow_temp (k : Nat → Nat) (hk : ∀ p, 0 < k p) (src dst : Bytes) :
    (rebuildCowK k src dst).temp = src ∧ (rebuildCowK k src dst).offset = src.length := by
  have hoff : (cowGo k src dst 0 { temp := dst, offset := 0, changed := 0, literal := 0, writes := [] }).offset
      = src.length := by
    rw [cowGo_start_eq]
    unfold cmpBlocks
    rw [foldl_step_offset stepCow stepCow_offset _ _ (cmpBlocksGo_chain k 0 src dst),
      sum_length_flatMap, cmpBlocksGo_join k hk]
    simp
  unfold rebuildCowK
  refine ⟨?_, hoff⟩
  show setLen _ _ = src
  rw [hoff, cowGo_start_eq, (foldl_stepCow _ _).1]
  apply ext_at0 _ _ (length_setLen _ _)
  intro i hi
  rw [at0_setLen, if_pos hi]
  have := (cow_fold_spec k hk 0 src dst dst (by intro j; simp)).1 i hi
  simpa [cmpBlocks] using this

/-! ### counters and write logs -/

theorem inplace_counters (k : Nat → Nat) (src dst : Bytes) :
    (rebuildInPlaceK k src dst).changed = changedOf (cmpBlocks k src dst) ∧
    (rebuildInPlaceK k src dst).literal = literalOf (cmpBlocks k src dst) ∧
    (rebuildInPlaceK k src dst).writes.reverse = (cmpBlocks k src dst).map fun b => (b.off, b.s) := by
  rw [rebuildInPlaceK_eq]
  obtain ⟨_, h2, h3, h4⟩ := foldl_stepInPlace (cmpBlocks k src dst)
    { temp := setLen [] src.length, offset := 0, changed := 0, literal := 0, writes := [] }
  refine ⟨by rw [h2]; simp, by rw [h3]; simp, by rw [h4]; simp⟩

theorem cow_counters (k : Nat → Nat) (src dst : Bytes) :
    (rebuildCowK k src dst).changed = changedOf (cmpBlocks k src dst) ∧
    (rebuildCowK k src dst).literal = literalOf (cmpBlocks k src dst) ∧
    (rebuildCowK k src dst).writes.reverse =
      ((cmpBlocks k src dst).filter Blk.differs).map fun b => (b.off, b.s) := by
  unfold rebuildCowK
  show (cowGo k src dst 0 _).changed = _ ∧ (cowGo k src dst 0 _).literal = _ ∧ (cowGo k src dst 0 _).writes.reverse = _
  rw [cowGo_start_eq]
  obtain ⟨_, h2, h3, h4⟩ := foldl_stepCow (cmpBlocks k src dst)
    { temp := dst, offset := 0, changed := 0, literal := 0, writes := [] }
  refine ⟨by rw [h2]; simp, by rw [h3]; simp, by rw [h4]; simp⟩

/-- the temp file is the replay of the write log over its initial content. -/
theorem cow_temp_replay (k : Nat → Nat) (src dst : Bytes) :
    (rebuildCowK k src dst).temp =
      setLen ((rebuildCowK k src dst).writes.reverse.foldl (fun t w => writeAt t w.1 w.2) dst)
        (rebuildCowK k src dst).offset := by
  rw [(cow_counters k src dst).2.2]
  unfold rebuildCowK
  show setLen _ _ = setLen _ _
  congr 1
  rw [cowGo_start_eq, (foldl_stepCow _ _).1]
  generalize cmpBlocks k src dst = B
  show List.foldl _ dst B = _
  generalize dst = t
  induction B generalizing t with
  | nil => rfl
  | cons b B ih =>
    by_cases h : b.differs = true
    · simp only [List.foldl_cons, h, ↓reduceIte, List.filter_cons, List.map_cons]; exact ih _
    · simp only [List.foldl_cons, h, List.filter_cons, Bool.false_eq_true, ↓reduceIte]; exact ih _

theorem inplace_temp_replay (k : Nat → Nat) (src dst : Bytes) :
    (rebuildInPlaceK k src dst).temp =
      (rebuildInPlaceK k src dst).writes.reverse.foldl (fun t w => writeAt t w.1 w.2) (setLen [] src.length) := by
  rw [(inplace_counters k src dst).2.2, rebuildInPlaceK_eq, (foldl_stepInPlace _ _).1, List.foldl_map]

/-! ### zero changed blocks -/

theorem changedOf_eq_zero_iff (B : List Blk) : changedOf B = 0 ↔ ∀ b ∈ B, b.s = b.d := by
  unfold changedOf
  rw [List.length_eq_zero_iff, List.filter_eq_nil_iff]
  constructor
  · intro h b hb; exact (Blk.differs_false_iff b).mp (by simpa using h b hb)
  · intro h b hb; rw [(Blk.differs_false_iff b).mpr (h b hb)]; simp

theorem literalOf_le (B : List Blk) : literalOf B ≤ (B.map (·.s.length)).sum := by
  induction B with
  | nil => simp [literalOf]
  | cons b B ih => rw [literalOf_cons]; simp only [List.map_cons, List.sum_cons]; split <;> omega

theorem changedOf_le (B : List Blk) : changedOf B ≤ B.length := by
  unfold changedOf; exact List.length_filter_le _ _

/-- all compared blocks equal ⇒ the source is a prefix of the destination. -/
theorem prefix_of_all_equal (k : Nat → Nat) (hk : ∀ p, 0 < k p) (off : Nat) (srest drest : Bytes)
    (h : ∀ b ∈ cmpBlocksGo k off srest drest, b.s = b.d) : srest <+: drest := by
  fun_induction cmpBlocksGo k off srest drest with
  | case1 off srest drest sb hnil =>
    have : srest.take (k off) = [] := hnil
    rcases List.take_eq_nil_iff.mp this with h | h
    · have := hk off; omega
    · subst h; exact List.nil_prefix
  | case2 off srest drest sb hne ih =>
    have h0 : sb = drest.take (k off) := h _ (List.mem_cons_self)
    have hrest := ih (fun b hb => h b (List.mem_cons_of_mem _ hb))
    have hs : srest = sb ++ srest.drop sb.length := by
      have hsb : sb = srest.take (k off) := rfl
      rw [hsb, List.length_take]
      by_cases hle : k off ≤ srest.length
      · rw [Nat.min_eq_left hle]; exact (List.take_append_drop _ _).symm
      · rw [Nat.min_eq_right (by omega), List.take_of_length_le (by omega), List.drop_length]; simp
    have hd : drest = sb ++ drest.drop sb.length := by
      rw [h0, List.length_take]
      by_cases hle : k off ≤ drest.length
      · rw [Nat.min_eq_left hle]; exact (List.take_append_drop _ _).symm
      · rw [Nat.min_eq_right (by omega), List.take_of_length_le (by omega), List.drop_length]; simp
    rw [hs, hd]
    exact (List.prefix_append_right_inj sb).mpr hrest

/-- equal files: every block matches. -/
theorem all_equal_of_same (k : Nat → Nat) (off : Nat) (srest drest : Bytes) (he : srest = drest) :
    ∀ b ∈ cmpBlocksGo k off srest drest, b.s = b.d := by
  fun_induction cmpBlocksGo k off srest drest with
  | case1 => simp
  | case2 off srest drest sb hne ih =>
    intro b hb
    rcases List.mem_cons.mp hb with rfl | hb
    · subst he; rfl
    · exact ih (by rw [he]) b hb

/-! ### fixed-size view -/

/-- when the chunk bound is `bs` at every multiple of `bs`, the comparison list is the list of
    fixed-size blocks. -/
theorem cmpBlocksGo_plain (k : Nat → Nat) (bs : Nat) (hbs : 0 < bs) (hk : ∀ i, k (i * bs) = bs)
    (src dst : Bytes) (i : Nat) :
    cmpBlocksGo k (i * bs) (src.drop (i * bs)) (dst.drop (i * bs)) =
      (List.range' i ((src.length + bs - 1) / bs - i)).map fun j =>
        { off := j * bs, s := (src.drop (j * bs)).take bs, d := (dst.drop (j * bs)).take bs } := by
  generalize hn : (src.length + bs - 1) / bs - i = n
  induction n generalizing i with
  | zero =>
    have hle : (src.length + bs - 1) / bs ≤ i := by omega
    have : src.length ≤ i * bs := by
      have h1 : (src.length + bs - 1) / bs * bs ≤ i * bs := Nat.mul_le_mul_right bs hle
      have h2 : src.length + bs - 1 < ((src.length + bs - 1) / bs + 1) * bs := by
        rw [Nat.mul_comm]; exact Nat.lt_mul_div_succ _ hbs
      rw [Nat.add_mul] at h2
      omega
    rw [List.drop_of_length_le this, cmpBlocksGo_nil]; rfl
  | succ n ih =>
    have hlt : i < (src.length + bs - 1) / bs := by omega
    have hpos : i * bs < src.length := by
      have h1 : (i + 1) * bs ≤ (src.length + bs - 1) / bs * bs := Nat.mul_le_mul_right bs (by omega)
      have h2 : (src.length + bs - 1) / bs * bs ≤ src.length + bs - 1 := Nat.div_mul_le_self _ _
      rw [Nat.add_mul] at h1
      omega
    rw [cmpBlocksGo]
    have hne : (src.drop (i * bs)).take (k (i * bs)) ≠ [] := by
      rw [hk]
      intro h
      rcases List.take_eq_nil_iff.mp h with h | h
      · omega
      · have := congrArg List.length h; simp at this; omega
    rw [hk] at hne
    simp only [hk, hne, ↓reduceDIte, List.range'_succ, List.map_cons]
    have hl : ((src.drop (i * bs)).take bs).length = min bs (src.length - i * bs) := by simp
    by_cases hfull : bs ≤ src.length - i * bs
    · rw [hl, Nat.min_eq_left hfull]
      rw [List.drop_drop, List.drop_drop, show i * bs + bs = (i + 1) * bs by rw [Nat.add_mul]; omega]
      rw [ih (i + 1) (by omega)]
    · -- last, short block
      rw [hl, Nat.min_eq_right (by omega)]
      have hn0 : n = 0 := by
        have : (src.length + bs - 1) / bs < i + 2 := by
          apply Nat.div_lt_of_lt_mul
          have e : bs * (i + 2) = i * bs + bs + bs := by rw [Nat.mul_add, Nat.mul_comm bs i]; omega
          rw [e]; omega
        omega
      subst hn0
      rw [List.drop_drop, show i * bs + (src.length - i * bs) = src.length by omega,
        List.drop_length, cmpBlocksGo_nil]
      rfl

theorem cmpBlocks_plain (k : Nat → Nat) (bs : Nat) (hbs : 0 < bs) (hk : ∀ i, k (i * bs) = bs)
    (src dst : Bytes) : cmpBlocks k src dst = plainBlocks bs src dst := by
  have := cmpBlocksGo_plain k bs hbs hk src dst 0
  simp only [Nat.zero_mul, List.drop_zero, Nat.sub_zero] at this
  unfold cmpBlocks plainBlocks
  rw [this, List.range_eq_range']

end SyModel.Transfer
