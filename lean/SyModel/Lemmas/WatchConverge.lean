/-
  Convergence of the watch loop after quiescence (repaired order), from every program point.
-/
import SyModel.Lemmas.WatchProgress
namespace SyModel.Watch

/-- `hcmp`: the comparison rule can tell the current source from the destination — and, while
    a sync is running, from the snapshot that sync is about to install. -/
def Hcmp (c : Cfg) (s : State) : Prop :=
  Vis c s.src s.dst ∧ ((s.phase = .sync ∨ s.phase = .initSync) → Vis c s.src s.snap)

instance (c : Cfg) (s : State) : Decidable (Hcmp c s) := by unfold Hcmp; exact inferInstance

/-- iterations the model needs from `s` until the destination equals the source -/
def convergeBound (c : Cfg) (s : State) : Nat :=
  s.queue.length + ceilDiv c.debounce c.recvTimeout + 6

theorem converge_loop (c : Cfg) (hr : 0 < c.recvTimeout) (s : State) (hinv : Inv c s)
    (hp : s.phase = .loop) (hsig : s.sig = false) (hv : Vis c s.src s.dst)
    (is : List Input) (hq : Quiescent is)
    (hn : s.queue.length + ceilDiv c.debounce c.recvTimeout + 2 ≤ nSteps is) :
    (run c s is).dst = s.src ∧ (run c s is).src = s.src := by
  by_cases hw : s.pending ≠ [] ∨ ∃ k ∈ s.queue, k.kept = true
  · have hmul := ceilDiv_mul_ge c.debounce c.recvTimeout hr
    obtain ⟨pre, post, h1, h2, h3, _, h5, h6, h7, h8, _, _⟩ :=
      reach_sync c is s (ceilDiv c.debounce c.recvTimeout) hq hp hsig hinv.time hw
        (by omega) (by omega)
    subst h1
    rw [run_append]
    have hpost : 1 ≤ nSteps post := by
      rw [nSteps_append] at hn; omega
    exact stable_run c s.src post _ (quiescent_append hq).2
      ⟨h6, h8, Or.inl ⟨h3, h5, by rw [h7]; exact hv⟩⟩ (Or.inl hpost)
  · have hpe : s.pending = [] := by
      by_cases h : s.pending = []
      · exact h
      · exact absurd (Or.inl h) hw
    have hsnap : s.snap = s.src ∧ s.ok = true := by
      rcases hinv.covered with h | h | h | h
      · simp [hp] at h
      · exact h
      · exact absurd (Or.inr h) hw
      · exact absurd hpe h.1
    obtain ⟨hsnap, hok⟩ := hsnap
    have hd : s.dst = s.src := by
      rcases hinv.settled (Or.inr hp) hok with h | h
      · rw [h, hsnap]
      · rcases hv with h' | h'
        · exact h'
        · rw [hsnap, h'] at h; cases h
    exact stable_run c s.src is s hq ⟨rfl, hsig, Or.inr ⟨hp, hd⟩⟩ (Or.inr hd)

theorem step_boot_arm (c : Cfg) (s : State) (hp : s.phase = .boot) (hfix : c.armFirst = true)
    (ha : s.armed = false) : (step c s).1 = { s with armed := true } := by
  simp [step, hp, hfix, ha]

theorem step_boot_start (c : Cfg) (s : State) (hp : s.phase = .boot) (ha : s.armed = true) :
    (step c s).1 = { s with phase := .initSync, snap := s.src, syncs := s.syncs + 1, ok := true } := by
  simp [step, hp, ha]

theorem step_init_end (c : Cfg) (s : State) (hp : s.phase = .initSync) :
    (step c s).1 = { s with phase := .postInit, dst := syncTo c s.snap s.dst } := by
  simp [step, hp]

theorem step_post_loop (c : Cfg) (s : State) (hp : s.phase = .postInit) (ha : s.armed = true) :
    (step c s).1 = { s with phase := .loop, pending := [], lastSync := s.now, handler := true } := by
  simp [step, hp, ha]

/-- distance (in loop-thread moves) to the top of the loop -/
def rank (s : State) : Nat :=
  match s.phase with
  | .boot => if s.armed then 3 else 4
  | .initSync => 2
  | .postInit => 1
  | .sync => 1
  | .loop => 0
  | .done => 0

theorem vis_syncTo {c : Cfg} {v a d : Ver} (h1 : Vis c v d) (h2 : Vis c v a) : Vis c v (syncTo c a d) := by
  rcases syncTo_cases c a d with h | h <;> rw [h] <;> assumption

theorem converge_rank (c : Cfg) (hfix : c.armFirst = true) (hr : 0 < c.recvTimeout) :
    ∀ (n : Nat) (s : State) (is : List Input), rank s ≤ n → Inv c s → s.phase ≠ .done →
      s.sig = false → Hcmp c s → Quiescent is →
      s.queue.length + ceilDiv c.debounce c.recvTimeout + 2 + n ≤ nSteps is →
      (run c s is).dst = s.src ∧ (run c s is).src = s.src := by
  intro n
  induction n with
  | zero =>
    intro s is hrk hinv hnd hsig hcmp hq hn
    have hp : s.phase = .loop := by
      unfold rank at hrk
      cases h : s.phase <;> simp [h] at hrk hnd ⊢
      split at hrk <;> omega
    exact converge_loop c hr s hinv hp hsig hcmp.1 is hq (by omega)
  | succ n ih =>
    intro s is hrk hinv hnd hsig hcmp hq hn
    by_cases hp : s.phase = .loop
    · exact converge_loop c hr s hinv hp hsig hcmp.1 is hq (by omega)
    · obtain ⟨δ, post, hqp, hnp, hrun⟩ := quiescent_split c is hq (by omega)
      rw [hrun]
      have hinv' := inv_advance c s δ hinv
      have hstep := inv_step c hfix _ hinv'
      -- the state after the move, by program point
      cases hph : s.phase with
      | loop => exact absurd hph hp
      | done => exact absurd hph hnd
      | boot =>
        cases harm : s.armed with
        | false =>
          have hst := step_boot_arm c (advance s δ) (by simpa using hph) hfix (by simpa using harm)
          rw [hst] at hstep ⊢
          have hi : Inv c { advance s δ with armed := true } := by
            rcases hstep with h | h
            · simp [hph] at h
            · exact h
          have := ih { advance s δ with armed := true } post
            (by simp [rank, hph, harm] at hrk ⊢; omega) hi (by simp [hph]) (by simpa using hsig)
            ⟨hcmp.1, fun h => by simp [hph] at h⟩ hqp (by simp only [advance]; omega)
          simpa using this
        | true =>
          have hst := step_boot_start c (advance s δ) (by simpa using hph) (by simpa using harm)
          rw [hst] at hstep ⊢
          have hi : Inv c { advance s δ with phase := .initSync, snap := s.src, syncs := s.syncs + 1, ok := true } := by
            rcases hstep with h | h
            · simp at h
            · exact h
          have := ih _ post (by simp [rank, hph, harm] at hrk ⊢; omega) hi (by simp) (by simpa using hsig)
            ⟨hcmp.1, fun _ => Or.inl rfl⟩ hqp (by simp only [advance]; omega)
          simpa using this
      | initSync =>
        have hst := step_init_end c (advance s δ) (by simpa using hph)
        rw [hst] at hstep ⊢
        have hi : Inv c { advance s δ with phase := .postInit, dst := syncTo c s.snap s.dst } := by
          rcases hstep with h | h
          · simp at h
          · exact h
        have := ih _ post (by simp [rank, hph] at hrk ⊢ <;> omega) hi (by simp) (by simpa using hsig)
          ⟨vis_syncTo hcmp.1 (hcmp.2 (Or.inr hph)), fun h => by simp at h⟩ hqp
          (by simp only [advance]; omega)
        simpa using this
      | postInit =>
        have harm : s.armed = true := hinv.armed (by simp [hph])
        have hst := step_post_loop c (advance s δ) (by simpa using hph) (by simpa using harm)
        rw [hst] at hstep ⊢
        have hi : Inv c { advance s δ with phase := .loop, pending := [], lastSync := s.now + δ,
                                             handler := true } := by
          rcases hstep with h | h
          · simp at h
          · exact h
        have := ih _ post (by simp [rank, hph] at hrk ⊢ <;> omega) hi (by simp) (by simpa using hsig)
          ⟨hcmp.1, fun h => by simp at h⟩ hqp (by simp only [advance]; omega)
        simpa using this
      | sync =>
        have hst := step_sync_end c (advance s δ) (by simpa using hph)
        rw [hst] at hstep ⊢
        have hi : Inv c { advance s δ with phase := .loop, dst := syncTo c s.snap s.dst, pending := [],
                                             lastSync := s.now + δ } := by
          rcases hstep with h | h
          · simp at h
          · exact h
        have := ih _ post (by simp [rank, hph] at hrk ⊢ <;> omega) hi (by simp) (by simpa using hsig)
          ⟨vis_syncTo hcmp.1 (hcmp.2 (Or.inl hph)), fun h => by simp at h⟩ hqp
          (by simp only [advance]; omega)
        simpa using this

theorem rank_le_four (s : State) : rank s ≤ 4 := by
  unfold rank
  split <;> try omega
  split <;> omega

end SyModel.Watch
