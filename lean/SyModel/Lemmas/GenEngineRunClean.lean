/-
  Lemmas.GenEngineRunClean — `FailClean` (Lemmas/GenEngineRun.lean, the restriction of the capstone's execution fold)
  DERIVED from structural hypotheses about the input instead of assumed.

  Contents
    1. `FailCause`, `perform_none_cause` — the COMPLETE list of reasons for which the model's `perform` (no fault plan)
       answers `none`: six causes, all of them visible in the destination map (and, with `-H`, the link map);
    2. `noResidue_of_perform_none` — ONE task: in a parent-closed destination (`GClosed`) whose registered link-group
       members are regular files, a failing task whose `create` action was not planned over a symlink leaves no residue
       (`NoResidue`);
    3. `failClean_of_splits`, `failClean_append`, `failClean_of_deletes` — `FailClean` along a list;
    4. `failClean_of_later` — any list of pairwise independent tasks (`Later`, Lemmas/EngineRun) from a parent-closed
       start with an empty link map;
    5. `failClean_of_closed_dst` — THE PLAN: `UniqueRels (scanFilter cfg scan)` + `DstParentClosed dst` ⇒
       `FailClean cfg (initExec dst n) (plan cfg scan dst)`.  `-H` included; `ParentsFirst` is NOT needed.

  Why it holds.  A failing Create/Update fails because of a node that is ALREADY THERE: on the way (an ancestor that is
  a file or a link — then `create_dir_all(parent)` fails too and creates nothing) or at the task's own path (then, the
  destination being parent-closed, the whole parent chain exists and `create_dir_all(parent)` has nothing to create).
  Parent-closedness is an invariant of fault-free execution (`perform_closed`, Lemmas/EngineClosed).  The second clause
  of `NoResidue` (no symlink at the path of a failing task) needs that the node at a task's own path is what planning
  saw — the frame lemma `foldl_frame` over the earlier tasks, which all have other paths (`UniqueRels`): the planner
  answers `create` only where the destination holds no link, and nobody else puts one there.
-/
import SyModel.Props.GenEngineRun
import SyModel.Lemmas.EngineClosed
import SyModel.Lemmas.EngineContain
import SyModel.Lemmas.EngineRun
set_option linter.unusedVariables false
set_option linter.unusedSimpArgs false
namespace SyModel.Lemmas.GenEngineRunClean
open SyModel SyModel.Engine SyModel.Lemmas.GenEngineRun

/-! ## 1. why a task fails -/

/-- `create_dir_all` fails only on a non-root prefix that is present and not a directory -/
theorem mkdirAll_none {dst : Map DNode} {p : Path} (h : mkdirAll dst p = none) :
    ∃ x, x ≠ [] ∧ isPrefix x p = true ∧ dst.get? x ≠ none ∧ dst.get? x ≠ some .dir := by
  apply Classical.byContradiction
  intro hn
  obtain ⟨d, hd⟩ := mkdirAll_some dst p (fun x hx hp => by
    apply Classical.byContradiction
    intro hc
    exact hn ⟨x, hx, hp, fun h0 => hc (Or.inl h0), fun h1 => hc (Or.inr h1)⟩)
  rw [hd] at h
  cases h

/-- `create_dir_all(parent p)` does not touch `p` (no side condition on `p`) -/
theorem get?_parent_self {s d : Map DNode} {p : Path} (h : mkdirAll s (parentOf p) = some d) :
    d.get? p = s.get? p := by
  rcases mkdirAll_frame h p with h1 | ⟨hp, hpp, _, _⟩
  · exact h1
  · exact absurd (isPrefix_antisymm (parentOf_isPrefix p) hpp) (parentOf_ne hp)

/-- `create_dir_all` keeps every regular file -/
theorem mkdirAll_keeps_file {s d : Map DNode} {p q : Path} {fm : FileMeta} (h : mkdirAll s p = some d)
    (hf : s.get? q = some (.file fm)) : d.get? q = some (.file fm) := by
  rcases mkdirAll_frame h q with e | ⟨_, _, c, _⟩
  · rw [e]; exact hf
  · rw [hf] at c; cases c

theorem writeFile_none {cfg : Cfg} {w : World} {p : Path} {m : FileMeta} (h : writeFile cfg w p m = none) :
    mkdirAll w.dst (parentOf p) = none ∨ w.dst.get? p = some .dir := by
  unfold writeFile at h
  cases hm : mkdirAll w.dst (parentOf p) with
  | none => exact Or.inl rfl
  | some d =>
    right
    rw [← get?_parent_self hm]
    simp only [hm] at h
    cases hg : d.get? p with
    | none => simp [hg] at h
    | some v =>
      cases v with
      | dir => rfl
      | file o => simp [hg] at h
      | symlink s => simp [hg] at h

theorem writeSymlink_none {w : World} {p : Path} {text : String} (h : writeSymlink w p text = none) :
    mkdirAll w.dst (parentOf p) = none ∨ w.dst.get? p = some .dir := by
  unfold writeSymlink at h
  cases hm : mkdirAll w.dst (parentOf p) with
  | none => exact Or.inl rfl
  | some d =>
    right
    rw [← get?_parent_self hm]
    simp only [hm] at h
    cases hg : d.get? p with
    | none => simp [hg] at h
    | some v =>
      cases v with
      | dir => rfl
      | file o => simp [hg] at h
      | symlink s => simp [hg] at h

theorem linkFile_none {w : World} {p first : Path} (h : linkFile w p first = none) :
    mkdirAll w.dst (parentOf p) = none ∨ w.dst.get? p ≠ none ∨ ∀ fm, w.dst.get? first ≠ some (.file fm) := by
  unfold linkFile at h
  cases hm : mkdirAll w.dst (parentOf p) with
  | none => exact Or.inl rfl
  | some d =>
    right
    simp only [hm] at h
    by_cases hk : w.dst.get? p = none
    · right
      intro fm hf
      have h1 : d.get? p = none := by rw [get?_parent_self hm]; exact hk
      have h2 : d.get? first = some (.file fm) := mkdirAll_keeps_file hm hf
      simp [h1, h2] at h
    · exact Or.inl hk

theorem relinkFile_none {w : World} {p first : Path} (h : relinkFile w p first = none) :
    mkdirAll w.dst (parentOf p) = none ∨ w.dst.get? p = some .dir ∨ ∀ fm, w.dst.get? first ≠ some (.file fm) := by
  unfold relinkFile at h
  cases hm : mkdirAll w.dst (parentOf p) with
  | none => exact Or.inl rfl
  | some d =>
    right
    simp only [hm] at h
    by_cases hk : w.dst.get? p = some .dir
    · exact Or.inl hk
    · right
      intro fm hf
      have h1 : d.get? p ≠ some .dir := by rw [get?_parent_self hm]; exact hk
      have h2 : d.get? first = some (.file fm) := mkdirAll_keeps_file hm hf
      cases hg : d.get? p with
      | none => simp [hg, h2] at h
      | some v =>
        cases v with
        | dir => exact absurd hg h1
        | file o => simp [hg, h2] at h
        | symlink s => simp [hg, h2] at h

/-- a deletion never fails in the model (an absent path counts as deleted) -/
theorem perform_delete_ne_none (cfg : Cfg) (w : World) (t : Task) (h : t.act = .delete) : perform cfg w t ≠ none := by
  rw [perform_delete h]
  split
  · simp
  · split <;> simp

/-- **the failure causes of one task** in the model without a fault plan — every one of them is a node that is
    already in the destination map (or, with `-H`, missing from it at the registered first member of the group) -/
inductive FailCause (cfg : Cfg) (w : World) (t : Task) : Prop where
  /-- a strict ancestor of the path is a file or a symlink: `create_dir_all(parent)` fails (ENOTDIR / EEXIST) -/
  | ancestor (x : Path) (hx : x ≠ []) (hp : isPrefix x t.rel = true) (hne : x ≠ t.rel)
      (h0 : w.dst.get? x ≠ none) (h1 : w.dst.get? x ≠ some .dir)
  /-- a directory stands where a file, a symlink or a hard link is to be written -/
  | dirInTheWay (hpl : t.payload ≠ .dir) (h : w.dst.get? t.rel = some .dir)
  /-- a regular file stands where a directory is to be made -/
  | fileInTheWay (hpl : t.payload = .dir) (m : FileMeta) (h : w.dst.get? t.rel = some (.file m))
  /-- a symlink stands where a directory is to be CREATED (an `update` removes it first, fix 862af11) -/
  | linkInTheWay (hpl : t.payload = .dir) (ha : t.act = .create) (s : String)
      (h : w.dst.get? t.rel = some (.symlink s))
  /-- `-H`, creation of a later member of a link group: `link()` onto a name that exists -/
  | linkExists (m : FileMeta) (n : Nat) (hpl : t.payload = .file m n) (hh : cfg.hardlinks = true)
      (ha : t.act = .create) (h : w.dst.get? t.rel ≠ none)
  /-- `-H`: the registered first member of the group is not a regular file (any more) -/
  | firstGone (m : FileMeta) (n : Nat) (hpl : t.payload = .file m n) (hh : cfg.hardlinks = true)
      (x : Nat × Path × Nat) (hx : x ∈ w.linkMap) (h : ∀ fm, w.dst.get? x.2.1 ≠ some (.file fm))

theorem FailCause.of_parent_none {cfg : Cfg} {w : World} {t : Task}
    (h : mkdirAll w.dst (parentOf t.rel) = none) : FailCause cfg w t := by
  obtain ⟨x, hx, hp, h0, h1⟩ := mkdirAll_none h
  refine .ancestor x hx (isPrefix_trans hp (parentOf_isPrefix _)) ?_ h0 h1
  intro he
  rw [he] at hp hx
  exact parentOf_ne hx (isPrefix_antisymm (parentOf_isPrefix _) hp)

/-- **`perform` fails only for one of the six causes** (and only for a Create / Update outside a dry run) -/
theorem perform_none_cause {cfg : Cfg} {w : World} {t : Task} (h : perform cfg w t = none) :
    cfg.dryRun = false ∧ (t.act = .create ∨ t.act = .update) ∧ FailCause cfg w t := by
  have hdry : cfg.dryRun = false := by
    cases hd : cfg.dryRun with
    | false => rfl
    | true => rw [SyModel.Engine.perform_dry cfg hd] at h; cases h
  have hs : t.act ≠ .skip := fun hs => by rw [perform_skip hs] at h; cases h
  have hd : t.act ≠ .delete := fun hd => perform_delete_ne_none cfg w t hd h
  refine ⟨hdry, by cases ha : t.act <;> simp_all, ?_⟩
  rw [perform_cu hs hd hdry] at h
  unfold performCU at h
  cases hpl : t.payload with
  | nothing => simp [hpl] at h
  | dir =>
    simp only [hpl, Option.map_eq_none_iff] at h
    obtain ⟨x, hx, hp, h0, h1⟩ := mkdirAll_none h
    by_cases hxr : x = t.rel
    · rw [hxr] at h0 h1
      rcases dirBase_get?_self t.act w.dst t.rel with he | ⟨_, _, hn⟩
      · rw [he] at h0 h1
        cases hg : w.dst.get? t.rel with
        | none => exact absurd hg h0
        | some v =>
          cases v with
          | dir => exact absurd hg h1
          | file m => exact .fileInTheWay hpl m hg
          | symlink s =>
            cases ha : t.act with
            | create => exact .linkInTheWay hpl ha s hg
            | update =>
              exfalso
              apply h0
              rw [← he]
              simp [dirBase, ha, unlinkLink, hg, Map.get?_erase_same]
            | skip => exact absurd ha hs
            | delete => exact absurd ha hd
      · exact absurd hn h0
    · rw [dirBase_get?_ne _ _ _ _ hxr] at h0 h1
      exact .ancestor x hx hp hxr h0 h1
  | symlink text =>
    simp only [hpl] at h
    rcases writeSymlink_none h with h2 | h2
    · exact .of_parent_none h2
    · exact .dirInTheWay (by rw [hpl]; simp) h2
  | file m n =>
    simp only [hpl] at h
    have hnd : t.payload ≠ .dir := by rw [hpl]; simp
    have hwf : writeFile cfg w t.rel m = none → FailCause cfg w t := by
      intro h1
      rcases writeFile_none h1 with h2 | h2
      · exact .of_parent_none h2
      · exact .dirInTheWay hnd h2
    split at h
    · rename_i hc
      simp only [Bool.and_eq_true, decide_eq_true_eq] at hc
      obtain ⟨⟨_, hhl⟩, hn⟩ := hc
      split at h
      · rename_i i first j hfind
        have hmem := List.mem_of_find?_eq_some hfind
        by_cases hcr : t.act = .create
        · rw [if_pos hcr] at h
          rcases linkFile_none h with h2 | h2 | h2
          · exact .of_parent_none h2
          · exact .linkExists m n hpl hhl hcr h2
          · exact .firstGone m n hpl hhl (i, first, j) hmem h2
        · rw [if_neg hcr] at h
          rcases relinkFile_none h with h2 | h2 | h2
          · exact .of_parent_none h2
          · exact .dirInTheWay hnd h2
          · exact .firstGone m n hpl hhl (i, first, j) hmem h2
      · simp only [Option.map_eq_none_iff] at h
        exact hwf h
    · exact hwf h

/-! ## 2. one failing task leaves nothing behind -/

/-- **ONE TASK.**  In a parent-closed destination in which every registered first member of a link group is a regular
    file, a task that fails — planned as a `create` only where no symlink stands — leaves no residue: the parent chain
    of its path exists already (or cannot be made at all), and its path does not hold a symlink. -/
theorem noResidue_of_perform_none {cfg : Cfg} {w : World} {t : Task} (hc : GClosed w.dst)
    (hlm : ∀ x ∈ w.linkMap, ∃ fm, w.dst.get? x.2.1 = some (.file fm))
    (hcre : t.act = .create → ∀ s, w.dst.get? t.rel ≠ some (.symlink s))
    (hf : perform cfg w t = none) : NoResidue w.dst t.rel := by
  obtain ⟨_, _, hcause⟩ := perform_none_cause hf
  -- a node at the task's own path: the whole parent chain is there
  have hpres : w.dst.get? t.rel ≠ none → ∀ d, mkdirAll w.dst (parentOf t.rel) = some d → d = w.dst := by
    intro hp d hd
    have : mkdirAll w.dst (parentOf t.rel) = some w.dst := by
      apply mkdirAll_of_dirs
      intro x hx hpx
      refine hc t.rel hp x hx (isPrefix_trans hpx (parentOf_isPrefix _)) ?_
      intro he
      rw [he] at hpx hx
      exact parentOf_ne hx (isPrefix_antisymm (parentOf_isPrefix _) hpx)
    rw [this] at hd
    cases hd
    rfl
  refine ⟨fun d hd => ?_, fun s hs => ?_⟩
  · cases hcause with
    | ancestor x hx hp hne h0 h1 =>
      rcases mkdirAll_pre hd x hx (isPrefix_parentOf hp hne) with h2 | h2
      · exact absurd h2 h0
      · exact absurd h2 h1
    | dirInTheWay _ h => exact hpres (by rw [h]; simp) d hd
    | fileInTheWay _ m h => exact hpres (by rw [h]; simp) d hd
    | linkInTheWay _ _ s h => exact hpres (by rw [h]; simp) d hd
    | linkExists _ _ _ _ _ h => exact hpres h d hd
    | firstGone _ _ _ _ x hx h =>
      obtain ⟨fm, hfm⟩ := hlm x hx
      exact absurd hfm (h fm)
  · cases hcause with
    | ancestor x hx hp hne h0 h1 => exact h1 (hc t.rel (by rw [hs]; simp) x hx hp hne)
    | dirInTheWay _ h => rw [hs] at h; cases h
    | fileInTheWay _ m h => rw [hs] at h; cases h
    | linkInTheWay _ ha s' h => exact hcre ha s' h
    | linkExists _ _ _ _ ha _ => exact hcre ha s hs
    | firstGone _ _ _ _ x hx h =>
      obtain ⟨fm, hfm⟩ := hlm x hx
      exact absurd hfm (h fm)

/-! ## 3. `FailClean` along a list -/

/-- `FailClean` says: at every split of the list, the task that fails from the state the tasks before it produced
    leaves no residue -/
theorem failClean_of_splits (cfg : Cfg) : ∀ (ts : List Task) (st : Exec),
    (∀ pre t post, ts = pre ++ t :: post →
      perform cfg (pre.foldl (execTask cfg noFaults) st).w t = none →
      NoResidue (pre.foldl (execTask cfg noFaults) st).w.dst t.rel) →
    FailClean cfg st ts
  | [], _, _ => trivial
  | t :: ts, st, h =>
    ⟨h [] t ts rfl, failClean_of_splits cfg ts _ (fun pre t' post hts =>
      h (t :: pre) t' post (by rw [hts]; rfl))⟩

theorem failClean_splits (cfg : Cfg) : ∀ (ts : List Task) (st : Exec), FailClean cfg st ts →
    ∀ pre t post, ts = pre ++ t :: post →
      perform cfg (pre.foldl (execTask cfg noFaults) st).w t = none →
      NoResidue (pre.foldl (execTask cfg noFaults) st).w.dst t.rel
  | [], _, _, pre, t, post, hts, _ => by cases pre <;> cases hts
  | a :: ts, st, h, [], t, post, hts, hf => by
    cases hts
    exact h.1 hf
  | a :: ts, st, h, b :: pre, t, post, hts, hf => by
    cases hts
    exact failClean_splits cfg _ _ h.2 pre t post rfl hf

theorem failClean_append (cfg : Cfg) : ∀ (ts1 ts2 : List Task) (st : Exec), FailClean cfg st ts1 →
    FailClean cfg (ts1.foldl (execTask cfg noFaults) st) ts2 → FailClean cfg st (ts1 ++ ts2)
  | [], _, _, _, h2 => h2
  | t :: ts1, ts2, st, h1, h2 => ⟨h1.1, failClean_append cfg ts1 ts2 _ h1.2 h2⟩

/-- a list of tasks none of which can fail -/
theorem failClean_of_never_none (cfg : Cfg) : ∀ (ts : List Task) (st : Exec),
    (∀ t ∈ ts, ∀ w, perform cfg w t ≠ none) → FailClean cfg st ts
  | [], _, _ => trivial
  | t :: ts, st, h =>
    ⟨fun hf => absurd hf (h t (List.mem_cons_self ..) _),
      failClean_of_never_none cfg ts _ (fun t' ht' => h t' (List.mem_cons_of_mem _ ht'))⟩

theorem failClean_of_deletes (cfg : Cfg) (ts : List Task) (st : Exec) (h : ∀ t ∈ ts, t.act = .delete) :
    FailClean cfg st ts :=
  failClean_of_never_none cfg ts st (fun t ht w => perform_delete_ne_none cfg w t (h t ht))

/-! ## 4. pairwise independent tasks from a parent-closed start -/

/-- **`FailClean` for independent tasks.**  Any task list that is pairwise `Later` (no path twice among the
    creates / updates / skips, deletions last and not above them — Lemmas/EngineRun), run from a parent-closed
    destination with an empty link map, in which a `create` is planned only where the START holds no symlink. -/
theorem failClean_of_later {cfg : Cfg} (hdry : cfg.dryRun = false) (ts : List Task) (st0 : Exec)
    (hl0 : st0.w.linkMap = []) (hc : GClosed st0.w.dst) (hpw : ts.Pairwise Later)
    (hcre : ∀ t ∈ ts, t.act = .create → ∀ s, st0.w.dst.get? t.rel ≠ some (.symlink s)) :
    FailClean cfg st0 ts := by
  apply failClean_of_splits
  intro pre t post hts hf
  have hmem : t ∈ ts := by rw [hts]; simp
  have hndt : t.act ≠ .delete := fun h => perform_delete_ne_none cfg _ t h hf
  have hpw' := hpw
  rw [hts, List.pairwise_append] at hpw'
  obtain ⟨_, _, hcross⟩ := hpw'
  have hpre : ∀ a ∈ pre, a.rel ≠ t.rel ∧ (a.act = .delete → isPrefix a.rel t.rel = false) := by
    intro a ha
    have hl := hcross a ha t (List.mem_cons_self ..)
    have had : a.act ≠ .delete := fun h => hndt (hl.2 h)
    exact ⟨fun h => (hl.1 had).1 h.symm, fun h => absurd h had⟩
  have hl1 : LinkOK cfg ts (pre.foldl (execTask cfg noFaults) st0).w (t :: post) := by
    apply foldl_linkOK hdry noFaults pre (t :: post) st0
    · intro a ha; rw [hts]; exact List.mem_append_left _ ha
    · rw [← hts]; exact hpw
    · intro x hx; rw [hl0] at hx; cases hx
  have f1 := foldl_frame cfg noFaults pre st0 t.rel hpre
  refine noResidue_of_perform_none (foldl_noFaults_closed cfg pre st0 hc) ?_ ?_ hf
  · intro x hx
    obtain ⟨⟨m, n, d, _, _, hn, _⟩, _⟩ := hl1 x hx
    exact ⟨d, hn⟩
  · intro ha s hs
    rcases f1 with h1 | ⟨_, b1, _⟩
    · rw [h1] at hs; exact hcre t hmem ha s hs
    · rw [b1] at hs; cases hs

/-! ## 5. the plan -/

/-- the planner answers `create` only where the destination holds no symlink -/
theorem planEntry_create_not_link (cfg : Cfg) (dst : Map DNode) (e : SEntry)
    (h : (planEntry cfg dst e).act = .create) (s : String) : dst.get? e.rel ≠ some (.symlink s) := by
  intro hs
  unfold planEntry at h
  rw [hs] at h
  cases hk : e.kind with
  | dir => simp [hk] at h
  | file m n => simp [hk, planFileAct] at h
  | symlink text tgt =>
    cases hl : cfg.links with
    | skip => simp [hk, hl] at h
    | preserve =>
      simp only [hk, hl] at h
      split at h <;> cases h
    | follow =>
      cases tgt with
      | file m => simp [hk, hl, planFileAct] at h
      | dir => simp [hk, hl] at h
      | dangling => simp [hk, hl] at h

/-- the planned (non-deletion) tasks of entries with pairwise distinct paths are pairwise independent -/
theorem planned_pairwise (cfg : Cfg) (es : List SEntry) (dst : Map DNode) (hu : UniqueRels es) :
    (es.map (planEntry cfg dst)).Pairwise Later := by
  rw [List.pairwise_map]
  apply List.Pairwise.imp _ hu
  intro a b hab
  refine ⟨fun _ => ⟨?_, fun hd => absurd hd (planEntry_act_ne_delete _ _ _)⟩,
    fun hd => absurd hd (planEntry_act_ne_delete _ _ _)⟩
  rw [planEntry_rel, planEntry_rel]
  exact fun h => hab h.symm

/-- **THE STRUCTURAL THEOREM.**  No path twice in the filtered scan + a parent-closed destination (every strict
    ancestor of a listed path is a listed DIRECTORY — true of the listing of any real tree) ⇒ every failed task of the
    model's sequential fault-free run of the plan leaves no residue.  With or without `-H`, `--delete`, `--dry-run`;
    `ParentsFirst` is not needed. -/
theorem failClean_of_closed_dst (cfg : Cfg) (scan : List SEntry) (dst : Map DNode) (n : Nat)
    (hu : UniqueRels (scanFilter cfg scan)) (hc : DstParentClosed dst) :
    FailClean cfg (initExec dst n) (plan cfg scan dst) := by
  by_cases hdry : cfg.dryRun = true
  · exact SyModel.Props.GenEngineRun.failClean_of_dry_run cfg hdry _ _
  · simp only [Bool.not_eq_true] at hdry
    rw [plan_eq]
    apply failClean_append
    · refine failClean_of_later hdry _ _ rfl ((gclosed_iff dst).2 hc) (planned_pairwise cfg _ dst hu) ?_
      intro t ht ha s
      obtain ⟨e, _, rfl⟩ := List.mem_map.1 ht
      rw [planEntry_rel]
      exact planEntry_create_not_link cfg dst e ha s
    · apply failClean_of_deletes
      intro t ht
      split at ht
      · exact planDeletions_act ht
      · cases ht

end SyModel.Lemmas.GenEngineRunClean
