/-
  Path and association-list lemmas for the engine model (`SyModel.Engine.Tree`):
  `isPrefix` as the core `<+:` relation, membership in `ancestors`, keys vs `get?`.
-/
import SyModel.Engine.Model
namespace SyModel.Engine

/-! ### `isPrefix` -/

theorem isPrefix_iff (p q : Path) : isPrefix p q = true ↔ p <+: q := by
  induction p generalizing q with
  | nil => simp [isPrefix]
  | cons a p ih =>
    cases q with
    | nil => simp [isPrefix]
    | cons b q => simp [isPrefix, ih, List.cons_prefix_cons]

theorem isPrefix_refl (p : Path) : isPrefix p p = true := (isPrefix_iff p p).2 (List.prefix_refl p)

@[simp] theorem isPrefix_nil (p : Path) : isPrefix [] p = true := by simp [isPrefix]

theorem isPrefix_trans {a b c : Path} (h1 : isPrefix a b = true) (h2 : isPrefix b c = true) :
    isPrefix a c = true :=
  (isPrefix_iff a c).2 (((isPrefix_iff a b).1 h1).trans ((isPrefix_iff b c).1 h2))

theorem isPrefix_length {p q : Path} (h : isPrefix p q = true) : p.length ≤ q.length :=
  ((isPrefix_iff p q).1 h).length_le

theorem isPrefix_eq_of_length {p q : Path} (h : isPrefix p q = true) (hl : q.length ≤ p.length) : p = q :=
  ((isPrefix_iff p q).1 h).eq_of_length_le hl

theorem isPrefix_antisymm {p q : Path} (h1 : isPrefix p q = true) (h2 : isPrefix q p = true) : p = q :=
  isPrefix_eq_of_length h1 (isPrefix_length h2)

theorem isPrefix_nil_right {p : Path} (h : isPrefix p [] = true) : p = [] := by
  cases p with
  | nil => rfl
  | cons a p => simp [isPrefix] at h

/-- two prefixes of the same path are comparable -/
theorem isPrefix_total {a b c : Path} (h1 : isPrefix a c = true) (h2 : isPrefix b c = true) :
    isPrefix a b = true ∨ isPrefix b a = true := by
  rw [isPrefix_iff] at h1 h2
  rcases Nat.le_total a.length b.length with h | h
  · exact Or.inl ((isPrefix_iff _ _).2 (List.prefix_of_prefix_length_le h1 h2 h))
  · exact Or.inr ((isPrefix_iff _ _).2 (List.prefix_of_prefix_length_le h2 h1 h))

/-! ### `ancestors`, `parentOf` -/

theorem mem_ancestors {p q : Path} : q ∈ ancestors p ↔ q ≠ [] ∧ isPrefix q p = true ∧ q ≠ p := by
  unfold ancestors
  simp only [List.mem_filterMap, List.mem_range]
  constructor
  · rintro ⟨i, hi, h⟩
    split at h
    · cases h
    · rename_i h0
      simp only [Option.some.injEq] at h
      subst h
      refine ⟨?_, ?_, ?_⟩
      · intro hn
        have : (List.take i p).length = 0 := by rw [hn]; rfl
        rw [List.length_take] at this; omega
      · exact (isPrefix_iff _ _).2 (List.take_prefix i p)
      · intro he
        have : (List.take i p).length = p.length := by rw [he]
        rw [List.length_take] at this; omega
  · rintro ⟨hne, hp, hq⟩
    have hp' := (isPrefix_iff _ _).1 hp
    have hlen : q.length < p.length := by
      rcases Nat.lt_or_ge q.length p.length with h | h
      · exact h
      · exact absurd (isPrefix_eq_of_length hp h) hq
    refine ⟨q.length, hlen, ?_⟩
    have h0 : q.length ≠ 0 := by
      intro h; exact hne (List.eq_nil_of_length_eq_zero h)
    simp only [h0, ↓reduceIte, Option.some.injEq]
    exact (List.prefix_iff_eq_take.1 hp').symm

theorem parentOf_isPrefix (p : Path) : isPrefix (parentOf p) p = true :=
  (isPrefix_iff _ _).2 (List.dropLast_prefix p)

theorem parentOf_ne {p : Path} (h : p ≠ []) : parentOf p ≠ p := by
  intro he
  have : (parentOf p).length = p.length := by rw [he]
  simp [parentOf] at this
  have : p.length ≠ 0 := fun h0 => h (List.eq_nil_of_length_eq_zero h0)
  omega

/-- a strict prefix of `p` is a prefix of its parent -/
theorem isPrefix_parentOf {q p : Path} (h : isPrefix q p = true) (hne : q ≠ p) :
    isPrefix q (parentOf p) = true := by
  have hp := (isPrefix_iff _ _).1 h
  have hlen : q.length < p.length := by
    rcases Nat.lt_or_ge q.length p.length with h' | h'
    · exact h'
    · exact absurd (isPrefix_eq_of_length h h') hne
  rw [isPrefix_iff]
  unfold parentOf
  rw [List.dropLast_eq_take]
  rw [List.prefix_iff_eq_take] at hp
  rw [hp]
  apply List.take_prefix_take_left  -- placeholder
  omega

/-- what `mkdirAll dst (parentOf p)` walks over: the non-root strict prefixes of `p` -/
theorem mem_chain_parentOf {q p : Path} (h : q ∈ ancestors (parentOf p) ++ [parentOf p]) (hq : q ≠ []) :
    isPrefix q p = true ∧ q ≠ p := by
  have hpp := parentOf_isPrefix p
  have hpne : parentOf p ≠ p := by
    intro he
    cases p with
    | nil => rcases List.mem_append.1 h with h | h
             · exact hq (by rw [he] at h; have := (mem_ancestors.1 h).2.1; exact isPrefix_nil_right this)
             · simp [parentOf] at h; exact hq h
    | cons a t => exact parentOf_ne (by simp) he
  rcases List.mem_append.1 h with h | h
  · obtain ⟨_, h2, h3⟩ := mem_ancestors.1 h
    refine ⟨isPrefix_trans h2 hpp, ?_⟩
    intro he; subst he
    exact h3 (isPrefix_antisymm h2 hpp)
  · simp only [List.mem_singleton] at h; subst h
    exact ⟨hpp, hpne⟩

/-- conversely every non-root strict prefix is walked -/
theorem chain_parentOf_mem {q p : Path} (h : isPrefix q p = true) (hne : q ≠ p) (hq : q ≠ []) :
    q ∈ ancestors (parentOf p) ++ [parentOf p] := by
  have h' := isPrefix_parentOf h hne
  by_cases he : q = parentOf p
  · simp [he]
  · exact List.mem_append_left _ (mem_ancestors.2 ⟨hq, h', he⟩)

theorem mem_chain_self {q p : Path} : q ∈ ancestors p ++ [p] ↔ (q ≠ [] ∧ isPrefix q p = true) ∨ q = p := by
  simp only [List.mem_append, mem_ancestors, List.mem_singleton]
  constructor
  · rintro (⟨a, b, _⟩ | h)
    · exact Or.inl ⟨a, b⟩
    · exact Or.inr h
  · rintro (⟨a, b⟩ | h)
    · by_cases he : q = p
      · exact Or.inr he
      · exact Or.inl ⟨a, b, he⟩
    · exact Or.inr h

/-! ### keys -/

namespace Map
variable {α : Type}

theorem mem_keys_iff (m : Map α) (p : Path) : p ∈ keys m ↔ get? m p ≠ none := by
  induction m with
  | nil => simp [keys]
  | cons kv t ih =>
    obtain ⟨q, v⟩ := kv
    simp only [keys, List.map_cons, List.mem_cons, get?_cons] at ih ⊢
    by_cases h : q = p
    · simp [h]
    · simp only [h, ↓reduceIte]
      rw [← ih]
      constructor
      · rintro (h' | h')
        · exact absurd h'.symm h
        · exact h'
      · exact Or.inr

theorem get?_set (m : Map α) (p q : Path) (v : α) :
    get? (set m p v) q = if p = q then some v else get? m q := by
  by_cases h : p = q
  · subst h; simp
  · simp [h, get?_set_ne]

theorem get?_erase (m : Map α) (p q : Path) :
    get? (erase m p) q = if p = q then none else get? m q := by
  by_cases h : p = q
  · subst h; simp [get?_erase_same]
  · simp [h, get?_erase_ne]

end Map
end SyModel.Engine
