/-
  Progress of the watch loop under quiescence: every queued event is received (one per
  iteration), then the loop times out until `debounce` has elapsed since `last_sync`, then a
  sync starts from the current source; once a sync from the current source has completed
  with a visible difference the destination stays equal to the source.
-/
import SyModel.Lemmas.WatchInv
namespace SyModel.Watch

/-! ### characterisation of one loop iteration -/

theorem step_recv_kept (c : Cfg) (s : State) (k : Kind) (q : List Kind)
    (hp : s.phase = .loop) (hs : s.sig = false) (hq : s.queue = k :: q) (hk : k.kept = true) :
    (step c s).1 = { s with now := s.now + c.selectSleep, queue := q, pending := s.pending ++ [k] } := by
  simp [step, hp, hs, hq, hk]

theorem step_recv_dropped (c : Cfg) (s : State) (k : Kind) (q : List Kind)
    (hp : s.phase = .loop) (hs : s.sig = false) (hq : s.queue = k :: q) (hk : k.kept = false) :
    (step c s).1 = { s with now := s.now + c.selectSleep, queue := q } := by
  simp [step, hp, hs, hq, hk]

theorem step_timeout_sync (c : Cfg) (s : State)
    (hp : s.phase = .loop) (hs : s.sig = false) (hq : s.queue = []) (hpe : s.pending ≠ [])
    (hd : c.debounce ≤ s.now + c.selectSleep + c.recvTimeout - s.lastSync) :
    (step c s).1 = { s with now := s.now + c.selectSleep + c.recvTimeout, phase := .sync,
                            snap := s.src, syncs := s.syncs + 1, ok := true } := by
  simp [step, hp, hs, hq, hpe, hd]

theorem step_timeout_idle (c : Cfg) (s : State)
    (hp : s.phase = .loop) (hs : s.sig = false) (hq : s.queue = [])
    (hd : s.pending = [] ∨ ¬ c.debounce ≤ s.now + c.selectSleep + c.recvTimeout - s.lastSync) :
    (step c s).1 = { s with now := s.now + c.selectSleep + c.recvTimeout } := by
  rcases hd with hd | hd
  · simp [step, hp, hs, hq, hd]
  · simp [step, hp, hs, hq, hd]

theorem step_sync_end (c : Cfg) (s : State) (hp : s.phase = .sync) :
    (step c s).1 = { s with phase := .loop, dst := syncTo c s.snap s.dst, pending := [],
                            lastSync := s.now } := by
  simp [step, hp]

/-! ### splitting a quiescent schedule at its first `step` -/

theorem advance_advance (s : State) (a b : Nat) : advance (advance s a) b = advance s (a + b) := by
  simp [advance, Nat.add_assoc]

theorem advance_zero (s : State) : advance s 0 = s := rfl

@[simp] theorem advance_phase (s : State) (δ : Nat) : (advance s δ).phase = s.phase := rfl
@[simp] theorem advance_pending (s : State) (δ : Nat) : (advance s δ).pending = s.pending := rfl
@[simp] theorem advance_queue (s : State) (δ : Nat) : (advance s δ).queue = s.queue := rfl
@[simp] theorem advance_src (s : State) (δ : Nat) : (advance s δ).src = s.src := rfl
@[simp] theorem advance_dst (s : State) (δ : Nat) : (advance s δ).dst = s.dst := rfl
@[simp] theorem advance_snap (s : State) (δ : Nat) : (advance s δ).snap = s.snap := rfl
@[simp] theorem advance_sig (s : State) (δ : Nat) : (advance s δ).sig = s.sig := rfl
@[simp] theorem advance_syncs (s : State) (δ : Nat) : (advance s δ).syncs = s.syncs := rfl
@[simp] theorem advance_lastSync (s : State) (δ : Nat) : (advance s δ).lastSync = s.lastSync := rfl
@[simp] theorem advance_armed (s : State) (δ : Nat) : (advance s δ).armed = s.armed := rfl
@[simp] theorem advance_now (s : State) (δ : Nat) : (advance s δ).now = s.now + δ := rfl

/-- a quiescent schedule with at least one `step` is: some time passes, one `step`, the rest -/
theorem quiescent_split (c : Cfg) (is : List Input) (hq : Quiescent is) (hn : 1 ≤ nSteps is) :
    ∃ δ post, Quiescent post ∧ nSteps post + 1 = nSteps is ∧
      ∀ s, run c s is = run c (step c (advance s δ)).1 post := by
  induction is with
  | nil => simp at hn
  | cons i t ih =>
    obtain ⟨hi, ht⟩ := quiescent_cons hq
    rcases quiet_cases hi with e | ⟨δ', e⟩
    · subst e
      exact ⟨0, t, ht, by simp, fun s => by simp [apply, advance_zero]⟩
    · subst e
      obtain ⟨δ, post, h1, h2, h3⟩ := ih ht (by simpa using hn)
      refine ⟨δ' + δ, post, h1, by simpa using h2, fun s => ?_⟩
      simp only [run_cons, apply]
      rw [h3, advance_advance]

/-! ### the main progress lemma -/

/-- From the top of the loop, with work outstanding and no SIGINT: after at most
    `queue.length + max m 1` iterations a sync has started, where `m` is any number of receive
    timeouts that suffices to reach the debounce.  All queued events were received first. -/
theorem reach_sync (c : Cfg) (is : List Input) :
    ∀ (s : State) (m : Nat), Quiescent is → s.phase = .loop → s.sig = false → s.lastSync ≤ s.now →
      (s.pending ≠ [] ∨ ∃ k ∈ s.queue, k.kept = true) →
      c.debounce ≤ (s.now - s.lastSync) + m * c.recvTimeout →
      s.queue.length + max m 1 ≤ nSteps is →
      ∃ pre post, is = pre ++ post ∧ nSteps pre ≤ s.queue.length + max m 1 ∧
        (run c s pre).phase = .sync ∧ (run c s pre).queue = [] ∧ (run c s pre).snap = s.src ∧
        (run c s pre).src = s.src ∧ (run c s pre).dst = s.dst ∧ (run c s pre).sig = false ∧
        (run c s pre).pending = s.pending ++ s.queue.filter Kind.kept ∧
        (run c s pre).syncs = s.syncs + 1 := by
  induction is with
  | nil =>
    intro s m _ _ _ _ _ _ hn
    simp at hn
  | cons i t ih =>
    intro s m hq hp hs hls hw hm hn
    obtain ⟨hi, ht⟩ := quiescent_cons hq
    rcases quiet_cases hi with e | ⟨δ, e⟩
    · subst e
      cases hqu : s.queue with
      | cons k q =>
        -- receive one event
        by_cases hk : k.kept = true
        · have hst := step_recv_kept c s k q hp hs hqu hk
          obtain ⟨pre, post, h1, h2, h3, h4, h5, h6, h7, h8, h9, h10⟩ :=
            ih (step c s).1 m ht (by rw [hst]; exact hp) (by rw [hst]; exact hs) (by rw [hst]; simp only; omega)
              (by rw [hst]; left; simp)
              (by rw [hst]; simp only; omega)
              (by rw [hst]; simp only; simp [hqu] at hn; omega)
          refine ⟨.step :: pre, post, by simp [h1], ?_, ?_, ?_, ?_, ?_, ?_, ?_, ?_, ?_⟩
          · rw [hst] at h2; simp at h2 ⊢; omega
          · simpa [apply] using h3
          · simpa [apply] using h4
          · simp only [run_cons, apply]; rw [h5, hst]
          · simp only [run_cons, apply]; rw [h6, hst]
          · simp only [run_cons, apply]; rw [h7, hst]
          · simpa [apply] using h8
          · simp only [run_cons, apply]; rw [h9, hst]; simp [hk]
          · simp only [run_cons, apply]; rw [h10, hst]
        · have hk' : k.kept = false := by simpa using hk
          have hst := step_recv_dropped c s k q hp hs hqu hk'
          have hw' : s.pending ≠ [] ∨ ∃ k' ∈ q, k'.kept = true := by
            rcases hw with h | ⟨k', hk1, hk2⟩
            · exact Or.inl h
            · rw [hqu] at hk1
              rcases List.mem_cons.mp hk1 with e | e
              · subst e; rw [hk'] at hk2; cases hk2
              · exact Or.inr ⟨k', e, hk2⟩
          obtain ⟨pre, post, h1, h2, h3, h4, h5, h6, h7, h8, h9, h10⟩ :=
            ih (step c s).1 m ht (by rw [hst]; exact hp) (by rw [hst]; exact hs) (by rw [hst]; simp only; omega)
              (by rw [hst]; exact hw')
              (by rw [hst]; simp only; omega)
              (by rw [hst]; simp only; simp [hqu] at hn; omega)
          refine ⟨.step :: pre, post, by simp [h1], ?_, ?_, ?_, ?_, ?_, ?_, ?_, ?_, ?_⟩
          · rw [hst] at h2; simp at h2 ⊢; omega
          · simpa [apply] using h3
          · simpa [apply] using h4
          · simp only [run_cons, apply]; rw [h5, hst]
          · simp only [run_cons, apply]; rw [h6, hst]
          · simp only [run_cons, apply]; rw [h7, hst]
          · simpa [apply] using h8
          · simp only [run_cons, apply]; rw [h9, hst]; simp [hk']
          · simp only [run_cons, apply]; rw [h10, hst]
      | nil =>
        -- receive timeout
        have hpe : s.pending ≠ [] := by
          rcases hw with h | ⟨k, hk, _⟩
          · exact h
          · rw [hqu] at hk; cases hk
        by_cases hd : c.debounce ≤ s.now + c.selectSleep + c.recvTimeout - s.lastSync
        · have hst := step_timeout_sync c s hp hs hqu hpe hd
          refine ⟨[.step], t, rfl, by simp; omega, ?_, ?_, ?_, ?_, ?_, ?_, ?_, ?_⟩ <;>
            simp [apply, hst, hqu, hs]
        · have hst := step_timeout_idle c s hp hs hqu (Or.inr hd)
          -- at least two more timeouts were promised
          match m, hm, hn with
          | 0, hm, _ => exfalso; simp at hm; omega
          | 1, hm, _ => exfalso; simp at hm; omega
          | m' + 2, hm, hn =>
            have hmul : (m' + 2) * c.recvTimeout = (m' + 1) * c.recvTimeout + c.recvTimeout := by
              rw [Nat.succ_mul]
            obtain ⟨pre, post, h1, h2, h3, h4, h5, h6, h7, h8, h9, h10⟩ :=
              ih (step c s).1 (m' + 1) ht (by rw [hst]; exact hp) (by rw [hst]; exact hs) (by rw [hst]; simp only; omega)
                (by rw [hst]; exact Or.inl hpe)
                (by rw [hst]; simp only; omega)
                (by rw [hst]; simp only; simp [hqu] at hn ⊢; omega)
            refine ⟨.step :: pre, post, by simp [h1], ?_, ?_, ?_, ?_, ?_, ?_, ?_, ?_, ?_⟩
            · rw [hst] at h2; simp [hqu] at h2 ⊢; omega
            · simpa [apply] using h3
            · simpa [apply] using h4
            · simp only [run_cons, apply]; rw [h5, hst]
            · simp only [run_cons, apply]; rw [h6, hst]
            · simp only [run_cons, apply]; rw [h7, hst]
            · simpa [apply] using h8
            · simp only [run_cons, apply]; rw [h9]; simp [hst, hqu]
            · simp only [run_cons, apply]; rw [h10, hst]
    · subst e
      obtain ⟨pre, post, h1, h2, h3, h4, h5, h6, h7, h8, h9, h10⟩ :=
        ih (advance s δ) m ht hp hs (by simp only [advance]; omega) hw
          (by simp only [advance]; omega) hn
      exact ⟨.tick δ :: pre, post, by simp [h1], by simpa using h2,
        by simpa [apply] using h3, by simpa [apply] using h4, by simpa [apply] using h5,
        by simpa [apply] using h6, by simpa [apply] using h7, by simpa [apply] using h8,
        by simpa [apply] using h9, by simpa [apply] using h10⟩

/-- `⌈d / r⌉ · r ≥ d` -/
theorem ceilDiv_mul_ge (d r : Nat) (hr : 0 < r) : d ≤ ceilDiv d r * r := by
  unfold ceilDiv
  have h1 := Nat.div_add_mod (d + r - 1) r
  have h2 := Nat.mod_lt (d + r - 1) hr
  rw [Nat.mul_comm] at h1
  omega

/-! ### stability once the destination equals the source -/

/-- states from which, under quiescence, the destination is (or becomes with the next move)
    equal to the fixed source `v` and stays so -/
def Stable (c : Cfg) (v : Ver) (s : State) : Prop :=
  s.src = v ∧ s.sig = false ∧
    ((s.phase = .sync ∧ s.snap = v ∧ Vis c v s.dst) ∨ (s.phase = .loop ∧ s.dst = v))

theorem stable_run (c : Cfg) (v : Ver) (is : List Input) :
    ∀ s : State, Quiescent is → Stable c v s → (1 ≤ nSteps is ∨ s.dst = v) →
      (run c s is).dst = v ∧ (run c s is).src = v := by
  induction is with
  | nil =>
    intro s _ hst h
    rcases h with h | h
    · simp at h
    · exact ⟨by simpa using h, by simpa using hst.1⟩
  | cons i t ih =>
    intro s hq ⟨hsrc, hsig, hst⟩ h
    obtain ⟨hi, ht⟩ := quiescent_cons hq
    rcases quiet_cases hi with e | ⟨δ, e⟩
    · subst e
      simp only [run_cons, apply]
      rcases hst with ⟨hp, hsn, hv⟩ | ⟨hp, hd⟩
      · -- the sync completes
        rw [step_sync_end c s hp]
        apply ih _ ht
        · exact ⟨hsrc, hsig, Or.inr ⟨rfl, by simp only; rw [hsn]; exact syncTo_of_vis hv⟩⟩
        · right; simp only; rw [hsn]; exact syncTo_of_vis hv
      · cases hqu : s.queue with
        | cons k q =>
          by_cases hk : k.kept = true
          · rw [step_recv_kept c s k q hp hsig hqu hk]
            exact ih _ ht ⟨hsrc, hsig, Or.inr ⟨hp, hd⟩⟩ (Or.inr hd)
          · rw [step_recv_dropped c s k q hp hsig hqu (by simpa using hk)]
            exact ih _ ht ⟨hsrc, hsig, Or.inr ⟨hp, hd⟩⟩ (Or.inr hd)
        | nil =>
          by_cases hc : s.pending ≠ [] ∧ c.debounce ≤ s.now + c.selectSleep + c.recvTimeout - s.lastSync
          · rw [step_timeout_sync c s hp hsig hqu hc.1 hc.2]
            exact ih _ ht ⟨hsrc, hsig, Or.inl ⟨rfl, hsrc, Or.inl hd⟩⟩ (Or.inr hd)
          · rw [step_timeout_idle c s hp hsig hqu (by
              by_cases hpe : s.pending = []
              · exact Or.inl hpe
              · exact Or.inr (fun h' => hc ⟨hpe, h'⟩))]
            exact ih _ ht ⟨hsrc, hsig, Or.inr ⟨hp, hd⟩⟩ (Or.inr hd)
    · subst e
      exact ih (advance s δ) ht ⟨hsrc, hsig, hst⟩ h

end SyModel.Watch
