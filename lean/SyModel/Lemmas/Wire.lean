/-
  Helper lemmas for `SyModel.Delta.Wire`: the JSON printer / parser round trip of `Delta`
  and the sniffing leg.
-/
import SyModel.Delta.Wire
import SyModel.Lemmas.Json
namespace SyModel.Delta
open SyModel.Json SyModel.Compress

/-! ### literal facts (computed) -/

theorem lit_copy : lit "{\"Copy\":{\"offset\":" = 123 :: 34 :: 67 :: lit "opy\":{\"offset\":" := by decide
theorem lit_data : lit "{\"Data\":[" = 123 :: 34 :: 68 :: lit "ata\":[" := by decide
theorem lit_size : lit ",\"size\":" = 44 :: lit "\"size\":" := by decide
theorem lit_close2 : lit "}}" = [125, 125] := by decide
theorem lit_closeData : lit "]}" = [93, 125] := by decide
theorem lit_ops : lit "{\"ops\":[" = 123 :: lit "\"ops\":[" := by decide
theorem lit_src : lit "],\"source_size\":" = 93 :: lit ",\"source_size\":" := by decide
theorem lit_bs : lit ",\"block_size\":" = 44 :: lit "\"block_size\":" := by decide
theorem lit_end : lit "}" = [125] := by decide

theorem startsDigit_cons_false (b : UInt8) (t : Bytes) (h : isDigit b = false) : startsDigit (b :: t) = false := h

/-! ### unfolding equations that hide the termination proofs -/

theorem parseByteElems_comma (l : Bytes) (n : Nat) (r' : Bytes) (hp : parseNat l = some (n, 44 :: r')) :
    parseByteElems l =
      if n < 256 then
        match parseByteElems r' with
        | some (bs, r'') => some (n.toUInt8 :: bs, r'')
        | none => none
      else none := by
  rw [parseByteElems]
  split
  · rename_i n2 r2 h; rw [hp] at h; cases h; rfl
  · rename_i n2 r2 h; rw [hp] at h; cases h
  · rename_i h1 h2; exact absurd hp (h1 n r')

theorem parseByteElems_close (l : Bytes) (n : Nat) (r' : Bytes) (hp : parseNat l = some (n, 93 :: r')) :
    parseByteElems l = if n < 256 then some ([n.toUInt8], r') else none := by
  rw [parseByteElems]
  split
  · rename_i n2 r2 h; rw [hp] at h; cases h
  · rename_i n2 r2 h; rw [hp] at h; cases h; rfl
  · rename_i h1 h2; exact absurd hp (h2 n r')

theorem parseOpElems_comma (l : Bytes) (op : Op) (r' : Bytes) (hp : parseOp l = some (op, 44 :: r')) :
    parseOpElems l =
      match parseOpElems r' with
      | some (ops, r'') => some (op :: ops, r'')
      | none => none := by
  rw [parseOpElems]
  split
  · rename_i n2 r2 h; rw [hp] at h; cases h; rfl
  · rename_i n2 r2 h; rw [hp] at h; cases h
  · rename_i h1 h2; exact absurd hp (h1 op r')

theorem parseOpElems_close (l : Bytes) (op : Op) (r' : Bytes) (hp : parseOp l = some (op, 93 :: r')) :
    parseOpElems l = some ([op], r') := by
  rw [parseOpElems]
  split
  · rename_i n2 r2 h; rw [hp] at h; cases h
  · rename_i n2 r2 h; rw [hp] at h; cases h; rfl
  · rename_i h1 h2; exact absurd hp (h2 op r')

/-! ### `Vec<u8>` -/

theorem toUInt8_toNat (b : UInt8) : b.toNat.toUInt8 = b := by
  cases b; simp [Nat.toUInt8, UInt8.ofNat, UInt8.toNat]

theorem parseByteElems_encode (b : UInt8) (t : Bytes) (rest : Bytes) :
    parseByteElems (encodeByteList (b :: t) ++ 93 :: rest) = some (b :: t, rest) := by
  induction t generalizing b with
  | nil =>
    have hp := parseNat_print b.toNat (93 :: rest) rfl
    simp only [encodeByteList]
    rw [parseByteElems_close _ _ _ hp, if_pos (UInt8.toNat_lt b), toUInt8_toNat]
  | cons c t ih =>
    simp only [encodeByteList, List.append_assoc, List.cons_append]
    have hp := parseNat_print b.toNat (44 :: (encodeByteList (c :: t) ++ 93 :: rest)) rfl
    rw [parseByteElems_comma _ _ _ hp, if_pos (UInt8.toNat_lt b), toUInt8_toNat, ih]

theorem encodeByteList_head (b : UInt8) (t : Bytes) :
    ∃ c r, encodeByteList (b :: t) = c :: r ∧ isDigit c = true := by
  obtain ⟨c, r, hc, hd⟩ := printNat_head_digit b.toNat
  cases t with
  | nil => exact ⟨c, r, by simp [encodeByteList, hc], hd⟩
  | cons x t => exact ⟨c, r ++ 44 :: encodeByteList (x :: t), by simp [encodeByteList, hc], hd⟩

theorem parseByteArr_encode (d : Bytes) (rest : Bytes) :
    parseByteArr (encodeByteList d ++ 93 :: rest) = some (d, rest) := by
  cases d with
  | nil => simp [encodeByteList, parseByteArr]
  | cons b t =>
    have h := parseByteElems_encode b t rest
    obtain ⟨c, r, hc, hd⟩ := encodeByteList_head b t
    rw [hc] at h ⊢
    have hne : c ≠ 93 := by intro e; subst e; simp [isDigit] at hd
    simp only [List.cons_append] at h ⊢
    unfold parseByteArr
    split
    · rename_i heq; injection heq with h1 _; exact absurd h1 hne
    · exact h

/-! ### one op -/

theorem parseOp_encode (op : Op) (rest : Bytes) : parseOp (encodeOp op ++ rest) = some (op, rest) := by
  cases op with
  | copy o s =>
    simp only [encodeOp, List.append_assoc]
    unfold parseOp
    rw [expect_append]
    simp only
    rw [parseNat_print o _ (by rw [lit_size]; rfl)]
    simp only
    rw [expect_append]
    simp only
    rw [parseNat_print s _ (by rw [lit_close2]; rfl)]
    simp only
    rw [expect_append]
  | data d =>
    simp only [encodeOp, List.append_assoc]
    unfold parseOp
    have hno : ∀ x, expect (lit "{\"Copy\":{\"offset\":") (lit "{\"Data\":[" ++ x) = none := by
      intro x; rw [lit_copy, lit_data]; simp [expect]
    rw [hno]
    simp only
    rw [expect_append]
    simp only
    rw [lit_closeData]
    simp only [List.cons_append, List.nil_append]
    rw [parseByteArr_encode]
    simp [expect]

theorem encodeOp_head (op : Op) : ∃ r, encodeOp op = 123 :: r := by
  cases op with
  | copy o s => simp only [encodeOp, lit_copy, List.cons_append]; exact ⟨_, rfl⟩
  | data d => simp only [encodeOp, lit_data, List.cons_append]; exact ⟨_, rfl⟩

/-! ### the `ops` array -/

theorem parseOpElems_encode (op : Op) (t : List Op) (rest : Bytes) :
    parseOpElems (encodeOps (op :: t) ++ 93 :: rest) = some (op :: t, rest) := by
  induction t generalizing op with
  | nil =>
    simp only [encodeOps]
    rw [parseOpElems_close _ _ _ (parseOp_encode op (93 :: rest))]
  | cons o2 t ih =>
    simp only [encodeOps, List.append_assoc, List.cons_append]
    rw [parseOpElems_comma _ _ _ (parseOp_encode op (44 :: (encodeOps (o2 :: t) ++ 93 :: rest))), ih]

theorem parseOpArr_encode (ops : List Op) (rest : Bytes) :
    parseOpArr (encodeOps ops ++ 93 :: rest) = some (ops, rest) := by
  cases ops with
  | nil => simp [encodeOps, parseOpArr]
  | cons op t =>
    have h := parseOpElems_encode op t rest
    have hh : ∃ r, encodeOps (op :: t) = 123 :: r := by
      obtain ⟨r, hr⟩ := encodeOp_head op
      cases t with
      | nil => exact ⟨r, by simp [encodeOps, hr]⟩
      | cons x t => exact ⟨r ++ 44 :: encodeOps (x :: t), by simp [encodeOps, hr]⟩
    obtain ⟨r, hr⟩ := hh
    rw [hr] at h ⊢
    simp only [List.cons_append] at h ⊢
    unfold parseOpArr
    split
    · rename_i heq; injection heq with h1 _; exact absurd h1 (by decide)
    · exact h

/-! ### the whole document -/

theorem decodeJson_encodeJson (d : Delta) : decodeJson (encodeJson d) = some d := by
  simp only [encodeJson, List.append_assoc]
  unfold decodeJson
  rw [expect_append]
  simp only
  rw [lit_src]
  simp only [List.cons_append]
  rw [parseOpArr_encode]
  simp only
  rw [← List.cons_append, ← lit_src, expect_append]
  simp only
  rw [parseNat_print _ _ (by rw [lit_bs]; rfl)]
  simp only
  rw [expect_append]
  simp only
  rw [lit_end, parseNat_print _ _ (by rfl)]
  cases d; rfl

/-- the JSON text starts with `{`, never with the zstd magic. -/
theorem encodeJson_no_magic (d : Delta) : hasZstdMagic (encodeJson d) = false := by
  simp only [encodeJson, lit_ops, List.cons_append]
  unfold hasZstdMagic
  split
  · rename_i heq
    injection heq with h1 _
    subst h1
    rfl
  · rfl

end SyModel.Delta
