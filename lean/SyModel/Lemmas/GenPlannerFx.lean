/-
  Lemmas.GenPlannerFx — the world the translated planner (`Generated/Code/PlannerFx.lean`: the effect unit
  made of `StrategyPlanner::{plan_file_async, compute_checksums_local, needs_update, mtime_matches,
  plan_deletions}`, src/sync/strategy.rs, and `SyncEngine::plan_symlink`, src/sync/mod.rs) is run in, the abstraction maps to the handwritten engine model
  (`Engine/Model.lean`, `Engine/Caches.lean`), and the helper lemmas of `Props/GenPlannerFx.lean`.

  ## The world `PlanWorld`

  The translated code lives in `Rs.M W = ExceptT Rs.Err (StateM W)` and talks to the outside through
  `Ext W`.  Every operation the planner performs is a READ-ONLY probe, so the instance `extOf` below is made of
  `probe f = fun w => (f w, w)` only.  The world is:

    * `root`    — the text of the destination root (`dest_root`);
    * `dst`     — the destination tree AS THE MODEL HAS IT: `Engine.Map DNode`, keyed by relative component paths;
    * `through` — for a destination path that holds a symlink node: what following the link yields
                  (`LinkTarget`: dangling / a directory / a regular file with its meta).  The real probes
                  (`LocalTransport::{exists, metadata, file_info}`, `Path::exists`, `std::fs::metadata`,
                  src/transport/local.rs:218-229, src/transport/mod.rs:107-120) all FOLLOW links
                  (`tokio::fs::try_exists` / `tokio::fs::metadata` = `stat`), so a symlink node answers as its
                  target does; `read_link` (src/transport/local.rs:977) does NOT follow: it answers the text of a
                  symlink node (`linkAt`), `None` for every other node or nothing;
    * `dirInfo` — the size and mtime the inode of a directory reports (arbitrary: `file_info` succeeds on a directory);
    * `outside` — what a path text that is NOT below `root` resolves to (this is where the source files live;
                  the planner only asks `Path::exists` and `compute_file_checksum` about them);
    * `srcRoot` — the text of the source root: the checksum database is keyed by the path text of source files
                  (`db.store_checksum(&file.path, …)`, src/sync/mod.rs:1386), the model's `Db` by relative
                  component paths (`seenContent db e.rel m`), so the row of text `p` is the row of
                  `p.strip_prefix(srcRoot)`;
    * `db`      — the checksum database as the model's `Db` (all rows are of type "fast": the database is only
                  opened with `--checksum`, and `with_comparison_flags` builds a `Fast` verifier).

  Path texts and component paths: `compsOf` splits a text at `/` (`Rs.split`, the Prelude's `str::split`), `textOf`
  joins components with `/`.  `compsOf` is injective on ALL texts (`compsOf_injective`), and
  `compsOf (textOf k) = k` for clean keys (`CleanPath`: non-empty, no empty component, no `/` inside a component —
  what `strip_prefix` of a walked path yields), `compsOf_textOf`.
-/
import SyModel.Generated.Code.PlannerFx
import SyModel.Generated.Consts
import SyModel.Engine.Caches
import SyModel.Lemmas.EnginePost
set_option linter.unusedVariables false
set_option linter.unusedSimpArgs false
namespace SyModel.Lemmas.GenPlannerFx
open SyModel SyModel.Engine SyModel.Generated SyModel.Generated.PlannerFx

/-! ### path texts ↔ component paths -/

/-- a path text as the model's component path: the pieces between `/` -/
def compsOf (t : Rs.Path) : Engine.Path := (Rs.split t '/').map String.ofList

/-- a component path as text: components joined with `/` -/
def textOf : Engine.Path → Rs.Path
  | [] => []
  | [c] => c.toList
  | c :: d :: rest => c.toList ++ '/' :: textOf (d :: rest)

/-- keys a directory walk can produce: at least one component, none empty, none containing `/` -/
def CleanPath (k : Engine.Path) : Prop := k ≠ [] ∧ ∀ c ∈ k, c.toList ≠ [] ∧ '/' ∉ c.toList

instance (k : Engine.Path) : Decidable (CleanPath k) := by unfold CleanPath; infer_instance

/-- joining the pieces of `splitAux` gives the text back -/
def joinPieces : List Rs.Str → Rs.Str
  | [] => []
  | [a] => a
  | a :: b :: rest => a ++ '/' :: joinPieces (b :: rest)

theorem splitAux_ne_nil (s cur : Rs.Str) : Rs.splitAux '/' s cur ≠ [] := by
  induction s generalizing cur with
  | nil => simp [Rs.splitAux]
  | cons x t ih =>
    unfold Rs.splitAux
    split
    · simp
    · exact ih _

theorem joinPieces_cons (a : Rs.Str) (l : List Rs.Str) (h : l ≠ []) :
    joinPieces (a :: l) = a ++ '/' :: joinPieces l := by
  cases l with
  | nil => exact absurd rfl h
  | cons b rest => rfl

theorem joinPieces_splitAux (s cur : Rs.Str) : joinPieces (Rs.splitAux '/' s cur) = cur.reverse ++ s := by
  induction s generalizing cur with
  | nil => simp [Rs.splitAux, joinPieces]
  | cons x t ih =>
    unfold Rs.splitAux
    split
    · rename_i hx
      have hx' : x = '/' := by simpa using hx
      rw [joinPieces_cons _ _ (splitAux_ne_nil t []), ih, hx']; simp
    · rw [ih]; simp

/-- `str::split` is injective: the pieces joined with the separator are the text -/
theorem joinPieces_split (s : Rs.Str) : joinPieces (Rs.split s '/') = s := by
  unfold Rs.split; rw [joinPieces_splitAux]; rfl

theorem compsOf_injective {a b : Rs.Path} (h : compsOf a = compsOf b) : a = b := by
  unfold compsOf at h
  have h' : Rs.split a '/' = Rs.split b '/' :=
    (List.map_inj_right (fun _ _ h => String.ofList_injective h)).1 h
  rw [← joinPieces_split a, ← joinPieces_split b, h']

theorem splitAux_no_sep (s rest cur : Rs.Str) (h : '/' ∉ s) :
    Rs.splitAux '/' (s ++ rest) cur = Rs.splitAux '/' rest (s.reverse ++ cur) := by
  induction s generalizing cur with
  | nil => rfl
  | cons x t ih =>
    have hx : (x == '/') = false := by
      have : x ≠ '/' := fun e => h (by simp [e])
      simpa using this
    have ht : '/' ∉ t := fun e => h (List.mem_cons_of_mem _ e)
    show Rs.splitAux '/' (x :: (t ++ rest)) cur = _
    rw [Rs.splitAux]
    simp only [hx, Bool.false_eq_true, ↓reduceIte]
    rw [ih _ ht]; simp

theorem split_textOf (k : Engine.Path) (h : CleanPath k) :
    Rs.split (textOf k) '/' = k.map String.toList := by
  obtain ⟨hne, hc⟩ := h
  unfold Rs.split
  induction k with
  | nil => exact absurd rfl hne
  | cons c rest ih =>
    have hcc := (hc c (by simp)).2
    cases rest with
    | nil =>
      have := splitAux_no_sep c.toList [] [] hcc
      simp only [List.append_nil] at this
      simp [textOf, this, Rs.splitAux]
    | cons d rest' =>
      have := splitAux_no_sep c.toList ('/' :: textOf (d :: rest')) [] hcc
      simp only [textOf, this, List.append_nil]
      rw [Rs.splitAux]
      simp only [BEq.rfl, ↓reduceIte, List.reverse_reverse, List.map_cons, List.cons.injEq, true_and]
      have := ih (by simp) (fun x hx => hc x (List.mem_cons_of_mem _ hx))
      simpa using this

/-- a clean key is the component path of its own text -/
theorem compsOf_textOf (k : Engine.Path) (h : CleanPath k) : compsOf (textOf k) = k := by
  unfold compsOf
  rw [split_textOf k h, List.map_map]
  have : (String.ofList ∘ String.toList) = id := by funext s; simp [String.ofList_toList]
  rw [this, List.map_id]

/-- `Path::strip_prefix` undoes `Path::join` (Prelude's versions), for every root and every relative text -/
theorem strip_prefix_join (root rel : Rs.Path) : Rs.strip_prefix (Rs.join root rel) root = .ok rel := by
  unfold Rs.strip_prefix Rs.join
  cases root with
  | nil => cases rel <;> simp
  | cons a t =>
    have h1 : ((a :: t ++ '/' :: rel) == (a :: t)) = false := by
      apply beq_eq_false_iff_ne.2
      intro h
      have := congrArg List.length h
      simp at this
    simp only [List.isEmpty_cons, Bool.false_eq_true, ↓reduceIte, h1]
    have h2 : ((a :: t) ++ ['/']).isPrefixOf (a :: t ++ '/' :: rel) = true := by
      rw [List.isPrefixOf_iff_prefix]
      exact ⟨rel, by simp⟩
    simp only [h2, ↓reduceIte]
    congr 1
    have : (a :: t ++ '/' :: rel) = ((a :: t) ++ ['/']) ++ rel := by simp
    rw [this, List.drop_left' (by simp)]

/-! ### the world and the instance of `Ext` -/

/-- what the planner can see of the file systems and of the checksum database (see the head of this file) -/
structure PlanWorld where
  root    : Rs.Path
  dst     : Map DNode
  through : Engine.Path → LinkTarget
  dirInfo : Rs.Path → Nat × Nat
  outside : Rs.Path → LinkTarget
  srcRoot : Rs.Path
  db      : Db

/-- the relative component path of a path text below the destination root (`strip_prefix(dest_root)`) -/
def PlanWorld.relOf (w : PlanWorld) (p : Rs.Path) : Option Engine.Path :=
  match Rs.strip_prefix p w.root with
  | .ok r => some (compsOf r)
  | .error _ => none

/-- what a destination key resolves to when links are followed: the node itself, or for a symlink node its target -/
def PlanWorld.resolve (w : PlanWorld) (k : Engine.Path) : LinkTarget :=
  match w.dst.get? k with
  | none => .dangling
  | some .dir => .dir
  | some (.file d) => .file d
  | some (.symlink _) => w.through k

/-- `stat(2)` of a path text: nothing (`dangling`), a directory, or a regular file -/
def PlanWorld.stat (w : PlanWorld) (p : Rs.Path) : LinkTarget :=
  match w.relOf p with
  | some k => w.resolve k
  | none => w.outside p

/-- `try_exists` / `Path::exists` -/
def PlanWorld.existsAt (w : PlanWorld) (p : Rs.Path) : Bool :=
  match w.stat p with | .dangling => false | _ => true

/-- `fs::metadata` (kind, mtime, size of what the path resolves to); fails on a missing path -/
def PlanWorld.metaAt (w : PlanWorld) (p : Rs.Path) : Except Rs.Err Rs.Metadata :=
  match w.stat p with
  | .dangling => .error .io
  | .dir => .ok ⟨true, (w.dirInfo p).2, (w.dirInfo p).1⟩
  | .file d => .ok ⟨false, d.mtime, d.size⟩

/-- `Transport::file_info`: the default implementation over `metadata` (src/transport/mod.rs:107-120) -/
def PlanWorld.infoAt (w : PlanWorld) (p : Rs.Path) : Except Rs.Err FileInfo :=
  match w.metaAt p with
  | .ok m => .ok ⟨m.size, m.mtime⟩
  | .error e => .error e

/-- `IntegrityVerifier::compute_file_checksum` (src/integrity/mod.rs:100-112): the content id of a readable regular
    file; `ChecksumType::None` answers the constant `Checksum::None` without opening anything -/
def PlanWorld.cksumAt (w : PlanWorld) (v : IntegrityVerifier) (p : Rs.Path) : Except Rs.Err Nat :=
  match v.ctype with
  | .None => .ok 0
  | _ => match w.stat p with | .file d => .ok d.content | _ => .error .io

/-- the row key of a path text: its path relative to the source root -/
def PlanWorld.keyOf (w : PlanWorld) (p : Rs.Path) : Option Engine.Path :=
  match Rs.strip_prefix p w.srcRoot with
  | .ok r => some (compsOf r)
  | .error _ => none

/-- `ChecksumDatabase::get_checksum(path, mtime, size, type)` (src/sync/checksumdb.rs:73): a row for the path with equal
    mtime and size; rows are of type "fast", any other requested type is a miss -/
def PlanWorld.dbSeen (w : PlanWorld) (p : Rs.Path) (mtime size : Nat) (ty : Rs.Str) : Option Nat :=
  if ty = ['f', 'a', 's', 't'] then
    match w.keyOf p with
    | some k => w.db.lookup k mtime size
    | none => none
  else none

/-- the `FileEntry` the walk of the destination yields for one node (`StreamingScanner::next`,
    src/sync/scanner.rs:254-340: `path` = the walked path, `relative_path` = `path.strip_prefix(root)`; lstat kind) -/
def PlanWorld.entryOf (w : PlanWorld) (k : Engine.Path) (n : DNode) : FileEntry :=
  { path := Rs.join w.root (textOf k), relative_path := textOf k,
    size := (match n with | .file d => d.size | _ => 0),
    modified := (match n with | .file d => d.mtime | _ => 0),
    is_dir := (match n with | .dir => true | _ => false),
    is_symlink := (match n with | .symlink _ => true | _ => false),
    symlink_target := (match n with | .symlink t => some t.toList | _ => none),
    is_sparse := false, allocated_size := 0, xattrs := none,
    inode := (match n with | .file d => some d.ino | _ => none), nlink := 1, acls := none, bsd_flags := none }

/-- `Scanner::new(root).scan_streaming()` flattened: one entry per destination node, in the order of the map (the real
    walk order is unspecified); the root itself is skipped by the iterator, another root has nothing the planner
    knows of -/
def PlanWorld.scanOf (w : PlanWorld) (r : Rs.Path) : List FileEntry :=
  if r = w.root then w.dst.map (fun kv => w.entryOf kv.1 kv.2) else []

/-- `LocalTransport::read_link` (src/transport/local.rs:977: `Ok(tokio::fs::read_link(path).await.ok())`): the link
    text when the path ITSELF is a symlink (it does not follow), `None` for anything else or nothing.  Only destination
    paths are asked; a path outside the destination answers `None` -/
def PlanWorld.linkAt (w : PlanWorld) (p : Rs.Path) : Option Rs.Path :=
  match w.relOf p with
  | some k => (match w.dst.get? k with | some (.symlink t) => some t.toList | _ => none)
  | none => none

/-- a read-only operation: answers from the world, leaves it as it is -/
def probe {W α : Type} (f : W → Except Rs.Err α) : Rs.M W α := ExceptT.mk (fun w => (f w, w))

/-- THE INSTANCE: every extern of the planner as a read-only probe of `PlanWorld` -/
def extOf : Ext PlanWorld where
  std_fs_metadata p := probe fun w => w.metaAt p
  Scanner_new p := p
  t_exists _ p := probe fun w => .ok (w.existsAt p)
  t_metadata _ p := probe fun w => w.metaAt p
  t_file_info _ p := probe fun w => w.infoAt p
  path_exists p := probe fun w => .ok (w.existsAt p)
  db_get_checksum _ p mtime size ty := probe fun w => .ok (w.dbSeen p mtime size ty)
  compute_file_checksum v p := probe fun w => w.cksumAt v p
  scan_streaming r := probe fun w => .ok (w.scanOf r)
  t_read_link _ p := probe fun w => .ok (w.linkAt p)

@[simp] theorem extOf_std_fs_metadata (p : Rs.Path) : extOf.std_fs_metadata p = probe fun w => w.metaAt p := rfl
@[simp] theorem extOf_Scanner_new (p : Rs.Path) : extOf.Scanner_new p = p := rfl
@[simp] theorem extOf_t_exists (t : Rs.Opaque) (p : Rs.Path) : extOf.t_exists t p = probe fun w => .ok (w.existsAt p) := rfl
@[simp] theorem extOf_t_metadata (t : Rs.Opaque) (p : Rs.Path) : extOf.t_metadata t p = probe fun w => w.metaAt p := rfl
@[simp] theorem extOf_t_file_info (t : Rs.Opaque) (p : Rs.Path) : extOf.t_file_info t p = probe fun w => w.infoAt p := rfl
@[simp] theorem extOf_path_exists (p : Rs.Path) : extOf.path_exists p = probe fun w => .ok (w.existsAt p) := rfl
@[simp] theorem extOf_db_get_checksum (o : Rs.Opaque) (p : Rs.Path) (mt sz : Nat) (ty : Rs.Str) :
    extOf.db_get_checksum o p mt sz ty = probe fun w => .ok (w.dbSeen p mt sz ty) := rfl
@[simp] theorem extOf_compute_file_checksum (v : IntegrityVerifier) (p : Rs.Path) :
    extOf.compute_file_checksum v p = probe fun w => w.cksumAt v p := rfl
@[simp] theorem extOf_scan_streaming (r : Rs.Path) : extOf.scan_streaming r = probe fun w => .ok (w.scanOf r) := rfl

@[simp] theorem extOf_t_read_link (t : Rs.Opaque) (p : Rs.Path) : extOf.t_read_link t p = probe fun w => .ok (w.linkAt p) := rfl

/-! ### running `Rs.M` -/

/-- run a translated computation from a world: its result and the world after it -/
def runM {W α : Type} (x : Rs.M W α) (w : W) : Except Rs.Err α × W := x.run.run w

@[simp] theorem runM_pure {W α : Type} (a : α) (w : W) : runM (pure a : Rs.M W α) w = (.ok a, w) := rfl

@[simp] theorem runM_probe {W α : Type} (f : W → Except Rs.Err α) (w : W) : runM (probe f) w = (f w, w) := rfl

@[simp] theorem runM_bind {W α β : Type} (x : Rs.M W α) (k : α → Rs.M W β) (w : W) :
    runM (x >>= k) w = match runM x w with
      | (.ok a, w') => runM (k a) w'
      | (.error e, w') => (.error e, w') := by
  simp only [runM, bind, ExceptT.bind, ExceptT.run, ExceptT.mk, StateT.bind, StateT.run, ExceptT.bindCont]
  cases h : x w with
  | mk r w' => cases r <;> simp [pure, StateT.pure]

/-- `f <$> x` (what `do pure (g (← x))` elaborates to): the effect of `x`, then `f` on its value -/
theorem runM_map {W α β : Type} (f : α → β) (x : Rs.M W α) (w : W) :
    runM (f <$> x) w = match runM x w with
      | (.ok a, w') => (.ok (f a), w')
      | (.error e, w') => (.error e, w') := by
  rw [map_eq_pure_bind, runM_bind]
  rcases runM x w with ⟨r, w'⟩
  cases r <;> rfl

@[simp] theorem runM_capture {W α : Type} (x : Rs.M W α) (w : W) :
    runM (Rs.capture x) w = (.ok (runM x w).1, (runM x w).2) := by
  simp only [runM, Rs.capture, ExceptT.lift, ExceptT.run, ExceptT.mk, StateT.run, Functor.map, StateT.map,
    bind, pure]
  rfl

@[simp] theorem runM_ite {W α : Type} (c : Prop) [Decidable c] (x y : Rs.M W α) (w : W) :
    runM (if c then x else y) w = if c then runM x w else runM y w := by
  split <;> rfl

/-! ### `compute_checksums_local`, read at the level of the world -/

/-- the `checksum_type` text `compute_checksums_local` passes to the database -/
def tyText (v : IntegrityVerifier) : Rs.Str :=
  match v.ctype with
  | .None => ['n', 'o', 'n', 'e']
  | .Fast => ['f', 'a', 's', 't']
  | .Cryptographic => ['c', 'r', 'y', 'p', 't', 'o', 'g', 'r', 'a', 'p', 'h', 'i', 'c']

/-- database first (when one is open), then the file itself; `none` when neither answers -/
def seenCk (w : PlanWorld) (v : IntegrityVerifier) (useDb : Bool) (p : Rs.Path) (mtime size : Nat) : Option Nat :=
  match (if useDb then w.dbSeen p mtime size (tyText v) else none) with
  | some c => some c
  | none => Rs.ok (w.cksumAt v p)

/-- the source checksum the planner ends up with -/
def srcSeen (w : PlanWorld) (v : IntegrityVerifier) (useDb : Bool) (src : FileEntry) : Option Nat :=
  if w.existsAt src.path then seenCk w v useDb src.path src.modified src.size else none

/-- the destination checksum the planner ends up with (database row keyed by the CURRENT mtime and size) -/
def dstSeen (w : PlanWorld) (v : IntegrityVerifier) (useDb : Bool) (dp : Rs.Path) : Option Nat :=
  if w.existsAt dp then
    match w.metaAt dp with
    | .ok m => seenCk w v useDb dp m.mtime m.size
    | .error _ => Rs.ok (w.cksumAt v dp)
  else none

/-- `compute_checksums_local` never fails, changes nothing, and returns the two checksums described above -/
theorem compute_checksums_local_run (p : StrategyPlanner) (src : FileEntry) (dp : Rs.Path) (v : IntegrityVerifier)
    (w : PlanWorld) (db : Option Rs.Opaque) :
    runM (p.compute_checksums_local extOf src dp v db) w =
      (.ok (srcSeen w v db.isSome src, dstSeen w v db.isSome dp), w) := by
  unfold StrategyPlanner.compute_checksums_local
  extract_lets ct jp
  have hty : ct = tyText v := rfl
  clear_value ct
  subst hty
  have hjp : ∀ sc, runM (jp sc) w = (.ok (sc, dstSeen w v db.isSome dp), w) := by
    intro sc
    simp only [jp, dstSeen, seenCk, extOf_path_exists, extOf_std_fs_metadata, extOf_db_get_checksum,
      extOf_compute_file_checksum, runM_bind, runM_probe]
    cases he2 : w.existsAt dp
    · simp
    · cases hm : w.metaAt dp with
      | error e =>
        cases hc2 : w.cksumAt v dp <;> cases db <;> simp [Rs.ok, hc2, hm]
      | ok m =>
        cases db with
        | none => cases hc2 : w.cksumAt v dp <;> simp [Rs.ok, hc2, hm]
        | some o =>
          cases hd2 : w.dbSeen dp m.mtime m.size (tyText v) <;> cases hc2 : w.cksumAt v dp <;>
            simp [Rs.ok, Rs.modified, Rs.len, Rs.Len.len, hc2, hd2, hm]
  clear_value jp
  simp only [srcSeen, seenCk, extOf_path_exists, extOf_db_get_checksum, extOf_compute_file_checksum, runM_bind,
    runM_probe]
  cases he1 : w.existsAt src.path
  · simp [hjp]
  · cases db with
    | none => cases hc1 : w.cksumAt v src.path <;> simp [Rs.ok, hjp, hc1]
    | some o =>
      cases hd1 : w.dbSeen src.path src.modified src.size (tyText v) <;> cases hc1 : w.cksumAt v src.path <;>
        simp [Rs.ok, hjp, hc1, hd1]

/-! ### `plan_file_async`, read at the level of the world -/

/-- the two checksums of a file entry against a destination path (none without a verifier) -/
def cksumsAt (w : PlanWorld) (p : StrategyPlanner) (src : FileEntry) (useDb : Bool) : Option Nat × Option Nat :=
  match p.verifier with
  | some v => (srcSeen w v useDb src, dstSeen w v useDb (Rs.join w.root src.relative_path))
  | none => (none, none)

/-- both checksums known: equal ⇒ Skip, different ⇒ Update; otherwise what `needs_update` says -/
def decideAct (cks : Option Nat × Option Nat) (nu : Bool) : SyncAction :=
  match cks with
  | (some a, some b) => if a == b then .Skip else .Update
  | _ => if nu then .Update else .Skip

/-- action, source checksum, destination checksum of the task planned for `src`, by what `dest_root/relative_path`
    resolves to -/
def planAt (w : PlanWorld) (p : StrategyPlanner) (src : FileEntry) (useDb : Bool) :
    SyncAction × Option Nat × Option Nat :=
  match src.is_dir, w.stat (Rs.join w.root src.relative_path) with
  | true, .dir => (.Skip, none, none)
  | true, _ => (.Create, none, none)
  | false, .dangling => (.Create, none, none)
  | false, .dir => (.Update, none, none)
  | false, .file d =>
    (decideAct (cksumsAt w p src useDb) (p.needs_update src ⟨d.size, d.mtime⟩),
      (cksumsAt w p src useDb).1, (cksumsAt w p src useDb).2)

/-- CORE: `plan_file_async` on `extOf` — for every planner, entry, world, database handle — returns `Ok` of the task
    described by `planAt` and leaves the world as it was. -/
theorem plan_file_async_run (p : StrategyPlanner) (src : FileEntry) (w : PlanWorld) (t : Rs.Opaque)
    (db : Option Rs.Opaque) :
    runM (p.plan_file_async extOf src w.root t db) w =
      (.ok { source := some src, dest_path := Rs.join w.root src.relative_path,
             action := (planAt w p src db.isSome).1, source_checksum := (planAt w p src db.isSome).2.1,
             dest_checksum := (planAt w p src db.isSome).2.2 }, w) := by
  unfold StrategyPlanner.plan_file_async
  extract_lets dp jp
  have hjp : ∀ x, runM (jp x) w = (.ok ⟨some src, dp, x.1, x.2.1, x.2.2⟩, w) := fun x => rfl
  clear_value jp
  have hdp : dp = Rs.join w.root src.relative_path := rfl
  clear_value dp
  subst hdp
  unfold planAt
  cases hd : src.is_dir
  · -- a file entry
    simp only [extOf_t_file_info, extOf_t_metadata, runM_bind, runM_capture, runM_probe, runM_pure,
      Bool.false_eq_true, ↓reduceIte, PlanWorld.infoAt, PlanWorld.metaAt]
    cases hs : w.stat (Rs.join w.root src.relative_path) with
    | dangling => simp [hjp, hs]
    | dir => simp [hjp, hs, Rs.is_dir]
    | file d =>
      simp only [hs, runM_bind, runM_capture, runM_probe, Rs.is_dir, Bool.false_eq_true, ↓reduceIte, cksumsAt,
        decideAct]
      cases hv : p.verifier with
      | none => simp [hjp]
      | some v =>
        simp only [runM_bind, runM_pure, compute_checksums_local_run]
        cases srcSeen w v db.isSome src <;> cases dstSeen w v db.isSome (Rs.join w.root src.relative_path) <;>
          simp [hjp]
        split <;> simp [hjp]
  · -- a directory entry
    simp only [extOf_t_exists, extOf_t_metadata, runM_bind, runM_capture, runM_probe, runM_pure, ↓reduceIte,
      PlanWorld.existsAt, PlanWorld.metaAt, hjp]
    cases hs : w.stat (Rs.join w.root src.relative_path) <;>
      simp [Rs.unwrap_or, Rs.UnwrapOr.unwrap_or, Rs.is_dir, runM_map, runM_bind, runM_pure, runM_capture, runM_probe,
        extOf_t_metadata, PlanWorld.metaAt, hjp, hs]

/-! ### `plan_deletions`, read at the level of the world -/

/-- a `for` loop whose body only computes the next value of the mutable state runs as a fold and touches nothing -/
theorem runM_forIn_yield {W α σ : Type} (l : List α) (init : σ) (body : α → σ → Rs.M W (ForInStep σ))
    (f : α → σ → σ) (hb : ∀ x s, body x s = pure (ForInStep.yield (f x s))) (w : W) :
    runM (forIn l init body) w = (.ok (l.foldl (fun s x => f x s) init), w) := by
  induction l generalizing init with
  | nil => simp
  | cons x xs ih => simp [List.forIn_cons, hb, ih]

/-- the deletion task of a destination entry -/
def delTask (e : FileEntry) : SyncTask :=
  { source := none, dest_path := e.path, action := SyncAction.Delete, source_checksum := none, dest_checksum := none }

/-- the scanned destination entries whose relative path text is not the relative path text of a source entry, in scan
    order, as deletion tasks -/
def delsOf (srcs entries : List FileEntry) : List SyncTask :=
  (entries.filter fun e => !((srcs.map (·.relative_path)).contains e.relative_path)).map delTask

theorem foldl_push_if (c : FileEntry → Bool) (l : List FileEntry) (acc : List SyncTask) :
    l.foldl (fun s e => if c e = true then s ++ [delTask e] else s) acc = acc ++ (l.filter c).map delTask := by
  induction l generalizing acc with
  | nil => simp
  | cons x xs ih =>
    simp only [List.foldl_cons, ih, List.filter_cons]
    cases c x <;> simp

/-- the idealised Bloom filter after the insertion loop answers exactly as the list of inserted paths -/
theorem bloom_contains (l : List FileEntry) (s0 : Rs.HashSet Rs.Path) (x : Rs.Path) :
    Rs.contains (l.foldl (fun s f => Rs.set_insert s f.relative_path) s0) x
      = (s0.contains x || (l.map (·.relative_path)).contains x) := by
  induction l generalizing s0 with
  | nil => simp [Rs.contains]
  | cons a t ih =>
    simp only [List.foldl_cons, ih, List.map_cons, List.contains_cons]
    unfold Rs.set_insert
    by_cases h : s0.contains a.relative_path = true
    · simp only [h, ↓reduceIte]
      by_cases hx : x = a.relative_path
      · subst hx
        have h' : a.relative_path ∈ s0 := by simpa using h
        simp [h']
      · have : (x == a.relative_path) = false := by simpa using hx
        simp [this]
    · simp only [h, Bool.false_eq_true, ↓reduceIte]
      by_cases hx : x = a.relative_path
      · subst hx; simp
      · have : (x == a.relative_path) = false := by simpa using hx
        simp [this, hx]

/-- CORE: `plan_deletions` on `extOf` — BOTH branches, every source list, every world — returns `delsOf` of the walk
    of the destination and leaves the world as it was. -/
theorem plan_deletions_run (p : StrategyPlanner) (srcs : List FileEntry) (w : PlanWorld) :
    runM (p.plan_deletions extOf srcs w.root) w = (.ok (delsOf srcs (w.scanOf w.root)), w) := by
  unfold StrategyPlanner.plan_deletions
  extract_lets dels0 thr jp bloom0 paths
  have hjp : ∀ u d, runM (jp u d) w = (.ok d, w) := fun _ _ => rfl
  clear_value jp
  by_cases hbig : decide (Rs.len srcs > thr) = true
  · -- the Bloom branch
    simp only [hbig, ↓reduceIte, runM_bind, runM_capture, runM_probe, extOf_scan_streaming, extOf_Scanner_new,
      Rs.flatten]
    rw [runM_forIn_yield srcs bloom0 _ (fun file s => Rs.set_insert s file.relative_path) (fun _ _ => rfl)]
    simp only []
    rw [runM_forIn_yield (w.scanOf w.root) dels0 _
      (fun e s => if (!((srcs.map (·.relative_path)).contains e.relative_path)) = true then s ++ [delTask e] else s)]
    · simp only [hjp, foldl_push_if, dels0, List.nil_append, delsOf]
    · intro e s
      rw [bloom_contains]
      simp only [paths, Rs.collect, Rs.map, Rs.contains, delTask]
      -- whatever the filter answered before the insertions (nothing, or false positives): the exact test decides
      cases List.contains bloom0 e.relative_path <;>
        cases (srcs.map (·.relative_path)).contains e.relative_path <;> rfl
  · -- the HashSet branch
    simp only [hbig, Bool.false_eq_true, ↓reduceIte, runM_bind, runM_capture, runM_probe, extOf_scan_streaming,
      extOf_Scanner_new, Rs.flatten]
    rw [runM_forIn_yield (w.scanOf w.root) dels0 _
      (fun e s => if (!((srcs.map (·.relative_path)).contains e.relative_path)) = true then s ++ [delTask e] else s)]
    · simp only [hjp, foldl_push_if, dels0, List.nil_append, delsOf]
    · intro e s
      simp only [paths, Rs.collect, Rs.map, Rs.contains, delTask]
      cases (srcs.map (·.relative_path)).contains e.relative_path <;> rfl

/-! ### abstraction maps: generated types ↦ model types -/

/-- `SyncAction ↦ Act` -/
def absAct : SyncAction → Act
  | .Skip => .skip
  | .Create => .create
  | .Update => .update
  | .Delete => .delete

/-- the comparison mode a planner value stands for (the order of the `if`s of `needs_update`; as
    `Props.GenPlanner.modeOf` for the pure unit) -/
def modeOf (p : StrategyPlanner) : Compare :=
  if p.checksum then .checksum
  else if p.ignore_times then .ignoreTimes
  else if p.size_only then .sizeOnly
  else .default

/-- the planner was built by `StrategyPlanner::with_comparison_flags` (the constructor `SyncEngine::sync` uses,
    src/sync/mod.rs:524) or by `new()`: tolerance = the literal 1, and a `Fast` verifier exactly with `--checksum`
    (src/sync/strategy.rs:48-75; the fields are private, so the crate can build no other planner) -/
structure FromCli (p : StrategyPlanner) : Prop where
  tol : p.mtime_tolerance = MTIME_TOLERANCE_SECS
  ver : p.verifier = if p.checksum then some ⟨.Fast, false⟩ else none

/-- the content id of the regular file a path text resolves to (0 when it is not one) -/
def PlanWorld.contentAt (w : PlanWorld) (p : Rs.Path) : Nat :=
  match w.stat p with | .file m => m.content | _ => 0

/-- `FileEntry ↦ FileMeta`: size and mtime as scanned, the content the world holds at `path`; xattrs are not looked
    at by the planner (mapped to `[]`), `inode` is the class id -/
def absMeta (w : PlanWorld) (e : FileEntry) : FileMeta :=
  { content := w.contentAt e.path, size := e.size, mtime := e.modified, xattrs := [], ino := e.inode.getD 0 }

/-- `FileEntry ↦ SEntry` for the entries `plan_file_async` is called with (directories and regular files — or the
    dereferenced target entry built by `plan_symlink`; `plan_file_async` never reads `is_symlink`): relative path
    text ↦ components, `excluded = false` (the planner sees the filtered list) -/
def absEntry (w : PlanWorld) (e : FileEntry) : SEntry :=
  { rel := compsOf e.relative_path,
    kind := if e.is_dir then .dir else .file (absMeta w e) e.nlink,
    size := e.size, excluded := false }

/-- `SyncTask ↦ Task`: the action, the destination path relative to the root, and what is transferred -/
def absTask (w : PlanWorld) (t : SyncTask) : Task :=
  { act := absAct t.action,
    rel := (w.relOf t.dest_path).getD [],
    payload := match t.source with
      | some s => if s.is_dir then .dir else .file (absMeta w s) s.nlink
      | none => .nothing }

/-- no symlink node at a destination key (the probes FOLLOW links; the engine turns Skip/Create over a link into
    Update afterwards — `fixup` in Props) -/
def NotLinkAt (w : PlanWorld) (k : Engine.Path) : Prop := ∀ t, w.dst.get? k ≠ some (.symlink t)

/-- every key of the destination map is a path a walk can produce -/
def CleanKeys (w : PlanWorld) : Prop := ∀ k ∈ w.dst.keys, CleanPath k

theorem relOf_join (w : PlanWorld) (rel : Rs.Path) : w.relOf (Rs.join w.root rel) = some (compsOf rel) := by
  simp [PlanWorld.relOf, strip_prefix_join]

theorem keyOf_join (w : PlanWorld) (rel : Rs.Path) : w.keyOf (Rs.join w.srcRoot rel) = some (compsOf rel) := by
  simp [PlanWorld.keyOf, strip_prefix_join]

theorem stat_join (w : PlanWorld) (rel : Rs.Path) : w.stat (Rs.join w.root rel) = w.resolve (compsOf rel) := by
  simp [PlanWorld.stat, relOf_join]

/-! ### the pure kernels again (they are re-translated inside this unit) -/

theorem mtime_matches_eq_absDiff (p : StrategyPlanner) (a b : Nat) :
    p.mtime_matches a b = decide (absDiff a b / 1000000000 ≤ p.mtime_tolerance) := by
  unfold StrategyPlanner.mtime_matches Rs.duration_since Rs.as_secs Rs.duration absDiff
  by_cases hab : a ≤ b <;> by_cases hba : b ≤ a
  · have : a = b := Nat.le_antisymm hab hba
    subst this; simp
  · simp [hab, hba]
  · simp [hab, hba]
  · omega

theorem mtime_matches_eq_model' (p : StrategyPlanner) (hp : p.mtime_tolerance = MTIME_TOLERANCE_SECS)
    (a b : Rs.SystemTime) : p.mtime_matches a b = mtimeMatches a b := by
  rw [mtime_matches_eq_absDiff, hp]; rfl

theorem needs_update_eq_model' (p : StrategyPlanner) (hp : p.mtime_tolerance = MTIME_TOLERANCE_SECS)
    (src : FileEntry) (dst : FileInfo) :
    p.needs_update src dst = needsUpdate (modeOf p) src.size src.modified dst.size dst.modified := by
  have hm := mtime_matches_eq_model' p hp src.modified dst.modified
  unfold StrategyPlanner.needs_update modeOf needsUpdate
  rw [← hm]
  generalize p.mtime_matches src.modified dst.modified = mm
  cases p.checksum <;> cases p.ignore_times <;> cases p.size_only <;> cases mm <;>
    cases hs : (src.size != dst.size) <;> simp [Id.run] <;> rfl

/-! ### from the world-level reading to the model -/

/-- the content id the planner compares for a file: the database row when one is open and has a matching "fast"
    row, else the real content `c` -/
def seenOr (w : PlanWorld) (useDb : Bool) (p : Rs.Path) (mtime size c : Nat) : Nat :=
  match (if useDb then w.dbSeen p mtime size ['f', 'a', 's', 't'] else none) with
  | some x => x
  | none => c

/-- a file meta with another content id -/
def withContent (m : FileMeta) (c : Nat) : FileMeta := { m with content := c }
@[simp] theorem withContent_content (m : FileMeta) (c : Nat) : (withContent m c).content = c := rfl
@[simp] theorem withContent_size (m : FileMeta) (c : Nat) : (withContent m c).size = m.size := rfl
@[simp] theorem withContent_mtime (m : FileMeta) (c : Nat) : (withContent m c).mtime = m.mtime := rfl
theorem withContent_self (m : FileMeta) : withContent m m.content = m := rfl

/-- what following links at a destination key yields, as the node the model's `planFileAct` is given, with the
    content the planner sees -/
def seenNode (w : PlanWorld) (useDb : Bool) (dp : Rs.Path) : LinkTarget → Option DNode
  | .dangling => none
  | .dir => some .dir
  | .file d => some (.file (withContent d (seenOr w useDb dp d.mtime d.size d.content)))

theorem planFileAct_file_nonck (cfg : Cfg) (m d : FileMeta) (h : cfg.compare ≠ .checksum) :
    planFileAct cfg m (some (.file d)) =
      if needsUpdate cfg.compare m.size m.mtime d.size d.mtime then .update else .skip := by
  unfold planFileAct
  cases hc : cfg.compare <;> simp_all

theorem planFileAct_file_ck (cfg : Cfg) (m d : FileMeta) (h : cfg.compare = .checksum) :
    planFileAct cfg m (some (.file d)) = if m.content = d.content then .skip else .update := by
  unfold planFileAct
  simp [h]

/-- the decision of `plan_file_async` for a file entry is the model's `planFileAct`, on the contents the planner
    sees, against what the destination path RESOLVES to -/
theorem planAt_file_eq_planFileAct (w : PlanWorld) (p : StrategyPlanner) (hp : FromCli p) (src : FileEntry)
    (useDb : Bool) (hd : src.is_dir = false)
    (hsrc : p.checksum = true → ∃ sm, w.stat src.path = .file sm)
    (cfg : Cfg) (hc : cfg.compare = modeOf p) :
    absAct (planAt w p src useDb).1 =
      planFileAct cfg
        (withContent (absMeta w src) (seenOr w useDb src.path src.modified src.size (w.contentAt src.path)))
        (seenNode w useDb (Rs.join w.root src.relative_path) (w.stat (Rs.join w.root src.relative_path))) := by
  unfold planAt
  rw [hd]
  cases hs : w.stat (Rs.join w.root src.relative_path) with
  | dangling => rfl
  | dir => rfl
  | file d =>
    simp only [seenNode, cksumsAt, hp.ver]
    cases hck : p.checksum
    · -- no verifier: `needs_update`
      have hm : cfg.compare ≠ .checksum := by
        rw [hc]; unfold modeOf; rw [hck]; simp only [Bool.false_eq_true, ↓reduceIte]
        split <;> (try split) <;> simp
      rw [planFileAct_file_nonck _ _ _ hm, hc]
      simp only [Bool.false_eq_true, ↓reduceIte, decideAct, needs_update_eq_model' p hp.tol, withContent_size,
        withContent_mtime, absMeta]
      by_cases h : needsUpdate (modeOf p) src.size src.modified d.size d.mtime = true <;> simp [h, absAct]
    · -- `--checksum`: both checksums are available
      obtain ⟨sm, hsm⟩ := hsrc hck
      have hmode : cfg.compare = .checksum := by rw [hc]; unfold modeOf; rw [hck]; rfl
      rw [planFileAct_file_ck _ _ _ hmode]
      simp only [↓reduceIte, srcSeen, dstSeen, seenCk, tyText, PlanWorld.existsAt, PlanWorld.metaAt,
        PlanWorld.cksumAt, hs, hsm, seenOr, PlanWorld.contentAt, withContent_content, Rs.ok]
      cases useDb
      · simp only [Bool.false_eq_true, ↓reduceIte, decideAct, beq_iff_eq]
        split <;> rfl
      · simp only [↓reduceIte]
        cases w.dbSeen src.path src.modified src.size ['f', 'a', 's', 't'] <;>
          cases w.dbSeen (Rs.join w.root src.relative_path) d.mtime d.size ['f', 'a', 's', 't'] <;>
          simp only [decideAct, beq_iff_eq] <;> split <;> rfl

theorem seenNode_resolve_noDb (w : PlanWorld) (k : Engine.Path) (dp : Rs.Path) (h : NotLinkAt w k) :
    seenNode w false dp (w.resolve k) = w.dst.get? k := by
  unfold PlanWorld.resolve
  cases hg : w.dst.get? k with
  | none => rfl
  | some n =>
    cases n with
    | dir => rfl
    | file d => simp [seenNode, seenOr, withContent_self]
    | symlink t => exact absurd hg (h t)

theorem seenNode_resolve_miss (w : PlanWorld) (useDb : Bool) (k : Engine.Path) (dp : Rs.Path) (h : NotLinkAt w k)
    (hmiss : ∀ d, w.dst.get? k = some (.file d) → w.dbSeen dp d.mtime d.size ['f', 'a', 's', 't'] = none) :
    seenNode w useDb dp (w.resolve k) = w.dst.get? k := by
  unfold PlanWorld.resolve
  cases hg : w.dst.get? k with
  | none => rfl
  | some n =>
    cases n with
    | dir => rfl
    | file d => cases useDb <;> simp [seenNode, seenOr, hmiss d hg, withContent_self]
    | symlink t => exact absurd hg (h t)

/-- for a file entry the action is never `Delete` -/
theorem planAt_file_act (w : PlanWorld) (p : StrategyPlanner) (src : FileEntry) (useDb : Bool) :
    (planAt w p src useDb).1 = .Skip ∨ (planAt w p src useDb).1 = .Create ∨ (planAt w p src useDb).1 = .Update := by
  unfold planAt
  split <;> simp
  unfold decideAct
  split <;> split <;> simp

/-! ### deletions: from texts to components -/

theorem entryOf_path (w : PlanWorld) (k : Engine.Path) (n : DNode) :
    (w.entryOf k n).path = Rs.join w.root (textOf k) := rfl
theorem entryOf_rel (w : PlanWorld) (k : Engine.Path) (n : DNode) : (w.entryOf k n).relative_path = textOf k := rfl

/-- for a clean key: "its text is the relative path text of a source entry" ⇔ "it is the component path of one" -/
theorem contains_text_iff (w : PlanWorld) (srcs : List FileEntry) (k : Engine.Path) (hk : CleanPath k) :
    (srcs.map (·.relative_path)).contains (textOf k) = (srcs.map (absEntry w)).any (·.rel == k) := by
  rw [Bool.eq_iff_iff]
  simp only [List.contains_eq_mem, List.mem_map, decide_eq_true_eq, List.any_map, List.any_eq_true,
    Function.comp_apply, beq_iff_eq, absEntry]
  constructor
  · rintro ⟨e, he, h⟩; exact ⟨e, he, by rw [h, compsOf_textOf k hk]⟩
  · rintro ⟨e, he, h⟩
    refine ⟨e, he, compsOf_injective ?_⟩
    rw [h, compsOf_textOf k hk]

/-- the translated `plan_deletions`' result, abstracted, is the model's candidate list before the engine's `retain`:
    the destination keys that are no source path, in map order -/
theorem delsOf_abs (w : PlanWorld) (hw : CleanKeys w) (srcs : List FileEntry) :
    (delsOf srcs (w.scanOf w.root)).map (absTask w) =
      (w.dst.keys.filter fun k => !((srcs.map (absEntry w)).any (·.rel == k))).map
        fun k => ⟨.delete, k, .nothing⟩ := by
  unfold delsOf PlanWorld.scanOf Map.keys CleanKeys Map.keys at *
  simp only [↓reduceIte]
  generalize w.dst = m at hw
  induction m with
  | nil => rfl
  | cons kv rest ih =>
    have hk : CleanPath kv.1 := hw kv.1 (by simp)
    have ih' := ih (fun k hk' => hw k (by simp only [List.map_cons, List.mem_cons]; exact Or.inr hk'))
    simp only [List.map_cons, List.filter_cons, entryOf_rel, contains_text_iff w srcs kv.1 hk]
    cases (srcs.map (absEntry w)).any (·.rel == kv.1)
    · simp only [Bool.not_false, ↓reduceIte, List.map_cons, ih', List.cons.injEq, and_true]
      simp [absTask, delTask, absAct, entryOf_path, relOf_join, compsOf_textOf kv.1 hk]
    · simpa using ih'

/-! ### `SyncEngine::plan_symlink`, read at the level of the world -/

/-- the entry `plan_symlink` builds in follow mode: the link's entry standing for the file it points to (size and
    mtime of the target, no inode group, not a link any more) -/
def followEntry (file : FileEntry) (m : Rs.Metadata) : FileEntry :=
  { file with is_symlink := false, symlink_target := none, size := m.size, modified := m.mtime, inode := none,
              nlink := 1 }

/-- `simple(action)` of `plan_symlink` -/
def simpleTask (w : PlanWorld) (file : FileEntry) (a : SyncAction) : SyncTask :=
  { source := some file, dest_path := Rs.join w.root file.relative_path, action := a, source_checksum := none,
    dest_checksum := none }

/-- the preserve-mode decision from what `read_link` and `exists` answer for the destination path -/
def preserveAct (w : PlanWorld) (file : FileEntry) : SyncAction :=
  match w.linkAt (Rs.join w.root file.relative_path) with
  | some t => if some t == file.symlink_target then .Skip else .Update
  | none => if w.existsAt (Rs.join w.root file.relative_path) then .Update else .Create

/-- the task `plan_symlink` returns -/
def linkPlan (w : PlanWorld) (eng : SyncEngine) (file : FileEntry) (p : StrategyPlanner) (useDb : Bool) : SyncTask :=
  match eng.symlink_mode with
  | .Skip => simpleTask w file .Skip
  | .Preserve => simpleTask w file (preserveAct w file)
  | .Follow =>
    match w.metaAt file.path with
    | .ok m =>
      if m.dir then simpleTask w file .Skip
      else
        { source := some (followEntry file m), dest_path := Rs.join w.root file.relative_path,
          action := (planAt w p (followEntry file m) useDb).1,
          source_checksum := (planAt w p (followEntry file m) useDb).2.1,
          dest_checksum := (planAt w p (followEntry file m) useDb).2.2 }
    | .error _ => simpleTask w file .Skip

/-- CORE: `plan_symlink` on `extOf` — every engine view, planner, entry, world, database handle — returns `Ok` of
    `linkPlan` and leaves the world as it was. -/
theorem plan_symlink_run (eng : SyncEngine) (file : FileEntry) (w : PlanWorld) (p : StrategyPlanner)
    (db : Option Rs.Opaque) :
    runM (eng.plan_symlink extOf file w.root p db) w = (.ok (linkPlan w eng file p db.isSome), w) := by
  unfold SyncEngine.plan_symlink linkPlan
  cases hm : eng.symlink_mode with
  | Skip => rfl
  | Preserve =>
    simp only [extOf_t_read_link, extOf_t_exists, runM_bind, runM_capture, runM_probe, runM_pure, preserveAct,
      simpleTask, Rs.unwrap_or, Rs.UnwrapOr.unwrap_or, Rs.is_some]
    cases hl : w.linkAt (Rs.join w.root file.relative_path) with
    | none => cases he : w.existsAt (Rs.join w.root file.relative_path) <;> simp [he]
    | some t => by_cases hq : (some t == file.symlink_target) = true <;> simp [hq]
  | Follow =>
    simp only [extOf_std_fs_metadata, runM_bind, runM_capture, runM_probe, runM_pure]
    cases hmeta : w.metaAt file.path with
    | error e => rfl
    | ok m =>
      cases hdir : m.dir
      · simp only [Rs.is_dir, hdir, Bool.not_false, ↓reduceIte, Rs.modified, Rs.len, Rs.Len.len, Bool.false_eq_true]
        rw [plan_file_async_run]
        rfl
      · simp [Rs.is_dir, hdir, simpleTask]

/-! ### abstraction of symlink entries and their tasks -/

/-- `SymlinkMode ↦ LinkMode` -/
def absLinkMode : SymlinkMode → LinkMode
  | .Preserve => .preserve
  | .Follow => .follow
  | .Skip => .skip

/-- the link text of a scanned symlink entry (`symlink_target = read_link(path).ok()`, src/sync/scanner.rs) -/
def linkText (file : FileEntry) : String := String.ofList (file.symlink_target.getD [])

/-- what the source link resolves to, with the fields the generated `FileEntry` built by follow mode does not carry
    (xattrs, inode group: `target_entry.inode = None`) set as `absMeta` sets them -/
def absTarget : LinkTarget → LinkTarget
  | .file d => .file { content := d.content, size := d.size, mtime := d.mtime, xattrs := [], ino := 0 }
  | t => t

/-- `FileEntry ↦ SEntry` for a symlink entry: the link text, and what `std::fs::metadata(file.path)` (which follows)
    finds — the model's `tgt` -/
def absLinkEntry (w : PlanWorld) (file : FileEntry) : SEntry :=
  { rel := compsOf file.relative_path,
    kind := .symlink (linkText file) (absTarget (w.stat file.path)),
    size := file.size, excluded := false }

/-- `SyncTask ↦ Task` for tasks planned from symlink entries.  What a task whose source is still a symlink
    transfers depends on the mode the executor runs in: the link itself when preserving, nothing otherwise (skip mode;
    follow mode with a dangling link or a link to a directory).  A source that is not a symlink (the dereferenced
    entry of follow mode) is abstracted as by `absTask`. -/
def absLinkTask (mode : SymlinkMode) (w : PlanWorld) (t : SyncTask) : Task :=
  { act := absAct t.action,
    rel := (w.relOf t.dest_path).getD [],
    payload := match t.source with
      | some s =>
        if s.is_symlink then (match mode with | .Preserve => .symlink (linkText s) | _ => .nothing)
        else if s.is_dir then .dir else .file (absMeta w s) s.nlink
      | none => .nothing }

theorem absLinkTask_eq_absTask (mode : SymlinkMode) (w : PlanWorld) (t : SyncTask)
    (h : ∀ s, t.source = some s → s.is_symlink = false) : absLinkTask mode w t = absTask w t := by
  unfold absLinkTask absTask
  cases hs : t.source with
  | none => rfl
  | some s => simp [h s hs]

theorem linkAt_join (w : PlanWorld) (rel : Rs.Path) :
    w.linkAt (Rs.join w.root rel) =
      match w.dst.get? (compsOf rel) with | some (.symlink t) => some t.toList | _ => none := by
  simp [PlanWorld.linkAt, relOf_join]

theorem existsAt_join (w : PlanWorld) (rel : Rs.Path) :
    w.existsAt (Rs.join w.root rel) = (match w.resolve (compsOf rel) with | .dangling => false | _ => true) := by
  simp [PlanWorld.existsAt, stat_join]

end SyModel.Lemmas.GenPlannerFx
