/-
  Lemmas.GenLinkMember — definitions and helper lemmas of `Props/GenLinkMember.lean`: the bridge for the translated
  hard-link hand-off `Transferrer::transfer_link_member` (`Generated/Code/LinkMember.lean`, regenerated on every run
  from /repo/src/sync/transfer.rs:115-260).

  §0  `traceExt`: every operation records itself and answers from a script; `trace_*`: the call sequences of
      scripted runs of the generated function, computed by the kernel.
  §1  `loopN`, the meaning of the translated endless `loop` with fuel (as in Lemmas/GenWatch.lean, repeated so that the
      two units do not depend on each other).
  §2  THE NORMAL FORM of the loop body, for ANY instance `ext : Ext W`: the worker carries NO local state from one
      round to the next (the accumulator of the translated `for` is only the "has returned" slot), so one round is
      `round ext self source dest inode upd : Rs.M W Step`, the dispatch on ONE read of the map under the lock into
      `linkArm` (saw `Completed`), `waitArm` (saw `InProgress`), `claimArm` (saw nothing), the last one made of
      `copyBlock` (the captured `async { … }`) and `release`.
  §3  the sequential instance `seqExt` over the world of Lemmas/GenTransfer.lean (TRUSTED, described at its definition).
-/
import SyModel.Generated.Code.LinkMember
import SyModel.Lemmas.GenTransfer
set_option linter.unusedVariables false
set_option linter.unusedSimpArgs false
namespace SyModel.Lemmas.GenLinkMember
open SyModel SyModel.Generated SyModel.Generated.LinkMember
open SyModel.Lemmas.GenTransfer (runM op runM_op runM_pure runM_throw runM_bind runM_bind_ok runM_bind_error
  runM_capture_eq)

/-! ## §0 a tracing instance and scripted runs of the GENERATED function itself (no normal form involved) -/

/-- the calls of the hand-off, as recorded by the tracing instance -/
inductive Call where
  | get | new | contains | insertInProgress (n : Nat) | insertCompleted (p : Rs.Path) | remove
  | sameInode | tRemove | link (first : Rs.Path) | sync | copy | xattrs | acls | flags
  | notified (n : Nat) | await (t : Nat) | notifyWaiters (n : Nat)
  deriving DecidableEq, Repr

/-- the script of a traced run: the answers of the successive `map_get`s, of `contains_key`, of `same_inode`, and which
    operations fail; `log` is the trace (oldest call first) -/
structure TWorld where
  log : List Call := []
  gets : List (Option InodeState) := []
  taken : Bool := false
  same : Bool := false
  failCopy : Bool := false
  failLink : Bool := false
  failRemove : Bool := false
  deriving DecidableEq, Repr

def TWorld.say (t : TWorld) (c : Call) : TWorld := { t with log := t.log ++ [c] }

/-- THE TRACING INSTANCE: every operation records itself and answers from the script; `Notify::new` answers 7,
    `notified(n)` answers the future `n + 100` -/
def traceExt (fuel : Nat) : Ext TWorld where
  fuel := fuel
  Notify_new _ := op fun t => (.ok 7, t.say .new)
  map_get _ := op fun t => (.ok (t.gets.head?.getD none), { t.say .get with gets := t.gets.tail })
  map_contains _ := op fun t => (.ok t.taken, t.say .contains)
  map_insert _ st := op fun t => (.ok (), t.say (match st with | .InProgress n => .insertInProgress n | .Completed p => .insertCompleted p))
  map_remove _ := op fun t => (.ok (), t.say .remove)
  same_inode _ _ _ := op fun t => (.ok t.same, t.say .sameInode)
  t_remove _ _ _ := op fun t => (if t.failRemove then .error .io else .ok (), t.say .tRemove)
  t_create_hardlink _ first _ := op fun t => (if t.failLink then .error .io else .ok (), t.say (.link first))
  t_sync_file_with_delta _ _ _ := op fun t => (if t.failCopy then .error .io else .ok default, t.say .sync)
  transferrer_copy_file _ _ _ := op fun t => (if t.failCopy then .error .io else .ok default, t.say .copy)
  write_xattrs _ _ _ := op fun t => (.ok (), t.say .xattrs)
  write_acls _ _ _ := op fun t => (.ok (), t.say .acls)
  write_bsd_flags _ _ _ := op fun t => (.ok (), t.say .flags)
  notified n := op fun t => (.ok (n + 100), t.say (.notified n))
  await_notified n := op fun t => (.ok (), t.say (.await n))
  notify_waiters n := op fun t => (.ok (), t.say (.notifyWaiters n))

/-- the trace and the answer of a scripted run (creation or update of the entry `default` at the path `['d']`, inode 3) -/
def traced (fuel : Nat) (upd : Bool) (t : TWorld) : List Call × Bool :=
  let r := runM (Transferrer.transfer_link_member (traceExt fuel) default default ['d'] 3 upd) t
  (r.2.log, r.1.toBool)


/-- evaluate a scripted run: the `for` over the fuel range becomes a list iteration, then the kernel computes -/
macro "trace_run" : tactic => `(tactic|
  (unfold traced Transferrer.transfer_link_member
   simp only [Std.Legacy.Range.forIn_eq_forIn_range', Std.Legacy.Range.size]
   decide))

/-- the owner's copy fails (creation): the claim is removed, the waiters of the Notify that was inserted are woken, `Err` -/
theorem trace_owner_failure :
    traced 3 false { failCopy := true } =
      ([.get, .new, .contains, .insertInProgress 7, .copy, .remove, .notifyWaiters 7], false) := by trace_run
/-- … update: `sync_file_with_delta` instead of `copy_file` -/
theorem trace_owner_failure_update :
    traced 3 true { failCopy := true } =
      ([.get, .new, .contains, .insertInProgress 7, .sync, .remove, .notifyWaiters 7], false) := by trace_run
/-- the owner's copy succeeds: the three attribute writers, THEN `Completed(dest)`, then the wake-up -/
theorem trace_owner_success :
    traced 3 false {} =
      ([.get, .new, .contains, .insertInProgress 7, .copy, .xattrs, .acls, .flags, .insertCompleted ['d'],
        .notifyWaiters 7], true) := by trace_run
/-- a waiter whose re-check still sees the same `InProgress`: registered BEFORE the re-check, awaits the registered
    future, then starts over and links -/
theorem trace_waiter_waits :
    traced 3 false { gets := [some (.InProgress 5), some (.InProgress 5), some (.Completed ['f'])] } =
      ([.get, .notified 5, .get, .await 105, .get, .link ['f']], true) := by trace_run
/-- a waiter whose re-check sees the completion: NO await -/
theorem trace_waiter_sees_completion :
    traced 3 false { gets := [some (.InProgress 5), some (.Completed ['f']), some (.Completed ['f'])] } =
      ([.get, .notified 5, .get, .get, .link ['f']], true) := by trace_run
/-- a waiter whose re-check sees ANOTHER worker's claim (the first owner failed, a third member took over): no await on
    the stale future -/
theorem trace_waiter_sees_other_claim :
    traced 3 false { gets := [some (.InProgress 5), some (.InProgress 6), some (.Completed ['f'])] } =
      ([.get, .notified 5, .get, .get, .link ['f']], true) := by trace_run
/-- the double-check: the key was taken between the read and the claim ⇒ nothing inserted, nothing copied -/
theorem trace_lost_claim :
    traced 3 false { gets := [none, some (.Completed ['f'])], taken := true } =
      ([.get, .new, .contains, .get, .link ['f']], true) := by trace_run
/-- update of a later member whose path already names the group's inode: the test, nothing else -/
theorem trace_update_same_inode :
    traced 3 true { gets := [some (.Completed ['f'])], same := true } = ([.get, .sameInode], true) := by trace_run
/-- … another inode: the test, the removal, the link -/
theorem trace_update_other_inode :
    traced 3 true { gets := [some (.Completed ['f'])] } = ([.get, .sameInode, .tRemove, .link ['f']], true) := by trace_run
/-- … the removal fails: no link is attempted, `Err` -/
theorem trace_update_remove_fails :
    traced 3 true { gets := [some (.Completed ['f'])], failRemove := true } = ([.get, .sameInode, .tRemove], false) := by
  trace_run
/-- the fuel runs out while waiting: `Err` after exactly `fuel` rounds -/
theorem trace_out_of_fuel :
    traced 2 false { gets := [some (.InProgress 5), some (.InProgress 5), some (.InProgress 5), some (.InProgress 5)] } =
      ([.get, .notified 5, .get, .await 105, .get, .notified 5, .get, .await 105], false) := by trace_run

/-! ## §1 the loop -/
section Loop
variable {W σ α : Type}

/-- `n` iterations of a loop body that may leave the loop (`ForInStep.done`) -/
def loopN : Nat → (σ → Rs.M W (ForInStep σ)) → σ → Rs.M W σ
  | 0, _, s => pure s
  | n + 1, b, s => do
    match (← b s) with
    | .done s' => pure s'
    | .yield s' => loopN n b s'

theorem forIn_range'_eq_loopN (b : σ → Rs.M W (ForInStep σ)) (n : Nat) : ∀ (a : Nat) (s : σ),
    forIn (List.range' a n 1) s (fun _ r => b r) = loopN n b s := by
  induction n with
  | zero => intro a s; rfl
  | succ n ih =>
    intro a s
    rw [List.range'_succ, List.forIn_cons]
    simp only [loopN]
    congr 1
    funext r
    cases r with
    | done s' => rfl
    | yield s' => exact ih _ _

/-- `for _ in [0:n] do body` is `loopN n body` -/
theorem forIn_range_eq_loopN (b : σ → Rs.M W (ForInStep σ)) (n : Nat) (s : σ) :
    forIn [0:n] s (fun _ r => b r) = loopN n b s := by
  rw [Std.Legacy.Range.forIn_eq_forIn_range']
  have : ([0:n] : Std.Legacy.Range).size = n := by simp [Std.Legacy.Range.size]
  rw [this]
  exact forIn_range'_eq_loopN b n 0 s

theorem runM_loopN_done {b : σ → Rs.M W (ForInStep σ)} {s s' : σ} {w w' : W} (n : Nat)
    (h : runM (b s) w = (.ok (.done s'), w')) : runM (loopN (n + 1) b s) w = (.ok s', w') := by
  simp only [loopN]; rw [runM_bind_ok h]; rfl

theorem runM_loopN_yield {b : σ → Rs.M W (ForInStep σ)} {s s' : σ} {w w' : W} (n : Nat)
    (h : runM (b s) w = (.ok (.yield s'), w')) : runM (loopN (n + 1) b s) w = runM (loopN n b s') w' := by
  simp only [loopN]; rw [runM_bind_ok h]

theorem runM_loopN_error {b : σ → Rs.M W (ForInStep σ)} {s : σ} {w w' : W} {e : Rs.Err} (n : Nat)
    (h : runM (b s) w = (.error e, w')) : runM (loopN (n + 1) b s) w = (.error e, w') := by
  simp only [loopN]; rw [runM_bind_error h]

end Loop

/-! ## §2 the normal form of one round, for ANY instance -/

/-- the accumulator of the translated `for`: `some r` once the function has returned `Ok(r)` — nothing else is carried
    from one round of the Rust `loop` to the next -/
abbrev Acc := Option (Option TransferResult) × Unit
abbrev Step := ForInStep Acc

/-- `TransferResult { bytes_written: 0, compression_used: false, transferred_bytes: Some(0), delta_operations: None,
    literal_bytes: None }` (transfer.rs:144-150, 158-164): what a member that became a link reports -/
def zeroResult : TransferResult :=
  { bytes_written := 0, compression_used := false, transferred_bytes := some 0, delta_operations := none,
    literal_bytes := none }

/-- `return Ok(r)` -/
def finish (r : Option TransferResult) : Step := ForInStep.done (some r, ())
/-- `continue` -/
def again : Step := ForInStep.yield (none, ())

section Arms
variable {W : Type} (ext : Ext W) (self : Transferrer) (source : FileEntry) (dest : Rs.Path) (inode : Nat) (upd : Bool)

/-- transfer.rs:130-165 — the map answered `Completed(first)`: on update nothing when `dest` already names the inode of
    `first`, else the old name is removed; then the link -/
def linkArm (first : Rs.Path) : Rs.M W Step :=
  if upd = true then do
    let same ← ext.same_inode self first dest
    if same = true then pure (finish (some zeroResult))
    else do
      ext.t_remove self.transport dest false
      ext.t_create_hardlink self.transport first dest
      pure (finish (some zeroResult))
  else do
    ext.t_create_hardlink self.transport first dest
    pure (finish (some zeroResult))

/-- transfer.rs:166-191 — the map answered `InProgress(notify)`: REGISTER (`notify.notified()`), re-read the map under
    the lock, and await the registered future only when the entry still is `InProgress` of the SAME `Notify`; then
    `continue` -/
def waitArm (notify : Nat) : Rs.M W Step := do
  let t ← ext.notified notify
  let st ← ext.map_get inode
  if (match st with | some (InodeState.InProgress current) => current == notify | _ => false) = true then do
    ext.await_notified t
    pure again
  else pure again

/-- transfer.rs:213-234 — the captured `async { … }.await`: the transfer, then the three attribute writers; the first
    error ends the BLOCK (not the function) -/
def copyBlock : Rs.M W TransferResult :=
  if upd = true then do
    let result ← ext.t_sync_file_with_delta self.transport source.path dest
    ext.write_xattrs self source dest
    ext.write_acls self source dest
    ext.write_bsd_flags self source dest
    pure result
  else do
    let result ← ext.transferrer_copy_file self source.path dest
    ext.write_xattrs self source dest
    ext.write_acls self source dest
    ext.write_bsd_flags self source dest
    pure result

/-- transfer.rs:236-256 — the claim is released whatever the block answered: `Ok` ⇒ the entry becomes
    `Completed(dest)`, `Err` ⇒ the entry is removed; then `notify_waiters()` on the Notify that was inserted; then the
    block's answer is the function's answer -/
def release (notify : Nat) (copied : Except Rs.Err TransferResult) : Rs.M W Step :=
  match copied with
  | .ok result => do
    ext.map_insert inode (InodeState.Completed dest)
    ext.notify_waiters notify
    pure (finish (some result))
  | .error e => do
    ext.map_remove inode
    ext.notify_waiters notify
    throw e

/-- transfer.rs:192-257 — the map answered nothing: a fresh `Notify`; under the lock `contains_key` (lost the race ⇒
    `continue`) else `insert(InProgress(notify))`; the copy block; the release -/
def claimArm : Rs.M W Step := do
  let notify ← ext.Notify_new ()
  let taken ← ext.map_contains inode
  if taken = true then pure again
  else do
    ext.map_insert inode (InodeState.InProgress notify)
    let copied ← Rs.capture (copyBlock ext self source dest upd)
    release ext dest inode notify copied

/-- what follows the read of the map -/
def dispatch (st : Option InodeState) : Rs.M W Step :=
  match st with
  | some (InodeState.Completed first) => linkArm ext self dest upd first
  | some (InodeState.InProgress notify) => waitArm ext inode notify
  | none => claimArm ext self source dest inode upd

/-- ONE ROUND of the Rust `loop` (transfer.rs:123-259): one read of the map under the lock, then the arm -/
def round : Rs.M W Step := do
  let st ← ext.map_get inode
  dispatch ext self source dest inode upd st

/-- after the loop: the returned value, or — the fuel ran out — an error -/
def conclude (s : Acc) : Rs.M W (Option TransferResult) :=
  match s.1 with
  | some r => pure r
  | none => throw Rs.Err.other

/-- `n` rounds -/
def rounds (n : Nat) : Rs.M W (Option TransferResult) :=
  loopN n (fun _ => round ext self source dest inode upd) ((none, ()) : Acc) >>= conclude

/-- THE NORMAL FORM.  The proof is by unfolding both sides: every statement of the Rust function is in the generated
    term, so moving, dropping or adding a call breaks this theorem. -/
theorem transfer_link_member_forIn :
    Transferrer.transfer_link_member ext self source dest inode upd =
      (forIn [0:ext.fuel] ((none, ()) : Acc) (fun _ _ => round ext self source dest inode upd)) >>= conclude := by
  unfold Transferrer.transfer_link_member
  simp only [pure_bind, ExceptT.bind_throw]
  congr 1
  funext s
  rcases s with ⟨_ | r, _⟩ <;> rfl

theorem transfer_link_member_rounds :
    Transferrer.transfer_link_member ext self source dest inode upd = rounds ext self source dest inode upd ext.fuel := by
  rw [transfer_link_member_forIn, rounds]
  congr 1
  exact forIn_range_eq_loopN (fun _ => round ext self source dest inode upd) ext.fuel (none, ())

variable {w w1 w2 w3 w4 w5 w6 w7 : W}

/-! ### runs of `rounds` -/

theorem rounds_zero : runM (rounds ext self source dest inode upd 0) w = (.error .other, w) := rfl

theorem rounds_finish {r : Option TransferResult} (n : Nat)
    (h : runM (round ext self source dest inode upd) w = (.ok (finish r), w1)) :
    runM (rounds ext self source dest inode upd (n + 1)) w = (.ok r, w1) := by
  unfold rounds
  rw [runM_bind, runM_loopN_done n (s' := (some r, ())) h]
  rfl

theorem rounds_again (n : Nat) (h : runM (round ext self source dest inode upd) w = (.ok again, w1)) :
    runM (rounds ext self source dest inode upd (n + 1)) w = runM (rounds ext self source dest inode upd n) w1 := by
  unfold rounds
  rw [runM_bind, runM_bind, runM_loopN_yield n (s' := (none, ())) h]

theorem rounds_error {e : Rs.Err} (n : Nat) (h : runM (round ext self source dest inode upd) w = (.error e, w1)) :
    runM (rounds ext self source dest inode upd (n + 1)) w = (.error e, w1) := by
  unfold rounds
  rw [runM_bind, runM_loopN_error n h]

/-! ### runs of one round, arm by arm -/

theorem round_run {st : Option InodeState} (h : runM (ext.map_get inode) w = (.ok st, w1)) :
    runM (round ext self source dest inode upd) w = runM (dispatch ext self source dest inode upd st) w1 := by
  unfold round; rw [runM_bind_ok h]

theorem round_get_error {e : Rs.Err} (h : runM (ext.map_get inode) w = (.error e, w1)) :
    runM (round ext self source dest inode upd) w = (.error e, w1) := by
  unfold round; rw [runM_bind_error h]

/-- a statement that ends with an operation's `Ok` leading on, its `Err` ending the run -/
def andThen {α β : Type} (r : Except Rs.Err α × W) (k : α → W → Except Rs.Err β × W) : Except Rs.Err β × W :=
  match r with
  | (.ok a, w') => k a w'
  | (.error e, w') => (.error e, w')

theorem runM_bind_andThen {α β : Type} (x : Rs.M W α) (f : α → Rs.M W β) (w : W) :
    runM (x >>= f) w = andThen (runM x w) (fun a w' => runM (f a) w') := by
  rw [runM_bind]; unfold andThen
  rcases runM x w with ⟨r, w'⟩
  cases r <;> rfl


@[simp] theorem andThen_ok {α β : Type} (a : α) (w : W) (k : α → W → Except Rs.Err β × W) :
    andThen (.ok a, w) k = k a w := rfl
@[simp] theorem andThen_error {α β : Type} (e : Rs.Err) (w : W) (k : α → W → Except Rs.Err β × W) :
    andThen (.error e, w) k = (.error e, w) := rfl
theorem andThen_assoc {α β γ : Type} (r : Except Rs.Err α × W) (f : α → W → Except Rs.Err β × W)
    (g : β → W → Except Rs.Err γ × W) :
    andThen (andThen r f) g = andThen r (fun a w => andThen (f a w) g) := by
  rcases r with ⟨r, w⟩; cases r <;> rfl

/-- what the function answers once a round has ended -/
def afterRound (n : Nat) (st : Step) (w : W) : Except Rs.Err (Option TransferResult) × W :=
  match st with
  | .done (some r, _) => (.ok r, w)
  | .done (none, _) => (.error .other, w)
  | .yield s => runM (loopN n (fun _ => round ext self source dest inode upd) s >>= conclude) w

theorem rounds_succ (n : Nat) :
    runM (rounds ext self source dest inode upd (n + 1)) w =
      andThen (runM (round ext self source dest inode upd) w) (afterRound ext self source dest inode upd n) := by
  unfold rounds
  simp only [loopN, bind_assoc, runM_bind_andThen]
  congr 1; funext st w1
  rcases st with ⟨_ | r, _⟩ | s
  · rfl
  · rfl
  · simp only [afterRound, runM_bind_andThen]

@[simp] theorem afterRound_finish (n : Nat) (r : Option TransferResult) :
    afterRound ext self source dest inode upd n (finish r) w = (.ok r, w) := rfl
@[simp] theorem afterRound_again (n : Nat) :
    afterRound ext self source dest inode upd n again w = runM (rounds ext self source dest inode upd n) w := rfl

theorem linkArm_create_run (first : Rs.Path) :
    runM (linkArm ext self dest false first) w =
      andThen (runM (ext.t_create_hardlink self.transport first dest) w) (fun _ w' => (.ok (finish (some zeroResult)), w')) := by
  unfold linkArm
  simp only [Bool.false_eq_true, ↓reduceIte, runM_bind_andThen, runM_pure]

theorem linkArm_update_run (first : Rs.Path) :
    runM (linkArm ext self dest true first) w =
      andThen (runM (ext.same_inode self first dest) w) (fun same w1 =>
        if same = true then (.ok (finish (some zeroResult)), w1)
        else andThen (runM (ext.t_remove self.transport dest false) w1) (fun _ w2 =>
          andThen (runM (ext.t_create_hardlink self.transport first dest) w2) (fun _ w3 =>
            (.ok (finish (some zeroResult)), w3)))) := by
  unfold linkArm
  simp only [↓reduceIte, runM_bind_andThen]
  congr 1
  funext same w1
  cases same <;> simp only [Bool.false_eq_true, ↓reduceIte, runM_bind_andThen, runM_pure]

theorem waitArm_run (notify : Nat) :
    runM (waitArm ext inode notify) w =
      andThen (runM (ext.notified notify) w) (fun t w1 =>
        andThen (runM (ext.map_get inode) w1) (fun st w2 =>
          if st = some (InodeState.InProgress notify) then
            andThen (runM (ext.await_notified t) w2) (fun _ w3 => (.ok again, w3))
          else (.ok again, w2))) := by
  unfold waitArm
  simp only [runM_bind_andThen]
  congr 1; funext t w1; congr 1; funext st w2
  rcases st with _ | (cur | p)
  · simp
  · by_cases hc : cur = notify
    · subst hc; simp only [beq_self_eq_true, ↓reduceIte, runM_bind_andThen, runM_pure]
    · have : (cur == notify) = false := by simpa using hc
      simp [this, hc]
  · simp

theorem copyBlock_run :
    runM (copyBlock ext self source dest upd) w =
      andThen (runM (if upd = true then ext.t_sync_file_with_delta self.transport source.path dest
                     else ext.transferrer_copy_file self source.path dest) w) (fun result w1 =>
        andThen (runM (ext.write_xattrs self source dest) w1) (fun _ w2 =>
          andThen (runM (ext.write_acls self source dest) w2) (fun _ w3 =>
            andThen (runM (ext.write_bsd_flags self source dest) w3) (fun _ w4 => (.ok result, w4))))) := by
  unfold copyBlock
  cases upd <;> simp only [Bool.false_eq_true, ↓reduceIte, runM_bind_andThen, runM_pure]

theorem release_ok_run (notify : Nat) (result : TransferResult) :
    runM (release ext dest inode notify (.ok result)) w =
      andThen (runM (ext.map_insert inode (InodeState.Completed dest)) w) (fun _ w1 =>
        andThen (runM (ext.notify_waiters notify) w1) (fun _ w2 => (.ok (finish (some result)), w2))) := by
  unfold release
  simp only [runM_bind_andThen, runM_pure]

theorem release_err_run (notify : Nat) (e : Rs.Err) :
    runM (release ext dest inode notify (.error e)) w =
      andThen (runM (ext.map_remove inode) w) (fun _ w1 =>
        andThen (runM (ext.notify_waiters notify) w1) (fun _ w2 => (.error e, w2))) := by
  unfold release
  simp only [runM_bind_andThen, runM_throw]

theorem claimArm_run :
    runM (claimArm ext self source dest inode upd) w =
      andThen (runM (ext.Notify_new ()) w) (fun notify w1 =>
        andThen (runM (ext.map_contains inode) w1) (fun taken w2 =>
          if taken = true then (.ok again, w2)
          else andThen (runM (ext.map_insert inode (InodeState.InProgress notify)) w2) (fun _ w3 =>
            runM (release ext dest inode notify (runM (copyBlock ext self source dest upd) w3).1)
              (runM (copyBlock ext self source dest upd) w3).2))) := by
  unfold claimArm
  simp only [runM_bind_andThen]
  congr 1; funext notify w1; congr 1; funext taken w2
  cases taken
  · simp only [Bool.false_eq_true, ↓reduceIte, runM_bind_andThen, runM_capture_eq]
    rfl
  · simp only [↓reduceIte, runM_pure]

end Arms

/-! ## §3 the sequential instance

  ### The world `SWorld` (TRUSTED)

  `xw` is the world of Lemmas/GenTransfer.lean (`XWorld`: the model's `Engine.World` under a root text, and what source
  path texts resolve to).  The shared `HashMap<u64, InodeState>` of the run is the PAIR of `claims` (its `InProgress`
  entries: inode ↦ identity of the `Notify`) and `xw.w.linkMap` (its `Completed` entries: the model records a group by the
  KEY of the first member's destination path; the map holds the path text `destOf root key`).  `fresh` counts the
  `Notify` objects created, `woken` logs the `notify_waiters()` calls.

  ### The instance `seqExt cfg fuel same cp` (TRUSTED: this is where the modelling decisions are)

    map_get i / map_contains i   the claim of `i` if there is one, else the recorded group of `i`, else nothing
    map_insert i st              `HashMap::insert`: any old entry of `i` (claim or record) is replaced; `Completed(p)`
                                 records the key of `p` with the inode number of the file at it (`inoAt`, as `perform`)
    map_remove i                 `HashMap::remove`: claim and record of `i` are dropped
    Notify_new                   the next unused identity
    notified n                   the number of `notify_waiters()` calls on `n` so far (tokio's snapshot)
    await_notified t             NO OTHER WORKER EXISTS, so a future that has to wait waits for ever: `Err(other)` stands
                                 for the deadlock.  (`seq_never_awaits`: it is not reached from a world without claims.)
    notify_waiters n             logged
    same_inode a b               the oracle `same xw a b` (the per-path representation of `Engine.World` does not show
                                 whether two names share an inode after a write-through; see Props, Part 2)
    t_remove, t_sync_file_with_delta, write_xattrs, write_acls, write_bsd_flags
                                 the very operations of `extOf cfg` (Lemmas/GenTransfer.lean), on `xw`
    transferrer_copy_file s d    the parameter `cp s d`, an operation on `xw`: `atomicCopy cfg` = `extOf cfg`'s `t_copy_file`
                                 (one step), or `translatedCopy cfg self` = the TRANSLATED `Transferrer::copy_file` of unit
                                 Transfer run on `extOf cfg` (`create_dir_all(parent)`, then `t_copy_file`)
    t_create_hardlink first d    the model's `linkFile` at the key of `d` towards the key of `first`
-/
structure SWorld where
  xw : SyModel.Lemmas.GenTransfer.XWorld
  claims : List (Nat × Nat)
  fresh : Nat
  woken : List Nat

section Seq
open SyModel.Engine SyModel.Lemmas.GenTransfer

def SWorld.start (xw : XWorld) : SWorld := ⟨xw, [], 0, []⟩

/-- an operation on `xw` as an operation on the whole world -/
def liftX {α : Type} (x : Rs.M XWorld α) : Rs.M SWorld α :=
  op fun s => ((runM x s.xw).1, { s with xw := (runM x s.xw).2 })

@[simp] theorem runM_liftX {α : Type} (x : Rs.M XWorld α) (s : SWorld) :
    runM (liftX x) s = ((runM x s.xw).1, { s with xw := (runM x s.xw).2 }) := rfl

def dropKey {α : Type} (i : Nat) (l : List (Nat × α)) : List (Nat × α) := l.filter fun p => !(p.1 == i)

theorem dropKey_of_find_none {α : Type} (i : Nat) (l : List (Nat × α)) (h : l.find? (·.1 == i) = none) :
    dropKey i l = l := by
  unfold dropKey
  rw [List.filter_eq_self]
  intro a ha
  have := List.find?_eq_none.1 h a ha
  simpa using this

/-- `map.get(&i).cloned()` -/
def SWorld.get (s : SWorld) (i : Nat) : Option InodeState :=
  match s.claims.find? (·.1 == i) with
  | some (_, n) => some (.InProgress n)
  | none =>
    match s.xw.w.linkMap.find? (·.1 == i) with
    | some (_, first, _) => some (.Completed (destOf s.xw.root first))
    | none => none

def SWorld.setLinkMap (s : SWorld) (lm : List (Nat × Engine.Path × Nat)) : SWorld :=
  { s with xw := { s.xw with w := { s.xw.w with linkMap := lm } } }

/-- `map.insert(i, st)` -/
def SWorld.insert (s : SWorld) (i : Nat) : InodeState → SWorld
  | .InProgress n => { s.setLinkMap (dropKey i s.xw.w.linkMap) with claims := (i, n) :: dropKey i s.claims }
  | .Completed p =>
    match keyOf s.xw.root p with
    | some k => { s.setLinkMap ((i, k, inoAt s.xw.w.dst k) :: dropKey i s.xw.w.linkMap) with claims := dropKey i s.claims }
    | none => { s.setLinkMap (dropKey i s.xw.w.linkMap) with claims := dropKey i s.claims }

/-- `map.remove(&i)` -/
def SWorld.remove (s : SWorld) (i : Nat) : SWorld :=
  { s.setLinkMap (dropKey i s.xw.w.linkMap) with claims := dropKey i s.claims }

/-- the two units have their own copies of the scanned-entry and result structures (one per generated file) -/
def toT (e : FileEntry) : Transfer.FileEntry :=
  { path := e.path, relative_path := e.relative_path, size := e.size, modified := e.modified, is_dir := e.is_dir,
    is_symlink := e.is_symlink, symlink_target := e.symlink_target, is_sparse := e.is_sparse,
    allocated_size := e.allocated_size, xattrs := e.xattrs, inode := e.inode, nlink := e.nlink, acls := e.acls,
    bsd_flags := e.bsd_flags }
def ofT (e : Transfer.FileEntry) : FileEntry :=
  { path := e.path, relative_path := e.relative_path, size := e.size, modified := e.modified, is_dir := e.is_dir,
    is_symlink := e.is_symlink, symlink_target := e.symlink_target, is_sparse := e.is_sparse,
    allocated_size := e.allocated_size, xattrs := e.xattrs, inode := e.inode, nlink := e.nlink, acls := e.acls,
    bsd_flags := e.bsd_flags }
def resOfT (r : Transfer.TransferResult) : TransferResult :=
  { bytes_written := r.bytes_written, delta_operations := r.delta_operations, literal_bytes := r.literal_bytes,
    transferred_bytes := r.transferred_bytes, compression_used := r.compression_used }
def resToT (r : TransferResult) : Transfer.TransferResult :=
  { bytes_written := r.bytes_written, delta_operations := r.delta_operations, literal_bytes := r.literal_bytes,
    transferred_bytes := r.transferred_bytes, compression_used := r.compression_used }

@[simp] theorem toT_ofT (e : Transfer.FileEntry) : toT (ofT e) = e := rfl
@[simp] theorem resToT_resOfT (r : Transfer.TransferResult) : resToT (resOfT r) = r := rfl
@[simp] theorem resToT_zero : resToT zeroResult = linkResult := rfl

/-- `create_hardlink(first, dest)` on the model's world: `linkFile` at the key of `dest` towards the key of `first` -/
def hardlinkW (xw : XWorld) (first : Rs.Path) (k : Engine.Path) : Option (Unit × World) :=
  match keyOf xw.root first with
  | some kf => (linkFile xw.w k kf).map fun w' => ((), w')
  | none => none

/-- `extOf cfg`'s `t_copy_file`: the transfer as one step -/
def atomicCopy (cfg : Cfg) (s d : Rs.Path) : Rs.M XWorld Transfer.TransferResult := (extOf cfg).t_copy_file ⟨⟩ s d
/-- the TRANSLATED `Transferrer::copy_file` (unit Transfer) on `extOf cfg` -/
def translatedCopy (cfg : Cfg) (self : Transfer.Transferrer) (s d : Rs.Path) : Rs.M XWorld Transfer.TransferResult :=
  Transfer.Transferrer.copy_file (extOf cfg) self s d

/-- THE INSTANCE (head of this section) -/
def seqExt (cfg : Cfg) (fuel : Nat) (same : XWorld → Rs.Path → Rs.Path → Bool)
    (cp : Rs.Path → Rs.Path → Rs.M XWorld Transfer.TransferResult) : Ext SWorld where
  fuel := fuel
  Notify_new _ := op fun s => (.ok s.fresh, { s with fresh := s.fresh + 1 })
  map_get i := op fun s => (.ok (s.get i), s)
  map_contains i := op fun s => (.ok (s.get i).isSome, s)
  map_insert i st := op fun s => (.ok (), s.insert i st)
  map_remove i := op fun s => (.ok (), s.remove i)
  same_inode _ a b := op fun s => (.ok (same s.xw a b), s)
  t_remove _ p isDir := liftX ((extOf cfg).t_remove ⟨⟩ p isDir)
  t_create_hardlink _ first d := liftX (op fun xw => xw.at d fun k => hardlinkW xw first k)
  t_sync_file_with_delta _ s d := liftX (((extOf cfg).t_sync_file_with_delta ⟨⟩ s d) >>= fun r => pure (resOfT r))
  transferrer_copy_file _ s d := liftX (cp s d >>= fun r => pure (resOfT r))
  write_xattrs _ e d := liftX ((extOf cfg).write_xattrs default (toT e) d)
  write_acls _ e d := liftX ((extOf cfg).write_acls default (toT e) d)
  write_bsd_flags _ e d := liftX ((extOf cfg).write_bsd_flags default (toT e) d)
  notified n := op fun s => (.ok (s.woken.count n), s)
  await_notified _ := throw .other
  notify_waiters n := op fun s => (.ok (), { s with woken := n :: s.woken })


section fields
variable (cfg : Cfg) (fuel : Nat) (same : XWorld → Rs.Path → Rs.Path → Bool)
  (cp : Rs.Path → Rs.Path → Rs.M XWorld Transfer.TransferResult) (o : Rs.Opaque) (lself : Transferrer) (le : FileEntry)
  (i n : Nat) (a b : Rs.Path)
@[simp] theorem seqExt_fuel : (seqExt cfg fuel same cp).fuel = fuel := rfl
@[simp] theorem seqExt_Notify_new (u : Unit) :
    (seqExt cfg fuel same cp).Notify_new u = op fun s => (.ok s.fresh, { s with fresh := s.fresh + 1 }) := rfl
@[simp] theorem seqExt_map_get : (seqExt cfg fuel same cp).map_get i = op fun s => (.ok (s.get i), s) := rfl
@[simp] theorem seqExt_map_contains :
    (seqExt cfg fuel same cp).map_contains i = op fun s => (.ok (s.get i).isSome, s) := rfl
@[simp] theorem seqExt_map_insert (st : InodeState) :
    (seqExt cfg fuel same cp).map_insert i st = op fun s => (.ok (), s.insert i st) := rfl
@[simp] theorem seqExt_map_remove : (seqExt cfg fuel same cp).map_remove i = op fun s => (.ok (), s.remove i) := rfl
@[simp] theorem seqExt_same_inode :
    (seqExt cfg fuel same cp).same_inode lself a b = op fun s => (.ok (same s.xw a b), s) := rfl
@[simp] theorem seqExt_t_remove (isDir : Bool) :
    (seqExt cfg fuel same cp).t_remove o a isDir = liftX ((extOf cfg).t_remove ⟨⟩ a isDir) := rfl
@[simp] theorem seqExt_t_create_hardlink :
    (seqExt cfg fuel same cp).t_create_hardlink o a b = liftX (op fun xw => xw.at b fun k => hardlinkW xw a k) := rfl
@[simp] theorem seqExt_t_sync :
    (seqExt cfg fuel same cp).t_sync_file_with_delta o a b =
      liftX (((extOf cfg).t_sync_file_with_delta ⟨⟩ a b) >>= fun r => pure (resOfT r)) := rfl
@[simp] theorem seqExt_copy_file :
    (seqExt cfg fuel same cp).transferrer_copy_file lself a b = liftX (cp a b >>= fun r => pure (resOfT r)) := rfl
@[simp] theorem seqExt_write_xattrs :
    (seqExt cfg fuel same cp).write_xattrs lself le a = liftX ((extOf cfg).write_xattrs default (toT le) a) := rfl
@[simp] theorem seqExt_write_acls :
    (seqExt cfg fuel same cp).write_acls lself le a = liftX ((extOf cfg).write_acls default (toT le) a) := rfl
@[simp] theorem seqExt_write_bsd_flags :
    (seqExt cfg fuel same cp).write_bsd_flags lself le a = liftX ((extOf cfg).write_bsd_flags default (toT le) a) := rfl
@[simp] theorem seqExt_notified : (seqExt cfg fuel same cp).notified n = op fun s => (.ok (s.woken.count n), s) := rfl
@[simp] theorem seqExt_await_notified : (seqExt cfg fuel same cp).await_notified n = throw .other := rfl
@[simp] theorem seqExt_notify_waiters :
    (seqExt cfg fuel same cp).notify_waiters n = op fun s => (.ok (), { s with woken := n :: s.woken }) := rfl
end fields

/-- the hand-off as an operation of unit Transfer's `Ext XWorld`: the TRANSLATED `transfer_link_member` run on `seqExt`
    from the world with no claim, the claims / counters forgotten afterwards -/
def seqLinkMember (cfg : Cfg) (fuel : Nat) (same : XWorld → Rs.Path → Rs.Path → Bool)
    (cp : Transfer.Transferrer → Rs.Path → Rs.Path → Rs.M XWorld Transfer.TransferResult)
    (self : Transfer.Transferrer) (e : Transfer.FileEntry) (d : Rs.Path) (inode : Nat) (upd : Bool) :
    Rs.M XWorld (Option Transfer.TransferResult) :=
  op fun xw =>
    let r := runM (Transferrer.transfer_link_member (seqExt cfg fuel same (cp self)) ⟨self.transport, ⟨⟩⟩ (ofT e) d inode upd)
      (SWorld.start xw)
    (match r.1 with | .ok v => .ok (v.map resToT) | .error er => .error er, r.2.xw)

end Seq

section SeqOpen
open SyModel.Engine SyModel.Lemmas.GenTransfer
section SeqProofs
variable (cfg : Cfg) (fuel : Nat) (same : XWorld → Rs.Path → Rs.Path → Bool)
  (cp : Transfer.Transferrer → Rs.Path → Rs.Path → Rs.M XWorld Transfer.TransferResult)
  (self : Transfer.Transferrer) (e : Transfer.FileEntry) (inode : Nat) (xw : XWorld) (k : Engine.Path)

/-- what `seqLinkMember` answers, given the run of the rounds -/
theorem seqLinkMember_run (d : Rs.Path) (upd : Bool) :
    runM (seqLinkMember cfg fuel same cp self e d inode upd) xw =
      (match (runM (rounds (seqExt cfg fuel same (cp self)) ⟨self.transport, ⟨⟩⟩ (ofT e) d inode upd fuel) (SWorld.start xw)).1 with
        | .ok v => .ok (v.map resToT) | .error er => .error er,
       (runM (rounds (seqExt cfg fuel same (cp self)) ⟨self.transport, ⟨⟩⟩ (ofT e) d inode upd fuel) (SWorld.start xw)).2.xw) := by
  unfold seqLinkMember
  rw [runM_op, transfer_link_member_rounds]
  rfl

/-- LATER MEMBER of a creation: the model's `linkFile` towards the recorded first path — answer and world, success and
    failure -/
theorem seq_later_create (hk : CleanPath k) (a b : Nat) (first : Engine.Path)
    (hf : xw.w.linkMap.find? (·.1 == inode) = some (a, first, b)) (hfc : CleanPath first) :
    runM (seqLinkMember cfg (fuel + 1) same cp self e (destOf xw.root k) inode false) xw =
      xw.at (destOf xw.root k) (fun k => linkMemberW cfg xw e k inode false) := by
  rw [seqLinkMember_run, at_destOf xw _ rfl k hk]
  have hget : runM ((seqExt cfg (fuel + 1) same (cp self)).map_get inode) (SWorld.start xw) =
      (.ok (some (.Completed (destOf xw.root first))), SWorld.start xw) := by
    simp [SWorld.get, SWorld.start, hf]
  have hround := round_run (seqExt cfg (fuel + 1) same (cp self)) ⟨self.transport, ⟨⟩⟩ (ofT e) (destOf xw.root k) inode false hget
  simp only [dispatch, linkArm_create_run] at hround
  have hl : runM ((seqExt cfg (fuel + 1) same (cp self)).t_create_hardlink self.transport (destOf xw.root first) (destOf xw.root k)) (SWorld.start xw)
      = ((xw.outcome (hardlinkW xw (destOf xw.root first) k)).1, { SWorld.start xw with xw := (xw.outcome (hardlinkW xw (destOf xw.root first) k)).2 }) := by
    simp only [seqExt_t_create_hardlink, runM_liftX, runM_op, SWorld.start, at_destOf xw _ rfl k hk]
  rw [hl] at hround
  simp only [hardlinkW, keyOf_destOf xw.root first hfc, linkMemberW, hf, Bool.false_eq_true, ↓reduceIte] at hround ⊢
  cases hlf : linkFile xw.w k first with
  | none =>
    simp only [hlf, Option.map_none, outcome_none, andThen] at hround
    rw [rounds_error _ _ _ _ _ _ fuel hround]
    rfl
  | some w' =>
    simp only [hlf, Option.map_some, outcome_some, andThen] at hround
    rw [rounds_finish _ _ _ _ _ _ fuel hround]
    rfl

theorem setLinkMap_self (s : SWorld) : s.setLinkMap s.xw.w.linkMap = s := rfl

theorem writeFile_linkMap {c : Cfg} {w w' : World} {k : Engine.Path} {m : FileMeta} (h : writeFile c w k m = some w') :
    w'.linkMap = w.linkMap := by
  unfold writeFile at h
  split at h
  · cases h
  · split at h
    · cases h
    · cases h; rfl

theorem setXattrs_linkMap (w : World) (k : Engine.Path) (xs : List (String × Nat)) :
    (setXattrs w k xs).linkMap = w.linkMap := by
  unfold setXattrs; split <;> rfl

/-- the captured block on the sequential instance: the transfer on `xw`, then (with `-X`) the entry's attributes -/
theorem seq_copyBlock_run (cpS : Rs.Path → Rs.Path → Rs.M XWorld Transfer.TransferResult) (lself : Transferrer)
    (le : FileEntry) (d : Rs.Path) (upd : Bool) (s : SWorld) :
    runM (copyBlock (seqExt cfg fuel same cpS) lself le d upd) s =
      match runM (if upd = true then (extOf cfg).t_sync_file_with_delta ⟨⟩ le.path d else cpS le.path d) s.xw with
      | (.ok r, xw1) => (.ok (resOfT r), { s with xw := if cfg.xattrs then xw1.writeX (toT le) d else xw1 })
      | (.error er, xw1) => (.error er, { s with xw := xw1 }) := by
  rw [copyBlock_run]
  cases upd
  · simp only [Bool.false_eq_true, ↓reduceIte, seqExt_copy_file, seqExt_write_xattrs, seqExt_write_acls, seqExt_write_bsd_flags, runM_liftX, runM_bind]
    rcases runM (cpS le.path d) s.xw with ⟨r, xw1⟩
    cases r <;> simp [andThen, runM_pure, extOf_write_xattrs, extOf_write_acls, extOf_write_bsd_flags, runM_op]
  · simp only [↓reduceIte, seqExt_t_sync, seqExt_write_xattrs, seqExt_write_acls, seqExt_write_bsd_flags, runM_liftX, runM_bind]
    rcases runM ((extOf cfg).t_sync_file_with_delta ⟨⟩ le.path d) s.xw with ⟨r, xw1⟩
    cases r <;> simp [andThen, runM_pure, extOf_write_xattrs, extOf_write_acls, extOf_write_bsd_flags, runM_op]


/-- the first rounds of a member that finds no entry, up to the release: claim `0` is inserted, the block runs from
    the world with that claim -/
theorem seq_claim_round (cpS : Rs.Path → Rs.Path → Rs.M XWorld Transfer.TransferResult) (lself : Transferrer)
    (le : FileEntry) (d : Rs.Path) (upd : Bool) (hf : xw.w.linkMap.find? (·.1 == inode) = none) :
    runM (round (seqExt cfg fuel same cpS) lself le d inode upd) (SWorld.start xw) =
      runM (release (seqExt cfg fuel same cpS) d inode 0
          (runM (copyBlock (seqExt cfg fuel same cpS) lself le d upd) ⟨xw, [(inode, 0)], 1, []⟩).1)
        (runM (copyBlock (seqExt cfg fuel same cpS) lself le d upd) ⟨xw, [(inode, 0)], 1, []⟩).2 := by
  have hget : runM ((seqExt cfg fuel same cpS).map_get inode) (SWorld.start xw) = (.ok none, SWorld.start xw) := by
    simp [SWorld.get, SWorld.start, hf]
  rw [round_run _ _ _ _ _ _ hget]
  simp only [dispatch, claimArm_run]
  have h1 : runM ((seqExt cfg fuel same cpS).Notify_new ()) (SWorld.start xw) = (.ok 0, ⟨xw, [], 1, []⟩) := rfl
  have h2 : runM ((seqExt cfg fuel same cpS).map_contains inode) ⟨xw, [], 1, []⟩ = (.ok false, ⟨xw, [], 1, []⟩) := by
    simp [SWorld.get, hf]
  have h3 : runM ((seqExt cfg fuel same cpS).map_insert inode (.InProgress 0)) ⟨xw, [], 1, []⟩ =
      (.ok (), ⟨xw, [(inode, 0)], 1, []⟩) := by
    simp only [seqExt_map_insert, runM_op, SWorld.insert, SWorld.setLinkMap, dropKey_of_find_none inode _ hf]
    rfl
  rw [h1]; simp only [andThen]
  rw [h2]; simp only [andThen, Bool.false_eq_true, ↓reduceIte]
  rw [h3]

theorem seq_first_gen (hk : CleanPath k) (hf : xw.w.linkMap.find? (·.1 == inode) = none) (upd : Bool)
    (hcp : upd = false → runM (cp self e.path (destOf xw.root k)) xw = xw.outcome (copyW cfg xw e.path k)) :
    runM (seqLinkMember cfg (fuel + 1) same cp self e (destOf xw.root k) inode upd) xw =
      xw.at (destOf xw.root k) (fun k => linkMemberW cfg xw e k inode upd) := by
  rw [seqLinkMember_run, at_destOf xw _ rfl k hk]
  have hround := seq_claim_round cfg (fuel + 1) same inode xw (cp self) ⟨self.transport, ⟨⟩⟩ (ofT e)
    (destOf xw.root k) upd hf
  rw [seq_copyBlock_run] at hround
  have hcopy : runM (if upd = true then (extOf cfg).t_sync_file_with_delta ⟨⟩ (ofT e).path (destOf xw.root k)
      else cp self (ofT e).path (destOf xw.root k)) xw = xw.outcome (copyW cfg xw e.path k) := by
    cases upd
    · simp only [Bool.false_eq_true, ↓reduceIte]; exact hcp rfl
    · simp only [↓reduceIte, extOf_t_sync_file_with_delta, runM_op, at_destOf xw _ rfl k hk]; rfl
  simp only [hcopy] at hround
  simp only [linkMemberW, hf, copyW] at hround ⊢
  cases hs : xw.src e.path with
  | dangling =>
    simp only [hs, outcome_none, release_err_run, seqExt_map_remove, seqExt_notify_waiters, runM_op, andThen] at hround
    rw [rounds_error _ _ _ _ _ _ fuel hround]
    simp [SWorld.remove, SWorld.setLinkMap, dropKey_of_find_none inode _ hf]
  | dir =>
    simp only [hs, outcome_none, release_err_run, seqExt_map_remove, seqExt_notify_waiters, runM_op, andThen] at hround
    rw [rounds_error _ _ _ _ _ _ fuel hround]
    simp [SWorld.remove, SWorld.setLinkMap, dropKey_of_find_none inode _ hf]
  | file sm =>
    have hcg : writeFile (stripX cfg) xw.w k (metaOf xw e) = writeFile (stripX cfg) xw.w k sm :=
      writeFile_congr _ _ _ _ _ (by simp [metaOf, hs]) (by simp [metaOf, hs]) (by simp [metaOf, hs]) (by simp [stripX])
    rw [writeFile_split, hcg, metaOf_xattrs]
    cases hwf : writeFile (stripX cfg) xw.w k sm with
    | none =>
      simp only [hs, hwf, Option.map_none, outcome_none, release_err_run, seqExt_map_remove, seqExt_notify_waiters, runM_op, andThen] at hround
      rw [rounds_error _ _ _ _ _ _ fuel hround]
      simp [SWorld.remove, SWorld.setLinkMap, dropKey_of_find_none inode _ hf]
    | some w2 =>
      have hlm := writeFile_linkMap hwf
      simp only [hs, hwf, Option.map_some, outcome_some, release_ok_run, seqExt_map_insert, seqExt_notify_waiters, runM_op, andThen] at hround
      rw [rounds_finish _ _ _ _ _ _ fuel hround]
      cases hx : cfg.xattrs with
      | false =>
        simp only [Bool.false_eq_true, ↓reduceIte, SWorld.insert, keyOf_destOf xw.root k hk, SWorld.setLinkMap, hlm,
          dropKey_of_find_none inode _ hf, Option.map_some, outcome_some]
        rfl
      | true =>
        have hlm' := setXattrs_linkMap w2 k (absX xw.valId e.xattrs)
        simp only [↓reduceIte, SWorld.insert, writeX_destOf { xw with w := w2 } _ k hk, toT_ofT,
          keyOf_destOf xw.root k hk, SWorld.setLinkMap, hlm, hlm',
          dropKey_of_find_none inode _ hf, Option.map_some, outcome_some]
        rfl



/-- FIRST MEMBER, the transfer as one step (`extOf cfg`'s `t_copy_file` / `t_sync_file_with_delta`): `linkMemberW` -/
theorem seq_first (hk : CleanPath k) (hf : xw.w.linkMap.find? (·.1 == inode) = none) (upd : Bool) :
    runM (seqLinkMember cfg (fuel + 1) same (fun _ => atomicCopy cfg) self e (destOf xw.root k) inode upd) xw =
      xw.at (destOf xw.root k) (fun k => linkMemberW cfg xw e k inode upd) :=
  seq_first_gen cfg fuel same _ self e inode xw k hk hf upd (fun _ => by
    simp only [atomicCopy, extOf_t_copy_file, runM_op, at_destOf xw _ rfl k hk])

/-- FIRST MEMBER of an update with the translated `copy_file` as parameter: it is not called -/
theorem seq_first_update_translated (hk : CleanPath k) (hf : xw.w.linkMap.find? (·.1 == inode) = none) :
    runM (seqLinkMember cfg (fuel + 1) same (translatedCopy cfg) self e (destOf xw.root k) inode true) xw =
      xw.at (destOf xw.root k) (fun k => linkMemberW cfg xw e k inode true) :=
  seq_first_gen cfg fuel same _ self e inode xw k hk hf true (fun h => by cases h)

/-- FIRST MEMBER of a creation with the TRANSLATED `Transferrer::copy_file` inside, the model's step succeeds: the same
    answer and world -/
theorem seq_first_create_translated_ok (hk : CleanPath k) (hf : xw.w.linkMap.find? (·.1 == inode) = none)
    (r : Option Transfer.TransferResult) (w' : World) (hm : linkMemberW cfg xw e k inode false = some (r, w')) :
    runM (seqLinkMember cfg (fuel + 1) same (translatedCopy cfg) self e (destOf xw.root k) inode false) xw =
      (.ok r, { xw with w := w' }) := by
  have hm' := hm
  simp only [linkMemberW, hf] at hm'
  cases hs : xw.src e.path with
  | dangling => simp [hs] at hm'
  | dir => simp [hs] at hm'
  | file sm =>
    have hcg : writeFile (stripX cfg) xw.w k (metaOf xw e) = writeFile (stripX cfg) xw.w k sm :=
      writeFile_congr _ _ _ _ _ (by simp [metaOf, hs]) (by simp [metaOf, hs]) (by simp [metaOf, hs]) (by simp [stripX])
    rw [hs] at hm'
    simp only [] at hm'
    rw [writeFile_split, hcg] at hm'
    cases hwf : writeFile (stripX cfg) xw.w k sm with
    | none => simp [hwf] at hm'
    | some w2 =>
      rw [seq_first_gen cfg fuel same _ self e inode xw k hk hf false (fun _ => by
        simp only [translatedCopy, copy_file_ok cfg self xw e.path k hk sm hs w2 hwf, copyW, hs, hwf, Option.map_some,
          outcome_some]), at_destOf xw _ rfl k hk, hm]
      rfl

/-- … the model's step fails: `Err(io)`, the claim is released, and what is left is the world as it was or with the
    parent directories of the path created (`copy_file` runs `create_dir_all(parent)` before the transport's copy) -/
theorem seq_first_create_translated_err (hk : CleanPath k) (hf : xw.w.linkMap.find? (·.1 == inode) = none)
    (hm : linkMemberW cfg xw e k inode false = none) :
    ∃ xw', runM (seqLinkMember cfg (fuel + 1) same (translatedCopy cfg) self e (destOf xw.root k) inode false) xw =
        (.error .io, xw') ∧
      (xw' = xw ∨ ∃ d, mkdirAll xw.w.dst (parentOf k) = some d ∧ xw' = { xw with w := { xw.w with dst := d } }) := by
  have hw : ∀ sm, xw.src e.path = .file sm → writeFile (stripX cfg) xw.w k sm = none := by
    intro sm hs
    have hcg : writeFile (stripX cfg) xw.w k (metaOf xw e) = writeFile (stripX cfg) xw.w k sm :=
      writeFile_congr _ _ _ _ _ (by simp [metaOf, hs]) (by simp [metaOf, hs]) (by simp [metaOf, hs]) (by simp [stripX])
    simp only [linkMemberW, hf, hs] at hm
    rw [writeFile_split, hcg] at hm
    cases hwf : writeFile (stripX cfg) xw.w k sm with
    | none => rfl
    | some w2 => simp [hwf] at hm
  obtain ⟨xw', h1, h2⟩ := copy_file_err_strong cfg self xw e.path k hk hw
  refine ⟨xw', ?_, h2⟩
  rw [seqLinkMember_run]
  have hround := seq_claim_round cfg (fuel + 1) same inode xw (translatedCopy cfg self) ⟨self.transport, ⟨⟩⟩ (ofT e)
    (destOf xw.root k) false hf
  rw [seq_copyBlock_run] at hround
  have hcopy : runM (if false = true then (extOf cfg).t_sync_file_with_delta ⟨⟩ (ofT e).path (destOf xw.root k)
      else translatedCopy cfg self (ofT e).path (destOf xw.root k)) xw = (.error .io, xw') := by
    simp only [Bool.false_eq_true, ↓reduceIte, translatedCopy]; exact h1
  simp only [hcopy, release_err_run, seqExt_map_remove, seqExt_notify_waiters, runM_op, andThen] at hround
  rw [rounds_error _ _ _ _ _ _ fuel hround]
  have hl : xw'.w.linkMap = xw.w.linkMap := by
    rcases h2 with rfl | ⟨d, _, rfl⟩ <;> rfl
  simp only [SWorld.remove, SWorld.setLinkMap, hl, dropKey_of_find_none inode _ hf]
  rw [← hl]


/-! ### update of a later member: `remove` then `create_hardlink` against the model's `relinkFile` -/

theorem set_erase_comm (d : Map DNode) (q k : Engine.Path) (v : DNode) (h : q ≠ k) :
    (d.erase k).set q v = (d.set q v).erase k := by
  simp only [Map.set, Map.erase, List.filter_cons, h, ne_eq, not_false_eq_true, decide_true, ↓reduceIte,
    List.filter_filter, List.cons.injEq, true_and]
  congr 1; funext a; exact Bool.and_comm _ _

theorem mkStep_erase (acc : Option (Map DNode)) (q k : Engine.Path) (h : q ≠ k) :
    mkStep (acc.map (·.erase k)) q = (mkStep acc q).map (·.erase k) := by
  cases acc with
  | none => rfl
  | some d =>
    simp only [mkStep, Option.map_some]
    by_cases hq : q = []
    · simp [hq]
    · simp only [hq, ↓reduceIte, Map.get?_erase_ne d k q (Ne.symm h)]
      cases hg : d.get? q with
      | none => simp [set_erase_comm d q k .dir h]
      | some n => cases n <;> simp

theorem foldl_mkStep_erase (qs : List Engine.Path) (k : Engine.Path) (hq : ∀ q ∈ qs, q ≠ k) :
    ∀ acc : Option (Map DNode), qs.foldl mkStep (acc.map (·.erase k)) = (qs.foldl mkStep acc).map (·.erase k) := by
  induction qs with
  | nil => intro acc; rfl
  | cons q qs ih =>
    intro acc
    simp only [List.foldl_cons]
    rw [mkStep_erase acc q k (hq q (by simp)), ih (fun x hx => hq x (List.mem_cons_of_mem _ hx))]

theorem parentOf_length_lt (k : Engine.Path) (hk : k ≠ []) : (parentOf k).length < k.length := by
  unfold parentOf; rw [List.length_dropLast]
  have : 0 < k.length := List.length_pos_iff.mpr hk
  omega

/-- `create_dir_all(parent of k)` does not care whether the entry `k` itself is there -/
theorem mkdirAll_parent_erase (dst : Map DNode) (k : Engine.Path) (hk : k ≠ []) :
    mkdirAll (dst.erase k) (parentOf k) = (mkdirAll dst (parentOf k)).map (·.erase k) := by
  rw [mkdirAll_eq, mkdirAll_eq]
  exact foldl_mkStep_erase _ k (fun q hq he => by
    subst he
    have hl := parentOf_length_lt q hk
    rcases mem_chain_self.1 hq with ⟨_, hp⟩ | he
    · have := isPrefix_length hp; omega
    · have := congrArg List.length he; omega) (some dst)


/-- the round of a later member of an UPDATE, up to the answer of `same_inode` -/
theorem seq_later_update_round (hk : CleanPath k) (a b : Nat) (first : Engine.Path)
    (hf : xw.w.linkMap.find? (·.1 == inode) = some (a, first, b)) (lself : Transferrer) (le : FileEntry) :
    runM (round (seqExt cfg fuel same (cp self)) lself le (destOf xw.root k) inode true) (SWorld.start xw) =
      if same xw (destOf xw.root first) (destOf xw.root k) = true then (.ok (finish (some zeroResult)), SWorld.start xw)
      else
        match removeW xw.w k false with
        | none => (.error .io, SWorld.start xw)
        | some w1 =>
          match hardlinkW { xw with w := w1 } (destOf xw.root first) k with
          | none => (.error .io, SWorld.start { xw with w := w1 })
          | some (_, w2) => (.ok (finish (some zeroResult)), SWorld.start { xw with w := w2 }) := by
  have hget : runM ((seqExt cfg fuel same (cp self)).map_get inode) (SWorld.start xw) =
      (.ok (some (.Completed (destOf xw.root first))), SWorld.start xw) := by
    simp [SWorld.get, SWorld.start, hf]
  rw [round_run _ _ _ _ _ _ hget]
  simp only [dispatch, linkArm_update_run, seqExt_same_inode, runM_op, andThen, SWorld.start]
  split
  · rfl
  · simp only [seqExt_t_remove, seqExt_t_create_hardlink, runM_liftX, extOf_t_remove, runM_op,
      at_destOf xw _ rfl k hk]
    cases hr : removeW xw.w k false with
    | none => rfl
    | some w1 =>
      simp only [Option.map_some, outcome_some]
      rw [at_destOf { xw with w := w1 } xw.root rfl k hk]
      cases hardlinkW { xw with w := w1 } (destOf xw.root first) k with
      | none => rfl
      | some x => rfl

/-- LATER MEMBER of an update, `dest` already names the group's inode: `Ok`, nothing is touched -/
theorem seq_later_update_same (hk : CleanPath k) (a b : Nat) (first : Engine.Path)
    (hf : xw.w.linkMap.find? (·.1 == inode) = some (a, first, b))
    (hs : same xw (destOf xw.root first) (destOf xw.root k) = true) :
    runM (seqLinkMember cfg (fuel + 1) same cp self e (destOf xw.root k) inode true) xw = (.ok (some linkResult), xw) := by
  rw [seqLinkMember_run]
  have hround := seq_later_update_round cfg (fuel + 1) same cp self inode xw k hk a b first hf ⟨self.transport, ⟨⟩⟩ (ofT e)
  rw [if_pos hs] at hround
  rw [rounds_finish _ _ _ _ _ _ fuel hround]
  rfl

/-- LATER MEMBER of an update, `dest` names another inode and holds a file or a link: `remove`, then `create_hardlink`.
    When the model's `relinkFile` succeeds the answer and the world are the model's; when it fails (an ancestor is not
    a directory, or the first path holds no file) the call fails AFTER the removal: the old name is gone. -/
theorem seq_later_update_other (hk : CleanPath k) (a b : Nat) (first : Engine.Path)
    (hf : xw.w.linkMap.find? (·.1 == inode) = some (a, first, b)) (hfc : CleanPath first)
    (hs : same xw (destOf xw.root first) (destOf xw.root k) = false) (hne : first ≠ k)
    (n : DNode) (hn : xw.w.dst.get? k = some n) (hnd : n ≠ .dir) :
    runM (seqLinkMember cfg (fuel + 1) same cp self e (destOf xw.root k) inode true) xw =
      match relinkFile xw.w k first with
      | some w' => (.ok (some linkResult), { xw with w := w' })
      | none => (.error .io, { xw with w := { xw.w with dst := xw.w.dst.erase k } }) := by
  rw [seqLinkMember_run]
  have hround := seq_later_update_round cfg (fuel + 1) same cp self inode xw k hk a b first hf ⟨self.transport, ⟨⟩⟩ (ofT e)
  rw [if_neg (by simp [hs])] at hround
  have hrm : removeW xw.w k false = some { xw.w with dst := xw.w.dst.erase k } := by
    unfold removeW; rw [hn]
    cases n with
    | dir => exact absurd rfl hnd
    | file m => rfl
    | symlink t => rfl
  simp only [hrm, hardlinkW, keyOf_destOf xw.root first hfc] at hround
  -- `linkFile` after the removal against `relinkFile` before it
  have hlink : linkFile { xw.w with dst := xw.w.dst.erase k } k first = relinkFile xw.w k first := by
    unfold linkFile relinkFile
    simp only [mkdirAll_parent_erase xw.w.dst k hk.1]
    cases hm : mkdirAll xw.w.dst (parentOf k) with
    | none => rfl
    | some d =>
      have hdk : d.get? k = some n := by
        rcases mkdirAll_frame hm k with h | ⟨_, hp, _, _⟩
        · rw [h, hn]
        · exfalso
          have := isPrefix_length hp
          have := parentOf_length_lt k hk.1
          omega
      simp only [Option.map_some, Map.get?_erase_same, Map.get?_erase_ne d k first (Ne.symm hne), hdk]
      have hset : ∀ v, (d.erase k).set k v = d.set k v := fun v => by
        simp only [Map.set, erase_erase]
      cases hfst : d.get? first with
      | none => cases n <;> first | rfl | exact absurd rfl hnd
      | some nf =>
        cases nf with
        | file fm =>
          cases n with
          | dir => exact absurd rfl hnd
          | file m => simp only [hset]
          | symlink t => simp only [hset]
        | dir => cases n <;> first | rfl | exact absurd rfl hnd
        | symlink t => cases n <;> first | rfl | exact absurd rfl hnd
  rw [hlink] at hround
  cases hrl : relinkFile xw.w k first with
  | none =>
    simp only [hrl, Option.map_none] at hround
    rw [rounds_error _ _ _ _ _ _ fuel hround]
    rfl
  | some w' =>
    simp only [hrl, Option.map_some] at hround
    rw [rounds_finish _ _ _ _ _ _ fuel hround]
    rfl

/-- LATER MEMBER of an update, `dest` holds a directory or nothing: `remove(dest, false)` fails, nothing is touched -/
theorem seq_later_update_unremovable (hk : CleanPath k) (a b : Nat) (first : Engine.Path)
    (hf : xw.w.linkMap.find? (·.1 == inode) = some (a, first, b))
    (hs : same xw (destOf xw.root first) (destOf xw.root k) = false)
    (hn : xw.w.dst.get? k = some .dir ∨ xw.w.dst.get? k = none) :
    runM (seqLinkMember cfg (fuel + 1) same cp self e (destOf xw.root k) inode true) xw = (.error .io, xw) := by
  rw [seqLinkMember_run]
  have hround := seq_later_update_round cfg (fuel + 1) same cp self inode xw k hk a b first hf ⟨self.transport, ⟨⟩⟩ (ofT e)
  rw [if_neg (by simp [hs])] at hround
  have hrm : removeW xw.w k false = none := by
    unfold removeW
    rcases hn with h | h <;> rw [h] <;> rfl
  simp only [hrm] at hround
  rw [rounds_error _ _ _ _ _ _ fuel hround]
  rfl

end SeqProofs
section Discharge

/-- `extOf cfg` with its ASSUMED `transfer_link_member` replaced by the translated one run on `seqExt` -/
def extOfT (cfg : Cfg) (fuel : Nat) (same : XWorld → Rs.Path → Rs.Path → Bool)
    (cp : Transfer.Transferrer → Rs.Path → Rs.Path → Rs.M XWorld Transfer.TransferResult) : Transfer.Ext XWorld :=
  { extOf cfg with transfer_link_member := seqLinkMember cfg fuel same cp }

/-- the hard-link hand-off is taken (transfer.rs:88-93 / `update`) -/
def HandedOff (self : Transfer.Transferrer) (e : Transfer.FileEntry) : Prop :=
  self.dry_run = false ∧ e.is_symlink = false ∧ e.is_dir = false ∧ self.preserve_hardlinks = true ∧ 1 < e.nlink ∧
    e.inode.isSome = true

theorem create_tlm_irrelevant {W : Type} (ext : Transfer.Ext W)
    (f : Transfer.Transferrer → Transfer.FileEntry → Rs.Path → Nat → Bool → Rs.M W (Option Transfer.TransferResult))
    (self : Transfer.Transferrer) (e : Transfer.FileEntry) (d : Rs.Path) (h : ¬ HandedOff self e) :
    Transfer.Transferrer.create { ext with transfer_link_member := f } self e d = Transfer.Transferrer.create ext self e d := by
  unfold Transfer.Transferrer.create
  cases hd : self.dry_run
  · cases hs : e.is_symlink
    · cases hdir : e.is_dir
      · simp only [Bool.false_eq_true, ↓reduceIte]
        by_cases hc : (self.preserve_hardlinks && decide (e.nlink > 1)) = true
        · cases hi : e.inode with
          | none => simp only [hc, ↓reduceIte]; rfl
          | some i =>
            exfalso; apply h
            simp only [Bool.and_eq_true, decide_eq_true_eq] at hc
            exact ⟨hd, hs, hdir, hc.1, hc.2, by simp [hi]⟩
        · simp only [hc, Bool.false_eq_true, ↓reduceIte]; rfl
      · rfl
    · rfl
  · rfl

theorem update_tlm_irrelevant {W : Type} (ext : Transfer.Ext W)
    (f : Transfer.Transferrer → Transfer.FileEntry → Rs.Path → Nat → Bool → Rs.M W (Option Transfer.TransferResult))
    (self : Transfer.Transferrer) (e : Transfer.FileEntry) (d : Rs.Path) (h : ¬ HandedOff self e) :
    Transfer.Transferrer.update { ext with transfer_link_member := f } self e d = Transfer.Transferrer.update ext self e d := by
  unfold Transfer.Transferrer.update
  cases hd : self.dry_run
  · cases hs : e.is_symlink
    · simp only [Bool.false_eq_true, ↓reduceIte]
      by_cases hc : (((!e.is_dir) && self.preserve_hardlinks) && decide (e.nlink > 1)) = true
      · cases hi : e.inode with
        | none => simp only [hc, ↓reduceIte]; rfl
        | some i =>
          exfalso; apply h
          simp only [Bool.and_eq_true, decide_eq_true_eq, Bool.not_eq_true'] at hc
          exact ⟨hd, hs, hc.1.1, hc.1.2, hc.2, by simp [hi]⟩
      · simp only [hc, Bool.false_eq_true, ↓reduceIte]; rfl
    · rfl
  · rfl


/-- every recorded first path is a key a directory walk can produce (they are the `k` of earlier tasks) -/
def LinkMapClean (xw : XWorld) : Prop := ∀ x ∈ xw.w.linkMap, CleanPath x.2.1

variable (cfg : Cfg) (fuel : Nat) (same : XWorld → Rs.Path → Rs.Path → Bool) (self : Transfer.Transferrer)
  (e : Transfer.FileEntry) (inode : Nat) (xw : XWorld) (k : Engine.Path)

/-- THE ASSUMPTION OF GenTransfer DISCHARGED (creation): on every world, for every member, the assumed operation
    `transfer_link_member` of `extOf cfg` IS the translated hand-off run on `seqExt` (transfer as one step), for every
    fuel ≥ 1 -/
theorem handoff_create_eq (hk : CleanPath k) (hlc : LinkMapClean xw) :
    runM ((extOfT cfg (fuel + 1) same (fun _ => atomicCopy cfg)).transfer_link_member self e (destOf xw.root k) inode false) xw =
      runM ((extOf cfg).transfer_link_member self e (destOf xw.root k) inode false) xw := by
  rw [extOf_transfer_link_member, runM_op]
  show runM (seqLinkMember cfg (fuel + 1) same (fun _ => atomicCopy cfg) self e (destOf xw.root k) inode false) xw = _
  cases hf : xw.w.linkMap.find? (·.1 == inode) with
  | none => exact seq_first cfg fuel same self e inode xw k hk hf false
  | some x =>
    obtain ⟨a, first, b⟩ := x
    exact seq_later_create cfg fuel same _ self e inode xw k hk a b first hf (hlc _ (List.mem_of_find?_eq_some hf))

/-- … update, first member of its group -/
theorem handoff_update_first_eq (hk : CleanPath k) (hf : xw.w.linkMap.find? (·.1 == inode) = none)
    (cp : Transfer.Transferrer → Rs.Path → Rs.Path → Rs.M XWorld Transfer.TransferResult) :
    runM ((extOfT cfg (fuel + 1) same cp).transfer_link_member self e (destOf xw.root k) inode true) xw =
      runM ((extOf cfg).transfer_link_member self e (destOf xw.root k) inode true) xw := by
  rw [extOf_transfer_link_member, runM_op]
  exact seq_first_gen cfg fuel same cp self e inode xw k hk hf true (fun h => by cases h)

/-- what the update of a LATER member needs for the translated hand-off to be the model's `relinkFile`: `same_inode`
    answers "no", the first path is another path, and the destination holds a directory (both fail) or a file / link
    that the model can replace -/
def RelinkOK (same : XWorld → Rs.Path → Rs.Path → Bool) (xw : XWorld) (k first : Engine.Path) : Prop :=
  same xw (destOf xw.root first) (destOf xw.root k) = false ∧ first ≠ k ∧
    (xw.w.dst.get? k = some .dir ∨
      ∃ n, xw.w.dst.get? k = some n ∧ n ≠ .dir ∧ (relinkFile xw.w k first).isSome = true)

theorem relinkFile_dir {w : World} {k first : Engine.Path} (h : w.dst.get? k = some .dir) (hk : k ≠ []) :
    relinkFile w k first = none := by
  unfold relinkFile
  cases hm : mkdirAll w.dst (parentOf k) with
  | none => rfl
  | some d =>
    have hdk : d.get? k = some .dir := by
      rcases mkdirAll_frame hm k with h' | ⟨_, hp, _, _⟩
      · rw [h', h]
      · exfalso
        have := isPrefix_length hp
        have := parentOf_length_lt k hk
        omega
    simp only [hdk]

/-- … update, later member -/
theorem handoff_update_later_eq (hk : CleanPath k) (hlc : LinkMapClean xw) (a b : Nat) (first : Engine.Path)
    (cp : Transfer.Transferrer → Rs.Path → Rs.Path → Rs.M XWorld Transfer.TransferResult)
    (hf : xw.w.linkMap.find? (·.1 == inode) = some (a, first, b)) (hok : RelinkOK same xw k first) :
    runM ((extOfT cfg (fuel + 1) same cp).transfer_link_member self e (destOf xw.root k) inode true) xw =
      runM ((extOf cfg).transfer_link_member self e (destOf xw.root k) inode true) xw := by
  rw [extOf_transfer_link_member, runM_op, at_destOf xw _ rfl k hk]
  show runM (seqLinkMember cfg (fuel + 1) same cp self e (destOf xw.root k) inode true) xw = _
  obtain ⟨hs, hne, hnode⟩ := hok
  simp only [linkMemberW, hf, ↓reduceIte]
  rcases hnode with hd | ⟨n, hn, hnd, hsome⟩
  · rw [seq_later_update_unremovable cfg fuel same cp self e inode xw k hk a b first hf hs (Or.inl hd),
      relinkFile_dir hd hk.1]
    rfl
  · rw [seq_later_update_other cfg fuel same cp self e inode xw k hk a b first hf
      (hlc _ (List.mem_of_find?_eq_some hf)) hs hne n hn hnd]
    obtain ⟨w', hw'⟩ := Option.isSome_iff_exists.1 hsome
    simp only [hw', Option.map_some, outcome_some]

end Discharge

end SeqOpen

end SyModel.Lemmas.GenLinkMember
