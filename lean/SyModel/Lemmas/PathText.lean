/-
  PathText — lemmas about the path-text vocabulary of the translator (`Rs.splitLastAt`), free of engine imports so that bridges of
  byte-level units can use them beside the step-level modules (copies of the lemmas of `Lemmas/GenTransfer.lean`, own namespace).
-/
import SyModel.Generated.Prelude
namespace SyModel.Lemmas.PathText
open SyModel.Generated

theorem dropWhile_all {α : Type} (p : α → Bool) (xs : List α) (h : ∀ x ∈ xs, p x = true) : xs.dropWhile p = [] := by
  induction xs with
  | nil => rfl
  | cons x t ih =>
    rw [List.dropWhile_cons, h x (by simp)]
    exact ih (fun y hy => h y (List.mem_cons_of_mem _ hy))

theorem dropWhile_stop {α : Type} (p : α → Bool) (xs : List α) (y : α) (ys : List α)
    (h : ∀ x ∈ xs, p x = true) (hy : p y = false) : (xs ++ y :: ys).dropWhile p = y :: ys := by
  induction xs with
  | nil => simp [List.dropWhile_cons, hy]
  | cons x t ih =>
    rw [List.cons_append, List.dropWhile_cons, h x (by simp)]
    exact ih (fun z hz => h z (List.mem_cons_of_mem _ hz))

theorem takeWhile_stop {α : Type} (p : α → Bool) (xs : List α) (y : α) (ys : List α)
    (h : ∀ x ∈ xs, p x = true) (hy : p y = false) : (xs ++ y :: ys).takeWhile p = xs := by
  induction xs with
  | nil => simp [List.takeWhile_cons, hy]
  | cons x t ih =>
    rw [List.cons_append, List.takeWhile_cons, h x (by simp)]
    simp only [↓reduceIte, List.cons.injEq, true_and]
    exact ih (fun z hz => h z (List.mem_cons_of_mem _ hz))

theorem splitLastAt_none (c : Rs.Str) (h : '/' ∉ c) : Rs.splitLastAt '/' c = none := by
  unfold Rs.splitLastAt
  have : c.reverse.dropWhile (fun x => decide (x ≠ '/')) = [] :=
    dropWhile_all _ _ (fun x hx => by
      have : x ≠ '/' := fun e => h (by rw [← e]; exact List.mem_reverse.1 hx)
      simpa using this)
  simp only [this]

theorem splitLastAt_last (a c : Rs.Str) (h : '/' ∉ c) : Rs.splitLastAt '/' (a ++ '/' :: c) = some (a, c) := by
  unfold Rs.splitLastAt
  have hall : ∀ x ∈ c.reverse, decide (x ≠ '/') = true := fun x hx => by
    have : x ≠ '/' := fun e => h (by rw [← e]; exact List.mem_reverse.1 hx)
    simpa using this
  have hr : (a ++ '/' :: c).reverse = c.reverse ++ '/' :: a.reverse := by simp
  have hstop : decide ('/' ≠ '/') = false := by simp
  simp only [hr, dropWhile_stop (fun x => decide (x ≠ '/')) _ '/' _ hall hstop,
    takeWhile_stop (fun x => decide (x ≠ '/')) _ '/' _ hall hstop, List.reverse_reverse]

end SyModel.Lemmas.PathText
