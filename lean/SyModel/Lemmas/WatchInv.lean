/-
  The inductive invariant of the watch loop in the repaired order (watcher armed before the
  initial sync): whenever the source differs from the snapshot of the most recently started
  sync, there is outstanding work (a kept event in the channel, or a non-empty `pending` list
  that no running sync is about to clear).
-/
import SyModel.Lemmas.Watch
namespace SyModel.Watch

/-- Every change of the source is covered: the initial sync is still ahead, or the most
    recently started sync worked from the current source and has not failed, or a relevant event is
    still queued,
    or `pending` is non-empty at the top of the loop (so it will not be cleared before a new
    sync has *started*). -/
def Covered (s : State) : Prop :=
  s.phase = .boot ∨ (s.snap = s.src ∧ s.ok = true) ∨ (∃ k ∈ s.queue, k.kept = true) ∨
    (s.pending ≠ [] ∧ s.phase = .loop)

/-- the last completed sync either made the destination equal to its snapshot, or the
    comparison rule saw nothing to do -/
def Settled (c : Cfg) (s : State) : Prop :=
  s.dst = s.snap ∨ needsUpdate c s.snap s.dst = false

structure Inv (c : Cfg) (s : State) : Prop where
  covered : Covered s
  armed : s.phase ≠ .boot → s.armed = true
  settled : (s.phase = .postInit ∨ s.phase = .loop) → s.ok = true → Settled c s
  time : s.lastSync ≤ s.now
  early : (s.phase = .boot ∨ s.phase = .initSync ∨ s.phase = .postInit) → s.pending = []

/-- `Inv`, or the process has exited -/
def InvD (c : Cfg) (s : State) : Prop := s.phase = .done ∨ Inv c s

theorem inv_init (c : Cfg) (v0 d0 : Ver) : Inv c (init v0 d0) := by
  refine ⟨Or.inl rfl, ?_, ?_, ?_, ?_⟩ <;> simp [init]

theorem inv_deliver (c : Cfg) (s : State) (k : Kind) (e : Option Ver)
    (hf : (Input.event k e).faithful = true) (h : Inv c s) : Inv c (deliver s k e) := by
  obtain ⟨hc, ha, hs, ht, he⟩ := h
  by_cases hb : s.phase = .boot
  · -- the initial sync is still ahead
    cases e <;> simp only [deliver] <;> split <;>
      exact ⟨Or.inl hb, fun h => absurd hb h, fun h => by simp [hb] at h, ht, fun _ => he (Or.inl hb)⟩
  · have harm := ha hb
    cases e with
    | none =>
      have hd : deliver s k none = { s with queue := s.queue ++ [k] } := by simp [deliver, harm]
      rw [hd]
      refine ⟨?_, ha, hs, ht, he⟩
      rcases hc with h | h | ⟨k', hk, hk'⟩ | h
      · exact absurd h hb
      · exact Or.inr (Or.inl h)
      · exact Or.inr (Or.inr (Or.inl ⟨k', by simp [hk], hk'⟩))
      · exact Or.inr (Or.inr (Or.inr h))
    | some v =>
      simp only [Input.faithful] at hf
      have hd : deliver s k (some v) = { s with src := v, queue := s.queue ++ [k] } := by
        simp [deliver, harm]
      rw [hd]
      exact ⟨Or.inr (Or.inr (Or.inl ⟨k, by simp, hf⟩)), ha, hs, ht, he⟩

theorem inv_step (c : Cfg) (hfix : c.armFirst = true) (s : State) (h : Inv c s) :
    InvD c (step c s).1 := by
  obtain ⟨hc, ha, hs, ht, he⟩ := h
  unfold step
  split
  · -- boot
    rename_i hp
    have hpe := he (Or.inl hp)
    split
    · right
      exact ⟨Or.inl hp, fun _ => rfl, fun h => by simp [hp] at h, ht, fun _ => hpe⟩
    · rename_i hcond
      have harm : s.armed = true := by
        simp [hfix] at hcond; exact hcond
      right
      exact ⟨Or.inr (Or.inl ⟨rfl, rfl⟩), fun _ => harm, fun h => by simp at h, ht, fun _ => hpe⟩
  · -- initSync
    rename_i hp
    have hpe := he (Or.inr (Or.inl hp))
    have harm := ha (by simp [hp])
    right
    refine ⟨?_, fun _ => harm, fun _ _ => ?_, ht, fun _ => hpe⟩
    · rcases hc with h | h | h | h
      · simp [hp] at h
      · exact Or.inr (Or.inl h)
      · exact Or.inr (Or.inr (Or.inl h))
      · simp [hp] at h
    · rcases syncTo_settled c s.snap s.dst with h | h
      · exact Or.inl h
      · exact Or.inr h
  · -- postInit
    rename_i hp
    have hpe := he (Or.inr (Or.inr hp))
    have harm := ha (by simp [hp])
    rw [if_neg (by simp [harm])]
    right
    refine ⟨?_, fun _ => harm, fun _ => hs (Or.inl hp), Nat.le_refl _, fun h => by simp at h⟩
    rcases hc with h | h | h | h
    · simp [hp] at h
    · exact Or.inr (Or.inl h)
    · exact Or.inr (Or.inr (Or.inl h))
    · simp [hp] at h
  · -- loop
    rename_i hp
    have harm := ha (by simp [hp])
    have hset := hs (Or.inr hp)
    split
    · left; rfl
    · split
      · -- receive
        rename_i k q hq
        split
        · rename_i hk
          right
          refine ⟨Or.inr (Or.inr (Or.inr ⟨by simp, hp⟩)), fun _ => harm, fun _ => hset,
            by simp only; omega, fun h => by simp [hp] at h⟩
        · rename_i hk
          right
          refine ⟨?_, fun _ => harm, fun _ => hset, by simp only; omega, fun h => by simp [hp] at h⟩
          rcases hc with h | h | ⟨k', hk1, hk2⟩ | h
          · simp [hp] at h
          · exact Or.inr (Or.inl h)
          · rw [hq] at hk1
            rcases List.mem_cons.mp hk1 with e | e
            · subst e; exact absurd hk2 hk
            · exact Or.inr (Or.inr (Or.inl ⟨k', e, hk2⟩))
          · exact Or.inr (Or.inr (Or.inr h))
      · -- timeout
        rename_i hq
        dsimp only
        split
        · right
          exact ⟨Or.inr (Or.inl ⟨rfl, rfl⟩), fun _ => harm, fun h => by simp at h, by simp only; omega,
            fun h => by simp at h⟩
        · right
          refine ⟨?_, fun _ => harm, fun _ => hset, by simp only; omega, fun h => by simp [hp] at h⟩
          rcases hc with h | h | h | h
          · simp [hp] at h
          · exact Or.inr (Or.inl h)
          · exact Or.inr (Or.inr (Or.inl h))
          · exact Or.inr (Or.inr (Or.inr h))
  · -- sync
    rename_i hp
    have harm := ha (by simp [hp])
    right
    refine ⟨?_, fun _ => harm, fun _ _ => ?_, Nat.le_refl _, fun h => by simp at h⟩
    · rcases hc with h | h | h | h
      · simp [hp] at h
      · exact Or.inr (Or.inl h)
      · exact Or.inr (Or.inr (Or.inl h))
      · have h2 := h.2; simp [hp] at h2
    · rcases syncTo_settled c s.snap s.dst with h | h
      · exact Or.inl h
      · exact Or.inr h
  · left; assumption

theorem inv_signal (c : Cfg) (s : State) (h : Inv c s) : InvD c (signal s) := by
  unfold signal
  split
  · left; assumption
  · split
    · right
      obtain ⟨hc, ha, hs, ht, he⟩ := h
      exact ⟨hc, ha, hs, ht, he⟩
    · left; rfl

theorem inv_advance (c : Cfg) (s : State) (δ : Nat) (h : Inv c s) : Inv c (advance s δ) := by
  obtain ⟨hc, ha, hs, ht, he⟩ := h
  exact ⟨hc, ha, hs, by simp only [advance]; omega, he⟩

/-- a sync that fails because the source changed under it: the change's event is still queued -/
theorem inv_fail (c : Cfg) (hfix : c.armFirst = true) (s : State) (hadm : admissible1 s .fail = true)
    (h : Inv c s) : InvD c (failMove c s).1 := by
  by_cases hs : s.phase = .sync
  · rw [failMove_sync c s hs]
    obtain ⟨hc, ha, _, _, _⟩ := h
    have hne : s.snap ≠ s.src := by simpa [admissible1, hs] using hadm
    right
    refine ⟨?_, fun _ => ha (by simp [hs]), fun _ h => by simp at h, Nat.le_refl _, fun h => by simp at h⟩
    rcases hc with h | h | h | h
    · simp [hs] at h
    · exact absurd h.1 hne
    · exact Or.inr (Or.inr (Or.inl h))
    · have h2 := h.2; simp [hs] at h2
  · by_cases hi : s.phase = .initSync
    · rw [failMove_init c s hi]; left; rfl
    · rw [failMove_other c s hs hi]; exact inv_step c hfix s h

theorem invD_apply (c : Cfg) (hfix : c.armFirst = true) (s : State) (i : Input)
    (hf : admissible1 s i = true) (h : InvD c s) : InvD c (apply c s i) := by
  rcases h with h | h
  · left; exact apply_done c s i h
  · cases i with
    | event k e => right; exact inv_deliver c s k e hf h
    | step => exact inv_step c hfix s h
    | tick δ => right; exact inv_advance c s δ h
    | sigint => exact inv_signal c s h
    | fail => exact inv_fail c hfix s hf h

theorem invD_run (c : Cfg) (hfix : c.armFirst = true) (is : List Input) :
    ∀ s, admissible c s is = true → InvD c s → InvD c (run c s is) := by
  induction is with
  | nil => intro s _ h; simpa using h
  | cons i t ih =>
    intro s hf h
    simp only [admissible, Bool.and_eq_true] at hf
    exact ih _ hf.2 (invD_apply c hfix s i hf.1 h)

/-- schedules without failing syncs are admissible as soon as they are faithful -/
theorem admissible_of_faithful (c : Cfg) (is : List Input) :
    ∀ s, (∀ i ∈ is, i.faithful = true) → (∀ i ∈ is, i ≠ .fail) → admissible c s is = true := by
  induction is with
  | nil => intro s _ _; rfl
  | cons i t ih =>
    intro s hf hn
    simp only [admissible, Bool.and_eq_true]
    refine ⟨?_, ih _ (fun j hj => hf j (by simp [hj])) (fun j hj => hn j (by simp [hj]))⟩
    have h1 := hf i (by simp)
    have h2 := hn i (by simp)
    cases i <;> first | exact h1 | exact absurd rfl h2

theorem quiet_faithful {i : Input} (h : i.quiet = true) : i.faithful = true := by
  cases i <;> simp [Input.quiet] at h <;> rfl

end SyModel.Watch
