/-
  Helper lemmas for the verify-only model.
-/
import SyModel.Engine.Verify
namespace SyModel.Engine

def noBounds : VCfg := ⟨none, none⟩

/-- scans list every path once -/
def UniqueRels (l : List VEntry) : Prop := (l.map (·.rel)).Nodup

theorem nodup_map_inj {α β} [DecidableEq β] (f : α → β) (l : List α) (h : (l.map f).Nodup)
    {a b : α} (ha : a ∈ l) (hb : b ∈ l) (hf : f a = f b) : a = b := by
  induction l with
  | nil => cases ha
  | cons x t ih =>
    simp only [List.map_cons, List.nodup_cons] at h
    rcases List.mem_cons.mp ha with rfl | ha' <;> rcases List.mem_cons.mp hb with rfl | hb'
    · rfl
    · exact absurd (List.mem_map.mpr ⟨b, hb', hf.symm⟩) h.1
    · exact absurd (List.mem_map.mpr ⟨a, ha', hf⟩) h.1
    · exact ih h.2 ha' hb'

theorem mem_verdict (c : VCfg) (src dst : List VEntry) (v : Verdict) (p : Path) :
    p ∈ (((src.map fun s => (s.rel, classify c dst s)).filter (·.2 == v)).map (·.1)) ↔
      ∃ s ∈ src, s.rel = p ∧ classify c dst s = v := by
  simp only [List.mem_map, List.mem_filter, beq_iff_eq]
  constructor
  · rintro ⟨⟨q, w⟩, ⟨⟨s, hs, heq⟩, hv⟩, hp⟩
    simp only [Prod.mk.injEq] at heq
    obtain ⟨h1, h2⟩ := heq
    simp only at hv hp
    exact ⟨s, hs, h1.trans hp, h2.trans hv⟩
  · rintro ⟨s, hs, hp, hv⟩
    exact ⟨(s.rel, classify c dst s), ⟨⟨s, hs, rfl⟩, hv⟩, hp⟩

theorem destFile_some_iff (dst : List VEntry) (hu : UniqueRels dst) (p : Path) (d : VEntry) :
    destFile dst p = some d ↔ d ∈ dst ∧ d.isDir = false ∧ d.rel = p := by
  unfold destFile
  constructor
  · intro h
    have hm := List.mem_of_getLast? h
    simp only [List.mem_filter, Bool.and_eq_true, Bool.not_eq_true', beq_iff_eq] at hm
    exact ⟨hm.1, hm.2.1, hm.2.2⟩
  · rintro ⟨hm, hd, hr⟩
    have hfil : (dst.filter fun x => !x.isDir && x.rel == p) = [d] := by
      unfold UniqueRels at hu
      induction dst with
      | nil => cases hm
      | cons a t ih =>
        simp only [List.map_cons, List.nodup_cons] at hu
        simp only [List.filter_cons]
        rcases List.mem_cons.mp hm with rfl | hmt
        · have hcond : (!d.isDir && d.rel == p) = true := by simp [hd, hr]
          rw [if_pos hcond]
          congr 1
          apply List.filter_eq_nil_iff.mpr
          intro x hx hc
          simp only [Bool.and_eq_true, Bool.not_eq_true', beq_iff_eq] at hc
          exact hu.1 (List.mem_map.mpr ⟨x, hx, hc.2.trans hr.symm⟩)
        · have hne : a.rel ≠ p := by
            intro h; apply hu.1; exact List.mem_map.mpr ⟨d, hmt, hr.trans h.symm⟩
          have hcond : (!a.isDir && a.rel == p) = false := by simp [hne]
          rw [if_neg (by rw [hcond]; simp)]
          exact ih hu.2 hmt
    rw [hfil]; rfl

theorem destFile_none_iff (dst : List VEntry) (hu : UniqueRels dst) (p : Path) :
    destFile dst p = none ↔ ∀ d ∈ dst, d.rel = p → d.isDir = true := by
  constructor
  · intro h d hdm hdr
    cases hdd : d.isDir with
    | true => rfl
    | false =>
      have := (destFile_some_iff dst hu p d).mpr ⟨hdm, hdd, hdr⟩
      rw [h] at this; cases this
  · intro hall
    cases h : destFile dst p with
    | none => rfl
    | some d =>
      obtain ⟨hdm, hdd, hdr⟩ := (destFile_some_iff dst hu p d).mp h
      have := hall d hdm hdr
      rw [hdd] at this; cases this

/-! `classify` without size bounds, case by case -/

theorem classify_dir (c : VCfg) (dst : List VEntry) (s : VEntry) (h : s.isDir = true) :
    classify c dst s = .ignored := by unfold classify; simp [h]

theorem classify_none (dst : List VEntry) (s : VEntry) (h : s.isDir = false)
    (hd : destFile dst s.rel = none) : classify noBounds dst s = .onlySrc := by
  unfold classify; simp [h, noBounds, VCfg.sizeFiltered, hd]

theorem classify_some (dst : List VEntry) (s d : VEntry) (a b : Nat) (h : s.isDir = false)
    (hd : destFile dst s.rel = some d) (ha : s.content = some a) (hb : d.content = some b) :
    classify noBounds dst s = if a = b then .matched else .mismatched := by
  unfold classify; simp [h, noBounds, VCfg.sizeFiltered, hd, ha, hb]

theorem classify_unreadable (dst : List VEntry) (s d : VEntry) (h : s.isDir = false)
    (hd : destFile dst s.rel = some d) (hc : s.content = none ∨ d.content = none) :
    classify noBounds dst s = .error := by
  unfold classify
  simp only [h, Bool.false_eq_true, ↓reduceIte, noBounds, VCfg.sizeFiltered, Bool.or_self, hd]
  rcases hc with hc | hc
  · simp [hc]
  · cases s.content <;> simp [hc]

end SyModel.Engine
