/-
  Lemmas.GenLocalCopyFile — symbolic execution of the translated `LocalTransport::copy_file` over an EXISTING regular file
  (the route of every file below 10 MiB): parent directory, `remove_if_symlink`, `break_unshared_hard_link`, `fs::copy`,
  the xattr strip, `set_file_mtime`; and of the two in-place branches of `sync_file_with_delta` (change-ratio fallback,
  sparse source).
-/
import SyModel.Lemmas.GenLocalCopyStrip
set_option autoImplicit false
set_option linter.unusedSimpArgs false
set_option linter.unusedVariables false
namespace SyModel.LocalCopy
open SyModel SyModel.Generated SyModel.Generated.LocalCopy SyModel.Transfer

/-- the directory `dst` lives in: the current directory, an existing directory, or a free name (then it is created) -/
def ParentOK (w : LWorld) (dst : Rs.Path) : Prop :=
  ∀ d, Rs.parent dst = some d → d = [] ∨ w.names d = none ∨ ((∃ nd, w.names d = some nd) ∧ w.stat d = some .dir)

/-- the `mkdir` performed for the parent, if any -/
def parentOps (w : LWorld) (dst : Rs.Path) : List Op :=
  match Rs.parent dst with
  | some d => if d = [] then [] else (match w.names d with | none => [.mkdir d] | some _ => [])
  | none => []

/-- the world after `create_dir_all(dest.parent())` -/
def parentW (w : LWorld) (dst : Rs.Path) : LWorld :=
  match Rs.parent dst with
  | some d => if d = [] then w else (match w.names d with
      | none => { w with names := upd w.names d (some .dir), log := w.log ++ [.mkdir d] }
      | some _ => w)
  | none => w

theorem copy_parent_eval (cfg : Cfg) (self : LocalTransport) (w : LWorld) (dst d : Rs.Path) (hnf : w.fault = none)
    (hp : ParentOK w dst) (hpar : Rs.parent dst = some d) :
    LocalTransport.create_dir_all (posix cfg) self d w = (.ok (), parentW w dst) := by
  unfold parentW
  have := hp d hpar
  simp only [hpar, LocalTransport.create_dir_all, posix_create_dir_all, prim_nf _ _ hnf, createDirAllAct]
  by_cases hd : d = []
  · simp [hd]
  · rcases this with h | h | ⟨⟨nd, h1⟩, h2⟩
    · exact absurd h hd
    · simp [hd, h, LWorld.logOp]
    · simp [hd, h1, h2]

theorem parentW_of_none (w : LWorld) (dst : Rs.Path) (h : Rs.parent dst = none) : parentW w dst = w := by
  unfold parentW; rw [h]

theorem parentW_names (w : LWorld) (dst p : Rs.Path) (h : w.names p ≠ none) : (parentW w dst).names p = w.names p := by
  unfold parentW
  split
  · split
    · rfl
    · split
      · rename_i d _ _ _ hd
        have : p ≠ d := by intro e; rw [e] at h; exact h hd
        simp [upd_ne, this]
      · rfl
  · rfl
@[simp] theorem parentW_fault (w : LWorld) (dst : Rs.Path) : (parentW w dst).fault = w.fault := by
  unfold parentW; repeat' split
  all_goals rfl
@[simp] theorem parentW_inodes (w : LWorld) (dst : Rs.Path) : (parentW w dst).inodes = w.inodes := by
  unfold parentW; repeat' split
  all_goals rfl
@[simp] theorem parentW_nextIno (w : LWorld) (dst : Rs.Path) : (parentW w dst).nextIno = w.nextIno := by
  unfold parentW; repeat' split
  all_goals rfl
@[simp] theorem parentW_guards (w : LWorld) (dst : Rs.Path) : (parentW w dst).guards = w.guards := by
  unfold parentW; repeat' split
  all_goals rfl
theorem parentW_log (w : LWorld) (dst : Rs.Path) : (parentW w dst).log = w.log ++ parentOps w dst := by
  unfold parentW parentOps; repeat' split
  all_goals simp_all

/-- what `fs::copy` leaves in the destination inode's attribute list before the strip -/
def copiedXattrs (cfg : Cfg) (xsrc xold : List Rs.Str) : List Rs.Str := if cfg.copyXattrs then xsrc ++ xold else xold

/-- hypotheses of the `copy_file` theorems: no fault; `src` a regular file (inode `is` = `ns`); `dst` an existing regular file
    (inode `id` = `nd`), a different inode; the parent usable -/
structure CopyPre (w : LWorld) (src dst : Rs.Path) (is id : Nat) (ns nd : Inode) : Prop where
  nf : w.fault = none
  hsrc : w.names src = some (.file is)
  hisrc : w.inodes is = some ns
  hdst : w.names dst = some (.file id)
  hidst : w.inodes id = some nd
  ne : is ≠ id
  fresh : is < w.nextIno ∧ id < w.nextIno
  parent : ParentOK w dst

set_option maxRecDepth 8000 in
/-- `copy_file` over an existing regular file that has NO other hard link: written IN PLACE (same inode) -/
theorem copy_file_eval_inplace (cfg : Cfg) (self : LocalTransport) (w : LWorld) (src dst : Rs.Path) (is id : Nat) (ns nd : Inode)
    (h : CopyPre w src dst is id ns nd) (hl : nd.nlink ≤ 1) :
    ∃ w', LocalTransport.copy_file (posix cfg) self src dst w = (.ok (TransferResult.new ns.bytes.length), w') ∧
      w'.names dst = some (.file id) ∧ w'.inodes id = some ⟨ns.bytes, ns.mtime, [], nd.nlink⟩ ∧
      (∀ p, w.names p ≠ none → w'.names p = w.names p) ∧ (∀ i, i ≠ id → w'.inodes i = w.inodes i) ∧
      w'.nextIno = w.nextIno ∧
      w'.log = w.log ++ parentOps w dst ++ ([Op.truncate id, Op.write id 0 ns.bytes] ++
        (stripNames (copiedXattrs cfg ns.xattrs nd.xattrs) (copiedXattrs cfg ns.xattrs nd.xattrs)).map (Op.xattrRemove id) ++
        [Op.utime dst id ns.mtime]) := by
  obtain ⟨hnf, hsrc, hisrc, hdst, hidst, hne, hfresh, hpar⟩ := h
  have h1src : (parentW w dst).names src = some (.file is) := by rw [parentW_names _ _ _ (by rw [hsrc]; simp), hsrc]
  have h1dst : (parentW w dst).names dst = some (.file id) := by rw [parentW_names _ _ _ (by rw [hdst]; simp), hdst]
  have h1nf : (parentW w dst).fault = none := by simp [hnf]
  have h1is : (parentW w dst).inodes is = some ns := by simp [hisrc]
  have h1id : (parentW w dst).inodes id = some nd := by simp [hidst]
  have h1names : ∀ p, w.names p ≠ none → (parentW w dst).names p = w.names p := fun p hp => parentW_names w dst p hp
  have h1ino : (parentW w dst).inodes = w.inodes := by simp
  have h1ni : (parentW w dst).nextIno = w.nextIno := by simp
  have h1log := parentW_log w dst
  have hpe := fun d => copy_parent_eval cfg self w dst d hnf hpar
  have hpn := parentW_of_none w dst
  generalize parentW w dst = w1 at *
  have hhl : hasHardLinks w1 dst = false := by simp [hasHardLinks, inoOf_of_file w1 dst id h1dst, h1id]; omega
  cases hp : Rs.parent dst with
  | none =>
    have hw1 := hpn hp
    rw [← hw1]
    refine ⟨?w', ?h1, ?h2⟩
    case h1 =>
      unfold LocalTransport.copy_file
      simp only [strip_forIn, hp]
      simp only [run_bind, remove_if_symlink_nf cfg w1 dst h1nf, unlinkSym_of_file w1 dst id h1dst]
      cases hsp : cfg.sparse <;>
      simp [run_bind, run_capture, run_pure, run_map, prim_nf, h1nf, metadataAct, stat_of_file w1 src is h1src, h1is, hsp,
        break_unshared_hard_link, hhl, fsCopyAct, createTrunc, inoOf_of_file w1 src is h1src, follow_of_file w1 dst id h1dst, h1dst, h1id,
        upd_ne, hne, hne.symm, xattrListAct, LWorld.logOp, Rs.modified, Rs.liftE]
      all_goals
        generalize hX : (if cfg.copyXattrs = true then ns.xattrs ++ nd.xattrs else nd.xattrs) = X
        rw [stripGo_spec dst id X _ ⟨ns.bytes, w1.now, X, nd.nlink⟩ rfl (by simpa using h1dst) (by simp)]
        simp [run_bind, run_pure, run_map, prim_nf, setMtimeAct, LWorld.inoOf, LWorld.stat, follow_of_file w1 dst id h1dst, h1dst,
          filter_not_mem_self, filter_not_mem_self', LWorld.logOp]
        try (subst hX; rfl)
    case h2 =>
      refine ⟨by simpa using h1dst, by simp, ?_, ?_, by simp [h1ni], ?_⟩
      · intro p hp'; simpa using h1names p hp'
      · intro i hi; simp [upd_ne, hi, h1ino]
      · simp [h1log, copiedXattrs, List.append_assoc, parentOps, hp]
  | some d =>
    refine ⟨?w', ?h1, ?h2⟩
    case h1 =>
      unfold LocalTransport.copy_file
      simp only [strip_forIn, hp]
      simp only [run_bind, hpe d hp, remove_if_symlink_nf cfg w1 dst h1nf, unlinkSym_of_file w1 dst id h1dst]
      cases hsp : cfg.sparse <;>
      simp [run_bind, run_capture, run_pure, run_map, prim_nf, h1nf, metadataAct, stat_of_file w1 src is h1src, h1is, hsp,
        break_unshared_hard_link, hhl, fsCopyAct, createTrunc, inoOf_of_file w1 src is h1src, follow_of_file w1 dst id h1dst, h1dst, h1id,
        upd_ne, hne, hne.symm, xattrListAct, LWorld.logOp, Rs.modified, Rs.liftE]
      all_goals
        generalize hX : (if cfg.copyXattrs = true then ns.xattrs ++ nd.xattrs else nd.xattrs) = X
        rw [stripGo_spec dst id X _ ⟨ns.bytes, w1.now, X, nd.nlink⟩ rfl (by simpa using h1dst) (by simp)]
        simp [run_bind, run_pure, run_map, prim_nf, setMtimeAct, LWorld.inoOf, LWorld.stat, follow_of_file w1 dst id h1dst, h1dst,
          filter_not_mem_self, filter_not_mem_self', LWorld.logOp]
        try (subst hX; rfl)
    case h2 =>
      refine ⟨by simpa using h1dst, by simp, ?_, ?_, by simp [h1ni], ?_⟩
      · intro p hp'; simpa using h1names p hp'
      · intro i hi; simp [upd_ne, hi, h1ino]
      · simp [h1log, copiedXattrs, List.append_assoc, parentOps, hp]

set_option maxRecDepth 8000 in
/-- `copy_file` over an existing regular file whose inode has OTHER hard links: the name is unlinked first and a NEW inode is
    written — the old inode (and with it every other name) keeps its content -/
theorem copy_file_eval_hardlink (cfg : Cfg) (self : LocalTransport) (w : LWorld) (src dst : Rs.Path) (is id : Nat) (ns nd : Inode)
    (h : CopyPre w src dst is id ns nd) (hl : 1 < nd.nlink) :
    ∃ w', LocalTransport.copy_file (posix cfg) self src dst w = (.ok (TransferResult.new ns.bytes.length), w') ∧
      w'.names dst = some (.file w.nextIno) ∧ w'.inodes w.nextIno = some ⟨ns.bytes, ns.mtime, [], 1⟩ ∧
      w'.inodes id = some { nd with nlink := nd.nlink - 1 } ∧
      (∀ p, p ≠ dst → w.names p ≠ none → w'.names p = w.names p) ∧ (∀ i, i ≠ id → i ≠ w.nextIno → w'.inodes i = w.inodes i) ∧
      w'.log = w.log ++ parentOps w dst ++ ([Op.unlink dst, Op.create dst w.nextIno, Op.write w.nextIno 0 ns.bytes] ++
        (stripNames (copiedXattrs cfg ns.xattrs []) (copiedXattrs cfg ns.xattrs [])).map (Op.xattrRemove w.nextIno) ++
        [Op.utime dst w.nextIno ns.mtime]) := by
  obtain ⟨hnf, hsrc, hisrc, hdst, hidst, hne, hfresh, hpar⟩ := h
  have h1src : (parentW w dst).names src = some (.file is) := by rw [parentW_names _ _ _ (by rw [hsrc]; simp), hsrc]
  have h1dst : (parentW w dst).names dst = some (.file id) := by rw [parentW_names _ _ _ (by rw [hdst]; simp), hdst]
  have h1nf : (parentW w dst).fault = none := by simp [hnf]
  have h1is : (parentW w dst).inodes is = some ns := by simp [hisrc]
  have h1id : (parentW w dst).inodes id = some nd := by simp [hidst]
  have h1names : ∀ p, w.names p ≠ none → (parentW w dst).names p = w.names p := fun p hp => parentW_names w dst p hp
  have h1ino : (parentW w dst).inodes = w.inodes := by simp
  have h1ni : (parentW w dst).nextIno = w.nextIno := by simp
  have h1log := parentW_log w dst
  have hpe := fun d => copy_parent_eval cfg self w dst d hnf hpar
  have hpn := parentW_of_none w dst
  generalize parentW w dst = w1 at *
  have hhl : hasHardLinks w1 dst = true := by simp [hasHardLinks, inoOf_of_file w1 dst id h1dst, h1id]; omega
  have hsd : src ≠ dst := by intro e; rw [e, h1dst] at h1src; cases h1src; exact hne rfl
  have hisne : is ≠ w1.nextIno := by omega
  have hidne : id ≠ w1.nextIno := by omega
  have hN : follow (upd w1.names dst none) LINK_FUEL dst = some dst := follow_of_not_symlink _ _ _ (by intro t; simp)
  have hNs : follow (upd w1.names dst none) LINK_FUEL src = some src :=
    follow_of_not_symlink _ _ _ (by intro t; simp [upd_ne, hsd, h1src])
  have hN3 : follow (upd w1.names dst (some (Node.file w1.nextIno))) LINK_FUEL dst = some dst :=
    follow_of_not_symlink _ _ _ (by intro t; simp)
  cases hp : Rs.parent dst with
  | none =>
    have hw1 := hpn hp
    rw [← hw1]
    refine ⟨?w', ?h1, ?h2⟩
    case h1 =>
      unfold LocalTransport.copy_file
      simp only [strip_forIn, hp]
      simp only [run_bind, remove_if_symlink_nf cfg w1 dst h1nf, unlinkSym_of_file w1 dst id h1dst]
      cases hsp : cfg.sparse <;>
      simp [run_bind, run_capture, run_pure, run_map, prim_nf, h1nf, metadataAct, stat_of_file w1 src is h1src, h1is, hsp,
        break_unshared_hard_link, hhl, lstatAct, Rs.l_is_file, removeFileAct, LWorld.decLink, fsCopyAct, createTrunc, LWorld.inoOf, LWorld.stat,
        hN, hNs, hN3, hsd, h1src, h1dst, h1id, h1is, follow_of_file w1 src is h1src, follow_of_file w1 dst id h1dst,
        upd_ne, hne, hne.symm, hisne, hidne, hisne.symm, hidne.symm, xattrListAct, LWorld.logOp, Rs.modified, Rs.liftE]
      all_goals
        generalize hX : (if cfg.copyXattrs = true then ns.xattrs else []) = X
        rw [stripGo_spec dst w1.nextIno X _ ⟨ns.bytes, w1.now, X, 1⟩ rfl (by simp) (by simp)]
        simp [run_bind, run_pure, run_map, prim_nf, setMtimeAct, LWorld.inoOf, LWorld.stat, hN3,
          filter_not_mem_self, filter_not_mem_self', LWorld.logOp]
        try (subst hX; rfl)
    case h2 =>
      have hidne' : id ≠ w.nextIno := by omega
      refine ⟨by simp [h1ni], by simp [h1ni], by simp [upd_ne, hidne, hidne', h1ni], ?_, ?_, ?_⟩
      · intro p hp1 hp'; simpa [upd_ne, hp1] using h1names p hp'
      · intro i hi hi2
        have hi3 : i ≠ w.nextIno ∧ i ≠ w1.nextIno := by
          constructor <;> first | exact hi2 | (rw [h1ni]; exact hi2) | (rw [← h1ni]; exact hi2)
        simp [upd_ne, hi, hi3.1, hi3.2, h1ni, h1ino]
      · simp [h1log, h1ni, copiedXattrs, List.append_assoc, parentOps, hp]
  | some d =>
    refine ⟨?w', ?h1, ?h2⟩
    case h1 =>
      unfold LocalTransport.copy_file
      simp only [strip_forIn, hp]
      simp only [run_bind, hpe d hp, remove_if_symlink_nf cfg w1 dst h1nf, unlinkSym_of_file w1 dst id h1dst]
      cases hsp : cfg.sparse <;>
      simp [run_bind, run_capture, run_pure, run_map, prim_nf, h1nf, metadataAct, stat_of_file w1 src is h1src, h1is, hsp,
        break_unshared_hard_link, hhl, lstatAct, Rs.l_is_file, removeFileAct, LWorld.decLink, fsCopyAct, createTrunc, LWorld.inoOf, LWorld.stat,
        hN, hNs, hN3, hsd, h1src, h1dst, h1id, h1is, follow_of_file w1 src is h1src, follow_of_file w1 dst id h1dst,
        upd_ne, hne, hne.symm, hisne, hidne, hisne.symm, hidne.symm, xattrListAct, LWorld.logOp, Rs.modified, Rs.liftE]
      all_goals
        generalize hX : (if cfg.copyXattrs = true then ns.xattrs else []) = X
        rw [stripGo_spec dst w1.nextIno X _ ⟨ns.bytes, w1.now, X, 1⟩ rfl (by simp) (by simp)]
        simp [run_bind, run_pure, run_map, prim_nf, setMtimeAct, LWorld.inoOf, LWorld.stat, hN3,
          filter_not_mem_self, filter_not_mem_self', LWorld.logOp]
        try (subst hX; rfl)
    case h2 =>
      have hidne' : id ≠ w.nextIno := by omega
      refine ⟨by simp [h1ni], by simp [h1ni], by simp [upd_ne, hidne, hidne', h1ni], ?_, ?_, ?_⟩
      · intro p hp1 hp'; simpa [upd_ne, hp1] using h1names p hp'
      · intro i hi hi2
        have hi3 : i ≠ w.nextIno ∧ i ≠ w1.nextIno := by
          constructor <;> first | exact hi2 | (rw [h1ni]; exact hi2) | (rw [← h1ni]; exact hi2)
        simp [upd_ne, hi, hi3.1, hi3.2, h1ni, h1ino]
      · simp [h1log, h1ni, copiedXattrs, List.append_assoc, parentOps, hp]

set_option maxRecDepth 8000 in
/-- the change-ratio fallback (`!ratio.use_delta`) of `sync_file_with_delta` over a destination WITHOUT other hard links: the ≥ 10 MiB
    destination is rewritten IN PLACE (`fs::copy` truncates the same inode), no working file, no rename -/
theorem sync_ratio_fallback_eval_inplace (cfg : Cfg) (self : LocalTransport) (w : LWorld) (src dst : Rs.Path) (is id : Nat) (ns nd : Inode)
    (hnf : w.fault = none) (hsrc : w.names src = some (.file is)) (hisrc : w.inodes is = some ns)
    (hdst : w.names dst = some (.file id)) (hidst : w.inodes id = some nd) (hne : is ≠ id)
    (hfresh : is < w.nextIno ∧ id < w.nextIno) (hng : w.guards = [])
    (hbig : 10485760 ≤ nd.bytes.length) (hsp : cfg.sparse = false) (hr : cfg.ratio = some false) (hl : nd.nlink ≤ 1) :
    ∃ w', LocalTransport.sync_file_with_delta (posix cfg) self src dst w = (.ok (TransferResult.new ns.bytes.length), w') ∧
      w'.names = w.names ∧ w'.inodes id = some ⟨ns.bytes, ns.mtime, [], nd.nlink⟩ ∧
      (∀ i, i ≠ id → w'.inodes i = w.inodes i) ∧ w'.guards = [] ∧
      w'.log = w.log ++ ([Op.truncate id, Op.write id 0 ns.bytes] ++
        (stripNames (copiedXattrs cfg ns.xattrs nd.xattrs) (copiedXattrs cfg ns.xattrs nd.xattrs)).map (Op.xattrRemove id) ++
        [Op.utime dst id ns.mtime]) := by
  have hg1 : decide (nd.bytes.length < 10 * 1024 * 1024) = false := by simp; omega
  have hg2 : decide (nd.bytes.length < 4096) = false := by simp; omega
  have hhl : hasHardLinks w dst = false := by simp [hasHardLinks, inoOf_of_file w dst id hdst, hidst]; omega
  have hsd : src ≠ dst := by intro e; rw [e, hdst] at hsrc; cases hsrc; exact hne rfl
  have hisne : is ≠ w.nextIno := by omega
  have hidne : id ≠ w.nextIno := by omega
  have hN : follow (upd w.names dst none) LINK_FUEL dst = some dst := follow_of_not_symlink _ _ _ (by intro t; simp)
  have hNs : follow (upd w.names dst none) LINK_FUEL src = some src :=
    follow_of_not_symlink _ _ _ (by intro t; simp [upd_ne, hsd, hsrc])
  have hN3 : follow (upd w.names dst (some (Node.file w.nextIno))) LINK_FUEL dst = some dst :=
    follow_of_not_symlink _ _ _ (by intro t; simp)
  refine ⟨?w', ?h1, ?h2⟩
  case h1 =>
    unfold LocalTransport.sync_file_with_delta
    generalize hbs : (64 * 1024 : Nat) = bs
    simp only [strip_forIn]
    simp only [run_bind, remove_if_symlink_nf cfg w dst hnf, unlinkSym_of_file w dst id hdst,
      LocalTransport.exists, LocalTransport.metadata, run_capture, run_pure, prim_nf _ _ hnf, posix_try_exists, posix_tokio_fs_metadata,
      Option.isSome_some, Bool.not_true, Bool.false_eq_true, if_false, ite_false,
      existsAct, metadataAct, stat_of_file w dst id hdst, stat_of_file w src is hsrc, hisrc, hidst, Rs.unwrap_or, Rs.len, hg1, hg2]
    simp [run_bind, run_capture, run_pure, run_map, prim_nf, hnf, metadataAct, stat_of_file w src is hsrc, hisrc, hsp, hr, hng,
      break_unshared_hard_link, hhl, lstatAct, Rs.l_is_file, removeFileAct, LWorld.decLink, fsCopyAct, createTrunc, LWorld.inoOf, LWorld.stat,
      hN, hNs, hN3, hsd, hsrc, hdst, hidst, hisrc, follow_of_file w src is hsrc, follow_of_file w dst id hdst,
      upd_ne, hne, hne.symm, hisne, hidne, hisne.symm, hidne.symm, xattrListAct, LWorld.logOp, Rs.modified]
    generalize hX : (if cfg.copyXattrs = true then ns.xattrs ++ nd.xattrs else nd.xattrs) = X
    rw [stripGo_spec dst id X _ ⟨ns.bytes, w.now, X, nd.nlink⟩ rfl (by simpa using hdst) (by simp)]
    simp [run_bind, run_pure, run_map, prim_nf, setMtimeAct, LWorld.inoOf, LWorld.stat, hN3, follow_of_file w dst id hdst, hdst,
      filter_not_mem_self, filter_not_mem_self', LWorld.logOp, Rs.liftE, hng]
    try (subst hX; subst hbs; rfl)
  case h2 =>
    refine ⟨rfl, by simp, ?_, by simp [hng], ?_⟩
    · intro i hi; simp [upd_ne, hi]
    · simp [copiedXattrs, List.append_assoc]

set_option maxRecDepth 8000 in
/-- the change-ratio fallback over a destination whose inode has OTHER hard links: `break_unshared_hard_link` unlinks the name
    first, a NEW inode is written; the old inode (every other name) keeps its content -/
theorem sync_ratio_fallback_eval_hardlink (cfg : Cfg) (self : LocalTransport) (w : LWorld) (src dst : Rs.Path) (is id : Nat) (ns nd : Inode)
    (hnf : w.fault = none) (hsrc : w.names src = some (.file is)) (hisrc : w.inodes is = some ns)
    (hdst : w.names dst = some (.file id)) (hidst : w.inodes id = some nd) (hne : is ≠ id)
    (hfresh : is < w.nextIno ∧ id < w.nextIno) (hng : w.guards = [])
    (hbig : 10485760 ≤ nd.bytes.length) (hsp : cfg.sparse = false) (hr : cfg.ratio = some false) (hl : 1 < nd.nlink) :
    ∃ w', LocalTransport.sync_file_with_delta (posix cfg) self src dst w = (.ok (TransferResult.new ns.bytes.length), w') ∧
      w'.names dst = some (.file w.nextIno) ∧ w'.inodes w.nextIno = some ⟨ns.bytes, ns.mtime, [], 1⟩ ∧
      w'.inodes id = some { nd with nlink := nd.nlink - 1 } ∧
      (∀ p, p ≠ dst → w'.names p = w.names p) ∧ (∀ i, i ≠ id → i ≠ w.nextIno → w'.inodes i = w.inodes i) ∧
      w'.log = w.log ++ ([Op.unlink dst, Op.create dst w.nextIno, Op.write w.nextIno 0 ns.bytes] ++
        (stripNames (copiedXattrs cfg ns.xattrs []) (copiedXattrs cfg ns.xattrs [])).map (Op.xattrRemove w.nextIno) ++
        [Op.utime dst w.nextIno ns.mtime]) := by
  have hg1 : decide (nd.bytes.length < 10 * 1024 * 1024) = false := by simp; omega
  have hg2 : decide (nd.bytes.length < 4096) = false := by simp; omega
  have hhl : hasHardLinks w dst = true := by simp [hasHardLinks, inoOf_of_file w dst id hdst, hidst]; omega
  have hsd : src ≠ dst := by intro e; rw [e, hdst] at hsrc; cases hsrc; exact hne rfl
  have hisne : is ≠ w.nextIno := by omega
  have hidne : id ≠ w.nextIno := by omega
  have hN : follow (upd w.names dst none) LINK_FUEL dst = some dst := follow_of_not_symlink _ _ _ (by intro t; simp)
  have hNs : follow (upd w.names dst none) LINK_FUEL src = some src :=
    follow_of_not_symlink _ _ _ (by intro t; simp [upd_ne, hsd, hsrc])
  have hN3 : follow (upd w.names dst (some (Node.file w.nextIno))) LINK_FUEL dst = some dst :=
    follow_of_not_symlink _ _ _ (by intro t; simp)
  refine ⟨?w', ?h1, ?h2⟩
  case h1 =>
    unfold LocalTransport.sync_file_with_delta
    generalize hbs : (64 * 1024 : Nat) = bs
    simp only [strip_forIn]
    simp only [run_bind, remove_if_symlink_nf cfg w dst hnf, unlinkSym_of_file w dst id hdst,
      LocalTransport.exists, LocalTransport.metadata, run_capture, run_pure, prim_nf _ _ hnf, posix_try_exists, posix_tokio_fs_metadata,
      Option.isSome_some, Bool.not_true, Bool.false_eq_true, if_false, ite_false,
      existsAct, metadataAct, stat_of_file w dst id hdst, stat_of_file w src is hsrc, hisrc, hidst, Rs.unwrap_or, Rs.len, hg1, hg2]
    simp [run_bind, run_capture, run_pure, run_map, prim_nf, hnf, metadataAct, stat_of_file w src is hsrc, hisrc, hsp, hr, hng,
      break_unshared_hard_link, hhl, lstatAct, Rs.l_is_file, removeFileAct, LWorld.decLink, fsCopyAct, createTrunc, LWorld.inoOf, LWorld.stat,
      hN, hNs, hN3, hsd, hsrc, hdst, hidst, hisrc, follow_of_file w src is hsrc, follow_of_file w dst id hdst,
      upd_ne, hne, hne.symm, hisne, hidne, hisne.symm, hidne.symm, xattrListAct, LWorld.logOp, Rs.modified]
    generalize hX : (if cfg.copyXattrs = true then ns.xattrs else []) = X
    rw [stripGo_spec dst w.nextIno X _ ⟨ns.bytes, w.now, X, 1⟩ rfl (by simp) (by simp)]
    simp [run_bind, run_pure, run_map, prim_nf, setMtimeAct, LWorld.inoOf, LWorld.stat, hN3, follow_of_file w dst id hdst, hdst,
      filter_not_mem_self, filter_not_mem_self', LWorld.logOp, Rs.liftE, hng]
    try (subst hX; subst hbs; rfl)
  case h2 =>
    refine ⟨by simp, by simp, by simp [upd_ne, hidne], ?_, ?_, ?_⟩
    · intro p hp; simp [upd_ne, hp]
    · intro i hi hi2; simp [upd_ne, hi, hi2]
    · simp [copiedXattrs, List.append_assoc]

/-- `copy_file` ON ITS OWN onto a destination SYMLINK (to anything): its own `remove_if_symlink` unlinks the link, `fs::copy`
    then creates a new file at the name -/
theorem copy_file_symlink_dest_eval (cfg : Cfg) (self : LocalTransport) (w : LWorld) (src dst t : Rs.Path) (is : Nat)
    (ns : Inode) (hnf : w.fault = none) (hsrc : w.names src = some (.file is)) (hisrc : w.inodes is = some ns)
    (hdst : w.names dst = some (.symlink t)) (hfresh : is < w.nextIno) (hpar : Rs.parent dst = some [])
    (hx : cfg.copyXattrs = false) :
    ∃ w', LocalTransport.copy_file (posix cfg) self src dst w = (.ok (TransferResult.new ns.bytes.length), w') ∧
      w'.names dst = some (.file w.nextIno) ∧ w'.inodes w.nextIno = some ⟨ns.bytes, ns.mtime, [], 1⟩ ∧
      (∀ p, p ≠ dst → w'.names p = w.names p) ∧ (∀ i, i ≠ w.nextIno → w'.inodes i = w.inodes i) ∧
      w'.log = w.log ++ [Op.unlink dst, Op.create dst w.nextIno, Op.write w.nextIno 0 ns.bytes, Op.utime dst w.nextIno ns.mtime] := by
  have hsd : src ≠ dst := by intro e; rw [e, hdst] at hsrc; cases hsrc
  have hisne : is ≠ w.nextIno := by omega
  have hN : follow (upd w.names dst none) LINK_FUEL dst = some dst := follow_of_not_symlink _ _ _ (by intro t; simp)
  have hNs : follow (upd w.names dst none) LINK_FUEL src = some src :=
    follow_of_not_symlink _ _ _ (by intro t; simp [upd_ne, hsd, hsrc])
  have hN3 : follow (upd w.names dst (some (Node.file w.nextIno))) LINK_FUEL dst = some dst :=
    follow_of_not_symlink _ _ _ (by intro t; simp)
  refine ⟨?w', ?h1, ?h2⟩
  case h1 =>
    unfold LocalTransport.copy_file
    cases hsp : cfg.sparse <;>
    simp [hpar, LocalTransport.create_dir_all, createDirAllAct, run_bind, run_capture, run_pure, run_map, prim_nf, hnf,
      remove_if_symlink, lstatAct, removeFileAct, hdst, metadataAct, LWorld.stat, LWorld.inoOf, hN, hNs, hN3, upd_ne, hsd, hsd.symm, hsrc, hisrc, hsp,
      break_unshared_hard_link, hasHardLinks, fsCopyAct, createTrunc, LWorld.logOp, hisne, hisne.symm, hx, xattrListAct,
      Rs.modified, setMtimeAct, Rs.liftE, Rs.l_is_symlink, Rs.l_file_type]
    all_goals rfl
  case h2 =>
    refine ⟨?_, ?_, ?_, ?_, ?_⟩
    · simp
    · simp
    · intro p hp; simp [upd_ne, hp]
    · intro i hi; simp [upd_ne, hi]
    · simp

end SyModel.LocalCopy
