/-
  Lemmas about the scan filter: the stateful fold with its growing `excluded_dirs` equals a
  stateless per-entry predicate over the entries seen before (`specList`).
-/
import SyModel.Lemmas.FilterRule
set_option linter.unusedVariables false
namespace SyModel.Filter

theorem startsWith_iff (p d : RelPath) : startsWith p d = true ↔ d <+: p := by
  unfold startsWith; exact List.isPrefixOf_iff_prefix

/-- how `excluded_dirs` relates to the entries processed so far -/
structure ExclInv (rules : List Rule) (done : List Entry) (excl : List RelPath) : Prop where
  sound : ∀ x ∈ excl, ∃ a ∈ done, a.isDir = true ∧ a.rel = x ∧ shouldInclude rules a.rel a.isDir = false
  complete : ∀ a ∈ done, a.isDir = true → shouldInclude rules a.rel a.isDir = false →
    ∃ x ∈ excl, x <+: a.rel

theorem ancOk_false_iff (rules : List Rule) (done : List Entry) (e : Entry) :
    ancOk rules done e = false ↔
      ∃ a ∈ done, a.isDir = true ∧ a.rel <+: e.rel ∧ shouldInclude rules a.rel a.isDir = false := by
  unfold ancOk
  rw [List.all_eq_false]
  constructor
  · rintro ⟨a, ha, h⟩
    have h' : (a.isDir && a.rel.isPrefixOf e.rel) = true ∧ shouldInclude rules a.rel a.isDir = false := by
      cases h1 : (a.isDir && a.rel.isPrefixOf e.rel) <;> cases h2 : shouldInclude rules a.rel a.isDir <;>
        simp [h1, h2] at h ⊢
    simp only [Bool.and_eq_true] at h'
    exact ⟨a, ha, h'.1.1, List.isPrefixOf_iff_prefix.mp h'.1.2, h'.2⟩
  · rintro ⟨a, ha, hd, hp, hi⟩
    refine ⟨a, ha, ?_⟩
    rw [hd] at hi
    simp [hd, List.isPrefixOf_iff_prefix.mpr hp, hi]

theorem excl_any_eq {rules : List Rule} {done : List Entry} {excl : List RelPath}
    (h : ExclInv rules done excl) (e : Entry) :
    excl.any (fun d => startsWith e.rel d) = !ancOk rules done e := by
  cases ha : ancOk rules done e
  · simp only [Bool.not_false, List.any_eq_true]
    obtain ⟨a, had, hd, hp, hi⟩ := (ancOk_false_iff rules done e).mp ha
    obtain ⟨x, hx, hxa⟩ := h.complete a had hd hi
    exact ⟨x, hx, (startsWith_iff _ _).mpr (List.IsPrefix.trans hxa hp)⟩
  · simp only [Bool.not_true]
    cases hany : excl.any (fun d => startsWith e.rel d)
    · rfl
    · exfalso
      obtain ⟨x, hx, hs⟩ := List.any_eq_true.mp hany
      obtain ⟨a, had, hd, hax, hi⟩ := h.sound x hx
      have : ancOk rules done e = false :=
        (ancOk_false_iff rules done e).mpr ⟨a, had, hd, hax ▸ (startsWith_iff _ _).mp hs, hi⟩
      rw [ha] at this; cases this

/-- one call of the closure: it keeps `e` exactly when `keptSpec` says so, and maintains the
    invariant -/
theorem scanStep_spec (cfg : FilterCfg) (done : List Entry) (st : ScanState) (e : Entry)
    (h : ExclInv cfg.rules done st.excludedDirs) :
    (scanStep cfg st e).kept = st.kept ++ (if keptSpec cfg done e then [e] else []) ∧
    ExclInv cfg.rules (done ++ [e]) (scanStep cfg st e).excludedDirs := by
  have hany := excl_any_eq h e
  unfold scanStep keptSpec
  cases ha : ancOk cfg.rules done e
  · -- inside an excluded directory
    rw [ha] at hany
    simp only [hany, Bool.not_false, if_true, Bool.false_and, Bool.false_eq_true, if_false,
      List.append_nil, true_and]
    refine ⟨fun x hx => ?_, fun a had hd hi => ?_⟩
    · obtain ⟨a, ha', r⟩ := h.sound x hx
      exact ⟨a, List.mem_append_left _ ha', r⟩
    · rcases List.mem_append.mp had with had | had
      · exact h.complete a had hd hi
      · have : a = e := by simpa using had
        subst this
        obtain ⟨x, hx, hs⟩ := List.any_eq_true.mp hany
        exact ⟨x, hx, (startsWith_iff _ _).mp hs⟩
  · rw [ha] at hany
    simp only [hany, Bool.not_true, Bool.false_eq_true, if_false, Bool.true_and]
    cases hi : shouldInclude cfg.rules e.rel e.isDir
    · -- excluded by the rules
      simp only [Bool.not_false, if_true, Bool.false_and, Bool.false_eq_true, if_false,
        List.append_nil]
      cases hd : e.isDir
      · simp only [Bool.false_eq_true, if_false, true_and]
        refine ⟨fun x hx => ?_, fun a had hd' hi' => ?_⟩
        · obtain ⟨a, ha', r⟩ := h.sound x hx
          exact ⟨a, List.mem_append_left _ ha', r⟩
        · rcases List.mem_append.mp had with had | had
          · exact h.complete a had hd' hi'
          · have : a = e := by simpa using had
            subst this; rw [hd] at hd'; cases hd'
      · simp only [if_true, true_and]
        refine ⟨fun x hx => ?_, fun a had hd' hi' => ?_⟩
        · rcases List.mem_append.mp hx with hx | hx
          · obtain ⟨a, ha', r⟩ := h.sound x hx
            exact ⟨a, List.mem_append_left _ ha', r⟩
          · have : x = e.rel := by simpa using hx
            subst this
            exact ⟨e, by simp, hd, rfl, by rw [hd] at hi; rw [hd]; exact hi⟩
        · rcases List.mem_append.mp had with had | had
          · obtain ⟨x, hx, hp⟩ := h.complete a had hd' hi'
            exact ⟨x, List.mem_append_left _ hx, hp⟩
          · have : a = e := by simpa using had
            subst this
            exact ⟨a.rel, by simp, List.prefix_refl _⟩
    · -- included by the rules: `excluded_dirs` unchanged
      have hinv : ExclInv cfg.rules (done ++ [e]) st.excludedDirs := by
        refine ⟨fun x hx => ?_, fun a had hd' hi' => ?_⟩
        · obtain ⟨a, ha', r⟩ := h.sound x hx
          exact ⟨a, List.mem_append_left _ ha', r⟩
        · rcases List.mem_append.mp had with had | had
          · exact h.complete a had hd' hi'
          · have : a = e := by simpa using had
            subst this; rw [hi] at hi'; cases hi'
      simp only [Bool.not_true, Bool.false_eq_true, if_false, Bool.true_and]
      cases hd : e.isDir
      · simp only [Bool.false_eq_true, if_false, Bool.false_or]
        cases hsz : filterBySize cfg e.size
        · simp only [Bool.false_eq_true, if_false, Bool.not_false, if_true]
          exact ⟨by first | rfl | trivial, hinv⟩
        · simp only [if_true, Bool.not_true, Bool.false_eq_true, if_false, List.append_nil]
          exact ⟨by first | rfl | trivial, hinv⟩
      · simp only [if_true, Bool.true_or]
        exact ⟨by first | rfl | trivial, hinv⟩

theorem foldl_scanStep (cfg : FilterCfg) :
    ∀ (todo done : List Entry) (st : ScanState), ExclInv cfg.rules done st.excludedDirs →
      (todo.foldl (scanStep cfg) st).kept = st.kept ++ specList cfg done todo := by
  intro todo
  induction todo with
  | nil => intro done st _; simp [specList]
  | cons e todo ih =>
    intro done st h
    obtain ⟨hk, hinv⟩ := scanStep_spec cfg done st e h
    simp only [List.foldl_cons, specList]
    rw [ih (done ++ [e]) (scanStep cfg st e) hinv, hk, List.append_assoc]

/-- the fold with its mutable `excluded_dirs` is the stateless per-entry predicate -/
theorem scanFilter_eq_specList (cfg : FilterCfg) (scan : List Entry) :
    scanFilter cfg scan = specList cfg [] scan := by
  unfold scanFilter
  have := foldl_scanStep cfg scan [] {} ⟨(by intro x hx; cases hx), (by intro a ha; cases ha)⟩
  simpa using this

theorem mem_specList (cfg : FilterCfg) (x : Entry) :
    ∀ (todo done : List Entry), x ∈ specList cfg done todo ↔
      ∃ l1 l2, todo = l1 ++ x :: l2 ∧ keptSpec cfg (done ++ l1) x = true := by
  intro todo
  induction todo with
  | nil => intro done; simp [specList]
  | cons e todo ih =>
    intro done
    simp only [specList, List.mem_append, ih]
    constructor
    · rintro (h | ⟨l1, l2, ht, hk⟩)
      · by_cases hke : keptSpec cfg done e = true
        · simp only [hke, if_true, List.mem_singleton] at h
          subst h
          exact ⟨[], todo, rfl, by simpa using hke⟩
        · simp [hke] at h
      · exact ⟨e :: l1, l2, by simp [ht], by simpa using hk⟩
    · rintro ⟨l1, l2, ht, hk⟩
      cases l1 with
      | nil =>
        simp only [List.nil_append, List.cons.injEq] at ht
        left
        rw [← ht.1]
        simp only [List.append_nil] at hk
        rw [← ht.1] at hk
        simp [hk]
      | cons a l1 =>
        simp only [List.cons_append, List.cons.injEq] at ht
        right
        refine ⟨l1, l2, ht.2, ?_⟩
        rw [ht.1]; simpa using hk

theorem specList_sublist (cfg : FilterCfg) :
    ∀ (todo done : List Entry), (specList cfg done todo).Sublist todo := by
  intro todo
  induction todo with
  | nil => intro done; simp [specList]
  | cons e todo ih =>
    intro done
    simp only [specList]
    split
    · exact (ih _).cons_cons e
    · exact (ih _).cons e

/-! ### `ParentsFirst` is decidable (used for the non-vacuity examples) -/

def parentsFirstB : List Entry → Bool
  | [] => true
  | e :: rest => rest.all (fun a => !a.rel.isPrefixOf e.rel) && parentsFirstB rest

theorem parentsFirst_iff (scan : List Entry) : ParentsFirst scan ↔ parentsFirstB scan = true := by
  induction scan with
  | nil =>
    simp only [parentsFirstB, iff_true]
    intro l1 e l2 h; cases l1 <;> simp at h
  | cons x rest ih =>
    simp only [parentsFirstB, Bool.and_eq_true, List.all_eq_true, Bool.not_eq_true',
      ← ih]
    constructor
    · intro h
      refine ⟨fun a ha => ?_, fun l1 e l2 he a ha => ?_⟩
      · have := h [] x rest rfl a ha
        cases hb : a.rel.isPrefixOf x.rel
        · rfl
        · exact absurd (List.isPrefixOf_iff_prefix.mp hb) this
      · exact h (x :: l1) e l2 (by simp [he]) a ha
    · rintro ⟨h1, h2⟩ l1 e l2 he a ha
      cases l1 with
      | nil =>
        simp only [List.nil_append, List.cons.injEq] at he
        rw [← he.1]
        have := h1 a (he.2 ▸ ha)
        intro hp
        rw [List.isPrefixOf_iff_prefix.mpr hp] at this; cases this
      | cons y l1 =>
        simp only [List.cons_append, List.cons.injEq] at he
        exact h2 l1 e l2 he.2 a ha

instance (scan : List Entry) : Decidable (ParentsFirst scan) :=
  decidable_of_iff _ (parentsFirst_iff scan).symm

end SyModel.Filter
