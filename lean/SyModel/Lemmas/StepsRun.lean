/-
  SyModel.Lemmas.StepsRun — semaphore runs are interleavings; working files of completed runs.
-/
import SyModel.Lemmas.StepsTasks
set_option linter.unusedVariables false
namespace SyModel.Engine

/-! ### the semaphore scheduler only produces interleavings -/

theorem SemRun.interleaving {j : Nat} {c : List Slot} {σ : List Step} (h : SemRun j c σ) :
    Interleaving (c.map (·.rest)) σ := by
  induction h with
  | done h => exact .done (by intro l hl; obtain ⟨s, hs, rfl⟩ := List.mem_map.mp hl; exact h s hs)
  | acquire h1 h2 _ _ ih => subst h1; subst h2; simpa using ih
  | @exec c c' pre post l s σ h1 h2 _ ih =>
    subst h1; subst h2
    exact .pick (pre := pre.map (·.rest)) (post := post.map (·.rest)) (l := l) (by simp) rfl
      (by simpa using ih)

theorem initSlots_rests (ls : List (List Step)) : (initSlots ls).map (·.rest) = ls := by
  simp [initSlots, Function.comp_def]

theorem running_done_init (d : List Slot) (hd : ∀ s ∈ d, s.rest = []) (ls : List (List Step)) :
    running (d ++ initSlots ls) = 0 := by
  unfold running
  rw [List.length_eq_zero_iff, List.filter_eq_nil_iff]
  intro s hs
  rcases List.mem_append.mp hs with h | h
  · simp [hd s h]
  · simp only [initSlots, List.mem_map] at h
    obtain ⟨l, _, rfl⟩ := h
    simp

/-- every worker count `j ≥ 1` admits the task-by-task run (the scheduler model is not vacuous) -/
theorem sem_sequential {j : Nat} (hj : 1 ≤ j) (ls : List (List Step)) (d : List Slot)
    (hd : ∀ s ∈ d, s.rest = []) : SemRun j (d ++ initSlots ls) ls.flatten := by
  induction ls generalizing d with
  | nil => exact .done (by simpa [initSlots] using hd)
  | cons l ls ih =>
    have hrun : running (d ++ initSlots (l :: ls)) < j := by
      rw [running_done_init d hd]; omega
    refine .acquire (pre := d) (post := initSlots ls) (l := l) (by simp [initSlots]) rfl hrun ?_
    clear hrun
    induction l with
    | nil =>
      have := ih (d ++ [⟨true, []⟩]) (by
        intro s hs; rcases List.mem_append.mp hs with h | h
        · exact hd s h
        · simp at h; subst h; rfl)
      simpa using this
    | cons s l ihl =>
      exact .exec (pre := d) (post := initSlots ls) (l := l) rfl rfl (by simpa using ihl)

/-! ### working files -/

def Step.isCreateTemp : Step → Bool
  | .createTemp .. => true
  | _ => false

theorem nodeFn_no_new_temp (s : Step) (hs : s.isCreateTemp = false) (n : Option SNode)
    (hn : ∀ c, n ≠ some (.temp c)) : ∀ c, s.nodeFn n ≠ some (.temp c) := by
  intro c
  cases s <;> simp [Step.isCreateTemp] at hs <;> simp only [Step.nodeFn]
  all_goals (try exact hn c)
  all_goals (split <;> first | exact hn c | simp | skip)
  all_goals (try (split <;> simp))

/-- only `createTemp x` can put a working file at `x` -/
theorem apply_no_new_temp (s : Step) (x : Path) (hs : s.isCreateTemp = false ∨ s.touches x = false)
    (w : SWorld) (hw : ∀ c, w x ≠ some (.temp c)) : ∀ c, s.apply w x ≠ some (.temp c) := by
  rcases hs with hs | hs
  · by_cases hsg : s.single = true
    · rw [apply_single s hsg]
      intro c; rw [upd_apply]; split
      · rename_i hx; subst hx; exact nodeFn_no_new_temp s hs _ hw c
      · exact hw c
    · cases s <;> simp [Step.single] at hsg
      case rename q p cc sz mt =>
        intro c; rw [apply_rename]; split
        · simp only [upd_apply]; split
          · simp
          · split
            · simp
            · exact hw c
        · exact hw c
      case removeTree p =>
        intro c; rw [apply_removeTree]; simp only
        split
        · simp
        · exact hw c
  · rw [apply_frame s w x hs]; exact hw

theorem applyAll_no_new_temp (l : List Step) (x : Path)
    (hl : ∀ s ∈ l, s.isCreateTemp = false ∨ s.touches x = false)
    (w : SWorld) (hw : ∀ c, w x ≠ some (.temp c)) : ∀ c, applyAll l w x ≠ some (.temp c) := by
  induction l generalizing w with
  | nil => exact hw
  | cons s l ih =>
    exact ih (fun t ht => hl t (by simp [ht])) _ (apply_no_new_temp s x (hl s (by simp)) w hw)

theorem createTemp_at (q : Path) (c : Nat) (w : SWorld) :
    (Step.createTemp q c).apply w q = some .dir ∨ (Step.createTemp q c).apply w q = some (.temp c) := by
  rw [apply_single _ rfl]; simp only [Step.path, upd_same, Step.nodeFn]
  split <;> simp

/-- the temp + rename section leaves no working file at any path, whatever was there before
    (a left-over temp of an interrupted run is truncated, rewritten and renamed away) -/
theorem deltaSteps_no_temp (sfx : String) (p : Path) (m : FileMeta) (w : SWorld) (x : Path)
    (hw : x = tempOf sfx p ∨ ∀ c, w x ≠ some (.temp c)) :
    ∀ c, applyAll (deltaSteps sfx p m) w x ≠ some (.temp c) := by
  intro c
  simp only [deltaSteps, applyAll_cons, applyAll_nil]
  generalize hw1 : (Step.createTemp (tempOf sfx p) m.content).apply w = w1
  have hq := createTemp_at (tempOf sfx p) m.content w
  rw [hw1] at hq
  have hfr : ∀ y, y ≠ tempOf sfx p → w1 y = w y := by
    intro y hy; rw [← hw1]; exact apply_frame _ w y (by simp [Step.touches, hy])
  rw [apply_rename]
  by_cases hx : x = tempOf sfx p
  · subst hx
    split
    · simp
    · rename_i hne
      rcases hq with h | h
      · rw [h]; simp
      · exact absurd h hne
  · have hwx : ∀ c, w1 x ≠ some (.temp c) := by
      rw [hfr x hx]
      rcases hw with h | h
      · exact absurd h hx
      · exact h
    split
    · rw [upd_ne _ _ _ _ hx, upd_apply]; split
      · simp
      · exact hwx c
    · exact hwx c

/-- no `createTemp` in the list -/
def noCT (l : List Step) : Bool := l.all fun s => !s.isCreateTemp

@[simp] theorem noCT_nil : noCT [] = true := rfl
@[simp] theorem noCT_append (a b : List Step) : noCT (a ++ b) = (noCT a && noCT b) := by
  simp [noCT, List.all_append]
@[simp] theorem noCT_cons (s : Step) (l : List Step) : noCT (s :: l) = (!s.isCreateTemp && noCT l) := by
  simp [noCT]
@[simp] theorem noCT_mkdirChain (p : Path) : noCT (mkdirChain p) = true := by
  simp [noCT, mkdirChain, List.all_map, Step.isCreateTemp]
@[simp] theorem noCT_growSteps (p : Path) (c ch sz : Nat) : noCT (growSteps p c ch sz) = true := by
  simp [noCT, growSteps, List.all_map, Step.isCreateTemp]
@[simp] theorem noCT_fillSteps (p : Path) (c ch sz : Nat) : noCT (fillSteps p c ch sz) = true := by
  simp [noCT, fillSteps, List.all_map, Step.isCreateTemp]
@[simp] theorem noCT_writeSteps (p : Path) (m : FileMeta) (ch now : Nat) :
    noCT (writeSteps p m ch now) = true := by
  simp [writeSteps, Step.isCreateTemp]
@[simp] theorem noCT_fullCopySteps (p : Path) (m : FileMeta) (ch : Nat) (h : Hint) :
    noCT (fullCopySteps p m ch h) = true := by
  unfold fullCopySteps; split <;> simp [Step.isCreateTemp]
@[simp] theorem noCT_symlinkSteps (old : Option DNode) (p : Path) (text : String) :
    noCT (symlinkSteps old p text) = true := by
  unfold symlinkSteps; split <;> simp [Step.isCreateTemp]
@[simp] theorem noCT_dirSteps (p : Path) : noCT (dirSteps p) = true := by
  unfold dirSteps; split <;> simp [Step.isCreateTemp]

theorem noCT_mem {l : List Step} (h : noCT l = true) {s : Step} (hs : s ∈ l) : s.isCreateTemp = false := by
  unfold noCT at h
  rw [List.all_eq_true] at h
  simpa using h s hs

/-- does the task go through temp + rename? -/
def usesDelta (cfg : Cfg) (thr : Nat) (h : Hint) (old : Option DNode) (t : Task) : Bool :=
  !cfg.dryRun && t.act == .update &&
    match t.payload, old with
    | .file _ _, some (.file d) => h.route == .delta && !decide (d.size < thr)
    | _, _ => false

theorem stepsOfH_delta {cfg : Cfg} {thr ch : Nat} {sfx : String} {h : Hint} {old : Option DNode}
    {t : Task} (hu : usesDelta cfg thr h old t = true) :
    ∃ m n d, t.payload = .file m n ∧ t.act = .update ∧ old = some (.file d) ∧ thr ≤ d.size ∧
      stepsOfH cfg thr ch sfx h old t = [Step.unlinkIfSymlink t.rel] ++ deltaSteps sfx t.rel m := by
  unfold usesDelta at hu
  simp only [Bool.and_eq_true, Bool.not_eq_true', beq_iff_eq] at hu
  obtain ⟨⟨hdry, hact⟩, hm⟩ := hu
  split at hm
  · rename_i m n d hpay
    simp only [Bool.and_eq_true, beq_iff_eq, Bool.not_eq_true', decide_eq_false_iff_not, Nat.not_lt] at hm
    refine ⟨m, n, d, hpay, hact, rfl, hm.2, ?_⟩
    unfold stepsOfH
    simp only [hdry, hact, hpay, Bool.false_eq_true, ↓reduceIte, hm.1]
    rw [if_neg (by simp)]
    unfold updateSteps
    have : ¬ d.size < thr := by omega
    simp [this, hm.1]
  · cases hm

theorem stepsOfH_noCT {cfg : Cfg} {thr ch : Nat} {sfx : String} {h : Hint} {old : Option DNode}
    {t : Task} (hu : usesDelta cfg thr h old t = false) :
    noCT (stepsOfH cfg thr ch sfx h old t) = true := by
  unfold stepsOfH
  split
  · rfl
  rename_i hdry
  split
  · rfl
  · split <;> simp [Step.isCreateTemp]
  · split <;> simp
  · rename_i hact
    split
    · rfl
    · simp [Step.isCreateTemp]
    · simp
    · rename_i m n hpay
      split
      · simp
      · rename_i hroute
        simp only [List.cons_append, List.nil_append, noCT_cons, Step.isCreateTemp, Bool.not_false, Bool.true_and]
        unfold updateSteps
        split
        · rename_i d
          split
          · simp
          · rename_i hsz
            split
            · rename_i hr
              exfalso
              unfold usesDelta at hu
              simp [hdry, hact, hpay, hr] at hu
              simp at hsz
              omega
            · split <;> simp [Step.isCreateTemp]
            · simp [sparseSeekSteps, Step.isCreateTemp]
            · simp [sparseBlocksSteps, Step.isCreateTemp]
            · simp
        · simp

/-- a task's list is temp-free, or ends with the temp + rename section -/
theorem stepsOfH_shape {cfg : Cfg} {thr ch : Nat} {sfx : String} {h : Hint} {old : Option DNode}
    {t : Task} :
    (∀ s ∈ stepsOfH cfg thr ch sfx h old t, s.isCreateTemp = false) ∨
    (∃ m n, t.payload = .file m n ∧ t.act = .update ∧
      stepsOfH cfg thr ch sfx h old t = [Step.unlinkIfSymlink t.rel] ++ deltaSteps sfx t.rel m) := by
  cases hu : usesDelta cfg thr h old t with
  | false => exact Or.inl fun s hs => noCT_mem (stepsOfH_noCT hu) hs
  | true =>
    obtain ⟨m, n, d, h1, h2, _, _, h3⟩ := stepsOfH_delta (ch := ch) (sfx := sfx) hu
    exact Or.inr ⟨m, n, h1, h2, h3⟩


theorem mem_taskLists {cfg : Cfg} {thr ch : Nat} {sfx : String} {hint : Task → Hint} {dst : Map DNode}
    {tasks : List Task} {L : List Step} (h : L ∈ taskLists cfg thr ch sfx hint dst tasks) :
    ∃ t ∈ tasks, isLinkTask cfg t = false ∧
      L = stepsOfH cfg thr ch sfx (hint t) (dst.get? t.rel) t := by
  unfold taskLists at h
  obtain ⟨t, ht, rfl⟩ := List.mem_map.mp h
  rw [List.mem_filter] at ht
  exact ⟨t, ht.1, by simpa using ht.2, rfl⟩

/-- A completed run (every task ran all its steps, in any interleaving) leaves no working file:
    at every path that held none before — and also at the temp path of every task of this run that
    goes through temp + rename, whatever was there before. -/
theorem run_no_temp {cfg : Cfg} {thr ch : Nat} {sfx : String} {hint : Task → Hint} {dst : Map DNode}
    {tasks : List Task} (hind : PairwiseIndep (taskLists cfg thr ch sfx hint dst tasks))
    {σ : List Step} (hσ : Interleaving (taskLists cfg thr ch sfx hint dst tasks) σ) (w : SWorld)
    (x : Path)
    (hw : (∀ c, w x ≠ some (.temp c)) ∨
      ∃ t ∈ tasks, isLinkTask cfg t = false ∧ usesDelta cfg thr (hint t) (dst.get? t.rel) t = true ∧
        x = tempOf sfx t.rel) :
    ∀ c, applyAll σ w x ≠ some (.temp c) := by
  have hN := hσ.toShuffleN
  -- the list of the delta task named by the second alternative touches `x`
  have hdelta : ∀ t ∈ tasks, isLinkTask cfg t = false →
      usesDelta cfg thr (hint t) (dst.get? t.rel) t = true → x = tempOf sfx t.rel →
      ∃ L ∈ taskLists cfg thr ch sfx hint dst tasks, ∃ m,
        L = [Step.unlinkIfSymlink t.rel] ++ deltaSteps sfx t.rel m ∧
        Step.createTemp x m.content ∈ L := by
    intro t ht hl hu hx
    obtain ⟨m, n, d, _, _, _, _, hL⟩ := stepsOfH_delta (ch := ch) (sfx := sfx) hu
    refine ⟨_, ?_, m, hL, ?_⟩
    · unfold taskLists
      exact List.mem_map.mpr ⟨t, List.mem_filter.mpr ⟨ht, by simp [hl]⟩, rfl⟩
    · rw [hL, hx]; simp [deltaSteps]
  rcases touch_classes hind x with ⟨pre, L, post, hls, hothers⟩ | hM | hD
  · rw [hls] at hN hind
    rw [crash_owned hind hN x hothers]
    have hLmem : L ∈ taskLists cfg thr ch sfx hint dst tasks := by rw [hls]; simp
    obtain ⟨t', ht', _, hL'⟩ := mem_taskLists hLmem
    rcases hw with hw | ⟨t, ht, hl, hu, hx⟩
    · rcases stepsOfH_shape (cfg := cfg) (thr := thr) (ch := ch) (sfx := sfx) (h := hint t')
          (old := dst.get? t'.rel) (t := t') with hs | ⟨m, n, _, _, hs⟩
      · rw [hL']
        exact applyAll_no_new_temp _ x (fun s hs' => Or.inl (hs s hs')) w hw
      · rw [hL', hs, applyAll_append]
        apply deltaSteps_no_temp
        right
        exact applyAll_no_new_temp _ x (fun s hs' => by simp at hs'; subst hs'; exact Or.inl rfl) w hw
    · obtain ⟨Lt, hLt, m, hLt', hct⟩ := hdelta t ht hl hu hx
      have : Lt = L := by
        rw [hls] at hLt
        simp only [List.mem_append, List.mem_cons] at hLt
        rcases hLt with h | h | h
        · have := hothers Lt (by simp [h]) _ hct; simp [Step.touches] at this
        · exact h
        · have := hothers Lt (by simp [h]) _ hct; simp [Step.touches] at this
      rw [← this, hLt', applyAll_append]
      apply deltaSteps_no_temp
      exact Or.inl hx
  · -- every step touching x is `mkdir x`
    rcases hw with hw | ⟨t, ht, hl, hu, hx⟩
    · apply applyAll_no_new_temp _ x _ w hw
      intro s hs
      obtain ⟨l, hl, hsl⟩ := (hN.mem_iff s).mp hs
      cases htx : s.touches x with
      | false => exact Or.inr rfl
      | true => rw [hM l hl s hsl htx]; exact Or.inl rfl
    · obtain ⟨Lt, hLt, m, _, hct⟩ := hdelta t ht hl hu hx
      have := hM Lt hLt _ hct (by simp [Step.touches])
      cases this
  · rcases hw with hw | ⟨t, ht, hl, hu, hx⟩
    · apply applyAll_no_new_temp _ x _ w hw
      intro s hs
      obtain ⟨l, hl, hsl⟩ := (hN.mem_iff s).mp hs
      cases htx : s.touches x with
      | false => exact Or.inr rfl
      | true =>
        have := hD l hl s hsl htx
        cases s <;> simp [Step.isDeletion] at this <;> exact Or.inl rfl
    · obtain ⟨Lt, hLt, m, _, hct⟩ := hdelta t ht hl hu hx
      have := hD Lt hLt _ hct (by simp [Step.touches])
      simp [Step.isDeletion] at this


/-! ### temp paths belong to their task -/

/-- no other task of a well-laid-out plan touches the temp path of `t` -/
theorem temp_path_owned {cfg : Cfg} {thr ch : Nat} {sfx : String} {tasks : List Task} {w : SWorld}
    (hok : PlanOK tasks) (hf : TempFresh sfx tasks w) {t t' : Task} (ht : t ∈ tasks) (hm : t.mayDelta)
    (ht' : t' ∈ tasks) (hne : t'.rel ≠ t.rel) (hh : Hint) (o : Option DNode) :
    ∀ s ∈ stepsOfH cfg thr ch sfx hh o t', s.touches (tempOf sfx t.rel) = false := by
  intro s hs
  have hk : t'.act ≠ .skip := by intro h; rw [stepsOfH_skip h] at hs; simp at hs
  cases htx : s.touches (tempOf sfx t.rel) with
  | false => rfl
  | true =>
    exfalso
    rcases stepsOfH_class hs with ⟨q, rfl, hd, hq⟩ | ⟨hfoot, _, _⟩
    · simp only [Step.touches, beq_iff_eq] at htx
      have hp : isPrefix q t'.rel = true := by
        rcases hq with h | ⟨h, _⟩
        · exact ancestors_prefix h
        · rw [h]; exact isPrefix_refl _
      have := hf.notPlanned t ht hm t' ht'
      rw [htx, hp] at this; cases this
    · have hx1 : InFoot sfx t (tempOf sfx t.rel) := Or.inr (Or.inl ⟨rfl, hm⟩)
      have htk : t.act ≠ .skip := by rw [hm.1]; simp
      exact foot_disjoint hok hf ht' ht hne hk htk (fun h => by rw [hm.1] at h; cases h.2)
        (hfoot _ htx) hx1

/-- … and of `t`'s own steps only the temp + rename section does -/
theorem temp_path_self {cfg : Cfg} {thr ch : Nat} {sfx : String} {tasks : List Task} {w : SWorld}
    (hf : TempFresh sfx tasks w) {t : Task} (ht : t ∈ tasks) (hm : t.mayDelta) (hh : Hint)
    (o : Option DNode) (hu : usesDelta cfg thr hh o t = false) :
    ∀ s ∈ stepsOfH cfg thr ch sfx hh o t, s.touches (tempOf sfx t.rel) = false := by
  intro s hs
  have hself := hf.notPlanned t ht hm t ht
  have hne : tempOf sfx t.rel ≠ t.rel := by
    intro h; rw [h, isPrefix_refl] at hself; cases hself
  cases htx : s.touches (tempOf sfx t.rel) with
  | false => rfl
  | true =>
    exfalso
    have hct := noCT_mem (stepsOfH_noCT hu) hs
    rcases stepsOfH_class hs with ⟨q, rfl, hd, hq⟩ | ⟨hfoot, _, hdel⟩
    · simp only [Step.touches, beq_iff_eq] at htx
      have hp : isPrefix q t.rel = true := by
        rcases hq with h | ⟨h, _⟩
        · exact ancestors_prefix h
        · rw [h]; exact isPrefix_refl _
      rw [htx, hp] at hself; cases hself
    · -- inside the footprint at the temp path: only createTemp / rename touch it
      unfold stepsOfH at hs
      have hact := hm.1
      cases hpay : t.payload with
      | file m n =>
        simp only [hact, hpay] at hs
        split at hs
        · simp at hs
        · have hfc : ∀ {hh' : Hint}, s ∈ fullCopySteps t.rel m ch hh' → False := by
            intro hh' h
            rcases fullCopySteps_class h with ⟨q, hq, rfl⟩ | h
            · simp only [Step.touches, beq_iff_eq] at htx
              rw [htx, ancestors_prefix hq] at hself; cases hself
            · exact hne (h.touches htx)
          split at hs
          · exact hfc hs
          · simp only [List.mem_append, List.mem_cons, List.not_mem_nil, or_false] at hs
            rcases hs with rfl | hs
            · simp only [Step.touches, beq_iff_eq] at htx; exact hne htx
            · rcases updateSteps_class hs with ⟨q, hq, rfl⟩ | h | ⟨h, _, _⟩
              · simp only [Step.touches, beq_iff_eq] at htx
                rw [htx, ancestors_prefix hq] at hself; cases hself
              · exact hne (h.touches htx)
              · -- a step of the delta section: createTemp (excluded) or rename
                unfold updateSteps at hs
                split at hs
                · split at hs
                  · exact hfc hs
                  · split at hs
                    · rename_i hdry _ _ _ _ d hsz _ hr
                      unfold usesDelta at hu
                      simp only [hact, hpay] at hu
                      simp [hdry, hr] at hu
                      simp at hsz
                      omega
                    · simp only [List.mem_append] at hs
                      rcases hs with hs | hs
                      · split at hs
                        · simp at hs; subst hs
                          simp only [Step.touches, beq_iff_eq] at htx; exact hne htx
                        · simp at hs
                      · exact hne ((writeSteps_at hs).touches htx)
                    · exact hne ((sparseSeekSteps_at hs).touches htx)
                    · exact hne ((sparseBlocksSteps_at hs).touches htx)
                    · exact hfc hs
                · exact hfc hs
      | dir => have := hm.2; simp [hpay, Payload.isFile] at this
      | symlink _ => have := hm.2; simp [hpay, Payload.isFile] at this
      | nothing => have := hm.2; simp [hpay, Payload.isFile] at this

/-- In a completed run the temp path of every task that may use one ends as it began: empty.
    (Working files are never mistaken for, nor left in place of, anything else.) -/
theorem temp_path_final_none {cfg : Cfg} {thr ch : Nat} {sfx : String} {hint : Task → Hint}
    {dst : Map DNode} {tasks : List Task} {w : SWorld} (hok : PlanOK tasks)
    (hf : TempFresh sfx tasks w) {σ : List Step}
    (hσ : Interleaving (taskLists cfg thr ch sfx hint dst tasks) σ) {t : Task} (ht : t ∈ tasks)
    (hm : t.mayDelta) : applyAll σ w (tempOf sfx t.rel) = none := by
  have hind := taskLists_indep (cfg := cfg) (thr := thr) (ch := ch) hok hf hint dst
  -- an update of a member of a source hard-link group (`-H`) is not in the free interleaving: then
  -- NO list touches its temp path
  by_cases hnl : isLinkTask cfg t = true
  · have hN := hσ.toShuffleN
    rw [applyAll_frame σ w _ ?_]
    · exact hf.notExisting t ht hm
    · intro s hs
      obtain ⟨L, hL, hsL⟩ := (hN.mem_iff s).mp hs
      obtain ⟨t', ht', hnl', rfl⟩ := mem_taskLists hL
      have hne : t'.rel ≠ t.rel := by
        have htt : t' ≠ t := by intro h; rw [h, hnl] at hnl'; cases hnl'
        obtain ⟨a, b, hab⟩ := List.append_of_mem ht
        have hu := hok.uniq
        rw [hab, List.pairwise_append] at hu
        obtain ⟨_, h2, h3⟩ := hu
        rw [hab] at ht'
        simp only [List.mem_append, List.mem_cons] at ht'
        rcases ht' with h | h | h
        · exact h3 t' h t (by simp)
        · exact absurd h htt
        · exact Ne.symm ((List.pairwise_cons.mp h2).1 t' h)
      exact temp_path_owned hok hf ht hm ht' hne _ _ s hsL
  have hnl : isLinkTask cfg t = false := by simpa using hnl
  have htf : t ∈ tasks.filter fun t => !isLinkTask cfg t := List.mem_filter.mpr ⟨ht, by simp [hnl]⟩
  obtain ⟨a, b, hab⟩ := List.append_of_mem htf
  have hls : taskLists cfg thr ch sfx hint dst tasks =
      a.map (fun t => stepsOfH cfg thr ch sfx (hint t) (dst.get? t.rel) t) ++
        stepsOfH cfg thr ch sfx (hint t) (dst.get? t.rel) t ::
        b.map (fun t => stepsOfH cfg thr ch sfx (hint t) (dst.get? t.rel) t) := by
    unfold taskLists; rw [hab]; simp
  have huniq : (a ++ t :: b).Pairwise (fun x y => x.rel ≠ y.rel) := by
    rw [← hab]; exact hok.uniq.filter _
  have hrel : ∀ t' ∈ a ++ b, t'.rel ≠ t.rel ∧ t' ∈ tasks := by
    intro t' ht'
    have hmem : t' ∈ tasks := by
      have : t' ∈ tasks.filter fun t => !isLinkTask cfg t := by
        rw [hab]; simp only [List.mem_append, List.mem_cons] at ht' ⊢
        rcases ht' with h | h
        · exact Or.inl h
        · exact Or.inr (Or.inr h)
      exact (List.mem_filter.mp this).1
    rw [List.pairwise_append] at huniq
    obtain ⟨_, h2, h3⟩ := huniq
    rcases List.mem_append.mp ht' with h | h
    · exact ⟨h3 t' h t (by simp), hmem⟩
    · exact ⟨Ne.symm ((List.pairwise_cons.mp h2).1 t' h), hmem⟩
  have hothers : ∀ l ∈ a.map (fun t => stepsOfH cfg thr ch sfx (hint t) (dst.get? t.rel) t) ++
      b.map (fun t => stepsOfH cfg thr ch sfx (hint t) (dst.get? t.rel) t),
      ∀ s ∈ l, s.touches (tempOf sfx t.rel) = false := by
    intro l hl
    rw [← List.map_append] at hl
    obtain ⟨t', ht', rfl⟩ := List.mem_map.mp hl
    obtain ⟨hne, hmem⟩ := hrel t' ht'
    exact temp_path_owned hok hf ht hm hmem hne _ _
  have hN := hσ.toShuffleN
  rw [hls] at hN hind
  rw [crash_owned hind hN _ hothers]
  have hw0 := hf.notExisting t ht hm
  cases hu : usesDelta cfg thr (hint t) (dst.get? t.rel) t with
  | false =>
    rw [applyAll_frame _ w _ (temp_path_self hf ht hm _ _ hu)]; exact hw0
  | true =>
    obtain ⟨m, n, d, _, _, _, _, hL⟩ := stepsOfH_delta (ch := ch) (sfx := sfx) hu
    have hself := hf.notPlanned t ht hm t ht
    have hne : tempOf sfx t.rel ≠ t.rel := by
      intro h; rw [h, isPrefix_refl] at hself; cases hself
    rw [hL]
    simp only [deltaSteps, List.cons_append, List.nil_append, applyAll_cons, applyAll_nil]
    have h1 : (Step.unlinkIfSymlink t.rel).apply w (tempOf sfx t.rel) = none := by
      rw [apply_frame _ w _ (by simp [Step.touches, hne])]; exact hw0
    generalize (Step.unlinkIfSymlink t.rel).apply w = w1 at h1
    have h2 : (Step.createTemp (tempOf sfx t.rel) m.content).apply w1 (tempOf sfx t.rel) =
        some (.temp m.content) := by
      rw [apply_single _ rfl]; simp [Step.path, Step.nodeFn, h1]
    rw [apply_rename, if_pos h2, upd_same]

end SyModel.Engine
