/-
  One sync, seen path by path: `sync_view` (repaired state update).
-/
import SyModel.Lemmas.BisyncExec
namespace SyModel.Bisync

/-! ### the repaired state update -/

def rowsOf (l r : Option File) (sd : Side) : Option Row :=
  match l, r with
  | some l, some r => some (match sd with | .source => l.meta | .dest => r.meta)
  | _, _ => none

theorem updRepaired_get (L R : Root) : ∀ (ps : List Path) (db : Db), ps.Nodup → ∀ q sd,
    aget (q, sd) (updateStateRepaired L R [] db ps) =
      if q ∈ ps then rowsOf (aget q L) (aget q R) sd else aget (q, sd) db := by
  intro ps
  induction ps with
  | nil => intro db _ q sd; simp [updateStateRepaired]
  | cons p t ih =>
    intro db hnd q sd
    obtain ⟨hp, ht⟩ := List.nodup_cons.mp hnd
    simp only [updateStateRepaired, List.not_mem_nil, if_false]
    rw [ih _ ht]
    by_cases hq : q ∈ t
    · simp [hq]
    · by_cases hqp : q = p
      · subst hqp
        simp only [hq, if_false, List.mem_cons, true_or, if_true]
        cases hl : aget q L <;> cases hr : aget q R <;> simp [rowsOf, aget_delete, aget_aset] <;>
          cases sd <;> simp
      · simp only [hq, if_false, List.mem_cons, hqp, false_or]
        cases hl : aget p L <;> cases hr : aget p R <;> simp [aget_delete, aget_aset, hqp]

/-! ### freshness -/

theorem nodupB_iff (l : List Path) : nodupB l = true ↔ l.Nodup := by
  induction l with
  | nil => simp [nodupB]
  | cons a t ih => simp [nodupB, ih, List.nodup_cons]

theorem conflictNames_eq (w : World) (stamp : Nat) :
    conflictNames w stamp = w.allPaths.flatMap (names stamp) := rfl

theorem Fresh.freshFor {w : World} {stamp : Nat} (h : Fresh w stamp) : FreshFor stamp w.allPaths := by
  unfold Fresh freshB at h
  rw [Bool.and_eq_true, nodupB_iff, List.all_eq_true] at h
  refine ⟨nodup_allPaths w, ?_, ?_⟩
  · rw [← conflictNames_eq]; exact h.1
  · intro q hq
    have := h.2 q (by rw [conflictNames_eq]; exact hq)
    simpa using this

/-! ### every chosen action can be executed -/

theorem action_enabled {cfg strat stamp p} {v : View} {a : Action}
    (h : v.action cfg strat stamp p = some a) : enabled a v.l v.r = true := by
  obtain ⟨l, r, rl, rr⟩ := v
  unfold View.action View.ctype at h
  cases l <;> cases r <;> cases rl <;> cases rr <;>
    simp only [classifySingle, Option.map, Option.getD, File.entry, Bool.or_false, Bool.false_eq_true,
      if_false] at h <;>
    (repeat' split at h) <;>
    simp only [Option.bind, resolveOne, Option.map, reduceCtorEq] at h <;>
    (try cases h) <;>
    (try (cases strat <;>
      simp only [resolveConflict, resolveByMtime, resolveBySize] <;>
      (repeat' split) <;> rfl)) <;>
    rfl

/-! ### one sync, path by path -/

def View.empty : View := ⟨none, none, none, none⟩

/-- the chosen action of a path. -/
def World.act (cfg : Cfg) (strat : Strategy) (stamp : Nat) (w : World) (p : Path) : Option Action :=
  (w.view p).action cfg strat stamp p

def stepView (cfg : Cfg) (strat : Strategy) (stamp now : Nat) (p : Path) (v : View) : View :=
  let o := own now (v.action cfg strat stamp p) v.l v.r
  ⟨o.1, o.2, rowsOf o.1 o.2 .source, rowsOf o.1 o.2 .dest⟩

theorem view_of_not_mem (w : World) (q : Path) (h : q ∉ w.allPaths) : w.view q = View.empty := by
  rw [mem_allPaths] at h
  simp only [not_or, ne_eq, Decidable.not_not] at h
  simp [World.view, View.empty, h.1, h.2.1, h.2.2.1, h.2.2.2]

structure SyncSpec (cfg : Cfg) (strat : Strategy) (stamp : Nat) (w w' : World) : Prop where
  own : ∀ p ∈ w.allPaths, w'.view p = stepView cfg strat stamp w.clock p (w.view p)
  nameS : ∀ p ∈ w.allPaths, w'.view (conflictName p stamp .source) =
    ⟨if isRen (w.act cfg strat stamp p) = true then (w.view p).l else none, none, none, none⟩
  nameD : ∀ p ∈ w.allPaths, w'.view (conflictName p stamp .dest) =
    ⟨none, if isRen (w.act cfg strat stamp p) = true then (w.view p).r else none, none, none⟩
  other : ∀ q, q ∉ w.allPaths → q ∉ conflictNames w stamp → w'.view q = View.empty
  clock : w'.clock = w.clock + 1

theorem sync_spec (cfg : Cfg) (hfix : cfg.fixState = true) (strat : Strategy) (md stamp : Nat)
    (w : World) (hf : Fresh w stamp) (hnr : (sync cfg strat md stamp w).refused = false) :
    SyncSpec cfg strat stamp w (sync cfg strat md stamp w).world ∧
    (sync cfg strat md stamp w).errors = [] ∧
    (sync cfg strat md stamp w).actions = w.allPaths.filterMap (w.act cfg strat stamp) := by
  have hlim : deletionLimitExceeded (w.changes cfg) md = false := by
    cases h : deletionLimitExceeded (w.changes cfg) md
    · rfl
    · simp [sync, h] at hnr
  have hff := hf.freshFor
  have hg : GoodChoice stamp (w.act cfg strat stamp) := by
    intro p a ha
    refine ⟨action_path ha, ?_⟩
    intro p' s d st e; subst e; exact action_stamp ha
  have hacts : resolveChanges strat stamp (w.changes cfg) = w.allPaths.filterMap (w.act cfg strat stamp) :=
    actions_eq cfg strat stamp w
  -- the execution, on lookup functions
  let F0 : FS := (⟨w.left, w.right, []⟩ : ExecState).abs
  let st := execActions w.clock (resolveChanges strat stamp (w.changes cfg)) ⟨w.left, w.right, []⟩
  have habs : st.abs = runF w.clock (w.act cfg strat stamp) w.allPaths F0 := by
    show (execActions _ _ _).abs = _
    rw [abs_execActions, hacts]; rfl
  obtain ⟨hA, hB, hC, hD⟩ := runF_spec w.clock stamp (w.act cfg strat stamp) hg w.allPaths F0 hff
  have hF0L : ∀ q, F0.L q = (w.view q).l := fun _ => rfl
  have hF0R : ∀ q, F0.R q = (w.view q).r := fun _ => rfl
  have herr : st.errors = [] := by
    have : st.abs.errs = F0.errs := by
      rw [habs]; apply hD
      intro p _ a ha
      exact action_enabled ha
    exact this
  have hL : ∀ q, aget q st.left = (runF w.clock (w.act cfg strat stamp) w.allPaths F0).L q := by
    intro q; rw [← habs]; rfl
  have hR : ∀ q, aget q st.right = (runF w.clock (w.act cfg strat stamp) w.allPaths F0).R q := by
    intro q; rw [← habs]; rfl
  have hworld : (sync cfg strat md stamp w).world =
      { left := st.left, right := st.right,
        db := updateStateRepaired st.left st.right st.errors w.db w.allPaths, clock := w.clock + 1 } := by
    simp only [sync, hlim, hfix]; rfl
  have hdb : ∀ q sd, aget (q, sd) (sync cfg strat md stamp w).world.db =
      if q ∈ w.allPaths then rowsOf (aget q st.left) (aget q st.right) sd else aget (q, sd) w.db := by
    intro q sd
    rw [hworld, herr]
    exact updRepaired_get st.left st.right w.allPaths w.db (nodup_allPaths w) q sd
  have hnames_not_mem : ∀ p ∈ w.allPaths, ∀ sd, conflictName p stamp sd ∉ w.allPaths := by
    intro p hp sd
    apply hff.disj
    rw [List.mem_flatMap]; exact ⟨p, hp, by cases sd <;> simp [names]⟩
  refine ⟨⟨?_, ?_, ?_, ?_, ?_⟩, ?_, ?_⟩
  · intro p hp
    have hb := hB p hp
    rw [hF0L, hF0R] at hb
    have h1 : aget p st.left = (own w.clock (w.act cfg strat stamp p) (w.view p).l (w.view p).r).1 := by
      rw [hL, ← hb]
    have h2 : aget p st.right = (own w.clock (w.act cfg strat stamp p) (w.view p).l (w.view p).r).2 := by
      rw [hR, ← hb]
    show World.view _ p = _
    unfold World.view
    rw [hdb, hdb]
    simp only [hp, if_true]
    rw [hworld]
    simp only [h1, h2, stepView, World.act]
    rfl
  · intro p hp
    have hn := hnames_not_mem p hp .source
    have hv := view_of_not_mem w _ hn
    obtain ⟨c1, c2, _, _⟩ := hC p hp
    rw [hF0L, hF0L] at c1
    rw [hF0R] at c2
    rw [hv] at c1 c2
    show World.view _ _ = _
    unfold World.view
    rw [hdb, hdb]
    simp only [hn, if_false]
    have e1 : aget (conflictName p stamp .source, Side.source) w.db = none := by
      have := congrArg View.rl hv; exact this
    have e2 : aget (conflictName p stamp .source, Side.dest) w.db = none := by
      have := congrArg View.rr hv; exact this
    rw [hworld]
    simp only [hL, hR, c1, c2, e1, e2, View.empty]
    congr 1
    by_cases hr : isRen (w.act cfg strat stamp p) = true
    · cases hl : (w.view p).l <;> simp [hr] <;> exact hl.symm
    · simp [hr]
  · intro p hp
    have hn := hnames_not_mem p hp .dest
    have hv := view_of_not_mem w _ hn
    obtain ⟨_, _, c3, c4⟩ := hC p hp
    rw [hF0L] at c3
    rw [hF0R, hF0R, hF0L] at c4
    rw [hv] at c3 c4
    show World.view _ _ = _
    unfold World.view
    rw [hdb, hdb]
    simp only [hn, if_false]
    have e1 : aget (conflictName p stamp .dest, Side.source) w.db = none := by
      have := congrArg View.rl hv; exact this
    have e2 : aget (conflictName p stamp .dest, Side.dest) w.db = none := by
      have := congrArg View.rr hv; exact this
    rw [hworld]
    simp only [hL, hR, c3, c4, e1, e2, View.empty]
    congr 1
    by_cases hr : isRen (w.act cfg strat stamp p) = true
    · -- a rename is only chosen when both files exist
      have hen : ∃ a, w.act cfg strat stamp p = some a ∧ a.isRename = true := by
        unfold isRen at hr
        cases ha : w.act cfg strat stamp p with
        | none => simp [ha] at hr
        | some a => exact ⟨a, rfl, by simpa [ha] using hr⟩
      obtain ⟨a, ha, hren⟩ := hen
      have := action_enabled (v := w.view p) ha
      cases a <;> simp only [Action.isRename, Bool.false_eq_true] at hren
      simp only [enabled, Bool.and_eq_true] at this
      simp [hr, this.1, this.2]
      rfl
    · simp [hr]
  · intro q hq hqn
    have hv := view_of_not_mem w q hq
    rw [conflictNames_eq] at hqn
    obtain ⟨a1, a2⟩ := hA q hq hqn
    rw [hF0L] at a1
    rw [hF0R] at a2
    rw [hv] at a1 a2
    show World.view _ _ = _
    unfold World.view
    rw [hdb, hdb]
    simp only [hq, if_false]
    have e1 : aget (q, Side.source) w.db = none := congrArg View.rl hv
    have e2 : aget (q, Side.dest) w.db = none := congrArg View.rr hv
    rw [hworld]
    simp only [hL, hR, a1, a2, e1, e2, View.empty]
  · rw [hworld]
  · simp only [sync, hlim]; exact herr
  · simp only [sync, hlim]; exact hacts

end SyModel.Bisync
