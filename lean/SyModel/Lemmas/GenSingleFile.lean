/-
  Lemmas/GenSingleFile — vocabulary and helper lemmas for Props/GenSingleFile: the bridge for the TRANSLATED
  `SyncEngine::sync_single_file` (Generated/Code/SingleFile.lean, regenerated from src/sync/mod.rs on every run).

  Contents
    1. the pieces of a STRUCTURED PROGRAM `singleSpec` (probe → finish | transferStep → verifyPhase → finish) written
       with named record-valued helpers (`stats0`, `createStats`, `updateStats`, `verifyStats`, `entryOf`,
       `transferrerOf`, `verifierOf`, `wantsVerify`);
    2. `sync_single_file_eq_spec`: the generated do-block (join points, 17-field record updates) IS that program, as
       an equation between computations, for ANY `Ext W` — the long body is unfolded here ONCE;
    3. running the phases (`runM` of Lemmas/GenTransfer): forward lemmas (`probe_run`, `finish_run`, `verifyPhase_run`,
       `transferStep_run`) and inversion lemmas (`runM_bind_eq_ok`, `runM_bind_eq_error`, `spec_ok_inv`, …);
    4. `Shape`: what a returned `SyncStats` can look like.
-/
import SyModel.Generated.Code.SingleFile
import SyModel.Lemmas.GenTransfer
set_option linter.unusedVariables false
namespace SyModel.GenSingleFile
open SyModel.Generated SyModel.Generated.SingleFile
open SyModel.Lemmas.GenTransfer (runM runM_bind runM_bind_ok runM_bind_error runM_pure runM_throw)

section
variable {W : Type}

/-! ## 1. the structured program -/

def stats0 : SyncStats :=
  { files_scanned := 1, files_created := 0, files_updated := 0, files_skipped := 0, files_deleted := 0,
    bytes_transferred := 0, files_delta_synced := 0, delta_bytes_saved := 0, files_compressed := 0,
    compression_bytes_saved := 0, files_verified := 0, verification_failures := 0, duration := Rs.DURATION_ZERO,
    bytes_would_add := 0, bytes_would_change := 0, bytes_would_delete := 0, errors := [] }

def compressionPart (st : SyncStats) (r : TransferResult) : SyncStats :=
  if r.compression_used then
    match r.transferred_bytes with
    | some t => { st with files_compressed := 1, compression_bytes_saved := r.bytes_written - t }
    | none => { st with files_compressed := 1 }
  else st

def deltaPart (st : SyncStats) (r : TransferResult) : SyncStats :=
  if r.delta_operations.isSome then
    match r.literal_bytes with
    | some l => { st with files_delta_synced := 1, delta_bytes_saved := r.bytes_written - l }
    | none => { st with files_delta_synced := 1 }
  else st

def createStats (r : Option TransferResult) : SyncStats :=
  match r with
  | some r => { compressionPart { stats0 with bytes_transferred := r.bytes_written } r with files_created := 1 }
  | none => { stats0 with files_created := 1 }

def updateStats (r : Option TransferResult) : SyncStats :=
  match r with
  | some r => { compressionPart (deltaPart { stats0 with bytes_transferred := r.bytes_written } r) r with files_updated := 1 }
  | none => { stats0 with files_updated := 1 }

def verifyStats (st : SyncStats) (v : Except Rs.Err Bool) : SyncStats :=
  match v with
  | .ok true => { st with files_verified := 1 }
  | _ => { st with verification_failures := 1 }

def wantsVerify (self : SyncEngine) : Bool := self.verification_mode != ChecksumType.None && !self.dry_run
def verifierOf (self : SyncEngine) : IntegrityVerifier := ⟨self.verification_mode, self.verify_on_write⟩
def transferrerOf (self : SyncEngine) : Transferrer :=
  ⟨self.transport, self.dry_run, self.diff_mode, self.symlink_mode, self.preserve_xattrs, self.preserve_hardlinks,
    self.preserve_acls, self.preserve_flags, []⟩
def entryOf (s : Rs.Path) (filename : Rs.Str) (md : Rs.Metadata) : FileEntry :=
  { path := s, relative_path := filename, size := md.size, modified := md.mtime, is_dir := false, is_symlink := false,
    symlink_target := none, is_sparse := false, allocated_size := md.size, xattrs := none, inode := none, nlink := 1,
    acls := none, bsd_flags := none }

def finish (ext : Ext W) (start : Rs.Opaque) (st : SyncStats) : Rs.M W SyncStats := do
  let el ← ext.instant_elapsed start
  pure { st with duration := el }

def verifyPhase (ext : Ext W) (self : SyncEngine) (s d : Rs.Path) (st : SyncStats) : Rs.M W SyncStats :=
  if wantsVerify self then do
    let v ← Rs.capture (ext.verify_transfer (verifierOf self) s d)
    pure (verifyStats st v)
  else pure st

def transferStep (ext : Ext W) (self : SyncEngine) (s d : Rs.Path) : Rs.M W SyncStats := do
  let dest_exists ← ext.t_exists self.transport d
  let md ← ext.path_metadata s
  let filename ← Rs.liftE (Rs.ok_or_else (Rs.path_file_name s) (fun _ => Rs.Err.io))
  if dest_exists then do
    let r ← ext.transferrer_update (transferrerOf self) (entryOf s filename md) d
    pure (updateStats r)
  else do
    let r ← ext.transferrer_create (transferrerOf self) (entryOf s filename md) d
    pure (createStats r)

def transferPhase (ext : Ext W) (self : SyncEngine) (s d : Rs.Path) (start : Rs.Opaque) : Rs.M W SyncStats := do
  let st ← transferStep ext self s d
  let st ← verifyPhase ext self s d st
  finish ext start st

def probe (ext : Ext W) (self : SyncEngine) (s : Rs.Path) : Rs.M W (Rs.Opaque × Bool) := do
  let start ← ext.std_time_Instant_now ()
  match Rs.path_file_name s with
  | some name => do
    let md ← ext.path_metadata s
    let ex ← ext.should_exclude self name false
    pure (start, ex || self.should_filter_by_size md.size)
  | none => pure (start, false)

def singleSpec (ext : Ext W) (self : SyncEngine) (s d : Rs.Path) : Rs.M W SyncStats := do
  let p ← probe ext self s
  if p.2 then finish ext p.1 stats0 else transferPhase ext self s d p.1

/-! ## 2. the generated function is the structured program -/

theorem liftE_modified (md : Rs.Metadata) : (Rs.liftE (Rs.modified md) : Rs.M W _) = pure md.mtime := rfl
theorem liftE_ok_or_else_some {α : Type} (v : α) (f : Unit → Rs.Err) :
    (Rs.liftE (Rs.ok_or_else (some v) f) : Rs.M W _) = pure v := rfl

theorem sync_single_file_eq_spec (ext : Ext W) (self : SyncEngine) (s d : Rs.Path) :
    SyncEngine.sync_single_file ext self s d = singleSpec ext self s d := by
  unfold SyncEngine.sync_single_file singleSpec probe transferPhase transferStep verifyPhase finish
  simp only [bind_assoc]
  refine bind_congr fun start => ?_
  cases hn : Rs.path_file_name s with
  | none =>
    simp only [pure_bind, Bool.false_eq_true, if_false]
    refine bind_congr fun ex => ?_
    cases ex <;> simp only [Bool.not_false, Bool.not_true, Bool.false_eq_true, if_true, if_false] <;>
      refine bind_congr fun md => ?_ <;> rfl
  | some name =>
    simp only [pure_bind, bind_assoc]
    refine bind_congr fun md0 => ?_
    refine bind_congr fun ex => ?_
    cases hf : (ex || self.should_filter_by_size (Rs.len md0))
    · have hf' : (ex || self.should_filter_by_size md0.size) = false := hf
      simp only [Bool.false_eq_true, if_false]
      refine bind_congr fun de => ?_
      cases de <;> simp only [Bool.not_false, Bool.not_true, Bool.false_eq_true, if_true, if_false] <;>
        refine bind_congr fun md => ?_
      all_goals
        simp only [liftE_modified, liftE_ok_or_else_some, pure_bind, bind_assoc]
        refine bind_congr fun r => ?_
        have hw : wantsVerify self = (self.verification_mode != ChecksumType.None && !self.dry_run) := rfl
        rcases r with _ | ⟨bw, dops, lit, tb, cu⟩
        · cases hv : wantsVerify self <;> rw [hw] at hv <;> simp only [hv, Bool.false_eq_true, if_true, if_false]
          · rfl
          · rw [bind_assoc]
            refine bind_congr fun v => ?_
            rcases v with e | (_ | _) <;> rfl
        · cases dops <;> cases lit <;> cases cu <;> cases tb <;>
            simp only [TransferResult.used_delta, Rs.is_some, Option.isSome, Bool.false_eq_true, if_true, if_false] <;>
            cases hv : wantsVerify self <;> rw [hw] at hv <;>
            simp only [hv, Bool.false_eq_true, if_true, if_false] <;>
            first
              | rfl
              | (rw [bind_assoc]
                 refine bind_congr fun v => ?_
                 rcases v with e | (_ | _) <;> rfl)
    · have hf' : (ex || self.should_filter_by_size md0.size) = true := hf
      simp only [if_true]
      rfl


/-! ## 3. running the phases -/

theorem runM_capture {α : Type} (x : Rs.M W α) (w : W) :
    runM (Rs.capture x) w = (.ok (runM x w).1, (runM x w).2) := rfl

theorem runM_bind_eq_ok {α β : Type} {x : Rs.M W α} {f : α → Rs.M W β} {w wf : W} {b : β}
    (h : runM (x >>= f) w = (.ok b, wf)) : ∃ a w', runM x w = (.ok a, w') ∧ runM (f a) w' = (.ok b, wf) := by
  rw [runM_bind] at h
  rcases hx : runM x w with ⟨_ | a, w'⟩ <;> rw [hx] at h
  · cases h
  · exact ⟨a, w', rfl, h⟩

theorem runM_bind_eq_error {α β : Type} {x : Rs.M W α} {f : α → Rs.M W β} {w wf : W} {e : Rs.Err}
    (h : runM (x >>= f) w = (.error e, wf)) :
    runM x w = (.error e, wf) ∨ ∃ a w', runM x w = (.ok a, w') ∧ runM (f a) w' = (.error e, wf) := by
  rw [runM_bind] at h
  rcases hx : runM x w with ⟨e' | a, w'⟩ <;> rw [hx] at h
  · exact .inl (by dsimp only at h; cases h; rfl)
  · exact .inr ⟨a, w', rfl, h⟩

/-- `stats.duration = start_time.elapsed(); Ok(stats)` -/
theorem finish_run (ext : Ext W) (t : Rs.Opaque) (st : SyncStats) (w : W) :
    runM (finish ext t st) w = match runM (ext.instant_elapsed t) w with
      | (.ok el, w') => (.ok { st with duration := el }, w')
      | (.error e, w') => (.error e, w') := by
  unfold finish
  rw [runM_bind]
  rcases runM (ext.instant_elapsed t) w with ⟨_ | _, _⟩ <;> rfl

/-- the verification phase never fails: the `Result` of `verify_transfer` is kept as a value -/
theorem verifyPhase_run (ext : Ext W) (self : SyncEngine) (s d : Rs.Path) (st : SyncStats) (w : W) :
    runM (verifyPhase ext self s d st) w =
      if wantsVerify self = true then
        (.ok (verifyStats st (runM (ext.verify_transfer (verifierOf self) s d) w).1),
          (runM (ext.verify_transfer (verifierOf self) s d) w).2)
      else (.ok st, w) := by
  unfold verifyPhase
  split
  · rw [runM_bind, runM_capture]; rfl
  · rfl

/-- the probe: clock, then (for a path with a file name) `metadata` and `should_exclude(name, false)` -/
theorem probe_run (ext : Ext W) (self : SyncEngine) (s : Rs.Path) {w w1 w2 w3 : W} {t : Rs.Opaque} {name : Rs.Str}
    {md : Rs.Metadata} {ex : Bool}
    (hnow : runM (ext.std_time_Instant_now ()) w = (.ok t, w1))
    (hn : Rs.path_file_name s = some name)
    (hmd : runM (ext.path_metadata s) w1 = (.ok md, w2))
    (hex : runM (ext.should_exclude self name false) w2 = (.ok ex, w3)) :
    runM (probe ext self s) w = (.ok (t, ex || self.should_filter_by_size md.size), w3) := by
  unfold probe
  rw [runM_bind_ok hnow]
  simp only [hn]
  rw [runM_bind_ok hmd, runM_bind_ok hex]
  rfl

theorem probe_run_noname (ext : Ext W) (self : SyncEngine) (s : Rs.Path) {w w1 : W} {t : Rs.Opaque}
    (hnow : runM (ext.std_time_Instant_now ()) w = (.ok t, w1))
    (hn : Rs.path_file_name s = none) :
    runM (probe ext self s) w = (.ok (t, false), w1) := by
  unfold probe
  rw [runM_bind_ok hnow]
  simp only [hn]
  rfl

/-- a successful probe, taken apart -/
theorem probe_ok_inv (ext : Ext W) (self : SyncEngine) (s : Rs.Path) {w wf : W} {t : Rs.Opaque} {flt : Bool}
    (h : runM (probe ext self s) w = (.ok (t, flt), wf)) :
    ∃ w1, runM (ext.std_time_Instant_now ()) w = (.ok t, w1) ∧
      ((Rs.path_file_name s = none ∧ flt = false ∧ wf = w1) ∨
       ∃ name md w2 ex, Rs.path_file_name s = some name ∧ runM (ext.path_metadata s) w1 = (.ok md, w2) ∧
         runM (ext.should_exclude self name false) w2 = (.ok ex, wf) ∧
         flt = (ex || self.should_filter_by_size md.size)) := by
  unfold probe at h
  obtain ⟨t', w1, hnow, h⟩ := runM_bind_eq_ok h
  cases hn : Rs.path_file_name s with
  | none =>
    simp only [hn] at h
    cases h
    exact ⟨_, hnow, .inl ⟨rfl, rfl, rfl⟩⟩
  | some name =>
    simp only [hn] at h
    obtain ⟨md, w2, hmd, h⟩ := runM_bind_eq_ok h
    obtain ⟨ex, w3, hex, h⟩ := runM_bind_eq_ok h
    cases h
    exact ⟨w1, hnow, .inr ⟨name, md, w2, ex, rfl, hmd, hex, rfl⟩⟩

/-- the transfer step after `exists`, the second `metadata` and the file name are known -/
theorem transferStep_run (ext : Ext W) (self : SyncEngine) (s d : Rs.Path) {w w1 w2 : W} {de : Bool}
    {md : Rs.Metadata} {name : Rs.Str}
    (hde : runM (ext.t_exists self.transport d) w = (.ok de, w1))
    (hmd : runM (ext.path_metadata s) w1 = (.ok md, w2))
    (hn : Rs.path_file_name s = some name) :
    runM (transferStep ext self s d) w =
      if de = true then
        runM (ext.transferrer_update (transferrerOf self) (entryOf s name md) d >>= fun r => pure (updateStats r)) w2
      else
        runM (ext.transferrer_create (transferrerOf self) (entryOf s name md) d >>= fun r => pure (createStats r)) w2 := by
  unfold transferStep
  rw [runM_bind_ok hde, runM_bind_ok hmd, hn, liftE_ok_or_else_some, pure_bind]
  cases de <;> rfl

/-- a successful transfer step, taken apart: ONE call of `update` (destination exists) or of `create` -/
theorem transferStep_ok_inv (ext : Ext W) (self : SyncEngine) (s d : Rs.Path) {w wf : W} {base : SyncStats}
    (h : runM (transferStep ext self s d) w = (.ok base, wf)) :
    ∃ de w1 md w2 name, runM (ext.t_exists self.transport d) w = (.ok de, w1) ∧
      runM (ext.path_metadata s) w1 = (.ok md, w2) ∧ Rs.path_file_name s = some name ∧
      ((de = true ∧ ∃ r, runM (ext.transferrer_update (transferrerOf self) (entryOf s name md) d) w2 = (.ok r, wf) ∧
          base = updateStats r) ∨
       (de = false ∧ ∃ r, runM (ext.transferrer_create (transferrerOf self) (entryOf s name md) d) w2 = (.ok r, wf) ∧
          base = createStats r)) := by
  unfold transferStep at h
  obtain ⟨de, w1, hde, h⟩ := runM_bind_eq_ok h
  obtain ⟨md, w2, hmd, h⟩ := runM_bind_eq_ok h
  cases hn : Rs.path_file_name s with
  | none =>
    rw [hn] at h
    obtain ⟨_, _, h', _⟩ := runM_bind_eq_ok h
    cases h'
  | some name =>
    rw [hn, liftE_ok_or_else_some, pure_bind] at h
    refine ⟨de, w1, md, w2, name, hde, hmd, rfl, ?_⟩
    cases de
    · simp only [Bool.false_eq_true, if_false] at h
      obtain ⟨r, w3, hr, h⟩ := runM_bind_eq_ok h
      cases h
      exact .inr ⟨rfl, r, hr, rfl⟩
    · simp only [if_true] at h
      obtain ⟨r, w3, hr, h⟩ := runM_bind_eq_ok h
      cases h
      exact .inl ⟨rfl, r, hr, rfl⟩

/-- a successful run of the whole program, taken apart -/
theorem spec_ok_inv (ext : Ext W) (self : SyncEngine) (s d : Rs.Path) {w wf : W} {st : SyncStats}
    (h : runM (singleSpec ext self s d) w = (.ok st, wf)) :
    ∃ t flt w1, runM (probe ext self s) w = (.ok (t, flt), w1) ∧
      ((flt = true ∧ ∃ el, runM (ext.instant_elapsed t) w1 = (.ok el, wf) ∧ st = { stats0 with duration := el }) ∨
       (flt = false ∧ ∃ base w2 el, runM (transferStep ext self s d) w1 = (.ok base, w2) ∧
          runM (ext.instant_elapsed t) (runM (verifyPhase ext self s d base) w2).2 = (.ok el, wf) ∧
          ∃ st', (runM (verifyPhase ext self s d base) w2).1 = .ok st' ∧ st = { st' with duration := el })) := by
  unfold singleSpec at h
  obtain ⟨⟨t, flt⟩, w1, hp, h⟩ := runM_bind_eq_ok h
  refine ⟨t, flt, w1, hp, ?_⟩
  cases flt
  · simp only [Bool.false_eq_true, if_false] at h
    unfold transferPhase at h
    obtain ⟨base, w2, hb, h⟩ := runM_bind_eq_ok h
    obtain ⟨st', w3, hv, h⟩ := runM_bind_eq_ok h
    rw [finish_run] at h
    rcases hel : runM (ext.instant_elapsed t) w3 with ⟨_ | el, w4⟩ <;> rw [hel] at h
    · cases h
    · cases h
      refine .inr ⟨rfl, base, w2, el, hb, ?_, st', ?_, rfl⟩
      · rw [hv]; exact hel
      · rw [hv]
  · simp only [if_true] at h
    rw [finish_run] at h
    rcases hel : runM (ext.instant_elapsed t) w1 with ⟨_ | el, w4⟩ <;> rw [hel] at h
    · cases h
    · cases h
      exact .inl ⟨rfl, el, rfl, rfl⟩

/-! ## 4. computations that leave the world alone -/

/-- the computation never changes the world, whatever it returns -/
def Quiet {α : Type} (x : Rs.M W α) : Prop := ∀ w, (runM x w).2 = w

theorem Quiet.pure {α : Type} (a : α) : Quiet (pure a : Rs.M W α) := fun _ => rfl
theorem Quiet.bind {α β : Type} {x : Rs.M W α} {f : α → Rs.M W β} (hx : Quiet x) (hf : ∀ a, Quiet (f a)) :
    Quiet (x >>= f) := by
  intro w
  rw [runM_bind]
  have := hx w
  rcases hr : runM x w with ⟨_ | a, w'⟩ <;> rw [hr] at this <;> simp only at this ⊢
  · exact this
  · subst this; exact hf a _
theorem Quiet.ite {α : Type} {c : Prop} [Decidable c] {x y : Rs.M W α} (hx : Quiet x) (hy : Quiet y) :
    Quiet (if c then x else y) := by split <;> assumption
theorem Quiet.capture {α : Type} {x : Rs.M W α} (hx : Quiet x) : Quiet (Rs.capture x) := fun w => hx w
theorem Quiet.liftE {α : Type} (e : Except Rs.Err α) : Quiet (Rs.liftE e : Rs.M W α) := by
  intro w; cases e <;> rfl

end
end SyModel.GenSingleFile
