/-
  Lemmas.GenLocalCopyFault — the temp+rename (in-place rebuild) route of the translated `sync_file_with_delta` under an
  UNKNOWN fault countdown: verification conditions are generated with `wp` (Lemmas/GenLocalCopyWp.lean); every failure
  leaf is closed by `fail_exit` (a world that satisfies `Frame` leaves, after `scope_exit`, exactly the name space and the
  inodes the call started with), the block loop by the world invariant `LoopInv`.
-/
import SyModel.Lemmas.GenLocalCopyWp
set_option autoImplicit false
set_option linter.unusedSimpArgs false
set_option linter.unusedVariables false
namespace SyModel.LocalCopy
open SyModel SyModel.Generated SyModel.Generated.LocalCopy SyModel.Transfer

/-- what every world DURING the route (before the rename) has in common with the world `w` the call started in:
    all names except the working-file path, all inodes that existed; the working-file path is free or names a NEW inode;
    the guard for it is armed (or it was never created and the path is free) -/
structure Frame (w : LWorld) (tmp : Rs.Path) (W : LWorld) : Prop where
  names : ∀ p, p ≠ tmp → W.names p = w.names p
  inodes : ∀ i, i < w.nextIno → W.inodes i = w.inodes i
  tmpn : W.names tmp = none ∨ ∃ j, w.nextIno ≤ j ∧ W.names tmp = some (.file j)
  guards : W.guards = [tmp] ∨ (W.guards = [] ∧ W.names tmp = none)

/-- the state after a FAILED call: every name refers to what it referred to before (in particular the destination to its
    OLD inode, the working-file path to nothing), every inode that existed is unchanged (bytes, mtime, xattrs, link
    count), no guard is left armed, and the injected fault has been used up (the failure is the injected one) -/
structure FailPost (w W' : LWorld) : Prop where
  names : ∀ p, W'.names p = w.names p
  inodes : ∀ i, i < w.nextIno → W'.inodes i = w.inodes i
  guards : W'.guards = []
  spent : W'.fault = none

theorem exitW_nil (W : LWorld) (h : W.guards = []) : exitW W = W := by
  rcases W with ⟨nm, ino, ni, hs, nh, g, l, now, F⟩
  simp only at h; subst h; rfl

theorem exitW_one (W : LWorld) (p : Rs.Path) (h : W.guards = [p]) : exitW W = dropGuard { W with guards := [] } p := by
  unfold exitW; rw [h]; rfl

/-- **the RAII guard**: from a world of the route in which no fault is pending any more, `scope_exit` leads to `FailPost` -/
theorem fail_exit (w W : LWorld) (tmp : Rs.Path) (hfree : w.names tmp = none) (hF : Frame w tmp W) (hnf : W.fault = none) :
    FailPost w (exitW W) := by
  obtain ⟨hn, hi, ht, hg⟩ := hF
  rcases hg with hg | ⟨hg, ht0⟩
  · rw [exitW_one W tmp hg]
    rcases ht with ht | ⟨j, hj, ht⟩
    · have hst : ({ W with guards := [] } : LWorld).stat tmp = none := stat_of_none _ _ ht
      simp only [dropGuard, hst, Option.isSome_none, Bool.false_eq_true, if_false]
      refine ⟨?_, hi, rfl, hnf⟩
      intro p; by_cases hp : p = tmp
      · subst hp; simp [ht, hfree]
      · exact hn p hp
    · have hst : ({ W with guards := [] } : LWorld).stat tmp = some (.file j) := stat_of_file _ _ j ht
      simp only [dropGuard, hst, Option.isSome_some, if_true]
      rw [prim_nf _ _ (by exact hnf)]
      simp only [removeFileAct, ht]
      refine ⟨?_, ?_, ?_, ?_⟩
      · intro p; by_cases hp : p = tmp
        · subst hp; simp [hfree]
        · simp [upd_ne, hp, hn p hp]
      · intro i hi'
        have hij : i ≠ j := by omega
        simp only [logOp_inodes]
        unfold LWorld.decLink
        split
        · simp [upd_ne, hij, hi i hi']
        · exact hi i hi'
      · simp
      · simp [hnf]
  · rw [exitW_nil W hg]
    refine ⟨?_, hi, hg, hnf⟩
    intro p; by_cases hp : p = tmp
    · subst hp; simp [ht0, hfree]
    · exact hn p hp

/-- the world invariant of the block loop: the frame, the armed guard, the working file (a new inode under the
    working-file path), the three descriptors, and a fault that is still pending -/
structure LoopInv (w : LWorld) (tmp : Rs.Path) (is id it hs hd ht : Nat) (W : LWorld) : Prop where
  frame : Frame w tmp W
  guards : W.guards = [tmp]
  tmpname : W.names tmp = some (.file it)
  itfresh : w.nextIno ≤ it
  hsrc : ∃ p, W.handles hs = some ⟨is, p, false⟩
  hdst : ∃ p, W.handles hd = some ⟨id, p, false⟩
  htmp : ∃ p, W.handles ht = some ⟨it, p, true⟩
  itn : ∃ n, W.inodes it = some n
  pending : W.fault ≠ none

/-- the state after a SUCCESSFUL call of the route: `dst` names the working file's inode `it`, the working-file path is
    free, all other names and all other old inodes are untouched, the old destination inode lost one link, no guard is
    armed — and the fault is STILL PENDING: it has not fired (so: if it fires, the call fails) -/
structure OkPost (w : LWorld) (dst tmp : Rs.Path) (id it : Nat) (W' : LWorld) : Prop where
  dstname : W'.names dst = some (.file it)
  tmpname : W'.names tmp = none
  names : ∀ p, p ≠ dst → p ≠ tmp → W'.names p = w.names p
  inodes : ∀ i, i < w.nextIno → i ≠ id → W'.inodes i = w.inodes i
  oldino : W'.inodes id = (w.inodes id).map (fun n => { n with nlink := n.nlink - 1 })
  guards : W'.guards = []
  pending : W'.fault ≠ none

/-- hypotheses of the fault theorems: as `UpdPre`, without any assumption about the fault, the working-file path free -/
structure UpdPreF (w : LWorld) (src dst : Rs.Path) (is id : Nat) (S D : Bytes) (ms md : Nat) (xs xd : List Rs.Str) (ls ld : Nat) : Prop where
  hsrc : w.names src = some (.file is)
  hisrc : w.inodes is = some ⟨ofU8 S, ms, xs, ls⟩
  hdst : w.names dst = some (.file id)
  hidst : w.inodes id = some ⟨ofU8 D, md, xd, ld⟩
  ne : is ≠ id
  hfree : w.names (dst ++ TEMP_SUFFIX) = none
  fresh : is < w.nextIno ∧ id < w.nextIno
  noguards : w.guards = []

/-- closes `Frame w tmp W` for a world `W` written as updates of `w` -/
macro "frame_tac" : tactic => `(tactic|
  (refine ⟨?_, ?_, ?_, ?_⟩
   · intro p hp; simp [upd_ne, hp]
   · intro i hi; simp [upd_ne, Nat.ne_of_lt hi]
   · first
     | (left; simp [*]; done)
     | (right; exact ⟨_, Nat.le_refl _, by simp⟩)
   · first
     | (left; rfl)
     | (right; simp [*]; done)))

set_option maxRecDepth 8000 in
theorem sync_inplace_wp_ratio_none (cfg : Cfg) (self : LocalTransport) (w : LWorld) (src dst : Rs.Path) (is id : Nat) (S D : Bytes)
    (ms md : Nat) (xs xd : List Rs.Str) (ls ld : Nat) (k : Nat) (h : UpdPreF w src dst is id S D ms md xs xd ls ld)
    (hF : w.fault = some (k + 7))
    (hbig : 10485760 ≤ D.length) (hsp : cfg.sparse = false) (hr : cfg.ratio = none)
    (hcow : (cfg.cow && cfg.sameFs && !decide (1 < ld)) = false) (hv : cfg.verifyOnWrite = false) :
    wp (LocalTransport.sync_file_with_delta (posix cfg) self src dst)
      (fun _ W' => OkPost w dst (dst ++ TEMP_SUFFIX) id w.nextIno W') (fun _ W' => FailPost w W') w := by
  obtain ⟨hsrc, hisrc, hdst, hidst, hne, hfree, hfresh, hng⟩ := h
  have hts : dst ++ TEMP_SUFFIX ≠ src := by intro e; rw [e, hsrc] at hfree; cases hfree
  have htd : dst ++ TEMP_SUFFIX ≠ dst := by intro e; rw [e, hdst] at hfree; cases hfree
  have hg1 : ¬ (List.length D < 10485760) := by omega
  have hg2 : ¬ (List.length D < 4096) := by omega
  have hhl : hasHardLinks w dst = decide (1 < ld) := by simp [hasHardLinks, inoOf_of_file w dst id hdst, hidst]
  have hcow' : ¬ ((cfg.cow = true ∧ cfg.sameFs = true) ∧ ld ≤ 1) := by
    intro h; simp [h.1.1, h.1.2] at hcow; omega
  have hisne : is ≠ w.nextIno := by omega
  have hidne : id ≠ w.nextIno := by omega
  have hN1s : follow (upd w.names (dst ++ TEMP_SUFFIX) (some (Node.file w.nextIno))) LINK_FUEL src = some src :=
    follow_of_not_symlink _ _ _ (by intro t; simp [upd_ne, hts.symm, hsrc])
  have hN1d : follow (upd w.names (dst ++ TEMP_SUFFIX) (some (Node.file w.nextIno))) LINK_FUEL dst = some dst :=
    follow_of_not_symlink _ _ _ (by intro t; simp [upd_ne, htd.symm, hdst])
  have hN1t : follow (upd w.names (dst ++ TEMP_SUFFIX) (some (Node.file w.nextIno))) LINK_FUEL (dst ++ TEMP_SUFFIX) = some (dst ++ TEMP_SUFFIX) :=
    follow_of_not_symlink _ _ _ (by intro t; simp)
  unfold LocalTransport.sync_file_with_delta
  generalize hbs : (64 * 1024 : Nat) = bs
  simp only [wp_bind, wp_pure, wp_capture, wp_map, wp_ite, wp_prim, remove_if_symlink, LocalTransport.exists, LocalTransport.metadata,
    posix_tokio_fs_symlink_metadata, posix_try_exists, posix_tokio_fs_metadata, posix_remove_file,
    tick_fault, hF, dec_succ, lstatAct, tick_names, hdst, hidst, tick_inodes]
  simp [Rs.l_is_symlink, Rs.l_file_type, wp_pure, wp_bind, wp_capture, wp_prim, wp_map, hF, existsAct, stat_of_file w dst id hdst,
    Rs.unwrap_or, metadataAct, stat_of_file w src is hsrc, hisrc, hidst, Rs.len, ofU8_length, hg1, hg2, hsp, hr, hhl, hcow', hng,
    removeFileAct, hfree, fileCreateAct, createTrunc, follow_of_none w _ hfree, LWorld.newHandle, setLenAct, fileOpenAct, ooOpenAct,
    LWorld.inoOf, LWorld.stat, follow_of_file w src is hsrc, follow_of_file w dst id hdst, hsrc, hdst, upd_ne, hts, hts.symm, htd, htd.symm,
    Rs.oo_write, Rs.oo_new, Rs.bufreader_with_capacity, LWorld.logOp, hN1s, hN1d, hN1t, wp_has_hard_links, wp_guard_new, wp_guard_defuse,
    wp_scope_exit, wp_liftE_error, wp_liftE_ok]
  refine ⟨fun _ => ?l1, fun _ => ⟨fun _ => ?l2, fun _ => ⟨fun _ => ?l3, fun _ => ⟨fun _ => ?l4, fun _ => ⟨fun _ => ?l5, fun hpend => ?loop⟩⟩⟩⟩⟩
  case l1 => exact fail_exit w _ (dst ++ TEMP_SUFFIX) hfree (by frame_tac) rfl
  case l2 => exact fail_exit w _ (dst ++ TEMP_SUFFIX) hfree (by frame_tac) rfl
  case l3 => exact fail_exit w _ (dst ++ TEMP_SUFFIX) hfree (by frame_tac) rfl
  case l4 => exact fail_exit w _ (dst ++ TEMP_SUFFIX) hfree (by frame_tac) rfl
  case l5 => exact fail_exit w _ (dst ++ TEMP_SUFFIX) hfree (by frame_tac) rfl
  case loop =>
    obtain ⟨hs, hd, ht, hhs, hhd, hht, e1, e2, e3⟩ : ∃ hs hd ht, hs = w.nextHandle + 1 ∧ hd = w.nextHandle + 1 + 1 ∧
        ht = w.nextHandle + 1 + 1 + 1 ∧ hs ≠ hd ∧ hs ≠ ht ∧ hd ≠ ht := ⟨_, _, _, rfl, rfl, rfl, by omega, by omega, by omega⟩
    simp only [← hht]; simp only [← hhd]; simp only [← hhs]
    apply wp_forIn_list (LoopInv w (dst ++ TEMP_SUFFIX) is id w.nextIno hs hd ht)
    · refine ⟨by frame_tac, rfl, by simp, Nat.le_refl _, ⟨0, by simp [upd_ne, e1, e2, e3]⟩, ⟨0, by simp [upd_ne, e1, e2, e3]⟩, ⟨0, by simp⟩,
        ⟨⟨setLenN [] (List.length S), w.now, [], 1⟩, by simp⟩, by simp⟩
    · intro x b W hI
      obtain ⟨hfr, hg, htn, hitf, ⟨sp, hHs⟩, ⟨dp, hHd⟩, ⟨tp, hHt⟩, ⟨nt, hIt⟩, hp⟩ := hI
      have hIs : W.inodes is = some ⟨ofU8 S, ms, xs, ls⟩ := by rw [hfr.inodes is hfresh.1, hisrc]
      have hId : W.inodes id = some ⟨ofU8 D, md, xd, ld⟩ := by rw [hfr.inodes id hfresh.2, hidst]
      simp [wp_bind, wp_pure, wp_prim, wp_ite, readAct, seekAct, writeAllAct, hv, hHs, hHd, hHt, hIs, hId, hIt, LWorld.setPos, LWorld.logOp,
        upd_ne, e1, e2, e3, e1.symm, e2.symm, e3.symm, hisne, hidne, natCast_lt_zero]
      repeat' (first | (apply And.intro) | (intro _) | split)
      all_goals first
        | (refine fail_exit w _ (dst ++ TEMP_SUFFIX) hfree ⟨fun p hp => by simpa using hfr.names p hp, fun i hi => ?_, Or.inr ⟨_, hitf, by simpa using htn⟩, Or.inl (by simpa using hg)⟩ rfl
           have hne' : i ≠ w.nextIno := Nat.ne_of_lt hi
           simp [upd_ne, hne', hfr.inodes i hi])
        | (have hS : ∀ i, i < w.nextIno → i ≠ w.nextIno := fun i hi => Nat.ne_of_lt hi
           refine ⟨⟨fun p hp => by simpa using hfr.names p hp, fun i hi => by simp [upd_ne, hS i hi, hfr.inodes i hi],
               Or.inr ⟨_, hitf, by simpa using htn⟩, Or.inl (by simpa using hg)⟩, by simpa using hg, by simpa using htn, hitf,
             by simp [upd_ne, e1, e2, e3, e1.symm, e2.symm, e3.symm, hHs], by simp [upd_ne, e1, e2, e3, e1.symm, e2.symm, e3.symm, hHd],
             by simp [upd_ne, e1, e2, e3, e1.symm, e2.symm, e3.symm, hHt], by simp [upd_ne, hIt], by simp [hp]⟩)
    · intro b W hI
      obtain ⟨hfr, hg, htn, hitf, ⟨sp, hHs⟩, ⟨dp, hHd⟩, ⟨tp, hHt⟩, ⟨nt, hIt⟩, hp⟩ := hI
      have hWd : W.names dst = some (.file id) := by rw [hfr.names dst htd.symm, hdst]
      have hId : W.inodes id = some ⟨ofU8 D, md, xd, ld⟩ := by rw [hfr.inodes id hfresh.2, hidst]
      simp [Rs.modified, wp_bind, wp_pure, wp_prim, wp_map, wp_guard_defuse, setMtimeAct, renameAct, inoOf_of_file W _ _ htn, hIt, htn, hWd,
        LWorld.logOp, LWorld.decLink, hId, upd_ne, htd, htd.symm, hidne, hisne]
      have hS : ∀ i, i < w.nextIno → i ≠ w.nextIno := fun i hi => Nat.ne_of_lt hi
      refine ⟨fun _ => ?u1, fun _ => ⟨fun _ => ?u2, fun _ => ?ok⟩⟩
      case u1 =>
        exact fail_exit w _ (dst ++ TEMP_SUFFIX) hfree ⟨hfr.1, hfr.2, hfr.3, hfr.4⟩ rfl
      case u2 =>
        exact fail_exit w _ (dst ++ TEMP_SUFFIX) hfree ⟨fun p hp => by simpa using hfr.names p hp,
          fun i hi => by simp [upd_ne, hS i hi, hfr.inodes i hi], Or.inr ⟨_, hitf, by simpa using htn⟩, Or.inl (by simpa using hg)⟩ rfl
      case ok =>
        rw [exitW_nil _ (by simp [hg])]
        refine ⟨by simp [upd_ne, htd.symm], by simp, ?_, ?_, by simp [hidst], by simp [hg], by simp [hp]⟩
        · intro p h1 h2; simp [upd_ne, h1, h2, hfr.names p h2]
        · intro i hi hne'; simp [upd_ne, hne', hS i hi, hfr.inodes i hi]

set_option maxRecDepth 8000 in
theorem sync_inplace_wp_ratio_true (cfg : Cfg) (self : LocalTransport) (w : LWorld) (src dst : Rs.Path) (is id : Nat) (S D : Bytes)
    (ms md : Nat) (xs xd : List Rs.Str) (ls ld : Nat) (k : Nat) (h : UpdPreF w src dst is id S D ms md xs xd ls ld)
    (hF : w.fault = some (k + 7))
    (hbig : 10485760 ≤ D.length) (hsp : cfg.sparse = false) (hr : cfg.ratio = some true)
    (hcow : (cfg.cow && cfg.sameFs && !decide (1 < ld)) = false) (hv : cfg.verifyOnWrite = false) :
    wp (LocalTransport.sync_file_with_delta (posix cfg) self src dst)
      (fun _ W' => OkPost w dst (dst ++ TEMP_SUFFIX) id w.nextIno W') (fun _ W' => FailPost w W') w := by
  obtain ⟨hsrc, hisrc, hdst, hidst, hne, hfree, hfresh, hng⟩ := h
  have hts : dst ++ TEMP_SUFFIX ≠ src := by intro e; rw [e, hsrc] at hfree; cases hfree
  have htd : dst ++ TEMP_SUFFIX ≠ dst := by intro e; rw [e, hdst] at hfree; cases hfree
  have hg1 : ¬ (List.length D < 10485760) := by omega
  have hg2 : ¬ (List.length D < 4096) := by omega
  have hhl : hasHardLinks w dst = decide (1 < ld) := by simp [hasHardLinks, inoOf_of_file w dst id hdst, hidst]
  have hcow' : ¬ ((cfg.cow = true ∧ cfg.sameFs = true) ∧ ld ≤ 1) := by
    intro h; simp [h.1.1, h.1.2] at hcow; omega
  have hisne : is ≠ w.nextIno := by omega
  have hidne : id ≠ w.nextIno := by omega
  have hN1s : follow (upd w.names (dst ++ TEMP_SUFFIX) (some (Node.file w.nextIno))) LINK_FUEL src = some src :=
    follow_of_not_symlink _ _ _ (by intro t; simp [upd_ne, hts.symm, hsrc])
  have hN1d : follow (upd w.names (dst ++ TEMP_SUFFIX) (some (Node.file w.nextIno))) LINK_FUEL dst = some dst :=
    follow_of_not_symlink _ _ _ (by intro t; simp [upd_ne, htd.symm, hdst])
  have hN1t : follow (upd w.names (dst ++ TEMP_SUFFIX) (some (Node.file w.nextIno))) LINK_FUEL (dst ++ TEMP_SUFFIX) = some (dst ++ TEMP_SUFFIX) :=
    follow_of_not_symlink _ _ _ (by intro t; simp)
  unfold LocalTransport.sync_file_with_delta
  generalize hbs : (64 * 1024 : Nat) = bs
  simp only [wp_bind, wp_pure, wp_capture, wp_map, wp_ite, wp_prim, remove_if_symlink, LocalTransport.exists, LocalTransport.metadata,
    posix_tokio_fs_symlink_metadata, posix_try_exists, posix_tokio_fs_metadata, posix_remove_file,
    tick_fault, hF, dec_succ, lstatAct, tick_names, hdst, hidst, tick_inodes]
  simp [Rs.l_is_symlink, Rs.l_file_type, wp_pure, wp_bind, wp_capture, wp_prim, wp_map, hF, existsAct, stat_of_file w dst id hdst,
    Rs.unwrap_or, metadataAct, stat_of_file w src is hsrc, hisrc, hidst, Rs.len, ofU8_length, hg1, hg2, hsp, hr, hhl, hcow', hng,
    removeFileAct, hfree, fileCreateAct, createTrunc, follow_of_none w _ hfree, LWorld.newHandle, setLenAct, fileOpenAct, ooOpenAct,
    LWorld.inoOf, LWorld.stat, follow_of_file w src is hsrc, follow_of_file w dst id hdst, hsrc, hdst, upd_ne, hts, hts.symm, htd, htd.symm,
    Rs.oo_write, Rs.oo_new, Rs.bufreader_with_capacity, LWorld.logOp, hN1s, hN1d, hN1t, wp_has_hard_links, wp_guard_new, wp_guard_defuse,
    wp_scope_exit, wp_liftE_error, wp_liftE_ok]
  refine ⟨fun _ => ?l1, fun _ => ⟨fun _ => ?l2, fun _ => ⟨fun _ => ?l3, fun _ => ⟨fun _ => ?l4, fun _ => ⟨fun _ => ?l5, fun hpend => ?loop⟩⟩⟩⟩⟩
  case l1 => exact fail_exit w _ (dst ++ TEMP_SUFFIX) hfree (by frame_tac) rfl
  case l2 => exact fail_exit w _ (dst ++ TEMP_SUFFIX) hfree (by frame_tac) rfl
  case l3 => exact fail_exit w _ (dst ++ TEMP_SUFFIX) hfree (by frame_tac) rfl
  case l4 => exact fail_exit w _ (dst ++ TEMP_SUFFIX) hfree (by frame_tac) rfl
  case l5 => exact fail_exit w _ (dst ++ TEMP_SUFFIX) hfree (by frame_tac) rfl
  case loop =>
    obtain ⟨hs, hd, ht, hhs, hhd, hht, e1, e2, e3⟩ : ∃ hs hd ht, hs = w.nextHandle + 1 ∧ hd = w.nextHandle + 1 + 1 ∧
        ht = w.nextHandle + 1 + 1 + 1 ∧ hs ≠ hd ∧ hs ≠ ht ∧ hd ≠ ht := ⟨_, _, _, rfl, rfl, rfl, by omega, by omega, by omega⟩
    simp only [← hht]; simp only [← hhd]; simp only [← hhs]
    apply wp_forIn_list (LoopInv w (dst ++ TEMP_SUFFIX) is id w.nextIno hs hd ht)
    · refine ⟨by frame_tac, rfl, by simp, Nat.le_refl _, ⟨0, by simp [upd_ne, e1, e2, e3]⟩, ⟨0, by simp [upd_ne, e1, e2, e3]⟩, ⟨0, by simp⟩,
        ⟨⟨setLenN [] (List.length S), w.now, [], 1⟩, by simp⟩, by simp⟩
    · intro x b W hI
      obtain ⟨hfr, hg, htn, hitf, ⟨sp, hHs⟩, ⟨dp, hHd⟩, ⟨tp, hHt⟩, ⟨nt, hIt⟩, hp⟩ := hI
      have hIs : W.inodes is = some ⟨ofU8 S, ms, xs, ls⟩ := by rw [hfr.inodes is hfresh.1, hisrc]
      have hId : W.inodes id = some ⟨ofU8 D, md, xd, ld⟩ := by rw [hfr.inodes id hfresh.2, hidst]
      simp [wp_bind, wp_pure, wp_prim, wp_ite, readAct, seekAct, writeAllAct, hv, hHs, hHd, hHt, hIs, hId, hIt, LWorld.setPos, LWorld.logOp,
        upd_ne, e1, e2, e3, e1.symm, e2.symm, e3.symm, hisne, hidne, natCast_lt_zero]
      repeat' (first | (apply And.intro) | (intro _) | split)
      all_goals first
        | (refine fail_exit w _ (dst ++ TEMP_SUFFIX) hfree ⟨fun p hp => by simpa using hfr.names p hp, fun i hi => ?_, Or.inr ⟨_, hitf, by simpa using htn⟩, Or.inl (by simpa using hg)⟩ rfl
           have hne' : i ≠ w.nextIno := Nat.ne_of_lt hi
           simp [upd_ne, hne', hfr.inodes i hi])
        | (have hS : ∀ i, i < w.nextIno → i ≠ w.nextIno := fun i hi => Nat.ne_of_lt hi
           refine ⟨⟨fun p hp => by simpa using hfr.names p hp, fun i hi => by simp [upd_ne, hS i hi, hfr.inodes i hi],
               Or.inr ⟨_, hitf, by simpa using htn⟩, Or.inl (by simpa using hg)⟩, by simpa using hg, by simpa using htn, hitf,
             by simp [upd_ne, e1, e2, e3, e1.symm, e2.symm, e3.symm, hHs], by simp [upd_ne, e1, e2, e3, e1.symm, e2.symm, e3.symm, hHd],
             by simp [upd_ne, e1, e2, e3, e1.symm, e2.symm, e3.symm, hHt], by simp [upd_ne, hIt], by simp [hp]⟩)
    · intro b W hI
      obtain ⟨hfr, hg, htn, hitf, ⟨sp, hHs⟩, ⟨dp, hHd⟩, ⟨tp, hHt⟩, ⟨nt, hIt⟩, hp⟩ := hI
      have hWd : W.names dst = some (.file id) := by rw [hfr.names dst htd.symm, hdst]
      have hId : W.inodes id = some ⟨ofU8 D, md, xd, ld⟩ := by rw [hfr.inodes id hfresh.2, hidst]
      simp [Rs.modified, wp_bind, wp_pure, wp_prim, wp_map, wp_guard_defuse, setMtimeAct, renameAct, inoOf_of_file W _ _ htn, hIt, htn, hWd,
        LWorld.logOp, LWorld.decLink, hId, upd_ne, htd, htd.symm, hidne, hisne]
      have hS : ∀ i, i < w.nextIno → i ≠ w.nextIno := fun i hi => Nat.ne_of_lt hi
      refine ⟨fun _ => ?u1, fun _ => ⟨fun _ => ?u2, fun _ => ?ok⟩⟩
      case u1 =>
        exact fail_exit w _ (dst ++ TEMP_SUFFIX) hfree ⟨hfr.1, hfr.2, hfr.3, hfr.4⟩ rfl
      case u2 =>
        exact fail_exit w _ (dst ++ TEMP_SUFFIX) hfree ⟨fun p hp => by simpa using hfr.names p hp,
          fun i hi => by simp [upd_ne, hS i hi, hfr.inodes i hi], Or.inr ⟨_, hitf, by simpa using htn⟩, Or.inl (by simpa using hg)⟩ rfl
      case ok =>
        rw [exitW_nil _ (by simp [hg])]
        refine ⟨by simp [upd_ne, htd.symm], by simp, ?_, ?_, by simp [hidst], by simp [hg], by simp [hp]⟩
        · intro p h1 h2; simp [upd_ne, h1, h2, hfr.names p h2]
        · intro i hi hne'; simp [upd_ne, hne', hS i hi, hfr.inodes i hi]

/-- **the temp+rename route under a fault at any operation from `File::create(working file)` on** (the 8th fallible
    call of the route; countdown `k + 7`): either the call fails and `FailPost` holds, or it succeeds, `OkPost` holds and
    the fault is still pending -/
theorem sync_inplace_wp (cfg : Cfg) (self : LocalTransport) (w : LWorld) (src dst : Rs.Path) (is id : Nat) (S D : Bytes)
    (ms md : Nat) (xs xd : List Rs.Str) (ls ld : Nat) (k : Nat) (h : UpdPreF w src dst is id S D ms md xs xd ls ld)
    (hF : w.fault = some (k + 7))
    (hbig : 10485760 ≤ D.length) (hsp : cfg.sparse = false) (hr : cfg.ratio ≠ some false)
    (hcow : (cfg.cow && cfg.sameFs && !decide (1 < ld)) = false) (hv : cfg.verifyOnWrite = false) :
    wp (LocalTransport.sync_file_with_delta (posix cfg) self src dst)
      (fun _ W' => OkPost w dst (dst ++ TEMP_SUFFIX) id w.nextIno W') (fun _ W' => FailPost w W') w := by
  cases hc : cfg.ratio with
  | none => exact sync_inplace_wp_ratio_none cfg self w src dst is id S D ms md xs xd ls ld k h hF hbig hsp hc hcow hv
  | some b =>
    cases b with
    | true => exact sync_inplace_wp_ratio_true cfg self w src dst is id S D ms md xs xd ls ld k h hF hbig hsp hc hcow hv
    | false => exact absurd hc hr

set_option maxRecDepth 8000 in
/-- a fault at one of the three `metadata` calls before the working file exists (3rd–5th fallible call: `metadata(source)`,
    `metadata(dest)`, `fs::metadata(source)` inside the closure): the call fails and nothing has happened -/
theorem sync_inplace_fault_early (cfg : Cfg) (self : LocalTransport) (w : LWorld) (src dst : Rs.Path) (is id : Nat) (S D : Bytes)
    (ms md : Nat) (xs xd : List Rs.Str) (ls ld : Nat) (k : Nat) (h : UpdPreF w src dst is id S D ms md xs xd ls ld)
    (hF : w.fault = some k) (hk : k = 2 ∨ k = 3 ∨ k = 4) (hbig : 10485760 ≤ D.length) (hsp : cfg.sparse = false) :
    wp (LocalTransport.sync_file_with_delta (posix cfg) self src dst)
      (fun _ _ => False) (fun _ W' => FailPost w W') w := by
  obtain ⟨hsrc, hisrc, hdst, hidst, hne, hfree, hfresh, hng⟩ := h
  have hg1 : ¬ (List.length D < 10485760) := by omega
  have hg2 : ¬ (List.length D < 4096) := by omega
  unfold LocalTransport.sync_file_with_delta
  generalize hbs : (64 * 1024 : Nat) = bs
  rcases hk with hk | hk | hk <;> subst hk
  all_goals
    simp only [wp_bind, wp_pure, wp_capture, wp_map, wp_ite, wp_prim, remove_if_symlink, LocalTransport.exists, LocalTransport.metadata,
      posix_tokio_fs_symlink_metadata, posix_try_exists, posix_tokio_fs_metadata, posix_remove_file,
      tick_fault, hF, dec_succ, lstatAct, tick_names, hdst, hidst, tick_inodes]
    simp [Rs.l_is_symlink, Rs.l_file_type, wp_pure, wp_bind, wp_capture, wp_prim, wp_map, hF, existsAct, stat_of_file w dst id hdst,
      Rs.unwrap_or, metadataAct, stat_of_file w src is hsrc, hisrc, hidst, Rs.len, ofU8_length, hg1, hg2, hsp, hng,
      wp_scope_exit, wp_liftE_error, wp_liftE_ok]
  · exact ⟨fun p => rfl, fun i _ => rfl, hng, rfl⟩
  · exact ⟨fun p => rfl, fun i _ => rfl, hng, rfl⟩
  · rw [exitW_nil _ (by simpa using hng)]
    exact ⟨fun p => rfl, fun i _ => rfl, hng, rfl⟩

end SyModel.LocalCopy
