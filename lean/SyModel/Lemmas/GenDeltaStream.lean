/-
  Lemmas.GenDeltaStream — the translated `generate_delta_streaming` (`SyModel/Generated/Code/Delta.lean`, from
  src/delta/generator.rs:67-228): its NORMAL FORM for every `Ext` (open, `metadata().len()`, empty-file return, first
  `read`, then `source_size + 1` rounds `iterM` of the EFFECTFUL step `streamStep` — the step may perform one
  effect, the refill `read` — and the final flush), and the lemmas that relate `streamStep` on the trusted instance
  `inst strong` (Lemmas/GenDelta.lean PART 1) to the handwritten model `SyModel.Delta.genStreamGo`
  (`sbody` + `srefill`).  Nothing in this file is trusted; the world, the instance and the abstraction maps are the
  ones of Lemmas/GenDelta.lean.
-/
import SyModel.Lemmas.GenDelta
set_option autoImplicit false
set_option linter.unusedSimpArgs false
set_option linter.unusedSectionVars false
set_option linter.unusedVariables false
namespace SyModel.GenDeltaStream
open SyModel SyModel.Generated SyModel.Generated.Delta SyModel.GenDelta

/-! ### effectful loops with `break` -/

section loops
variable {m : Type → Type} [Monad m] [LawfulMonad m] {α σ : Type}

/-- `fuel` rounds of a loop body with `break` that lives in the monad: what `for _ in [0:fuel]` computes when the
    body is `step` (it may perform effects) -/
def iterM (step : σ → m (ForInStep σ)) : Nat → σ → m σ
  | 0, s => pure s
  | k + 1, s => step s >>= fun r => match r with
    | .done s' => pure s'
    | .yield s' => iterM step k s'

theorem forIn_list_const_M (l : List α) (s : σ) (f : α → σ → m (ForInStep σ)) (step : σ → m (ForInStep σ))
    (h : ∀ a s, f a s = step s) : forIn l s f = iterM step l.length s := by
  induction l generalizing s with
  | nil => rfl
  | cons a l ih =>
    rw [List.forIn_cons, h]
    simp only [List.length_cons, iterM]
    refine bind_congr fun r => ?_
    cases r with
    | done s' => rfl
    | yield s' => exact ih s'

/-- a `for _ in [0:n]` loop whose body is an effectful step that ignores the index -/
theorem forIn_range_M (n : Nat) (s : σ) (f : Nat → σ → m (ForInStep σ)) (step : σ → m (ForInStep σ))
    (h : ∀ a s, f a s = step s) : forIn [0:n] s f = iterM step n s := by
  rw [Std.Legacy.Range.forIn_eq_forIn_range', forIn_list_const_M _ _ _ step h]
  simp [Std.Legacy.Range.size]

/-- a pure step is a special case: `iterM (pure ∘ step) = pure ∘ iter step` -/
theorem iterM_pure (step : σ → ForInStep σ) (n : Nat) (s : σ) :
    iterM (m := m) (fun s => pure (step s)) n s = pure (iter step n s) := by
  induction n generalizing s with
  | zero => rfl
  | succ k ih =>
    simp only [iterM, iter, pure_bind]
    cases step s with
    | done s' => rfl
    | yield s' => exact ih s'
end loops

/-! ### normal form of `generate_delta_streaming` (any `Ext`) -/

/-- loop state of `generate_delta_streaming`, in the order of the translation's tuple:
    `ops, literal_buffer, window, chunk_buf, bytes_read, rolling, window_pos, _file_pos` -/
abbrev StSt := List DeltaOp × List Nat × List Nat × List Nat × Nat × RollSt × Nat × Nat

/-- what the match attempt hands to the rest of the round: `ops, literal_buffer, rolling, window_pos, _file_pos,
    found_match` -/
abbrev MatchSt := List DeltaOp × List Nat × RollSt × Nat × Nat × Bool

/-- "Try to match full blocks" / "Partial block at end" (generator.rs:120-184) -/
def matchA {W : Type} (A : Acc) (ext : Ext W) (cmap : Rs.HashMap Nat (List BlockChecksum)) (bs : Nat)
    (window : List Nat) (ops : List DeltaOp) (lit : List Nat) (rolling : RollSt) (wpos fpos : Nat) : MatchSt :=
  if decide (Rs.len window - wpos ≥ bs) = true then
    match Rs.get cmap (ext.adler_digest rolling) with
    | some cands =>
      match cands.find? (fun c => c.strong ==
          ext.xxh3_digest (ext.xxh3_update Rs.xxh3_new (A.slice window wpos (wpos + bs)))) with
      | some c =>
        (flushG ops lit ++ [DeltaOp.Copy c.offset c.size], [],
          (if decide (wpos + bs + bs ≤ Rs.len window) = true then
            ext.adler_update_block rolling (A.slice window (wpos + bs) (wpos + bs + bs)) else rolling),
          wpos + bs, fpos + Rs.cast bs, true)
      | none => (ops, lit, rolling, wpos, fpos, false)
    | none => (ops, lit, rolling, wpos, fpos, false)
  else if decide (Rs.len window - wpos > 0) = true then
    match Rs.get cmap (ext.Adler32_hash (A.slice_from window wpos)) with
    | some cands =>
      match cands.find? (fun c => c.size == Rs.len (A.slice_from window wpos) &&
          c.strong == ext.xxh3_digest (ext.xxh3_update Rs.xxh3_new (A.slice_from window wpos))) with
      | some c =>
        (flushG ops lit ++ [DeltaOp.Copy c.offset c.size], [], rolling,
          wpos + Rs.len (A.slice_from window wpos), fpos + Rs.cast (Rs.len (A.slice_from window wpos)), true)
      | none => (ops, lit, rolling, wpos, fpos, false)
    | none => (ops, lit, rolling, wpos, fpos, false)
  else (ops, lit, rolling, wpos, fpos, false)

/-- "No match - add byte to literal buffer" (generator.rs:186-197): `literal_buffer, rolling, window_pos, _file_pos` -/
def litA {W : Type} (A : Acc) (ext : Ext W) (bs : Nat) (window : List Nat) (lit : List Nat) (rolling : RollSt)
    (wpos fpos : Nat) (found : Bool) : List Nat × RollSt × Nat × Nat :=
  if (!found && decide (wpos < Rs.len window)) = true then
    (lit ++ [A.index window wpos],
      (if decide (wpos + bs < Rs.len window) = true then
        ext.adler_roll rolling (A.index window wpos) (A.index window (wpos + bs)) else rolling),
      wpos + 1, fpos + 1)
  else (lit, rolling, wpos, fpos)

/-- the state after the refill `read` answered `r = (bytes_read, chunk_buf)` (generator.rs:206-214); `window` is the
    drained window -/
def afterReadA {W : Type} (A : Acc) (ext : Ext W) (bs : Nat) (ops : List DeltaOp) (lit : List Nat)
    (window : List Nat) (rolling : RollSt) (fpos : Nat) (r : Nat × List Nat) : StSt :=
  if decide (r.1 > 0) = true then
    if decide (Rs.len (window ++ A.slice r.2 0 r.1) ≥ bs) = true then
      (ops, lit, window ++ A.slice r.2 0 r.1, r.2, r.1,
        ext.adler_update_block rolling (A.slice (window ++ A.slice r.2 0 r.1) 0 bs), 0, fpos)
    else (ops, lit, window ++ A.slice r.2 0 r.1, r.2, r.1, rolling, 0, fpos)
  else (ops, lit, window, r.2, r.1, rolling, 0, fpos)

/-- "Refill window when needed" (generator.rs:199-215): the ONE effect of a round.  Written in the shape of the
    generated code (see `refillA_eq` for the readable form) -/
def refillA {W : Type} (A : Acc) (ext : Ext W) (h bs : Nat) (ops : List DeltaOp) (window chunk_buf : List Nat)
    (bytes_read : Nat) (lit : List Nat) (rolling : RollSt) (wpos fpos : Nat) : Rs.M W (ForInStep StSt) :=
  if (decide (wpos ≥ bs) && decide (bytes_read > 0) && decide (Rs.len window - wpos < bs)) = true then
    ext.h_read h chunk_buf >>= fun r =>
      if decide (r.1 > 0) = true then
        if decide (Rs.len (Rs.drain_range window 0 wpos ++ A.slice r.2 0 r.1) ≥ bs) = true then
          pure (ForInStep.yield (ops, lit, Rs.drain_range window 0 wpos ++ A.slice r.2 0 r.1, r.2, r.1,
            ext.adler_update_block rolling (A.slice (Rs.drain_range window 0 wpos ++ A.slice r.2 0 r.1) 0 bs), 0, fpos))
        else
          pure (ForInStep.yield (ops, lit, Rs.drain_range window 0 wpos ++ A.slice r.2 0 r.1, r.2, r.1, rolling, 0, fpos))
      else pure (ForInStep.yield (ops, lit, Rs.drain_range window 0 wpos, r.2, r.1, rolling, 0, fpos))
  else pure (ForInStep.yield (ops, lit, window, chunk_buf, bytes_read, rolling, wpos, fpos))

/-- everything of a round after the match attempt: the literal step, then the refill (the join point of the
    generated code, in its shape; `tailA_eq` gives the readable form) -/
def tailA {W : Type} (A : Acc) (ext : Ext W) (h bs : Nat) (window chunk_buf : List Nat) (bytes_read : Nat)
    (ops : List DeltaOp) (lit : List Nat) (rolling : RollSt) (wpos fpos : Nat) (found : Bool) :
    Rs.M W (ForInStep StSt) :=
  if (!found && decide (wpos < Rs.len window)) = true then
    if decide (wpos + bs < Rs.len window) = true then
      refillA A ext h bs ops window chunk_buf bytes_read (lit ++ [A.index window wpos])
        (ext.adler_roll rolling (A.index window wpos) (A.index window (wpos + bs))) (wpos + 1) (fpos + 1)
    else
      refillA A ext h bs ops window chunk_buf bytes_read (lit ++ [A.index window wpos]) rolling (wpos + 1) (fpos + 1)
  else refillA A ext h bs ops window chunk_buf bytes_read lit rolling wpos fpos

/-- one round of `while window_pos < window.len()` (generator.rs:116-216) on the loop state; it lives in the monad
    because of the refill -/
def streamStepA {W : Type} (A : Acc) (ext : Ext W) (cmap : Rs.HashMap Nat (List BlockChecksum)) (h bs : Nat) :
    StSt → Rs.M W (ForInStep StSt)
  | (ops, lit, window, chunk_buf, bytes_read, rolling, wpos, fpos) =>
    if (!decide (wpos < Rs.len window)) = true then
      pure (ForInStep.done (ops, lit, window, chunk_buf, bytes_read, rolling, wpos, fpos))
    else
      tailA A ext h bs window chunk_buf bytes_read
        (matchA A ext cmap bs window ops lit rolling wpos fpos).1
        (matchA A ext cmap bs window ops lit rolling wpos fpos).2.1
        (matchA A ext cmap bs window ops lit rolling wpos fpos).2.2.1
        (matchA A ext cmap bs window ops lit rolling wpos fpos).2.2.2.1
        (matchA A ext cmap bs window ops lit rolling wpos fpos).2.2.2.2.1
        (matchA A ext cmap bs window ops lit rolling wpos fpos).2.2.2.2.2

/-- … with the Prelude's accessors: this is what the translation computes -/
def streamStep {W : Type} (ext : Ext W) (cmap : Rs.HashMap Nat (List BlockChecksum)) (h bs : Nat) :
    StSt → Rs.M W (ForInStep StSt) := streamStepA Acc.rs ext cmap h bs

/-- the loop state before the first round: `window` holds the first chunk, the rolling hash is initialised when
    the window holds a whole block (generator.rs:94-114) -/
def streamInitA {W : Type} (A : Acc) (ext : Ext W) (bs : Nat) (r1 : Nat × List Nat) : StSt :=
  ([], [], (if decide (r1.1 > 0) = true then [] ++ A.slice r1.2 0 r1.1 else []), r1.2, r1.1,
    (if decide (Rs.len (if decide (r1.1 > 0) = true then [] ++ A.slice r1.2 0 r1.1 else []) ≥ bs) = true then
      ext.adler_update_block (ext.Adler32_new bs)
        (A.slice (if decide (r1.1 > 0) = true then [] ++ A.slice r1.2 0 r1.1 else []) 0 bs)
    else ext.Adler32_new bs), 0, 0)

/-- the whole function with the accessors as a parameter -/
def streamResultA {W : Type} (A : Acc) (ext : Ext W) (p : Rs.Path) (cs : List BlockChecksum) (bs : Nat) :
    Rs.M W Delta :=
  ext.File_open p >>= fun h => ext.h_metadata h >>= fun md =>
    if (Rs.len md == 0) = true then pure { ops := [], source_size := 0, block_size := bs }
    else
      ext.h_read h (List.replicate (256 * 1024) 0) >>= fun r1 =>
        iterM (streamStepA A ext (buildMap cs) h bs) (Rs.len md + 1) (streamInitA A ext bs r1) >>= fun s =>
          pure { ops := flushG s.1 s.2.1, source_size := Rs.len md, block_size := bs }

def streamResult {W : Type} (ext : Ext W) (p : Rs.Path) (cs : List BlockChecksum) (bs : Nat) : Rs.M W Delta :=
  streamResultA Acc.rs ext p cs bs

/-- the body of the `for _ in [0:source_size + 1]` loop of `generate_delta_streaming` is the step `streamStep`:
    the two inner `for checksum in candidates { if … { …; break } }` scans become `find?` (`forIn_find`), what
    follows them is the join point `tailA` -/
local macro "stream_body_tac" ext:term "," cs:term "," bs:term : tactic => `(tactic| (
  intro x s
  rcases s with ⟨ops, lit, window, chunk_buf, bytes_read, rolling, wpos, fpos⟩
  simp only [streamStepA, buildMap]
  by_cases hg : (!decide (wpos < Rs.len window)) = true
  · rw [if_pos hg, if_pos hg]
  · rw [if_neg hg, if_neg hg]
    by_cases hfull : decide (Rs.len window - wpos ≥ $bs) = true
    · rw [if_pos hfull]
      cases hget : Rs.get (List.foldl (fun b a => Rs.entry_push b a.weak a) [] $cs) (Ext.adler_digest $ext rolling) with
      | none =>
        simp only [matchA, if_pos hfull, hget]
        rfl
      | some cands =>
        simp only [matchA, if_pos hfull, hget, Acc.rs]
        rw [forIn_find _ _ _
          (fun c => c.strong == Ext.xxh3_digest $ext (Ext.xxh3_update $ext Rs.xxh3_new (Rs.slice window wpos (wpos + $bs))))
          (fun c s => (flushG s.1 s.2.1 ++ [DeltaOp.Copy c.offset c.size], [],
            (if decide (s.2.2.2.1 + $bs + $bs ≤ Rs.len window) = true then
              Ext.adler_update_block $ext s.2.2.1 (Rs.slice window (s.2.2.2.1 + $bs) (s.2.2.2.1 + $bs + $bs)) else s.2.2.1),
            s.2.2.2.1 + $bs, s.2.2.2.2.1 + Rs.cast $bs, true))]
        · rw [pure_bind]
          cases hfind : List.find? _ cands <;> simp only [hfind] <;> rfl
        · intro a s hq
          simp only [hq, if_true, flushG]
          split <;> split <;> simp_all [is_empty_iff, show (default : List Nat) = [] from rfl]
        · intro a s hq
          simp only [hq]; rfl
    · rw [if_neg hfull]
      by_cases hrem : decide (Rs.len window - wpos > 0) = true
      · rw [if_pos hrem]
        cases hget : Rs.get (List.foldl (fun b a => Rs.entry_push b a.weak a) [] $cs)
            (Ext.Adler32_hash $ext (Rs.slice_from window wpos)) with
        | none =>
          simp only [matchA, if_neg hfull, if_pos hrem, hget, Acc.rs]
          rfl
        | some cands =>
          simp only [matchA, if_neg hfull, if_pos hrem, hget, Acc.rs]
          rw [forIn_find _ _ _
            (fun c => c.size == Rs.len (Rs.slice_from window wpos) &&
              c.strong == Ext.xxh3_digest $ext (Ext.xxh3_update $ext Rs.xxh3_new (Rs.slice_from window wpos)))
            (fun c s => (flushG s.1 s.2.1 ++ [DeltaOp.Copy c.offset c.size], [],
              s.2.2.1 + Rs.len (Rs.slice_from window wpos), s.2.2.2.1 + Rs.cast (Rs.len (Rs.slice_from window wpos)), true))]
          · rw [pure_bind]
            cases hfind : List.find? _ cands <;> simp only [hfind] <;> rfl
          · intro a s hq
            simp only [hq, if_true, flushG]
            split <;> simp_all [is_empty_iff, show (default : List Nat) = [] from rfl]
          · intro a s hq
            simp only [hq]; rfl
      · rw [if_neg hrem]
        simp only [matchA, if_neg hfull, if_neg hrem]
        rfl))

/-- NORMAL FORM of the translated `generate_delta_streaming`, for every `Ext`: open, `metadata().len()`, the
    empty-file return, the first `read`, then `source_size + 1` rounds (`iterM`) of the effectful step `streamStep`
    and the final flush.  THE ONLY THEOREM THAT DEPENDS ON THE SHAPE OF THE GENERATED CODE. -/
theorem generate_delta_streaming_nf {W : Type} (ext : Ext W) (p : Rs.Path) (cs : List BlockChecksum) (bs : Nat) :
    generate_delta_streaming ext p cs bs = streamResult ext p cs bs := by
  unfold generate_delta_streaming
  simp only [List.forIn_pure_yield_eq_foldl, pure_bind]
  unfold streamResult streamResultA
  refine bind_congr fun h => bind_congr fun md => ?_
  by_cases hc0 : (Rs.len md == 0) = true
  · rw [if_pos hc0, if_pos hc0]
  · rw [if_neg hc0, if_neg hc0]
    refine bind_congr fun r1 => ?_
    by_cases hc1 : decide (r1.1 > 0) = true
    · rw [if_pos hc1]
      by_cases hc2 : decide (Rs.len ([] ++ Rs.slice r1.2 0 r1.1) ≥ bs) = true
      · rw [if_pos hc2, forIn_range_M _ _ _ (streamStepA Acc.rs ext (buildMap cs) h bs) ?_]
        · simp only [streamInitA, Acc.rs, if_pos hc1, if_pos hc2]
          refine bind_congr fun s => ?_
          simp only [flushG]; split <;> rfl
        · stream_body_tac ext, cs, bs
      · rw [if_neg hc2, forIn_range_M _ _ _ (streamStepA Acc.rs ext (buildMap cs) h bs) ?_]
        · simp only [streamInitA, Acc.rs, if_pos hc1, if_neg hc2]
          refine bind_congr fun s => ?_
          simp only [flushG]; split <;> rfl
        · stream_body_tac ext, cs, bs
    · rw [if_neg hc1]
      by_cases hc2 : decide (Rs.len ([] : List Nat) ≥ bs) = true
      · rw [if_pos hc2, forIn_range_M _ _ _ (streamStepA Acc.rs ext (buildMap cs) h bs) ?_]
        · simp only [streamInitA, Acc.rs, if_neg hc1, if_pos hc2]
          refine bind_congr fun s => ?_
          simp only [flushG]; split <;> rfl
        · stream_body_tac ext, cs, bs
      · rw [if_neg hc2, forIn_range_M _ _ _ (streamStepA Acc.rs ext (buildMap cs) h bs) ?_]
        · simp only [streamInitA, Acc.rs, if_neg hc1, if_neg hc2]
          refine bind_congr fun s => ?_
          simp only [flushG]; split <;> rfl
        · stream_body_tac ext, cs, bs

/-! ### readable forms; the pure part of a round is a round of `generate_delta` on the window -/

section readable
variable {W : Type} (A : Acc) (ext : Ext W) (cmap : Rs.HashMap Nat (List BlockChecksum)) (h bs : Nat)

/-- readable form of the refill: the condition, the `read`, then the pure function `afterReadA` of its answer -/
theorem refillA_eq (ops : List DeltaOp) (window chunk_buf : List Nat) (bytes_read : Nat) (lit : List Nat)
    (rolling : RollSt) (wpos fpos : Nat) :
    refillA A ext h bs ops window chunk_buf bytes_read lit rolling wpos fpos =
      if (decide (wpos ≥ bs) && decide (bytes_read > 0) && decide (Rs.len window - wpos < bs)) = true then
        ext.h_read h chunk_buf >>= fun r =>
          pure (ForInStep.yield (afterReadA A ext bs ops lit (Rs.drain_range window 0 wpos) rolling fpos r))
      else pure (ForInStep.yield (ops, lit, window, chunk_buf, bytes_read, rolling, wpos, fpos)) := by
  unfold refillA afterReadA
  split
  · refine bind_congr fun r => ?_
    split
    · split <;> rfl
    · rfl
  · rfl

/-- readable form of the join point: the literal step `litA`, then the refill -/
theorem tailA_eq (window chunk_buf : List Nat) (bytes_read : Nat) (ops : List DeltaOp) (lit : List Nat)
    (rolling : RollSt) (wpos fpos : Nat) (found : Bool) :
    tailA A ext h bs window chunk_buf bytes_read ops lit rolling wpos fpos found =
      refillA A ext h bs ops window chunk_buf bytes_read
        (litA A ext bs window lit rolling wpos fpos found).1 (litA A ext bs window lit rolling wpos fpos found).2.1
        (litA A ext bs window lit rolling wpos fpos found).2.2.1 (litA A ext bs window lit rolling wpos fpos found).2.2.2 := by
  unfold tailA litA
  split
  · split <;> rfl
  · rfl

/-- the `_file_pos` a round computes (a debugging counter of the Rust code: nothing reads it) -/
def fposOf (window : List Nat) (ops : List DeltaOp) (lit : List Nat) (rolling : RollSt) (wpos fpos : Nat) : Nat :=
  (litA A ext bs window (matchA A ext cmap bs window ops lit rolling wpos fpos).2.1
    (matchA A ext cmap bs window ops lit rolling wpos fpos).2.2.1
    (matchA A ext cmap bs window ops lit rolling wpos fpos).2.2.2.1
    (matchA A ext cmap bs window ops lit rolling wpos fpos).2.2.2.2.1
    (matchA A ext cmap bs window ops lit rolling wpos fpos).2.2.2.2.2).2.2.2

/-- the successor state of a `ForInStep` -/
def stepVal {σ : Type} : ForInStep σ → σ
  | .yield s => s
  | .done s => s

/-- THE PURE PART OF A ROUND IS THE ROUND OF THE IN-MEMORY GENERATOR ON THE WINDOW: match attempt and literal step
    of `generate_delta_streaming` at `window_pos < window.len()` compute what `memStepA` computes with
    `source_data := window`, `pos := window_pos` (the two literal steps differ only in the order of `pos += 1`
    and the roll test) -/
theorem stream_pure_eq_mem (window : List Nat) (ops : List DeltaOp) (lit : List Nat) (rolling : RollSt)
    (wpos fpos : Nat) (hlt : wpos < window.length) :
    memStepA A ext cmap window bs (ops, lit, wpos, rolling) =
      .yield ((matchA A ext cmap bs window ops lit rolling wpos fpos).1,
        (litA A ext bs window (matchA A ext cmap bs window ops lit rolling wpos fpos).2.1
          (matchA A ext cmap bs window ops lit rolling wpos fpos).2.2.1
          (matchA A ext cmap bs window ops lit rolling wpos fpos).2.2.2.1
          (matchA A ext cmap bs window ops lit rolling wpos fpos).2.2.2.2.1
          (matchA A ext cmap bs window ops lit rolling wpos fpos).2.2.2.2.2).1,
        (litA A ext bs window (matchA A ext cmap bs window ops lit rolling wpos fpos).2.1
          (matchA A ext cmap bs window ops lit rolling wpos fpos).2.2.1
          (matchA A ext cmap bs window ops lit rolling wpos fpos).2.2.2.1
          (matchA A ext cmap bs window ops lit rolling wpos fpos).2.2.2.2.1
          (matchA A ext cmap bs window ops lit rolling wpos fpos).2.2.2.2.2).2.2.1,
        (litA A ext bs window (matchA A ext cmap bs window ops lit rolling wpos fpos).2.1
          (matchA A ext cmap bs window ops lit rolling wpos fpos).2.2.1
          (matchA A ext cmap bs window ops lit rolling wpos fpos).2.2.2.1
          (matchA A ext cmap bs window ops lit rolling wpos fpos).2.2.2.2.1
          (matchA A ext cmap bs window ops lit rolling wpos fpos).2.2.2.2.2).2.1) := by
  have hg : (!decide (wpos < Rs.len window)) = false := by simp [Rs.len, hlt]
  have hrem : decide (Rs.len window - wpos > 0) = true := by simp [Rs.len]; omega
  have hl : (!false && decide (wpos < Rs.len window)) = true := by simp [Rs.len, hlt]
  have e1 : wpos + 1 - 1 = wpos := by omega
  have e2 : wpos + 1 + bs - 1 = wpos + bs := by omega
  have e3 : decide (wpos + 1 > 0) = true := by simp
  unfold memStepA matchA
  simp only [hg, Bool.false_eq_true, if_false, hrem, if_true]
  by_cases hfull : decide (Rs.len window - wpos ≥ bs) = true
  · simp only [if_pos hfull]
    cases hget : Rs.get cmap (ext.adler_digest rolling) with
    | none => simp only [litA, litStep, hl, if_true, e1, e2, e3, Bool.true_and]; split <;> rfl
    | some cands =>
      simp only []
      cases hfind : cands.find? _ with
      | none => simp only [litA, litStep, hl, if_true, e1, e2, e3, Bool.true_and]; split <;> rfl
      | some c => simp [litA]
  · simp only [if_neg hfull]
    cases hget : Rs.get cmap (ext.Adler32_hash (A.slice_from window wpos)) with
    | none => simp only [litA, litStep, hl, if_true, e1, e2, e3, Bool.true_and]; split <;> rfl
    | some cands =>
      simp only []
      cases hfind : cands.find? _ with
      | none => simp only [litA, litStep, hl, if_true, e1, e2, e3, Bool.true_and]; split <;> rfl
      | some c => simp [litA]

/-- a round at `window_pos < window.len()`: the round of the in-memory generator on the window, then the refill -/
theorem streamStepA_eq (window chunk_buf : List Nat) (bytes_read : Nat) (ops : List DeltaOp) (lit : List Nat)
    (rolling : RollSt) (wpos fpos : Nat) (hlt : wpos < window.length) :
    streamStepA A ext cmap h bs (ops, lit, window, chunk_buf, bytes_read, rolling, wpos, fpos) =
      refillA A ext h bs (stepVal (memStepA A ext cmap window bs (ops, lit, wpos, rolling))).1 window chunk_buf bytes_read
        (stepVal (memStepA A ext cmap window bs (ops, lit, wpos, rolling))).2.1
        (stepVal (memStepA A ext cmap window bs (ops, lit, wpos, rolling))).2.2.2
        (stepVal (memStepA A ext cmap window bs (ops, lit, wpos, rolling))).2.2.1
        (fposOf A ext cmap bs window ops lit rolling wpos fpos) := by
  have hg : (!decide (wpos < Rs.len window)) = false := by simp [Rs.len, hlt]
  rw [stream_pure_eq_mem A ext cmap bs window ops lit rolling wpos fpos hlt]
  simp only [stepVal, streamStepA, hg, Bool.false_eq_true, if_false, tailA_eq, fposOf]

/-- a round at `window_pos ≥ window.len()`: the loop condition fails, `break`, no effect -/
theorem streamStepA_done (s : StSt) (hge : s.2.2.1.length ≤ s.2.2.2.2.2.2.1) :
    streamStepA A ext cmap h bs s = pure (ForInStep.done s) := by
  rcases s with ⟨ops, lit, window, chunk_buf, bytes_read, rolling, wpos, fpos⟩
  have hg : (!decide (wpos < Rs.len window)) = true := by simp [Rs.len]; exact hge
  simp only [streamStepA, hg, if_true]
end readable

/-! ### the model's `sbody`: what it does to `wrest` / `wpos` -/

section model
open SyModel.Delta
variable {H : Type} [BEq H] (strong : Bytes → H) (cs : List (Block H)) (bs : Nat)

theorem sbody_frame (st : SSt) (x : UInt8) (tl : Bytes) :
    (sbody strong cs bs st x tl).fileRest = st.fileRest ∧ (sbody strong cs bs st x tl).bytesRead = st.bytesRead := by
  unfold sbody
  simp only
  split <;> split <;> exact ⟨rfl, rfl⟩

/-- `sbody` consumes a prefix of the window rest: `k = wpos' - wpos` bytes, `k ≤ |x :: tl|`, (and `1 ≤ k` for
    `0 < bs`) -/
theorem sbody_window (st : SSt) (x : UInt8) (tl : Bytes) :
    st.wpos ≤ (sbody strong cs bs st x tl).wpos ∧
    (sbody strong cs bs st x tl).wpos ≤ st.wpos + (tl.length + 1) ∧
    (sbody strong cs bs st x tl).wrest = (x :: tl).drop ((sbody strong cs bs st x tl).wpos - st.wpos) := by
  unfold sbody
  simp only
  split
  · rename_i hfull
    have hlen := (hasAtLeast_iff bs (x :: tl)).mp hfull
    simp only [List.length_cons] at hlen
    split
    · refine ⟨by simp, by simp; omega, ?_⟩
      simp
    · refine ⟨by simp, by simp, ?_⟩
      simp
  · split
    · refine ⟨by simp, by simp, ?_⟩
      simp
    · refine ⟨by simp, by simp, ?_⟩
      simp
end model


/-! ### the pure part of a round on the instance is the model's `sbody` -/

variable (strong : Bytes → Nat)

/-- CHUNK_SIZE of generator.rs:72 (a literal in the generated code) -/
abbrev CHUNK : Nat := 256 * 1024

/-- the code loop state that represents the model state `st` while the window buffer holds `win` (its first
    `st.wpos` bytes are consumed, the rest is `st.wrest`), the read buffer is `cbuf` and the debugging counter `fpos` -/
def strSt (bs : Nat) (win : Bytes) (cbuf : List Nat) (fpos : Nat) (st : Delta.SSt) : StSt :=
  (st.opsRev.reverse.map repOp, ofU8 st.litRev.reverse, ofU8 win, cbuf, st.bytesRead, rollOf bs st.roll, st.wpos, fpos)

/-- `win` is a window buffer for the model state `st` -/
structure Rep (win : Bytes) (st : Delta.SSt) : Prop where
  wrest : win.drop st.wpos = st.wrest
  wpos : st.wpos ≤ win.length

theorem memStep_sbody (cs : List BlockChecksum) (bs : Nat) (win : Bytes) (st : Delta.SSt) (x : UInt8) (tl : Bytes)
    (hrep : Rep win st) (hw : st.wrest = x :: tl) :
    memStep (inst strong) (buildMap cs) (ofU8 win) bs
        (st.opsRev.reverse.map repOp, ofU8 st.litRev.reverse, st.wpos, rollOf bs st.roll) =
      .yield (memSt bs (Delta.sbody strong (cs.map absBlock) bs st x tl).wpos
        (Delta.sbody strong (cs.map absBlock) bs st x tl).roll (Delta.sbody strong (cs.map absBlock) bs st x tl).litRev
        (Delta.sbody strong (cs.map absBlock) bs st x tl).opsRev) := by
  have hwin : win = win.take st.wpos ++ x :: tl := by
    rw [← hw, ← hrep.wrest, List.take_append_drop]
  have hlen : (win.take st.wpos).length = st.wpos := by
    rw [List.length_take]; exact Nat.min_eq_left hrep.wpos
  have := memStep_inst strong cs bs (win.take st.wpos) x tl st.roll st.litRev st.opsRev
  rw [← hwin, hlen] at this
  simp only [memSt] at this ⊢
  rw [this]
  unfold Delta.sbody
  by_cases hfull : hasAtLeast bs (x :: tl) = true
  · simp only [hfull, if_true]
    cases hfind : Delta.findFull (cs.map absBlock) st.roll.digest (strong ((x :: tl).take bs)) with
    | none => simp only [litModel]; generalize List.drop bs (x :: tl) = d; cases d <;> rfl
    | some c => simp only []
  · simp only [hfull, Bool.false_eq_true, if_false]
    cases hfind : Delta.findPartial (cs.map absBlock) (Delta.hashBytes (x :: tl)) (strong (x :: tl)) (x :: tl).length with
    | none => simp only [litModel]; generalize List.drop bs (x :: tl) = d; cases d <;> rfl
    | some c => simp only []


theorem rep_sbody (cs : List BlockChecksum) (bs : Nat) (win : Bytes) (st : Delta.SSt) (x : UInt8) (tl : Bytes)
    (hrep : Rep win st) (hw : st.wrest = x :: tl) : Rep win (Delta.sbody strong (cs.map absBlock) bs st x tl) := by
  obtain ⟨h1, h2, h3⟩ := sbody_window strong (cs.map absBlock) bs st x tl
  have hl : win.length - st.wpos = tl.length + 1 := by
    have := congrArg List.length hrep.wrest
    rw [hw] at this; simpa using this
  constructor
  · rw [h3, ← hw, ← hrep.wrest, List.drop_drop]
    congr 1; omega
  · have := hrep.wpos; omega

/-! ### the refill on the instance is the model's `srefill` -/

theorem source_setPos (w0 : DWorld) (h : Nat) (p : Rs.Path) (new : Bytes) (hfile : w0.files p = some new) (pos : Nat) :
    (w0.setPos h p pos).source h = some (new, p, pos) := by
  simp [DWorld.source, DWorld.setPos, hfile]

theorem setPos_setPos (w0 : DWorld) (h : Nat) (p : Rs.Path) (pos pos' : Nat) :
    (w0.setPos h p pos).setPos h p pos' = w0.setPos h p pos' := by
  simp [DWorld.setPos]

/-- the refill `read` on the instance: `min(CHUNK, rest)` bytes = the model's `fileRest.take chunk` -/
theorem read_inst (w0 : DWorld) (h : Nat) (p : Rs.Path) (new : Bytes) (hfile : w0.files p = some new) (pos : Nat)
    (cbuf : List Nat) :
    (inst strong).h_read h cbuf (w0.setPos h p pos) =
      (.ok (((new.drop pos).take cbuf.length).length,
          ofU8 ((new.drop pos).take cbuf.length) ++ cbuf.drop ((new.drop pos).take cbuf.length).length),
        w0.setPos h p (pos + ((new.drop pos).take cbuf.length).length)) := by
  have hn : min cbuf.length (new.length - pos) = ((new.drop pos).take cbuf.length).length := by simp
  show readOp h cbuf (w0.setPos h p pos) = _
  unfold readOp
  rw [source_setPos w0 h p new hfile pos]
  simp only [hn, setPos_setPos]
  congr 5
  rw [List.take_eq_take_iff]; simp


theorem hasAtLeast_eq_decide {α : Type} (n : Nat) (l : List α) : hasAtLeast n l = decide (n ≤ l.length) := by
  rw [Bool.eq_iff_iff, hasAtLeast_iff]; simp

theorem refill_inst (w0 : DWorld) (h : Nat) (p : Rs.Path) (new : Bytes) (hfile : w0.files p = some new) (pos bs : Nat)
    (win : Bytes) (cbuf : List Nat) (hcb : cbuf.length = CHUNK) (fpos : Nat) (st : Delta.SSt) (hrep : Rep win st)
    (hfr : st.fileRest = new.drop pos) :
    ∃ win' cbuf' pos',
      refillA Acc.rs (inst strong) h bs (st.opsRev.reverse.map repOp) (ofU8 win) cbuf st.bytesRead
          (ofU8 st.litRev.reverse) (rollOf bs st.roll) st.wpos fpos (w0.setPos h p pos) =
        (.ok (.yield (strSt bs win' cbuf' fpos (Delta.srefill bs CHUNK st))), w0.setPos h p pos') ∧
      Rep win' (Delta.srefill bs CHUNK st) ∧ cbuf'.length = CHUNK ∧
      (Delta.srefill bs CHUNK st).fileRest = new.drop pos' := by
  have hwl : st.wrest.length = win.length - st.wpos := by rw [← hrep.wrest]; simp
  rw [refillA_eq]
  by_cases hc : bs ≤ st.wpos ∧ 0 < st.bytesRead ∧ hasAtLeast bs st.wrest = false
  · have hcode : (decide (st.wpos ≥ bs) && decide (st.bytesRead > 0) && decide (Rs.len (ofU8 win) - st.wpos < bs)) = true := by
      obtain ⟨h1, h2, h3⟩ := hc
      rw [hasAtLeast_false_iff] at h3
      simp; omega
    rw [if_pos hcode, run_bind, read_inst strong w0 h p new hfile pos cbuf, hcb, ← hfr]
    simp only [run_pure]
    have hdrain : Rs.drain_range (ofU8 win) 0 st.wpos = ofU8 st.wrest := by
      simp [Rs.drain_range, ← hrep.wrest, ofU8, List.map_drop]
    have htl : (st.fileRest.take CHUNK).length ≤ CHUNK := by simp [List.length_take]; omega
    have hdrop : st.fileRest.drop CHUNK = new.drop (pos + (st.fileRest.take CHUNK).length) := by
      rw [hfr, List.drop_drop]
      by_cases hlt : CHUNK ≤ (new.drop pos).length
      · have : ((new.drop pos).take CHUNK).length = CHUNK := by
          simp only [List.length_take, List.length_drop] at hlt ⊢; omega
        rw [this]
      · have h1 : new.drop (pos + CHUNK) = [] := by
          apply List.drop_eq_nil_of_le; simp at hlt; omega
        have h2 : ((new.drop pos).take CHUNK).length = new.length - pos := by
          simp [List.length_take] at hlt ⊢; omega
        rw [h1, h2]; symm
        apply List.drop_eq_nil_of_le; omega
    have hsr : Delta.srefill bs CHUNK st =
        { st with
          wrest := st.wrest ++ st.fileRest.take CHUNK, wpos := 0, fileRest := st.fileRest.drop CHUNK,
          bytesRead := (st.fileRest.take CHUNK).length,
          roll := if 0 < (st.fileRest.take CHUNK).length ∧ hasAtLeast bs (st.wrest ++ st.fileRest.take CHUNK) then
            Delta.Adler.ofBlock ((st.wrest ++ st.fileRest.take CHUNK).take bs) else st.roll } := by
      unfold Delta.srefill; rw [if_pos hc]
    rw [hsr, hdrop]
    generalize st.fileRest.take CHUNK = taken at *
    have hslice : Rs.slice (ofU8 taken ++ cbuf.drop taken.length) 0 taken.length = ofU8 taken := by
      simp [Rs.slice]
    refine ⟨st.wrest ++ taken, ofU8 taken ++ cbuf.drop taken.length, pos + taken.length, ?_, ?_, ?_, rfl⟩
    · simp only [strSt, afterReadA, hdrain, Acc.rs, hslice, ← ofU8_append, len_ofU8]
      by_cases hpos : 0 < taken.length
      · have h1 : decide (taken.length > 0) = true := by simpa using hpos
        simp only [h1, if_true]
        by_cases hge : hasAtLeast bs (st.wrest ++ taken) = true
        · have h2 : decide ((st.wrest ++ taken).length ≥ bs) = true := by
            simpa using (hasAtLeast_iff _ _).mp hge
          simp only [h2, hpos, hge, if_true, and_self, slice_ofU8, Nat.sub_zero, List.drop_zero, inst_update, toU8_ofU8]
        · have h2 : decide ((st.wrest ++ taken).length ≥ bs) = false := by
            have := (hasAtLeast_false_iff bs (st.wrest ++ taken)).mp (by simpa using hge)
            simp only [ge_iff_le, decide_eq_false_iff_not]; omega
          simp only [h2, hpos, hge, Bool.false_eq_true, if_false, and_false]
      · have h1 : decide (taken.length > 0) = false := by simpa using hpos
        have hnil : taken = [] := by
          apply List.eq_nil_of_length_eq_zero; omega
        subst hnil
        simp [h1]
    · exact ⟨by simp, by simp⟩
    · simp [hcb]; omega
  · have hcode : ¬ (decide (st.wpos ≥ bs) && decide (st.bytesRead > 0) && decide (Rs.len (ofU8 win) - st.wpos < bs)) = true := by
      intro hcode
      apply hc
      rw [hasAtLeast_false_iff]
      simp at hcode; omega
    rw [if_neg hcode, run_pure]
    refine ⟨win, cbuf, pos, ?_, ?_, hcb, ?_⟩
    · unfold Delta.srefill; simp only [if_neg hc, strSt]
    · unfold Delta.srefill; simp only [if_neg hc]; exact hrep
    · unfold Delta.srefill; simp only [if_neg hc]; exact hfr


/-! ### one round on the instance; the loop -/

/-- ONE ROUND ON THE INSTANCE: from a code state that represents the model state `st` (window rest `x :: tl`) the
    translated round succeeds, keeps the file contents, and arrives at a code state that represents
    `srefill (sbody st)`; the handle position stays in step with the model's `fileRest` -/
theorem step_inst (cs : List BlockChecksum) (w0 : DWorld) (h : Nat) (p : Rs.Path) (new : Bytes)
    (hfile : w0.files p = some new) (pos bs : Nat) (win : Bytes) (cbuf : List Nat) (hcb : cbuf.length = CHUNK)
    (fpos : Nat) (st : Delta.SSt) (hrep : Rep win st) (hfr : st.fileRest = new.drop pos) (x : UInt8) (tl : Bytes)
    (hw : st.wrest = x :: tl) :
    ∃ win' cbuf' fpos' pos',
      streamStep (inst strong) (buildMap cs) h bs (strSt bs win cbuf fpos st) (w0.setPos h p pos) =
        (.ok (.yield (strSt bs win' cbuf' fpos'
          (Delta.srefill bs CHUNK (Delta.sbody strong (cs.map absBlock) bs st x tl)))), w0.setPos h p pos') ∧
      Rep win' (Delta.srefill bs CHUNK (Delta.sbody strong (cs.map absBlock) bs st x tl)) ∧ cbuf'.length = CHUNK ∧
      (Delta.srefill bs CHUNK (Delta.sbody strong (cs.map absBlock) bs st x tl)).fileRest = new.drop pos' := by
  have hlt : st.wpos < (ofU8 win).length := by
    have := congrArg List.length hrep.wrest
    rw [hw] at this; simp at this; simp; omega
  obtain ⟨hf1, hf2⟩ := sbody_frame strong (cs.map absBlock) bs st x tl
  have hrep' := rep_sbody strong cs bs win st x tl hrep hw
  obtain ⟨win', cbuf', pos', h1, h2, h3, h4⟩ := refill_inst strong w0 h p new hfile pos bs win cbuf hcb
    (fposOf Acc.rs (inst strong) (buildMap cs) bs (ofU8 win) (st.opsRev.reverse.map repOp) (ofU8 st.litRev.reverse)
      (rollOf bs st.roll) st.wpos fpos)
    (Delta.sbody strong (cs.map absBlock) bs st x tl) hrep' (by rw [hf1]; exact hfr)
  refine ⟨win', cbuf', (fposOf Acc.rs (inst strong) (buildMap cs) bs (ofU8 win) (st.opsRev.reverse.map repOp)
    (ofU8 st.litRev.reverse) (rollOf bs st.roll) st.wpos fpos), pos', ?_, h2, h3, h4⟩
  rw [← h1]
  unfold streamStep strSt
  rw [streamStepA_eq _ _ _ _ _ _ _ _ _ _ _ _ _ hlt]
  have hm : memStepA Acc.rs (inst strong) = memStep (inst strong) := rfl
  rw [hm, memStep_sbody strong cs bs win st x tl hrep hw, hf2]
  rfl

theorem rep_nil (win : Bytes) (st : Delta.SSt) (hrep : Rep win st) (hw : st.wrest = []) : win.length ≤ st.wpos := by
  have := congrArg List.length hrep.wrest
  rw [hw] at this; simp at this; omega

/-- (b) LOOP INVARIANT + (c) FUEL: from a code state that represents the model state `st`, EVERY fuel
    `≥ |wrest| + |fileRest|` gives the same result: the loop has stopped by its own condition
    (`window_pos ≥ window.len()`), the flushed ops are the model's `genStreamGo st`, only the handle position changed -/
theorem streamLoop_eq (cs : List BlockChecksum) (bs : Nat) (hbs : 0 < bs) (w0 : DWorld) (h : Nat) (p : Rs.Path)
    (new : Bytes) (hfile : w0.files p = some new) (st : Delta.SSt) (pos : Nat) (win : Bytes) (cbuf : List Nat)
    (fpos : Nat) (hrep : Rep win st) (hcb : cbuf.length = CHUNK) (hfr : st.fileRest = new.drop pos) :
    ∃ s' pos',
      (∀ fuel, st.measure ≤ fuel →
        iterM (streamStep (inst strong) (buildMap cs) h bs) fuel (strSt bs win cbuf fpos st) (w0.setPos h p pos) =
          (.ok s', w0.setPos h p pos')) ∧
      flushG s'.1 s'.2.1 = (Delta.genStreamGo strong (cs.map absBlock) bs CHUNK hbs st).map repOp ∧
      s'.2.2.1.length ≤ s'.2.2.2.2.2.2.1 := by
  fun_induction Delta.genStreamGo strong (cs.map absBlock) bs CHUNK hbs st generalizing pos win cbuf fpos with
  | case1 st hw =>
    have hge : (strSt bs win cbuf fpos st).2.2.1.length ≤ (strSt bs win cbuf fpos st).2.2.2.2.2.2.1 := by
      simp [strSt]; exact rep_nil win st hrep hw
    refine ⟨strSt bs win cbuf fpos st, pos, ?_, ?_, hge⟩
    · intro fuel _
      cases fuel with
      | zero => rfl
      | succ k =>
        simp only [iterM, streamStep]
        rw [streamStepA_done _ _ _ _ _ _ hge, pure_bind]
        rfl
    · simp only [strSt, flushG_flush]
  | case2 st x tl hw ih =>
    obtain ⟨win', cbuf', fpos', pos', hstep, hrep', hcb', hfr'⟩ :=
      step_inst strong cs w0 h p new hfile pos bs win cbuf hcb fpos st hrep hfr x tl hw
    obtain ⟨s', pos'', hiter, hflush, hend⟩ := ih pos' win' cbuf' fpos' hrep' hcb' hfr'
    refine ⟨s', pos'', ?_, hflush, hend⟩
    intro fuel hfuel
    have hm : (Delta.srefill bs CHUNK (Delta.sbody strong (cs.map absBlock) bs st x tl)).measure < st.measure := by
      rw [Delta.srefill_measure]; exact Delta.sbody_measure strong _ bs hbs st x tl hw
    obtain ⟨k, rfl⟩ : ∃ k, fuel = k + 1 := ⟨fuel - 1, by omega⟩
    simp only [iterM]
    rw [run_bind, hstep]
    exact hiter k (by omega)

/-! ### (5) the totalised accessors are only used in range -/

/-- the contract of `Read::read`: the count it answers is at most the length of the buffer it answers -/
def ReadOK {W : Type} (ext : Ext W) : Prop :=
  ∀ h buf w r w', ext.h_read h buf w = (.ok r, w') → r.1 ≤ r.2.length

section total
variable {W : Type} (A : Acc) (hA : A.InRange) (ext : Ext W) (cmap : Rs.HashMap Nat (List BlockChecksum)) (h bs : Nat)
include hA

theorem litA_inRange (window lit : List Nat) (rolling : RollSt) (wpos fpos : Nat) (found : Bool) :
    litA A ext bs window lit rolling wpos fpos found = litA Acc.rs ext bs window lit rolling wpos fpos found := by
  unfold litA
  split
  · rename_i hc
    have hlt : wpos < window.length := by simp [Rs.len] at hc; exact hc.2
    rw [hA.index window wpos hlt]
    split
    · rename_i h2
      rw [hA.index window _ (by simpa [Rs.len] using h2)]; rfl
    · rfl
  · rfl

theorem matchA_inRange (window : List Nat) (ops : List DeltaOp) (lit : List Nat) (rolling : RollSt) (wpos fpos : Nat)
    (hlt : wpos < window.length) :
    matchA A ext cmap bs window ops lit rolling wpos fpos = matchA Acc.rs ext cmap bs window ops lit rolling wpos fpos := by
  unfold matchA
  split
  · rename_i hfull
    have hfull' : wpos + bs ≤ window.length := by simp [Rs.len] at hfull; omega
    rw [hA.slice window wpos (wpos + bs) (by omega) hfull']
    have : (if decide (wpos + bs + bs ≤ Rs.len window) = true then
          ext.adler_update_block rolling (A.slice window (wpos + bs) (wpos + bs + bs)) else rolling) =
        (if decide (wpos + bs + bs ≤ Rs.len window) = true then
          ext.adler_update_block rolling (Acc.rs.slice window (wpos + bs) (wpos + bs + bs)) else rolling) := by
      split
      · rename_i h2
        rw [hA.slice window _ _ (by omega) (by simpa [Rs.len] using h2)]; rfl
      · rfl
    simp only [this]; rfl
  · rw [hA.slice_from window wpos (by omega)]; rfl

theorem afterReadA_inRange (ops : List DeltaOp) (lit window : List Nat) (rolling : RollSt) (fpos : Nat)
    (r : Nat × List Nat) (hr : r.1 ≤ r.2.length) :
    afterReadA A ext bs ops lit window rolling fpos r = afterReadA Acc.rs ext bs ops lit window rolling fpos r := by
  have e1 : A.slice r.2 0 r.1 = Acc.rs.slice r.2 0 r.1 := hA.slice r.2 0 r.1 (Nat.zero_le _) hr
  unfold afterReadA
  simp only [e1]
  by_cases h2 : decide (Rs.len (window ++ Acc.rs.slice r.2 0 r.1) ≥ bs) = true
  · have e2 : A.slice (window ++ Acc.rs.slice r.2 0 r.1) 0 bs = Acc.rs.slice (window ++ Acc.rs.slice r.2 0 r.1) 0 bs :=
      hA.slice _ 0 bs (Nat.zero_le _) (by simpa [Rs.len] using h2)
    simp only [e2]
  · simp only [h2, Bool.false_eq_true, if_false]

/-- (5) one round never looks at an out-of-range slice or index, whatever the state and the world: the pure part
    guards every access by the loop condition and its own tests, the refill by the contract of `read` -/
theorem streamStepA_inRange (hread : ReadOK ext) (s : StSt) (w : W) :
    streamStepA A ext cmap h bs s w = streamStep ext cmap h bs s w := by
  rcases s with ⟨ops, lit, window, chunk_buf, bytes_read, rolling, wpos, fpos⟩
  unfold streamStep
  simp only [streamStepA]
  split
  · rfl
  · rename_i hg
    have hlt : wpos < window.length := by simpa [Rs.len] using hg
    rw [matchA_inRange A hA ext cmap bs window ops lit rolling wpos fpos hlt]
    simp only [tailA_eq, litA_inRange A hA ext bs, refillA_eq]
    split
    · rw [run_bind, run_bind]
      cases hrd : ext.h_read h chunk_buf w with
      | mk res w' =>
        cases res with
        | error e => rfl
        | ok r =>
          simp only
          rw [afterReadA_inRange A hA ext bs _ _ _ _ _ r (hread h chunk_buf w r w' hrd)]
    · rfl

theorem iterM_inRange (hread : ReadOK ext) (fuel : Nat) (s : StSt) (w : W) :
    iterM (streamStepA A ext cmap h bs) fuel s w = iterM (streamStep ext cmap h bs) fuel s w := by
  induction fuel generalizing s w with
  | zero => rfl
  | succ k ih =>
    simp only [iterM]
    rw [run_bind, run_bind, streamStepA_inRange A hA ext cmap h bs hread s w]
    cases hst : streamStep ext cmap h bs s w with
    | mk res w' =>
      cases res with
      | error e => rfl
      | ok r =>
        cases r with
        | done s' => rfl
        | yield s' => exact ih s' w'

theorem streamInitA_inRange (r1 : Nat × List Nat) (hr : r1.1 ≤ r1.2.length) :
    streamInitA A ext bs r1 = streamInitA Acc.rs ext bs r1 := by
  have e1 : A.slice r1.2 0 r1.1 = Acc.rs.slice r1.2 0 r1.1 := hA.slice r1.2 0 r1.1 (Nat.zero_le _) hr
  unfold streamInitA
  simp only [e1]
  generalize (if decide (r1.1 > 0) = true then [] ++ Acc.rs.slice r1.2 0 r1.1 else []) = win0
  by_cases h2 : decide (Rs.len win0 ≥ bs) = true
  · have e2 : A.slice win0 0 bs = Acc.rs.slice win0 0 bs :=
      hA.slice _ 0 bs (Nat.zero_le _) (by simpa [Rs.len] using h2)
    simp only [e2]
  · simp only [h2, Bool.false_eq_true, if_false]

/-- (5) THE TOTALISATION IS NEVER EXERCISED by `generate_delta_streaming`: for every `Ext` whose `read` keeps its
    contract, in every world, the function computes the same whatever `&v[a..b]`, `&v[a..]`, `v[i]` answer out of
    range -/
theorem streamResultA_inRange (hread : ReadOK ext) (p : Rs.Path) (cs : List BlockChecksum) (w : W) :
    streamResultA A ext p cs bs w = streamResult ext p cs bs w := by
  unfold streamResult streamResultA
  rw [run_bind, run_bind]
  cases ext.File_open p w with
  | mk res w1 =>
    cases res with
    | error e => rfl
    | ok hd =>
      simp only
      rw [run_bind, run_bind]
      cases ext.h_metadata hd w1 with
      | mk res w2 =>
        cases res with
        | error e => rfl
        | ok md =>
          simp only
          split
          · rfl
          · rw [run_bind, run_bind]
            cases hrd : ext.h_read hd (List.replicate (256 * 1024) 0) w2 with
            | mk res w3 =>
              cases res with
              | error e => rfl
              | ok r1 =>
                simp only
                rw [run_bind, run_bind, streamInitA_inRange A hA ext bs r1 (hread _ _ _ _ _ hrd),
                  iterM_inRange A hA ext (buildMap cs) hd bs hread]
                rfl
end total

/-- the instance keeps the contract of `read` -/
theorem readOK_inst (strong : Bytes → Nat) : ReadOK (inst strong) := by
  intro h buf w r w' hr
  have : readOp h buf w = (.ok r, w') := hr
  unfold readOp at this
  split at this
  · cases this
  · rename_i c p pos hs
    injection this with h1 h2
    injection h1 with h1
    subst h1
    simp [List.length_take]

/-! ### the whole function on the instance -/

/-- the state before the first round represents the model's `sinit` -/
theorem init_inst (bs : Nat) (new : Bytes) (cbuf : List Nat) :
    streamInitA Acc.rs (inst strong) bs
        ((new.take CHUNK).length, ofU8 (new.take CHUNK) ++ cbuf.drop (new.take CHUNK).length) =
      strSt bs (new.take CHUNK) (ofU8 (new.take CHUNK) ++ cbuf.drop (new.take CHUNK).length) 0
        (Delta.sinit bs CHUNK new) := by
  unfold streamInitA strSt Delta.sinit
  simp only []
  generalize new.take CHUNK = taken
  have hslice : Rs.slice (ofU8 taken ++ cbuf.drop taken.length) 0 taken.length = ofU8 taken := by
    simp [Rs.slice]
  have hwin : (if decide (taken.length > 0) = true then [] ++ Rs.slice (ofU8 taken ++ cbuf.drop taken.length) 0 taken.length
      else []) = ofU8 taken := by
    rw [hslice]
    split
    · simp
    · rename_i hc
      have : taken = [] := by apply List.eq_nil_of_length_eq_zero; simpa using hc
      simp [this]
  simp only [Acc.rs, hwin, len_ofU8]
  by_cases hge : hasAtLeast bs taken = true
  · have h2 : decide (taken.length ≥ bs) = true := by simpa using (hasAtLeast_iff _ _).mp hge
    simp only [h2, hge, if_true, inst_new, slice_ofU8, Nat.sub_zero, List.drop_zero, inst_update, toU8_ofU8]
    rfl
  · have h2 : decide (taken.length ≥ bs) = false := by
      have := (hasAtLeast_false_iff bs taken).mp (by simpa using hge)
      simp only [ge_iff_le, decide_eq_false_iff_not]; omega
    simp only [h2, hge, Bool.false_eq_true, if_false, inst_new]
    rfl

theorem drop_take_length {α : Type} (l : List α) (pos k : Nat) :
    (l.drop pos).drop k = l.drop (pos + ((l.drop pos).take k).length) := by
  rw [List.drop_drop]
  by_cases hlt : k ≤ (l.drop pos).length
  · have : ((l.drop pos).take k).length = k := by
      simp only [List.length_take, List.length_drop] at hlt ⊢; omega
    rw [this]
  · have h1 : l.drop (pos + k) = [] := by
      apply List.drop_eq_nil_of_le; simp at hlt; omega
    have h2 : ((l.drop pos).take k).length = l.length - pos := by
      simp [List.length_take] at hlt ⊢; omega
    rw [h1, h2]; symm
    apply List.drop_eq_nil_of_le; omega

/-- everything after `File::open` on the instance, in a world `w0.setPos h p 0` (the handle just opened) -/
theorem streamAfterOpen_inst (cs : List BlockChecksum) (bs : Nat) (hbs : 0 < bs) (w0 : DWorld) (h : Nat) (p : Rs.Path)
    (new : Bytes) (hfile : w0.files p = some new) (hne : new ≠ []) :
    ∃ pos,
      ((inst strong).h_metadata h >>= fun md =>
        if (Rs.len md == 0) = true then pure { ops := [], source_size := 0, block_size := bs }
        else
          (inst strong).h_read h (List.replicate (256 * 1024) 0) >>= fun r1 =>
            iterM (streamStepA Acc.rs (inst strong) (buildMap cs) h bs) (Rs.len md + 1)
                (streamInitA Acc.rs (inst strong) bs r1) >>= fun s =>
              pure ({ ops := flushG s.1 s.2.1, source_size := Rs.len md, block_size := bs } : Delta))
        (w0.setPos h p 0) =
      (.ok { ops := (Delta.genStreamGo strong (cs.map absBlock) bs CHUNK hbs (Delta.sinit bs CHUNK new)).map repOp,
             source_size := new.length, block_size := bs }, w0.setPos h p pos) := by
  have hmd : (inst strong).h_metadata h (w0.setPos h p 0) =
      (.ok { dir := false, mtime := 0, size := new.length }, w0.setPos h p 0) := by
    show metadataOp h _ = _
    unfold metadataOp
    rw [source_setPos w0 h p new hfile 0]
  have hlen : (Rs.len ({ dir := false, mtime := 0, size := new.length } : Rs.Metadata) == 0) = false := by
    have : new.length ≠ 0 := fun e => hne (List.eq_nil_of_length_eq_zero e)
    simpa [Rs.len] using this
  have hcb : (List.replicate (256 * 1024) (0 : Nat)).length = CHUNK := List.length_replicate
  generalize List.replicate (256 * 1024) (0 : Nat) = cbuf0 at hcb ⊢
  have hrd := read_inst strong w0 h p new hfile 0 cbuf0
  rw [hcb, List.drop_zero, Nat.zero_add] at hrd
  have hrep : Rep (new.take CHUNK) (Delta.sinit bs CHUNK new) := ⟨by simp [Delta.sinit], by simp [Delta.sinit]⟩
  have hfr : (Delta.sinit bs CHUNK new).fileRest = new.drop (new.take CHUNK).length := by
    have := drop_take_length new 0 CHUNK
    simpa [Delta.sinit] using this
  have hcb' : (ofU8 (new.take CHUNK) ++ cbuf0.drop (new.take CHUNK).length).length = CHUNK := by
    simp only [List.length_append, length_ofU8, List.length_drop, List.length_take, hcb]; omega
  obtain ⟨s', pos', hiter, hflush, -⟩ := streamLoop_eq strong cs bs hbs w0 h p new hfile (Delta.sinit bs CHUNK new)
    (new.take CHUNK).length (new.take CHUNK) (ofU8 (new.take CHUNK) ++ cbuf0.drop (new.take CHUNK).length) 0 hrep hcb' hfr
  have hmeas : (Delta.sinit bs CHUNK new).measure ≤ new.length + 1 := by
    simp only [Delta.sinit, Delta.SSt.measure, List.length_take, List.length_drop]; omega
  refine ⟨pos', ?_⟩
  rw [run_bind, hmd]
  simp only [hlen, Bool.false_eq_true, if_false]
  rw [run_bind, hrd]
  simp only
  rw [run_bind, init_inst]
  have hl : Rs.len ({ dir := false, mtime := 0, size := new.length } : Rs.Metadata) = new.length := rfl
  rw [hl]
  have := hiter (new.length + 1) hmeas
  unfold streamStep at this
  rw [this]
  simp only [run_pure, hflush]

end SyModel.GenDeltaStream
