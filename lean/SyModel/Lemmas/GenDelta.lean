/-
  Lemmas.GenDelta — the world in which the translated delta generators
  (`SyModel/Generated/Code/Delta.lean`: `generate_delta` and `generate_delta_streaming` of
  src/delta/generator.rs) are run, the instance of their `Ext` record, the NORMAL FORMS of the two translated
  functions (loop bodies as pure step functions), and the lemmas that relate those step functions to the
  handwritten model (`SyModel.Delta.genMemGo`, `SyModel.Delta.genStreamGo`).

  PART 1 (`DWorld` … `inst`) IS TRUSTED: the bridge theorems of `Props/GenDelta.lean` are statements about
  `generate_delta (inst strong)`, so a wrong operation here misrepresents the operating system or the two
  checksum libraries.  Everything after PART 1 is proved.
-/
import SyModel.Generated.Code.Delta
import SyModel.Delta.Stream
import SyModel.Lemmas.Delta
import SyModel.Lemmas.Stream
set_option autoImplicit false
set_option linter.unusedSimpArgs false
set_option linter.unusedSectionVars false
set_option linter.unusedVariables false
namespace SyModel.GenDelta
open SyModel SyModel.Generated SyModel.Generated.Delta

/-! ## PART 1 — the world of one generator call (trusted) -/

/-- point update of a function -/
def upd {κ ν : Type} [DecidableEq κ] (f : κ → ν) (k : κ) (v : ν) : κ → ν := fun x => if x = k then v else f x

/-- What a delta generator can see: regular files (path text ↦ content, bytes as `UInt8`) and the open read
    handles `1 … opened` (handle ↦ path and file position).  Nothing in this unit writes. -/
structure DWorld where
  files  : Rs.Path → Option Bytes
  opened : Nat
  handle : Nat → Option (Rs.Path × Nat)

/-- bytes as the translated code carries them (`Vec<u8>` is `List Nat` there) -/
def ofU8 (l : Bytes) : List Nat := l.map UInt8.toNat
def toU8 (l : List Nat) : Bytes := l.map Nat.toUInt8

/-- the content behind a handle, the path and the position: the handle must be open and the file must still exist -/
def DWorld.source (w : DWorld) (h : Nat) : Option (Bytes × Rs.Path × Nat) :=
  match w.handle h with
  | some (p, pos) => (w.files p).map fun c => (c, p, pos)
  | none => none

def DWorld.setPos (w : DWorld) (h : Nat) (p : Rs.Path) (pos : Nat) : DWorld :=
  { w with handle := upd w.handle h (some (p, pos)) }

/-- `File::open(p)` (read only): ENOENT on a missing file, nothing changes then; otherwise a fresh handle at position 0 -/
def openOp (p : Rs.Path) : Rs.M DWorld Nat := fun w =>
  match w.files p with
  | none => (.error .io, w)
  | some _ => (.ok (w.opened + 1), { w with opened := w.opened + 1, handle := upd w.handle (w.opened + 1) (some (p, 0)) })

/-- `read_to_end(&mut buf)`: appends everything from the position to the end of the file; the position moves to
    the end -/
def readToEndOp (h : Nat) (buf : List Nat) : Rs.M DWorld (List Nat) := fun w =>
  match w.source h with
  | none => (.error .io, w)
  | some (c, p, pos) => (.ok (buf ++ ofU8 (c.drop pos)), w.setPos h p (max pos c.length))

/-- `read(&mut buf)`: FULL reads — `min(buf.len(), remaining)` bytes are delivered at the front of the buffer (the
    rest of the buffer keeps its old bytes) and the position advances by that amount.  POSIX allows short reads;
    on a regular file the kernel does not make them (DESIGN §6 C04 "Assumed").  Answers `(bytes_read, buffer)`. -/
def readOp (h : Nat) (buf : List Nat) : Rs.M DWorld (Nat × List Nat) := fun w =>
  match w.source h with
  | none => (.error .io, w)
  | some (c, p, pos) =>
    let n := min buf.length (c.length - pos)
    (.ok (n, ofU8 ((c.drop pos).take n) ++ buf.drop n), w.setPos h p (pos + n))

/-- `file.metadata()` (fstat): the length of the file; the world does not change -/
def metadataOp (h : Nat) : Rs.M DWorld Rs.Metadata := fun w =>
  match w.source h with
  | none => (.error .io, w)
  | some (c, _, _) => (.ok { dir := false, mtime := 0, size := c.length }, w)

/-- THE INSTANCE.  `strong` is xxh3-64 as an arbitrary function of the bytes (a parameter: nothing is assumed
    about it here; the reconstruction corollaries assume `NoCollision` on the two files).
    * the Adler fields are the Nat model `SyModel.Delta.Adler` (proved equal to the `u32` code of
      src/delta/rolling.rs in `Props/GenRolling`); a `RollSt ⟨a, b, n⟩` is the model state `⟨a, b⟩` of a hasher
      created with `Adler32::new(n)`; `update_block` resets and feeds the block, `roll` is `Adler.roll n`;
    * a streaming xxh3 hasher is the list of bytes fed so far; `digest` hashes that list;
    * `File::open`, `read_to_end`, `read`, `metadata` as documented above; `seek` is not called by the two
      translated functions (it is in `Ext` for other users of the handle type). -/
def inst (strong : Bytes → Nat) : Ext DWorld where
  Adler32_new n := ⟨1, 0, n⟩
  Adler32_hash l := Delta.hashBytes (toU8 l)
  adler_update_block s l := ⟨(Delta.Adler.ofBlock (toU8 l)).a, (Delta.Adler.ofBlock (toU8 l)).b, s.block_size⟩
  adler_roll s o n :=
    ⟨(Delta.Adler.roll s.block_size ⟨s.a, s.b⟩ o.toUInt8 n.toUInt8).a,
     (Delta.Adler.roll s.block_size ⟨s.a, s.b⟩ o.toUInt8 n.toUInt8).b, s.block_size⟩
  adler_digest s := Delta.Adler.digest ⟨s.a, s.b⟩
  xxh3_update h l := h ++ l
  xxh3_digest h := strong (toU8 h)
  File_open p := openOp p
  h_read_to_end h buf := readToEndOp h buf
  h_read h buf := readOp h buf
  h_seek _ _ := throw .other
  h_metadata h := metadataOp h

/-- code checksum ↦ model checksum (`index` is not used by the generators) -/
def absBlock (c : BlockChecksum) : Delta.Block Nat := ⟨c.offset, c.size, c.weak, c.strong⟩
/-- model checksum ↦ code checksum (`index = offset / block_size`, src/delta/checksum.rs) -/
def repBlock (bs : Nat) (c : Delta.Block Nat) : BlockChecksum := ⟨c.offset / bs, c.offset, c.size, c.weak, c.strong⟩
/-- model op ↦ code op, code op ↦ model op -/
def repOp : Delta.Op → DeltaOp
  | .copy o s => .Copy o s
  | .data d => .Data (ofU8 d)
def absOp : DeltaOp → Delta.Op
  | .Copy o s => .copy o s
  | .Data d => .data (toU8 d)

/-! ## PART 2 — proved -/

/-! ### running the monad; generic loops -/

theorem run_bind {W α β : Type} (x : Rs.M W α) (f : α → Rs.M W β) (w : W) :
    (x >>= f) w = match x w with
      | (.ok a, w') => f a w'
      | (.error e, w') => (.error e, w') := by
  show (ExceptT.bind x f) w = _
  simp only [ExceptT.bind, ExceptT.mk]
  show (StateT.bind x _) w = _
  simp only [StateT.bind]
  rcases x w with ⟨r, w'⟩
  cases r <;> rfl

@[simp] theorem upd_same {κ ν : Type} [DecidableEq κ] (f : κ → ν) (k : κ) (v : ν) : upd f k v k = v := by simp [upd]
@[simp] theorem upd_upd {κ ν : Type} [DecidableEq κ] (f : κ → ν) (k : κ) (v v' : ν) : upd (upd f k v) k v' = upd f k v' := by
  funext x; simp only [upd]; split <;> rfl

theorem run_pure {W α : Type} (a : α) (w : W) : (pure a : Rs.M W α) w = (.ok a, w) := rfl

section loops
variable {m : Type → Type} [Monad m] [LawfulMonad m] {α σ : Type}

/-- `fuel` rounds of a pure loop body with `break`: what `for _ in [0:fuel]` computes when the body is
    `pure ∘ step` -/
def iter (step : σ → ForInStep σ) : Nat → σ → σ
  | 0, s => s
  | k + 1, s => match step s with
    | .done s' => s'
    | .yield s' => iter step k s'

theorem forIn_list_const_pure (l : List α) (s : σ) (f : α → σ → m (ForInStep σ)) (step : σ → ForInStep σ)
    (h : ∀ a s, f a s = pure (step s)) : forIn l s f = pure (iter step l.length s) := by
  induction l generalizing s with
  | nil => rfl
  | cons a l ih =>
    rw [List.forIn_cons, h, pure_bind]
    simp only [List.length_cons, iter]
    cases step s with
    | done s' => rfl
    | yield s' => exact ih s'

/-- a `for _ in [0:n]` loop whose body is a pure step -/
theorem forIn_range_pure (n : Nat) (s : σ) (f : Nat → σ → m (ForInStep σ)) (step : σ → ForInStep σ)
    (h : ∀ a s, f a s = pure (step s)) : forIn [0:n] s f = pure (iter step n s) := by
  rw [Std.Legacy.Range.forIn_eq_forIn_range', forIn_list_const_pure _ _ _ step h]
  simp [Std.Legacy.Range.size]

/-- `for c in l { if q(c) { s = g(c, s); break } }` is `find?` -/
theorem forIn_find (l : List α) (s : σ) (f : α → σ → m (ForInStep σ)) (q : α → Bool) (g : α → σ → σ)
    (hq : ∀ a s, q a = true → f a s = pure (.done (g a s)))
    (hn : ∀ a s, q a = false → f a s = pure (.yield s)) :
    forIn l s f = pure (match l.find? q with | some a => g a s | none => s) := by
  induction l generalizing s with
  | nil => rfl
  | cons a l ih =>
    rw [List.forIn_cons]
    cases h : q a with
    | true => rw [hq a s h, pure_bind]; simp [h]
    | false => rw [hn a s h, pure_bind]; simp only [List.find?_cons, h]; exact ih s

theorem ite_pure (c : Prop) [Decidable c] (a b : α) :
    (if c then (pure a : m α) else pure b) = pure (if c then a else b) := by split <;> rfl
end loops

theorem is_empty_iff {α : Type} (l : List α) : Rs.is_empty l = true ↔ l = [] := by
  simp [Rs.is_empty, Rs.len]

/-! ### normal form of `generate_delta` (any `Ext`) -/

/-- loop state of `generate_delta`, in the order of the translation's tuple: `ops, literal_buffer, pos, rolling` -/
abbrev MemSt := List DeltaOp × List Nat × Nat × RollSt

/-- `if !literal_buffer.is_empty() { ops.push(Data(literal_buffer)) }` -/
def flushG (ops : List DeltaOp) (lit : List Nat) : List DeltaOp :=
  if (!Rs.is_empty lit) = true then ops ++ [DeltaOp.Data lit] else ops

/-- the three totalised accessors of the Prelude the generators use, as parameters (see `MemTotal`) -/
structure Acc where
  slice : List Nat → Nat → Nat → List Nat
  slice_from : List Nat → Nat → List Nat
  index : List Nat → Nat → Nat

/-- the Prelude's accessors -/
def Acc.rs : Acc := ⟨Rs.slice, Rs.slice_from, Rs.index⟩

/-- the `if !found_match { … }` block (generator.rs:355-366) -/
def litStep {W : Type} (A : Acc) (ext : Ext W) (data : List Nat) (bs : Nat) (ops : List DeltaOp) (lit : List Nat)
    (pos : Nat) (rolling : RollSt) : MemSt :=
  if (decide (pos + 1 > 0) && decide (pos + 1 + bs - 1 < Rs.len data)) = true then
    (ops, lit ++ [A.index data pos], pos + 1,
      ext.adler_roll rolling (A.index data (pos + 1 - 1)) (A.index data (pos + 1 + bs - 1)))
  else (ops, lit ++ [A.index data pos], pos + 1, rolling)

/-- one round of `while pos < source_data.len()` (generator.rs:280-367) as a pure function of the loop state -/
def memStepA {W : Type} (A : Acc) (ext : Ext W) (cmap : Rs.HashMap Nat (List BlockChecksum)) (data : List Nat)
    (bs : Nat) : MemSt → ForInStep MemSt
  | (ops, lit, pos, rolling) =>
    if (!decide (pos < Rs.len data)) = true then .done (ops, lit, pos, rolling)
    else if decide (Rs.len data - pos ≥ bs) = true then
      match Rs.get cmap (ext.adler_digest rolling) with
      | some cands =>
        match cands.find? (fun c => c.strong ==
            ext.xxh3_digest (ext.xxh3_update Rs.xxh3_new (A.slice data pos (pos + bs)))) with
        | some c =>
          .yield (flushG ops lit ++ [DeltaOp.Copy c.offset c.size], [], pos + bs,
            if decide (pos + bs + bs ≤ Rs.len data) = true then
              ext.adler_update_block rolling (A.slice data (pos + bs) (pos + bs + bs)) else rolling)
        | none => .yield (litStep A ext data bs ops lit pos rolling)
      | none => .yield (litStep A ext data bs ops lit pos rolling)
    else
      match Rs.get cmap (ext.Adler32_hash (A.slice_from data pos)) with
      | some cands =>
        match cands.find? (fun c => c.size == Rs.len (A.slice_from data pos) &&
            c.strong == ext.xxh3_digest (ext.xxh3_update Rs.xxh3_new (A.slice_from data pos))) with
        | some c =>
          .yield (flushG ops lit ++ [DeltaOp.Copy c.offset c.size], [], pos + Rs.len (A.slice_from data pos), rolling)
        | none => .yield (litStep A ext data bs ops lit pos rolling)
      | none => .yield (litStep A ext data bs ops lit pos rolling)

/-- … with the Prelude's accessors: this is what the translation computes -/
def memStep {W : Type} (ext : Ext W) (cmap : Rs.HashMap Nat (List BlockChecksum)) (data : List Nat) (bs : Nat) :
    MemSt → ForInStep MemSt := memStepA Acc.rs ext cmap data bs

/-- the `HashMap<u32, Vec<&BlockChecksum>>` built by the first loop -/
def buildMap (cs : List BlockChecksum) : Rs.HashMap Nat (List BlockChecksum) :=
  cs.foldl (fun m c => Rs.entry_push m c.weak c) []

/-- everything `generate_delta` does after `read_to_end` -/
def memResultA {W : Type} (A : Acc) (ext : Ext W) (cs : List BlockChecksum) (bs : Nat) (data : List Nat) : Delta :=
  if Rs.is_empty data = true then { ops := [], source_size := 0, block_size := bs }
  else
    let r0 := if decide (Rs.len data ≥ bs) = true then
        ext.adler_update_block (ext.Adler32_new bs) (A.slice data 0 bs) else ext.Adler32_new bs
    let s := iter (memStepA A ext (buildMap cs) data bs) (Rs.len data) ([], [], 0, r0)
    { ops := flushG s.1 s.2.1, source_size := Rs.len data, block_size := bs }

def memResult {W : Type} (ext : Ext W) (cs : List BlockChecksum) (bs : Nat) (data : List Nat) : Delta :=
  memResultA Acc.rs ext cs bs data

/-- the body of the `for _ in [0:len]` loop of `generate_delta` is the pure step `memStep` -/
local macro "mem_body_tac" ext:term "," data:term "," bs:term : tactic => `(tactic| (
  intro x s
  rcases s with ⟨ops, lit, pos, rolling⟩
  simp only [memStep, memStepA, buildMap, Acc.rs]
  split
  · rfl
  · split
    · split
      · rename_i cands hget
        rw [forIn_find _ _ _ (fun c => c.strong == Ext.xxh3_digest $ext (Ext.xxh3_update $ext Rs.xxh3_new (Rs.slice $data pos (pos + $bs))))
          (fun c s => (flushG s.1 s.2.1 ++ [DeltaOp.Copy c.offset c.size], [], s.2.2.1 + $bs,
            (if decide (s.2.2.1 + $bs + $bs ≤ Rs.len $data) = true then
              Ext.adler_update_block $ext s.2.2.2.1 (Rs.slice $data (s.2.2.1 + $bs) (s.2.2.1 + $bs + $bs)) else s.2.2.2.1), true))]
        · rw [pure_bind, hget]
          cases hfind : List.find? _ cands <;>
            simp only [hfind, litStep, ite_pure, apply_ite ForInStep.yield] <;> rfl
        · intro a s hq
          simp only [hq, if_true, flushG]
          split <;> split <;> simp_all [Rs.clear, is_empty_iff]
        · intro a s hq
          simp only [hq]; rfl
      · rename_i hget
        have hget' := Option.eq_none_iff_forall_ne_some.mpr (fun a h => hget a h)
        simp only [hget', litStep, ite_pure, apply_ite ForInStep.yield, Bool.not_false, if_true]
    · split
      · rename_i cands hget
        rw [forIn_find _ _ _ (fun c => c.size == Rs.len (Rs.slice_from $data pos) &&
              c.strong == Ext.xxh3_digest $ext (Ext.xxh3_update $ext Rs.xxh3_new (Rs.slice_from $data pos)))
          (fun c s => (flushG s.1 s.2.1 ++ [DeltaOp.Copy c.offset c.size], [], s.2.2.1 + Rs.len (Rs.slice_from $data pos), true))]
        · rw [pure_bind, hget]
          cases hfind : List.find? _ cands <;>
            simp only [hfind, litStep, ite_pure, apply_ite ForInStep.yield] <;> rfl
        · intro a s hq
          simp only [hq, if_true, flushG]
          split <;> simp_all [Rs.clear, is_empty_iff]
        · intro a s hq
          simp only [hq]; rfl
      · rename_i hget
        have hget' := Option.eq_none_iff_forall_ne_some.mpr (fun a h => hget a h)
        simp only [hget', litStep, ite_pure, apply_ite ForInStep.yield, Bool.not_false, if_true]))

/-- NORMAL FORM of the translated `generate_delta`, for every `Ext`: open, read everything, then the pure
    function `memResult` (a `for` loop of `len` rounds over the pure step `memStep`, then the final flush). -/
theorem generate_delta_nf {W : Type} (ext : Ext W) (p : Rs.Path) (cs : List BlockChecksum) (bs : Nat) :
    generate_delta ext p cs bs =
      (ext.File_open p >>= fun h => ext.h_read_to_end h [] >>= fun data => pure (memResult ext cs bs data)) := by
  unfold generate_delta
  simp only [List.forIn_pure_yield_eq_foldl, pure_bind, bind_pure_comp]
  refine bind_congr fun h => bind_congr fun data => ?_
  unfold memResult memResultA
  split
  · rfl
  · split
    · rw [forIn_range_pure _ _ _ (memStepA Acc.rs ext (buildMap cs) data bs) ?_]
      · simp only [pure_bind, flushG, Acc.rs]; split <;> simp only [*, if_true, if_false] <;> rfl
      · mem_body_tac ext, data, bs
    · rw [forIn_range_pure _ _ _ (memStepA Acc.rs ext (buildMap cs) data bs) ?_]
      · simp only [pure_bind, flushG, Acc.rs]; split <;> simp only [*, if_true, if_false] <;> rfl
      · mem_body_tac ext, data, bs

/-! ### the checksum map: buckets keep insertion order -/

theorem get_nil (k : Nat) : Rs.get ([] : Rs.HashMap Nat (List BlockChecksum)) k = none := rfl

theorem get_of_any (m : Rs.HashMap Nat (List BlockChecksum)) (k : Nat)
    (h : m.any (fun p => p.1 == k) = true) : ∃ b, Rs.get m k = some b := by
  induction m with
  | nil => simp at h
  | cons p t ih =>
    by_cases hp : p.1 = k
    · exact ⟨p.2, by simp [Rs.get, hp]⟩
    · have : t.any (fun p => p.1 == k) = true := by simpa [hp] using h
      obtain ⟨b, hb⟩ := ih this
      exact ⟨b, by simpa [Rs.get, hp] using hb⟩

theorem get_of_not_any (m : Rs.HashMap Nat (List BlockChecksum)) (k : Nat)
    (h : ¬ m.any (fun p => p.1 == k) = true) : Rs.get m k = none := by
  induction m with
  | nil => rfl
  | cons p t ih =>
    have hp : ¬ p.1 = k := by intro e; simp [e] at h
    have : ¬ t.any (fun p => p.1 == k) = true := by intro e; simp [e] at h
    simpa [Rs.get, hp] using ih this

theorem get_map_push (m : Rs.HashMap Nat (List BlockChecksum)) (k' : Nat) (v : BlockChecksum) (k : Nat) :
    Rs.get (m.map (fun p => if p.1 == k' then (p.1, p.2 ++ [v]) else p)) k =
      if k' = k then (Rs.get m k).map (· ++ [v]) else Rs.get m k := by
  induction m with
  | nil => simp [Rs.get]
  | cons p t ih =>
    have hf1 : (if p.1 == k' then (p.1, p.2 ++ [v]) else p).1 = p.1 := by split <;> rfl
    by_cases hp : p.1 = k
    · have h1 : ((if p.1 == k' then (p.1, p.2 ++ [v]) else p).1 == k) = true := by rw [hf1]; simpa using hp
      have h2 : (p.1 == k) = true := by simpa using hp
      simp only [Rs.get, List.map_cons] at ih ⊢
      simp only [List.find?_cons, h1, h2]
      by_cases hk : k' = k
      · have : p.1 = k' := hp.trans hk.symm
        simp [hk, this]
      · have : ¬ p.1 = k' := fun e => hk (e.symm.trans hp)
        simp [hk, this]
    · have h1 : ((if p.1 == k' then (p.1, p.2 ++ [v]) else p).1 == k) = false := by rw [hf1]; simpa using hp
      have h2 : (p.1 == k) = false := by simpa using hp
      simp only [Rs.get, List.map_cons] at ih ⊢
      simp only [List.find?_cons, h1, h2]
      exact ih

/-- `entry(k').or_default().push(v)`: only the bucket of `k'` changes, by appending at its END -/
theorem get_entry_push (m : Rs.HashMap Nat (List BlockChecksum)) (k' : Nat) (v : BlockChecksum) (k : Nat) :
    Rs.get (Rs.entry_push m k' v) k = if k' = k then some ((Rs.get m k).getD [] ++ [v]) else Rs.get m k := by
  unfold Rs.entry_push
  split
  · rename_i hany
    rw [get_map_push]
    split
    · rename_i hk; subst hk
      obtain ⟨b, hb⟩ := get_of_any m k' hany
      simp [hb]
    · rfl
  · rename_i hany
    have hnone := get_of_not_any m k' hany
    by_cases hk : k' = k
    · subst hk; simp only [Rs.get] at hnone ⊢
      have hn : List.find? (fun p => p.fst == k') m = none := by simpa using hnone
      simp [List.find?_append, hn]
    · simp [Rs.get, List.find?_append, hk]

theorem get_foldl_push (cs : List BlockChecksum) (m : Rs.HashMap Nat (List BlockChecksum)) (k : Nat) :
    Rs.get (cs.foldl (fun m c => Rs.entry_push m c.weak c) m) k =
      if cs.filter (fun c => c.weak == k) = [] then Rs.get m k
      else some ((Rs.get m k).getD [] ++ cs.filter (fun c => c.weak == k)) := by
  induction cs generalizing m with
  | nil => simp
  | cons c cs ih =>
    rw [List.foldl_cons, ih, get_entry_push]
    by_cases hc : c.weak = k
    · simp [hc]
    · simp [hc]

/-- the bucket of `k` is the sublist of the checksums with that weak hash, in the original order; no bucket
    when there is none -/
theorem get_buildMap (cs : List BlockChecksum) (k : Nat) :
    Rs.get (buildMap cs) k =
      if cs.filter (fun c => c.weak == k) = [] then none else some (cs.filter (fun c => c.weak == k)) := by
  rw [buildMap, get_foldl_push]; simp [get_nil]

/-! ### bytes and the Prelude's accessors -/

@[simp] theorem toU8_ofU8 (b : Bytes) : toU8 (ofU8 b) = b := by
  induction b with
  | nil => rfl
  | cons x t ih =>
    simp only [toU8, ofU8, List.map_cons, List.cons.injEq] at *
    exact ⟨by simp [Nat.toUInt8], ih⟩

@[simp] theorem len_ofU8 (l : Bytes) : Rs.len (ofU8 l) = l.length := by simp [Rs.len, ofU8]
@[simp] theorem length_ofU8 (l : Bytes) : (ofU8 l).length = l.length := by simp [ofU8]
theorem ofU8_append (a b : Bytes) : ofU8 (a ++ b) = ofU8 a ++ ofU8 b := by simp [ofU8]
@[simp] theorem ofU8_nil : ofU8 [] = [] := rfl
theorem ofU8_eq_nil (l : Bytes) : ofU8 l = [] ↔ l = [] := by simp [ofU8]
@[simp] theorem slice_ofU8 (l : Bytes) (lo hi : Nat) : Rs.slice (ofU8 l) lo hi = ofU8 ((l.drop lo).take (hi - lo)) := by
  simp [Rs.slice, ofU8, List.map_drop, List.map_take]
@[simp] theorem slice_from_ofU8 (l : Bytes) (lo : Nat) : Rs.slice_from (ofU8 l) lo = ofU8 (l.drop lo) := by
  simp [Rs.slice_from, ofU8, List.map_drop]
theorem index_ofU8 (pre : Bytes) (x : UInt8) (tl : Bytes) : Rs.index (ofU8 (pre ++ x :: tl)) pre.length = x.toNat := by
  simp [Rs.index, ofU8]

/-! ### the instance, field by field -/

/-- model rolling state ↦ code rolling state of a hasher created with `Adler32::new(bs)` -/
def rollOf (bs : Nat) (a : Delta.Adler) : RollSt := ⟨a.a, a.b, bs⟩

variable (strong : Bytes → Nat)

@[simp] theorem inst_new (bs : Nat) : (inst strong).Adler32_new bs = rollOf bs Delta.Adler.init := rfl
@[simp] theorem inst_digest (bs : Nat) (a : Delta.Adler) : (inst strong).adler_digest (rollOf bs a) = a.digest := rfl
@[simp] theorem inst_update (bs : Nat) (a : Delta.Adler) (l : List Nat) :
    (inst strong).adler_update_block (rollOf bs a) l = rollOf bs (Delta.Adler.ofBlock (toU8 l)) := rfl
@[simp] theorem inst_roll (bs : Nat) (a : Delta.Adler) (o n : Nat) :
    (inst strong).adler_roll (rollOf bs a) o n = rollOf bs (Delta.Adler.roll bs a o.toUInt8 n.toUInt8) := rfl
@[simp] theorem inst_hash (l : List Nat) : (inst strong).Adler32_hash l = Delta.hashBytes (toU8 l) := rfl
@[simp] theorem inst_strong (l : List Nat) :
    (inst strong).xxh3_digest ((inst strong).xxh3_update Rs.xxh3_new l) = strong (toU8 l) := by
  simp [inst, Rs.xxh3_new]

/-! ### the step of `generate_delta` on the instance is the step of `genMemGo` -/

/-- model loop state ↦ code loop state -/
def memSt (bs pos : Nat) (roll : Delta.Adler) (litRev : Bytes) (opsRev : List Delta.Op) : MemSt :=
  (opsRev.reverse.map repOp, ofU8 litRev.reverse, pos, rollOf bs roll)

theorem flushG_flush (litRev : Bytes) (opsRev : List Delta.Op) :
    flushG (opsRev.reverse.map repOp) (ofU8 litRev.reverse) = (Delta.flush litRev opsRev).reverse.map repOp := by
  cases litRev with
  | nil => simp [flushG, Delta.flush, Rs.is_empty, Rs.len]
  | cons x t => simp [flushG, Delta.flush, Rs.is_empty, repOp]

/-- the model's literal step (`genMemGo`, both `none` cases) -/
def litModel (bs : Nat) (x : UInt8) (tl : Bytes) (roll : Delta.Adler) : Delta.Adler :=
  match (x :: tl).drop bs with
  | y :: _ => Delta.Adler.roll bs roll x y
  | [] => roll

theorem litStep_inst (bs : Nat) (pre : Bytes) (x : UInt8) (tl : Bytes) (roll : Delta.Adler) (litRev : Bytes)
    (opsRev : List Delta.Op) :
    litStep Acc.rs (inst strong) (ofU8 (pre ++ x :: tl)) bs (opsRev.reverse.map repOp) (ofU8 litRev.reverse) pre.length
        (rollOf bs roll) = memSt bs (pre.length + 1) (litModel bs x tl roll) (x :: litRev) opsRev := by
  unfold litStep memSt litModel
  have e1 : pre.length + 1 - 1 = pre.length := by omega
  have e2 : pre.length + 1 + bs - 1 = pre.length + bs := by omega
  have e3 : decide (pre.length + 1 > 0) = true := by simp
  have e4 : ofU8 litRev.reverse ++ [x.toNat] = ofU8 (x :: litRev).reverse := by simp [ofU8]
  simp only [Acc.rs, index_ofU8, len_ofU8, List.length_append, List.length_cons, e1, e2, e3, e4, Bool.true_and]
  cases hd : (x :: tl).drop bs with
  | nil =>
    have : tl.length + 1 ≤ bs := by simpa using hd
    have hc : decide (pre.length + bs < pre.length + (tl.length + 1)) = false := by simp; omega
    simp only [hc, Bool.false_eq_true, if_false]
  | cons y r =>
    have hlt : bs < tl.length + 1 := by
      have := congrArg List.length hd; simp at this; omega
    have hc : decide (pre.length + bs < pre.length + (tl.length + 1)) = true := by simp; omega
    have hy : Rs.index (ofU8 (pre ++ x :: tl)) (pre.length + bs) = y.toNat := by
      have h1 : pre ++ x :: tl = (pre ++ (x :: tl).take bs) ++ y :: r := by
        rw [List.append_assoc, ← hd, List.take_append_drop]
      have h2 : pre.length + bs = (pre ++ (x :: tl).take bs).length := by
        simp [List.length_take]; omega
      rw [h1, h2, index_ofU8]
    simp only [hc, if_true, hy, inst_roll]
    simp [Nat.toUInt8]

theorem findFull_abs (cs : List BlockChecksum) (k st : Nat) :
    Delta.findFull (cs.map absBlock) k st = (cs.find? (fun c => c.weak == k && c.strong == st)).map absBlock := by
  unfold Delta.findFull; rw [List.find?_map]; rfl

theorem findPartial_abs (cs : List BlockChecksum) (k st len : Nat) :
    Delta.findPartial (cs.map absBlock) k st len =
      (cs.find? (fun c => c.weak == k && (c.size == len && c.strong == st))).map absBlock := by
  unfold Delta.findPartial; rw [List.find?_map]; rfl

/-- `checksum_map.get(&weak)` followed by the `for checksum in candidates { if q { …; break } }` scan is `find?` on
    the whole checksum list with the weak hash added to the test (DESIGN C04 (a)): either there is no bucket and
    no element passes, or the scan of the bucket finds what the scan of the whole list finds -/
theorem scan_buildMap (cs : List BlockChecksum) (k : Nat) (q : BlockChecksum → Bool) :
    (Rs.get (buildMap cs) k = none ∧ cs.find? (fun c => c.weak == k && q c) = none) ∨
    (∃ cands, Rs.get (buildMap cs) k = some cands ∧ cands.find? q = cs.find? (fun c => c.weak == k && q c)) := by
  rw [get_buildMap]
  by_cases hf : cs.filter (fun c => c.weak == k) = []
  · left
    refine ⟨by simp only [hf, if_true], ?_⟩
    rw [List.find?_eq_none]
    intro c hc
    have := List.filter_eq_nil_iff.mp hf c hc
    simp [this]
  · right
    refine ⟨cs.filter (fun c => c.weak == k), by simp only [hf, if_false], ?_⟩
    rw [List.find?_filter]
    simp only [Bool.decide_and, Bool.decide_eq_true]

theorem memStep_inst (cs : List BlockChecksum) (bs : Nat) (pre : Bytes) (x : UInt8) (tl : Bytes)
    (roll : Delta.Adler) (litRev : Bytes) (opsRev : List Delta.Op) :
    memStep (inst strong) (buildMap cs) (ofU8 (pre ++ x :: tl)) bs (memSt bs pre.length roll litRev opsRev) =
      .yield (
        if hasAtLeast bs (x :: tl) = true then
          match Delta.findFull (cs.map absBlock) roll.digest (strong ((x :: tl).take bs)) with
          | some c =>
            memSt bs (pre.length + bs)
              (if hasAtLeast bs ((x :: tl).drop bs) then Delta.Adler.ofBlock (((x :: tl).drop bs).take bs) else roll)
              [] (.copy c.offset c.size :: Delta.flush litRev opsRev)
          | none => memSt bs (pre.length + 1) (litModel bs x tl roll) (x :: litRev) opsRev
        else
          match Delta.findPartial (cs.map absBlock) (Delta.hashBytes (x :: tl)) (strong (x :: tl)) (x :: tl).length with
          | some c => memSt bs (pre.length + (x :: tl).length) roll [] (.copy c.offset c.size :: Delta.flush litRev opsRev)
          | none => memSt bs (pre.length + 1) (litModel bs x tl roll) (x :: litRev) opsRev) := by
  have hlit := litStep_inst strong bs pre x tl roll litRev opsRev
  simp only [memSt] at hlit ⊢
  simp only [memStep, memStepA, hlit]
  have hpos : (!decide (pre.length < Rs.len (ofU8 (pre ++ x :: tl)))) = false := by simp
  simp only [hpos, Bool.false_eq_true, if_false]
  have hdrop : (pre ++ x :: tl).drop pre.length = x :: tl := by simp
  have hrem : decide (Rs.len (ofU8 (pre ++ x :: tl)) - pre.length ≥ bs) = hasAtLeast bs (x :: tl) := by
    rw [Bool.eq_iff_iff, hasAtLeast_iff]; simp
  simp only [hrem]
  split
  · -- full block
    simp only [Acc.rs, slice_ofU8, inst_digest, inst_strong, toU8_ofU8, hdrop, Nat.add_sub_cancel_left, findFull_abs,
      flushG_flush]
    rcases scan_buildMap cs roll.digest (fun c => c.strong == strong (List.take bs (x :: tl))) with
      ⟨h1, h2⟩ | ⟨cands, h1, h2⟩ <;> simp only [h1, h2]
    · simp only [Option.map_none]
    · cases hfind : cs.find? _ with
      | none => simp only [Option.map_none]
      | some c =>
        simp only [Option.map_some, absBlock]
        have hd2 : (pre ++ x :: tl).drop (pre.length + bs) = (x :: tl).drop bs := by
          rw [← List.drop_drop, hdrop]
        have hc2 : decide (pre.length + bs + bs ≤ Rs.len (ofU8 (pre ++ x :: tl))) = hasAtLeast bs ((x :: tl).drop bs) := by
          rw [Bool.eq_iff_iff, hasAtLeast_iff]; simp; omega
        rw [hc2, hd2]
        cases hasAtLeast bs ((x :: tl).drop bs) <;> simp [repOp]
  · -- partial block at the end
    have hlen : Rs.len (ofU8 (x :: tl)) = (x :: tl).length := len_ofU8 _
    simp only [Acc.rs, slice_from_ofU8, inst_hash, inst_strong, toU8_ofU8, hdrop, findPartial_abs, flushG_flush, hlen]
    rcases scan_buildMap cs (Delta.hashBytes (x :: tl))
        (fun c => c.size == (x :: tl).length && c.strong == strong (x :: tl)) with
      ⟨h1, h2⟩ | ⟨cands, h1, h2⟩ <;> simp only [h1, h2]
    · simp only [Option.map_none]
    · cases hfind : cs.find? _ with
      | none => simp only [Option.map_none]
      | some c =>
        simp only [Option.map_some, absBlock]
        simp [repOp]

/-! ### the loop of `generate_delta` on the instance is `genMemGo` -/

/-- at `pos ≥ len` the loop condition fails: `break` (any `Ext`, any accessors) -/
theorem memStepA_done {W : Type} (A : Acc) (ext : Ext W) (cmap : Rs.HashMap Nat (List BlockChecksum)) (data : List Nat)
    (bs : Nat) (s : MemSt) (h : data.length ≤ s.2.2.1) : memStepA A ext cmap data bs s = .done s := by
  rcases s with ⟨ops, lit, pos, rolling⟩
  have : (!decide (pos < Rs.len data)) = true := by simp [Rs.len]; exact h
  simp only [memStepA, this, if_true]

theorem memStep_done {W : Type} (ext : Ext W) (cmap : Rs.HashMap Nat (List BlockChecksum)) (data : List Nat)
    (bs : Nat) (s : MemSt) (h : data.length ≤ s.2.2.1) : memStep ext cmap data bs s = .done s :=
  memStepA_done Acc.rs ext cmap data bs s h

theorem iter_done {σ : Type} (step : σ → ForInStep σ) (s : σ) (h : step s = .done s) (k : Nat) : iter step k s = s := by
  cases k with
  | zero => rfl
  | succ k => simp only [iter, h]

/-- (b) LOOP INVARIANT: from the code state that represents the model state (`memSt`: position = length of the
    consumed prefix, accumulators reversed), `fuel ≥ |rest|` rounds of the translated loop followed by the final
    flush give the model's `genMemGo` on the suffix. -/
theorem memLoop_eq (cs : List BlockChecksum) (bs : Nat) (hbs : 0 < bs) (new : Bytes)
    (rest : Bytes) (roll : Delta.Adler) (litRev : Bytes) (opsRev : List Delta.Op)
    (pre : Bytes) (hnew : pre ++ rest = new) (fuel : Nat) (hf : rest.length ≤ fuel) :
    flushG (iter (memStep (inst strong) (buildMap cs) (ofU8 new) bs) fuel (memSt bs pre.length roll litRev opsRev)).1
        (iter (memStep (inst strong) (buildMap cs) (ofU8 new) bs) fuel (memSt bs pre.length roll litRev opsRev)).2.1 =
      (Delta.genMemGo strong (cs.map absBlock) bs rest roll litRev opsRev).map repOp := by
  fun_induction Delta.genMemGo strong (cs.map absBlock) bs rest roll litRev opsRev generalizing pre fuel with
  | case1 roll litRev opsRev =>
    have hlen : (ofU8 new).length ≤ (memSt bs pre.length roll litRev opsRev).2.2.1 := by
      simp [memSt, ← hnew]
    rw [iter_done _ _ (memStep_done _ _ _ _ _ hlen)]
    simp only [memSt, flushG_flush]
  | case2 x tl roll litRev opsRev hfull c hfind hbs0 => omega
  | case3 x tl roll litRev opsRev hfull c hfind hbs0 rest' roll' ih =>
    obtain ⟨k, rfl⟩ : ∃ k, fuel = k + 1 := ⟨fuel - 1, by simp at hf; omega⟩
    subst hnew
    simp only [iter, memStep_inst, hfull, if_true, hfind]
    have hlen := (hasAtLeast_iff bs (x :: tl)).mp hfull
    have hpl : (pre ++ (x :: tl).take bs).length = pre.length + bs := by
      simp [List.length_take] at hlen ⊢; omega
    have := ih (pre ++ (x :: tl).take bs) (by simp [rest']) k (by
      simp only [rest', List.length_drop, List.length_cons] at hf hlen ⊢; omega)
    rw [hpl] at this
    exact this
  | case4 x tl roll litRev opsRev hfull hfind roll' ih =>
    obtain ⟨k, rfl⟩ : ∃ k, fuel = k + 1 := ⟨fuel - 1, by simp at hf; omega⟩
    subst hnew
    simp only [iter, memStep_inst, hfull, if_true, hfind]
    have hr : litModel bs x tl roll = roll' := by
      unfold litModel; simp only [roll']; generalize List.drop bs (x :: tl) = d; cases d <;> rfl
    have := ih (pre ++ [x]) (by simp) k (by simp at hf; omega)
    rw [hr]
    simpa using this
  | case5 x tl roll litRev opsRev hfull c hfind =>
    obtain ⟨k, rfl⟩ : ∃ k, fuel = k + 1 := ⟨fuel - 1, by simp at hf; omega⟩
    subst hnew
    simp only [iter, memStep_inst, hfull, hfind]
    have hlen : (ofU8 (pre ++ x :: tl)).length ≤
        (memSt bs (pre.length + (x :: tl).length) roll [] (.copy c.offset c.size :: Delta.flush litRev opsRev)).2.2.1 := by
      simp [memSt]
    simp only [Bool.false_eq_true, if_false]
    rw [iter_done _ _ (memStep_done _ _ _ _ _ hlen)]
    simp [memSt, flushG, Rs.is_empty, Rs.len]
  | case6 x tl roll litRev opsRev hfull hfind roll' ih =>
    obtain ⟨k, rfl⟩ : ∃ k, fuel = k + 1 := ⟨fuel - 1, by simp at hf; omega⟩
    subst hnew
    simp only [iter, memStep_inst, hfull, hfind]
    have hr : litModel bs x tl roll = roll' := by
      unfold litModel; simp only [roll']; generalize List.drop bs (x :: tl) = d; cases d <;> rfl
    have := ih (pre ++ [x]) (by simp) k (by simp at hf; omega)
    rw [hr]
    simpa using this

/-! ### (c) the fuel of the translated `while` is enough; (5) the totalised accessors are only used in range -/

section fuel
variable {W : Type} (ext : Ext W) (cmap : Rs.HashMap Nat (List BlockChecksum)) (data : List Nat) (bs : Nat)

/-- the loop only stops through its own condition, with the state unchanged -/
theorem memStep_done_inv (s s' : MemSt) (h : memStep ext cmap data bs s = .done s') :
    s' = s ∧ data.length ≤ s.2.2.1 := by
  rcases s with ⟨ops, lit, pos, rolling⟩
  simp only [memStep, memStepA] at h
  split at h
  · rename_i hc
    injection h with h
    exact ⟨h.symm, by simpa [Rs.len] using hc⟩
  · repeat' (split at h)
    all_goals cases h

/-- PROGRESS: with `0 < block_size` every round that does not stop advances `pos` by at least one byte and stays
    inside the data -/
theorem memStep_advances (hbs : 0 < bs) (s s' : MemSt) (h : memStep ext cmap data bs s = .yield s') :
    s.2.2.1 < s'.2.2.1 ∧ s'.2.2.1 ≤ data.length := by
  rcases s with ⟨ops, lit, pos, rolling⟩
  simp only [memStep, memStepA, litStep, Acc.rs] at h
  split at h
  · cases h
  · rename_i hc
    have hpos : pos < data.length := by simpa [Rs.len] using hc
    repeat' (split at h)
    all_goals (injection h with h; subst h; simp [Rs.len, Rs.slice_from] at *; omega)

/-- (c) FUEL: the translation runs the `while` as `for _ in [0:len]` with `break`.  `len - pos` rounds are enough
    for the loop to stop by itself: the final state has `pos = len` (the `while` condition is false) and more fuel
    changes nothing — so the bounded loop is the Rust `while`. -/
theorem fuel_sufficient (hbs : 0 < bs) (fuel : Nat) (s : MemSt) (hpos : s.2.2.1 ≤ data.length)
    (hf : data.length - s.2.2.1 ≤ fuel) :
    (iter (memStep ext cmap data bs) fuel s).2.2.1 = data.length ∧
      ∀ extra, iter (memStep ext cmap data bs) (fuel + extra) s = iter (memStep ext cmap data bs) fuel s := by
  induction fuel generalizing s with
  | zero =>
    have hd := memStep_done ext cmap data bs s (by omega)
    exact ⟨by simp only [iter]; omega, fun extra => by rw [iter_done _ _ hd]; rfl⟩
  | succ k ih =>
    cases hstep : memStep ext cmap data bs s with
    | done s' =>
      obtain ⟨rfl, hlen⟩ := memStep_done_inv ext cmap data bs s s' hstep
      refine ⟨by simp only [iter, hstep]; omega, fun extra => ?_⟩
      rw [iter_done _ _ hstep, iter_done _ _ hstep]
    | yield s' =>
      obtain ⟨h1, h2⟩ := memStep_advances ext cmap data bs hbs s s' hstep
      obtain ⟨i1, i2⟩ := ih s' h2 (by omega)
      refine ⟨by simpa only [iter, hstep] using i1, fun extra => ?_⟩
      have : k + 1 + extra = (k + extra) + 1 := by omega
      rw [this]
      simpa only [iter, hstep] using i2 extra
end fuel

/-- accessors that agree with the Prelude's totalised `Rs.slice` / `Rs.slice_from` / `Rs.index` wherever Rust does
    not panic (`lo ≤ hi ≤ len`, `lo ≤ len`, `i < len`) and are ARBITRARY elsewhere -/
structure Acc.InRange (A : Acc) : Prop where
  slice : ∀ l lo hi, lo ≤ hi → hi ≤ l.length → A.slice l lo hi = Rs.slice l lo hi
  slice_from : ∀ l lo, lo ≤ l.length → A.slice_from l lo = Rs.slice_from l lo
  index : ∀ l i, i < l.length → A.index l i = Rs.index l i

section total
variable {W : Type} (A : Acc) (hA : A.InRange) (ext : Ext W) (cmap : Rs.HashMap Nat (List BlockChecksum))
  (data : List Nat) (bs : Nat)
include hA

theorem litStep_inRange (ops : List DeltaOp) (lit : List Nat) (pos : Nat) (rolling : RollSt) (hpos : pos < data.length) :
    litStep A ext data bs ops lit pos rolling = litStep Acc.rs ext data bs ops lit pos rolling := by
  unfold litStep
  rw [hA.index data pos hpos]
  split
  · rename_i hc
    have : pos + 1 + bs - 1 < data.length := by simpa [Rs.len] using hc
    rw [hA.index data _ (by omega), hA.index data _ this]; rfl
  · rfl

/-- (5) one round of the loop never looks at an out-of-range slice or index: its result does not depend on what
    the accessors answer there -/
theorem memStepA_inRange (s : MemSt) (hpos : s.2.2.1 ≤ data.length) :
    memStepA A ext cmap data bs s = memStep ext cmap data bs s := by
  rcases s with ⟨ops, lit, pos, rolling⟩
  simp only [memStep, memStepA]
  split
  · rfl
  · rename_i hc
    have hlt : pos < data.length := by simpa [Rs.len] using hc
    simp only [litStep_inRange A hA ext data bs _ _ _ _ hlt]
    split
    · rename_i hfull
      have hfull' : pos + bs ≤ data.length := by simp [Rs.len] at hfull; omega
      rw [hA.slice data pos (pos + bs) (by omega) hfull']
      have : (if decide (pos + bs + bs ≤ Rs.len data) = true then
            ext.adler_update_block rolling (A.slice data (pos + bs) (pos + bs + bs)) else rolling) =
          (if decide (pos + bs + bs ≤ Rs.len data) = true then
            ext.adler_update_block rolling (Acc.rs.slice data (pos + bs) (pos + bs + bs)) else rolling) := by
        split
        · rename_i h2
          rw [hA.slice data _ _ (by omega) (by simpa [Rs.len] using h2)]; rfl
        · rfl
      simp only [this]; rfl
    · rw [hA.slice_from data pos (by omega)]; rfl

theorem iter_inRange (fuel : Nat) (hbs : 0 < bs) (s : MemSt) (hpos : s.2.2.1 ≤ data.length) :
    iter (memStepA A ext cmap data bs) fuel s = iter (memStep ext cmap data bs) fuel s := by
  induction fuel generalizing s with
  | zero => rfl
  | succ k ih =>
    simp only [iter, memStepA_inRange A hA ext cmap data bs s hpos]
    cases hstep : memStep ext cmap data bs s with
    | done s' => rfl
    | yield s' => exact ih s' (memStep_advances ext cmap data bs hbs s s' hstep).2

/-- (5) THE TOTALISATION IS NEVER EXERCISED: everything `generate_delta` computes after reading the file is the
    same for every choice of out-of-range answers of `&v[a..b]`, `&v[a..]`, `v[i]` (any `Ext`, any data). -/
theorem memResultA_inRange (cs : List BlockChecksum) (hbs : 0 < bs) :
    memResultA A ext cs bs data = memResult ext cs bs data := by
  unfold memResult memResultA
  split
  · rfl
  · have h0 : (if decide (Rs.len data ≥ bs) = true then
          ext.adler_update_block (ext.Adler32_new bs) (A.slice data 0 bs) else ext.Adler32_new bs) =
        (if decide (Rs.len data ≥ bs) = true then
          ext.adler_update_block (ext.Adler32_new bs) (Acc.rs.slice data 0 bs) else ext.Adler32_new bs) := by
      split
      · rename_i h2
        rw [hA.slice data 0 bs (by omega) (by simpa [Rs.len] using h2)]; rfl
      · rfl
    simp only [h0]
    rw [iter_inRange A hA ext (buildMap cs) data bs _ hbs _ (by simp)]
    rfl
end total

end SyModel.GenDelta
