/-
  SyModel.Lemmas.StepsCrash — crash states (prefixes of interleavings): localisation to one task,
  node-level analysis of the step lists of file / link / delete tasks.
-/
import SyModel.Lemmas.StepsRun
set_option linter.unusedVariables false
namespace SyModel.Engine

/-! ### localising a crash state to one task -/

theorem progress_split {g : Progress Step} {pre post : List (List Step)} {L : List Step}
    (h : g.wholes = pre ++ L :: post) :
    ∃ gpre d gpost, g = gpre ++ d :: gpost ∧ Progress.wholes gpre = pre ∧ d.1 ++ d.2 = L ∧
      Progress.wholes gpost = post := by
  unfold Progress.wholes at h
  obtain ⟨l1, l2, hg, h1, h2⟩ := List.map_eq_append_iff.mp h
  obtain ⟨d, l3, hl2, hd, h3⟩ := List.map_eq_cons_iff.mp h2
  exact ⟨l1, d, l3, by rw [hg, hl2], h1, hd, h3⟩

theorem exclusive_of_step {pre post : List (List Step)} {L : List Step}
    (hind : PairwiseIndep (pre ++ L :: post)) {s : Step} (hs : s ∈ L) {x : Path}
    (hx : s.touches x = true) (hm : s.isMkdir = false) (hd : s.isDeletion = false) :
    ∀ l ∈ pre ++ post, ∀ t ∈ l, t.touches x = false := by
  intro l hl t ht
  cases htx : t.touches x with
  | false => rfl
  | true =>
    exfalso
    rcases indep_touch (pairwise_split hind l hl s hs t ht) hx htx with ⟨h, _⟩ | ⟨h, _⟩
    · rw [h] at hm; cases hm
    · rw [h] at hd; cases hd

/-- In the crash state `applyAll (σ.take k) w`, every path that only the list `L` touches holds
    what a prefix of `L` — the same prefix for all such paths — makes of the initial world. -/
theorem crash_task_local {pre post : List (List Step)} {L σ : List Step}
    (hind : PairwiseIndep (pre ++ L :: post)) (hσ : Interleaving (pre ++ L :: post) σ) (k : Nat)
    (w : SWorld) :
    ∃ n, ∀ x, (∀ l ∈ pre ++ post, ∀ s ∈ l, s.touches x = false) →
      applyAll (σ.take k) w x = applyAll (L.take n) w x := by
  obtain ⟨g, hg, hd, _⟩ := hσ.toShuffleN.split k
  obtain ⟨gpre, d, gpost, rfl, hpre, hL, hpost⟩ := progress_split hg
  have hind' : PairwiseIndep (Progress.dones (gpre ++ d :: gpost)) :=
    progress_dones_indep (by rw [hg]; exact hind)
  have hdones : Progress.dones (gpre ++ d :: gpost) =
      Progress.dones gpre ++ d.1 :: Progress.dones gpost := by simp [Progress.dones]
  rw [hdones] at hd hind'
  refine ⟨d.1.length, fun x hx => ?_⟩
  have hothers : ∀ l ∈ Progress.dones gpre ++ Progress.dones gpost, ∀ s ∈ l, s.touches x = false := by
    intro l hl s hs
    have : ∃ d' ∈ gpre ++ gpost, l = d'.1 := by
      simp only [Progress.dones, List.mem_append, List.mem_map] at hl ⊢
      rcases hl with ⟨d', h, rfl⟩ | ⟨d', h, rfl⟩
      · exact ⟨d', Or.inl h, rfl⟩
      · exact ⟨d', Or.inr h, rfl⟩
    obtain ⟨d', hd', rfl⟩ := this
    apply hx (d'.1 ++ d'.2) _ s (by simp [hs])
    rw [← hpre, ← hpost]
    simp only [Progress.wholes, List.mem_append, List.mem_map] at hd' ⊢
    rcases hd' with h | h
    · exact Or.inl ⟨d', h, rfl⟩
    · exact Or.inr ⟨d', h, rfl⟩
  rw [crash_owned hind' hd x hothers, ← hL]
  simp

/-- Paths at which every step of the run is absorbing (the shared `mkdir`s, the deletions) hold the
    initial or the final node at every crash point. -/
theorem crash_absorbing {ls : List (List Step)} {σ : List Step} (hσ : Interleaving ls σ)
    (x : Path) (v : Option SNode) (h : ∀ l ∈ ls, ∀ s ∈ l, Absorbs v x s) (k : Nat) (w : SWorld) :
    applyAll (σ.take k) w x = w x ∨ applyAll (σ.take k) w x = applyAll σ w x := by
  apply absorbing_crash (v := v)
  intro s hs
  obtain ⟨l, hl, hsl⟩ := (hσ.toShuffleN.mem_iff s).mp hs
  exact h l hl s hsl

theorem absorbs_class_mkdir {ls : List (List Step)} {x : Path}
    (hM : ∀ l ∈ ls, ∀ s ∈ l, s.touches x = true → s = .mkdir x) :
    ∀ l ∈ ls, ∀ s ∈ l, Absorbs (some .dir) x s := by
  intro l hl s hs
  cases htx : s.touches x with
  | false => exact absorbs_of_not_touch _ x s htx
  | true => rw [hM l hl s hs htx]; exact absorbs_mkdir x

theorem absorbs_class_deletion {ls : List (List Step)} {x : Path}
    (hD : ∀ l ∈ ls, ∀ s ∈ l, s.touches x = true → s.isDeletion = true) :
    ∀ l ∈ ls, ∀ s ∈ l, Absorbs none x s := by
  intro l hl s hs
  cases htx : s.touches x with
  | false => exact absorbs_of_not_touch _ x s htx
  | true => exact absorbs_deletion x s (hD l hl s hs htx)


/-! ### node-level runs of single-path step lists -/

/-- the node at `p` under a list of single-path steps -/
def nodeRun (p : Path) (l : List Step) (n : Option SNode) : Option SNode :=
  l.foldl (fun n s => if s.path = p then s.nodeFn n else n) n

@[simp] theorem nodeRun_nil (p : Path) (n : Option SNode) : nodeRun p [] n = n := rfl
@[simp] theorem nodeRun_cons (p : Path) (s : Step) (l : List Step) (n : Option SNode) :
    nodeRun p (s :: l) n = nodeRun p l (if s.path = p then s.nodeFn n else n) := rfl
theorem nodeRun_append (p : Path) (a b : List Step) (n : Option SNode) :
    nodeRun p (a ++ b) n = nodeRun p b (nodeRun p a n) := by simp [nodeRun, List.foldl_append]

theorem applyAll_single (l : List Step) (hl : ∀ s ∈ l, s.single = true) (w : SWorld) (p : Path) :
    applyAll l w p = nodeRun p l (w p) := by
  induction l generalizing w with
  | nil => rfl
  | cons s l ih =>
    simp only [applyAll_cons, nodeRun_cons]
    rw [ih (fun t ht => hl t (by simp [ht])), apply_single s (hl s (by simp)), upd_apply]
    by_cases h : s.path = p
    · subst h; simp
    · have : ¬ p = s.path := fun e => h e.symm
      simp [h, this]

/-- a segment of a step list: from any node satisfying `Pin`, every prefix yields a `Good` node and
    the whole segment yields a node satisfying `Pout` -/
def Seg (p : Path) (Good : Option SNode → Prop) (A : List Step) (Pin Pout : Option SNode → Prop) : Prop :=
  ∀ i, Pin i → (∀ n, Good (nodeRun p (A.take n) i)) ∧ Pout (nodeRun p A i)

theorem seg_append {p : Path} {Good : Option SNode → Prop} {A B : List Step}
    {P Q R : Option SNode → Prop} (hA : Seg p Good A P Q) (hB : Seg p Good B Q R) :
    Seg p Good (A ++ B) P R := by
  intro i hi
  obtain ⟨hA1, hA2⟩ := hA i hi
  obtain ⟨hB1, hB2⟩ := hB _ hA2
  refine ⟨fun n => ?_, by rw [nodeRun_append]; exact hB2⟩
  rw [List.take_append, nodeRun_append]
  by_cases hn : n ≤ A.length
  · have : n - A.length = 0 := by omega
    rw [this]; simp; exact hA1 n
  · have : A.take n = A := List.take_of_length_le (by omega)
    rw [this]; exact hB1 _

theorem seg_nil {p : Path} {Good P : Option SNode → Prop} (h : ∀ i, P i → Good i) :
    Seg p Good [] P P := fun i hi => ⟨fun n => by simpa using h i hi, hi⟩

theorem seg_step {p : Path} {Good P Q : Option SNode → Prop} (s : Step) (hp : s.path = p)
    (hP : ∀ i, P i → Good i) (hQ : ∀ i, Q i → Good i) (hPQ : ∀ i, P i → Q (s.nodeFn i)) :
    Seg p Good [s] P Q := by
  intro i hi
  refine ⟨fun n => ?_, by simpa [hp] using hPQ i hi⟩
  cases n with
  | zero => simpa using hP i hi
  | succ n => simpa [hp] using hQ _ (hPQ i hi)

theorem seg_skip {p : Path} {Good P : Option SNode → Prop} (A : List Step)
    (hA : ∀ s ∈ A, s.path ≠ p) (h : ∀ i, P i → Good i) : Seg p Good A P P := by
  have key : ∀ (B : List Step), (∀ s ∈ B, s.path ≠ p) → ∀ i, nodeRun p B i = i := by
    intro B hB i
    induction B generalizing i with
    | nil => rfl
    | cons s B ih =>
      simp only [nodeRun_cons, hB s (by simp), ↓reduceIte]
      exact ih (fun t ht => hB t (by simp [ht])) i
  intro i hi
  refine ⟨fun n => ?_, by rw [key A hA]; exact hi⟩
  rw [key _ (fun s hs => hA s (List.mem_of_mem_take hs))]; exact h i hi

theorem seg_pre {p : Path} {Good P P' Q : Option SNode → Prop} {A : List Step}
    (h : Seg p Good A P Q) (hP : ∀ i, P' i → P i) : Seg p Good A P' Q := fun i hi => h i (hP i hi)

/-! ### the chunk boundaries -/

theorem uptos_le {ch sz u : Nat} (h : u ∈ uptos ch sz) : u ≤ sz := by
  unfold uptos at h
  rcases List.mem_append.mp h with h | h
  · obtain ⟨i, hi, rfl⟩ := List.mem_map.mp h
    rw [List.mem_range] at hi
    calc (i + 1) * ch ≤ (sz / ch) * ch := Nat.mul_le_mul_right _ hi
      _ ≤ sz := Nat.div_mul_le_self sz ch
  · split at h
    · simp at h
    · simp at h; omega

theorem uptos_zero (ch : Nat) : uptos ch 0 = [] := by simp [uptos]

theorem uptos_last {ch sz : Nat} (h : 0 < sz) : ∃ init, uptos ch sz = init ++ [sz] := by
  unfold uptos
  by_cases hm : sz % ch = 0
  · simp only [hm, ↓reduceIte, List.append_nil]
    have hch : 0 < ch := by
      rcases Nat.eq_zero_or_pos ch with h0 | h0
      · subst h0; simp at hm; omega
      · exact h0
    have hk : 0 < sz / ch := by
      have : sz = ch * (sz / ch) := by
        have := Nat.div_add_mod sz ch; omega
      rcases Nat.eq_zero_or_pos (sz / ch) with h0 | h0
      · rw [h0] at this; omega
      · exact h0
    obtain ⟨k, hk'⟩ : ∃ k, sz / ch = k + 1 := ⟨sz / ch - 1, by omega⟩
    rw [hk', List.range_succ, List.map_append]
    refine ⟨(List.range k).map (fun i => (i + 1) * ch), ?_⟩
    congr 1
    simp only [List.map_cons, List.map_nil, List.cons.injEq, and_true]
    rw [← hk']
    have := Nat.div_add_mod sz ch
    rw [hm] at this
    rw [Nat.mul_comm]; omega
  · simp only [hm, ↓reduceIte]
    exact ⟨_, rfl⟩


/-! ### what an interrupted file write leaves at its path -/

/-- the nodes a file task (source meta `m`, clock `now`) can leave at its destination path when it
    is interrupted, `init` being the node before its first step.  (`hol`: the task goes through the
    `set_len`-first sparse copier.)  A directory at the path makes every step fail: the node stays. -/
def FileCrashNode (hol : Prop) (m : FileMeta) (now : Nat) (init : Option SNode) (i : Option SNode) : Prop :=
  i = init ∨ (init ≠ some .dir ∧
    (i = none ∨ (∃ l, l ≤ m.size ∧ i = some (.file m.content l now)) ∨
     (hol ∧ ∃ d, d ≤ m.size ∧ 0 < m.size ∧ i = some (.holey m.content m.size d now)) ∨
     i = some (.file m.content m.size m.mtime)))

def PhD (m : FileMeta) (now : Nat) (init : Option SNode) (i : Option SNode) : Prop :=
  init = some .dir ∧ i = some .dir
def Ph0 (m : FileMeta) (now : Nat) (init : Option SNode) (i : Option SNode) : Prop :=
  i = init ∨ (init ≠ some .dir ∧ i = none)
def Ph1 (m : FileMeta) (now : Nat) (init : Option SNode) (i : Option SNode) : Prop :=
  PhD m now init i ∨ (init ≠ some .dir ∧ ∃ l, l ≤ m.size ∧ i = some (.file m.content l now))
def Ph1z (m : FileMeta) (now : Nat) (init : Option SNode) (i : Option SNode) : Prop :=
  PhD m now init i ∨ (init ≠ some .dir ∧ i = some (.file m.content 0 now))
def PhH (m : FileMeta) (now : Nat) (init : Option SNode) (i : Option SNode) : Prop :=
  PhD m now init i ∨ (init ≠ some .dir ∧
    ((0 < m.size ∧ ∃ d, d ≤ m.size ∧ i = some (.holey m.content m.size d now)) ∨
     (m.size = 0 ∧ i = some (.file m.content 0 now))))
def Ph2 (m : FileMeta) (now : Nat) (init : Option SNode) (i : Option SNode) : Prop :=
  PhD m now init i ∨ (init ≠ some .dir ∧ i = some (.file m.content m.size now))
def Ph3 (m : FileMeta) (now : Nat) (init : Option SNode) (i : Option SNode) : Prop :=
  PhD m now init i ∨ (init ≠ some .dir ∧ i = some (.file m.content m.size m.mtime))

section phases
variable (hol : Prop) (m : FileMeta) (now : Nat) (init : Option SNode)

theorem phD_good {i : Option SNode} (h : PhD m now init i) : FileCrashNode hol m now init i :=
  Or.inl (by rw [h.2, h.1])
theorem ph0_good {i : Option SNode} (h : Ph0 m now init i) : FileCrashNode hol m now init i := by
  rcases h with h | ⟨hn, h⟩
  · exact Or.inl h
  · exact Or.inr ⟨hn, Or.inl h⟩
theorem ph1_good {i : Option SNode} (h : Ph1 m now init i) : FileCrashNode hol m now init i := by
  rcases h with h | ⟨hn, h⟩
  · exact phD_good hol m now init h
  · exact Or.inr ⟨hn, Or.inr (Or.inl h)⟩
theorem ph1z_good {i : Option SNode} (h : Ph1z m now init i) : FileCrashNode hol m now init i := by
  rcases h with h | ⟨hn, h⟩
  · exact phD_good hol m now init h
  · exact Or.inr ⟨hn, Or.inr (Or.inl ⟨0, Nat.zero_le _, h⟩)⟩
theorem phH_good (hh : hol) {i : Option SNode} (h : PhH m now init i) : FileCrashNode hol m now init i := by
  rcases h with h | ⟨hn, ⟨h0, d, hd, h⟩ | ⟨h0, h⟩⟩
  · exact phD_good hol m now init h
  · exact Or.inr ⟨hn, Or.inr (Or.inr (Or.inl ⟨hh, d, hd, h0, h⟩))⟩
  · exact Or.inr ⟨hn, Or.inr (Or.inl ⟨0, Nat.zero_le _, h⟩)⟩
theorem ph2_good {i : Option SNode} (h : Ph2 m now init i) : FileCrashNode hol m now init i := by
  rcases h with h | ⟨hn, h⟩
  · exact phD_good hol m now init h
  · exact Or.inr ⟨hn, Or.inr (Or.inl ⟨m.size, Nat.le_refl _, h⟩)⟩
theorem ph3_good {i : Option SNode} (h : Ph3 m now init i) : FileCrashNode hol m now init i := by
  rcases h with h | ⟨hn, h⟩
  · exact phD_good hol m now init h
  · exact Or.inr ⟨hn, Or.inr (Or.inr (Or.inr h))⟩

variable (p : Path)

theorem seg_unlinkIfSymlink :
    Seg p (FileCrashNode hol m now init) [Step.unlinkIfSymlink p] (Ph0 m now init) (Ph0 m now init) := by
  refine seg_step _ rfl (fun i hi => ph0_good hol m now init hi) (fun i hi => ph0_good hol m now init hi) ?_
  intro i hi
  rcases hi with rfl | ⟨hn, rfl⟩
  · simp only [Step.nodeFn]; split
    · exact Or.inr ⟨by simp, rfl⟩
    · exact Or.inl rfl
  · exact Or.inr ⟨hn, rfl⟩

theorem seg_unlink :
    Seg p (FileCrashNode hol m now init) [Step.unlink p] (Ph0 m now init) (Ph0 m now init) := by
  refine seg_step _ rfl (fun i hi => ph0_good hol m now init hi) (fun i hi => ph0_good hol m now init hi) ?_
  intro i hi
  rcases hi with rfl | ⟨hn, rfl⟩
  · simp only [Step.nodeFn]; split
    · exact Or.inl rfl
    · rename_i hnd; exact Or.inr ⟨fun h => hnd h, rfl⟩
  · exact Or.inr ⟨hn, rfl⟩

theorem seg_openTrunc :
    Seg p (FileCrashNode hol m now init) [Step.openTrunc p m.content now] (Ph0 m now init) (Ph1z m now init) := by
  refine seg_step _ rfl (fun i hi => ph0_good hol m now init hi) (fun i hi => ph1z_good hol m now init hi) ?_
  intro i hi
  rcases hi with rfl | ⟨hn, rfl⟩
  · simp only [Step.nodeFn]
    split
    · exact Or.inl ⟨rfl, rfl⟩
    · rename_i hnd; exact Or.inr ⟨fun h => hnd h, rfl⟩
  · exact Or.inr ⟨hn, rfl⟩

theorem seg_utimens :
    Seg p (FileCrashNode hol m now init) [Step.utimens p m.mtime] (Ph2 m now init) (Ph3 m now init) := by
  refine seg_step _ rfl (fun i hi => ph2_good hol m now init hi) (fun i hi => ph3_good hol m now init hi) ?_
  intro i hi
  rcases hi with h | ⟨hn, rfl⟩
  · left; rw [h.2]; exact ⟨h.1, rfl⟩
  · right; exact ⟨hn, rfl⟩

theorem seg_setLen (hh : hol) :
    Seg p (FileCrashNode hol m now init) [Step.setLen p m.content m.size] (Ph1z m now init) (PhH m now init) := by
  refine seg_step _ rfl (fun i hi => ph1z_good hol m now init hi) (fun i hi => phH_good hol m now init hh hi) ?_
  intro i hi
  rcases hi with h | ⟨hn, rfl⟩
  · left; rw [h.2]; exact ⟨h.1, rfl⟩
  · simp only [Step.nodeFn]
    by_cases h0 : m.size = 0
    · simp only [h0, ↓reduceIte]; exact Or.inr ⟨hn, Or.inr ⟨h0, rfl⟩⟩
    · simp only [h0, ↓reduceIte]
      exact Or.inr ⟨hn, Or.inl ⟨Nat.pos_of_ne_zero h0, 0, Nat.zero_le _, rfl⟩⟩

/-- growth by chunks never exceeds the final size … -/
theorem seg_grow_list (us : List Nat) (hus : ∀ u ∈ us, u ≤ m.size) :
    Seg p (FileCrashNode hol m now init) (us.map (Step.grow p m.content)) (Ph1 m now init) (Ph1 m now init) := by
  induction us with
  | nil => exact seg_nil (fun i hi => ph1_good hol m now init hi)
  | cons u us ih =>
    have h1 : Seg p (FileCrashNode hol m now init) [Step.grow p m.content u] (Ph1 m now init) (Ph1 m now init) := by
      refine seg_step _ rfl (fun i hi => ph1_good hol m now init hi) (fun i hi => ph1_good hol m now init hi) ?_
      intro i hi
      rcases hi with h | ⟨hn, l, hl, rfl⟩
      · left; rw [h.2]; exact ⟨h.1, rfl⟩
      · right; exact ⟨hn, u, hus u (by simp), rfl⟩
    exact seg_append (A := [_]) h1 (ih (fun v hv => hus v (by simp [hv])))

/-- … and reaches it with the last write -/
theorem seg_growSteps (ch : Nat) :
    Seg p (FileCrashNode hol m now init) (growSteps p m.content ch m.size) (Ph1z m now init) (Ph2 m now init) := by
  have hz : ∀ i, Ph1z m now init i → Ph1 m now init i := by
    intro i hi
    rcases hi with h | ⟨hn, h⟩
    · exact Or.inl h
    · exact Or.inr ⟨hn, 0, Nat.zero_le _, h⟩
  have hseg := seg_pre (seg_grow_list hol m now init p (uptos ch m.size) (fun u hu => uptos_le hu)) hz
  intro i hi
  refine ⟨(hseg i hi).1, ?_⟩
  unfold growSteps
  rcases Nat.eq_zero_or_pos m.size with h0 | h0
  · rw [h0, uptos_zero]; simp only [List.map_nil, nodeRun_nil]
    rcases hi with h | ⟨hn, h⟩
    · exact Or.inl h
    · right; rw [h, h0]; exact ⟨hn, rfl⟩
  · obtain ⟨ini, hini⟩ := uptos_last (ch := ch) h0
    rw [hini, List.map_append, nodeRun_append]
    have hsub : ∀ u ∈ ini, u ≤ m.size := fun u hu => uptos_le (ch := ch) (by rw [hini]; simp [hu])
    have := ((seg_pre (seg_grow_list hol m now init p ini hsub) hz) i hi).2
    simp only [List.map_cons, List.map_nil, nodeRun_cons, nodeRun_nil, Step.path, ↓reduceIte]
    rcases this with h | ⟨hn, l, hl, h⟩
    · left; rw [h.2]; exact ⟨h.1, rfl⟩
    · right; rw [h]; exact ⟨hn, rfl⟩

theorem seg_fill_list (hh : hol) (us : List Nat) :
    Seg p (FileCrashNode hol m now init) (us.map (Step.fill p m.content))
      (fun i => PhH m now init i ∨ Ph2 m now init i) (fun i => PhH m now init i ∨ Ph2 m now init i) := by
  have good : ∀ i, PhH m now init i ∨ Ph2 m now init i → FileCrashNode hol m now init i := by
    intro i hi
    rcases hi with h | h
    · exact phH_good hol m now init hh h
    · exact ph2_good hol m now init h
  induction us with
  | nil => exact seg_nil good
  | cons u us ih =>
    have h1 : Seg p (FileCrashNode hol m now init) [Step.fill p m.content u]
        (fun i => PhH m now init i ∨ Ph2 m now init i) (fun i => PhH m now init i ∨ Ph2 m now init i) := by
      refine seg_step _ rfl good good ?_
      intro i hi
      rcases hi with (h | ⟨hn, ⟨h0, d, hd, rfl⟩ | ⟨h0, rfl⟩⟩) | (h | ⟨hn, rfl⟩)
      · left; left; rw [h.2]; exact ⟨h.1, rfl⟩
      · simp only [Step.nodeFn]
        split
        · right; right; exact ⟨hn, rfl⟩
        · left; right; exact ⟨hn, Or.inl ⟨h0, u, by omega, rfl⟩⟩
      · left; right; exact ⟨hn, Or.inr ⟨h0, rfl⟩⟩
      · right; left; rw [h.2]; exact ⟨h.1, rfl⟩
      · right; right; exact ⟨hn, rfl⟩
    exact seg_append (A := [_]) h1 ih

theorem seg_fillSteps (hh : hol) (ch : Nat) :
    Seg p (FileCrashNode hol m now init) (fillSteps p m.content ch m.size) (PhH m now init) (Ph2 m now init) := by
  have hseg := seg_pre (seg_fill_list hol m now init p hh (uptos ch m.size)) (fun i hi => Or.inl hi)
  intro i hi
  refine ⟨(hseg i hi).1, ?_⟩
  unfold fillSteps
  rcases Nat.eq_zero_or_pos m.size with h0 | h0
  · rw [h0, uptos_zero]; simp only [List.map_nil, nodeRun_nil]
    rcases hi with h | ⟨hn, ⟨h, _⟩ | ⟨_, h⟩⟩
    · exact Or.inl h
    · omega
    · right; rw [h, h0]; exact ⟨hn, rfl⟩
  · obtain ⟨ini, hini⟩ := uptos_last (ch := ch) h0
    rw [hini, List.map_append, nodeRun_append]
    have := ((seg_pre (seg_fill_list hol m now init p hh ini) (fun i hi => Or.inl hi)) i hi).2
    simp only [List.map_cons, List.map_nil, nodeRun_cons, nodeRun_nil, Step.path, ↓reduceIte]
    rcases this with (h | ⟨hn, ⟨_, d, hd, h⟩ | ⟨h, _⟩⟩) | (h | ⟨hn, h⟩)
    · left; rw [h.2]; exact ⟨h.1, rfl⟩
    · right; rw [h]; exact ⟨hn, by simp [Step.nodeFn]⟩
    · omega
    · left; rw [h.2]; exact ⟨h.1, rfl⟩
    · right; rw [h]; exact ⟨hn, rfl⟩

theorem seg_writeSteps (ch : Nat) :
    Seg p (FileCrashNode hol m now init) (writeSteps p m ch now) (Ph0 m now init) (Ph3 m now init) := by
  unfold writeSteps
  exact seg_append (seg_append (seg_openTrunc hol m now init p) (seg_growSteps hol m now init p ch))
    (seg_utimens hol m now init p)

theorem seg_mkdirChain {P : Option SNode → Prop} (hP : ∀ i, P i → FileCrashNode hol m now init i) :
    Seg p (FileCrashNode hol m now init) (mkdirChain p) P P := by
  apply seg_skip _ _ hP
  intro s hs
  obtain ⟨q, hq, rfl⟩ := mem_mkdirChain hs
  exact ancestors_ne hq

theorem seg_fullCopySteps (ch : Nat) (h : Hint) :
    Seg p (FileCrashNode hol m h.now init) (fullCopySteps p m ch h) (Ph0 m h.now init) (Ph3 m h.now init) := by
  unfold fullCopySteps
  refine seg_append (seg_append (seg_append (seg_mkdirChain hol m h.now init p (fun i hi => ph0_good hol m h.now init hi))
    (seg_unlinkIfSymlink hol m h.now init p)) ?_) (seg_writeSteps hol m h.now init p ch)
  split
  · exact seg_unlink hol m h.now init p
  · exact seg_nil (fun i hi => ph0_good hol m h.now init hi)

theorem seg_sparseSeekSteps (ch : Nat) :
    Seg p (FileCrashNode hol m now init) (sparseSeekSteps p m ch now) (Ph0 m now init) (Ph3 m now init) := by
  unfold sparseSeekSteps
  exact seg_append (seg_unlink hol m now init p) (seg_writeSteps hol m now init p ch)

theorem seg_sparseBlocksSteps (hh : hol) (ch : Nat) :
    Seg p (FileCrashNode hol m now init) (sparseBlocksSteps p m ch now) (Ph0 m now init) (Ph3 m now init) := by
  unfold sparseBlocksSteps
  have : [Step.unlink p, Step.openTrunc p m.content now, Step.setLen p m.content m.size] =
      [Step.unlink p] ++ [Step.openTrunc p m.content now] ++ [Step.setLen p m.content m.size] := rfl
  rw [this]
  exact seg_append (seg_append (seg_append (seg_append (seg_unlink hol m now init p)
    (seg_openTrunc hol m now init p)) (seg_setLen hol m now init p hh)) (seg_fillSteps hol m now init p hh ch))
    (seg_utimens hol m now init p)

end phases


/-! ### all steps of non-delete, non-delta tasks are single-path steps -/

def allSingle (l : List Step) : Bool := l.all Step.single

@[simp] theorem allSingle_nil : allSingle [] = true := rfl
@[simp] theorem allSingle_append (a b : List Step) : allSingle (a ++ b) = (allSingle a && allSingle b) := by
  simp [allSingle, List.all_append]
@[simp] theorem allSingle_cons (s : Step) (l : List Step) : allSingle (s :: l) = (s.single && allSingle l) := by
  simp [allSingle]
@[simp] theorem allSingle_mkdirChain (p : Path) : allSingle (mkdirChain p) = true := by
  simp [allSingle, mkdirChain, List.all_map, Step.single]
@[simp] theorem allSingle_growSteps (p : Path) (c ch sz : Nat) : allSingle (growSteps p c ch sz) = true := by
  simp [allSingle, growSteps, List.all_map, Step.single]
@[simp] theorem allSingle_fillSteps (p : Path) (c ch sz : Nat) : allSingle (fillSteps p c ch sz) = true := by
  simp [allSingle, fillSteps, List.all_map, Step.single]
@[simp] theorem allSingle_writeSteps (p : Path) (m : FileMeta) (ch now : Nat) :
    allSingle (writeSteps p m ch now) = true := by simp [writeSteps, Step.single]
@[simp] theorem allSingle_fullCopySteps (p : Path) (m : FileMeta) (ch : Nat) (h : Hint) :
    allSingle (fullCopySteps p m ch h) = true := by
  unfold fullCopySteps; split <;> simp [Step.single]
@[simp] theorem allSingle_symlinkSteps (old : Option DNode) (p : Path) (text : String) :
    allSingle (symlinkSteps old p text) = true := by
  unfold symlinkSteps; split <;> simp [Step.single]
@[simp] theorem allSingle_dirSteps (p : Path) : allSingle (dirSteps p) = true := by
  unfold dirSteps; split <;> simp [Step.single]

theorem allSingle_mem {l : List Step} (h : allSingle l = true) : ∀ s ∈ l, s.single = true := by
  unfold allSingle at h; rw [List.all_eq_true] at h; exact h

theorem stepsOfH_allSingle {cfg : Cfg} {thr ch : Nat} {sfx : String} {h : Hint} {old : Option DNode}
    {t : Task} (hu : usesDelta cfg thr h old t = false) (hnd : t.act ≠ .delete) :
    allSingle (stepsOfH cfg thr ch sfx h old t) = true := by
  unfold stepsOfH
  split
  · rfl
  rename_i hdry
  split
  · rfl
  · rename_i hact; exact absurd hact hnd
  · split <;> simp
  · rename_i hact
    split
    · rfl
    · simp [Step.single]
    · simp
    · rename_i m n hpay
      split
      · simp
      · rename_i hroute
        simp only [List.cons_append, List.nil_append, allSingle_cons, Step.single, Bool.true_and]
        unfold updateSteps
        split
        · rename_i d
          split
          · simp
          · rename_i hsz
            split
            · rename_i hr
              exfalso
              unfold usesDelta at hu
              simp [hdry, hact, hpay, hr] at hu
              simp at hsz
              omega
            · split <;> simp [Step.single]
            · simp [sparseSeekSteps, Step.single]
            · simp [sparseBlocksSteps, Step.single]
            · simp
        · simp

/-! ### file tasks that write in place -/

theorem file_task_seg {cfg : Cfg} {thr ch : Nat} {sfx : String} {h : Hint} {old : Option DNode}
    {t : Task} {m : FileMeta} {n : Nat} (hpay : t.payload = .file m n)
    (hu : usesDelta cfg thr h old t = false) (hdry : cfg.dryRun = false)
    (hact : t.act = .create ∨ t.act = .update) (init : Option SNode)
    (hol : Prop) (hh : h.route = .sparseBlocks → hol) :
    Seg t.rel (FileCrashNode hol m h.now init) (stepsOfH cfg thr ch sfx h old t)
      (Ph0 m h.now init) (Ph3 m h.now init) := by
  have g0 : ∀ i, Ph0 m h.now init i → FileCrashNode hol m h.now init i := fun i hi => ph0_good hol m h.now init hi
  unfold stepsOfH
  simp only [hdry, Bool.false_eq_true, ↓reduceIte]
  rcases hact with hact | hact
  · simp only [hact, hpay]
    exact seg_fullCopySteps hol m init t.rel ch h
  · simp only [hact, hpay]
    split
    · exact seg_fullCopySteps hol m init t.rel ch h
    · refine seg_append (seg_unlinkIfSymlink hol m h.now init t.rel) ?_
      unfold updateSteps
      split
      · rename_i d
        split
        · exact seg_fullCopySteps hol m init t.rel ch h
        · rename_i hsz
          split
          · rename_i hr
            exfalso
            unfold usesDelta at hu
            simp [hdry, hact, hpay, hr] at hu
            simp at hsz
            omega
          · refine seg_append ?_ (seg_writeSteps hol m h.now init t.rel ch)
            split
            · exact seg_unlink hol m h.now init t.rel
            · exact seg_nil g0
          · exact seg_sparseSeekSteps hol m h.now init t.rel ch
          · rename_i hr
            exact seg_sparseBlocksSteps hol m h.now init t.rel (hh hr) ch
          · exact seg_fullCopySteps hol m init t.rel ch h
      · exact seg_fullCopySteps hol m init t.rel ch h

/-! ### link tasks -/

def SymCrashNode (text : String) (init : Option SNode) (i : Option SNode) : Prop :=
  i = init ∨ i = none ∨ i = some (.symlink text)

theorem symlink_task_seg (old : Option DNode) (p : Path) (text : String) (init : Option SNode) :
    Seg p (SymCrashNode text init) (symlinkSteps old p text) (fun i => i = init ∨ i = none)
      (fun i => i = init ∨ i = some (.symlink text)) := by
  have g0 : ∀ i, (i = init ∨ i = none) → SymCrashNode text init i := by
    intro i hi; rcases hi with h | h
    · exact Or.inl h
    · exact Or.inr (Or.inl h)
  have g1 : ∀ i, (i = init ∨ i = some (.symlink text)) → SymCrashNode text init i := by
    intro i hi; rcases hi with h | h
    · exact Or.inl h
    · exact Or.inr (Or.inr h)
  unfold symlinkSteps
  refine seg_append (Q := fun i => i = init ∨ i = none)
    (seg_append (Q := fun i => i = init ∨ i = none) (seg_skip _ ?_ g0) ?_) ?_
  · intro s hs
    obtain ⟨q, hq, rfl⟩ := mem_mkdirChain hs
    exact ancestors_ne hq
  · have hun : Seg p (SymCrashNode text init) [Step.unlink p] (fun i => i = init ∨ i = none)
        (fun i => i = init ∨ i = none) := by
      refine seg_step _ rfl g0 g0 ?_
      intro i hi
      rcases hi with rfl | rfl
      · simp only [Step.nodeFn]; split
        · exact Or.inl rfl
        · exact Or.inr rfl
      · exact Or.inr rfl
    split
    · exact seg_nil g0
    · exact seg_nil g0
    · exact hun
  · refine seg_step _ rfl g0 g1 ?_
    intro i hi
    rcases hi with rfl | rfl
    · simp only [Step.nodeFn]; split
      · exact Or.inr rfl
      · exact Or.inl rfl
    · exact Or.inr rfl


/-! ### every step of a non-delete, non-delta task is a `mkdir` or sits at the task's path -/

def chainOrAt (p : Path) (l : List Step) : Bool := l.all fun s => s.isMkdir || (s.single && s.path == p)

@[simp] theorem chainOrAt_nil (p : Path) : chainOrAt p [] = true := rfl
@[simp] theorem chainOrAt_append (p : Path) (a b : List Step) :
    chainOrAt p (a ++ b) = (chainOrAt p a && chainOrAt p b) := by simp [chainOrAt, List.all_append]
@[simp] theorem chainOrAt_cons (p : Path) (s : Step) (l : List Step) :
    chainOrAt p (s :: l) = ((s.isMkdir || (s.single && s.path == p)) && chainOrAt p l) := by simp [chainOrAt]
@[simp] theorem chainOrAt_mkdirChain (p q : Path) : chainOrAt p (mkdirChain q) = true := by
  simp [chainOrAt, mkdirChain, List.all_map, Step.isMkdir]
@[simp] theorem chainOrAt_growSteps (p : Path) (c ch sz : Nat) : chainOrAt p (growSteps p c ch sz) = true := by
  simp [chainOrAt, growSteps, List.all_map, Step.single, Step.path]
@[simp] theorem chainOrAt_fillSteps (p : Path) (c ch sz : Nat) : chainOrAt p (fillSteps p c ch sz) = true := by
  simp [chainOrAt, fillSteps, List.all_map, Step.single, Step.path]
@[simp] theorem chainOrAt_writeSteps (p : Path) (m : FileMeta) (ch now : Nat) :
    chainOrAt p (writeSteps p m ch now) = true := by simp [writeSteps, Step.single, Step.path]
@[simp] theorem chainOrAt_fullCopySteps (p : Path) (m : FileMeta) (ch : Nat) (h : Hint) :
    chainOrAt p (fullCopySteps p m ch h) = true := by
  unfold fullCopySteps; split <;> simp [Step.single, Step.path]
@[simp] theorem chainOrAt_symlinkSteps (old : Option DNode) (p : Path) (text : String) :
    chainOrAt p (symlinkSteps old p text) = true := by
  unfold symlinkSteps; split <;> simp [Step.single, Step.path]
@[simp] theorem chainOrAt_dirSteps (p : Path) : chainOrAt p (dirSteps p) = true := by
  unfold dirSteps; split <;> simp [Step.isMkdir]

theorem stepsOfH_chainOrAt {cfg : Cfg} {thr ch : Nat} {sfx : String} {h : Hint} {old : Option DNode}
    {t : Task} (hu : usesDelta cfg thr h old t = false) (hnd : t.act ≠ .delete) :
    chainOrAt t.rel (stepsOfH cfg thr ch sfx h old t) = true := by
  unfold stepsOfH
  split
  · rfl
  rename_i hdry
  split
  · rfl
  · rename_i hact; exact absurd hact hnd
  · split <;> simp
  · rename_i hact
    split
    · rfl
    · simp [Step.single, Step.path]
    · simp
    · rename_i m n hpay
      split
      · simp
      · rename_i hroute
        simp only [List.cons_append, List.nil_append, chainOrAt_cons, Step.single, Step.path, beq_self_eq_true,
          Bool.and_self, Bool.or_true, Bool.true_and]
        unfold updateSteps
        split
        · rename_i d
          split
          · simp
          · rename_i hsz
            split
            · rename_i hr
              exfalso
              unfold usesDelta at hu
              simp [hdry, hact, hpay, hr] at hu
              simp at hsz
              omega
            · split <;> simp [Step.single, Step.path]
            · simp [sparseSeekSteps, Step.single, Step.path]
            · simp [sparseBlocksSteps, Step.single, Step.path]
            · simp
        · simp

theorem chainOrAt_touch {p x : Path} {l : List Step} (h : chainOrAt p l = true) (hx : x ≠ p)
    {s : Step} (hs : s ∈ l) (ht : s.touches x = true) : s = .mkdir x := by
  unfold chainOrAt at h
  rw [List.all_eq_true] at h
  have := h s hs
  simp only [Bool.or_eq_true, Bool.and_eq_true, beq_iff_eq] at this
  rcases this with hm | ⟨hsg, hp⟩
  · cases s <;> simp [Step.isMkdir] at hm
    simp only [Step.touches, beq_iff_eq] at ht; rw [ht]
  · rw [touches_single s hsg] at ht
    simp only [beq_iff_eq] at ht
    exact absurd (ht.trans hp) hx

/-- a list whose steps touching `x` are all `mkdir x`: every prefix leaves the initial or the final node -/
theorem mkdir_only_prefix (L : List Step) (x : Path) (h : ∀ s ∈ L, s.touches x = true → s = .mkdir x)
    (n : Nat) (w : SWorld) :
    applyAll (L.take n) w x = w x ∨ applyAll (L.take n) w x = applyAll L w x := by
  apply absorbing_crash (v := some .dir)
  intro s hs
  cases htx : s.touches x with
  | false => exact absorbs_of_not_touch _ x s htx
  | true => rw [h s hs htx]; exact absorbs_mkdir x

theorem short_prefix (L : List Step) (hL : L.length ≤ 1) (n : Nat) (w : SWorld) (x : Path) :
    applyAll (L.take n) w x = w x ∨ applyAll (L.take n) w x = applyAll L w x := by
  cases n with
  | zero => left; rfl
  | succ n => right; rw [List.take_of_length_le (by omega)]

theorem nodeRun_skip (p : Path) (A : List Step) (hA : ∀ s ∈ A, s.path ≠ p) (i : Option SNode) :
    nodeRun p A i = i := by
  induction A generalizing i with
  | nil => rfl
  | cons s A ih =>
    simp only [nodeRun_cons, hA s (by simp), ↓reduceIte]
    exact ih (fun t ht => hA t (by simp [ht])) i

theorem nodeRun_skip_take (p : Path) (A B : List Step) (hA : ∀ s ∈ A, s.path ≠ p) (n : Nat)
    (i : Option SNode) : nodeRun p ((A ++ B).take n) i = nodeRun p (B.take (n - A.length)) i := by
  rw [List.take_append, nodeRun_append,
    nodeRun_skip p _ (fun s hs => hA s (List.mem_of_mem_take hs))]

/-! ### what an interrupted task may leave behind -/

/-- what an interrupted task may leave at a path other than its initial node, its final node -/
inductive Garbage (cfg : Cfg) (thr : Nat) (sfx : String) (h : Hint) (old : Option DNode) (t : Task) :
    Path → Option SNode → Prop where
  /-- the old entry is unlinked and the new one not yet created (a file or link being replaced; or a destination
      link being replaced by a directory — `update` with a directory payload, fix 862af11) -/
  | gone : (t.payload = .dir → t.act = .update) → t.act ≠ .delete → Garbage cfg thr sfx h old t t.rel none
  /-- a file being copied in place: the first `l` bytes of the new content, mtime = time of the run -/
  | torn {m : FileMeta} {n : Nat} (l : Nat) : t.payload = .file m n → l ≤ m.size →
      Garbage cfg thr sfx h old t t.rel (some (.file m.content l h.now))
  /-- the `set_len`-first sparse copier: final size, data incomplete -/
  | holey {m : FileMeta} {n : Nat} (d : Nat) : t.payload = .file m n → h.route = .sparseBlocks →
      d ≤ m.size → 0 < m.size → Garbage cfg thr sfx h old t t.rel (some (.holey m.content m.size d h.now))
  /-- the working file of a temp + rename update -/
  | temp {m : FileMeta} {n : Nat} : t.payload = .file m n → usesDelta cfg thr h old t = true →
      Garbage cfg thr sfx h old t (tempOf sfx t.rel) (some (.temp m.content))

/-- Every prefix of a task's step list, run from the world its plan was made for, leaves at every
    path the initial node, the node the whole list leaves, or `Garbage`. -/
theorem task_prefix {cfg : Cfg} {thr ch : Nat} {sfx : String} {h : Hint} {old : Option DNode}
    {t : Task} (w : SWorld) (hold : w t.rel = old.map embed) (n : Nat) (x : Path) :
    applyAll ((stepsOfH cfg thr ch sfx h old t).take n) w x = w x ∨
    applyAll ((stepsOfH cfg thr ch sfx h old t).take n) w x =
      applyAll (stepsOfH cfg thr ch sfx h old t) w x ∨
    Garbage cfg thr sfx h old t x (applyAll ((stepsOfH cfg thr ch sfx h old t).take n) w x) := by
  have two : ∀ {v : Option SNode}, (v = w x ∨ v = applyAll (stepsOfH cfg thr ch sfx h old t) w x) →
      v = w x ∨ v = applyAll (stepsOfH cfg thr ch sfx h old t) w x ∨ Garbage cfg thr sfx h old t x v := by
    intro v hv; rcases hv with hv | hv
    · exact Or.inl hv
    · exact Or.inr (Or.inl hv)
  cases hdry : cfg.dryRun with
  | true =>
    left
    have : stepsOfH cfg thr ch sfx h old t = [] := by unfold stepsOfH; rw [if_pos hdry]
    rw [this]; simp
  | false =>
  by_cases hdel : t.act = .delete
  · apply two
    apply short_prefix
    unfold stepsOfH; simp only [hdry, hdel, Bool.false_eq_true, ↓reduceIte]; split <;> simp
  by_cases hskip : t.act = .skip
  · left; rw [stepsOfH_skip hskip]; simp
  have hact : t.act = .create ∨ t.act = .update := by
    cases ha : t.act <;> simp_all
  cases hu : usesDelta cfg thr h old t with
  | true =>
    obtain ⟨m, nl, d, hpay, _, hold', _, hL⟩ := stepsOfH_delta (ch := ch) (sfx := sfx) hu
    rw [hL]
    have hwp : w t.rel = some (.file d.content d.size d.mtime) := by rw [hold, hold']; rfl
    have huis : (Step.unlinkIfSymlink t.rel).apply w = w := by
      funext y
      rw [apply_single _ rfl, upd_apply]; simp only [Step.path]
      by_cases hy : y = t.rel
      · subst hy; simp [Step.nodeFn, hwp]
      · simp [hy]
    simp only [deltaSteps, List.cons_append, List.nil_append]
    match n with
    | 0 => left; rfl
    | 1 => left; simp [List.take, huis]
    | 2 =>
      simp only [List.take, applyAll_cons, applyAll_nil, huis]
      rw [apply_single _ rfl, upd_apply]; simp only [Step.path]
      by_cases hx : x = tempOf sfx t.rel
      · subst hx
        simp only [↓reduceIte, Step.nodeFn]
        split
        · left; rename_i hd; exact hd.symm
        · right; right; exact .temp hpay hu
      · left; simp [hx]
    | n + 3 =>
      right; left
      simp
  | false =>
    have hsingle := allSingle_mem (stepsOfH_allSingle (ch := ch) (sfx := sfx) hu hdel)
    have hcoa := stepsOfH_chainOrAt (ch := ch) (sfx := sfx) hu hdel
    by_cases hx : x = t.rel
    · subst hx
      cases hpay : t.payload with
      | nothing =>
        left
        unfold stepsOfH; simp only [hdry, hpay]
        rcases hact with ha | ha <;> simp [ha]
      | dir =>
        rcases hact with ha | ha
        · apply two
          apply mkdir_only_prefix
          intro s hs ht
          have := stepsOfH_dir_mkdir hpay hdel (by rw [ha]; simp) hs
          cases s <;> simp [Step.isMkdir] at this
          simp only [Step.touches, beq_iff_eq] at ht; rw [ht]
        · -- a link replaced by a directory: conditional unlink, then `create_dir_all`
          have hL : stepsOfH cfg thr ch sfx h old t = Step.unlinkIfSymlink t.rel :: dirSteps t.rel := by
            unfold stepsOfH; simp [hdry, ha, hpay]
          have hsingle' := hsingle
          rw [hL] at hsingle' ⊢
          rw [applyAll_single _ (fun s hs => hsingle' s (List.mem_of_mem_take hs)),
            applyAll_single _ hsingle']
          have gone : Garbage cfg thr sfx h old t t.rel none := .gone (fun _ => ha) hdel
          match n with
          | 0 => left; rfl
          | n + 1 =>
            simp only [List.take_succ_cons, nodeRun_cons, Step.path, ↓reduceIte]
            have hi1 : (Step.unlinkIfSymlink t.rel).nodeFn (w t.rel) = w t.rel ∨
                (Step.unlinkIfSymlink t.rel).nodeFn (w t.rel) = none := by
              simp only [Step.nodeFn]; split <;> simp
            generalize (Step.unlinkIfSymlink t.rel).nodeFn (w t.rel) = i1 at hi1 ⊢
            have hchain : ∀ s ∈ mkdirChain t.rel, s.path ≠ t.rel := by
              intro s hs
              obtain ⟨q, hq, rfl⟩ := mem_mkdirChain hs
              exact ancestors_ne hq
            unfold dirSteps
            split
            · right; left; simp
            · rw [nodeRun_skip_take _ _ _ hchain, nodeRun_append, nodeRun_skip _ _ hchain]
              generalize n - (mkdirChain t.rel).length = k
              match k with
              | 0 =>
                rcases hi1 with h1 | h1
                · left; simpa using h1
                · right; right; simp only [List.take_zero, nodeRun_nil, h1]; exact gone
              | k + 1 => right; left; simp
      | symlink text =>
        have hL : stepsOfH cfg thr ch sfx h old t = symlinkSteps old t.rel text := by
          unfold stepsOfH; simp only [hdry, hpay]
          rcases hact with ha | ha <;> simp [ha]
        have hsingle' := hsingle
        rw [hL] at hsingle' ⊢
        rw [applyAll_single _ (fun s hs => hsingle' s (List.mem_of_mem_take hs)),
          applyAll_single _ hsingle']
        have hchain : ∀ s ∈ mkdirChain t.rel, s.path ≠ t.rel := by
          intro s hs
          obtain ⟨q, hq, rfl⟩ := mem_mkdirChain hs
          exact ancestors_ne hq
        unfold symlinkSteps
        rw [List.append_assoc, nodeRun_skip_take _ _ _ hchain, nodeRun_append, nodeRun_skip _ _ hchain]
        generalize n - (mkdirChain t.rel).length = k
        have gone : Garbage cfg thr sfx h old t t.rel none := .gone (by rw [hpay]; simp) hdel
        split
        · match k with
          | 0 => left; rfl
          | k + 1 => right; left; simp
        · match k with
          | 0 => left; rfl
          | k + 1 => right; left; simp
        · match k with
          | 0 => left; rfl
          | 1 =>
            simp only [List.cons_append, List.nil_append, List.take, nodeRun_cons, nodeRun_nil,
              Step.path, ↓reduceIte, Step.nodeFn]
            split
            · left; rename_i hd; exact hd.symm
            · right; right; exact gone
          | k + 2 => right; left; simp
      | file m nl =>
        have hseg := file_task_seg (ch := ch) (sfx := sfx) hpay hu hdry hact (w t.rel)
          (h.route = .sparseBlocks) id
        obtain ⟨hgood, hfin⟩ := hseg (w t.rel) (Or.inl rfl)
        rw [applyAll_single _ (fun s hs => hsingle s (List.mem_of_mem_take hs)),
          applyAll_single _ hsingle]
        rcases hgood n with hg | ⟨hnd, hg | ⟨l, hl, hg⟩ | ⟨hr, d, hd, h0, hg⟩ | hg⟩
        · left; exact hg
        · right; right; rw [hg]; exact .gone (by rw [hpay]; simp) hdel
        · right; right; rw [hg]; exact .torn l hpay hl
        · right; right; rw [hg]; exact .holey d hpay hr hd h0
        · right; left
          rcases hfin with ⟨hd, _⟩ | ⟨_, hf⟩
          · exact absurd hd hnd
          · rw [hg, hf]
    · apply two
      apply mkdir_only_prefix
      intro s hs ht
      exact chainOrAt_touch hcoa hx hs ht


/-! ### the temp + rename section -/

/-- at the destination path: old node or complete new node, at every prefix -/
theorem delta_prefix_dest (sfx : String) (p : Path) (m : FileMeta) (w : SWorld) (d : FileMeta)
    (hwp : w p = some (.file d.content d.size d.mtime)) (hq : tempOf sfx p ≠ p) (n : Nat) :
    applyAll (([Step.unlinkIfSymlink p] ++ deltaSteps sfx p m).take n) w p = w p ∨
    applyAll (([Step.unlinkIfSymlink p] ++ deltaSteps sfx p m).take n) w p =
      some (.file m.content m.size m.mtime) := by
  have huis : (Step.unlinkIfSymlink p).apply w = w := by
    funext y
    rw [apply_single _ rfl, upd_apply]; simp only [Step.path]
    by_cases hy : y = p
    · subst hy; simp [Step.nodeFn, hwp]
    · simp [hy]
  have hp : p ≠ tempOf sfx p := fun h => hq h.symm
  simp only [deltaSteps, List.cons_append, List.nil_append]
  match n with
  | 0 => left; rfl
  | 1 => left; simp [huis]
  | 2 =>
    left
    simp only [List.take, applyAll_cons, applyAll_nil, huis]
    exact apply_frame _ w p (by simp [Step.touches, hp])
  | n + 3 =>
    simp only [List.take, List.take_nil, applyAll_cons, applyAll_nil, huis]
    rw [apply_rename]
    split
    · right; rw [upd_ne _ _ _ _ hp, upd_same]
    · left; exact apply_frame (Step.createTemp (tempOf sfx p) m.content) w p (by simp [Step.touches, hp])

/-- while the working file exists the destination still holds its old node -/
theorem delta_prefix_joint (sfx : String) (p : Path) (m : FileMeta) (w : SWorld) (d : FileMeta)
    (hwp : w p = some (.file d.content d.size d.mtime)) (hq : tempOf sfx p ≠ p) (n : Nat) (c : Nat)
    (hwq : ∀ c, w (tempOf sfx p) ≠ some (.temp c))
    (ht : applyAll (([Step.unlinkIfSymlink p] ++ deltaSteps sfx p m).take n) w (tempOf sfx p) = some (.temp c)) :
    applyAll (([Step.unlinkIfSymlink p] ++ deltaSteps sfx p m).take n) w p = w p := by
  have huis : (Step.unlinkIfSymlink p).apply w = w := by
    funext y
    rw [apply_single _ rfl, upd_apply]; simp only [Step.path]
    by_cases hy : y = p
    · subst hy; simp [Step.nodeFn, hwp]
    · simp [hy]
  have hp : p ≠ tempOf sfx p := fun h => hq h.symm
  simp only [deltaSteps, List.cons_append, List.nil_append] at ht ⊢
  match n with
  | 0 => rfl
  | 1 => simp [huis]
  | 2 =>
    simp only [List.take, applyAll_cons, applyAll_nil, huis]
    exact apply_frame _ w p (by simp [Step.touches, hp])
  | n + 3 =>
    exfalso
    simp only [List.take, List.take_nil, applyAll_cons, applyAll_nil, huis] at ht
    rw [apply_rename] at ht
    split at ht
    · rw [upd_same] at ht; cases ht
    · rename_i hne
      rcases createTemp_at (tempOf sfx p) m.content w with h | h
      · rw [h] at ht; cases ht
      · exact hne h

/-! ### locating a task's list among the lists of a run -/

theorem taskLists_split {cfg : Cfg} {thr ch : Nat} {sfx : String} {hint : Task → Hint}
    {dst : Map DNode} {tasks : List Task} (huniq : tasks.Pairwise (fun a b => a.rel ≠ b.rel))
    {t : Task} (ht : t ∈ tasks) (hnl : isLinkTask cfg t = false) :
    ∃ a b : List Task,
      taskLists cfg thr ch sfx hint dst tasks =
        a.map (fun t => stepsOfH cfg thr ch sfx (hint t) (dst.get? t.rel) t) ++
          stepsOfH cfg thr ch sfx (hint t) (dst.get? t.rel) t ::
          b.map (fun t => stepsOfH cfg thr ch sfx (hint t) (dst.get? t.rel) t) ∧
      ∀ t' ∈ a ++ b, t' ∈ tasks ∧ t'.rel ≠ t.rel := by
  have htf : t ∈ tasks.filter fun t => !isLinkTask cfg t := List.mem_filter.mpr ⟨ht, by simp [hnl]⟩
  obtain ⟨a, b, hab⟩ := List.append_of_mem htf
  refine ⟨a, b, by unfold taskLists; rw [hab]; simp, ?_⟩
  have hu : (a ++ t :: b).Pairwise (fun x y => x.rel ≠ y.rel) := by
    rw [← hab]; exact huniq.filter _
  intro t' ht'
  have hmem : t' ∈ tasks := by
    have : t' ∈ tasks.filter fun t => !isLinkTask cfg t := by
      rw [hab]; simp only [List.mem_append, List.mem_cons] at ht' ⊢
      rcases ht' with h | h
      · exact Or.inl h
      · exact Or.inr (Or.inr h)
    exact (List.mem_filter.mp this).1
  rw [List.pairwise_append] at hu
  obtain ⟨_, h2, h3⟩ := hu
  rcases List.mem_append.mp ht' with h | h
  · exact ⟨hmem, h3 t' h t (by simp)⟩
  · exact ⟨hmem, Ne.symm ((List.pairwise_cons.mp h2).1 t' h)⟩

/-! ### the comparison rule -/

/-- a (size, mtime) pair that the planner's rule accepts has the source's size -/
theorem accepted_size {c : Compare} {ssize smtime dsize dmtime : Nat}
    (h : needsUpdate c ssize smtime dsize dmtime = false) : dsize = ssize := by
  cases c <;> simp [needsUpdate] at h
  · exact h.1.symm
  · exact h.symm

/-! ### paths no in-flight task touches -/

/-- `g` records how far each list got; a list is in flight when it has started and not finished -/
theorem crash_untouched_gen {ls : List (List Step)} (hind : PairwiseIndep ls) {σ : List Step}
    (hσ : Interleaving ls σ) (k : Nat) (w : SWorld) :
    ∃ g : Progress Step, g.wholes = ls ∧ Interleaving g.dones (σ.take k) ∧
      ∀ x, (∀ d ∈ g, touchesList (d.1 ++ d.2) x → d.1 = [] ∨ d.2 = []) →
        applyAll (σ.take k) w x = w x ∨ applyAll (σ.take k) w x = applyAll σ w x := by
  obtain ⟨g, hg, hd, _⟩ := hσ.toShuffleN.split k
  refine ⟨g, hg, hd.toInterleaving, fun x hx => ?_⟩
  rcases touch_classes hind x with ⟨pre, L, post, hls, hothers⟩ | hM | hD
  · rw [hls] at hg
    obtain ⟨gpre, d, gpost, rfl, hpre, hL, hpost⟩ := progress_split hg
    have hind' : PairwiseIndep (Progress.dones (gpre ++ d :: gpost)) :=
      progress_dones_indep (by rw [hg, ← hls]; exact hind)
    have hdones : Progress.dones (gpre ++ d :: gpost) =
        Progress.dones gpre ++ d.1 :: Progress.dones gpost := by simp [Progress.dones]
    rw [hdones] at hd hind'
    have hoth' : ∀ l ∈ Progress.dones gpre ++ Progress.dones gpost, ∀ s ∈ l, s.touches x = false := by
      intro l hl s hs
      have : ∃ d' ∈ gpre ++ gpost, l = d'.1 := by
        simp only [Progress.dones, List.mem_append, List.mem_map] at hl ⊢
        rcases hl with ⟨d', h, rfl⟩ | ⟨d', h, rfl⟩
        · exact ⟨d', Or.inl h, rfl⟩
        · exact ⟨d', Or.inr h, rfl⟩
      obtain ⟨d', hd', rfl⟩ := this
      apply hothers (d'.1 ++ d'.2) _ s (by simp [hs])
      rw [← hpre, ← hpost]
      simp only [Progress.wholes, List.mem_append, List.mem_map] at hd' ⊢
      rcases hd' with h | h
      · exact Or.inl ⟨d', h, rfl⟩
      · exact Or.inr ⟨d', h, rfl⟩
    have hfin : applyAll σ w x = applyAll L w x := by
      rw [hls] at hind
      have hN := hσ.toShuffleN
      rw [hls] at hN
      exact crash_owned hind hN x hothers w
    rw [crash_owned hind' hd x hoth', hfin]
    by_cases ht : touchesList (d.1 ++ d.2) x
    · rcases hx d (by simp) ht with h | h
      · left; rw [h]; rfl
      · right; rw [← hL, h]; simp
    · left
      apply applyAll_frame
      intro s hs
      cases hsx : s.touches x with
      | false => rfl
      | true => exact absurd ⟨s, by simp [hs], hsx⟩ ht
  · exact crash_absorbing hσ x _ (absorbs_class_mkdir hM) k w
  · exact crash_absorbing hσ x _ (absorbs_class_deletion hD) k w

end SyModel.Engine
