/-
  SyModel.Engine.Tree — finite maps from relative paths to nodes (association lists),
  the vocabulary of the engine model.
-/
import SyModel.Basic
namespace SyModel.Engine

/-- a relative path, as components -/
abbrev Path := List String

/-- `p` is a (non-strict) prefix of `q` — `Path::starts_with`. -/
def isPrefix : Path → Path → Bool
  | [], _ => true
  | _ :: _, [] => false
  | a :: p, b :: q => a == b && isPrefix p q

/-- strict ancestors of `p`, shortest first (`[a,b,c]` ↦ `[[a],[a,b]]`). -/
def ancestors (p : Path) : List Path :=
  (List.range p.length).filterMap fun i => if i = 0 then none else some (p.take i)

abbrev Map (α : Type) := List (Path × α)

namespace Map
variable {α : Type}

def get? (m : Map α) (p : Path) : Option α :=
  match m with
  | [] => none
  | (q, v) :: t => if q = p then some v else get? t p

def erase (m : Map α) (p : Path) : Map α := m.filter (fun kv => kv.1 ≠ p)

/-- insert or replace (keeps the position of an existing key stable is not needed: canonical
    output is sorted by the driver) -/
def set (m : Map α) (p : Path) (v : α) : Map α := (p, v) :: erase m p

/-- remove `p` and everything below it (`remove_dir_all`) -/
def eraseSubtree (m : Map α) (p : Path) : Map α := m.filter (fun kv => !isPrefix p kv.1)

def keys (m : Map α) : List Path := m.map (·.1)

@[simp] theorem get?_nil (p : Path) : get? ([] : Map α) p = none := rfl

theorem get?_cons (q : Path) (v : α) (t : Map α) (p : Path) :
    get? ((q, v) :: t) p = if q = p then some v else get? t p := rfl

theorem get?_erase_same (m : Map α) (p : Path) : get? (erase m p) p = none := by
  induction m with
  | nil => rfl
  | cons kv t ih =>
    unfold erase at *
    simp only [List.filter_cons]
    split
    · rename_i h; simp at h; rw [get?_cons, if_neg h]; exact ih
    · exact ih

theorem get?_erase_ne (m : Map α) (p q : Path) (h : p ≠ q) : get? (erase m p) q = get? m q := by
  induction m with
  | nil => rfl
  | cons kv t ih =>
    unfold erase at *
    simp only [List.filter_cons]
    split
    · rename_i hk; rw [get?_cons, get?_cons]
      split
      · rfl
      · exact ih
    · rename_i hk; simp at hk; rw [get?_cons, if_neg (by rw [hk]; exact h)]; exact ih

@[simp] theorem get?_set_same (m : Map α) (p : Path) (v : α) : get? (set m p v) p = some v := by
  simp [set, get?_cons]

theorem get?_set_ne (m : Map α) (p q : Path) (v : α) (h : p ≠ q) :
    get? (set m p v) q = get? m q := by
  simp [set, get?_cons, h, get?_erase_ne]

theorem get?_eraseSubtree (m : Map α) (p q : Path) :
    get? (eraseSubtree m p) q = if isPrefix p q then none else get? m q := by
  induction m with
  | nil => simp [eraseSubtree]
  | cons kv t ih =>
    unfold eraseSubtree at *
    simp only [List.filter_cons]
    by_cases hk : isPrefix p kv.1 = true
    · simp only [hk, Bool.not_true, Bool.false_eq_true, ↓reduceIte]
      rw [ih, get?_cons]
      by_cases hq : kv.1 = q
      · subst hq; simp [hk]
      · simp [hq]
    · simp only [hk, Bool.not_false, ↓reduceIte] 
      simp only [Bool.not_eq_true] at hk
      rw [get?_cons, get?_cons, ih]
      by_cases hq : kv.1 = q
      · subst hq; simp [hk]
      · simp [hq]

end Map
end SyModel.Engine
