/-
  SyModel.Engine.Verify — `SyncEngine::verify` (src/sync/mod.rs, `--verify-only`) and the exit
  status mapping of src/main.rs:402-412.

  Both trees are given as scan results; a file's content is an opaque id, `none` when the file
  cannot be read (then `compute_file_checksum` fails and the path lands in `errors`).
-/
import SyModel.Engine.Tree
namespace SyModel.Engine

structure VEntry where
  rel     : Path
  isDir   : Bool
  content : Option Nat
  size    : Nat
deriving DecidableEq, Repr

structure VCfg where
  minSize : Option Nat
  maxSize : Option Nat
deriving Repr

def VCfg.sizeFiltered (c : VCfg) (size : Nat) : Bool :=
  (match c.minSize with | some mn => decide (size < mn) | none => false) ||
  (match c.maxSize with | some mx => decide (size > mx) | none => false)

structure VResult where
  matched    : Nat
  mismatched : List Path
  onlySrc    : List Path
  onlyDst    : List Path
  errors     : List Path
deriving DecidableEq, Repr

/-- `dest_map.get(&rel_path)`: destination *files* by relative path (later entries win, as in a
    `HashMap::insert` loop; scans have unique paths) -/
def destFile (dst : List VEntry) (p : Path) : Option VEntry :=
  (dst.filter fun d => !d.isDir && d.rel == p).getLast?

inductive Verdict where | matched | mismatched | onlySrc | error | ignored
deriving DecidableEq, Repr

/-- what the loop over the source files does with one source entry -/
def classify (c : VCfg) (dst : List VEntry) (s : VEntry) : Verdict :=
  if s.isDir then .ignored
  else if c.sizeFiltered s.size then .ignored
  else
    match destFile dst s.rel with
    | none => .onlySrc
    | some d =>
      match s.content, d.content with
      | some a, some b => if a = b then .matched else .mismatched
      | _, _ => .error

def verify (c : VCfg) (src dst : List VEntry) : VResult :=
  let v := src.map fun s => (s.rel, classify c dst s)
  let srcFiles := (src.filter fun s => !s.isDir).map (·.rel)
  { matched := (v.filter (·.2 == .matched)).length,
    mismatched := (v.filter (·.2 == .mismatched)).map (·.1),
    onlySrc := (v.filter (·.2 == .onlySrc)).map (·.1),
    errors := (v.filter (·.2 == .error)).map (·.1),
    onlyDst := ((dst.filter fun d => !d.isDir).filter fun d => !srcFiles.contains d.rel).map (·.rel) }

/-- src/main.rs:402-412 -/
def exitCode (r : VResult) : Nat :=
  if !r.errors.isEmpty then 2
  else if !r.mismatched.isEmpty || !r.onlySrc.isEmpty || !r.onlyDst.isEmpty then 1
  else 0

end SyModel.Engine
