/-
  SyModel.Engine.Escape — where the writes of one-way sync land once the kernel has resolved
  symbolic links (C02).

  The entry-level model (`Engine.Model`) speaks about destination-relative paths only; what makes
  C02 non-trivial is that the *kernel* follows a symlink in the last path component for
  `open(O_TRUNC)`, `utimensat`, `listxattr/removexattr` — so a write aimed at `dst/p` lands wherever
  a link at `dst/p` points (the source file itself for an absolute link back into the source).
  Here every write primitive the executors use is given its kernel-level target, under a `Policy`
  saying which protective steps the code performs (regenerated from the Rust source each run).
-/
import SyModel.Engine.Model
namespace SyModel.Engine

inductive Region where | src | dst | out | state
deriving DecidableEq, Repr

/-- a kernel-resolved location -/
structure Ref where
  region : Region
  path   : Path
deriving DecidableEq, Repr

/-- where a symlink stored at destination path `p` with text `t` leads (`none`: dangling, the
    kernel then creates/uses the dangling target's own path — also reported by this function as a
    `Ref`, so `none` simply means "stays at `p`") -/
abbrev Resolver := Path → String → Option Ref

/-- which protective steps the code performs -/
structure Policy where
  copyRemovesLink    : Bool   -- `remove_if_symlink(dest)` at the top of copy_file / sync_file_with_delta
  updateHandlesLinks : Bool   -- `Transferrer::update` routes symlink sources through `handle_symlink`
  symlinkReplaces    : Bool   -- `create_symlink` removes a non-directory at the link path first
  plannerSeesLinks   : Bool   -- a destination symlink is never "up to date" for a regular file
deriving DecidableEq, Repr

def Policy.repaired : Policy := ⟨true, true, true, true⟩
def Policy.pinned : Policy := ⟨false, false, false, false⟩

/-- kernel target of a following operation on destination path `p` -/
def followTarget (res : Resolver) (dst : Map DNode) (p : Path) : Ref :=
  match dst.get? p with
  | some (.symlink t) => (res p t).getD ⟨.dst, p⟩
  | _ => ⟨.dst, p⟩

/-- every location written by executing task `t` against destination `dst` (before the task) -/
def writeFootprint (pol : Policy) (res : Resolver) (cfg : Cfg) (dst : Map DNode) (t : Task) : List Ref :=
  if cfg.dryRun then [] else
  match t.act, t.payload with
  | .skip, _ => []
  | .delete, _ => [⟨.dst, t.rel⟩]                       -- unlink / remove_dir_all never follow the last component
  | _, .nothing => []
  | _, .dir => (ancestors t.rel ++ [t.rel]).map (⟨.dst, ·⟩)
  | _, .symlink _ =>
    -- symlink(2) never follows; but without the replace step the code went through the *file* path
    -- for an existing entry (`update` → sync_file_with_delta → fs::copy through both links)
    if pol.updateHandlesLinks && pol.symlinkReplaces then (ancestors t.rel ++ [t.rel]).map (⟨.dst, ·⟩)
    else (ancestors t.rel).map (⟨.dst, ·⟩) ++ [followTarget res dst t.rel]
  | _, .file _ _ =>
    -- open(O_TRUNC) + copy_file_range, removexattr, utimensat: all follow a link at the path
    (ancestors t.rel).map (⟨.dst, ·⟩) ++
      [if pol.copyRemovesLink then ⟨.dst, t.rel⟩ else followTarget res dst t.rel]

def Ref.inDst (r : Ref) : Bool := r.region == .dst

end SyModel.Engine
