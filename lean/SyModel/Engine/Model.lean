/-
  SyModel.Engine.Model — sequential model of one-way sync (`SyncEngine::sync`, src/sync/mod.rs),
  the planner (src/sync/strategy.rs), the per-task executors (src/sync/transfer.rs,
  src/transport/local.rs) at the level of directory entries.

  File content is an opaque id (equal ids ⇔ equal bytes); the byte-level transfer paths are
  modelled and proved separately (`SyModel.Transfer`).  Tasks run one after the other here;
  `SyModel.Engine.Interleave` lifts the result to every interleaving.
-/
import SyModel.Engine.Tree
set_option linter.unusedVariables false
namespace SyModel.Engine

structure FileMeta where
  content : Nat                     -- content id
  size    : Nat
  mtime   : Nat                     -- nanoseconds
  xattrs  : List (String × Nat)     -- user.* attributes (name, value id)
  ino     : Nat                     -- inode identity (compared as classes)
deriving DecidableEq, Repr

/-- destination entries -/
inductive DNode where
  | file (m : FileMeta)
  | dir
  | symlink (text : String)
deriving DecidableEq, Repr

/-- what a source symlink resolves to (scanner never follows; follow mode stats through) -/
inductive LinkTarget where
  | dangling
  | dir
  | file (m : FileMeta)
deriving DecidableEq, Repr

inductive SKind where
  | file (m : FileMeta) (nlink : Nat)
  | dir
  | symlink (text : String) (tgt : LinkTarget)
deriving DecidableEq, Repr

/-- a scanned source entry (`FileEntry`): `size` is the lstat size used by the size filter,
    `excluded` the verdict of `FilterEngine::should_exclude` for this entry -/
structure SEntry where
  rel      : Path
  kind     : SKind
  size     : Nat
  excluded : Bool
deriving DecidableEq, Repr

def SEntry.isDir (e : SEntry) : Bool := match e.kind with | .dir => true | _ => false

inductive LinkMode where | preserve | follow | skip
deriving DecidableEq, Repr

inductive Compare where | default | checksum | ignoreTimes | sizeOnly
deriving DecidableEq, Repr

structure Cfg where
  delete    : Bool
  force     : Bool
  dryRun    : Bool
  xattrs    : Bool
  hardlinks : Bool
  threshold : Nat            -- --delete-threshold (percent)
  links     : LinkMode
  compare   : Compare
  minSize   : Option Nat
  maxSize   : Option Nat
  maxErrors : Nat
  tie       : Bool           -- what the f64 comparison answers when dels·100 = thr·cnt exactly
deriving Repr

inductive Act where | create | update | skip | delete
deriving DecidableEq, Repr

/-- what a create/update task transfers (after follow-mode dereferencing) -/
inductive Payload where
  | dir
  | file (m : FileMeta) (nlink : Nat)
  | symlink (text : String)
  | nothing                         -- skip-mode / unfollowable symlink
deriving DecidableEq, Repr

structure Task where
  act     : Act
  rel     : Path
  payload : Payload
deriving DecidableEq, Repr

/-! ### filtering (src/sync/mod.rs:370-411, 196-208) -/

def sizeFiltered (cfg : Cfg) (size : Nat) : Bool :=
  (match cfg.minSize with | some mn => decide (size < mn) | none => false) ||
  (match cfg.maxSize with | some mx => decide (size > mx) | none => false)

/-- the `filter` closure folded over the scan with its growing `excluded_dirs` -/
def scanFilterGo (cfg : Cfg) : List SEntry → List Path → List SEntry
  | [], _ => []
  | e :: rest, exdirs =>
    if exdirs.any (fun d => isPrefix d e.rel) then scanFilterGo cfg rest exdirs
    else if e.excluded then
      scanFilterGo cfg rest (if e.isDir then exdirs ++ [e.rel] else exdirs)
    else if e.isDir then e :: scanFilterGo cfg rest exdirs
    else if sizeFiltered cfg e.size then scanFilterGo cfg rest exdirs
    else e :: scanFilterGo cfg rest exdirs

def scanFilter (cfg : Cfg) (scan : List SEntry) : List SEntry := scanFilterGo cfg scan []

/-! ### comparison (src/sync/strategy.rs:333-377) -/

def absDiff (a b : Nat) : Nat := if a ≤ b then b - a else a - b

/-- `mtime_matches`: whole seconds of the absolute difference ≤ tolerance (1) -/
def mtimeMatches (a b : Nat) : Bool := decide (absDiff a b / 1000000000 ≤ 1)

/-- `needs_update` on (size, mtime) of the source entry and what `file_info` reports -/
def needsUpdate (c : Compare) (ssize smtime dsize dmtime : Nat) : Bool :=
  match c with
  | .checksum => true
  | .ignoreTimes => true
  | .sizeOnly => ssize != dsize
  | .default => ssize != dsize || !mtimeMatches smtime dmtime

/-- decision for a regular file (or dereferenced link) against the destination node -/
def planFileAct (cfg : Cfg) (m : FileMeta) : Option DNode → Act
  | none => .create
  | some (.symlink _) => .update                 -- never up to date (forced after the comparison)
  | some .dir => .update                         -- compared through `metadata`; the copy then fails
  | some (.file d) =>
    match cfg.compare with
    | .checksum => if m.content = d.content then .skip else .update
    | c => if needsUpdate c m.size m.mtime d.size d.mtime then .update else .skip

/-- `plan_file_async` + `plan_symlink` for one filtered entry -/
def planEntry (cfg : Cfg) (dst : Map DNode) (e : SEntry) : Task :=
  match e.kind with
  -- a non-directory at the path of a source directory is planned as a creation, which then fails
  -- (`create_dir_all` → EEXIST; src/sync/strategy.rs `plan_file_async` after fix 481828a);
  -- a destination SYMLINK there (placed by an earlier run when the source entry was still a link) is replaced by a
  -- directory, never followed: planned as an update (src/sync/mod.rs planning loop, fix 862af11); what the source has
  -- below it is absent from the destination map (links are not resolved), hence planned as creations
  | .dir => ⟨match dst.get? e.rel with | some .dir => .skip | some (.symlink _) => .update | _ => .create, e.rel, .dir⟩
  | .file m n => ⟨planFileAct cfg m (dst.get? e.rel), e.rel, .file m n⟩
  | .symlink text tgt =>
    match cfg.links with
    | .skip => ⟨.skip, e.rel, .nothing⟩
    | .preserve =>
      match dst.get? e.rel with
      | none => ⟨.create, e.rel, .symlink text⟩
      | some (.symlink t) => ⟨if t = text then .skip else .update, e.rel, .symlink text⟩
      | some _ => ⟨.update, e.rel, .symlink text⟩
    | .follow =>
      match tgt with
      | .file m => ⟨planFileAct cfg m (dst.get? e.rel), e.rel, .file m 1⟩
      | _ => ⟨.skip, e.rel, .nothing⟩

/-! ### deletions and the guard (src/sync/strategy.rs:385-462, src/sync/mod.rs:525-586) -/

def ownMetadata : List Path := [[".sy-checksums.db"], [".sy-dir-cache.json"], [".sy-state.json"]]

/-- `plan_deletions` against the filtered list, then the retain against everything scanned -/
def planDeletions (filtered scanned : List SEntry) (dst : Map DNode) : List Task :=
  (dst.keys.filter fun p =>
      !(filtered.any (·.rel == p)) && !(scanned.any (·.rel == p)) && !(ownMetadata.contains p)).map
    fun p => ⟨.delete, p, .nothing⟩

/-- the denominator of the percentage check: the destination's entries, not counting sy's own
    metadata files — which are never deletion candidates either (src/sync/mod.rs, deletion safety
    check) -/
def destCount (dst : Map DNode) : Nat := (dst.keys.filter fun p => !(ownMetadata.contains p)).length

/-- the percentage check; `tie` stands for the f64 outcome at exact equality -/
def guardRefuses (cfg : Cfg) (dels cnt : Nat) : Bool :=
  cfg.delete && !cfg.force && decide (0 < dels) && decide (0 < cnt) &&
    (decide (dels * 100 > cfg.threshold * cnt) || (decide (dels * 100 = cfg.threshold * cnt) && cfg.tie))

/-! ### execution -/

/-- the part of the run state that tasks read and write -/
structure World where
  dst      : Map DNode
  linkMap  : List (Nat × Path × Nat)      -- source inode group ↦ (first destination path, its inode)
  nextIno  : Nat
  bytes    : Nat
deriving Repr

/-- counters, events and the error list (`SyncStats`, the JSON event stream) -/
structure Book where
  created  : Nat
  updated  : Nat
  skipped  : Nat
  deleted  : Nat
  events   : List (Act × Path)            -- reversed
  errors   : List (Act × Path)            -- reversed
deriving Repr

structure Exec where
  w : World
  b : Book
deriving Repr

/-- `create_dir_all`: every prefix must be a directory or absent (the destination root `[]`
    always exists) -/
def mkdirAll (dst : Map DNode) (p : Path) : Option (Map DNode) :=
  (ancestors p ++ [p]).foldl (fun acc q =>
    match acc with
    | none => none
    | some d =>
      if q = [] then some d else
      match d.get? q with
      | none => some (d.set q .dir)
      | some .dir => some d
      | some _ => none) (some dst)

def parentOf (p : Path) : Path := p.dropLast

/-- `copy_file` / `sync_file_with_delta` at entry level: the destination node becomes a regular
    file with the source's content, size and mtime; xattrs are stripped and re-applied with -X;
    a symlink at the path is replaced, a directory makes the copy fail -/
def writeFile (cfg : Cfg) (w : World) (p : Path) (m : FileMeta) : Option World :=
  match mkdirAll w.dst (parentOf p) with
  | none => none
  | some d =>
    match d.get? p with
    | some .dir => none
    | old =>
      let ino := match old with
        | some (.file o) => o.ino            -- rewritten in place or renamed over: a singleton class either way
        | _ => w.nextIno
      let node : FileMeta := { content := m.content, size := m.size, mtime := m.mtime,
                               xattrs := if cfg.xattrs then m.xattrs else [], ino := ino }
      some { w with dst := d.set p (.file node), nextIno := w.nextIno + 1, bytes := w.bytes + m.size }

def writeSymlink (w : World) (p : Path) (text : String) : Option World :=
  match mkdirAll w.dst (parentOf p) with
  | none => none
  | some d =>
    match d.get? p with
    | some .dir => none
    | _ => some { w with dst := d.set p (.symlink text) }

/-- `create_hardlink(first, dest)`: `link()` fails when the destination path exists -/
def linkFile (w : World) (p first : Path) : Option World :=
  match mkdirAll w.dst (parentOf p) with
  | none => none
  | some d =>
    match d.get? p, d.get? first with
    | none, some (.file fm) => some { w with dst := d.set p (.file fm) }
    | _, _ => none

/-- update of a later member of a source link group (`-H`): whatever non-directory is at the path is
    replaced by a name of the first member's destination inode (src/sync/transfer.rs
    `transfer_link_member`, `is_update`: same inode → nothing to do, else remove + link) -/
def relinkFile (w : World) (p first : Path) : Option World :=
  match mkdirAll w.dst (parentOf p) with
  | none => none
  | some d =>
    match d.get? p, d.get? first with
    | some .dir, _ => none
    | _, some (.file fm) => some { w with dst := d.set p (.file fm) }
    | _, _ => none

/-- `read_link` answers a link → `remove(path, false)`: a symlink at the path is unlinked (the link itself,
    never what it points to); any other node, or nothing, is left as it is -/
def unlinkLink (dst : Map DNode) (p : Path) : Map DNode :=
  match dst.get? p with
  | some (.symlink _) => dst.erase p
  | _ => dst

/-- the destination that the `create_dir_all` of a directory task sees: `Transferrer::update` of a directory
    entry removes a symlink standing at the path first (src/sync/transfer.rs `update`, fix 862af11: the planner
    sends a directory there only when the destination holds a link where the source has a directory);
    `Transferrer::create` does not probe -/
def dirBase (act : Act) (dst : Map DNode) (p : Path) : Map DNode :=
  if act = .update then unlinkLink dst p else dst

/-- what one task does to the world when run to completion; `none` = the task fails -/
def perform (cfg : Cfg) (w : World) (t : Task) : Option World :=
  match t.act with
  | .skip => some w
  | .delete =>
    if cfg.dryRun then some w
    else
      match w.dst.get? t.rel with
      | some .dir => some { w with dst := w.dst.eraseSubtree t.rel }
      | some _ => some { w with dst := w.dst.erase t.rel }
      | none => some w                       -- already gone with its parent: deleted
  | act =>                                   -- create / update
    if cfg.dryRun then some w
    else
      match t.payload with
      | .nothing => some w
      | .dir => (mkdirAll (dirBase act w.dst t.rel) t.rel).map fun d => { w with dst := d }
      | .symlink text => writeSymlink w t.rel text
      | .file m nlink =>
        if (act = .create || act = .update) && cfg.hardlinks && decide (1 < nlink) then
          match w.linkMap.find? (·.1 == m.ino) with
          | some (_, first, _) => if act = .create then linkFile w t.rel first else relinkFile w t.rel first
          | none =>
            (writeFile cfg w t.rel m).map fun w' =>
              let ino := match w'.dst.get? t.rel with | some (.file f) => f.ino | _ => 0
              { w' with linkMap := (m.ino, t.rel, ino) :: w'.linkMap }
        else writeFile cfg w t.rel m

def Book.ok (b : Book) (t : Task) : Book :=
  let b := { b with events := (t.act, t.rel) :: b.events }
  match t.act with
  | .create => { b with created := b.created + 1 }
  | .update => { b with updated := b.updated + 1 }
  | .skip   => { b with skipped := b.skipped + 1 }
  | .delete => { b with deleted := b.deleted + 1 }

def Book.fail (b : Book) (t : Task) : Book := { b with errors := (t.act, t.rel) :: b.errors }

/-- A fault plan: for each task either no fault (`none`) or "the operation fails, leaving
    `g` at the task's own path" (`some g`; `g = none` means nothing is left there). Faults hit
    file-system operations only, so nothing can fail in a dry run or in a skip. -/
abbrev Faults := Task → Option (Option DNode)

def noFaults : Faults := fun _ => none

def garbageAt (dst : Map DNode) (p : Path) : Option DNode → Map DNode
  | some g => dst.set p g
  | none => dst.erase p

/-- one task of the parallel section, run to completion under a fault plan -/
def execTask (cfg : Cfg) (flt : Faults) (st : Exec) (t : Task) : Exec :=
  match (if cfg.dryRun || t.act == .skip then none else flt t) with
  | some g => ⟨{ st.w with dst := garbageAt st.w.dst t.rel g }, st.b.fail t⟩
  | none =>
    match perform cfg st.w t with
    | some w' => ⟨w', st.b.ok t⟩
    | none => ⟨st.w, st.b.fail t⟩

structure Result where
  refused  : Bool
  aborted  : Bool
  dst      : Map DNode
  tasks    : List Task
  created  : Nat
  updated  : Nat
  skipped  : Nat
  deleted  : Nat
  bytes    : Nat
  events   : List (Act × Path)
  errors   : List (Act × Path)
  exit     : Nat
deriving Repr

def initExec (dst : Map DNode) (nextIno : Nat) : Exec :=
  { w := { dst := dst, linkMap := [], nextIno := nextIno, bytes := 0 },
    b := { created := 0, updated := 0, skipped := 0, deleted := 0, events := [], errors := [] } }

def plan (cfg : Cfg) (scan : List SEntry) (dst : Map DNode) : List Task :=
  let filtered := scanFilter cfg scan
  let tasks := filtered.map (planEntry cfg dst)
  if cfg.delete then tasks ++ planDeletions filtered scan dst else tasks

/-- `SyncEngine::sync` followed by the exit-status decision of `main`, under a fault plan -/
def runF (cfg : Cfg) (flt : Faults) (scan : List SEntry) (dst : Map DNode) (nextIno : Nat) : Result :=
  let tasks := plan cfg scan dst
  let dels := (tasks.filter (·.act == .delete)).length
  if guardRefuses cfg dels (destCount dst) then
    { refused := true, aborted := false, dst := dst, tasks := tasks, created := 0, updated := 0,
      skipped := 0, deleted := 0, bytes := 0, events := [], errors := [], exit := 1 }
  else
    let st := tasks.foldl (execTask cfg flt) (initExec dst nextIno)
    let aborted := decide (0 < cfg.maxErrors) && decide (cfg.maxErrors ≤ st.b.errors.length)
    { refused := false, aborted := aborted, dst := st.w.dst, tasks := tasks,
      created := st.b.created, updated := st.b.updated, skipped := st.b.skipped, deleted := st.b.deleted,
      bytes := st.w.bytes, events := st.b.events.reverse, errors := st.b.errors.reverse,
      exit := if st.b.errors.isEmpty then 0 else 1 }

/-- the fault-free run -/
def run (cfg : Cfg) (scan : List SEntry) (dst : Map DNode) (nextIno : Nat) : Result :=
  runF cfg noFaults scan dst nextIno

end SyModel.Engine
