/-
  SyModel.Engine.Bloom — the Bloom-filter branch of `StrategyPlanner::plan_deletions`
  (src/sync/strategy.rs:391-437), taken when the source list has more than 10 000 entries.

  `bloom` is an arbitrary predicate standing for `FileSetBloom::contains` after every source
  path has been inserted (src/sync/scale.rs:17-60).  A destination path is planned for deletion
  when the filter answers "definitely not in the source" (strategy.rs:414-423) or when it answers
  "might exist" and the exact `HashSet` of source paths does not contain it (strategy.rs:424-435).
  The engine then applies the same `retain` against the scanned list and sy's own metadata names
  as for the set branch (`planDeletions`, src/sync/mod.rs:560-569).
-/
import SyModel.Engine.Model
namespace SyModel.Engine

/-- the per-path decision of the Bloom branch -/
def bloomDeletes (bloom : Path → Bool) (source : List SEntry) (p : Path) : Bool :=
  if !bloom p then true                      -- definitely not in source: delete
  else !(source.any (·.rel == p))            -- maybe: verify against the exact set

def planDeletionsBloom (bloom : Path → Bool) (filtered scanned : List SEntry) (dst : Map DNode) : List Task :=
  (dst.keys.filter fun p =>
      bloomDeletes bloom filtered p && !(scanned.any (·.rel == p)) && !(ownMetadata.contains p)).map
    fun p => ⟨.delete, p, .nothing⟩

end SyModel.Engine
