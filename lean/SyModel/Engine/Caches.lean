/-
  SyModel.Engine.Caches — the three persistence mechanisms of one-way sync and what they can
  influence (C18):

  * the directory cache (src/sync/dircache.rs, src/sync/mod.rs:225-372): a cached scan replaces the
    real scan only when the cache has an entry for the root key `"."`;
  * the checksum database (src/sync/checksumdb.rs, src/sync/strategy.rs:152-259): in `--checksum`
    mode the planner takes a source file's checksum from a row keyed by path when the row's
    (mtime, size) equal the file's current ones;
  * resume state (src/sync/resume.rs): loaded, never saved by the engine.
-/
import SyModel.Engine.Model
namespace SyModel.Engine

/-! ### checksum database -/

/-- a row: `path ↦ (mtime, size, checksum)` (path is the primary key; type is always "fast") -/
structure DbRow where
  mtime : Nat
  size  : Nat
  cksum : Nat
deriving DecidableEq, Repr

abbrev Db := Map DbRow

/-- `get_checksum(path, mtime, size)`: a hit needs the stored mtime (s + ns) and size to be equal -/
def Db.lookup (db : Db) (p : Path) (mtime size : Nat) : Option Nat :=
  match db.get? p with
  | some r => if r.mtime = mtime ∧ r.size = size then some r.cksum else none
  | none => none

/-- the checksum the planner sees for a source file: database first, then the real content -/
def seenContent (db : Db) (p : Path) (m : FileMeta) : Nat :=
  match db.lookup p m.mtime m.size with
  | some ck => ck
  | none => m.content

/-- planning with the database consulted (only the decision changes; the transfer copies the file) -/
def planEntryDb (cfg : Cfg) (db : Db) (dst : Map DNode) (e : SEntry) : Task :=
  match e.kind with
  | .file m n => ⟨planFileAct cfg { m with content := seenContent db e.rel m } (dst.get? e.rel), e.rel, .file m n⟩
  | _ => planEntry cfg dst e

/-- "Store checksums in database" after the run: one row per selected source file, from the
    scanned (mtime, size) and the checksum of the file's content -/
def Db.store1 (d : Db) (e : SEntry) : Db :=
  match e.kind with
  | .file m _ => d.set e.rel ⟨m.mtime, m.size, m.content⟩
  | _ => d

def Db.storeAll (db : Db) (filtered : List SEntry) : Db := filtered.foldl Db.store1 db

/-- every row that matches the current source file tells the truth about its content -/
def RowsTruthful (db : Db) (scan : List SEntry) : Prop :=
  ∀ e ∈ scan, ∀ m n, e.kind = .file m n → ∀ ck, db.lookup e.rel m.mtime m.size = some ck → ck = m.content

/-! ### directory cache -/

structure DirCache where
  dirs  : List Path              -- keys of `dir_entries`
  files : List Path              -- keys of `file_entries`
deriving DecidableEq, Repr

/-- the key the substitution test looks up: `PathBuf::from(".")` -/
def rootKey : Path := ["."]

def DirCache.empty : DirCache := ⟨[], []⟩

/-- what `load` yields for a file that fails to parse, has another version, or does not exist -/
def DirCache.loadDamaged : DirCache := DirCache.empty

/-- `!cache.needs_rescan(".", mtime)` can only be true when the root key is present -/
def DirCache.canUse (c : DirCache) : Bool := c.dirs.contains rootKey

/-- the update loop of sync(): directories by relative path; files grouped under `parent()`
    (`""` for top-level files, i.e. the empty path) -/
def DirCache.update (c : DirCache) (scan : List SEntry) : DirCache :=
  { dirs := c.dirs ++ (scan.filter (·.isDir)).map (·.rel),
    files := c.files ++ scan.map (fun e => if e.isDir then e.rel else e.rel.dropLast) }

/-- relative paths produced by the scanner never contain a `.` component -/
def NoDotRels (scan : List SEntry) : Prop := ∀ e ∈ scan, e.rel ≠ rootKey

end SyModel.Engine
