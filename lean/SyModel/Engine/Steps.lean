/-
  SyModel.Engine.Steps — step-level model of task execution on the destination tree.

  One `Step` per mutating system call a task issues against the destination (DESIGN §3 "Runs are
  step sequences", Appendix B).  A planned task (`SyModel.Engine.Task`) is compiled to its step
  list by `stepsOf`; sequential execution folds the steps (`applyAll`), concurrency is the set of
  interleavings of the per-task lists (`Interleaving`), a crash is a prefix of an interleaving
  (`applyAll (σ.take k) w`).  C05 and C09 are theorems over these definitions
  (`SyModel.Props.C05`, `SyModel.Props.C09`).

  Code modelled (commit fd73db4 of /repo):
    src/sync/mod.rs:716-1137       one tokio task per planned action, `Semaphore(max_concurrent)`
    src/sync/transfer.rs:60-310    `create`, `update`, `delete`, `create_directory`, `copy_file`
    src/sync/transfer.rs:510-575   `handle_symlink` (follow mode copies through `copy_file`)
    src/transport/local.rs:235-336 `copy_file`: create_dir_all(parent) · remove_if_symlink · fs::copy · mtime
    src/transport/local.rs:338-876 `sync_file_with_delta`: remove_if_symlink · size gate · sparse branch ·
                                   change-ratio branch · temp file `<name>.sy.tmp` · mtime on temp · rename
    src/transport/local.rs:36-170  `copy_sparse_file` (`_seek`: data, then `set_len`; `_blocks`: `set_len` FIRST)
    src/transport/local.rs:878-959 `remove`, `create_symlink`
    src/temp_file.rs               RAII guard (runs on error/unwind only — never on SIGKILL)

  Hard-link tasks (`create` or `update` of a regular file with -H and nlink > 1) are ordered by the
  C13 protocol and are not part of the free interleaving (`isLinkTask`).
-/
import SyModel.Engine.Model
set_option linter.unusedVariables false
namespace SyModel.Engine

/-! ### nodes and worlds -/

/-- step-level destination node.  `file cid len mtime` holds the first `len` bytes of content `cid`
    (a torn file has `len` < the final size).  `temp cid` is a working file (its bytes are
    irrelevant until it is renamed).  `holey cid size done mtime` is what `copy_sparse_file_blocks`
    produces: `ftruncate` to the FINAL `size` first, of which only the first `done` bytes of data
    are in place (local.rs:143). -/
inductive SNode where
  | dir
  | file (cid len mtime : Nat)
  | symlink (text : String)
  | temp (cid : Nat)
  | holey (cid size done mtime : Nat)
deriving DecidableEq, Repr

/-- the destination tree as a function (updates are pointwise) -/
abbrev SWorld := Path → Option SNode

def upd (w : SWorld) (p : Path) (v : Option SNode) : SWorld := fun x => if x = p then v else w x

def embed : DNode → SNode
  | .file m => .file m.content m.size m.mtime
  | .dir => .dir
  | .symlink t => .symlink t

/-- the step-level view of an entry-level destination map -/
def ofMap (dst : Map DNode) : SWorld := fun p => (dst.get? p).map embed

/-- what `lstat` reports for a regular file: (size, mtime) -/
def SNode.stat : SNode → Option (Nat × Nat)
  | .file _ len mt => some (len, mt)
  | .temp _ => none
  | .holey _ size _ mt => some (size, mt)
  | _ => none

def SNode.isTemp : SNode → Bool
  | .temp _ => true
  | _ => false

/-! ### steps -/

inductive Step where
  | mkdir (p : Path)
  | unlinkIfSymlink (p : Path)
  | openTrunc (p : Path) (cid now : Nat)
  | grow (p : Path) (cid upto : Nat)
  | utimens (p : Path) (mtime : Nat)
  | createTemp (q : Path) (cid : Nat)
  | rename (q p : Path) (cid size mtime : Nat)
  | unlink (p : Path)
  | removeTree (p : Path)
  | symlink (p : Path) (text : String)
  | setLen (p : Path) (cid size : Nat)           -- `set_len(final)` before any data (sparse block copier)
  | fill (p : Path) (cid upto : Nat)             -- data written into a `holey` file
deriving DecidableEq, Repr

/-- what a single-path step does to the node at its path (a failing call leaves it unchanged) -/
def Step.nodeFn : Step → Option SNode → Option SNode
  | .mkdir _, n => match n with
    | none => some .dir
    | some v => some v                                 -- EEXIST (tolerated by create_dir_all)
  | .unlinkIfSymlink _, n => match n with
    | some (.symlink _) => none
    | n => n
  | .openTrunc _ cid now, n => match n with
    | some .dir => some .dir                           -- EISDIR
    | _ => some (.file cid 0 now)
  | .grow _ cid upto, n => match n with
    | some (.file _ _ mt) => some (.file cid upto mt)
    | n => n
  | .utimens _ mtime, n => match n with
    | some (.file c l _) => some (.file c l mtime)
    | some (.holey c s d _) => some (.holey c s d mtime)
    | n => n
  | .createTemp _ cid, n => match n with
    | some .dir => some .dir                           -- EISDIR
    | _ => some (.temp cid)                            -- O_CREAT|O_TRUNC: whatever was there is clobbered
  | .unlink _, n => match n with
    | some .dir => some .dir                           -- EISDIR
    | _ => none
  | .symlink _ text, n => match n with
    | none => some (.symlink text)
    | some v => some v                                 -- EEXIST
  | .setLen _ cid size, n => match n with
    | some (.file _ _ mt) => if size = 0 then some (.file cid 0 mt) else some (.holey cid size 0 mt)
    | n => n
  | .fill _ _ upto, n => match n with
    | some (.holey c s d mt) => if s ≤ upto then some (.file c s mt) else some (.holey c s upto mt)
    | n => n
  | .rename .., n => n
  | .removeTree _, n => n

/-- the path of a single-path step -/
def Step.path : Step → Path
  | .mkdir p => p
  | .unlinkIfSymlink p => p
  | .openTrunc p _ _ => p
  | .grow p _ _ => p
  | .utimens p _ => p
  | .createTemp q _ => q
  | .rename _ p _ _ _ => p
  | .unlink p => p
  | .removeTree p => p
  | .symlink p _ => p
  | .setLen p _ _ => p
  | .fill p _ _ => p

/-- total, local semantics of one step -/
def Step.apply (s : Step) (w : SWorld) : SWorld :=
  match s with
  | .rename q p cid size mtime =>
    if w q = some (.temp cid) then upd (upd w p (some (.file cid size mtime))) q none else w
  | .removeTree p => fun x => if isPrefix p x then none else w x
  | s => upd w s.path (s.nodeFn (w s.path))

/-- footprint: the paths a step may read or write -/
def Step.touches : Step → Path → Bool
  | .mkdir p, x => x == p
  | .unlinkIfSymlink p, x => x == p
  | .openTrunc p _ _, x => x == p
  | .grow p _ _, x => x == p
  | .utimens p _, x => x == p
  | .createTemp q _, x => x == q
  | .rename q p _ _ _, x => x == q || x == p
  | .unlink p, x => x == p
  | .removeTree p, x => isPrefix p x
  | .symlink p _, x => x == p
  | .setLen p _ _, x => x == p
  | .fill p _ _, x => x == p

def Step.isMkdir : Step → Bool
  | .mkdir _ => true
  | _ => false

/-- `unlink` / `removeTree`: the steps of delete tasks -/
def Step.isDeletion : Step → Bool
  | .unlink _ => true
  | .removeTree _ => true
  | _ => false

def applyAll (l : List Step) (w : SWorld) : SWorld := l.foldl (fun w s => s.apply w) w

/-! ### temp names -/

/-- the fixed naming (local.rs:536-543): append the suffix to the LAST component -/
def tempOf (suffix : String) : Path → Path
  | [] => []
  | [a] => [a ++ suffix]
  | a :: b :: r => a :: tempOf suffix (b :: r)

/-- `Path::with_extension("sy.tmp")` on one file name: everything after the last `.` is replaced
    (a leading dot is not an extension separator) — the naming before commit 0c4aecb -/
def withExtensionName (ext : String) (name : String) : String :=
  let cs := name.toList
  let stem := match cs.reverse.dropWhile (· != '.') with
    | [] => cs
    | _ :: r => if r.isEmpty then cs else r.reverse
  String.ofList stem ++ "." ++ ext

def tempOfOld : Path → Path
  | [] => []
  | [a] => [withExtensionName "sy.tmp" a]
  | a :: b :: r => a :: tempOfOld (b :: r)

/-! ### step lists of tasks -/

/-- which branch a ≥-threshold update takes, and facts about the two files that are not part of
    the entry-level `Task` -/
inductive Route where
  | delta          -- block compare into `<name>.sy.tmp`, mtime on the temp, rename (local.rs:536-855)
  | full           -- in place `fs::copy`: change ratio > 75 % (local.rs:464-489)
  | followed       -- the source entry is a followed symlink: `handle_symlink` goes straight to
                   -- `copy_file` (transfer.rs:544), never through `sync_file_with_delta`
  | sparseSeek     -- sparse source: `copy_sparse_file_seek` (remove, create, data…, set_len last)
  | sparseBlocks   -- sparse source on a file system without SEEK_DATA: `copy_sparse_file_blocks`
                   -- (remove, create, set_len FIRST, data…)
deriving DecidableEq, Repr

structure Hint where
  route : Route := .delta
  /-- the destination has other names the source does not share: it is unlinked before the in-place
      copy (`break_unshared_hard_link`, work in progress in /repo at the time of writing) -/
  breakLink : Bool := false
  /-- the logical clock value the kernel stamps on the file at `open(O_TRUNC)` / `write` -/
  now : Nat := 0
deriving Repr

/-- `create_dir_all(parent of p)`: `mkdir` of every strict non-empty prefix (existing ones: no-ops) -/
def mkdirChain (p : Path) : List Step := (ancestors p).map Step.mkdir

/-- `create_dir_all(p)` -/
def dirSteps (p : Path) : List Step := if p = [] then [] else mkdirChain p ++ [Step.mkdir p]

/-- sizes after each write of `chunk` bytes: `chunk, 2·chunk, …, size` (`size` itself last) -/
def uptos (chunk size : Nat) : List Nat :=
  (List.range (size / chunk)).map (fun i => (i + 1) * chunk) ++ (if size % chunk = 0 then [] else [size])

def growSteps (p : Path) (cid chunk size : Nat) : List Step := (uptos chunk size).map (Step.grow p cid)

def fillSteps (p : Path) (cid chunk size : Nat) : List Step := (uptos chunk size).map (Step.fill p cid)

/-- the in-place write of `fs::copy` followed by the mtime restore -/
def writeSteps (p : Path) (m : FileMeta) (chunk now : Nat) : List Step :=
  [Step.openTrunc p m.content now] ++ growSteps p m.content chunk m.size ++ [Step.utimens p m.mtime]

/-- `Transferrer::copy_file` → `LocalTransport::copy_file` -/
def fullCopySteps (p : Path) (m : FileMeta) (chunk : Nat) (h : Hint) : List Step :=
  mkdirChain p ++ [Step.unlinkIfSymlink p] ++ (if h.breakLink then [Step.unlink p] else []) ++
    writeSteps p m chunk h.now

def deltaSteps (suffix : String) (p : Path) (m : FileMeta) : List Step :=
  [Step.createTemp (tempOf suffix p) m.content,
   Step.rename (tempOf suffix p) p m.content m.size m.mtime]

def sparseSeekSteps (p : Path) (m : FileMeta) (chunk now : Nat) : List Step :=
  [Step.unlink p] ++ writeSteps p m chunk now

def sparseBlocksSteps (p : Path) (m : FileMeta) (chunk now : Nat) : List Step :=
  [Step.unlink p, Step.openTrunc p m.content now, Step.setLen p m.content m.size] ++
    fillSteps p m.content chunk m.size ++ [Step.utimens p m.mtime]

/-- the branch of `sync_file_with_delta` after its leading `remove_if_symlink` -/
def updateSteps (deltaThreshold chunk : Nat) (suffix : String) (h : Hint) (old : Option DNode)
    (p : Path) (m : FileMeta) : List Step :=
  match old with
  | some (.file d) =>
    -- the second gate `dest_size < 4096` (local.rs:382) never fires: 4096 ≤ DELTA_THRESHOLD
    -- (`consts_ok_delta_threshold`), and the verification hook lifts the size above both gates
    if d.size < deltaThreshold then fullCopySteps p m chunk h
    else match h.route with
      | .delta => deltaSteps suffix p m
      | .full => (if h.breakLink then [Step.unlink p] else []) ++ writeSteps p m chunk h.now
      | .sparseSeek => sparseSeekSteps p m chunk h.now
      | .sparseBlocks => sparseBlocksSteps p m chunk h.now
      | .followed => fullCopySteps p m chunk h
  | _ => fullCopySteps p m chunk h              -- absent / was a symlink (now removed) / directory (copy fails)

def symlinkSteps (old : Option DNode) (p : Path) (text : String) : List Step :=
  mkdirChain p ++ (match old with
    | none => []
    | some .dir => []
    | some _ => [Step.unlink p]) ++ [Step.symlink p text]

/-- a `create` or an `update` that goes through the hard-link protocol (C13): with `-H`, a regular
    file with more than one name is handed to `transfer_link_member` by `Transferrer::create` AND by
    `Transferrer::update` (src/sync/transfer.rs `update`: "Members of a source hard-link group are
    coordinated exactly as on creation", fix a68466f) — one member rewrites the file, the others end
    up as links to it; neither runs the step list `stepsOfH` gives for an ordinary file task -/
def isLinkTask (cfg : Cfg) (t : Task) : Bool :=
  match t.act, t.payload with
  | .create, .file _ nlink => cfg.hardlinks && decide (1 < nlink)
  | .update, .file _ nlink => cfg.hardlinks && decide (1 < nlink)
  | _, _ => false

/-- the step list of one task; `old` is the destination node the executor finds at `t.rel` -/
def stepsOfH (cfg : Cfg) (deltaThreshold chunk : Nat) (suffix : String) (h : Hint)
    (old : Option DNode) (t : Task) : List Step :=
  if cfg.dryRun then [] else
  match t.act with
  | .skip => []
  | .delete =>
    match old with
    | some .dir => [Step.removeTree t.rel]
    | some _ => [Step.unlink t.rel]
    | none => []                                   -- already gone: NotFound is tolerated (mod.rs:1079-1087)
  | .create =>
    match t.payload with
    | .nothing => []
    | .dir => dirSteps t.rel
    | .symlink text => symlinkSteps old t.rel text
    | .file m _ => fullCopySteps t.rel m chunk h
  | .update =>
    match t.payload with
    | .nothing => []
    -- `Transferrer::update` of a directory entry (fix 862af11; planned only for a destination link standing where
    -- the source has a directory): `read_link` probe, `remove(path, false)` of a link — one conditional unlink,
    -- like `remove_if_symlink` —, then `create_dir_all`
    | .dir => [Step.unlinkIfSymlink t.rel] ++ dirSteps t.rel
    | .symlink text => symlinkSteps old t.rel text
    | .file m _ =>
      if h.route = .followed then fullCopySteps t.rel m chunk h
      else [Step.unlinkIfSymlink t.rel] ++ updateSteps deltaThreshold chunk suffix h old t.rel m

/-- default route (block delta), no link breaking -/
def stepsOf (cfg : Cfg) (deltaThreshold chunk : Nat) (suffix : String) (old : Option DNode)
    (t : Task) : List Step :=
  stepsOfH cfg deltaThreshold chunk suffix {} old t

/-- the step lists of the freely interleaved (non-link) tasks of a run over `dst` -/
def taskLists (cfg : Cfg) (deltaThreshold chunk : Nat) (suffix : String) (hint : Task → Hint)
    (dst : Map DNode) (tasks : List Task) : List (List Step) :=
  (tasks.filter fun t => !isLinkTask cfg t).map fun t =>
    stepsOfH cfg deltaThreshold chunk suffix (hint t) (dst.get? t.rel) t

/-! ### interleavings -/

/-- `σ` is an interleaving of the lists `ls`: repeatedly pick any list and emit its head -/
inductive Interleaving {α : Type} : List (List α) → List α → Prop where
  | done {ls : List (List α)} : (∀ l ∈ ls, l = []) → Interleaving ls []
  | pick {ls ls' : List (List α)} {pre post : List (List α)} {l : List α} {s : α} {σ : List α} :
      ls = pre ++ (s :: l) :: post → ls' = pre ++ l :: post →
      Interleaving ls' σ → Interleaving ls (s :: σ)

/-- binary shuffle -/
inductive Shuffle {α : Type} : List α → List α → List α → Prop where
  | nil : Shuffle [] [] []
  | left {a b σ : List α} {s : α} : Shuffle a b σ → Shuffle (s :: a) b (s :: σ)
  | right {a b σ : List α} {s : α} : Shuffle a b σ → Shuffle a (s :: b) (s :: σ)

/-- the binary shuffle lifted over a list of lists (equivalent to `Interleaving`,
    `SyModel.Props.C05.interleaving_iff_shuffleN`) -/
inductive ShuffleN {α : Type} : List (List α) → List α → Prop where
  | nil : ShuffleN [] []
  | cons {l : List α} {ls : List (List α)} {τ σ : List α} :
      ShuffleN ls τ → Shuffle l τ σ → ShuffleN (l :: ls) σ

/-- one worker slot of the semaphore scheduler -/
structure Slot where
  started : Bool
  rest : List Step
deriving Repr

/-- tasks holding a permit: started and not finished -/
def running (c : List Slot) : Nat := (c.filter fun s => s.started && !s.rest.isEmpty).length

/-- runs admitted by a `j`-permit semaphore (mod.rs:716-726, 1135): a task starts only while fewer
    than `j` tasks are running; a started task issues its steps one at a time -/
inductive SemRun (j : Nat) : List Slot → List Step → Prop where
  | done {c : List Slot} : (∀ s ∈ c, s.rest = []) → SemRun j c []
  | acquire {c c' pre post : List Slot} {l : List Step} {σ : List Step} :
      c = pre ++ ⟨false, l⟩ :: post → c' = pre ++ ⟨true, l⟩ :: post → running c < j →
      SemRun j c' σ → SemRun j c σ
  | exec {c c' pre post : List Slot} {l : List Step} {s : Step} {σ : List Step} :
      c = pre ++ ⟨true, s :: l⟩ :: post → c' = pre ++ ⟨true, l⟩ :: post →
      SemRun j c' σ → SemRun j c (s :: σ)

def initSlots (ls : List (List Step)) : List Slot := ls.map fun l => ⟨false, l⟩

/-! ### independence (vocabulary of C05 / C09) -/

/-- two steps are independent: disjoint footprints, or the same `mkdir` (create_dir_all of a shared
    ancestor), or both are deletions (a stale directory and its stale children are separate tasks) -/
def Indep (s t : Step) : Prop :=
  (∀ x, ¬ (s.touches x = true ∧ t.touches x = true)) ∨
  (∃ p, s = .mkdir p ∧ t = .mkdir p) ∨
  (s.isDeletion = true ∧ t.isDeletion = true)

def IndepLists (a b : List Step) : Prop := ∀ s ∈ a, ∀ t ∈ b, Indep s t

def PairwiseIndep (ls : List (List Step)) : Prop := ls.Pairwise IndepLists

/-- some step of `l` touches `x` -/
def touchesList (l : List Step) (x : Path) : Prop := ∃ s ∈ l, s.touches x = true

/-- no working file anywhere -/
def NoTemp (w : SWorld) : Prop := ∀ x c, w x ≠ some (.temp c)

end SyModel.Engine
