/-
  SyModel.Filter.Spec — declarative counterparts used by the C16 theorems:
  the `Matches` relation (what a token list *means*), well-formedness of token lists as produced
  by `Pattern::new`, and the scan-order assumption `ParentsFirst`.
-/
import SyModel.Filter.ScanFilter
set_option linter.unusedVariables false
namespace SyModel.Filter

instance {ε α : Type} [DecidableEq ε] [DecidableEq α] : DecidableEq (Except ε α) := fun a b =>
  match a, b with
  | .ok x, .ok y => if h : x = y then isTrue (h ▸ rfl) else isFalse (fun e => h (Except.ok.inj e))
  | .error x, .error y => if h : x = y then isTrue (h ▸ rfl) else isFalse (fun e => h (Except.error.inj e))
  | .ok _, .error _ => isFalse (fun e => by cases e)
  | .error _, .ok _ => isFalse (fun e => by cases e)

/-- Declarative semantics of a compiled glob under the default `MatchOptions`:
    * an ordinary token consumes exactly one character it accepts (`?` and classes accept `/` too);
    * `*` consumes any string (including `/`);
    * `**` consumes nothing, or a prefix that ends with `/` (whole leading components),
      or — when nothing but sequence tokens follows — everything that is left. -/
inductive Matches : List Token → List Char → Prop
  | nil : Matches [] []
  | one {tok : Token} {c : Char} {rest : List Token} {s : List Char} :
      tok.matchesChar c = true → Matches rest s → Matches (tok :: rest) (c :: s)
  | seq {rest : List Token} (s₁ : List Char) {s₂ : List Char} :
      Matches rest s₂ → Matches (.anySeq :: rest) (s₁ ++ s₂)
  | recEmpty {rest : List Token} {s : List Char} :
      Matches rest s → Matches (.anyRecSeq :: rest) s
  | recDirs {rest : List Token} (s₁ : List Char) {s₂ : List Char} :
      Matches rest s₂ → Matches (.anyRecSeq :: rest) (s₁ ++ '/' :: s₂)
  | recTail {rest : List Token} (s : List Char) :
      Matches rest [] → Matches (.anyRecSeq :: rest) s

/-- `ok` = "an `AnyRecursiveSequence` may come next": at the start, after `Char('/')`, after
    another `AnyRecursiveSequence`. -/
def wfGo : Bool → List Token → Bool
  | _, [] => true
  | ok, .anyRecSeq :: rest => ok && wfGo true rest
  | _, .char c :: rest => wfGo (c == '/') rest
  | _, _ :: rest => wfGo false rest

/-- Token lists as `Pattern::new` builds them: every `**` is a whole path component
    (`parse_wf`). The early `EntirePatternDoesntMatch` exit of the matcher is only complete on
    such lists (`glob_matches_iff_counterexample_illformed`). -/
def WF (toks : List Token) : Prop := wfGo true toks = true

instance (toks : List Token) : Decidable (WF toks) := by unfold WF; infer_instance

/-- "the directory `q` is matched by the pattern": by its full relative path when the pattern
    contains a `/`, by its base name otherwise. -/
def Rule.matchesDirPath (r : Rule) (q : RelPath) : Bool :=
  if r.hasSlash then globMatch r.toks (pathStr q) else matchesBase r.toks q

/-- what identifies a rule in the order theorems: action and original pattern text -/
def Rule.key (r : Rule) : Bool × List Char := (r.isInclude, r.patternStr)

/-- keys contributed by one `add_rule` line (nothing for blank lines, comments and bad lines) -/
def specKey (line : List Char) : List (Bool × List Char) :=
  match ruleSpec line with
  | .ok (some k) => [k]
  | _ => []

/-- keys contributed by one line of `--include-from` / `--exclude-from` -/
def patLineKey (isInclude : Bool) (line : List Char) : List (Bool × List Char) :=
  let l := trim line
  if l.isEmpty || l.head? == some '#' then [] else [(isInclude, l)]

/-- `add_rule(line)` succeeds (it does not depend on the rules already present) -/
def lineOk (line : List Char) : Bool :=
  match addRule [] line with
  | .ok _ => true
  | .error _ => false

/-- The per-entry decision of the scan filter as a stateless predicate over the entries that came
    *before* `e` in the scan (`scanFilter_eq_specList`): included by the rules, no preceding
    directory that is a path prefix is excluded, size within bounds unless a directory. -/
def ancOk (rules : List Rule) (before : List Entry) (e : Entry) : Bool :=
  before.all (fun a => !(a.isDir && a.rel.isPrefixOf e.rel) || shouldInclude rules a.rel a.isDir)

def keptSpec (cfg : FilterCfg) (before : List Entry) (e : Entry) : Bool :=
  ancOk cfg.rules before e && shouldInclude cfg.rules e.rel e.isDir &&
    (e.isDir || !filterBySize cfg e.size)

def specList (cfg : FilterCfg) : List Entry → List Entry → List Entry
  | _, [] => []
  | before, e :: todo =>
    (if keptSpec cfg before e then [e] else []) ++ specList cfg (before ++ [e]) todo

/-- `a` is a proper ancestor-or-self path prefix of `p` (component-wise, `Path::starts_with`). -/
abbrev IsPrefix (a p : RelPath) : Prop := a <+: p

/-- The scan-order assumption (DESIGN §3, what `ignore::Walk` guarantees): nothing that comes
    after an entry is a prefix of it — ancestors come first and no path is listed twice.
    Sibling order is unconstrained. -/
def ParentsFirst (scan : List Entry) : Prop :=
  ∀ l1 e l2, scan = l1 ++ e :: l2 → ∀ a ∈ l2, ¬ a.rel <+: e.rel

end SyModel.Filter
