/-
  SyModel.Filter.ScanFilter — what `SyncEngine::sync` keeps of the scan before planning:
  the `filter` closure of src/sync/mod.rs:370-411 with its growing `excluded_dirs`, the size
  bounds `should_filter_by_size` (src/sync/mod.rs:196-208) and the CLI validation of the bounds
  (src/cli.rs:404-412).
-/
import SyModel.Filter.Engine
set_option linter.unusedVariables false
namespace SyModel.Filter

/-- The fields of `FileEntry` the filter reads. -/
structure Entry where
  rel : RelPath
  isDir : Bool
  size : Nat
deriving Repr, DecidableEq

structure FilterCfg where
  rules : List Rule
  minSize : Option Nat := none
  maxSize : Option Nat := none

/-- `should_filter_by_size` (src/sync/mod.rs:196-208): `true` = drop. -/
def filterBySize (cfg : FilterCfg) (size : Nat) : Bool :=
  (match cfg.minSize with
   | some min => decide (size < min)
   | none => false) ||
  (match cfg.maxSize with
   | some max => decide (size > max)
   | none => false)

/-- `Cli::validate` (src/cli.rs:404-412): `false` = "--min-size cannot be greater than --max-size". -/
def sizeBoundsValid (cfg : FilterCfg) : Bool :=
  match cfg.minSize, cfg.maxSize with
  | some min, some max => decide (min ≤ max)
  | _, _ => true

/-- `Path::starts_with` (component-wise prefix). -/
def startsWith (p dir : RelPath) : Bool := dir.isPrefixOf p

/-- State of the `filter` closure: `excluded_dirs` and the entries kept so far. -/
structure ScanState where
  excludedDirs : List RelPath := []
  kept : List Entry := []

/-- One call of the closure (src/sync/mod.rs:372-409). -/
def scanStep (cfg : FilterCfg) (st : ScanState) (e : Entry) : ScanState :=
  -- :374-382 inside an excluded directory
  if st.excludedDirs.any (fun d => startsWith e.rel d) then st
  -- :385-394 exclude patterns
  else if !shouldInclude cfg.rules e.rel e.isDir then
    if e.isDir then { st with excludedDirs := st.excludedDirs ++ [e.rel] } else st
  -- :397-399 directories are never size-filtered
  else if e.isDir then { st with kept := st.kept ++ [e] }
  -- :401-404 size filter
  else if filterBySize cfg e.size then st
  else { st with kept := st.kept ++ [e] }

/-- `all_files.into_iter().filter(..).collect()` (src/sync/mod.rs:370-411). -/
def scanFilter (cfg : FilterCfg) (scan : List Entry) : List Entry :=
  (scan.foldl (scanStep cfg) {}).kept

/-- What the process syncs (src/main.rs:563-571): a directory tree through `SyncEngine::sync`,
    or — when the source path is a regular file — that one file through
    `SyncEngine::sync_single_file`, as an entry whose `relative_path` is the file name
    (src/sync/mod.rs:1662-1735). -/
inductive Source where
  | dir (scan : List Entry)
  | singleFile (e : Entry)

/-- The entries handed to the transfer step.
    `sync_single_file` applies the exclude rules to the file name (`is_dir = false`) and the size
    bounds before doing anything else (fix: "filters apply to single-file sources"). -/
def transferSet (cfg : FilterCfg) : Source → List Entry
  | .dir scan => scanFilter cfg scan
  | .singleFile e =>
    if shouldInclude cfg.rules e.rel false && !filterBySize cfg e.size then [e] else []

end SyModel.Filter
