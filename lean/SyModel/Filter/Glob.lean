/-
  SyModel.Filter.Glob — the `glob` crate (0.3.3) exactly as sy uses it:
  `glob::Pattern::new` (lib.rs:603-726) and `Pattern::matches` (lib.rs:769-771), i.e.
  `matches_from` (lib.rs:798-880) under `MatchOptions::new()`:
  case sensitive, `require_literal_separator = false` (so `*`, `?` and classes DO cross `/`),
  `require_literal_leading_dot = false`.

  Strings are `List Char` (Rust `char` = Unicode scalar value = Lean `Char`).
  The path separator is `/` only (`std::path::is_separator` on Unix).

  Under the default options the `follows_separator` argument of `matches_from` is dead: it is read
  only together with `require_literal_leading_dot` (false) and in a `debug_assert!`; the one place
  that matters (`AnyRecursiveSequence if !follows_separator => continue`) reads the value assigned
  from the character just consumed. The model therefore does not carry it.
-/
import SyModel.Basic
set_option linter.unusedVariables false
namespace SyModel.Filter

/-- `CharSpecifier` (lib.rs:587-591). -/
inductive CharSpec where
  | single (c : Char)
  | range (lo hi : Char)
deriving DecidableEq, Repr

/-- `PatternToken` (lib.rs:577-585). -/
inductive Token where
  | char (c : Char)
  | anyChar
  | anySeq
  | anyRecSeq
  | anyWithin (cs : List CharSpec)
  | anyExcept (cs : List CharSpec)
deriving DecidableEq, Repr

/-- `PatternError` (`msg` as an enum, `pos` as in the crate). -/
inductive PatErr where
  /-- `ERROR_WILDCARDS` -/
  | wildcards (pos : Nat)
  /-- `ERROR_RECURSIVE_WILDCARDS` -/
  | recursiveWildcards (pos : Nat)
  /-- `ERROR_INVALID_RANGE` -/
  | invalidRange (pos : Nat)
deriving DecidableEq, Repr

/-- `i + 3 <= s.len() && s[i + 1] == '-'` seen from `s[i+1..]`; yields `s[i + 2]`. -/
def rangeEnd? : List Char → Option Char
  | b :: c :: _ => if b = '-' then some c else none
  | _ => none

/-- `parse_char_specifiers` (lib.rs:985-998): `a-b` is a range when three characters remain.
    `skip` counts the characters already consumed by a range (`i += 3`). -/
def parseCharSpecsGo : Nat → List Char → List CharSpec
  | _, [] => []
  | skip + 1, _ :: tl => parseCharSpecsGo skip tl
  | 0, a :: tl =>
    match rangeEnd? tl with
    | some c => .range a c :: parseCharSpecsGo 2 tl
    | none => .single a :: parseCharSpecsGo 0 tl

def parseCharSpecs (s : List Char) : List CharSpec := parseCharSpecsGo 0 s

/-- `iter().position(|x| *x == c)`. -/
def indexOf? (c : Char) : List Char → Option Nat
  | [] => none
  | x :: xs => if x = c then some 0 else (indexOf? c xs).map (· + 1)

/-- number of leading `*` (the inner `while i < chars.len() && chars[i] == '*'`). -/
def countStars : List Char → Nat
  | '*' :: rest => countStars rest + 1
  | _ => 0

/-- The push of lib.rs:651-659: consecutive `AnyRecursiveSequence` collapse — but only when more
    than one token has been pushed already (`tokens_len > 1`), so `**/**/x` yields two of them. -/
def pushRec (acc : List Token) : List Token :=
  if acc.length > 1 ∧ acc.getLast? = some .anyRecSeq then acc else acc ++ [.anyRecSeq]

/-- The `while i < chars.len()` loop of `Pattern::new` (lib.rs:610-717).
    `pos` is `i`, `prev` is `chars[i-1]`, `rest` is `chars[i..]`, `acc` is `tokens`.
    `fuel` bounds the number of iterations (each consumes ≥ 1 character; `parse` supplies
    `chars.len() + 1`, and `parseGo_fuel` shows the `0` branch is never reached). -/
def parseGo : Nat → Nat → Option Char → List Char → List Token → Except PatErr (List Token)
  | 0, _, _, _, _ => .error (.wildcards 0)
  | _ + 1, _, _, [], acc => .ok acc
  | fuel + 1, pos, prev, c :: rest, acc =>
    if c = '?' then parseGo fuel (pos + 1) (some c) rest (acc ++ [.anyChar])
    else if c = '*' then
      let count := countStars rest + 1
      let after := rest.drop (count - 1)
      let i := pos + count
      if count > 2 then .error (.wildcards (pos + 2))
      else if count = 2 then
        -- `i == 2 || is_separator(chars[i - count - 1])`
        if pos = 0 ∨ prev = some '/' then
          match after with
          | [] => parseGo fuel i (some '*') [] (pushRec acc)
          | d :: after' =>
            if d = '/' then parseGo fuel (i + 1) (some '/') after' (pushRec acc)
            else .error (.recursiveWildcards i)
        else .error (.recursiveWildcards (pos - 1))
      else parseGo fuel (pos + 1) (some '*') rest (acc ++ [.anySeq])
    else if c = '[' then
      -- `rest = chars[i+1..]`
      if 3 ≤ rest.length ∧ rest.head? = some '!' then
        match indexOf? ']' (rest.drop 2) with
        | some j =>
          parseGo fuel (pos + j + 4) (some ']') (rest.drop (j + 3))
            (acc ++ [.anyExcept (parseCharSpecs ((rest.drop 1).take (j + 1)))])
        | none => .error (.invalidRange pos)
      else if 2 ≤ rest.length ∧ rest.head? ≠ some '!' then
        match indexOf? ']' (rest.drop 1) with
        | some j =>
          parseGo fuel (pos + j + 3) (some ']') (rest.drop (j + 2))
            (acc ++ [.anyWithin (parseCharSpecs (rest.take (j + 1)))])
        | none => .error (.invalidRange pos)
      else .error (.invalidRange pos)
    else parseGo fuel (pos + 1) (some c) rest (acc ++ [.char c])

/-- `glob::Pattern::new`. -/
def parse (p : List Char) : Except PatErr (List Token) :=
  parseGo (p.length + 1) 0 none p []

/-- `MatchResult` (lib.rs:593-598). -/
inductive MatchResult where
  | «match»
  | subPatternDoesntMatch
  | entirePatternDoesntMatch
deriving DecidableEq, Repr

/-- `in_char_specifiers` with `case_sensitive = true` (lib.rs:1002-1036). -/
def inCharSpecs (cs : List CharSpec) (c : Char) : Bool :=
  cs.any fun
    | .single sc => c == sc
    | .range lo hi => decide (lo ≤ c) && decide (c ≤ hi)

def Token.isSeq : Token → Bool
  | .anySeq | .anyRecSeq => true
  | _ => false

/-- The `_ =>` arm of `matches_from` (lib.rs:846-868) for one consumed character, default
    options. (The two sequence tokens are `unreachable!()` there; `false` here.) -/
def Token.matchesChar : Token → Char → Bool
  | .anyChar, _ => true
  | .anyWithin cs, c => inCharSpecs cs c
  | .anyExcept cs, c => !inCharSpecs cs c
  | .char c2, c => c == c2
  | .anySeq, _ => false
  | .anyRecSeq, _ => false

/-- The `while let Some(c) = file.next()` loop of a sequence token (lib.rs:820-844).
    `k` is the continuation `matches_from(.., file.clone(), i + ti + 1, ..)`.
    When the loop runs out of characters the enclosing `for` continues over the remaining tokens
    with the exhausted iterator — that is `k []` again. -/
def seqLoop (isRec : Bool) (k : List Char → MatchResult) : List Char → MatchResult
  | [] => k []
  | c :: file =>
    -- `AnyRecursiveSequence if !follows_separator => continue`
    if isRec && c != '/' then seqLoop isRec k file
    else
      match k file with
      | .subPatternDoesntMatch => seqLoop isRec k file   -- keep trying
      | m => m

/-- `matches_from` (lib.rs:798-880) on `tokens[i..]`. -/
def matchesFrom : List Token → List Char → MatchResult
  | [], [] => .match
  | [], _ :: _ => .subPatternDoesntMatch
  | tok :: rest, file =>
    if tok.isSeq then
      -- "Empty match"
      match matchesFrom rest file with
      | .subPatternDoesntMatch =>
        seqLoop (tok == .anyRecSeq) (fun f => matchesFrom rest f) file
      | m => m
    else
      match file with
      | [] => .entirePatternDoesntMatch
      | c :: file' =>
        if tok.matchesChar c then matchesFrom rest file' else .subPatternDoesntMatch

/-- `Pattern::matches` / `matches_with(str, MatchOptions::new())`. -/
def globMatch (toks : List Token) (s : List Char) : Bool :=
  matchesFrom toks s == .match

end SyModel.Filter
