/-
  SyModel.Filter.Engine — `FilterEngine` (src/filter.rs:143-305): `add_rule` prefix parsing,
  `add_include` / `add_exclude`, `add_rules_from_file`, `should_include` (first match wins,
  default include), and the construction order of src/main.rs:209-333
  (`--filter` rules, `--include`, `--exclude`, `--include-from`, `--exclude-from`, templates,
  `.syignore`).
-/
import SyModel.Filter.Rule
set_option linter.unusedVariables false
namespace SyModel.Filter

/-- `char::is_whitespace` (Unicode `White_Space`), used by `str::trim`. -/
def isWs (c : Char) : Bool :=
  let n := c.toNat
  (0x09 ≤ n && n ≤ 0x0D) || n == 0x20 || n == 0x85 || n == 0xA0 || n == 0x1680 ||
  (0x2000 ≤ n && n ≤ 0x200A) || n == 0x2028 || n == 0x2029 || n == 0x202F || n == 0x205F ||
  n == 0x3000

/-- `str::trim`. -/
def trim (s : List Char) : List Char :=
  ((s.dropWhile isWs).reverse.dropWhile isWs).reverse

/-- `str::strip_prefix`. -/
def stripPrefix : List Char → List Char → Option (List Char)
  | [], s => some s
  | _ :: _, [] => none
  | p :: ps, c :: s => if p = c then stripPrefix ps s else none

inductive RuleErr where
  /-- `anyhow::bail!("Empty filter pattern")` -/
  | emptyPattern
  /-- `glob::Pattern::new` failed ("Invalid filter pattern") -/
  | pattern (e : PatErr)
deriving DecidableEq, Repr

/-- The text part of `add_rule` (src/filter.rs:161-186): `none` for blank lines and comments,
    otherwise the action (`true` = include) and the trimmed pattern. -/
def ruleSpec (rule : List Char) : Except RuleErr (Option (Bool × List Char)) :=
  let rule := trim rule
  if rule.isEmpty || rule.head? == some '#' then .ok none
  else
    let ap : Bool × List Char :=
      match stripPrefix ['+', ' '] rule with
      | some p => (true, trim p)
      | none =>
      match stripPrefix ['+'] rule with
      | some p => (true, trim p)
      | none =>
      match stripPrefix ['-', ' '] rule with
      | some p => (false, trim p)
      | none =>
      match stripPrefix ['-'] rule with
      | some p => (false, trim p)
      | none => (false, rule)
    if ap.2.isEmpty then .error .emptyPattern else .ok (some ap)

/-- `add_include` / `add_exclude` (src/filter.rs:194-206): push `FilterRule::new(action, pattern)`. -/
def addPattern (rs : List Rule) (isInclude : Bool) (pattern : List Char) : Except RuleErr (List Rule) :=
  match Rule.new isInclude pattern with
  | .ok r => .ok (rs ++ [r])
  | .error e => .error (.pattern e)

/-- `add_rule` (src/filter.rs:161-192). -/
def addRule (rs : List Rule) (rule : List Char) : Except RuleErr (List Rule) :=
  match ruleSpec rule with
  | .error e => .error e
  | .ok none => .ok rs
  | .ok (some (incl, pat)) => addPattern rs incl pat

/-- a `for` loop that `bail!`s on the first error. -/
def addAll (f : List Rule → List Char → Except RuleErr (List Rule)) :
    List Rule → List (List Char) → Except RuleErr (List Rule)
  | rs, [] => .ok rs
  | rs, x :: xs =>
    match f rs x with
    | .error e => .error e
    | .ok rs' => addAll f rs' xs

/-- `add_rules_from_file` (src/filter.rs:209-236) when the caller only logs the error
    (`add_template`, `.syignore`: src/main.rs:303-331): the rules pushed before the first bad line
    stay in the engine, the rest of the file is not read. -/
def addAllLenient (f : List Rule → List Char → Except RuleErr (List Rule)) :
    List Rule → List (List Char) → List Rule
  | rs, [] => rs
  | rs, x :: xs =>
    match f rs x with
    | .error _ => rs
    | .ok rs' => addAllLenient f rs' xs

/-- The per-line treatment of `--include-from` / `--exclude-from` (src/main.rs:236-300):
    trim, skip blanks and comments, then `add_include` / `add_exclude`. -/
def addPatternLine (isInclude : Bool) (rs : List Rule) (line : List Char) : Except RuleErr (List Rule) :=
  let line := trim line
  if line.isEmpty || line.head? == some '#' then .ok rs
  else addPattern rs isInclude line

/-- `if let Some(ref file) = cli.include_from { for line in lines { … } }` -/
def addAllOpt (f : List Rule → List Char → Except RuleErr (List Rule)) (rs : List Rule) :
    Option (List (List Char)) → Except RuleErr (List Rule)
  | none => .ok rs
  | some ls => addAll f rs ls

/-- What src/main.rs:209-333 reads: CLI vectors in clap order, the lines of the optional
    pattern files, the lines of every *existing* template file in order, the lines of the
    source directory's `.syignore` if present. -/
structure RuleSources where
  filters : List (List Char) := []
  includes : List (List Char) := []
  excludes : List (List Char) := []
  includeFrom : Option (List (List Char)) := none
  excludeFrom : Option (List (List Char)) := none
  templates : List (List (List Char)) := []
  syignore : Option (List (List Char)) := none

/-- The order in which `buildRules` consumes its sources, by name; `consts_ok_rule_order` compares it
    with the order of the corresponding statements in src/main.rs (regenerated from the source on
    every run). -/
def ruleSourceOrder : List String :=
  ["filter", "include", "exclude", "include_from", "exclude_from", "template", "syignore"]

/-- The filter-engine construction of src/main.rs:209-333. An error is the `anyhow::bail!`
    that ends the process before anything is transferred. -/
def buildRules (c : RuleSources) : Except RuleErr (List Rule) :=
  match addAll addRule [] c.filters with
  | .error e => .error e
  | .ok r1 =>
  match addAll (fun rs p => addPattern rs true p) r1 c.includes with
  | .error e => .error e
  | .ok r2 =>
  match addAll (fun rs p => addPattern rs false p) r2 c.excludes with
  | .error e => .error e
  | .ok r3 =>
  match addAllOpt (addPatternLine true) r3 c.includeFrom with
  | .error e => .error e
  | .ok r4 =>
  match addAllOpt (addPatternLine false) r4 c.excludeFrom with
  | .error e => .error e
  | .ok r5 =>
    let r6 := c.templates.foldl (fun rs ls => addAllLenient addRule rs ls) r5
    let r7 := match c.syignore with
      | none => r6
      | some ls => addAllLenient addRule r6 ls
    .ok r7

/-- The `for rule in &self.rules` loop of `should_include` (src/filter.rs:291-300). -/
def shouldIncludeLoop (path : RelPath) (isDir : Bool) : List Rule → Bool
  | [] => true                                     -- no rule matched: include
  | r :: rest =>
    if r.matches path isDir then r.isInclude       -- first match wins
    else shouldIncludeLoop path isDir rest

/-- `FilterEngine::should_include` (src/filter.rs:283-301). -/
def shouldInclude (rs : List Rule) (path : RelPath) (isDir : Bool) : Bool :=
  if rs.isEmpty then true
  else shouldIncludeLoop path isDir rs

/-- index of the rule that decides (`none`: default include); for the driver's answer. -/
def decidingRule (path : RelPath) (isDir : Bool) : List Rule → Nat → Option Nat
  | [], _ => none
  | r :: rest, i => if r.matches path isDir then some i else decidingRule path isDir rest (i + 1)

end SyModel.Filter
