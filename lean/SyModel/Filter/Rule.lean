/-
  SyModel.Filter.Rule — `FilterRule::new` (src/filter.rs:32-54) and `FilterRule::matches`
  (src/filter.rs:56-141), branch by branch.

  Paths. The rules are only ever applied to `FileEntry::relative_path` values produced by the
  scanner (`path.strip_prefix(root)`, src/sync/scanner.rs:283): clean relative paths. A path is
  modelled by its list of components (`RelPath`); on such paths
    * `path.to_str()`            = components joined by `/`                      (`pathStr`)
    * `path.file_name()`         = the last component, `None` for the empty path (`fileName`)
    * `path.ancestors().skip(1)` = the proper prefixes, longest first, ending with the empty path
                                                                                  (`ancestorsSkip1`)
  `CleanPath` states the domain (non-empty components without `/`, none of them `.` or `..`);
  the driver refuses anything else.
-/
import SyModel.Filter.Glob
set_option linter.unusedVariables false
namespace SyModel.Filter

abbrev Name := List Char
/-- a relative path as the list of its components -/
abbrev RelPath := List Name

/-- `Path::to_str` of a clean relative path. -/
def pathStr : RelPath → List Char
  | [] => []
  | [a] => a
  | a :: b :: rest => a ++ '/' :: pathStr (b :: rest)

/-- `Path::file_name`. -/
def fileName (p : RelPath) : Option Name := p.getLast?

/-- `path.ancestors().skip(1)`: for `a/b/c` it is `a/b`, `a`, `` (the empty path); nothing for
    the empty path itself. -/
def ancestorsSkip1 (p : RelPath) : List RelPath :=
  (List.range p.length).reverse.map (fun k => p.take k)

def cleanName (n : Name) : Bool :=
  !n.isEmpty && !n.contains '/' && n != ['.'] && n != ['.', '.']

/-- The domain on which `RelPath` faithfully represents a `std::path::Path`. -/
def CleanPath (p : RelPath) : Prop := ∀ n ∈ p, cleanName n = true

instance (p : RelPath) : Decidable (CleanPath p) := by unfold CleanPath; infer_instance

/-- `FilterRule` (src/filter.rs:16-30). `glob` is `pattern_for_glob` = `Pattern::as_str()`,
    `toks` the compiled `glob::Pattern`. -/
structure Rule where
  isInclude : Bool
  patternStr : List Char
  glob : List Char
  toks : List Token
  hasSlash : Bool
  dirOnly : Bool
deriving Repr, DecidableEq

/-- `str::trim_end_matches('/')`. -/
def trimEndSlash (p : List Char) : List Char :=
  (p.reverse.dropWhile (· == '/')).reverse

/-- `FilterRule::new` (src/filter.rs:32-54). -/
def Rule.new (isInclude : Bool) (pattern : List Char) : Except PatErr Rule :=
  let dirOnly := pattern.getLast? == some '/'
  let forGlob := if dirOnly then trimEndSlash pattern else pattern
  let hasSlash := forGlob.contains '/'
  match parse forGlob with
  | .error e => .error e
  | .ok toks => .ok { isInclude, patternStr := pattern, glob := forGlob, toks, hasSlash, dirOnly }

/-- `path.file_name().and_then(|n| n.to_str())` then `self.pattern.matches(basename)`;
    `false` when there is no file name. -/
def matchesBase (toks : List Token) (p : RelPath) : Bool :=
  match fileName p with
  | some b => globMatch toks b
  | none => false

/-- `FilterRule::matches` (src/filter.rs:56-141). -/
def Rule.matches (r : Rule) (path : RelPath) (isDir : Bool) : Bool :=
  if r.dirOnly then
    if r.hasSlash then
      -- :69-85 pattern with slash like "foo/bar/": full path of the entry, then of each ancestor
      (isDir && globMatch r.toks (pathStr path)) ||
      (ancestorsSkip1 path).any
        (fun a => !(pathStr a).isEmpty && globMatch r.toks (pathStr a))
    else
      -- :86-123
      if r.glob == ['*'] then
        -- :93-101 "*/" only matches directories, not their contents
        if !isDir then false
        else matchesBase r.toks path
      else
        -- :102-122 "build/": the directory itself, or any ancestor's base name
        (isDir && matchesBase r.toks path) ||
        (ancestorsSkip1 path).any (fun a => matchesBase r.toks a)
  else if r.hasSlash then
    -- :125-131
    globMatch r.toks (pathStr path)
  else
    -- :132-139
    matchesBase r.toks path

end SyModel.Filter
