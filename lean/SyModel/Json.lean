/-
  SyModel.Json — the handful of JSON primitives the helper wire formats need:
  ASCII literals, the decimal integer printer of `serde_json` (itoa: no sign, no
  leading zeros) and its integer grammar (`0` or a non-zero digit followed by digits;
  a leading zero followed by a digit is serde_json's "invalid number").

  JSON text is modelled as `Bytes` (every byte the printers emit is ASCII, so
  `String::from_utf8` is the identity on it).
-/
import SyModel.Basic
namespace SyModel.Json

def c2b (c : Char) : UInt8 := c.toNat.toUInt8

/-- an ASCII literal as bytes -/
def lit (s : String) : Bytes := s.toList.map c2b

/-- `expect p l`: strip the literal prefix `p` from `l`. -/
def expect : Bytes → Bytes → Option Bytes
  | [], l => some l
  | _ :: _, [] => none
  | p :: ps, x :: xs => if p = x then expect ps xs else none

def digitByte (d : Nat) : UInt8 := (48 + d).toUInt8

def isDigit (b : UInt8) : Bool := 48 ≤ b.toNat && b.toNat ≤ 57

def startsDigit : Bytes → Bool
  | b :: _ => isDigit b
  | [] => false

/-- decimal printer (what `itoa` produces for an unsigned integer). -/
def printNat (n : Nat) : Bytes :=
  if _h : n < 10 then [digitByte n] else printNat (n / 10) ++ [digitByte (n % 10)]
termination_by n
decreasing_by omega

/-- consume a maximal run of digits -/
def parseDigits (acc : Nat) : Bytes → Nat × Bytes
  | [] => (acc, [])
  | b :: t => if isDigit b then parseDigits (acc * 10 + (b.toNat - 48)) t else (acc, b :: t)

/-- serde_json's unsigned integer: `0` | `[1-9][0-9]*`; `none` for anything else,
    in particular for a leading zero followed by another digit. -/
def parseNat : Bytes → Option (Nat × Bytes)
  | [] => none
  | b :: t =>
    if b = 48 then (if startsDigit t then none else some (0, t))
    else if isDigit b then some (parseDigits 0 (b :: t))
    else none

theorem parseDigits_length (acc : Nat) (l : Bytes) : (parseDigits acc l).2.length ≤ l.length := by
  induction l generalizing acc with
  | nil => simp [parseDigits]
  | cons b t ih =>
    simp only [parseDigits]
    split
    · have := ih (acc * 10 + (b.toNat - 48)); simp only [List.length_cons]; omega
    · simp

/-- a successful `parseNat` consumes at least one byte (termination of the list parsers). -/
theorem parseNat_length {l : Bytes} {n : Nat} {r : Bytes} (h : parseNat l = some (n, r)) :
    r.length < l.length := by
  cases l with
  | nil => simp [parseNat] at h
  | cons b t =>
    simp only [parseNat] at h
    split at h
    · split at h
      · simp at h
      · simp only [Option.some.injEq, Prod.mk.injEq] at h; rw [← h.2]; simp
    · split at h
      · rename_i hd
        simp only [Option.some.injEq] at h
        have h2 : (parseDigits 0 (b :: t)).2 = r := by rw [h]
        rw [← h2]
        simp only [parseDigits, hd, ↓reduceIte]
        have := parseDigits_length (0 * 10 + (b.toNat - 48)) t
        simp only [List.length_cons]; omega
      · simp at h

theorem expect_length {p l r : Bytes} (h : expect p l = some r) : r.length + p.length = l.length := by
  induction p generalizing l with
  | nil => simp [expect] at h; simp [h]
  | cons a ps ih =>
    cases l with
    | nil => simp [expect] at h
    | cons x xs =>
      simp only [expect] at h
      split at h
      · have := ih h; simp only [List.length_cons]; omega
      · simp at h

end SyModel.Json
