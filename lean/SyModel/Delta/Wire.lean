/-
  SyModel.Delta.Wire — the wire leg of remote delta sync:

  * `encodeJson`: exactly the text `serde_json::to_string(&Delta)` produces for
    `struct Delta { ops: Vec<DeltaOp>, source_size: u64, block_size: usize }`,
    `enum DeltaOp { Copy { offset: u64, size: usize }, Data(Vec<u8>) }`
    (src/delta/generator.rs:10-30; serde's default externally tagged representation), e.g.
    `{"ops":[{"Copy":{"offset":0,"size":4}},{"Data":[1,2,3]}],"source_size":10,"block_size":4}`;
  * `decodeJson`: a parser for exactly that canonical form (serde_json itself accepts more:
    white space, reordered / unknown fields — never produced by the sender, not modelled);
    it rejects what serde_json rejects on the inputs the correspondence stream feeds it
    (truncation, trailing bytes, leading zeros, array elements above 255, signs, fractions);
  * the sender's `compress(delta_json, Zstd)` (src/transport/ssh.rs:1003-1018);
  * `remoteDecode`: `sy-remote apply-delta`'s stdin handling (src/bin/sy-remote.rs:153-174):
    magic sniffing, `decompress`, `String::from_utf8`, `serde_json::from_str`.

  Numbers are unbounded `Nat` here (`u64`/`usize` in the code): the printer is only ever given
  values of those types, and on them model and code agree (checked up to `u64::MAX`).
-/
import SyModel.Delta.Core
import SyModel.Json
import SyModel.Compress.Sniff
namespace SyModel.Delta
open SyModel.Json SyModel.Compress

/-- `struct Delta`. -/
structure Delta where
  ops        : List Op
  sourceSize : Nat
  blockSize  : Nat
deriving Repr, DecidableEq

/-! ### printer -/

/-- `1,2,3` -/
def encodeByteList : Bytes → Bytes
  | [] => []
  | [b] => printNat b.toNat
  | b :: c :: t => printNat b.toNat ++ 44 :: encodeByteList (c :: t)

def encodeOp : Op → Bytes
  | .copy o s => lit "{\"Copy\":{\"offset\":" ++ printNat o ++ lit ",\"size\":" ++ printNat s ++ lit "}}"
  | .data d => lit "{\"Data\":[" ++ encodeByteList d ++ lit "]}"

def encodeOps : List Op → Bytes
  | [] => []
  | [op] => encodeOp op
  | op :: o2 :: t => encodeOp op ++ 44 :: encodeOps (o2 :: t)

/-- `serde_json::to_string(&delta)` -/
def encodeJson (d : Delta) : Bytes :=
  lit "{\"ops\":[" ++ encodeOps d.ops ++ lit "],\"source_size\":" ++ printNat d.sourceSize ++
    lit ",\"block_size\":" ++ printNat d.blockSize ++ lit "}"

/-! ### parser -/

/-- elements of a `Vec<u8>` after the first one has been announced: `n (, n)* ]`;
    an element above 255 is serde's "invalid value … expected u8". -/
def parseByteElems (l : Bytes) : Option (Bytes × Bytes) :=
  match _h : parseNat l with
  | some (n, 44 :: r') =>
    if n < 256 then
      match parseByteElems r' with
      | some (bs, r'') => some (n.toUInt8 :: bs, r'')
      | none => none
    else none
  | some (n, 93 :: r') => if n < 256 then some ([n.toUInt8], r') else none
  | _ => none
termination_by l.length
decreasing_by
  have := parseNat_length _h
  simp only [List.length_cons] at this; omega

/-- a `Vec<u8>` after its `[`. -/
def parseByteArr : Bytes → Option (Bytes × Bytes)
  | 93 :: r => some ([], r)
  | l => parseByteElems l

/-- one `DeltaOp`. -/
def parseOp (l : Bytes) : Option (Op × Bytes) :=
  match expect (lit "{\"Copy\":{\"offset\":") l with
  | some r1 =>
    match parseNat r1 with
    | some (o, r2) =>
      match expect (lit ",\"size\":") r2 with
      | some r3 =>
        match parseNat r3 with
        | some (s, r4) =>
          match expect (lit "}}") r4 with
          | some r5 => some (.copy o s, r5)
          | none => none
        | none => none
      | none => none
    | none => none
  | none =>
    match expect (lit "{\"Data\":[") l with
    | some r1 =>
      match parseByteArr r1 with
      | some (d, r2) =>
        match expect (lit "]}") (93 :: r2) with   -- `parseByteArr` consumed the `]`
        | some r3 => some (.data d, r3)
        | none => none
      | none => none
    | none => none

theorem parseByteElems_length {l : Bytes} {d r : Bytes} (h : parseByteElems l = some (d, r)) :
    r.length < l.length := by
  induction hl : l.length using Nat.strongRecOn generalizing l d r with
  | _ k ih =>
    rw [parseByteElems] at h
    split at h
    · rename_i n r' hp
      have h1 := parseNat_length hp
      split at h
      · split at h
        · rename_i bs r'' hrec
          have h2 := ih r'.length (by simp only [List.length_cons] at h1; omega) hrec rfl
          simp only [Option.some.injEq, Prod.mk.injEq] at h
          rw [← h.2]; simp only [List.length_cons] at h1; omega
        · simp at h
      · simp at h
    · rename_i n r' hp
      have h1 := parseNat_length hp
      split at h
      · simp only [Option.some.injEq, Prod.mk.injEq] at h
        rw [← h.2]; simp only [List.length_cons] at h1; omega
      · simp at h
    · simp at h

theorem parseByteArr_length {l : Bytes} {d r : Bytes} (h : parseByteArr l = some (d, r)) :
    r.length < l.length := by
  unfold parseByteArr at h
  split at h
  · simp only [Option.some.injEq, Prod.mk.injEq] at h; rw [← h.2]; simp
  · exact parseByteElems_length h

theorem parseOp_length {l : Bytes} {op : Op} {r : Bytes} (h : parseOp l = some (op, r)) :
    r.length < l.length := by
  unfold parseOp at h
  split at h
  · rename_i r1 h1
    split at h <;> try (simp at h)
    rename_i o r2 h2
    split at h <;> try (simp at h)
    rename_i r3 h3
    split at h <;> try (simp at h)
    rename_i s r4 h4
    split at h <;> try (simp at h)
    rename_i r5 h5
    have a1 := expect_length h1
    have a2 := parseNat_length h2
    have a3 := expect_length h3
    have a4 := parseNat_length h4
    have a5 := expect_length h5
    rw [← h.2]
    have : (lit "{\"Copy\":{\"offset\":").length = 18 := by decide
    omega
  · split at h <;> try (simp at h)
    rename_i r1 h1
    split at h <;> try (simp at h)
    rename_i d r2 h2
    split at h <;> try (simp at h)
    rename_i r3 h3
    have a1 := expect_length h1
    have a2 := parseByteArr_length h2
    have a3 := expect_length h3
    rw [← h.2]
    have : (lit "{\"Data\":[").length = 9 := by decide
    have : (lit "]}").length = 2 := by decide
    simp only [List.length_cons] at a3
    omega

/-- the ops after the first one has been announced: `op (, op)* ]` -/
def parseOpElems (l : Bytes) : Option (List Op × Bytes) :=
  match _h : parseOp l with
  | some (op, 44 :: r') =>
    match parseOpElems r' with
    | some (ops, r'') => some (op :: ops, r'')
    | none => none
  | some (op, 93 :: r') => some ([op], r')
  | _ => none
termination_by l.length
decreasing_by
  have := parseOp_length _h
  simp only [List.length_cons] at this; omega

/-- the `ops` array after its `[`. -/
def parseOpArr : Bytes → Option (List Op × Bytes)
  | 93 :: r => some ([], r)
  | l => parseOpElems l

/-- `serde_json::from_str::<Delta>` on the canonical form; trailing bytes are an error. -/
def decodeJson (l : Bytes) : Option Delta :=
  match expect (lit "{\"ops\":[") l with
  | none => none
  | some r1 =>
    match parseOpArr r1 with
    | none => none
    | some (ops, r2) =>
      match expect (lit "],\"source_size\":") (93 :: r2) with   -- `parseOpArr` consumed the `]`
      | none => none
      | some r3 =>
        match parseNat r3 with
        | none => none
        | some (ss, r4) =>
          match expect (lit ",\"block_size\":") r4 with
          | none => none
          | some r5 =>
            match parseNat r5 with
            | none => none
            | some (bs, r6) =>
              match r6 with
              | [125] => some { ops := ops, sourceSize := ss, blockSize := bs }
              | _ => none

/-! ### sender and helper -/

/-- `delta_json.as_bytes()` -/
def encode (d : Delta) : Bytes := encodeJson d

/-- what the sender puts on the helper's stdin: `compress(delta_json.as_bytes(), Compression::Zstd)`. -/
def wireSend (Z : Codec) (d : Delta) : Bytes := Z.compress (encode d)

/-- `sy-remote apply-delta`: sniff, decompress, parse. `none`: the helper exits with an error. -/
def remoteDecode (Z : Codec) (stdin : Bytes) : Option Delta :=
  match sniff Z stdin with
  | some text => decodeJson text
  | none => none

/-- the whole helper: decode stdin, then `apply_delta(base_file, &delta, output_file)`. -/
def remoteApply (Z : Codec) (old : Bytes) (stdin : Bytes) : Option Bytes :=
  match remoteDecode Z stdin with
  | some d => applyOps old d.ops
  | none => none

end SyModel.Delta
