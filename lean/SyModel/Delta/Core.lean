/-
  SyModel.Delta.Core — block checksums (src/delta/checksum.rs), delta ops and
  `apply_delta` (src/delta/applier.rs), and the in-memory generator
  `generate_delta` (src/delta/generator.rs:246-373).

  The strong hash is a parameter `strong : Bytes → H` (xxh3-64 in the code).
-/
import SyModel.Delta.Adler
set_option linter.unusedVariables false
namespace SyModel.Delta

/-- `BlockChecksum` (the `index` field is `offset / block_size` and is not used by the generators). -/
structure Block (H : Type) where
  offset : Nat
  size   : Nat
  weak   : Nat
  strong : H
deriving Repr

/-- `compute_checksums`: consecutive blocks of `bs` bytes, the last one possibly shorter;
    an empty file has no blocks. (`bs = 0` panics in the code; the model returns `[]`.) -/
def checksumsFrom {H} (strong : Bytes → H) (bs : Nat) (off : Nat) (l : Bytes) : List (Block H) :=
  if _h : bs = 0 ∨ l = [] then []
  else
    let blk := l.take bs
    ⟨off, blk.length, hashBytes blk, strong blk⟩ :: checksumsFrom strong bs (off + bs) (l.drop bs)
termination_by l.length
decreasing_by
  have h1 : bs ≠ 0 := fun e => _h (Or.inl e)
  have h2 : l ≠ [] := fun e => _h (Or.inr e)
  have : 0 < l.length := List.length_pos_iff.mpr h2
  simp only [List.length_drop]; omega

def checksums {H} (strong : Bytes → H) (bs : Nat) (old : Bytes) : List (Block H) :=
  checksumsFrom strong bs 0 old

/-- `DeltaOp`. -/
inductive Op where
  | copy (offset size : Nat)
  | data (bytes : Bytes)
deriving Repr, DecidableEq

/-- `seek(offset)` then `read_exact` of `size` bytes: fails when the range leaves the file.
    Seeking past the end is allowed and reading zero bytes always succeeds
    (found by the correspondence check: `Copy{offset: 2, size: 0}` on a 1-byte file is accepted). -/
def readExact (old : Bytes) (offset size : Nat) : Option Bytes :=
  if size = 0 ∨ offset + size ≤ old.length then some ((old.drop offset).take size) else none

/-- `apply_delta`: `none` is the `UnexpectedEof` error of `read_exact`. -/
def applyOps (old : Bytes) : List Op → Option Bytes
  | [] => some []
  | .copy off sz :: ops =>
    match readExact old off sz, applyOps old ops with
    | some b, some r => some (b ++ r)
    | _, _ => none
  | .data b :: ops =>
    match applyOps old ops with
    | some r => some (b ++ r)
    | none => none

/-- `checksum_map.get(&weak)` followed by the scan for `checksum.strong == strong`
    (full-block branch). Buckets keep insertion order, so this is `find?` on the list. -/
def findFull {H} [BEq H] (cs : List (Block H)) (weak : Nat) (st : H) : Option (Block H) :=
  cs.find? (fun c => c.weak == weak && c.strong == st)

/-- the same for the partial tail (`checksum.size == partial.len() && checksum.strong == strong`). -/
def findPartial {H} [BEq H] (cs : List (Block H)) (weak : Nat) (st : H) (len : Nat) : Option (Block H) :=
  cs.find? (fun c => c.weak == weak && (c.size == len && c.strong == st))

/-- flush of the literal buffer (`if !literal_buffer.is_empty() { ops.push(Data(..)) }`);
    both accumulators are kept reversed. -/
def flush (litRev : Bytes) (opsRev : List Op) : List Op :=
  if litRev.isEmpty then opsRev else .data litRev.reverse :: opsRev

/-- Loop of `generate_delta` over the remaining suffix `rest = source_data[pos..]`.
    `roll` is the (possibly stale) rolling state. -/
def genMemGo {H} [BEq H] (strong : Bytes → H) (cs : List (Block H)) (bs : Nat) :
    (rest : Bytes) → (roll : Adler) → (litRev : Bytes) → (opsRev : List Op) → List Op
  | [], _, litRev, opsRev => (flush litRev opsRev).reverse
  | x :: tl, roll, litRev, opsRev =>
    if hfull : hasAtLeast bs (x :: tl) = true then
      -- full block branch
      match findFull cs roll.digest (strong ((x :: tl).take bs)) with
      | some c =>
        if hbs : bs = 0 then (flush litRev opsRev).reverse   -- `pos += 0` forever in the code; unreachable for bs > 0
        else
          let rest' := (x :: tl).drop bs
          let roll' := if hasAtLeast bs rest' then Adler.ofBlock (rest'.take bs) else roll
          genMemGo strong cs bs rest' roll' [] (.copy c.offset c.size :: flush litRev opsRev)
      | none =>
        -- literal byte; roll when `pos + block_size - 1 < len` for the incremented `pos`
        let roll' := match (x :: tl).drop bs with
          | y :: _ => Adler.roll bs roll x y
          | [] => roll
        genMemGo strong cs bs tl roll' (x :: litRev) opsRev
    else
      -- partial block at the end
      match findPartial cs (hashBytes (x :: tl)) (strong (x :: tl)) (x :: tl).length with
      | some c => (.copy c.offset c.size :: flush litRev opsRev).reverse
      | none =>
        let roll' := match (x :: tl).drop bs with
          | y :: _ => Adler.roll bs roll x y
          | [] => roll
        genMemGo strong cs bs tl roll' (x :: litRev) opsRev
termination_by rest => rest.length
decreasing_by
  · have := (hasAtLeast_iff bs (x :: tl)).mp hfull
    simp only [List.length_drop, List.length_cons] at *; omega
  · simp
  · simp

/-- `generate_delta` (the `ops` field of the result). -/
def genMem {H} [BEq H] (strong : Bytes → H) (cs : List (Block H)) (bs : Nat) (new : Bytes) : List Op :=
  let roll := if hasAtLeast bs new then Adler.ofBlock (new.take bs) else Adler.ofBlock []
  genMemGo strong cs bs new roll [] []

end SyModel.Delta
