/-
  SyModel.Delta.Adler — sy's own Adler-32 (src/delta/rolling.rs), modelled exactly.
  All quantities are `Nat`; the only place where the Rust `u32` arithmetic can wrap
  (`n * old`, and the cast `block_size as u32`) carries an explicit `wrap32`.
-/
import SyModel.Basic
namespace SyModel.Delta

/-- `MOD_ADLER` in rolling.rs (cross-checked against the generated constant in `Props/C04`). -/
abbrev MOD : Nat := 65521

def wrap32 (n : Nat) : Nat := n % 4294967296

structure Adler where
  a : Nat
  b : Nat
deriving Repr, DecidableEq

namespace Adler

/-- `Adler32::new` / the reset at the top of `update_block` and `hash`. -/
def init : Adler := ⟨1, 0⟩

/-- One iteration of the `for &byte in …` loop of `hash` / `update_block`. -/
def push (s : Adler) (x : UInt8) : Adler :=
  let a := (s.a + x.toNat) % MOD
  ⟨a, (s.b + a) % MOD⟩

/-- `update_block(block)`. -/
def ofBlock (d : Bytes) : Adler := d.foldl push init

/-- `digest()`: `(b << 16) | a`. -/
def digest (s : Adler) : Nat := (s.b <<< 16) ||| s.a

/-- `roll(old, new)` for a hasher created with `Adler32::new(n)`. -/
def roll (n : Nat) (s : Adler) (old new : UInt8) : Adler :=
  let a := (s.a + MOD * 2 - old.toNat + new.toNat) % MOD
  let nOld := wrap32 (wrap32 n * old.toNat) % MOD
  ⟨a, (s.b + MOD * 3 - nOld + a - 1) % MOD⟩

end Adler

/-- `Adler32::hash(data)`. -/
def hashBytes (d : Bytes) : Nat := (Adler.ofBlock d).digest

/-- State after `k` roll steps over `d`, starting from the state `s` of window `d[0..n)`:
    step `i` removes `d[i]` and adds `d[i+n]` (missing bytes stop the rolling). -/
def rollN (n : Nat) (s : Adler) : Bytes → Nat → Adler
  | _, 0 => s
  | [], _ + 1 => s
  | x :: t, k + 1 =>
    match (x :: t).drop n with
    | y :: _ => rollN n (Adler.roll n s x y) t k
    | [] => s

end SyModel.Delta
