/-
  SyModel.Delta.Stream — `generate_delta_streaming` (src/delta/generator.rs:68-232).

  State of the loop: the unconsumed part of the window `wrest = window[window_pos..]`,
  `wpos = window_pos`, the unread rest of the file, the size of the last read, the
  rolling state and the two accumulators (reversed).  `File::read` is modelled as
  returning `min(chunk, remaining)` bytes (trusted base: regular files do that).
-/
import SyModel.Delta.Core
set_option linter.unusedVariables false
namespace SyModel.Delta

structure SSt where
  wrest     : Bytes
  wpos      : Nat
  fileRest  : Bytes
  bytesRead : Nat
  roll      : Adler
  litRev    : Bytes
  opsRev    : List Op
deriving Repr

/-- One pass through the match attempt and the literal step of the `while` body,
    for `window[window_pos..] = x :: tl`. -/
def sbody {H} [BEq H] (strong : Bytes → H) (cs : List (Block H)) (bs : Nat)
    (st : SSt) (x : UInt8) (tl : Bytes) : SSt :=
  let w := x :: tl
  let literal : SSt :=
    { st with
      wrest := tl, wpos := st.wpos + 1, litRev := x :: st.litRev,
      roll := match w.drop bs with
        | y :: _ => Adler.roll bs st.roll x y
        | [] => st.roll }
  if hasAtLeast bs w then
    match findFull cs st.roll.digest (strong (w.take bs)) with
    | some c =>
      let rest' := w.drop bs
      { st with
        wrest := rest', wpos := st.wpos + bs, litRev := [],
        opsRev := .copy c.offset c.size :: flush st.litRev st.opsRev,
        roll := if hasAtLeast bs rest' then Adler.ofBlock (rest'.take bs) else st.roll }
    | none => literal
  else
    match findPartial cs (hashBytes w) (strong w) w.length with
    | some c =>
      { st with
        wrest := [], wpos := st.wpos + w.length, litRev := [],
        opsRev := .copy c.offset c.size :: flush st.litRev st.opsRev }
    | none => literal

/-- "Refill window when needed". -/
def srefill (bs chunk : Nat) (st : SSt) : SSt :=
  if bs ≤ st.wpos ∧ 0 < st.bytesRead ∧ hasAtLeast bs st.wrest = false then
    let taken := st.fileRest.take chunk
    let w := st.wrest ++ taken
    { st with
      wrest := w, wpos := 0, fileRest := st.fileRest.drop chunk, bytesRead := taken.length,
      roll := if 0 < taken.length ∧ hasAtLeast bs w then Adler.ofBlock (w.take bs) else st.roll }
  else st

def SSt.measure (st : SSt) : Nat := st.wrest.length + st.fileRest.length

theorem sbody_measure {H} [BEq H] (strong : Bytes → H) (cs : List (Block H)) (bs : Nat) (hbs : 0 < bs)
    (st : SSt) (x : UInt8) (tl : Bytes) (h : st.wrest = x :: tl) :
    (sbody strong cs bs st x tl).measure < st.measure := by
  unfold sbody SSt.measure
  simp only [h]
  split
  · rename_i hfull
    have := (hasAtLeast_iff bs (x :: tl)).mp hfull
    split <;> simp at * <;> omega
  · split <;> simp

theorem srefill_measure (bs chunk : Nat) (st : SSt) : (srefill bs chunk st).measure = st.measure := by
  unfold srefill SSt.measure
  split
  · simp; omega
  · rfl

/-- The `while window_pos < window.len()` loop, then the final flush. -/
def genStreamGo {H} [BEq H] (strong : Bytes → H) (cs : List (Block H)) (bs chunk : Nat) (hbs : 0 < bs)
    (st : SSt) : List Op :=
  match h : st.wrest with
  | [] => (flush st.litRev st.opsRev).reverse
  | x :: tl => genStreamGo strong cs bs chunk hbs (srefill bs chunk (sbody strong cs bs st x tl))
termination_by st.measure
decreasing_by
  rw [srefill_measure]; exact sbody_measure strong cs bs hbs st x tl h

/-- State after "Read initial chunk" and "Initialize rolling hash". -/
def sinit (bs chunk : Nat) (new : Bytes) : SSt :=
  let w := new.take chunk
  { wrest := w, wpos := 0, fileRest := new.drop chunk, bytesRead := w.length,
    roll := if hasAtLeast bs w then Adler.ofBlock (w.take bs) else Adler.init,
    litRev := [], opsRev := [] }

/-- `generate_delta_streaming` (`ops` of the result); `none` for `block_size = 0`,
    on which the code can loop forever. -/
def genStream {H} [BEq H] (strong : Bytes → H) (cs : List (Block H)) (bs chunk : Nat) (new : Bytes) :
    Option (List Op) :=
  if hbs : 0 < bs then some (genStreamGo strong cs bs chunk hbs (sinit bs chunk new)) else none

end SyModel.Delta
