/-
  SyModel.Hardlink.Update — what a single `Transport::sync_file_with_delta` (`src/transport/local.rs`)
  does to the destination's inode structure, seen in isolation. Before a68466f every member of a
  link group was updated this way on its own (see `uncoordinated_update_splits_link_group`); since
  then group members go through the hand-off of `Protocol.lean`, which uses `writeThrough` /
  a fresh inode for the owner's operation and re-links the other members.

  * destination smaller than `DELTA_THRESHOLD` (10 MiB, l.352-361): `copy_file` → `fs::copy(src, dst)`
    opens the destination with `O_TRUNC` and writes into it — a *write-through*: the inode of `dst`
    keeps its identity, every path sharing it sees the new content (`updateSmall`);
  * at or above the threshold (both the "COW" and the "in-place" strategy, l.488-797): the new file
    is built under `dst.with_extension("sy.tmp")` and `rename`d over `dst` — the path gets a *fresh*
    inode, the other names of the old inode keep the old inode and the old content (`updateLarge`).

  Import-free; uses `File` of the protocol model.
-/
import SyModel.Hardlink.Protocol
namespace SyModel.Hardlink

/-- destination name space: path id ↦ file (inode identity, content id). -/
abbrev Dst := Nat → Option File

/-- two paths exist and are names of one inode. -/
def sameIno (d : Dst) (p q : Nat) : Prop :=
  ∃ f g, d p = some f ∧ d q = some g ∧ f.ino = g.ino

/-- `fs::copy` over an existing destination: the inode's content changes for all of its names
    (this is the protocol model's `writeThrough`). -/
def updateSmall (d : Dst) (p : Nat) (c : Nat) : Dst := writeThrough d p c

/-- temp file + `rename`: the path becomes the only name of the fresh inode `fresh`. -/
def updateLarge (d : Dst) (p : Nat) (fresh : Nat) (c : Nat) : Dst := fun q =>
  if q = p then some ⟨fresh, c⟩ else d q

end SyModel.Hardlink
