/-
  SyModel.Hardlink.Protocol — the hard-link hand-off `Transferrer::transfer_link_member`
  (`/repo/src/sync/transfer.rs`, shared by `create` and — since a68466f — `update`) as a labelled
  transition system.

  One *worker* = one planned task of `SyncEngine::sync` for one file: `transferrer.create(source,
  dest)` (`Action.create`), `transferrer.update(source, dest)` (`Action.update`), or nothing at all
  (`Action.skip`: the planner found the destination up to date — the path takes part only as a name
  in the destination).  All workers of a run share one `Arc<Mutex<HashMap<u64, InodeState>>>`.

  For an update the owner runs `transport.sync_file_with_delta` instead of `copy_file`
  (`src/transport/local.rs`): below the 10 MiB gate it is `fs::copy` over the existing file — a
  *write-through*: the destination inode keeps its identity and every name of it shows the new
  content; at or above the gate (`WorkerCfg.large`) the file is rebuilt under a temp name and renamed
  over the path (fresh inode). A file whose source has a single name (`linked = false`) first breaks
  a multiply-linked destination (`break_unshared_hard_link`, 88af04c). A non-owner that finds
  `Completed(first)`: on creation `create_hardlink(first, dest)`; on update nothing if `dest` already
  names `first`'s inode, else `transport.remove(dest)` and then the link.

  Granularity: one micro-step = one critical section of the map's mutex, one creation / poll of a
  `Notified` future, one `notify_waiters()` call, or one poll of a transport operation.  Micro-step
  interleavings are the thread-level schedules; the `poll` macro-step (run one worker to its next
  pending await) is what a single-threaded executor can interleave.

  tokio `Notify` (1.47.1, `src/sync/notify.rs`) is *modelled, not verified*: a `Notify` carries the
  number of `notify_waiters()` calls (`notify_waiters_calls`, l.392/469); `notified()` snapshots it at
  creation (l.565-575); polling the future completes iff the number differs from the snapshot
  (l.1132, l.1249) — so a future created after the call is not woken by it, and a future created
  before the call is woken even if it was never polled.  A `Notify` object is created by the worker
  that claims an inode (`transfer.rs:131`), at most once per worker, so the model names it by the
  claiming worker's id and stores its call counter in `State.calls`.

  Two variants of the protocol are kept:
  * `Variant.pinned`   — the code as shipped: the waiter reads `InProgress`, drops the lock and only
    then creates `notified()`; an owner whose copy fails returns through `?` leaving the entry
    `InProgress` and never notifies.
  * `Variant.repaired` — `fix-c13-hardlink-hang.diff`: the waiter creates the `Notified` future,
    re-checks the entry under the lock and awaits only if it is unchanged; a failing owner removes
    its entry and calls `notify_waiters()`.

  Import-free and executable: the driver (`Driver/Hardlink.lean`) runs these very definitions.
-/
namespace SyModel.Hardlink

inductive Variant where
  | pinned
  | repaired
  deriving DecidableEq, Repr

/-- The operations of the (mock or local) transport a worker issues. `attrs` stands for
    `write_xattrs` + `write_acls` + `write_bsd_flags` (`transfer.rs:151-158`). -/
inductive Op where
  | mkdir   -- `transport.create_dir_all(parent)` inside `copy_file`
  | copy    -- `transport.copy_file`
  | attrs
  | link    -- `transport.create_hardlink`
  | sync    -- `transport.sync_file_with_delta` (owner of an update, or an ordinary update)
  | remove  -- `transport.remove(dest)` before re-linking an updated member
  deriving DecidableEq, Repr

/-- What the planner decided for the path. -/
inductive Action where
  | create
  | update
  | skip
  deriving DecidableEq, Repr

/-- A destination file: its inode identity and content id. A copy (or temp+rename update) by worker
    `w` creates the fresh inode `w`; a link makes the path share the inode of its target; files that
    exist before the run carry inode ids `≥ cfg.n` (`Cfg.OldInodes`). -/
structure File where
  ino : Nat
  content : Nat
  deriving DecidableEq, Repr

inductive Res where
  | ok
  | err (op : Op)
  deriving DecidableEq, Repr

/-- Static description of one worker: its source inode (= link group), whether the hard-link branch
    is taken at all (`preserve_hardlinks && nlink > 1 && inode.is_some()`, `transfer.rs:88-89`), how
    often each transport operation returns `Pending` before finishing, and the fault plan: which of
    its operations fails. -/
structure WorkerCfg where
  inode : Nat
  linked : Bool
  action : Action := .create
  /-- update only: the destination is at or above the delta gate (temp file + rename) -/
  large : Bool := false
  /-- the destination file before the run (`none` for a path to be created) -/
  dst0 : Option File := none
  /-- yields / failure of `create_dir_all` (create) resp. `remove` (update) -/
  yMkdir : Nat
  yCopy : Nat
  yLink : Nat
  failMkdir : Bool
  /-- failure of `copy_file` (create) resp. `sync_file_with_delta` (update) -/
  failCopy : Bool
  failMeta : Bool
  failLink : Bool
  deriving Repr

structure Cfg where
  variant : Variant
  n : Nat                      -- number of workers; worker ids are `0 … n-1`
  worker : Nat → WorkerCfg
  content : Nat → Nat          -- source inode ↦ content id

/-- Value of the inode map (`InodeState`, `transfer.rs:12-17`); absence of a key is `none`.
    `inProgress g`: the `Notify` created by worker `g`.  `completed p`: the destination path of
    worker `p`. -/
inductive Entry where
  | inProgress (owner : Nat)
  | completed (path : Nat)
  deriving DecidableEq, Repr

/-- Program counter of a worker. -/
inductive Pc where
  | start                          -- top of the `loop`, about to lock and read (`transfer.rs:92-95`)
  | sawNone                        -- read `None`; about to lock again and claim with re-check (l.129-139)
  | sawInProgress (g : Nat)        -- read `InProgress(g)`, lock dropped; about to call `notified()` (l.118-125)
  | armed (g snap : Nat)           -- repaired only: future created, about to re-check under the lock
  | waiting (g snap : Nat)         -- awaiting the `Notified` future
  | linkOp (p k : Nat)             -- `create_hardlink(dest of p, dest)` in flight, `k` yields left
  | sameOp (p : Nat)               -- update, found `Completed(p)`: about to compare inodes (`same_inode`)
  | removeOp (p k : Nat)           -- update: `remove(dest)` in flight before linking to `p`
  | mkdirOp (k : Nat)
  | copyOp (k : Nat)
  | syncOp (k : Nat)               -- `sync_file_with_delta` in flight
  | metaOp
  | complete                       -- about to insert `Completed(dest)` (l.161-167)
  | notifyOk                       -- about to call `notify_waiters()` (l.168)
  | cleanup (op : Op)              -- repaired only: an operation failed; about to remove the entry
  | failNotify (op : Op)           -- repaired only: about to call `notify_waiters()` and return the error
  | done (r : Res)
  deriving DecidableEq, Repr

structure State where
  pc : Nat → Pc
  map : Nat → Option Entry        -- source inode ↦ entry
  calls : Nat → Nat               -- `notify_waiters()` calls on the `Notify` created by worker `g`
  dst : Nat → Option File         -- destination path of worker `w` ↦ file

inductive Label where
  | plain                          -- not a hard-link candidate: ordinary copy (l.177-189)
  | readNone
  | readInProgress (g : Nat)
  | readCompleted (p : Nat)
  | claimOk
  | claimLost
  | arm (g : Nat)
  | recheckSame
  | recheckChanged
  | wake
  | yield (op : Op)                -- the operation returned `Pending` (an await point)
  | opOk (op : Op)
  | opErr (op : Op)
  | sameInode                      -- update: the path already names the first path's inode
  | otherInode                     -- update: it does not; it will be removed and re-linked
  | complete
  | remove
  | notify
  deriving DecidableEq, Repr

/-- What a step does to the destination name space. -/
inductive DstEff where
  | keep
  | set (f : Option File)          -- the worker's own path now names `f` (or nothing)
  | through (c : Nat)              -- `fs::copy` over the existing file: every name of its inode shows `c`
  deriving DecidableEq, Repr

/-- What one micro-step of worker `w` changes: its own pc, optionally the map entry of its own
    inode, optionally one `notify_waiters()` call on its own `Notify`, optionally its own
    destination path. -/
structure Effect where
  pc : Pc
  map : Option (Option Entry) := none
  notify : Bool := false
  dst : DstEff := .keep

/-- Where a failed operation of a copying worker leads: the pinned code returns through `?`
    (`transfer.rs:149-158`); the repaired code releases the claim first. Workers outside the
    hard-link branch hold no claim. -/
def failPc (cfg : Cfg) (c : WorkerCfg) (op : Op) : Pc :=
  match cfg.variant with
  | .repaired => if c.linked then .cleanup op else .done (.err op)
  | .pinned => .done (.err op)

/-- `has_hard_links(dest)`: another path of the run names the inode `i`. -/
def sharedIno (n : Nat) (dst : Nat → Option File) (w i : Nat) : Bool :=
  (List.range n).any fun q => q != w && (match dst q with | some f => f.ino == i | none => false)

/-- One micro-step of worker `w` with static description `c`, as a function of its pc, the map
    entry of its inode, the notify counters and the destination files. `none` = not enabled
    (finished, or blocked on a `Notified` future that is not ready). -/
def next (cfg : Cfg) (w : Nat) (c : WorkerCfg) (pc : Pc) (entry : Option Entry)
    (calls : Nat → Nat) (dst : Nat → Option File) : Option (Label × Effect) :=
  match pc with
  | .start =>
    if c.linked then
      match entry with
      | none => some (.readNone, { pc := .sawNone })
      | some (.inProgress g) => some (.readInProgress g, { pc := .sawInProgress g })
      | some (.completed p) =>
        some (.readCompleted p, { pc := if c.action = .update then .sameOp p else .linkOp p c.yLink })
    else some (.plain, { pc := if c.action = .update then .syncOp c.yCopy else .mkdirOp c.yMkdir })
  | .sawNone =>
    match entry with
    | none => some (.claimOk, { pc := if c.action = .update then .syncOp c.yCopy else .mkdirOp c.yMkdir,
                                map := some (some (.inProgress w)) })
    | some _ => some (.claimLost, { pc := .start })
  | .sawInProgress g =>
    match cfg.variant with
    | .repaired => some (.arm g, { pc := .armed g (calls g) })
    | .pinned => some (.arm g, { pc := .waiting g (calls g) })
  | .armed g snap =>
    if entry = some (.inProgress g) then some (.recheckSame, { pc := .waiting g snap })
    else some (.recheckChanged, { pc := .start })
  | .waiting g snap =>
    if calls g = snap then none else some (.wake, { pc := .start })
  | .linkOp p (k + 1) => some (.yield .link, { pc := .linkOp p k })
  | .linkOp p 0 =>
    if c.failLink then some (.opErr .link, { pc := .done (.err .link) })
    else some (.opOk .link, { pc := .done .ok, dst := .set (dst p) })
  | .sameOp p =>
    match dst p, dst w with
    | some fp, some fw =>
      if fp.ino = fw.ino then some (.sameInode, { pc := .done .ok })
      else some (.otherInode, { pc := .removeOp p c.yMkdir })
    | _, _ => some (.otherInode, { pc := .removeOp p c.yMkdir })
  | .removeOp p (k + 1) => some (.yield .remove, { pc := .removeOp p k })
  | .removeOp p 0 =>
    if c.failMkdir || (dst w).isNone then some (.opErr .remove, { pc := .done (.err .remove) })
    else some (.opOk .remove, { pc := .linkOp p c.yLink, dst := .set none })
  | .mkdirOp (k + 1) => some (.yield .mkdir, { pc := .mkdirOp k })
  | .mkdirOp 0 =>
    if c.failMkdir then some (.opErr .mkdir, { pc := failPc cfg c .mkdir })
    else some (.opOk .mkdir, { pc := .copyOp c.yCopy })
  | .copyOp (k + 1) => some (.yield .copy, { pc := .copyOp k })
  | .copyOp 0 =>
    if c.failCopy then some (.opErr .copy, { pc := failPc cfg c .copy })
    else some (.opOk .copy, { pc := .metaOp, dst := .set (some ⟨w, cfg.content c.inode⟩) })
  | .syncOp (k + 1) => some (.yield .sync, { pc := .syncOp k })
  | .syncOp 0 =>
    if c.failCopy then some (.opErr .sync, { pc := failPc cfg c .sync })
    else
      match dst w with
      | none => some (.opOk .sync, { pc := .metaOp, dst := .set (some ⟨w, cfg.content c.inode⟩) })
      | some fw =>
        if c.large || sharedIno cfg.n dst w fw.ino then
          some (.opOk .sync, { pc := .metaOp, dst := .set (some ⟨w, cfg.content c.inode⟩) })
        else some (.opOk .sync, { pc := .metaOp, dst := .through (cfg.content c.inode) })
  | .metaOp =>
    if c.failMeta then some (.opErr .attrs, { pc := failPc cfg c .attrs })
    else some (.opOk .attrs, { pc := if c.linked then .complete else .done .ok })
  | .complete => some (.complete, { pc := .notifyOk, map := some (some (.completed w)) })
  | .notifyOk => some (.notify, { pc := .done .ok, notify := true })
  | .cleanup op => some (.remove, { pc := .failNotify op, map := some none })
  | .failNotify op => some (.notify, { pc := .done (.err op), notify := true })
  | .done _ => none

/-- `fs::copy` over the existing file of path `w`: the inode keeps its identity and every path that
    names it shows the content `c`. -/
def writeThrough (d : Nat → Option File) (w c : Nat) : Nat → Option File := fun v =>
  match d w, d v with
  | some fw, some fv => if fv.ino = fw.ino then some ⟨fv.ino, c⟩ else some fv
  | _, x => x

def State.apply (s : State) (w inode : Nat) (e : Effect) : State where
  pc := fun v => if v = w then e.pc else s.pc v
  map := match e.map with
    | none => s.map
    | some m => fun j => if j = inode then m else s.map j
  calls := if e.notify then fun v => if v = w then s.calls v + 1 else s.calls v else s.calls
  dst := match e.dst with
    | .keep => s.dst
    | .set d => fun v => if v = w then d else s.dst v
    | .through c => writeThrough s.dst w c

/-- The labelled transition relation as a partial function: `step cfg s w = some (l, s')` iff worker
    `w` is enabled in `s`, its micro-step is labelled `l` and leads to `s'`. -/
def step (cfg : Cfg) (s : State) (w : Nat) : Option (Label × State) :=
  if w < cfg.n then
    match next cfg w (cfg.worker w) (s.pc w) (s.map (cfg.worker w).inode) s.calls s.dst with
    | none => none
    | some (l, e) => some (l, s.apply w (cfg.worker w).inode e)
  else none

def enabled (cfg : Cfg) (s : State) (w : Nat) : Bool := (step cfg s w).isSome

/-- The enabled set, as a list of worker ids. -/
def enabledSet (cfg : Cfg) (s : State) : List Nat := (List.range cfg.n).filter (enabled cfg s)

/-- Initial state: skipped paths have nothing to do; every path has its pre-run destination file. -/
def init (cfg : Cfg) : State where
  pc := fun w => if (cfg.worker w).action = .skip then .done .ok else .start
  map := fun _ => none
  calls := fun _ => 0
  dst := fun w => if w < cfg.n then (cfg.worker w).dst0 else none

def Pc.isDone : Pc → Bool
  | .done _ => true
  | _ => false

/-- Final states: every worker has returned. -/
def allDone (cfg : Cfg) (s : State) : Prop := ∀ w, w < cfg.n → (s.pc w).isDone = true

def allDoneB (cfg : Cfg) (s : State) : Bool := (List.range cfg.n).all fun w => (s.pc w).isDone

/-! ### executions -/

/-- `Exec cfg s sched s'`: running the micro-steps of the workers listed in `sched` (each enabled
    when its turn comes) leads from `s` to `s'`. -/
inductive Exec (cfg : Cfg) : State → List Nat → State → Prop where
  | nil (s : State) : Exec cfg s [] s
  | cons {s s' s'' : State} {w : Nat} {l : Label} {ws : List Nat} :
      step cfg s w = some (l, s') → Exec cfg s' ws s'' → Exec cfg s (w :: ws) s''

def Reachable (cfg : Cfg) (s : State) : Prop := ∃ sched, Exec cfg (init cfg) sched s

/-- Executable run of a micro-step schedule; stops (returning the remaining schedule) at the first
    worker that is not enabled. -/
def runMicro (cfg : Cfg) : State → List Nat → State × List Label × List Nat
  | s, [] => (s, [], [])
  | s, w :: ws =>
    match step cfg s w with
    | none => (s, [], w :: ws)
    | some (l, s') =>
      let (s'', ls, rest) := runMicro cfg s' ws
      (s'', l :: ls, rest)

/-! ### the variant (ranking function) -/

/-- remaining *owner events* (claim, entry change, notify) of a worker at this pc. -/
def Pc.events : Pc → Nat
  | .start | .sawNone | .sawInProgress _ | .armed _ _ | .waiting _ _ => 3
  | .mkdirOp _ | .copyOp _ | .syncOp _ | .metaOp | .complete | .cleanup _ => 2
  | .notifyOk | .failNotify _ => 1
  | .linkOp _ _ | .sameOp _ | .removeOp _ _ | .done _ => 0

/-- rank of the loop phase of a worker: more than everything it can still do after leaving it. -/
def WorkerCfg.loopBase (c : WorkerCfg) : Nat := 8 + c.yMkdir + c.yCopy + c.yLink

/-- remaining own micro-steps until the next blocking point, assuming nobody else moves. -/
def Pc.local (c : WorkerCfg) : Pc → Nat
  | .start => c.loopBase + 3
  | .sawNone => c.loopBase + 2
  | .sawInProgress _ => c.loopBase + 2
  | .armed _ _ => c.loopBase + 1
  | .waiting _ _ => c.loopBase
  | .linkOp _ k => 1 + k
  | .removeOp _ k => 2 + c.yLink + k
  | .sameOp _ => 3 + c.yLink + c.yMkdir
  | .mkdirOp k => 5 + c.yCopy + k
  | .copyOp k => 4 + k
  | .syncOp k => 4 + k
  | .metaOp => 3
  | .complete => 2
  | .cleanup _ => 2
  | .notifyOk => 1
  | .failNotify _ => 1
  | .done _ => 0

/-- the worker's next step sends it back to the top of the loop (because another worker's event
    intervened): it gets the steps of one more iteration. -/
def loopsBack (pc : Pc) (entry : Option Entry) (calls : Nat → Nat) : Bool :=
  match pc with
  | .sawNone => entry != none
  | .sawInProgress g => entry != some (.inProgress g)
  | .armed g snap => entry != some (.inProgress g) || calls g != snap
  | .waiting g snap => calls g != snap
  | _ => false

def bonus : Nat := 4

/-- weight of one owner event: more than the bonus it can hand to every worker. -/
def Cfg.weight (cfg : Cfg) : Nat := cfg.n * bonus + 1

def rank (cfg : Cfg) (s : State) (w : Nat) : Nat :=
  cfg.weight * (s.pc w).events + (s.pc w).local (cfg.worker w)
    + (if loopsBack (s.pc w) (s.map (cfg.worker w).inode) s.calls then bonus else 0)

def sumTo (f : Nat → Nat) : Nat → Nat
  | 0 => 0
  | n + 1 => sumTo f n + f n

/-- The variant: decreases on every micro-step of every worker (`Props.C13.terminates`). -/
def measure (cfg : Cfg) (s : State) : Nat := sumTo (rank cfg s) cfg.n

/-! ### the `poll` macro-step -/

inductive PollOut where
  | pending
  | ready (r : Res)
  | outOfFuel           -- never returned by `poll` (`Props.C13.poll_never_out_of_fuel`)
  deriving DecidableEq, Repr

def Label.isYield : Label → Bool
  | .yield _ => true
  | _ => false

/-- Run worker `w` until it returns `Ready`, reaches an await point of a transport operation, or
    blocks on its `Notified` future.  Labels are accumulated in reverse. -/
def pollN (cfg : Cfg) : Nat → State → Nat → List Label → State × List Label × PollOut
  | 0, s, _, acc => (s, acc.reverse, .outOfFuel)
  | fuel + 1, s, w, acc =>
    match s.pc w with
    | .done r => (s, acc.reverse, .ready r)
    | _ =>
      match step cfg s w with
      | none => (s, acc.reverse, .pending)
      | some (l, s') =>
        if l.isYield then (s', (l :: acc).reverse, .pending)
        else pollN cfg fuel s' w (l :: acc)

/-- One `Future::poll` of worker `w`'s `create()` future. -/
def poll (cfg : Cfg) (s : State) (w : Nat) : State × List Label × PollOut :=
  pollN cfg (measure cfg s + 1) s w []

end SyModel.Hardlink
