/-
  Props.GenDelta — bridge theorems for the translated unit `Delta` (`SyModel/Generated/Code/Delta.lean`, regenerated
  from /repo/src/delta/generator.rs on every run): the translated `generate_delta`, run on the documented instance
  `inst strong` of its `Ext` record (Lemmas/GenDelta.lean PART 1, trusted), computes exactly the handwritten model
  `SyModel.Delta.genMem` the C04 theorems are about; C04 restated about the TRANSLATED function.  For
  `generate_delta_streaming` only the two cases that never enter the loop are bridged here (open error, empty file).
  Property theorems only; helper lemmas live in `SyModel/Lemmas/GenDelta.lean`.
-/
import SyModel.Lemmas.GenDelta
import SyModel.Props.C04
set_option autoImplicit false
namespace SyModel.Props.GenDelta
open SyModel SyModel.Delta SyModel.Generated SyModel.Generated.Delta SyModel.GenDelta

/-! ### the op abstraction is lossless -/

theorem absOp_repOp (o : Op) : absOp (repOp o) = o := by
  cases o <;> simp [absOp, repOp]

theorem absOps_repOps (ops : List Op) : (ops.map repOp).map absOp = ops := by
  induction ops with
  | nil => rfl
  | cons x t ih => simp only [List.map_cons, absOp_repOp, ih]

theorem absBlock_repBlock (bs : Nat) (c : Block Nat) : absBlock (repBlock bs c) = c := rfl

/-! ### `generate_delta` -/

/-- NORMAL FORM (every `Ext`): the translated `generate_delta` is open, `read_to_end`, then a pure function whose
    loop is `len` rounds of the pure step `memStep`.  This is the theorem that depends on the SHAPE of the generated
    code; everything below is about `memStep` / `memResult`. -/
theorem generate_delta_normal_form {W : Type} (ext : Ext W) (p : Rs.Path) (cs : List BlockChecksum) (bs : Nat) :
    generate_delta ext p cs bs =
      (ext.File_open p >>= fun h => ext.h_read_to_end h [] >>= fun data => pure (memResult ext cs bs data)) :=
  generate_delta_nf ext p cs bs

/-- (a) the `HashMap` built with `entry().or_default().push()`, `get(&weak)` and the `for … break` scan over the
    bucket find what `find?` with the weak test finds on the whole list: buckets keep insertion order. -/
theorem bucket_scan_eq_find (cs : List BlockChecksum) (k : Nat) (q : BlockChecksum → Bool) :
    (Rs.get (buildMap cs) k = none ∧ cs.find? (fun c => c.weak == k && q c) = none) ∨
    (∃ cands, Rs.get (buildMap cs) k = some cands ∧ cands.find? q = cs.find? (fun c => c.weak == k && q c)) :=
  scan_buildMap cs k q

/-- (c) FUEL (every `Ext`, every data): with `0 < block_size` the `len` rounds the translation gives the `while` loop
    are enough — the loop has stopped by its own condition (`pos = len`) and any extra fuel changes nothing. -/
theorem generate_delta_fuel_sufficient {W : Type} (ext : Ext W) (cs : List BlockChecksum) (bs : Nat) (hbs : 0 < bs)
    (data : List Nat) (r0 : RollSt) :
    (iter (memStep ext (buildMap cs) data bs) data.length ([], [], 0, r0)).2.2.1 = data.length ∧
      ∀ extra, iter (memStep ext (buildMap cs) data bs) (data.length + extra) ([], [], 0, r0) =
        iter (memStep ext (buildMap cs) data bs) data.length ([], [], 0, r0) :=
  fuel_sufficient ext (buildMap cs) data bs hbs data.length ([], [], 0, r0) (Nat.zero_le _) (by simp)

/-- everything after `read_to_end`, on the instance -/
theorem memResult_inst (strong : Bytes → Nat) (cs : List BlockChecksum) (bs : Nat) (hbs : 0 < bs) (new : Bytes) :
    memResult (inst strong) cs bs (ofU8 new) =
      { ops := (genMem strong (cs.map absBlock) bs new).map repOp, source_size := new.length, block_size := bs } := by
  unfold memResult memResultA
  split
  · rename_i he
    have : new = [] := by simpa [is_empty_iff, ofU8_eq_nil] using he
    subst this
    simp [genMem, genMemGo, flush]
  · have hr : (if decide (Rs.len (ofU8 new) ≥ bs) = true then
          (inst strong).adler_update_block ((inst strong).Adler32_new bs) (Acc.rs.slice (ofU8 new) 0 bs)
        else (inst strong).Adler32_new bs) =
        rollOf bs (if hasAtLeast bs new then Adler.ofBlock (new.take bs) else Adler.ofBlock []) := by
      have hc : decide (Rs.len (ofU8 new) ≥ bs) = hasAtLeast bs new := by
        rw [Bool.eq_iff_iff, hasAtLeast_iff]; simp
      rw [hc]
      cases hasAtLeast bs new <;> simp [Acc.rs] <;> rfl
    have := memLoop_eq strong cs bs hbs new new
      (if hasAtLeast bs new then Adler.ofBlock (new.take bs) else Adler.ofBlock []) [] [] [] (by simp)
      new.length (Nat.le_refl _)
    simp only [hr]
    simp only [len_ofU8]
    simp only [memSt, List.length_nil, List.reverse_nil, List.map_nil, ofU8_nil] at this
    simp only [genMem]
    rw [← this]
    rfl

/-- **`generate_delta` = model.**  For every world in which `p` is a regular file with content `new`, every list of
    checksums and every `0 < block_size`, the translated `generate_delta` on the instance succeeds with exactly the
    model's op list (literal boundaries included), `source_size = |new|`, `block_size`; afterwards the file contents
    are what they were (one more open handle, at end of file). -/
theorem generate_delta_eq_model (strong : Bytes → Nat) (w : DWorld) (p : Rs.Path) (new : Bytes)
    (hfile : w.files p = some new) (cs : List BlockChecksum) (bs : Nat) (hbs : 0 < bs) :
    generate_delta (inst strong) p cs bs w =
      (.ok { ops := (genMem strong (cs.map absBlock) bs new).map repOp, source_size := new.length, block_size := bs },
       { w with opened := w.opened + 1, handle := upd w.handle (w.opened + 1) (some (p, new.length)) }) := by
  rw [generate_delta_nf]
  have h1 : (inst strong).File_open p w =
      (.ok (w.opened + 1), { w with opened := w.opened + 1, handle := upd w.handle (w.opened + 1) (some (p, 0)) }) := by
    simp [inst, openOp, hfile]
  rw [run_bind, h1]
  simp only
  have h2 : (inst strong).h_read_to_end (w.opened + 1) []
      { w with opened := w.opened + 1, handle := upd w.handle (w.opened + 1) (some (p, 0)) } =
      (.ok (ofU8 new),
        { w with opened := w.opened + 1, handle := upd w.handle (w.opened + 1) (some (p, new.length)) }) := by
    simp [inst, readToEndOp, DWorld.source, DWorld.setPos, hfile]
  rw [run_bind, h2]
  simp only [run_pure, memResult_inst strong cs bs hbs new]

/-- a missing source file: the `File::open` error, nothing changes -/
theorem generate_delta_missing (strong : Bytes → Nat) (w : DWorld) (p : Rs.Path) (hfile : w.files p = none)
    (cs : List BlockChecksum) (bs : Nat) :
    generate_delta (inst strong) p cs bs w = (.error .io, w) := by
  rw [generate_delta_nf, run_bind]
  have h1 : (inst strong).File_open p w = (.error .io, w) := by simp [inst, openOp, hfile]
  rw [h1]

/-- the file contents are never changed (with or without the file) -/
theorem generate_delta_files_unchanged (strong : Bytes → Nat) (w : DWorld) (p : Rs.Path)
    (cs : List BlockChecksum) (bs : Nat) (hbs : 0 < bs) :
    (generate_delta (inst strong) p cs bs w).2.files = w.files := by
  cases hfile : w.files p with
  | none => rw [generate_delta_missing strong w p hfile]
  | some new => rw [generate_delta_eq_model strong w p new hfile cs bs hbs]


/-! ### `block_size = 0`: why `0 < bs` is a hypothesis -/

/-- the world of the witness: one file `f` holding the single byte 7 -/
def w0 : DWorld := { files := fun p => if p = ['f'] then some [7] else none, opened := 0, handle := fun _ => none }

/-- a zero-size checksum whose weak hash is the digest of the empty window and whose strong hash is that of `[]` -/
def c0 (strong : Bytes → Nat) : BlockChecksum := ⟨0, 0, 0, 1, strong []⟩

/-- `block_size = 0` with a zero-size checksum in the list (hand-made: `compute_checksums` never emits one).  The
    RUST code matches the empty block at `pos = 0`, adds `pos += 0` and never leaves the `while`: it pushes
    `Copy{0,0}` forever.  The TRANSLATION gives the loop `len = 1` round of fuel and then returns normally with
    `ops = [Copy 0 0]` — the loop state still has `pos = 0 < len`, i.e. the bounded loop was cut off, not finished.
    The MODEL (`genMemGo`, branch `bs = 0`) returns early with no op.  So without `0 < bs` the three disagree:
    `generate_delta_eq_model` is false, and `generate_delta_fuel_sufficient` is false. -/
theorem generate_delta_counterexample_bs0 (strong : Bytes → Nat) :
    (generate_delta (inst strong) ['f'] [c0 strong] 0 w0).1 =
        .ok { ops := [DeltaOp.Copy 0 0], source_size := 1, block_size := 0 } ∧
      (genMem strong ([c0 strong].map absBlock) 0 [7]).map repOp = [] ∧
      (iter (memStep (inst strong) (buildMap [c0 strong]) (ofU8 [7]) 0) 1
        ([], [], 0, rollOf 0 (Adler.ofBlock []))).2.2.1 = 0 := by
  have hd : Adler.digest (Adler.ofBlock []) = 1 := by decide
  have hstep := memStep_inst strong [c0 strong] 0 [] 7 [] (Adler.ofBlock []) [] []
  simp [memSt, hasAtLeast, findFull, c0, absBlock, hd, flush, repOp] at hstep
  have hm : memStepA Acc.rs (inst strong) = memStep (inst strong) := rfl
  refine ⟨?_, ?_, ?_⟩
  · rw [generate_delta_nf, run_bind]
    have h1 : (inst strong).File_open ['f'] w0 =
        (.ok 1, { w0 with opened := 1, handle := upd w0.handle 1 (some (['f'], 0)) }) := by
      simp [inst, openOp, w0]
    rw [h1]
    simp only
    rw [run_bind]
    have h2 : (inst strong).h_read_to_end 1 [] { w0 with opened := 1, handle := upd w0.handle 1 (some (['f'], 0)) } =
        (.ok (ofU8 [7]), { w0 with opened := 1, handle := upd w0.handle 1 (some (['f'], 1)) }) := by
      simp [inst, readToEndOp, DWorld.source, DWorld.setPos, w0]
    rw [h2]
    simp only [run_pure]
    have hr0 : (if decide (Rs.len (ofU8 [7]) ≥ 0) = true then
        (inst strong).adler_update_block ((inst strong).Adler32_new 0) (Acc.rs.slice (ofU8 [7]) 0 0)
        else (inst strong).Adler32_new 0) = rollOf 0 (Adler.ofBlock []) := by
      simp [Acc.rs]; rfl
    have he : Rs.is_empty (ofU8 [7]) = false := by decide
    simp only [memResult, memResultA, hr0, he, Bool.false_eq_true, if_false, hm]
    simp only [len_ofU8, List.length_cons, List.length_nil, Nat.zero_add, iter, c0, hstep]
    rfl
  · simp [genMem, genMemGo, hasAtLeast, findFull, c0, absBlock, hd, flush]
  · simp only [iter, c0, hstep]

/-! ### (5) the totalised accessors are never used out of range -/

/-- Rust panics on `&v[a..b]` with `a > b` or `b > len`, on `&v[a..]` with `a > len` and on `v[i]` with `i ≥ len`; the
    Prelude's `Rs.slice`, `Rs.slice_from`, `Rs.index` are total.  For EVERY `Ext`, every data and `0 < block_size`,
    replacing the three accessors by functions that answer ANYTHING outside those ranges (`Acc.InRange`) does not
    change what `generate_delta` computes: every slice and index it evaluates is in range — the translated function
    never panics there and the totalisation is never exercised. -/
theorem generate_delta_accesses_in_range {W : Type} (A : Acc) (hA : A.InRange) (ext : Ext W)
    (cs : List BlockChecksum) (bs : Nat) (hbs : 0 < bs) (data : List Nat) :
    memResultA A ext cs bs data = memResult ext cs bs data :=
  memResultA_inRange A hA ext data bs cs hbs

/-- … and per round of the loop, from any state inside the data (no condition on `block_size`) -/
theorem generate_delta_step_in_range {W : Type} (A : Acc) (hA : A.InRange) (ext : Ext W)
    (cmap : Rs.HashMap Nat (List BlockChecksum)) (data : List Nat) (bs : Nat) (s : MemSt)
    (hpos : s.2.2.1 ≤ data.length) :
    memStepA A ext cmap data bs s = memStep ext cmap data bs s :=
  memStepA_inRange A hA ext cmap data bs s hpos

/-- non-vacuity and sharpness of `Acc.InRange`: an accessor set that answers garbage out of range satisfies it … -/
def garbage : Acc :=
  ⟨fun l lo hi => if lo ≤ hi ∧ hi ≤ l.length then Rs.slice l lo hi else [42],
   fun l lo => if lo ≤ l.length then Rs.slice_from l lo else [42],
   fun l i => if i < l.length then Rs.index l i else 42⟩

theorem garbage_inRange : garbage.InRange :=
  ⟨fun l lo hi h1 h2 => by simp [garbage, h1, h2], fun l lo h => by simp [garbage, h],
   fun l i h => by simp [garbage, h]⟩

/-- … and differs from the Prelude out of range -/
example : garbage.slice [1, 2] 1 5 ≠ Rs.slice [1, 2] 1 5 := by decide

/-! ### C04 about the TRANSLATED function -/

/-- **C04 (in-memory generator), translated.**  Under `NoCollision` (as in `Props/C04`) and `0 < bs`: running the
    translated `generate_delta` on the checksums of `old` succeeds, leaves all file contents as they were, and
    applying the ops it returns to `old` gives exactly `new`. -/
theorem translated_genMem_reconstructs (strong : Bytes → Nat) (w : DWorld) (p : Rs.Path) (old new : Bytes)
    (hfile : w.files p = some new) (cs : List BlockChecksum) (bs : Nat)
    (hcs : cs.map absBlock = checksums strong bs old) (hbs : 0 < bs) (hc : NoCollision strong old new bs) :
    ∃ d w', generate_delta (inst strong) p cs bs w = (.ok d, w') ∧ w'.files = w.files ∧
      d.source_size = new.length ∧ d.block_size = bs ∧
      applyOps old (d.ops.map absOp) = some new := by
  refine ⟨_, _, generate_delta_eq_model strong w p new hfile cs bs hbs, rfl, rfl, rfl, ?_⟩
  simp only [absOps_repOps, hcs]
  exact C04.genMem_reconstructs strong old new bs hbs hc

/-- every `Copy` the translated `generate_delta` returns references a range inside `old` -/
theorem translated_copies_in_range (strong : Bytes → Nat) (w : DWorld) (p : Rs.Path) (old new : Bytes)
    (hfile : w.files p = some new) (cs : List BlockChecksum) (bs : Nat)
    (hcs : cs.map absBlock = checksums strong bs old) (hbs : 0 < bs) (hc : NoCollision strong old new bs) :
    ∃ d w', generate_delta (inst strong) p cs bs w = (.ok d, w') ∧
      ∀ off sz, DeltaOp.Copy off sz ∈ d.ops → sz = 0 ∨ off + sz ≤ old.length := by
  refine ⟨_, _, generate_delta_eq_model strong w p new hfile cs bs hbs, ?_⟩
  intro off sz hm
  simp only [hcs] at hm
  obtain ⟨o, ho, he⟩ := List.mem_map.mp hm
  cases o with
  | copy o s =>
    simp only [repOp, DeltaOp.Copy.injEq] at he
    obtain ⟨rfl, rfl⟩ := he
    exact C04.copies_in_range_mem strong old new bs hbs hc _ _ ho
  | data d => simp [repOp] at he


/-! ### `generate_delta_streaming`: the two cases that do not enter the loop

The full bridge `generate_delta_streaming (inst strong) = genStream … (256 * 1024)` is NOT proved in this module (see
INTEGRATION.md "missing"): the loop body contains the effectful refill (`read`), so it needs a loop lemma over
(state, world) pairs in addition to the pure-step technique used for `generate_delta`. -/

/-- a missing source file: the `File::open` error, nothing changes -/
theorem generate_delta_streaming_missing (strong : Bytes → Nat) (w : DWorld) (p : Rs.Path) (hfile : w.files p = none)
    (cs : List BlockChecksum) (bs : Nat) :
    generate_delta_streaming (inst strong) p cs bs w = (.error .io, w) := by
  unfold generate_delta_streaming
  simp only [List.forIn_pure_yield_eq_foldl, pure_bind]
  rw [run_bind]
  have h1 : (inst strong).File_open p w = (.error .io, w) := by simp [inst, openOp, hfile]
  rw [h1]

/-- an empty source file: no op, as the model says (`genStream … [] = some []`); the file contents are unchanged -/
theorem generate_delta_streaming_empty (strong : Bytes → Nat) (w : DWorld) (p : Rs.Path) (hfile : w.files p = some [])
    (cs : List BlockChecksum) (bs : Nat) (hbs : 0 < bs) :
    generate_delta_streaming (inst strong) p cs bs w =
      (.ok { ops := [], source_size := 0, block_size := bs },
       { w with opened := w.opened + 1, handle := upd w.handle (w.opened + 1) (some (p, 0)) }) ∧
    (genStream strong (cs.map absBlock) bs (256 * 1024) []).map (·.map repOp) = some [] := by
  constructor
  · unfold generate_delta_streaming
    simp only [List.forIn_pure_yield_eq_foldl, pure_bind]
    rw [run_bind]
    have h1 : (inst strong).File_open p w =
        (.ok (w.opened + 1), { w with opened := w.opened + 1, handle := upd w.handle (w.opened + 1) (some (p, 0)) }) := by
      simp [inst, openOp, hfile]
    rw [h1]
    simp only
    rw [run_bind]
    have h2 : (inst strong).h_metadata (w.opened + 1)
        { w with opened := w.opened + 1, handle := upd w.handle (w.opened + 1) (some (p, 0)) } =
        (.ok { dir := false, mtime := 0, size := 0 },
          { w with opened := w.opened + 1, handle := upd w.handle (w.opened + 1) (some (p, 0)) }) := by
      simp [inst, metadataOp, DWorld.source, hfile]
    rw [h2]
    simp only
    have h3 : (Rs.len ({ dir := false, mtime := 0, size := 0 } : Rs.Metadata) == 0) = true := by decide
    simp only [h3, if_true]
    rfl
  · unfold genStream
    rw [dif_pos hbs, genStreamGo]
    simp only [sinit, Option.map_some]
    split
    · simp [flush]
    · rename_i h; simp at h

/-! ### non-vacuity of the hypotheses -/

/-- `w.files p = some new`, `0 < bs`: a world and a call; the theorem computes the delta -/
example : (generate_delta (inst (fun _ => 0)) ['f'] [] 3 w0).1 =
    .ok { ops := [DeltaOp.Data [7]], source_size := 1, block_size := 3 } := by
  rw [generate_delta_eq_model (fun _ => 0) w0 ['f'] [7] (by simp [w0]) [] 3 (by decide)]
  simp [genMem, genMemGo, hasAtLeast, findPartial, flush, repOp, ofU8]

/-- `cs.map absBlock = checksums strong bs old` is satisfiable for every `old`: take `repBlock` of the model's list -/
example (strong : Bytes → Nat) (bs : Nat) (old : Bytes) :
    ((checksums strong bs old).map (repBlock bs)).map absBlock = checksums strong bs old := by
  rw [List.map_map]; exact List.map_id _

/-- `NoCollision` holds for every pair of files when the strong hash is injective (an injective `Bytes → Nat`
    exists; xxh3 is assumed collision-free only on the blocks actually compared) -/
example (strong : Bytes → Nat) (hinj : ∀ a b, strong a = strong b → a = b) (old new : Bytes) (bs : Nat) :
    NoCollision strong old new bs := by
  intro c _ w _ h
  exact hinj _ _ (by simpa using h)

/-- `w.files p = some []` (streaming, empty file) is satisfiable -/
example : (generate_delta_streaming (inst (fun _ => 0)) ['e'] [] 3
    { files := fun p => if p = ['e'] then some [] else none, opened := 0, handle := fun _ => none }).1 =
    .ok { ops := [], source_size := 0, block_size := 3 } := by
  rw [(generate_delta_streaming_empty (fun _ => 0) _ ['e'] (by simp) [] 3 (by decide)).1]

/-- missing file: `w.files p = none` is satisfiable -/
example : (generate_delta (inst (fun _ => 0)) ['g'] [] 3 w0).1 = .error .io := by
  rw [generate_delta_missing _ w0 ['g'] (by simp [w0])]

end SyModel.Props.GenDelta
