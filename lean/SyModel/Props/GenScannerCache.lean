/-
  GenScannerCache — the scanner's side of the directory-cache invariant (C18).

  `GenEngineCache.record_scan_keeps_root_absent` ASSUMES that no scanned entry has the relative path "." ("the scanner skips
  the root itself").  `GenScanner.relative_path_ne_dot` PROVES that about the translated `StreamingScanner::next`: the root is
  skipped (`listed_path_ne_root`) and `strip_prefix` of a different, clean path is never ".".  Here the two are put together.
  The `FileEntry` structures of the two units are distinct generated copies of the same Rust struct; `toCache` converts
  field by field.

  Hypotheses that remain: every file of the list was answered by `next` (`Listed`: some world, any instance of the walker and
  the attribute reads), and its path text is clean (`noDotTail`: not "." and not ending in "/." — what the `ignore` walker
  yields, root joined with directory-entry names).
-/
import SyModel.Props.GenScanner
import SyModel.Props.GenEngineCache
namespace SyModel.Props.GenScannerCache
open SyModel.Generated SyModel.Lemmas.GenScanner

/-- the scanner unit's `FileEntry` as the engine-cache unit's `FileEntry` (same Rust struct, field by field) -/
def toCache (f : Scanner.FileEntry) : EngineCache.FileEntry :=
  { path := f.path, relative_path := f.relative_path, size := f.size, modified := f.modified, is_dir := f.is_dir,
    is_symlink := f.is_symlink, symlink_target := f.symlink_target, is_sparse := f.is_sparse,
    allocated_size := f.allocated_size, xattrs := f.xattrs, inode := f.inode, nlink := f.nlink, acls := f.acls,
    bsd_flags := f.bsd_flags }

theorem toCache_relative_path (f : Scanner.FileEntry) : (toCache f).relative_path = f.relative_path := rfl

/-- the two units name the same key -/
theorem rootKey_eq : GenScanner.rootKey = GenEngineCache.rootKey := rfl

/-- **the assumption of `record_scan_keeps_root_absent`, discharged**: a list of entries answered by the translated scanner
    (clean path texts) has no entry with the relative path "." -/
theorem scanned_no_root_key {W : Type} (sext : Scanner.Ext W) (self : Scanner.StreamingScanner) (files : List Scanner.FileEntry)
    (hl : ∀ f ∈ files, GenScanner.Listed sext self f) (hclean : ∀ f ∈ files, noDotTail f.path = true) :
    ∀ g ∈ files.map toCache, g.relative_path ≠ GenEngineCache.rootKey := by
  intro g hg
  obtain ⟨f, hf, rfl⟩ := List.mem_map.mp hg
  exact GenScanner.relative_path_ne_dot sext self f (hclean f hf) (hl f hf)

/-- **C18, scanner and cache together**: recording a scan made of entries the translated scanner answered keeps a cache
    without the key "." without it — for any instance of the scanner's operations and of the cache unit's operations -/
theorem record_scanned_keeps_root_absent {W V : Type} (sext : Scanner.Ext W) (self : Scanner.StreamingScanner)
    (cext : EngineCache.Ext V) (c : EngineCache.DirectoryCache) (files : List Scanner.FileEntry) (v : V)
    (hroot : GenEngineCache.hasDir c GenEngineCache.rootKey = false)
    (hl : ∀ f ∈ files, GenScanner.Listed sext self f) (hclean : ∀ f ∈ files, noDotTail f.path = true) :
    ∃ c', GenEngineCache.runM (EngineCache.record_scan cext c (files.map toCache)) v = (.ok ((), c'), v) ∧
      GenEngineCache.hasDir c' GenEngineCache.rootKey = false :=
  GenEngineCache.record_scan_keeps_root_absent cext c (files.map toCache) v hroot
    (scanned_no_root_key sext self files hl hclean)

/-- non-vacuity: the listed symlink entry of `GenScanner`'s concrete instance, recorded into the empty cache -/
example : ∃ c', GenEngineCache.runM (EngineCache.record_scan (⟨fun _ w => (.ok default, w), fun _ _ w => (.ok [], w)⟩ : EngineCache.Ext Unit)
      ⟨[], []⟩ ([GenScanner.linkFe].map toCache)) () = (.ok ((), c'), ()) ∧
      GenEngineCache.hasDir c' GenEngineCache.rootKey = false :=
  record_scanned_keeps_root_absent (GenScanner.testExt 5) GenScanner.self0 _ _ [GenScanner.linkFe] () rfl
    (fun f hf => by
      have : f = GenScanner.linkFe := by simpa using hf
      subst this; exact GenScanner.nv_listed)
    (fun f hf => by
      have : f = GenScanner.linkFe := by simpa using hf
      subst this; exact GenScanner.nv_clean)

end SyModel.Props.GenScannerCache
