/-
  C05 — Concurrent transfers never interfere: the outcome is independent of -j and scheduling.
  Property theorems only; the model is `SyModel/Engine/Steps.lean` (one step per mutating system
  call, step lists of tasks, interleavings, the semaphore scheduler), helper lemmas live in
  `SyModel/Lemmas/Steps*.lean`.

  All theorems are for arbitrary task sets, destination worlds, chunk sizes, routes of the
  ≥-threshold update (`Hint`), worker counts and interleavings — by induction, nothing is enumerated.

  Status on the repaired tree (commit 0c4aecb, "append to the full file name"): `C05` holds under
  `PlanOK` (a plan over a tree) and `TempFresh` (temp paths are not planned paths, not ancestors of
  planned paths, and nothing exists there).  On the pinned tree `TempFresh` is false for same-stem
  siblings (`tempOf_old_counterexample`).  Residual finding, any deterministic temp name: a user's
  file literally named `<x>.sy.tmp` next to an updated large `x` (`temp_user_file_counterexample`).
-/
import SyModel.Lemmas.StepsRun
import SyModel.Generated.Consts
set_option linter.unusedVariables false
namespace SyModel.Props.C05
open SyModel SyModel.Engine

/-! ### constants regenerated from the source -/

/-- the suffix is not empty (so a temp path differs from its destination) -/
theorem consts_ok_suffix_nonempty : Generated.TEMP_SUFFIX ≠ "" := by decide
/-- the suffix contains no path separator (appending it keeps the file in the same directory) -/
theorem consts_ok_suffix_no_slash : Generated.TEMP_SUFFIX.toList.contains '/' = false := by decide
/-- the size gate of the block-delta path dominates the 4096-byte "too small" gate (local.rs:382) -/
theorem consts_ok_delta_threshold : 4096 ≤ Generated.DELTA_THRESHOLD := by decide
theorem consts_ok_block_size : 0 < Generated.LOCAL_BLOCK_SIZE := by decide

/-! ### commutation and interleavings -/

/-- Two independent steps — disjoint footprints, or the same `mkdir`, or two deletions — commute on
    EVERY world. -/
theorem commute_indep (s t : Step) (h : Indep s t) (w : SWorld) :
    s.apply (t.apply w) = t.apply (s.apply w) := Engine.commute_indep s t h w

/-- `mkdir` of an existing directory is a no-op and `mkdir` is idempotent: the two
    `create_dir_all(parent)` calls of `Transferrer::copy_file` and `LocalTransport::copy_file`
    count as one chain. -/
theorem mkdir_idem (p : Path) (w : SWorld) :
    (Step.mkdir p).apply ((Step.mkdir p).apply w) = (Step.mkdir p).apply w := by
  funext x
  simp only [apply_single (Step.mkdir p) rfl, Step.path, upd_apply, Step.nodeFn]
  by_cases hx : x = p
  · subst hx; simp only [↓reduceIte]; cases w x <;> rfl
  · simp [hx]

/-- The pick-any-head definition of n-ary interleavings coincides with the binary shuffle lifted
    over the list of lists. -/
theorem interleaving_iff_shuffleN {α : Type} (ls : List (List α)) (σ : List α) :
    Interleaving ls σ ↔ ShuffleN ls σ := ⟨Interleaving.toShuffleN, ShuffleN.toInterleaving⟩

/-- An interleaving contains exactly the steps of the lists. -/
theorem interleaving_mem {ls : List (List Step)} {σ : List Step} (h : Interleaving ls σ) (s : Step) :
    s ∈ σ ↔ ∃ l ∈ ls, s ∈ l := h.toShuffleN.mem_iff s

/-- Pairwise independent step lists: EVERY interleaving yields the world of the sequential run
    (the lists one after the other, in task order). -/
theorem interleave_eq_seq {ls : List (List Step)} (hind : PairwiseIndep ls) {σ : List Step}
    (hσ : Interleaving ls σ) (w : SWorld) : applyAll σ w = applyAll ls.flatten w :=
  shuffleN_eq_seq hσ.toShuffleN hind w

/-- The concatenation in task order is itself an interleaving (so the statement above is not about
    an empty set). -/
theorem seq_is_interleaving (ls : List (List Step)) : Interleaving ls ls.flatten := by
  apply ShuffleN.toInterleaving
  induction ls with
  | nil => exact .nil
  | cons l ls ih =>
    refine .cons ih ?_
    rw [List.flatten_cons]
    generalize ls.flatten = τ
    induction l with
    | nil => exact Shuffle.nil_left
    | cons s l ihl => exact .left ihl

/-! ### the temp name -/

/-- The fixed naming (append the suffix to the last component, local.rs:536-543) is injective. -/
theorem tempOf_injective (sfx : String) (p q : Path) (h : tempOf sfx p = tempOf sfx q) : p = q :=
  tempOf_inj sfx h

/-- … and never yields the destination path itself. -/
theorem tempOf_ne_self (p : Path) (hp : p ≠ []) : tempOf Generated.TEMP_SUFFIX p ≠ p :=
  tempOf_ne _ consts_ok_suffix_nonempty hp

/-- the temp + rename section under the OLD naming `dest.with_extension("sy.tmp")` -/
def deltaStepsOld (p : Path) (m : FileMeta) : List Step :=
  [Step.createTemp (tempOfOld p) m.content, Step.rename (tempOfOld p) p m.content m.size m.mtime]

/-- `C05/temp-collision/same-stem-siblings` (fixed in /repo commit 0c4aecb).  The old naming maps
    `a.bin` and `a.dat` to the same temp path; with it two block-delta updates are NOT independent,
    and in the interleaving create₁ · create₂ · rename₁ · rename₂ one update is lost: `a.bin` keeps
    its old content although both tasks ran to the end (the sequential run updates both). -/
theorem tempOf_old_counterexample :
    tempOfOld ["a.bin"] = tempOfOld ["a.dat"] ∧ (["a.bin"] : Path) ≠ ["a.dat"] ∧
    let m₁ : FileMeta := ⟨1, 11000000, 50, [], 0⟩
    let m₂ : FileMeta := ⟨2, 11000000, 60, [], 0⟩
    let w : SWorld := upd (upd (fun _ => none) ["a.bin"] (some (.file 10 11000000 5)))
      ["a.dat"] (some (.file 20 11000000 6))
    let l₁ := deltaStepsOld ["a.bin"] m₁
    let l₂ := deltaStepsOld ["a.dat"] m₂
    ∃ σ, Interleaving [l₁, l₂] σ ∧
      applyAll σ w ["a.bin"] = some (.file 10 11000000 5) ∧              -- update lost
      applyAll (l₁ ++ l₂) w ["a.bin"] = some (.file 1 11000000 50) ∧      -- sequential run
      applyAll σ w ≠ applyAll (l₁ ++ l₂) w := by
  refine ⟨by decide, by decide, ?_⟩
  intro m₁ m₂ w l₁ l₂
  refine ⟨[l₁[0], l₂[0], l₁[1], l₂[1]], ?_, by decide, by decide, ?_⟩
  · apply ShuffleN.toInterleaving
    exact .cons (.cons .nil Shuffle.nil_right) (.left (.right (.left (.right .nil))))
  · intro h
    have := congrFun h ["a.bin"]
    revert this
    decide

/-- the injective naming keeps the two temp paths of the same scenario apart -/
example : tempOf Generated.TEMP_SUFFIX ["a.bin"] = ["a.bin.sy.tmp"] ∧
    tempOf Generated.TEMP_SUFFIX ["a.dat"] = ["a.dat.sy.tmp"] ∧
    tempOf Generated.TEMP_SUFFIX ["d", "x"] = ["d", "x.sy.tmp"] := by decide

/-! ### independence of the tasks of a plan -/

/-- delete tasks of a plan target paths outside the scanned set (`plan_deletions` + the retain,
    strategy.rs:385-462, mod.rs:525-586) -/
theorem plan_deletes_outside_scan (cfg : Cfg) (scan : List SEntry) (dst : Map DNode) (d : Task)
    (hd : d ∈ plan cfg scan dst) (hdel : d.act = .delete) : ∀ e ∈ scan, e.rel ≠ d.rel := by
  have hentry : ∀ e, (planEntry cfg dst e).act ≠ .delete := by
    intro e
    unfold planEntry
    have hfile : ∀ m o, planFileAct cfg m o ≠ .delete := by
      intro m o; unfold planFileAct
      split <;> try simp
      split <;> (try split) <;> simp
    split
    · simp only; split <;> simp
    · exact hfile _ _
    · split
      · simp
      · split <;> (try split) <;> simp
      · split
        · exact hfile _ _
        · simp
  unfold plan at hd
  simp only at hd
  have hd' : d ∈ planDeletions (scanFilter cfg scan) scan dst := by
    split at hd
    · rcases List.mem_append.mp hd with h | h
      · obtain ⟨e, _, rfl⟩ := List.mem_map.mp h; exact absurd hdel (hentry e)
      · exact h
    · obtain ⟨e, _, rfl⟩ := List.mem_map.mp hd; exact absurd hdel (hentry e)
  unfold planDeletions at hd'
  obtain ⟨p, hp, rfl⟩ := List.mem_map.mp hd'
  rw [List.mem_filter] at hp
  intro e he heq
  have h2 := hp.2
  simp only [Bool.and_eq_true, Bool.not_eq_true', List.any_eq_false, beq_iff_eq] at h2
  exact h2.1.2 e he heq

/-- The step lists of the non-link tasks of `plan cfg scan dst` are pairwise independent, for every
    chunk size, threshold and route, provided the plan is laid out over a tree (`PlanOK`: unique
    relative paths; written files/links are not proper prefixes of other planned paths; delete
    targets are not above written paths) and the temp paths are fresh (`TempFresh`). -/
theorem plan_independent (cfg : Cfg) (thr ch : Nat) (sfx : String) (hint : Task → Hint)
    (scan : List SEntry) (dst : Map DNode) (w : SWorld)
    (hok : PlanOK (plan cfg scan dst)) (hfresh : TempFresh sfx (plan cfg scan dst) w) :
    PairwiseIndep (taskLists cfg thr ch sfx hint dst (plan cfg scan dst)) :=
  taskLists_indep hok hfresh hint dst

/-- the same for any task list (the plan is not special) -/
theorem tasks_independent (cfg : Cfg) (thr ch : Nat) (sfx : String) (hint : Task → Hint)
    (tasks : List Task) (dst : Map DNode) (w : SWorld)
    (hok : PlanOK tasks) (hfresh : TempFresh sfx tasks w) :
    PairwiseIndep (taskLists cfg thr ch sfx hint dst tasks) :=
  taskLists_indep hok hfresh hint dst

/-! ### the semaphore and the main theorem -/

/-- Whatever a `j`-permit semaphore admits is an interleaving of the task lists. -/
theorem sem_run_is_interleaving {j : Nat} {ls : List (List Step)} {σ : List Step}
    (h : SemRun j (initSlots ls) σ) : Interleaving ls σ := by
  have := h.interleaving
  rwa [initSlots_rests] at this

/-- Every worker count `j ≥ 1` admits at least the task-by-task run. -/
theorem sem_run_exists {j : Nat} (hj : 1 ≤ j) (ls : List (List Step)) :
    SemRun j (initSlots ls) ls.flatten := by
  simpa using sem_sequential hj ls [] (by simp)

/-- the step-level world of an entry-level destination holds no working file -/
theorem ofMap_noTemp (dst : Map DNode) : NoTemp (ofMap dst) := by
  intro x c h
  unfold ofMap at h
  cases hg : dst.get? x with
  | none => simp [hg] at h
  | some n => cases n <;> simp [hg, embed] at h

/-- After a run in which every task completed — in any interleaving — no working file remains
    (given none existed before). -/
theorem no_working_file_left (cfg : Cfg) (thr ch : Nat) (sfx : String) (hint : Task → Hint)
    (tasks : List Task) (dst : Map DNode) (w : SWorld)
    (hind : PairwiseIndep (taskLists cfg thr ch sfx hint dst tasks)) (hw : NoTemp w)
    {σ : List Step} (hσ : Interleaving (taskLists cfg thr ch sfx hint dst tasks) σ) :
    NoTemp (applyAll σ w) :=
  fun x c => run_no_temp hind hσ w x (Or.inl (hw x)) c

/-- **C05.** For every worker count `j ≥ 1`, every run `σ` admitted by a `j`-permit semaphore over
    the non-link tasks of the plan: the final destination equals the one of the sequential run
    (task after task, in plan order), and no working file remains. -/
theorem C05 (cfg : Cfg) (thr ch : Nat) (sfx : String) (hint : Task → Hint)
    (scan : List SEntry) (dst : Map DNode)
    (hok : PlanOK (plan cfg scan dst)) (hfresh : TempFresh sfx (plan cfg scan dst) (ofMap dst))
    (j : Nat) (hj : 1 ≤ j) (σ : List Step)
    (hσ : SemRun j (initSlots (taskLists cfg thr ch sfx hint dst (plan cfg scan dst))) σ) :
    applyAll σ (ofMap dst) =
        applyAll (taskLists cfg thr ch sfx hint dst (plan cfg scan dst)).flatten (ofMap dst) ∧
      NoTemp (applyAll σ (ofMap dst)) := by
  have hind := plan_independent cfg thr ch sfx hint scan dst (ofMap dst) hok hfresh
  have hI := sem_run_is_interleaving hσ
  exact ⟨interleave_eq_seq hind hI _,
    no_working_file_left cfg thr ch sfx hint _ dst _ hind (ofMap_noTemp dst) hI⟩


/-- Working files are never mistaken for anything else: under `TempFresh`, in every interleaving of
    a completed run, the temp path of every task that may use one ends as it began — empty — and
    (by `plan_independent`) no other task ever touches it. -/
theorem temp_paths_end_empty (cfg : Cfg) (thr ch : Nat) (sfx : String) (hint : Task → Hint)
    (tasks : List Task) (dst : Map DNode) (w : SWorld) (hok : PlanOK tasks)
    (hfresh : TempFresh sfx tasks w) {σ : List Step}
    (hσ : Interleaving (taskLists cfg thr ch sfx hint dst tasks) σ) (t : Task) (ht : t ∈ tasks)
    (hm : t.mayDelta) : applyAll σ w (tempOf sfx t.rel) = none :=
  temp_path_final_none hok hfresh hσ ht hm

/-! ### the residual finding: a user's file named like the working file -/

def cfg0 : Cfg :=
  { delete := false, force := false, dryRun := false, xattrs := false, hardlinks := false,
    threshold := 50, links := .preserve, compare := .default, minSize := none, maxSize := none,
    maxErrors := 0, tie := false }

/-- the model's `createTemp` step stands for TWO system calls of `sync_file_with_delta` since repo fix d0ec669:
    `let _ = fs::remove_file(&temp_dest)` and the creation of the working file.  On every world the pair acts like the single
    step (a directory at the working-file path survives both, anything else is replaced by the fresh working file), so the
    observed call `unlink(<x>.sy.tmp)` directly before the creation is a stutter of `createTemp` — which is how the steps
    stream reads it (`collapse` in tools/steps_stream.py). -/
theorem createTemp_absorbs_unlink (q : Path) (cid : Nat) (w : SWorld) :
    (Step.createTemp q cid).apply ((Step.unlink q).apply w) = (Step.createTemp q cid).apply w := by
  funext x
  simp only [Step.apply, Step.path, upd]
  by_cases hx : x = q
  · subst hx
    simp only [↓reduceIte]
    cases h : w x with
    | none => rfl
    | some n => cases n <;> rfl
  · simp [hx]

/-- `C05/user-file-named-like-temp` (known residual finding, any deterministic temp name).  The
    destination holds a large file `x` and the user's own file `x.sy.tmp`; the source has a newer `x`.
    The plan is the single block-delta update of `x`; `TempFresh` is violated (something exists at
    the temp path) and the run destroys the user's file: it is truncated by `createTemp` and
    renamed away — although no task of the plan names it and `--delete` is off. -/
theorem temp_user_file_counterexample :
    let scan : List SEntry := [⟨["x"], .file ⟨1, 7000, 50000000000, [], 0⟩ 1, 7000, false⟩]
    let dst : Map DNode := [(["x"], .file ⟨10, 6000, 5, [], 1⟩), (["x.sy.tmp"], .file ⟨77, 3, 4, [], 2⟩)]
    let tasks := plan cfg0 scan dst
    let ls := taskLists cfg0 5000 1000 Generated.TEMP_SUFFIX (fun _ => {}) dst tasks
    tasks = [⟨.update, ["x"], .file ⟨1, 7000, 50000000000, [], 0⟩ 1⟩] ∧
    ¬ TempFresh Generated.TEMP_SUFFIX tasks (ofMap dst) ∧
    ofMap dst ["x.sy.tmp"] = some (.file 77 3 4) ∧
    applyAll ls.flatten (ofMap dst) ["x.sy.tmp"] = none ∧
    applyAll ls.flatten (ofMap dst) ["x"] = some (.file 1 7000 50000000000) := by
  intro scan dst tasks ls
  refine ⟨by decide, ?_, by decide, by decide, by decide⟩
  intro h
  have := h.notExisting ⟨.update, ["x"], .file ⟨1, 7000, 50000000000, [], 0⟩ 1⟩ (by decide) (by decide)
  revert this
  decide

/-! ### non-vacuity -/

namespace Example
/-- source: directory `d` with two new files `d/a`, `d/b`, and a changed large file `big`;
    destination: only the old `big` (6000 bytes ≥ the example threshold 5000). -/
def scan : List SEntry :=
  [⟨["d"], .dir, 0, false⟩,
   ⟨["d", "a"], .file ⟨1, 2500, 100, [], 11⟩ 1, 2500, false⟩,
   ⟨["d", "b"], .file ⟨2, 10, 200, [], 12⟩ 1, 10, false⟩,
   ⟨["big"], .file ⟨3, 7000, 9000000000, [], 13⟩ 1, 7000, false⟩]
def dst : Map DNode := [(["big"], .file ⟨30, 6000, 5, [], 1⟩)]
def tasks : List Task := plan cfg0 scan dst
def lists : List (List Step) := taskLists cfg0 5000 1000 Generated.TEMP_SUFFIX (fun _ => {}) dst tasks

/-- four tasks: create `d`, create `d/a`, create `d/b`, update `big` -/
example : tasks.map (fun t => (t.act, t.rel)) =
    [(.create, ["d"]), (.create, ["d", "a"]), (.create, ["d", "b"]), (.update, ["big"])] := by decide

/-- their step lists: the shared `mkdir d`, chunked growth, and temp + rename for `big` -/
example : lists =
    [[.mkdir ["d"]],
     [.mkdir ["d"], .unlinkIfSymlink ["d", "a"], .openTrunc ["d", "a"] 1 0, .grow ["d", "a"] 1 1000,
      .grow ["d", "a"] 1 2000, .grow ["d", "a"] 1 2500, .utimens ["d", "a"] 100],
     [.mkdir ["d"], .unlinkIfSymlink ["d", "b"], .openTrunc ["d", "b"] 2 0, .grow ["d", "b"] 2 10,
      .utimens ["d", "b"] 200],
     [.unlinkIfSymlink ["big"], .createTemp ["big.sy.tmp"] 3,
      .rename ["big.sy.tmp"] ["big"] 3 7000 9000000000]] := by decide

end Example

theorem example_planOK : PlanOK Example.tasks := by
  refine ⟨by decide, by decide, by decide⟩

theorem example_tempFresh : TempFresh Generated.TEMP_SUFFIX Example.tasks (ofMap Example.dst) := by
  refine ⟨by decide, by decide⟩

namespace Example

/-- the hypotheses of `C05` are satisfiable and its conclusion is about a real run: the final
    world of every admitted interleaving is the synced tree -/
example (j : Nat) (hj : 1 ≤ j) (σ : List Step) (hσ : SemRun j (initSlots lists) σ) :
    applyAll σ (ofMap dst) ["d"] = some .dir ∧
    applyAll σ (ofMap dst) ["d", "a"] = some (.file 1 2500 100) ∧
    applyAll σ (ofMap dst) ["d", "b"] = some (.file 2 10 200) ∧
    applyAll σ (ofMap dst) ["big"] = some (.file 3 7000 9000000000) ∧
    applyAll σ (ofMap dst) ["big.sy.tmp"] = none := by
  have h := (C05 cfg0 5000 1000 Generated.TEMP_SUFFIX (fun _ => {}) scan dst example_planOK example_tempFresh j hj σ hσ).1
  have e : taskLists cfg0 5000 1000 Generated.TEMP_SUFFIX (fun _ => {}) dst (plan cfg0 scan dst) = lists := rfl
  rw [e] at h
  rw [h]
  decide

/-- a genuinely interleaved run admitted with two permits (the two file creations overlap and the
    shared `mkdir d` is issued three times) -/
example : SemRun 2 (initSlots [[Step.mkdir ["d"]], [.mkdir ["d"], .openTrunc ["d", "a"] 1 0],
      [.mkdir ["d"], .openTrunc ["d", "b"] 2 0]])
    [.mkdir ["d"], .mkdir ["d"], .mkdir ["d"], .openTrunc ["d", "b"] 2 0, .openTrunc ["d", "a"] 1 0] := by
  refine .acquire (pre := []) (post := initSlots [[.mkdir ["d"], .openTrunc ["d", "a"] 1 0],
      [.mkdir ["d"], .openTrunc ["d", "b"] 2 0]]) (l := [.mkdir ["d"]]) rfl rfl (by decide) ?_
  refine .exec (pre := []) (l := []) rfl rfl ?_
  refine .acquire (pre := [⟨true, []⟩]) (post := initSlots [[.mkdir ["d"], .openTrunc ["d", "b"] 2 0]])
    (l := [.mkdir ["d"], .openTrunc ["d", "a"] 1 0]) rfl rfl (by decide) ?_
  refine .acquire (pre := [⟨true, []⟩, ⟨true, [.mkdir ["d"], .openTrunc ["d", "a"] 1 0]⟩]) (post := [])
    (l := [.mkdir ["d"], .openTrunc ["d", "b"] 2 0]) rfl rfl (by decide) ?_
  refine .exec (pre := [⟨true, []⟩]) (l := [.openTrunc ["d", "a"] 1 0]) rfl rfl ?_
  refine .exec (pre := [⟨true, []⟩, ⟨true, [.openTrunc ["d", "a"] 1 0]⟩]) (post := [])
    (l := [.openTrunc ["d", "b"] 2 0]) rfl rfl ?_
  refine .exec (pre := [⟨true, []⟩, ⟨true, [.openTrunc ["d", "a"] 1 0]⟩]) (post := []) (l := []) rfl rfl ?_
  refine .exec (pre := [⟨true, []⟩]) (l := []) rfl rfl ?_
  exact .done (by decide)

/-- with one permit the third task cannot start while the second is running -/
example : ¬ (running [⟨true, []⟩, ⟨true, [Step.mkdir ["d"]]⟩, ⟨false, [Step.mkdir ["d"]]⟩] < 1) := by decide

/-- `Indep` is not trivially true: a write to `x` and a delete of `x` are not independent -/
example : ¬ Indep (.openTrunc ["x"] 1 0) (.unlink ["x"]) := by
  intro h
  rcases h with h | ⟨p, h, _⟩ | ⟨h, _⟩
  · exact h ["x"] (by decide)
  · cases h
  · cases h
end Example

end SyModel.Props.C05
