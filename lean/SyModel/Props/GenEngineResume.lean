/-
  GenEngineResume — how `SyncEngine::sync` (src/sync/mod.rs) treats the resume state file `.sy-state.json`, TRANSLATED on
  every run into `SyModel/Generated/Code/EngineResume.lean` as two effectful fragments:

    * `load_resume_state`    — `let resume_state = if self.resume && !self.dry_run { match ResumeState::load(destination)? … }`
    * `cleanup_resume_state` — the `if let Ok(mut state_guard) = resume_state.lock() { … }` block at the end of a run.

  `ResumeState::load` (which DELETES a corrupt file), `ResumeState::delete`, `is_compatible_with` and `progress` are
  operations of `Ext`.  Proved for ANY instance of them:

    * C08 (dry run changes nothing): in a dry run, or with resume off, NO operation is performed and the answer is `None`
      (`dry_run_touches_nothing`); with `None` the clean-up performs no operation either (`cleanup_none_touches_nothing`).
      Seeded change C08c added a dry-run arm that produced `Some(state)`; the clean-up then deleted the file: under that
      change `dry_run_touches_nothing` is false.
    * C18: the state file is deleted at load time only when it is incompatible (`load_deletes_only_incompatible`), and the
      clean-up deletes only when a load finds a file (`cleanup_calls`).
  The state VALUE (which files it lists as completed) is never consulted by the planner since fix a87222e: that is a
  statement about the planning loop (`Generated/Code/EnginePlan.lean` has no `completed` test left) — see DESIGN §12.8.
-/
import SyModel.Generated.Code.EngineResume
namespace SyModel.Props.GenEngineResume
open SyModel.Generated SyModel.Generated.EngineResume

/-- run a translated computation from a world -/
def runM {W α : Type} (x : Rs.M W α) (w : W) : Except Rs.Err α × W := x.run.run w

/-- **C08**: with `--dry-run`, or with resume off, the fragment performs NO operation — for ANY instance, whatever the
    operations would do — and answers `None`: no state is loaded, nothing is deleted. -/
theorem dry_run_touches_nothing {W : Type} (ext : Ext W) (self : SyncEngine) (s d : Rs.Path) (fl : Rs.Opaque)
    (files : List Rs.Opaque) (h : self.dry_run = true ∨ self.resume = false) (w : W) :
    runM (load_resume_state ext self s d fl files) w = (.ok none, w) := by
  unfold load_resume_state
  have hc : (self.resume && !self.dry_run) = false := by
    rcases h with h | h <;> simp [h]
  simp only [hc, Bool.false_eq_true, ↓reduceIte]
  rfl

/-- the answer of `load_resume_state` does not depend on ANY operation when the run is a dry run: two instances give the
    same computation (extensional form of the theorem above) -/
theorem dry_run_ignores_operations {W : Type} (ext ext' : Ext W) (self : SyncEngine) (s d : Rs.Path) (fl : Rs.Opaque)
    (files : List Rs.Opaque) (h : self.dry_run = true) :
    load_resume_state ext self s d fl files = load_resume_state ext' self s d fl files := by
  unfold load_resume_state
  have hc : (self.resume && !self.dry_run) = false := by simp [h]
  simp only [hc, Bool.false_eq_true, ↓reduceIte]

/-- with no state in memory (`None`: every dry run, every run with resume off) the clean-up performs no operation -/
theorem cleanup_none_touches_nothing {W : Type} (ext : Ext W) (d : Rs.Path) (w : W) :
    runM (cleanup_resume_state ext none d) w = (.ok (), w) := by
  unfold cleanup_resume_state
  simp only [lockOk, Rs.is_some, Option.isSome_none, Bool.false_eq_true, ↓reduceIte]
  rfl

/-- composition: a dry run neither loads, nor deletes at load time, nor deletes at clean-up — the two fragments in sequence
    leave every world as it was, for ANY instance -/
theorem dry_run_resume_handling_changes_nothing {W : Type} (ext : Ext W) (self : SyncEngine) (s d : Rs.Path)
    (fl : Rs.Opaque) (files : List Rs.Opaque) (h : self.dry_run = true) (w : W) :
    runM (do let st ← load_resume_state ext self s d fl files; cleanup_resume_state ext st d) w = (.ok (), w) := by
  have h1 := dry_run_touches_nothing ext self s d fl files (Or.inl h) w
  have h2 := cleanup_none_touches_nothing ext d w
  simp only [runM] at h1 h2 ⊢
  simp only [ExceptT.run_bind, StateT.run_bind, h1]
  exact h2

/-- a call-logging world: which operations ran, in order -/
inductive Call | load | delete | compat | progress
  deriving DecidableEq, Repr

/-- an instance that logs every call; `file` = is there a (valid) state file, `ok` = is it compatible -/
def logExt (file ok : Bool) : Ext (List Call) where
  ResumeState_load _ := fun w => pure ((.ok (if file then some ⟨⟩ else none)), w ++ [.load])
  ResumeState_delete _ := fun w => pure ((.ok ()), w ++ [.delete])
  ResumeState_new _ _ _ _ := ⟨⟩
  is_compatible_with _ _ := fun w => pure ((.ok ok), w ++ [.compat])
  progress _ := fun w => pure ((.ok (0, 0)), w ++ [.progress])

/-- **C18**: in a real run with resume on, the state file is deleted at load time exactly when a file is there and it
    is NOT compatible with the run's flags; a compatible one is kept (and only read) -/
theorem load_deletes_only_incompatible (file ok quiet : Bool) (s d : Rs.Path) (fl : Rs.Opaque) (files : List Rs.Opaque) :
    (runM (load_resume_state (logExt file ok) ⟨true, false, quiet⟩ s d fl files) []).2 =
      if file then (if ok then [.load, .compat, .progress] else [.load, .compat, .delete]) else [.load] := by
  cases file <;> cases ok <;> cases quiet <;> rfl

/-- the clean-up with a state in memory: one load, and a delete exactly when the load finds a file -/
theorem cleanup_calls (file ok : Bool) (d : Rs.Path) :
    (runM (cleanup_resume_state (logExt file ok) (some ⟨⟩) d) []).2 = if file then [.load, .delete] else [.load] := by
  cases file <;> cases ok <;> rfl

/-- non-vacuity of the dry-run theorem's hypothesis: the instance that would delete on every call is never called -/
example : (runM (load_resume_state (logExt true false) ⟨true, true, false⟩ [] [] ⟨⟩ []) []).2 = [] := rfl

end SyModel.Props.GenEngineResume
