/-
  GenCliValidate — the TRANSLATED `Cli::validate` (src/cli.rs, regenerated into
  `SyModel/Generated/Code/CliValidate.lean` on every run, in the effect monad `Rs.M W` over the three probes
  `syncpath_is_local`, `syncpath_path`, `path_exists` of the source argument) accepts exactly the flag combinations the
  documentation describes.

  `Accepts c srcLocalAndMissing : Bool` is a plain boolean formula written from the README / `--help` semantics:
      min ≤ max  ∧  at most one of --ignore-times, --size-only, --checksum  ∧  delete_threshold ≤ 100
      ∧ (verify_only → ¬delete ∧ ¬watch ∧ ¬dry_run)
      ∧ (bidirectional → max_delete ≤ 100 ∧ strategy ∈ {newer, larger, smaller, source, dest, rename}
                          ∧ ¬verify_only ∧ ¬watch)
      ∧ (list_profiles ∨ show_profile given
          ∨ ((profile given ∨ (source ∧ destination given)) ∧ ¬(a LOCAL source path that does not exist))).

  Results, for ALL `Cli` values, worlds and ANY instance of the three probes:
    * `validate_eq_spec`      the generated function, as a computation, is `validateSpec` (flag test, then probes)
    * `validate_ok_iff`       `validate` succeeds iff `Accepts c m` where `m` is what the probes answer (`ProbesAnswer`)
    * `validate_flags_rejected`, `validate_error_is_config`   a rejection is `Err(config)` and, when the FLAGS are
                              the reason, no probe is called (`validate_rejects_flags_without_probing`)
    * `validate_read_only`    read-only probes ⇒ the world is unchanged, whatever the answer
    * corollaries: `accepted_delete_threshold_le_100` (C07), `accepted_verify_only_is_read_only` (C15),
      `accepted_at_most_one_comparison`, `accepted_comparison_rule_well_defined` (C01),
      `accepted_min_le_max` (C16), `accepted_bidirectional` (C11), `accepted_strategy_parses`,
      `from_str_of_valid_name`, `from_str_accepts_more_than_validate` (observation: `from_str` is case-insensitive,
      `validate` is not), `valid_strategies_eq_consts`.
-/
import SyModel.Generated.Code.CliValidate
import SyModel.Generated.Consts
import SyModel.Props.GenBisync
set_option linter.unusedVariables false
set_option linter.unusedSimpArgs false
namespace SyModel.Props.GenCliValidate
open SyModel SyModel.Generated SyModel.Generated.CliValidate

/-! ## 0. running `Rs.M W` (local copies of the three facts needed, so that this module depends on no other unit) -/
section Monad
variable {W α β : Type}

/-- run a translated computation in world `w`: its `Result` and the world afterwards -/
def run (x : Rs.M W α) (w : W) : Except Rs.Err α × W := x.run.run w

theorem run_pure (a : α) (w : W) : run (pure a : Rs.M W α) w = (.ok a, w) := rfl
theorem run_throw (e : Rs.Err) (w : W) : run (throw e : Rs.M W α) w = (.error e, w) := rfl
theorem run_bind (x : Rs.M W α) (f : α → Rs.M W β) (w : W) :
    run (x >>= f) w = match run x w with
      | (.ok a, w') => run (f a) w'
      | (.error e, w') => (.error e, w') := by
  unfold run
  simp only [ExceptT.run_bind, StateT.run_bind]
  generalize StateT.run (ExceptT.run x) w = r
  obtain ⟨a, w'⟩ := r
  cases a <;> rfl

/-- the computation never changes the world, whatever it returns -/
def Quiet (x : Rs.M W α) : Prop := ∀ w, (run x w).2 = w

theorem Quiet.pure (a : α) : Quiet (pure a : Rs.M W α) := fun _ => rfl
theorem Quiet.throw (e : Rs.Err) : Quiet (throw e : Rs.M W α) := fun _ => rfl
theorem Quiet.bind {x : Rs.M W α} {f : α → Rs.M W β} (hx : Quiet x) (hf : ∀ a, Quiet (f a)) : Quiet (x >>= f) := by
  intro w
  rw [run_bind]
  have := hx w
  rcases hr : run x w with ⟨_ | a, w'⟩ <;> rw [hr] at this <;> simp only at this ⊢
  · exact this
  · subst this; exact hf a _
theorem Quiet.ite {c : Prop} [Decidable c] {x y : Rs.M W α} (hx : Quiet x) (hy : Quiet y) :
    Quiet (if c then x else y) := by split <;> assumption
end Monad

/-! ## 1. the documented acceptance predicate -/

/-- the names `--conflict-resolve` accepts (README "Conflict resolution strategies"; `--help`) -/
def validStrategies : List Rs.Str :=
  ["newer".toList, "larger".toList, "smaller".toList, "source".toList, "dest".toList, "rename".toList]

/-- how many of `--ignore-times`, `--size-only`, `--checksum` are set -/
def comparisonCount (c : Cli) : Nat := c.ignore_times.toNat + c.size_only.toNat + c.checksum.toNat

/-- `--min-size` ≤ `--max-size` when both are given -/
def minMaxOk (c : Cli) : Bool :=
  match c.min_size, c.max_size with
  | some mn, some mx => decide (mn ≤ mx)
  | _, _ => true

/-- `--verify-only` is read-only: no `--delete`, no `--watch`, no (redundant) `--dry-run` -/
def verifyOnlyOk (c : Cli) : Bool := !c.verify_only || (!c.delete && !c.watch && !c.dry_run)

/-- `--bidirectional`: a percentage, one of the six strategy names, not with `--verify-only`, `--watch` -/
def bidirectionalOk (c : Cli) : Bool :=
  !c.bidirectional ||
    (decide (c.max_delete ≤ 100) && validStrategies.contains c.conflict_resolve && !c.verify_only && !c.watch)

/-- the part of the documented rules that reads flags only -/
def FlagsOk (c : Cli) : Bool :=
  minMaxOk c && decide (comparisonCount c ≤ 1) && decide (c.delete_threshold ≤ 100) && verifyOnlyOk c &&
    bidirectionalOk c

/-- `--list-profiles`, `--show-profile NAME` need no paths -/
def profileQuery (c : Cli) : Bool := c.list_profiles || c.show_profile.isSome

/-- a profile, or both positional paths -/
def pathsGiven (c : Cli) : Bool := c.profile.isSome || (c.source.isSome && c.destination.isSome)

/-- **The documented acceptance predicate.**  `srcLocalAndMissing` = "the source argument is a LOCAL path that does
    not exist" (meaningless, and ignored, when no source argument is given). -/
def Accepts (c : Cli) (srcLocalAndMissing : Bool) : Bool :=
  FlagsOk c && (profileQuery c || (pathsGiven c && !(c.source.isSome && srcLocalAndMissing)))

/-! ## 2. the generated function is: flag test, then probes -/

def cfgErr : Rs.Err := Rs.Err.config Rs.opaqueMsg

section anyProbes
variable {W : Type} (ext : Ext W)

/-- continue with `k` when the documented condition holds, else `Err(config)` -/
def guardM (ok : Bool) (k : Rs.M W Unit) : Rs.M W Unit := if ok then k else throw cfgErr

/-- the probes of the source argument: `Err` when it is local and does not exist -/
def probeSource (src : Rs.Opaque) : Rs.M W Unit := do
  let l ← ext.syncpath_is_local src
  if l then do
    let p ← ext.syncpath_path src
    let b ← ext.path_exists p
    guardM b (pure ())
  else pure ()

/-- after the flags: profile queries need nothing more; otherwise the paths must be given and a local source must
    exist -/
def validateTail (c : Cli) : Rs.M W Unit :=
  if profileQuery c then pure ()
  else guardM (pathsGiven c) (match c.source with
    | some src => probeSource ext src
    | none => pure ())

def validateSpec (c : Cli) : Rs.M W Unit := guardM (FlagsOk c) (validateTail ext c)

theorem contains_valid (s : Rs.Str) :
    Rs.contains [['n', 'e', 'w', 'e', 'r'], ['l', 'a', 'r', 'g', 'e', 'r'], ['s', 'm', 'a', 'l', 'l', 'e', 'r'],
      ['s', 'o', 'u', 'r', 'c', 'e'], ['d', 'e', 's', 't'], ['r', 'e', 'n', 'a', 'm', 'e']] (Rs.as_str s) =
      validStrategies.contains s := rfl

theorem guard_chain (a b : Bool) (k : Rs.M W Unit) : guardM a (guardM b k) = guardM (a && b) k := by
  cases a <;> cases b <;> rfl

theorem decide_gt (a b : Nat) : decide (a > b) = !decide (a ≤ b) := by
  by_cases h : a ≤ b
  · simp [h, Nat.not_lt.mpr h]
  · simp [h, Nat.lt_of_not_le h]

/-! the three shapes `validate` is made of, the continuation `k` abstract -/

/-- `if !ok { bail!() }; k` -/
theorem layer_not (x : Bool) (k : Rs.M W Unit) :
    (if (!x) = true then throw (Rs.Err.config Rs.opaqueMsg) else k) = guardM x k := by
  cases x <;> rfl

/-- `if bad { bail!() }; k` -/
theorem layer_flag (x : Bool) (k : Rs.M W Unit) :
    (if x = true then throw (Rs.Err.config Rs.opaqueMsg) else k) = guardM (!x) k := by
  cases x <;> rfl

/-- `if mode { checks }; k` -/
theorem layer_block (x g : Bool) (k : Rs.M W Unit) :
    (if x = true then guardM g k else k) = guardM (!x || g) k := by
  cases x <;> cases g <;> rfl

/-- `if mode { checks } else { other checks }; k` (what a block looks like after the checks that FOLLOW it have been
    merged into both arms) -/
theorem layer_block2 (x g h : Bool) (k : Rs.M W Unit) :
    (if x = true then guardM g k else guardM h k) = guardM (bif x then g else h) k := by
  cases x <;> rfl

theorem count_le (a b c : Bool) :
    decide (Rs.count (Rs.filter [a, b, c] fun x => x) ≤ 1) = decide (a.toNat + b.toNat + c.toNat ≤ 1) := by
  cases a <;> cases b <;> cases c <;> rfl

/-- **`validate_eq_spec`**: for ANY probes the generated function is the flag test followed by the probes -/
theorem validate_eq_spec (c : Cli) : Cli.validate ext c = validateSpec ext c := by
  obtain ⟨mn, mx, it, so, ck, dt, vo, del, wa, dr, bi, md, cr, lp, sp, pr, src, dst⟩ := c
  unfold Cli.validate
  simp only [ExceptT.bind_throw, contains_valid, decide_gt, count_le]
  simp only [layer_not, layer_flag, layer_block, layer_block2, guard_chain, Bool.not_not]
  unfold validateSpec validateTail
  have htail : ∀ G G' : Bool, G = G' →
      guardM G (if (lp || Rs.is_some sp) = true then pure ()
        else guardM (!(Rs.is_none pr && (Rs.is_none src || Rs.is_none dst)))
          (match src with
            | some source => do
              let l ← ext.syncpath_is_local source
              if l = true then do
                let p ← ext.syncpath_path source
                let b ← ext.path_exists p
                guardM b (pure ())
              else pure ()
            | _ => pure ())) =
      guardM G' (if profileQuery ⟨mn, mx, it, so, ck, dt, vo, del, wa, dr, bi, md, cr, lp, sp, pr, src, dst⟩ = true
        then pure ()
        else guardM (pathsGiven ⟨mn, mx, it, so, ck, dt, vo, del, wa, dr, bi, md, cr, lp, sp, pr, src, dst⟩)
          (match src with
            | some s => probeSource ext s
            | none => pure ())) := by
    intro G G' h
    subst h
    congr 1
    unfold profileQuery pathsGiven
    cases pr <;> cases src <;> cases dst <;> rfl
  unfold FlagsOk minMaxOk comparisonCount verifyOnlyOk bidirectionalOk
  rcases mn with _ | a <;> rcases mx with _ | b <;> simp only [guard_chain] <;> apply htail
  all_goals
    generalize decide (it.toNat + so.toNat + ck.toNat ≤ 1) = x1
    generalize decide (dt ≤ 100) = x2
    generalize decide (md ≤ 100) = x3
    generalize validStrategies.contains cr = x4
    try generalize decide (a ≤ b) = x5
    cases x1 <;> cases x2 <;> cases vo <;> cases bi <;> cases del <;> cases wa <;> cases dr <;> cases x3 <;>
      cases x4 <;> first | rfl | (cases x5 <;> rfl)

/-! ## 3. success ⟺ `Accepts` -/

/-- what the probes answer in world `w` for the source argument of `c`: `m` = "local and missing" -/
def ProbesAnswer (c : Cli) (w : W) (m : Bool) : Prop :=
  match c.source with
  | none => m = false
  | some src => ∃ l w1, run (ext.syncpath_is_local src) w = (.ok l, w1) ∧
      if l = true then ∃ p w2 b w3, run (ext.syncpath_path src) w1 = (.ok p, w2) ∧
        run (ext.path_exists p) w2 = (.ok b, w3) ∧ m = !b
      else m = false

theorem probeSource_ok_iff (src : Rs.Opaque) (w : W) (m : Bool)
    (h : ∃ l w1, run (ext.syncpath_is_local src) w = (.ok l, w1) ∧
      if l = true then ∃ p w2 b w3, run (ext.syncpath_path src) w1 = (.ok p, w2) ∧
        run (ext.path_exists p) w2 = (.ok b, w3) ∧ m = !b
      else m = false) :
    ((run (probeSource ext src) w).1 = .ok () ↔ m = false) ∧
      ((run (probeSource ext src) w).1 = .ok () ∨ (run (probeSource ext src) w).1 = .error cfgErr) := by
  obtain ⟨l, w1, hl, h⟩ := h
  unfold probeSource
  rw [run_bind, hl]
  cases l
  · simp only [Bool.false_eq_true, if_false] at h ⊢
    subst h
    exact ⟨⟨fun _ => rfl, fun _ => rfl⟩, .inl rfl⟩
  · simp only [if_true] at h ⊢
    obtain ⟨p, w2, b, w3, hp, hb, rfl⟩ := h
    rw [run_bind, hp]
    simp only
    rw [run_bind, hb]
    cases b
    · exact ⟨⟨fun h => (nomatch h), fun h => (nomatch h)⟩, .inr rfl⟩
    · exact ⟨⟨fun _ => rfl, fun _ => rfl⟩, .inl rfl⟩

theorem run_guardM (ok : Bool) (k : Rs.M W Unit) (w : W) :
    run (guardM ok k) w = if ok = true then run k w else (.error cfgErr, w) := by
  cases ok <;> rfl

/-- **`validate_ok_iff`.**  For ANY instance of the three probes, every `Cli` value and every world: when the probes
    answer `m` for the source argument, `validate` returns `Ok(())` iff the documented predicate accepts; and every
    rejection is `Err(config)`. -/
theorem validate_ok_iff (c : Cli) (w : W) (m : Bool) (hp : ProbesAnswer ext c w m) :
    ((run (Cli.validate ext c) w).1 = .ok () ↔ Accepts c m = true) ∧
      ((run (Cli.validate ext c) w).1 = .ok () ∨ (run (Cli.validate ext c) w).1 = .error cfgErr) := by
  rw [validate_eq_spec]
  unfold validateSpec Accepts
  rw [run_guardM]
  cases hf : FlagsOk c
  · exact ⟨⟨fun h => (nomatch h), fun h => (nomatch h)⟩, .inr rfl⟩
  · simp only [if_true, Bool.true_and]
    unfold validateTail
    cases hq : profileQuery c
    · simp only [Bool.false_eq_true, if_false, Bool.false_or]
      rw [run_guardM]
      cases hg : pathsGiven c
      · exact ⟨⟨fun h => (nomatch h), fun h => (nomatch h)⟩, .inr rfl⟩
      · simp only [if_true, Bool.true_and]
        unfold ProbesAnswer at hp
        cases hs : c.source with
        | none => exact ⟨⟨fun _ => rfl, fun _ => rfl⟩, .inl rfl⟩
        | some src =>
          rw [hs] at hp
          obtain ⟨h1, h2⟩ := probeSource_ok_iff ext src w m hp
          refine ⟨h1.trans ?_, h2⟩
          cases m <;> simp
    · exact ⟨⟨fun _ => rfl, fun _ => rfl⟩, .inl rfl⟩

/-- when the flags alone are the reason, the rejection happens WITHOUT calling a probe (the right-hand side mentions
    no probe, and the world is untouched) -/
theorem validate_rejects_flags_without_probing (c : Cli) (hf : FlagsOk c = false) (w : W) :
    run (Cli.validate ext c) w = (.error cfgErr, w) := by
  rw [validate_eq_spec]; unfold validateSpec; rw [hf]; rfl

/-- `--list-profiles`, `--show-profile` with acceptable flags: `Ok`, no probe -/
theorem validate_profile_query (c : Cli) (hf : FlagsOk c = true) (hq : profileQuery c = true) (w : W) :
    run (Cli.validate ext c) w = (.ok (), w) := by
  rw [validate_eq_spec]; unfold validateSpec validateTail; rw [hf, hq]; rfl

/-- every probe of the instance leaves the world alone -/
structure ProbesReadOnly : Prop where
  is_local : ∀ s, Quiet (ext.syncpath_is_local s)
  path : ∀ s, Quiet (ext.syncpath_path s)
  pexists : ∀ p, Quiet (ext.path_exists p)

theorem Quiet.guardM {ok : Bool} {k : Rs.M W Unit} (hk : Quiet k) : Quiet (guardM ok k) := by
  cases ok
  · exact Quiet.throw (α := Unit) cfgErr
  · exact hk

/-- **`validate` never changes the world when the probes are read-only** — accepted or rejected -/
theorem validate_read_only (h : ProbesReadOnly ext) (c : Cli) (w : W) : (run (Cli.validate ext c) w).2 = w := by
  rw [validate_eq_spec]
  refine Quiet.guardM (Quiet.ite (Quiet.pure ()) (Quiet.guardM ?_)) w
  cases c.source with
  | none => exact Quiet.pure ()
  | some src =>
    exact Quiet.bind (h.is_local _) fun l => Quiet.ite
      (Quiet.bind (h.path _) fun p => Quiet.bind (h.pexists _) fun b => Quiet.guardM (Quiet.pure ()))
      (Quiet.pure ())

end anyProbes

/-! ## 4. corollaries used by other properties (`Accepts c m = true` is what a run that got past `validate` knows) -/

theorem accepts_flagsOk {c : Cli} {m : Bool} (h : Accepts c m = true) : FlagsOk c = true := by
  unfold Accepts at h; exact (Bool.and_eq_true_iff.mp h).1

theorem flagsOk_parts {c : Cli} (h : FlagsOk c = true) :
    minMaxOk c = true ∧ comparisonCount c ≤ 1 ∧ c.delete_threshold ≤ 100 ∧ verifyOnlyOk c = true ∧
      bidirectionalOk c = true := by
  unfold FlagsOk at h
  simp only [Bool.and_eq_true, decide_eq_true_eq] at h
  exact ⟨h.1.1.1.1, h.1.1.1.2, h.1.1.2, h.1.2, h.2⟩

/-- **C07**: the guard percentage `--delete-threshold` of an accepted command line is a percentage -/
theorem accepted_delete_threshold_le_100 {c : Cli} {m : Bool} (h : Accepts c m = true) : c.delete_threshold ≤ 100 :=
  (flagsOk_parts (accepts_flagsOk h)).2.2.1

/-- **C15**: an accepted `--verify-only` run has no `--delete`, no `--dry-run`, no `--watch` and is not bidirectional -/
theorem accepted_verify_only_is_read_only {c : Cli} {m : Bool} (h : Accepts c m = true) (hv : c.verify_only = true) :
    c.delete = false ∧ c.dry_run = false ∧ c.watch = false ∧ c.bidirectional = false := by
  obtain ⟨_, _, _, hvo, hbi⟩ := flagsOk_parts (accepts_flagsOk h)
  unfold verifyOnlyOk at hvo
  unfold bidirectionalOk at hbi
  rw [hv] at hvo hbi
  cases hd : c.delete <;> cases hw : c.watch <;> cases hr : c.dry_run <;> cases hb : c.bidirectional <;>
    simp_all

/-- **C01**: at most one of the three comparison flags is set … -/
theorem accepted_at_most_one_comparison {c : Cli} {m : Bool} (h : Accepts c m = true) :
    ¬ (c.checksum = true ∧ c.size_only = true) ∧ ¬ (c.checksum = true ∧ c.ignore_times = true) ∧
      ¬ (c.size_only = true ∧ c.ignore_times = true) := by
  have h1 := (flagsOk_parts (accepts_flagsOk h)).2.1
  unfold comparisonCount at h1
  cases hi : c.ignore_times <;> cases hs : c.size_only <;> cases hc : c.checksum <;> simp_all

/-- the comparison rule a set of flags selects (src/main.rs / sync/strategy.rs: checksum, size-only, ignore-times,
    else the default mtime+size rule) -/
inductive ComparisonRule where
  | default | ignoreTimes | sizeOnly | checksum
  deriving DecidableEq, Repr

/-- `r` is a rule the flags ask for -/
def Selects (c : Cli) : ComparisonRule → Prop
  | .ignoreTimes => c.ignore_times = true
  | .sizeOnly => c.size_only = true
  | .checksum => c.checksum = true
  | .default => c.ignore_times = false ∧ c.size_only = false ∧ c.checksum = false

/-- … so **the "active comparison rule" of an accepted command line is well defined**: exactly one rule is selected -/
theorem accepted_comparison_rule_well_defined {c : Cli} {m : Bool} (h : Accepts c m = true) :
    ∃ r, Selects c r ∧ ∀ r', Selects c r' → r' = r := by
  obtain ⟨h1, h2, h3⟩ := accepted_at_most_one_comparison h
  cases hi : c.ignore_times <;> cases hs : c.size_only <;> cases hc : c.checksum
  · exact ⟨.default, ⟨hi, hs, hc⟩, fun r' hr => by cases r' <;> simp_all [Selects]⟩
  · exact ⟨.checksum, hc, fun r' hr => by cases r' <;> simp_all [Selects]⟩
  · exact ⟨.sizeOnly, hs, fun r' hr => by cases r' <;> simp_all [Selects]⟩
  · exact absurd ⟨hc, hs⟩ h1
  · exact ⟨.ignoreTimes, hi, fun r' hr => by cases r' <;> simp_all [Selects]⟩
  · exact absurd ⟨hc, hi⟩ h2
  · exact absurd ⟨hs, hi⟩ h3
  · exact absurd ⟨hc, hs⟩ h1

/-- **C16**: accepted size bounds are ordered (the hypothesis `sizeBoundsValid` of the C16 model) -/
theorem accepted_min_le_max {c : Cli} {m : Bool} (h : Accepts c m = true) (mn mx : Nat)
    (h1 : c.min_size = some mn) (h2 : c.max_size = some mx) : mn ≤ mx := by
  have := (flagsOk_parts (accepts_flagsOk h)).1
  unfold minMaxOk at this
  rw [h1, h2] at this
  simpa using this

/-- **C11**: an accepted bidirectional run has a percentage for `--max-delete`, one of the six strategy names, and is
    neither `--verify-only` nor `--watch` -/
theorem accepted_bidirectional {c : Cli} {m : Bool} (h : Accepts c m = true) (hb : c.bidirectional = true) :
    c.max_delete ≤ 100 ∧ c.conflict_resolve ∈ validStrategies ∧ c.verify_only = false ∧ c.watch = false := by
  have := (flagsOk_parts (accepts_flagsOk h)).2.2.2.2
  unfold bidirectionalOk at this
  rw [hb] at this
  simp only [Bool.not_true, Bool.false_or, Bool.and_eq_true, decide_eq_true_eq, Bool.not_eq_true',
    List.contains_iff_mem] at this
  exact ⟨this.1.1.1, this.1.1.2, this.1.2, this.2⟩

/-! ## 5. the strategy names: `validate`, the constants table, `ConflictResolution::from_str` -/

/-- the list in `validate` is the list the model's table is generated from (`Generated/Consts.lean`, extracted from
    the same line of src/cli.rs by tools/extract_consts.py) -/
theorem valid_strategies_eq_consts : validStrategies = Generated.BISYNC_STRATEGIES.map String.toList := by decide

/-- the literal list inside the GENERATED `validate` is that list as well (`contains_valid` is used by
    `validate_eq_spec`, so a seventh name in src/cli.rs breaks the bridge) -/
theorem generated_list_eq_consts :
    [['n', 'e', 'w', 'e', 'r'], ['l', 'a', 'r', 'g', 'e', 'r'], ['s', 'm', 'a', 'l', 'l', 'e', 'r'],
      ['s', 'o', 'u', 'r', 'c', 'e'], ['d', 'e', 's', 't'], ['r', 'e', 'n', 'a', 'm', 'e']] =
      Generated.BISYNC_STRATEGIES.map String.toList := by decide

/-- **every strategy name `validate` accepts is parsed by the translated `ConflictResolution::from_str`** -/
theorem from_str_of_valid_name (s : Rs.Str) (h : s ∈ validStrategies) :
    (Generated.Bisync.ConflictResolution.from_str s).isSome = true := by
  rw [GenBisync.from_str_isSome_iff, ← valid_strategies_eq_consts]
  have hl : Generated.Rs.to_lowercase s = s := by
    simp only [validStrategies, List.mem_cons, List.not_mem_nil, or_false] at h
    rcases h with rfl | rfl | rfl | rfl | rfl | rfl <;> decide
  rw [hl]; exact h

/-- an accepted bidirectional command line's strategy parses -/
theorem accepted_strategy_parses {c : Cli} {m : Bool} (h : Accepts c m = true) (hb : c.bidirectional = true) :
    (Generated.Bisync.ConflictResolution.from_str c.conflict_resolve).isSome = true :=
  from_str_of_valid_name _ (accepted_bidirectional h hb).2.1

/-- the exact relation: `from_str` accepts `s` iff the LOWER-CASED `s` is a name `validate` accepts; for a name that
    is already lower case the two agree -/
theorem from_str_isSome_iff_valid (s : Rs.Str) :
    (Generated.Bisync.ConflictResolution.from_str s).isSome = true ↔ Generated.Rs.to_lowercase s ∈ validStrategies := by
  rw [GenBisync.from_str_isSome_iff, valid_strategies_eq_consts]

/-- OBSERVATION: `from_str` is case-insensitive, `validate` is not — `NEWER` parses but is rejected by `validate`
    (harmless: `validate` runs first, src/main.rs; the parser is the more liberal one) -/
theorem from_str_accepts_more_than_validate :
    (Generated.Bisync.ConflictResolution.from_str "NEWER".toList).isSome = true ∧
      "NEWER".toList ∉ validStrategies := by decide

/-! ## 6. non-vacuity -/

/-- the defaults of the command line (`--delete-threshold 50`, `--max-delete 50`, `--conflict-resolve newer`) with
    both paths given -/
def exCli : Cli :=
  { min_size := none, max_size := none, ignore_times := false, size_only := false, checksum := false,
    delete_threshold := 50, verify_only := false, delete := false, watch := false, dry_run := false,
    bidirectional := false, max_delete := 50, conflict_resolve := "newer".toList, list_profiles := false,
    show_profile := none, profile := none, source := some {}, destination := some {} }

/-- probes over a trivial world: the source is local and `pathExists` says whether it exists -/
def exProbes (pathExists : Bool) : Ext Unit where
  syncpath_is_local _ := pure true
  syncpath_path _ := pure "/s".toList
  path_exists _ := pure pathExists

example : Accepts exCli false = true := by decide
example : Accepts exCli true = false := by decide
example : Accepts { exCli with verify_only := true } false = true := by decide
example : Accepts { exCli with verify_only := true, dry_run := true } false = false := by decide
example : Accepts { exCli with bidirectional := true } false = true := by decide
example : Accepts { exCli with bidirectional := true, conflict_resolve := "NEWER".toList } false = false := by decide
example : Accepts { exCli with delete_threshold := 100 } false = true := by decide
example : Accepts { exCli with delete_threshold := 101 } false = false := by decide
example : Accepts { exCli with checksum := true, size_only := true } false = false := by decide
example : Accepts { exCli with min_size := some 5, max_size := some 5 } false = true := by decide
example : Accepts { exCli with source := none, list_profiles := true } true = true := by decide
/-- the translated function, run by the kernel -/
example : run (Cli.validate (exProbes true) exCli) () = (.ok (), ()) := by rfl
example : run (Cli.validate (exProbes false) exCli) () = (.error cfgErr, ()) := by rfl
example : run (Cli.validate (exProbes true) { exCli with verify_only := true, delete := true }) () =
    (.error cfgErr, ()) := by rfl
/-- boundary and conflict cases, run by the kernel on the TRANSLATED function (independent of `validate_eq_spec`) -/
theorem run_threshold_100_accepted :
    run (Cli.validate (exProbes true) { exCli with delete_threshold := 100 }) () = (.ok (), ()) := by rfl
theorem run_threshold_101_rejected :
    run (Cli.validate (exProbes true) { exCli with delete_threshold := 101 }) () = (.error cfgErr, ()) := by rfl
theorem run_verify_only_dry_run_rejected :
    run (Cli.validate (exProbes true) { exCli with verify_only := true, dry_run := true }) () =
      (.error cfgErr, ()) := by rfl
theorem run_seventh_strategy_rejected :
    run (Cli.validate (exProbes true) { exCli with bidirectional := true, conflict_resolve := "skip".toList }) () =
      (.error cfgErr, ()) := by rfl
theorem run_bidirectional_verify_only_rejected :
    run (Cli.validate (exProbes true) { exCli with bidirectional := true, verify_only := true }) () =
      (.error cfgErr, ()) := by rfl
theorem run_bidirectional_rename_accepted :
    run (Cli.validate (exProbes true) { exCli with bidirectional := true, conflict_resolve := "rename".toList }) () =
      (.ok (), ()) := by rfl
example : ProbesAnswer (exProbes true) exCli () false := ⟨true, (), rfl, "/s".toList, (), true, (), rfl, rfl, rfl⟩
example : ProbesAnswer (exProbes false) exCli () true := ⟨true, (), rfl, "/s".toList, (), false, (), rfl, rfl, rfl⟩
example (b : Bool) : ProbesReadOnly (exProbes b) := ⟨fun _ _ => rfl, fun _ _ => rfl, fun _ _ => rfl⟩
example : FlagsOk { exCli with delete_threshold := 101 } = false := by decide
example : FlagsOk exCli = true ∧ profileQuery { exCli with list_profiles := true } = true := by decide

end SyModel.Props.GenCliValidate
