/-
  GenGuards — the translated arithmetic of the two deletion guards
    * `SyncEngine::sync`, mass-deletion guard (src/sync/mod.rs): `delete_percentage`, `threshold_exceeded`
    * `check_deletion_limit` (src/bisync/engine.rs): `bisync_deletion_percent`, `bisync_limit_exceeded`
  (fragments regenerated into `SyModel/Generated/Code/Guards.lean` on every run, `f64` idealised as `Rat`)
  is the integer cross-multiplied test of the handwritten models: `Engine.guardRefuses` (what C07 is about)
  and `Bisync.deletionLimitExceeded`.

  Abstraction map.
    * the deletion list `Vec<SyncTask>` ↦ its length (the fragment reads `deletions.len()` only);
    * `SyncEngineView ↦ Cfg`: `delete_threshold ↦ threshold`; `force_delete` is not read by the two fragments
      (the `!self.force_delete` test encloses them in the source and is a separate conjunct of `guardRefuses`);
    * `f64 ↦ Rat`: exact.  The model keeps the one place where `f64` and ℚ can differ — exact equality
      `dels·100 = thr·cnt`, where the rounded quotient·100 can land on either side — as the free boolean `Cfg.tie`
      (resp. the separate predicate `Bisync.deletionTie`); the idealised code is the instance `tie = false`.
  Hypothesis: `0 < dest_file_count` / `total_files ≠ 0` — both fragments are guarded by exactly that test in the
  source (`if dest_file_count > 0 {…}`, `if total_files == 0 { return Ok(()) }`), so the excluded input never
  reaches them; the `*_guard_eq_model` theorems put the test back and hold for ALL inputs.
-/
import SyModel.Generated.Code.Guards
import SyModel.Engine.Model
import SyModel.Bisync.Exec
namespace SyModel.Props.GenGuards
open SyModel SyModel.Generated SyModel.Generated.Guards

/-! ### `(d as f64 / c as f64) * 100.0 > t as f64` over ℚ is `d·100 > t·c` over ℕ -/

theorem cast_nat_rat (n : Nat) : (Rs.cast n : Rat) = (n : Rat) := rfl

theorem percent_gt_iff (d c t : Nat) (hc : 0 < c) :
    ((d : Rat) / (c : Rat)) * (100 : Rat) > (t : Rat) ↔ d * 100 > t * c := by
  have hc' : (0 : Rat) < (c : Rat) := Rat.natCast_pos.mpr hc
  have h100 : ((100 : Nat) : Rat) = (100 : Rat) := rfl
  have h1 : ((d : Rat) / (c : Rat)) * (100 : Rat) = ((d * 100 : Nat) : Rat) / (c : Rat) := by
    rw [Rat.natCast_mul, h100, Rat.div_def, Rat.div_def, Rat.mul_assoc, Rat.mul_assoc,
      Rat.mul_comm (c : Rat)⁻¹ (100 : Rat)]
  show (t : Rat) < _ ↔ t * c < d * 100
  rw [h1, Rat.lt_div_iff hc', ← Rat.natCast_mul, Rat.natCast_lt_natCast]

/-! ### BRIDGE: the mass-deletion guard of `SyncEngine::sync` -/

/-- the two fragments composed, on any engine, any deletion list and any positive destination count. -/
theorem threshold_exceeded_eq_model (e : SyncEngineView) (dels : List Rs.Opaque) (cnt : Nat) (hcnt : 0 < cnt) :
    threshold_exceeded e (delete_percentage dels cnt) =
      decide (dels.length * 100 > e.delete_threshold * cnt) := by
  unfold threshold_exceeded delete_percentage
  simp only [cast_nat_rat, Rs.len]
  exact decide_eq_decide.mpr (percent_gt_iff dels.length cnt e.delete_threshold hcnt)

/-- the engine view a model configuration stands for. -/
def viewOf (cfg : Engine.Cfg) : SyncEngineView := ⟨cfg.threshold, cfg.force⟩

/-- the model's whole guard, for ALL inputs (including `cnt = 0`), with the fragments in the place the source has
    them: inside `if self.delete && !self.force_delete`, `if !deletions.is_empty()`, `if dest_file_count > 0`.
    The last disjunct is the `f64` tie the idealisation cannot see (`cfg.tie = false` in ℚ). -/
theorem mass_deletion_guard_eq_model (cfg : Engine.Cfg) (dels : List Rs.Opaque) (cnt : Nat) :
    Engine.guardRefuses cfg dels.length cnt =
      (cfg.delete && !cfg.force && decide (0 < dels.length) && decide (0 < cnt) &&
        (threshold_exceeded (viewOf cfg) (delete_percentage dels cnt) ||
          (decide (dels.length * 100 = cfg.threshold * cnt) && cfg.tie))) := by
  unfold Engine.guardRefuses
  by_cases hcnt : 0 < cnt
  · rw [threshold_exceeded_eq_model _ _ _ hcnt]; rfl
  · simp [hcnt]

/-- with exact arithmetic (`tie = false`) the model's guard is the translated code and nothing else. -/
theorem mass_deletion_guard_exact (cfg : Engine.Cfg) (htie : cfg.tie = false) (dels : List Rs.Opaque) (cnt : Nat) :
    Engine.guardRefuses cfg dels.length cnt =
      (cfg.delete && !cfg.force && decide (0 < dels.length) && decide (0 < cnt) &&
        threshold_exceeded (viewOf cfg) (delete_percentage dels cnt)) := by
  rw [mass_deletion_guard_eq_model, htie]; simp

/-! ### BRIDGE: bisync's `check_deletion_limit` -/

theorem bisync_limit_exceeded_eq_model (dels total maxDelete : Nat) (htotal : total ≠ 0) :
    bisync_limit_exceeded (bisync_deletion_percent dels total) maxDelete =
      decide (dels * 100 > maxDelete * total) := by
  unfold bisync_limit_exceeded bisync_deletion_percent
  simp only [cast_nat_rat]
  exact decide_eq_decide.mpr (percent_gt_iff dels total maxDelete (Nat.pos_of_ne_zero htotal))

/-- the model's limit test, for ALL change lists and limits, with the fragments after the two early returns
    (`max_delete_percent == 0`, `total_files == 0`) as in the source. -/
theorem check_deletion_limit_eq_model (changes : List Bisync.Change) (maxDelete : Nat) :
    Bisync.deletionLimitExceeded changes maxDelete =
      (maxDelete ≠ 0 && changes.length ≠ 0 &&
        bisync_limit_exceeded
          (bisync_deletion_percent (changes.filter (·.ctype.isDeletion)).length changes.length) maxDelete) := by
  unfold Bisync.deletionLimitExceeded
  by_cases ht : changes.length = 0
  · simp [ht]
  · rw [bisync_limit_exceeded_eq_model _ _ _ ht]

end SyModel.Props.GenGuards
