/-
  C02 — Sync never modifies the source tree or anything outside the destination.
  Property theorems only.
-/
import SyModel.Engine.Escape
import SyModel.Lemmas.Engine
import SyModel.Lemmas.EngineFilter
import SyModel.Lemmas.EngineContain
import SyModel.Props.C01
import SyModel.Generated.Consts
namespace SyModel.Props.C02
open SyModel SyModel.Engine

/-- the policy the current source implements (flags regenerated from the Rust source each run) -/
def currentPolicy : Policy :=
  ⟨Generated.COPY_REMOVES_DEST_SYMLINK == 2, Generated.UPDATE_ROUTES_SYMLINKS_TO_HANDLER,
   Generated.CREATE_SYMLINK_REPLACES_ENTRY, Generated.PLANNER_FORCES_UPDATE_OVER_DEST_LINK⟩

/-- both copy entry points remove a destination symlink first, `update` handles link sources,
    `create_symlink` replaces, and the planner never accepts a link as an up-to-date file -/
theorem consts_ok_policy : currentPolicy = Policy.repaired := by decide

/-- **Every write of every task lands inside the destination root**, whatever the destination
    contains (links to the source, to the outside, dangling, chained: any resolver), for every
    configuration — under the repaired policy. -/
theorem steps_write_inside (res : Resolver) (cfg : Cfg) (dst : Map DNode) (t : Task) :
    ∀ r ∈ writeFootprint Policy.repaired res cfg dst t, r.region = .dst := by
  intro r hr
  unfold writeFootprint at hr
  split at hr
  · cases hr
  · split at hr
    · cases hr
    · simp at hr; rw [hr]
    · cases hr
    · simp only [List.mem_map] at hr; obtain ⟨_, _, rfl⟩ := hr; rfl
    · simp only [Policy.repaired, Bool.and_self, ↓reduceIte, List.mem_map] at hr
      obtain ⟨_, _, rfl⟩ := hr; rfl
    · simp only [Policy.repaired, ↓reduceIte, List.mem_append, List.mem_map, List.mem_singleton] at hr
      rcases hr with ⟨_, _, rfl⟩ | rfl <;> rfl

/-- … in particular for the policy regenerated from the current source. -/
theorem steps_write_inside_current (res : Resolver) (cfg : Cfg) (dst : Map DNode) (t : Task) :
    ∀ r ∈ writeFootprint currentPolicy res cfg dst t, r.region = .dst := by
  rw [consts_ok_policy]; exact steps_write_inside res cfg dst t

/-- all writes of a whole run -/
def runFootprint (pol : Policy) (res : Resolver) (cfg : Cfg) (flt : Faults) (tasks : List Task) (st : Exec) : List Ref :=
  match tasks with
  | [] => []
  | t :: ts => writeFootprint pol res cfg st.w.dst t ++ runFootprint pol res cfg flt ts (execTask cfg flt st t)

/-- **C02, one run**: every location written during a run — evaluated against the destination as
    it is when each task starts, so links placed earlier in the same run are covered — lies in
    the destination. -/
theorem run_writes_inside (res : Resolver) (cfg : Cfg) (flt : Faults) (tasks : List Task) (st : Exec) :
    ∀ r ∈ runFootprint Policy.repaired res cfg flt tasks st, r.region = .dst := by
  induction tasks generalizing st with
  | nil => intro r hr; cases hr
  | cons t ts ih =>
    intro r hr
    simp only [runFootprint, List.mem_append] at hr
    rcases hr with h | h
    · exact steps_write_inside res cfg st.w.dst t r h
    · exact ih _ r h

/-- **C02, any history**: for any sequence of k ≥ 0 runs with any flag sets over any sequence of
    source scans (repeated runs over an already synced destination included), nothing outside the
    destination is written.  A dry run writes nothing at all. -/
def historyFootprint (pol : Policy) (res : Resolver) : List (Cfg × Faults × List SEntry) → Map DNode → Nat → List Ref
  | [], _, _ => []
  | (cfg, flt, scan) :: rest, dst, n =>
    runFootprint pol res cfg flt (plan cfg scan dst) (initExec dst n) ++
      historyFootprint pol res rest (runF cfg flt scan dst n).dst (n + 1000000)

theorem C02 (res : Resolver) (h : List (Cfg × Faults × List SEntry)) (dst : Map DNode) (n : Nat) :
    ∀ r ∈ historyFootprint Policy.repaired res h dst n, r.region = .dst := by
  induction h generalizing dst n with
  | nil => intro r hr; cases hr
  | cons x rest ih =>
    obtain ⟨cfg, flt, scan⟩ := x
    intro r hr
    simp only [historyFootprint, List.mem_append] at hr
    rcases hr with h1 | h2
    · exact run_writes_inside res cfg flt _ _ r h1
    · exact ih _ _ r h2

theorem dry_run_writes_nothing (pol : Policy) (res : Resolver) (cfg : Cfg) (hd : cfg.dryRun = true) (flt : Faults)
    (tasks : List Task) (st : Exec) : runFootprint pol res cfg flt tasks st = [] := by
  induction tasks generalizing st with
  | nil => rfl
  | cons t ts ih => simp [runFootprint, writeFootprint, hd, ih]

/-! ### a destination link standing where the source has a directory is replaced, never followed (fix 862af11) -/

/-- **No task enters a link's target.**  On the PLAN: for every planned task `t` and every proper (non-root) prefix `q`
    of its path, if the destination holds a symlink at `q` then the plan contains the replacement of that link by a
    directory — the task `update q` with a directory payload — and it comes BEFORE `t`.  So the only planned paths
    below a destination link are below a link that the same plan replaces first; nothing is ever compared with, or
    written into, what a link points to.  Hypotheses: the scan lists parents first and no path twice (what a walk
    yields), the destination listing is a tree (`DstParentClosed`: nothing is listed BELOW a link — links are not
    resolved by the listing). -/
theorem link_target_never_entered (cfg : Cfg) (scan : List SEntry) (dst : Map DNode)
    (hu : UniqueRels scan) (hpf : ParentsFirst scan) (hc : DstParentClosed dst) :
    ∀ t ∈ plan cfg scan dst, ∀ q, q ≠ [] → isPrefix q t.rel = true → q ≠ t.rel →
      ∀ s, dst.get? q = some (.symlink s) →
        ∃ pre post, plan cfg scan dst = pre ++ t :: post ∧ (⟨.update, q, .dir⟩ : Task) ∈ pre := by
  intro t ht q hq0 hqp hqne s hs
  by_cases hdel : t.act = .delete
  · -- a planned deletion is a listed destination path: its ancestors are directories, not links
    exfalso
    obtain ⟨_, htd⟩ := deletion_of_task ht hdel
    obtain ⟨p, rfl, hk, _⟩ := mem_planDeletions.1 htd
    have := hc p hk q (mem_ancestors.2 ⟨hq0, hqp, hqne⟩)
    rw [hs] at this; cases this
  · obtain ⟨e, he, rfl⟩ := entry_of_task ht hdel
    rw [planEntry_rel] at hqp hqne
    obtain ⟨d, A, B, hsplit, hdr, hdk, heB⟩ :=
      selected_ancestor_before hu hpf he (mem_ancestors.2 ⟨hq0, hqp, hqne⟩)
    obtain ⟨B1, B2, hB⟩ := List.append_of_mem heB
    have hpd : planEntry cfg dst d = ⟨.update, q, .dir⟩ := by
      unfold planEntry; simp only [hdk, hdr, hs]
    refine ⟨A.map (planEntry cfg dst) ++ planEntry cfg dst d :: B1.map (planEntry cfg dst),
      B2.map (planEntry cfg dst) ++ (if cfg.delete then planDeletions (scanFilter cfg scan) scan dst else []), ?_, ?_⟩
    · rw [plan_eq, hsplit, hB]; simp
    · rw [hpd]; simp

/-- **C01's postcondition WITHOUT excluding this configuration.**  If the destination holds a symlink at the path of
    a selected source directory `d` (an earlier run placed it when the source entry was still a link), then after a
    (non-dry) run that exits 0 — under EVERY fault plan — that path is a directory, the replacement is in the report as
    an `update`, and every selected entry below it exists with the source's data: directories as directories, regular
    files (and followed links to files) with the source's content, size and mtime, preserved links with the source's
    text.  Nothing below the link existed in the destination listing (`DstParentClosed`), so every file below it is
    transferred, whatever the comparison rule. -/
theorem dir_over_own_link_replaced_faults (cfg : Cfg) (hnd : cfg.dryRun = false) (flt : Faults) (scan : List SEntry)
    (dst : Map DNode) (n : Nat) (hu : UniqueRels scan)
    (hdel : cfg.delete = true → ParentClosed scan ∧ dst.get? [] = none)
    (hino : cfg.hardlinks = true → InoConsistent scan) (hc : DstParentClosed dst)
    (d : SEntry) (hd : d ∈ scanFilter cfg scan) (hk : d.kind = .dir) (hne : d.rel ≠ [])
    (s : String) (hl : dst.get? d.rel = some (.symlink s))
    (hok : (runF cfg flt scan dst n).exit = 0) :
    (runF cfg flt scan dst n).dst.get? d.rel = some .dir ∧
    (Act.update, d.rel) ∈ (runF cfg flt scan dst n).events ∧
    ∀ e ∈ scanFilter cfg scan, isPrefix d.rel e.rel = true → e.rel ≠ d.rel →
      dst.get? e.rel = none ∧
      (e.kind = .dir → (runF cfg flt scan dst n).dst.get? e.rel = some .dir) ∧
      (∀ m k, e.kind = .file m k → ∃ f, (runF cfg flt scan dst n).dst.get? e.rel = some (.file f) ∧
        C01.Carries cfg f m) ∧
      (∀ text tgt, e.kind = .symlink text tgt → cfg.links = .preserve →
        (runF cfg flt scan dst n).dst.get? e.rel = some (.symlink text)) ∧
      (∀ text m, e.kind = .symlink text (.file m) → cfg.links = .follow →
        ∃ f, (runF cfg flt scan dst n).dst.get? e.rel = some (.file f) ∧ C01.Carries cfg f m) := by
  have hC := C01.C01 cfg hnd flt scan dst n hu hdel hino hok
  refine ⟨(hC d hd).1 hk hne, ?_, fun e he hp hner => ?_⟩
  · -- the replacement completed: its event is in the report
    have hr := (runF_exit_zero hok).1
    have hact : (planEntry cfg dst d).act = .update := by
      unfold planEntry; simp only [hk, hl]
    rw [← hact]
    exact (event_iff_taskOk hu hd hr).2 (taskOk_of_exit_zero hok (planEntry_mem_plan hd))
  · -- nothing is listed below a link
    have habs : dst.get? e.rel = none := by
      cases hg : dst.get? e.rel with
      | none => rfl
      | some v =>
        have := hc.anc (by rw [hg]; simp) hne hp (Ne.symm hner)
        rw [hl] at this; cases this
    obtain ⟨h1, h2, h3, h4, _⟩ := hC e he
    have hne0 : e.rel ≠ [] := by
      intro h0
      rw [h0] at hp
      cases hdr : d.rel with
      | nil => exact hne hdr
      | cons a r => rw [hdr] at hp; simp [isPrefix] at hp
    refine ⟨habs, fun hk' => h1 hk' hne0, fun m k hk' => ?_, h3, fun text m hk' hl' => ?_⟩
    · obtain ⟨f, hf, hcar⟩ := h2 m k hk'
      exact ⟨f, hf, hcar (by rw [habs]; simp [planFileAct])⟩
    · obtain ⟨f, hf, hcar⟩ := h4 text m hk' hl'
      exact ⟨f, hf, hcar (by rw [habs]; simp [planFileAct])⟩

/-- … in particular for every fault-free run of the model (`run`). -/
theorem dir_over_own_link_replaced (cfg : Cfg) (hnd : cfg.dryRun = false) (scan : List SEntry)
    (dst : Map DNode) (n : Nat) (hu : UniqueRels scan)
    (hdel : cfg.delete = true → ParentClosed scan ∧ dst.get? [] = none)
    (hino : cfg.hardlinks = true → InoConsistent scan) (hc : DstParentClosed dst)
    (d : SEntry) (hd : d ∈ scanFilter cfg scan) (hk : d.kind = .dir) (hne : d.rel ≠ [])
    (s : String) (hl : dst.get? d.rel = some (.symlink s))
    (hok : (run cfg scan dst n).exit = 0) :
    (run cfg scan dst n).dst.get? d.rel = some .dir ∧
    (Act.update, d.rel) ∈ (run cfg scan dst n).events ∧
    ∀ e ∈ scanFilter cfg scan, isPrefix d.rel e.rel = true → e.rel ≠ d.rel →
      dst.get? e.rel = none ∧
      (e.kind = .dir → (run cfg scan dst n).dst.get? e.rel = some .dir) ∧
      (∀ m k, e.kind = .file m k → ∃ f, (run cfg scan dst n).dst.get? e.rel = some (.file f) ∧
        C01.Carries cfg f m) ∧
      (∀ text tgt, e.kind = .symlink text tgt → cfg.links = .preserve →
        (run cfg scan dst n).dst.get? e.rel = some (.symlink text)) ∧
      (∀ text m, e.kind = .symlink text (.file m) → cfg.links = .follow →
        ∃ f, (run cfg scan dst n).dst.get? e.rel = some (.file f) ∧ C01.Carries cfg f m) :=
  dir_over_own_link_replaced_faults cfg hnd noFaults scan dst n hu hdel hino hc d hd hk hne s hl hok

/-! #### non-vacuity: the configuration of the differential check (tools: `model862_diff.py`) -/

/-- source `a.txt`, `d/`, `d/f.txt`, `d/keep.txt`; destination `a.txt` (up to date) and the link `d -> ../outside` -/
def lnkScan : List SEntry :=
  [ ⟨["a.txt"], .file (exMeta 1 2 5000000000 11) 1, 2, false⟩,
    ⟨["d"], .dir, 4096, false⟩,
    ⟨["d", "f.txt"], .file (exMeta 2 2 6000000000 12) 1, 2, false⟩,
    ⟨["d", "keep.txt"], .file (exMeta 3 5 7000000000 13) 1, 5, false⟩ ]

def lnkDst : Map DNode := [ (["a.txt"], .file (exMeta 1 2 5000000000 90)), (["d"], .symlink "../outside") ]

def lnkCfg : Cfg := { C01.cxCfg with xattrs := true }

example : UniqueRels lnkScan := by decide
example : ParentsFirst lnkScan := by decide
example : DstParentClosed lnkDst := by decide
example : (run lnkCfg lnkScan lnkDst 100).exit = 0 := by decide

/-- the plan: skip `a.txt`, REPLACE `d` (update), create both files below it -/
example : (plan lnkCfg lnkScan lnkDst).map (fun t => (t.act, t.rel)) =
    [(.skip, ["a.txt"]), (.update, ["d"]), (.create, ["d", "f.txt"]), (.create, ["d", "keep.txt"])] := by decide

/-- `link_target_never_entered` applied: `d/keep.txt` lies below the link `d`, and the replacement of `d` precedes it -/
example : ∃ pre post, plan lnkCfg lnkScan lnkDst = pre ++ (⟨.create, ["d", "keep.txt"],
    .file (exMeta 3 5 7000000000 13) 1⟩ : Task) :: post ∧ (⟨.update, ["d"], .dir⟩ : Task) ∈ pre :=
  link_target_never_entered lnkCfg lnkScan lnkDst (by decide) (by decide) (by decide) _ (by decide) ["d"]
    (by decide) (by decide) (by decide) "../outside" (by decide)

/-- `dir_over_own_link_replaced` applied: `d` is a directory afterwards and `d/keep.txt` carries the source's data -/
example : (run lnkCfg lnkScan lnkDst 100).dst.get? ["d"] = some .dir ∧
    ∃ f, (run lnkCfg lnkScan lnkDst 100).dst.get? ["d", "keep.txt"] = some (.file f) ∧
      C01.Carries lnkCfg f (exMeta 3 5 7000000000 13) := by
  have h := dir_over_own_link_replaced lnkCfg rfl lnkScan lnkDst 100 (by decide) (fun h => by cases h)
    (fun h => by cases h) (by decide) ⟨["d"], .dir, 4096, false⟩ (by decide) rfl (by decide) "../outside" (by decide)
    (by decide)
  exact ⟨h.1, (h.2.2 ⟨["d", "keep.txt"], .file (exMeta 3 5 7000000000 13) 1, 5, false⟩ (by decide) (by decide)
    (by decide)).2.2.1 _ _ rfl⟩

/-- the hypothesis `DstParentClosed` is not trivially true: a listing with an entry below a link is not a tree -/
example : ¬ DstParentClosed [(["d"], .symlink "x"), (["d", "f"], .dir)] := by decide

/-! ### the pinned code wrote through its own links (fixed in /repo commit 0eacf0e) -/

/-- Run 2 of DESIGN Appendix A1: the destination holds the preserved absolute link
    `abs_link -> <src>/data.txt`; the source link is planned for update (its size is compared with
    the *target's*), and under the pinned policy the copy opens the link's target: the source file. -/
theorem own_links_written_through_counterexample_pinned :
    let res : Resolver := fun _ t => if t = "/src/data.txt" then some ⟨.src, ["data.txt"]⟩ else none
    let dst : Map DNode := [(["abs_link"], .symlink "/src/data.txt")]
    let t : Task := ⟨.update, ["abs_link"], .symlink "/src/data.txt"⟩
    let cfg : Cfg := { delete := false, force := false, dryRun := false, xattrs := false, hardlinks := false,
                       threshold := 50, links := .preserve, compare := .default, minSize := none,
                       maxSize := none, maxErrors := 100, tie := false }
    (⟨.src, ["data.txt"]⟩ : Ref) ∈ writeFootprint Policy.pinned res cfg dst t := by
  decide

/-- … and the same task under the repaired policy stays inside. -/
example :
    let res : Resolver := fun _ t => if t = "/src/data.txt" then some ⟨.src, ["data.txt"]⟩ else none
    let dst : Map DNode := [(["abs_link"], .symlink "/src/data.txt")]
    let t : Task := ⟨.update, ["abs_link"], .symlink "/src/data.txt"⟩
    let cfg : Cfg := { delete := false, force := false, dryRun := false, xattrs := false, hardlinks := false,
                       threshold := 50, links := .preserve, compare := .default, minSize := none,
                       maxSize := none, maxErrors := 100, tie := false }
    writeFootprint Policy.repaired res cfg dst t = [⟨.dst, ["abs_link"]⟩] := by
  decide

end SyModel.Props.C02
