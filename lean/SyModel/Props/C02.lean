/-
  C02 — Sync never modifies the source tree or anything outside the destination.
  Property theorems only.
-/
import SyModel.Engine.Escape
import SyModel.Lemmas.Engine
import SyModel.Generated.Consts
namespace SyModel.Props.C02
open SyModel SyModel.Engine

/-- the policy the current source implements (flags regenerated from the Rust source each run) -/
def currentPolicy : Policy :=
  ⟨Generated.COPY_REMOVES_DEST_SYMLINK == 2, Generated.UPDATE_ROUTES_SYMLINKS_TO_HANDLER,
   Generated.CREATE_SYMLINK_REPLACES_ENTRY, Generated.PLANNER_FORCES_UPDATE_OVER_DEST_LINK⟩

/-- both copy entry points remove a destination symlink first, `update` handles link sources,
    `create_symlink` replaces, and the planner never accepts a link as an up-to-date file -/
theorem consts_ok_policy : currentPolicy = Policy.repaired := by decide

/-- **Every write of every task lands inside the destination root**, whatever the destination
    contains (links to the source, to the outside, dangling, chained: any resolver), for every
    configuration — under the repaired policy. -/
theorem steps_write_inside (res : Resolver) (cfg : Cfg) (dst : Map DNode) (t : Task) :
    ∀ r ∈ writeFootprint Policy.repaired res cfg dst t, r.region = .dst := by
  intro r hr
  unfold writeFootprint at hr
  split at hr
  · cases hr
  · split at hr
    · cases hr
    · simp at hr; rw [hr]
    · cases hr
    · simp only [List.mem_map] at hr; obtain ⟨_, _, rfl⟩ := hr; rfl
    · simp only [Policy.repaired, Bool.and_self, ↓reduceIte, List.mem_map] at hr
      obtain ⟨_, _, rfl⟩ := hr; rfl
    · simp only [Policy.repaired, ↓reduceIte, List.mem_append, List.mem_map, List.mem_singleton] at hr
      rcases hr with ⟨_, _, rfl⟩ | rfl <;> rfl

/-- … in particular for the policy regenerated from the current source. -/
theorem steps_write_inside_current (res : Resolver) (cfg : Cfg) (dst : Map DNode) (t : Task) :
    ∀ r ∈ writeFootprint currentPolicy res cfg dst t, r.region = .dst := by
  rw [consts_ok_policy]; exact steps_write_inside res cfg dst t

/-- all writes of a whole run -/
def runFootprint (pol : Policy) (res : Resolver) (cfg : Cfg) (flt : Faults) (tasks : List Task) (st : Exec) : List Ref :=
  match tasks with
  | [] => []
  | t :: ts => writeFootprint pol res cfg st.w.dst t ++ runFootprint pol res cfg flt ts (execTask cfg flt st t)

/-- **C02, one run**: every location written during a run — evaluated against the destination as
    it is when each task starts, so links placed earlier in the same run are covered — lies in
    the destination. -/
theorem run_writes_inside (res : Resolver) (cfg : Cfg) (flt : Faults) (tasks : List Task) (st : Exec) :
    ∀ r ∈ runFootprint Policy.repaired res cfg flt tasks st, r.region = .dst := by
  induction tasks generalizing st with
  | nil => intro r hr; cases hr
  | cons t ts ih =>
    intro r hr
    simp only [runFootprint, List.mem_append] at hr
    rcases hr with h | h
    · exact steps_write_inside res cfg st.w.dst t r h
    · exact ih _ r h

/-- **C02, any history**: for any sequence of k ≥ 0 runs with any flag sets over any sequence of
    source scans (repeated runs over an already synced destination included), nothing outside the
    destination is written.  A dry run writes nothing at all. -/
def historyFootprint (pol : Policy) (res : Resolver) : List (Cfg × Faults × List SEntry) → Map DNode → Nat → List Ref
  | [], _, _ => []
  | (cfg, flt, scan) :: rest, dst, n =>
    runFootprint pol res cfg flt (plan cfg scan dst) (initExec dst n) ++
      historyFootprint pol res rest (runF cfg flt scan dst n).dst (n + 1000000)

theorem C02 (res : Resolver) (h : List (Cfg × Faults × List SEntry)) (dst : Map DNode) (n : Nat) :
    ∀ r ∈ historyFootprint Policy.repaired res h dst n, r.region = .dst := by
  induction h generalizing dst n with
  | nil => intro r hr; cases hr
  | cons x rest ih =>
    obtain ⟨cfg, flt, scan⟩ := x
    intro r hr
    simp only [historyFootprint, List.mem_append] at hr
    rcases hr with h1 | h2
    · exact run_writes_inside res cfg flt _ _ r h1
    · exact ih _ _ r h2

theorem dry_run_writes_nothing (pol : Policy) (res : Resolver) (cfg : Cfg) (hd : cfg.dryRun = true) (flt : Faults)
    (tasks : List Task) (st : Exec) : runFootprint pol res cfg flt tasks st = [] := by
  induction tasks generalizing st with
  | nil => rfl
  | cons t ts ih => simp [runFootprint, writeFootprint, hd, ih]

/-! ### the pinned code wrote through its own links (fixed in /repo commit 0eacf0e) -/

/-- Run 2 of DESIGN Appendix A1: the destination holds the preserved absolute link
    `abs_link -> <src>/data.txt`; the source link is planned for update (its size is compared with
    the *target's*), and under the pinned policy the copy opens the link's target: the source file. -/
theorem own_links_written_through_counterexample_pinned :
    let res : Resolver := fun _ t => if t = "/src/data.txt" then some ⟨.src, ["data.txt"]⟩ else none
    let dst : Map DNode := [(["abs_link"], .symlink "/src/data.txt")]
    let t : Task := ⟨.update, ["abs_link"], .symlink "/src/data.txt"⟩
    let cfg : Cfg := { delete := false, force := false, dryRun := false, xattrs := false, hardlinks := false,
                       threshold := 50, links := .preserve, compare := .default, minSize := none,
                       maxSize := none, maxErrors := 100, tie := false }
    (⟨.src, ["data.txt"]⟩ : Ref) ∈ writeFootprint Policy.pinned res cfg dst t := by
  decide

/-- … and the same task under the repaired policy stays inside. -/
example :
    let res : Resolver := fun _ t => if t = "/src/data.txt" then some ⟨.src, ["data.txt"]⟩ else none
    let dst : Map DNode := [(["abs_link"], .symlink "/src/data.txt")]
    let t : Task := ⟨.update, ["abs_link"], .symlink "/src/data.txt"⟩
    let cfg : Cfg := { delete := false, force := false, dryRun := false, xattrs := false, hardlinks := false,
                       threshold := 50, links := .preserve, compare := .default, minSize := none,
                       maxSize := none, maxErrors := 100, tie := false }
    writeFootprint Policy.repaired res cfg dst t = [⟨.dst, ["abs_link"]⟩] := by
  decide

end SyModel.Props.C02
