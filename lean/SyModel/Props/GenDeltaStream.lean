/-
  Props.GenDeltaStream — bridge theorems for the translated `generate_delta_streaming` of unit `Delta`
  (`SyModel/Generated/Code/Delta.lean`, regenerated from /repo/src/delta/generator.rs:67-228 on every run; the
  generator sy uses for remote delta sync): run on the documented instance `inst strong` of its `Ext` record
  (Lemmas/GenDelta.lean PART 1, trusted) it computes exactly the handwritten model `SyModel.Delta.genStream` with
  `chunk = 256 * 1024` that the C04 theorems are about; C04 restated about the TRANSLATED streaming generator.
  Property theorems only; helper lemmas live in `SyModel/Lemmas/GenDeltaStream.lean`.
-/
import SyModel.Lemmas.GenDeltaStream
import SyModel.Props.GenDelta
set_option autoImplicit false
namespace SyModel.Props.GenDeltaStream
open SyModel SyModel.Delta SyModel.Generated SyModel.Generated.Delta SyModel.GenDelta SyModel.GenDeltaStream

/-! ### 1. normal form (every `Ext`) -/

/-- NORMAL FORM (every `Ext`): the translated `generate_delta_streaming` is open, `metadata().len()`, the
    empty-file return, the first `read` into a zeroed buffer of `256 * 1024` bytes, then `source_size + 1` rounds
    (`iterM`) of the EFFECTFUL step `streamStep` on the loop state `(ops, literal_buffer, window, chunk_buf,
    bytes_read, rolling, window_pos, _file_pos)` — a round performs at most one effect, the refill `read` — and the
    final flush.  This is the only theorem that depends on the SHAPE of the generated code; everything below is
    about `streamStep` / `streamResult`. -/
theorem generate_delta_streaming_normal_form {W : Type} (ext : Ext W) (p : Rs.Path) (cs : List BlockChecksum)
    (bs : Nat) :
    generate_delta_streaming ext p cs bs =
      (ext.File_open p >>= fun h => ext.h_metadata h >>= fun md =>
        if (Rs.len md == 0) = true then pure { ops := [], source_size := 0, block_size := bs }
        else
          ext.h_read h (List.replicate (256 * 1024) 0) >>= fun r1 =>
            iterM (streamStep ext (buildMap cs) h bs) (Rs.len md + 1) (streamInitA Acc.rs ext bs r1) >>= fun s =>
              pure { ops := flushG s.1 s.2.1, source_size := Rs.len md, block_size := bs }) :=
  generate_delta_streaming_nf ext p cs bs

/-- a `for _ in [0:n]` loop whose body is an effectful step with `break` is `iterM` (the loop lemma the normal form
    rests on) -/
theorem forIn_range_effectful {m : Type → Type} [Monad m] [LawfulMonad m] {σ : Type} (n : Nat) (s : σ)
    (f : Nat → σ → m (ForInStep σ)) (step : σ → m (ForInStep σ)) (h : ∀ a s, f a s = step s) :
    forIn [0:n] s f = iterM step n s :=
  forIn_range_M n s f step h

/-- the shape of a round (every `Ext`): below the loop condition it is ONE ROUND OF THE IN-MEMORY GENERATOR on the
    window (`memStep` of Props/GenDelta with `source_data := window`, `pos := window_pos`) followed by the refill;
    at or beyond it, `break` without effect -/
theorem streaming_round_shape {W : Type} (ext : Ext W) (cmap : Rs.HashMap Nat (List BlockChecksum)) (h bs : Nat)
    (ops : List DeltaOp) (lit window chunk_buf : List Nat) (bytes_read : Nat) (rolling : RollSt) (wpos fpos : Nat) :
    (wpos < window.length →
      streamStep ext cmap h bs (ops, lit, window, chunk_buf, bytes_read, rolling, wpos, fpos) =
        refillA Acc.rs ext h bs (stepVal (memStep ext cmap window bs (ops, lit, wpos, rolling))).1 window chunk_buf
          bytes_read (stepVal (memStep ext cmap window bs (ops, lit, wpos, rolling))).2.1
          (stepVal (memStep ext cmap window bs (ops, lit, wpos, rolling))).2.2.2
          (stepVal (memStep ext cmap window bs (ops, lit, wpos, rolling))).2.2.1
          (fposOf Acc.rs ext cmap bs window ops lit rolling wpos fpos)) ∧
    (window.length ≤ wpos →
      streamStep ext cmap h bs (ops, lit, window, chunk_buf, bytes_read, rolling, wpos, fpos) =
        pure (ForInStep.done (ops, lit, window, chunk_buf, bytes_read, rolling, wpos, fpos))) :=
  ⟨fun hlt => streamStepA_eq Acc.rs ext cmap h bs window chunk_buf bytes_read ops lit rolling wpos fpos hlt,
   fun hge => streamStepA_done Acc.rs ext cmap h bs _ hge⟩

/-! ### 2. the translated function on the instance is the model -/

/-- ONE ROUND = `srefill ∘ sbody`: from a code state that represents the model state `st` (`strSt`: the window
    buffer `win` still holds the `st.wpos` consumed bytes, `win.drop st.wpos = st.wrest`; accumulators reversed;
    handle position `pos` with `st.fileRest = new.drop pos`), a round of the translated loop succeeds and arrives
    at a code state that represents `srefill bs (256 * 1024) (sbody … st x tl)`; only the handle position moved. -/
theorem streaming_round_eq_model (strong : Bytes → Nat) (cs : List BlockChecksum) (w0 : DWorld) (h : Nat)
    (p : Rs.Path) (new : Bytes) (hfile : w0.files p = some new) (pos bs : Nat) (win : Bytes) (cbuf : List Nat)
    (hcb : cbuf.length = 256 * 1024) (fpos : Nat) (st : SSt) (hrep : Rep win st) (hfr : st.fileRest = new.drop pos)
    (x : UInt8) (tl : Bytes) (hw : st.wrest = x :: tl) :
    ∃ win' cbuf' fpos' pos',
      streamStep (inst strong) (buildMap cs) h bs (strSt bs win cbuf fpos st) (w0.setPos h p pos) =
        (.ok (.yield (strSt bs win' cbuf' fpos'
          (srefill bs (256 * 1024) (sbody strong (cs.map absBlock) bs st x tl)))), w0.setPos h p pos') ∧
      Rep win' (srefill bs (256 * 1024) (sbody strong (cs.map absBlock) bs st x tl)) ∧ cbuf'.length = 256 * 1024 ∧
      (srefill bs (256 * 1024) (sbody strong (cs.map absBlock) bs st x tl)).fileRest = new.drop pos' :=
  step_inst strong cs w0 h p new hfile pos bs win cbuf hcb fpos st hrep hfr x tl hw

/-- (c) FUEL + (b) LOOP INVARIANT.  From a code state that represents the model state `st`, EVERY fuel
    `≥ |st.wrest| + |st.fileRest|` gives the same final state: the loop has stopped by its own condition
    (`window.len() ≤ window_pos`), so the bounded `for … break` is the Rust `while`; the flushed ops are the model's
    `genStreamGo st`.  Every round consumes at least one byte of `wrest ++ fileRest` (`sbody_measure`, needs
    `0 < bs`) and the window only ever holds bytes of the file, so at the call, where `|wrest| + |fileRest| = |new|
    = source_size`, the `source_size + 1` rounds of the translation are enough (one more than needed). -/
theorem streaming_fuel_sufficient (strong : Bytes → Nat) (cs : List BlockChecksum) (bs : Nat) (hbs : 0 < bs)
    (w0 : DWorld) (h : Nat) (p : Rs.Path) (new : Bytes) (hfile : w0.files p = some new) (st : SSt) (pos : Nat)
    (win : Bytes) (cbuf : List Nat) (fpos : Nat) (hrep : Rep win st) (hcb : cbuf.length = 256 * 1024)
    (hfr : st.fileRest = new.drop pos) :
    ∃ s' pos',
      (∀ fuel, st.wrest.length + st.fileRest.length ≤ fuel →
        iterM (streamStep (inst strong) (buildMap cs) h bs) fuel (strSt bs win cbuf fpos st) (w0.setPos h p pos) =
          (.ok s', w0.setPos h p pos')) ∧
      flushG s'.1 s'.2.1 = (genStreamGo strong (cs.map absBlock) bs (256 * 1024) hbs st).map repOp ∧
      s'.2.2.1.length ≤ s'.2.2.2.2.2.2.1 :=
  streamLoop_eq strong cs bs hbs w0 h p new hfile st pos win cbuf fpos hrep hcb hfr

/-- **`generate_delta_streaming` = model.**  For every world in which `p` is a regular file with content `new`,
    every list of checksums and every `0 < block_size` (NO upper bound on `block_size` is needed for this
    equality: the model has the same defect as the code for `block_size > CHUNK_SIZE`, see
    `genStream_counterexample_bs_gt_chunk`), the translated `generate_delta_streaming` on the instance succeeds with
    exactly the model's op list for `chunk = 256 * 1024` (literal boundaries included), `source_size = |new|`,
    `block_size`; afterwards the world is what it was plus one open handle at some position. -/
theorem generate_delta_streaming_eq_model (strong : Bytes → Nat) (w : DWorld) (p : Rs.Path) (new : Bytes)
    (hfile : w.files p = some new) (cs : List BlockChecksum) (bs : Nat) (hbs : 0 < bs) :
    ∃ ops pos, genStream strong (cs.map absBlock) bs (256 * 1024) new = some ops ∧
      generate_delta_streaming (inst strong) p cs bs w =
        (.ok { ops := ops.map repOp, source_size := new.length, block_size := bs },
         { w with opened := w.opened + 1, handle := upd w.handle (w.opened + 1) (some (p, pos)) }) := by
  by_cases hne : new = []
  · subst hne
    have := GenDelta.generate_delta_streaming_empty strong w p hfile cs bs hbs
    refine ⟨[], 0, ?_, this.1⟩
    have h2 := this.2
    cases hg : genStream strong (cs.map absBlock) bs (256 * 1024) [] with
    | none => rw [hg] at h2; cases h2
    | some ops =>
      rw [hg] at h2
      simp only [Option.map_some, Option.some.injEq, List.map_eq_nil_iff] at h2
      rw [h2]
  · refine ⟨genStreamGo strong (cs.map absBlock) bs (256 * 1024) hbs (sinit bs (256 * 1024) new), ?_⟩
    obtain ⟨pos, hrun⟩ := streamAfterOpen_inst strong cs bs hbs { w with opened := w.opened + 1 } (w.opened + 1) p
      new hfile hne
    refine ⟨pos, by unfold genStream; rw [dif_pos hbs], ?_⟩
    rw [generate_delta_streaming_nf]
    unfold streamResult streamResultA
    have h1 : (inst strong).File_open p w =
        (.ok (w.opened + 1), DWorld.setPos { w with opened := w.opened + 1 } (w.opened + 1) p 0) := by
      simp [inst, openOp, hfile, DWorld.setPos]
    rw [run_bind, h1]
    exact hrun

/-- the file contents are never changed (with or without the file) -/
theorem generate_delta_streaming_files_unchanged (strong : Bytes → Nat) (w : DWorld) (p : Rs.Path)
    (cs : List BlockChecksum) (bs : Nat) (hbs : 0 < bs) :
    (generate_delta_streaming (inst strong) p cs bs w).2.files = w.files := by
  cases hfile : w.files p with
  | none => rw [GenDelta.generate_delta_streaming_missing strong w p hfile]
  | some new =>
    obtain ⟨ops, pos, -, h⟩ := generate_delta_streaming_eq_model strong w p new hfile cs bs hbs
    rw [h]

/-! ### 3. C04 about the TRANSLATED streaming generator -/

/-- **C04 (streaming generator), translated.**  Under `NoCollision` (as in `Props/C04`), `0 < bs` and
    `bs ≤ CHUNK_SIZE = 256 * 1024` (the model's `bs ≤ chunk`; sy's block sizes are `≤ 128 KiB`,
    `C04.consts_ok_chunk`): running the translated `generate_delta_streaming` on the checksums of `old` succeeds,
    leaves all file contents as they were, and applying the ops it returns to `old` gives exactly `new`. -/
theorem translated_genStream_reconstructs (strong : Bytes → Nat) (w : DWorld) (p : Rs.Path) (old new : Bytes)
    (hfile : w.files p = some new) (cs : List BlockChecksum) (bs : Nat)
    (hcs : cs.map absBlock = checksums strong bs old) (hbs : 0 < bs) (hchunk : bs ≤ 256 * 1024)
    (hc : NoCollision strong old new bs) :
    ∃ d w', generate_delta_streaming (inst strong) p cs bs w = (.ok d, w') ∧ w'.files = w.files ∧
      d.source_size = new.length ∧ d.block_size = bs ∧
      applyOps old (d.ops.map absOp) = some new := by
  obtain ⟨ops, pos, hm, hrun⟩ := generate_delta_streaming_eq_model strong w p new hfile cs bs hbs
  refine ⟨_, _, hrun, rfl, rfl, rfl, ?_⟩
  simp only [GenDelta.absOps_repOps]
  obtain ⟨ops', h1, h2⟩ := C04.genStream_reconstructs strong old new bs (256 * 1024) hbs hchunk hc
  rw [hcs, h1] at hm
  cases hm
  exact h2

/-- every `Copy` the translated `generate_delta_streaming` returns references a range inside `old` -/
theorem translated_streaming_copies_in_range (strong : Bytes → Nat) (w : DWorld) (p : Rs.Path) (old new : Bytes)
    (hfile : w.files p = some new) (cs : List BlockChecksum) (bs : Nat)
    (hcs : cs.map absBlock = checksums strong bs old) (hbs : 0 < bs) (hchunk : bs ≤ 256 * 1024)
    (hc : NoCollision strong old new bs) :
    ∃ d w', generate_delta_streaming (inst strong) p cs bs w = (.ok d, w') ∧
      ∀ off sz, DeltaOp.Copy off sz ∈ d.ops → sz = 0 ∨ off + sz ≤ old.length := by
  obtain ⟨ops, pos, hm, hrun⟩ := generate_delta_streaming_eq_model strong w p new hfile cs bs hbs
  refine ⟨_, _, hrun, ?_⟩
  intro off sz hmem
  rw [hcs] at hm
  obtain ⟨o, ho, he⟩ := List.mem_map.mp hmem
  cases o with
  | copy o s =>
    simp only [repOp, DeltaOp.Copy.injEq] at he
    obtain ⟨rfl, rfl⟩ := he
    exact C04.copies_in_range_stream strong old new bs (256 * 1024) hbs hchunk hc ops hm _ _ ho
  | data d => simp [repOp] at he

/-! ### 4. (5) the totalised accessors are never used out of range -/

/-- Rust panics on `&v[a..b]` with `a > b` or `b > len`, on `&v[a..]` with `a > len` and on `v[i]` with `i ≥ len`;
    the Prelude's `Rs.slice`, `Rs.slice_from`, `Rs.index` are total.  For EVERY `Ext` whose `read` keeps the
    contract of `Read::read` (`n ≤ buf.len()`, `ReadOK`), every path, checksum list, block size and WORLD, replacing
    the three accessors by functions that answer ANYTHING outside those ranges (`Acc.InRange`) does not change what
    `generate_delta_streaming` computes (result AND final world): every slice and index it evaluates is in range.
    Unlike `generate_delta` this needs neither `0 < bs` nor an invariant: each access is guarded by the loop
    condition or by a test in the same round, `&chunk_buf[..bytes_read]` by the contract of `read`. -/
theorem generate_delta_streaming_accesses_in_range {W : Type} (A : Acc) (hA : A.InRange) (ext : Ext W)
    (hread : ReadOK ext) (p : Rs.Path) (cs : List BlockChecksum) (bs : Nat) (w : W) :
    streamResultA A ext p cs bs w = generate_delta_streaming ext p cs bs w := by
  rw [generate_delta_streaming_nf]
  exact streamResultA_inRange A hA ext bs hread p cs w

/-- … per round, from ANY state in ANY world -/
theorem generate_delta_streaming_step_in_range {W : Type} (A : Acc) (hA : A.InRange) (ext : Ext W)
    (hread : ReadOK ext) (cmap : Rs.HashMap Nat (List BlockChecksum)) (h bs : Nat) (s : StSt) (w : W) :
    streamStepA A ext cmap h bs s w = streamStep ext cmap h bs s w :=
  streamStepA_inRange A hA ext cmap h bs hread s w

/-- … in particular on the instance (its `read` keeps the contract) -/
theorem generate_delta_streaming_accesses_in_range_inst (A : Acc) (hA : A.InRange) (strong : Bytes → Nat)
    (p : Rs.Path) (cs : List BlockChecksum) (bs : Nat) (w : DWorld) :
    streamResultA A (inst strong) p cs bs w = generate_delta_streaming (inst strong) p cs bs w :=
  generate_delta_streaming_accesses_in_range A hA (inst strong) (readOK_inst strong) p cs bs w

/-- `window.drain(0..window_pos)` (panics for `window_pos > window.len()`) is in range as well: in every code state
    that represents a model state the consumed prefix lies inside the window buffer -/
theorem streaming_drain_in_range (win : Bytes) (st : SSt) (hrep : Rep win st) (bs : Nat) (cbuf : List Nat)
    (fpos : Nat) : (strSt bs win cbuf fpos st).2.2.2.2.2.2.1 ≤ (strSt bs win cbuf fpos st).2.2.1.length := by
  simpa [strSt] using hrep.wpos


/-! ### `block_size > CHUNK_SIZE`: why `bs ≤ chunk` is a hypothesis of the C04 corollaries (not of the bridge) -/

/-- The MODEL with `chunk = 2 < bs = 3` on the three-byte file `[1, 2, 3]`, no checksums: the first window `[1, 2]`
    is consumed through the partial branch / literal steps, `window_pos = 2 < bs` so the refill never fires, the loop
    ends with the third byte unread: the delta is `[Data [1, 2]]` and reconstructs `[1, 2] ≠ new`.  By
    `generate_delta_streaming_eq_model` (which needs no bound on `bs`) the translated code does the same thing with
    `chunk = 256 * 1024`: for `block_size > 256 KiB` and a file longer than 256 KiB the Rust function returns `Ok`
    with a delta that silently drops everything after the first chunk (`source_size` still says `|new|`).
    Unreachable from sy (`calculate_block_size ≤ 128 KiB`, `C04.consts_ok_chunk`); library level only. -/
theorem genStream_counterexample_bs_gt_chunk :
    genStream (fun _ => (0 : Nat)) [] 3 2 [1, 2, 3] = some [Op.data [1, 2]] ∧
      applyOps [] [Op.data [1, 2]] = some [1, 2] := by
  constructor
  · unfold genStream
    rw [dif_pos (by decide), genStreamGo]
    simp [sinit, sbody, srefill, hasAtLeast, findPartial]
    rw [genStreamGo]
    simp [sbody, srefill, hasAtLeast, findPartial]
    rw [genStreamGo]
    simp [flush]
  · simp [applyOps]

/-! ### non-vacuity of the hypotheses -/

/-- `w.files p = some new`, `0 < bs`: a world and a call (`w0` of Props/GenDelta: one file `f` holding the byte 7);
    the theorem computes the delta -/
example : ∃ pos, generate_delta_streaming (inst (fun _ => 0)) ['f'] [] 3 GenDelta.w0 =
    (.ok { ops := [DeltaOp.Data [7]], source_size := 1, block_size := 3 },
     { GenDelta.w0 with opened := 1, handle := upd GenDelta.w0.handle 1 (some (['f'], pos)) }) := by
  obtain ⟨ops, pos, hm, hrun⟩ := generate_delta_streaming_eq_model (fun _ => 0) GenDelta.w0 ['f'] [7] (by simp [GenDelta.w0]) [] 3
    (by decide)
  refine ⟨pos, ?_⟩
  rw [hrun]
  have : ops = [Op.data [7]] := by
    unfold genStream at hm
    rw [dif_pos (by decide), genStreamGo] at hm
    simp [sinit, sbody, srefill, hasAtLeast, findPartial] at hm
    rw [genStreamGo] at hm
    simp [flush] at hm
    exact hm.symm
  subst this
  simp [repOp, ofU8, GenDelta.w0]

/-- `bs ≤ 256 * 1024` together with `0 < bs`: every block size sy computes (`BLOCK_SIZE_MIN … BLOCK_SIZE_MAX`) -/
example (bs : Nat) (h1 : Generated.BLOCK_SIZE_MIN ≤ bs) (h2 : bs ≤ Generated.BLOCK_SIZE_MAX) :
    0 < bs ∧ bs ≤ 256 * 1024 :=
  ⟨Nat.lt_of_lt_of_le C04.consts_ok_block_min h1, Nat.le_trans h2 C04.consts_ok_chunk⟩

/-- `cs.map absBlock = checksums strong bs old` is satisfiable for every `old`: take `repBlock` of the model's list -/
example (strong : Bytes → Nat) (bs : Nat) (old : Bytes) :
    ((checksums strong bs old).map (repBlock bs)).map absBlock = checksums strong bs old := by
  rw [List.map_map]; exact List.map_id _

/-- `NoCollision` holds for every pair of files when the strong hash is injective -/
example (strong : Bytes → Nat) (hinj : ∀ a b, strong a = strong b → a = b) (old new : Bytes) (bs : Nat) :
    NoCollision strong old new bs := by
  intro c _ w _ h
  exact hinj _ _ (by simpa using h)

/-- `Acc.InRange` is satisfied by accessors that answer garbage out of range (`garbage` of Props/GenDelta), and
    `ReadOK` by the instance -/
example (strong : Bytes → Nat) (p : Rs.Path) (cs : List BlockChecksum) (bs : Nat) (w : DWorld) :
    streamResultA GenDelta.garbage (inst strong) p cs bs w = generate_delta_streaming (inst strong) p cs bs w :=
  generate_delta_streaming_accesses_in_range_inst _ GenDelta.garbage_inRange strong p cs bs w

/-- `Rep win st`, `cbuf.length = 256 * 1024`, `st.fileRest = new.drop pos`, `st.wrest = x :: tl`: the state at the
    call (`sinit`) of a non-empty file satisfies them -/
example (bs : Nat) (x : UInt8) (tl : Bytes) :
    Rep ((x :: tl).take (256 * 1024)) (sinit bs (256 * 1024) (x :: tl)) ∧
      (sinit bs (256 * 1024) (x :: tl)).fileRest = (x :: tl).drop ((x :: tl).take (256 * 1024)).length ∧
      (sinit bs (256 * 1024) (x :: tl)).wrest = x :: tl.take (256 * 1024 - 1) ∧
      (List.replicate (256 * 1024) (0 : Nat)).length = 256 * 1024 := by
  refine ⟨⟨by simp [sinit], by simp [sinit]⟩, ?_, by simp [sinit], List.length_replicate⟩
  have := drop_take_length (x :: tl) 0 (256 * 1024)
  simpa [sinit] using this

end SyModel.Props.GenDeltaStream
