/-
  GenScanner — `StreamingScanner::next` (src/sync/scanner.rs:254-343) with `detect_sparse_file` and `detect_hardlink_info`,
  TRANSLATED on every run into `SyModel/Generated/Code/Scanner.lean`.  The directory walk (`ext.walker_next`), `read_link`,
  the xattr / ACL reads are operations of a world `W`; everything below is proved about the translated `scanner_next` for
  ANY instance `ext : Ext W` (the non-vacuity section at the end fixes one).

  1. NORMAL FORM (`Lemmas/GenScanner.lean`): `scanner_next ext self = iter ext self ext.fuel`, where `iter` repeats
     `walker_next () >>= round ext self` and `round` is one round of the Rust `loop` as a function of the walker's answer
     (`round_none`, `round_walker_error`, `round_root`, `round_md_error`, `round_strip_error`, `round_entry`); fuel:
     `scanner_next_fuel_irrelevant`, `scanner_next_fuel_irrelevant_of_walker`, `scanner_next_answer_after_skips`,
     `scanner_next_error_after_skips`, `scanner_next_exhausted`.
  2. FIELD THEOREMS for every entry answered as `some (.ok fe)`: `scanner_next_origin` exhibits the walker answer `de`, its
     metadata `md` and the world `w1` right after the walker's answer, with `Origin ext self fe de md w1` (all fields);
     `listed_path_ne_root`, `listed_relative_path`, `listed_symlink_target_none`, `listed_not_regular`, … are the readings
     that do not mention `md`.
  3. `relative_path_ne_dot`: no listed entry has the relative path "." — under `noDotTail fe.path` (the path text is not "."
     and does not end in "/."; decidable), via `strip_prefix_ne_dot` which is proved about `Rs.strip_prefix` itself;
     `relative_path_ne_dot_of_strip` is the same under the abstract hypothesis on `Rs.strip_prefix`.  This is the assumption
     `∀ f ∈ files, f.relative_path ≠ rootKey` of `GenEngineCache.record_scan_keeps_root_absent` (connected in
     `Props/GenScannerCache.lean`).
  4. `detect_sparse_file_iff`, `detect_hardlink_info_eq`.
  5. Non-vacuity: kernel-evaluated runs of a concrete instance.
-/
import SyModel.Lemmas.GenScanner
namespace SyModel.Props.GenScanner
open SyModel.Generated SyModel.Generated.Scanner SyModel.Lemmas.GenScanner

/-! ### 1. the normal form -/

/-- the walker is exhausted: `next` answers `None` -/
theorem round_none {W : Type} (ext : Ext W) (self : StreamingScanner) : round ext self none = pure (some none) := rfl

/-- the walker reports an error: `Some(Err(Io))` -/
theorem round_walker_error {W : Type} (ext : Ext W) (self : StreamingScanner) (e : Rs.Err) :
    round ext self (some (.error e)) = pure (some (some (.error Rs.Err.io))) := rfl

/-- the root itself: the round `continue`s, no operation is performed -/
theorem round_root {W : Type} (ext : Ext W) (self : StreamingScanner) (de : DirEntry) (h : de.path = self.root) :
    round ext self (some (.ok de)) = pure none := by
  have : (de.path == self.root) = true := by simp [h]
  simp only [round, this, if_true]

/-- `DirEntry::metadata` fails: `Some(Err(ReadDirError))` -/
theorem round_md_error {W : Type} (ext : Ext W) (self : StreamingScanner) (de : DirEntry) (e : Rs.Err)
    (h : de.path ≠ self.root) (hmd : de.md = .error e) :
    round ext self (some (.ok de)) = pure (some (some (.error Rs.Err.io))) := by
  have : (de.path == self.root) = false := by simpa using h
  simp only [round, this, hmd, Bool.false_eq_true, if_false]

/-- `strip_prefix` fails: `Some(Err(InvalidPath))` -/
theorem round_strip_error {W : Type} (ext : Ext W) (self : StreamingScanner) (de : DirEntry) (md : SMeta) (e : Rs.Err)
    (h : de.path ≠ self.root) (hmd : de.md = .ok md) (hs : Rs.strip_prefix de.path self.root = .error e) :
    round ext self (some (.ok de)) = pure (some (some (.error Rs.Err.other))) := by
  have : (de.path == self.root) = false := by simpa using h
  simp only [round, this, hmd, hs, Bool.false_eq_true, if_false]

/-- otherwise: the operations of `entryTail` in program order (`read_link` for a symlink only, xattrs, ACLs), then
    `Some(Ok(mkEntry ..))` — or `Some(Err(ReadDirError))` when the modification time cannot be read -/
theorem round_entry {W : Type} (ext : Ext W) (self : StreamingScanner) (de : DirEntry) (md : SMeta) (rel : Rs.Path)
    (h : de.path ≠ self.root) (hmd : de.md = .ok md) (hs : Rs.strip_prefix de.path self.root = .ok rel) :
    round ext self (some (.ok de)) = entryTail ext de.path rel md >>= fun r => pure (some (some r)) := by
  have : (de.path == self.root) = false := by simpa using h
  simp only [round, this, hmd, hs, Bool.false_eq_true, if_false]

theorem entryTail_eq {W : Type} (ext : Ext W) (path rel : Rs.Path) (md : SMeta) :
    entryTail ext path rel md =
      ((if md.is_symlink = true then Rs.capture (ext.std_fs_read_link path) >>= fun r => pure (Rs.ok r) else pure none) >>=
        fun tgt => ext.read_xattrs path >>= fun xa => ext.read_acls path >>= fun acl =>
          match md.mtime with
          | .ok t => pure (.ok (mkEntry path rel md tgt xa acl (ext.read_bsd_flags md) t))
          | .error _ => pure (.error Rs.Err.io)) := rfl

/-- **the translated `next` is the rounds iterated up to the fuel** (out of fuel: `Rs.Err.other`) -/
theorem scanner_next_eq_iter {W : Type} (ext : Ext W) (self : StreamingScanner) :
    scanner_next ext self = iter ext self ext.fuel := scanner_next_nf ext self

theorem iter_zero {W : Type} (ext : Ext W) (self : StreamingScanner) : iter ext self 0 = throw Rs.Err.other := rfl
theorem iter_succ {W : Type} (ext : Ext W) (self : StreamingScanner) (n : Nat) :
    iter ext self (n + 1) = (ext.walker_next () >>= round ext self) >>= fun r => match r with
      | some a => pure a
      | none => iter ext self n := rfl

/-- the same operations with another fuel -/
def withFuel {W : Type} (ext : Ext W) (f : Nat) : Ext W := { ext with fuel := f }

theorem step_withFuel {W : Type} (ext : Ext W) (self : StreamingScanner) (f : Nat) :
    step (withFuel ext f) self = step ext self := rfl

theorem iter_withFuel {W : Type} (ext : Ext W) (self : StreamingScanner) (f n : Nat) :
    iter (withFuel ext f) self n = iter ext self n := by
  induction n with
  | zero => rfl
  | succ n ih => simp only [iter, step_withFuel, ih]

theorem decidedWithin_withFuel {W : Type} (ext : Ext W) (self : StreamingScanner) (f n : Nat) (w : W) :
    decidedWithin (withFuel ext f) self n w = decidedWithin ext self n w := by
  induction n generalizing w with
  | zero => rfl
  | succ n ih => simp only [decidedWithin, step_withFuel, ih]

/-- **fuel sufficiency**: if one of the first `n` rounds from `w` decides (does not `continue`), every fuel `≥ n` gives the
    same result and the same world -/
theorem scanner_next_fuel_irrelevant {W : Type} (ext : Ext W) (self : StreamingScanner) (n f1 f2 : Nat) (w : W)
    (h : decidedWithin ext self n w = true) (h1 : n ≤ f1) (h2 : n ≤ f2) :
    runM (scanner_next (withFuel ext f1) self) w = runM (scanner_next (withFuel ext f2) self) w := by
  rw [scanner_next_nf, scanner_next_nf, iter_withFuel, iter_withFuel]
  show runM (iter ext self f1) w = runM (iter ext self f2) w
  rw [iter_fuel_irrelevant ext self n f1 w h h1, iter_fuel_irrelevant ext self n f2 w h h2]

theorem decidedWithin_of_skips {W : Type} (ext : Ext W) (self : StreamingScanner) (k m : Nat) (w w1 : W)
    (hs : Skips ext self k w w1) : decidedWithin ext self (k + m) w = decidedWithin ext self m w1 := by
  induction hs with
  | zero w => simp
  | succ de hw hroot rest ih =>
    rename_i k w w1 w2
    have : runM (step ext self) w = (.ok none, w1) := (step_skip_iff ext self w w1).mpr ⟨de, hw, hroot⟩
    rw [show k + 1 + m = (k + m) + 1 by omega, decidedWithin, this]
    exact ih

/-- **fuel sufficiency, in terms of the walker**: if after `k` answers "the root itself" the walker answers anything else
    (`none`, an error, an entry with another path), every fuel above `k` gives the same result and the same world -/
theorem scanner_next_fuel_irrelevant_of_walker {W : Type} (ext : Ext W) (self : StreamingScanner) (k f1 f2 : Nat) (w w1 w2 : W)
    (ans : Option (Except Rs.Err DirEntry)) (hs : Skips ext self k w w1)
    (hw : runM (ext.walker_next ()) w1 = (.ok ans, w2)) (hnr : ∀ de, ans = some (.ok de) → de.path ≠ self.root)
    (h1 : k < f1) (h2 : k < f2) :
    runM (scanner_next (withFuel ext f1) self) w = runM (scanner_next (withFuel ext f2) self) w := by
  refine scanner_next_fuel_irrelevant ext self (k + 1) f1 f2 w ?_ h1 h2
  rw [decidedWithin_of_skips ext self k 1 w w1 hs, decidedWithin]
  have hd := step_decides ext self w1 w2 ans hw hnr
  rcases hstep : runM (step ext self) w1 with ⟨e | r, w3⟩
  · rfl
  · cases r with
    | some a => rfl
    | none => exact absurd hstep (hd w3)

/-- explicit form: after `k < fuel` answers "the root itself" (worlds `w … w1`), a round that answers `a` makes `a` the result
    of `next` — the fuel does not occur in the result -/
theorem scanner_next_answer_after_skips {W : Type} (ext : Ext W) (self : StreamingScanner) (k : Nat) (w w1 w2 : W) (a : Answer)
    (hs : Skips ext self k w w1) (hk : k < ext.fuel) (hstep : runM (step ext self) w1 = (.ok (some a), w2)) :
    runM (scanner_next ext self) w = (.ok a, w2) := by
  rw [scanner_next_nf]; exact iter_answer_after_skips ext self k ext.fuel w w1 w2 a hs hk hstep

theorem scanner_next_error_after_skips {W : Type} (ext : Ext W) (self : StreamingScanner) (k : Nat) (w w1 w2 : W) (e : Rs.Err)
    (hs : Skips ext self k w w1) (hk : k < ext.fuel) (hstep : runM (step ext self) w1 = (.error e, w2)) :
    runM (scanner_next ext self) w = (.error e, w2) := by
  rw [scanner_next_nf]; exact iter_error_after_skips ext self k ext.fuel w w1 w2 e hs hk hstep

/-- a round in which the walker answers `none`, an error, or an entry other than the root decides -/
theorem step_decides_of_non_root {W : Type} (ext : Ext W) (self : StreamingScanner) (w w1 : W)
    (ans : Option (Except Rs.Err DirEntry)) (hw : runM (ext.walker_next ()) w = (.ok ans, w1))
    (hnr : ∀ de, ans = some (.ok de) → de.path ≠ self.root) (w2 : W) : runM (step ext self) w ≠ (.ok none, w2) :=
  step_decides ext self w w1 ans hw hnr w2

/-- **fuel exhaustion** is the only artefact of the fuel: when the walker answers the root `ext.fuel` times in a row, the
    translation throws `Rs.Err.other` where the Rust `loop` would go on -/
theorem scanner_next_exhausted {W : Type} (ext : Ext W) (self : StreamingScanner) (w w1 : W)
    (hs : Skips ext self ext.fuel w w1) : runM (scanner_next ext self) w = (.error Rs.Err.other, w1) := by
  rw [scanner_next_nf]; exact skips_exhausted ext self ext.fuel w w1 hs

/-! ### 4. the two pure helpers -/

/-- **`detect_sparse_file`**: sparse iff the size exceeds 4096 and the allocated bytes are below `size - 4096` -/
theorem detect_sparse_file_iff (p : Rs.Path) (md : SMeta) :
    (detect_sparse_file p md).1 = true ↔ md.size > 4096 ∧ md.blocks * 512 < md.size - 4096 := by
  rw [detect_sparse_file_eq]; simp

theorem detect_sparse_file_allocated (p : Rs.Path) (md : SMeta) : (detect_sparse_file p md).2 = md.blocks * 512 := rfl

/-- the path argument is not looked at -/
theorem detect_sparse_file_path_irrelevant (p q : Rs.Path) (md : SMeta) : detect_sparse_file p md = detect_sparse_file q md := rfl

theorem detect_hardlink_info_eq (md : SMeta) : detect_hardlink_info md = (some md.ino, md.nlink) := rfl

/-! ### 2. the fields of a listed entry -/

/-- `fe` is answered by `next` in some world -/
def Listed {W : Type} (ext : Ext W) (self : StreamingScanner) (fe : FileEntry) : Prop :=
  ∃ w w', runM (scanner_next ext self) w = (.ok (some (.ok fe)), w')

/-- where a listed entry comes from: `de` is what the walker answered (leaving the world `w1`), `md` its metadata -/
structure Origin {W : Type} (ext : Ext W) (sc : StreamingScanner) (fe : FileEntry) (de : DirEntry) (md : SMeta) (w1 : W) :
    Prop where
  walker : ∃ w0, runM (ext.walker_next ()) w0 = (.ok (some (.ok de)), w1)
  path_eq : fe.path = de.path
  md_ok : de.md = .ok md
  /-- the root itself is never listed -/
  path_ne_root : fe.path ≠ sc.root
  relative_path : Rs.strip_prefix fe.path sc.root = .ok fe.relative_path
  is_dir : fe.is_dir = md.is_dir
  size : fe.size = md.size
  is_symlink : fe.is_symlink = md.is_symlink
  nlink : fe.nlink = md.nlink
  inode : fe.inode = some md.ino
  modified : md.mtime = .ok fe.modified
  bsd_flags : fe.bsd_flags = ext.read_bsd_flags md
  target_none : fe.is_symlink = false → fe.symlink_target = none
  /-- `read_link` is asked in the world right after the walker's answer -/
  target_link : fe.is_symlink = true → fe.symlink_target = Rs.ok (runM (ext.std_fs_read_link fe.path) w1).1
  sparse_iff : fe.is_sparse = true ↔
    fe.is_dir = false ∧ fe.is_symlink = false ∧ fe.size > 4096 ∧ md.blocks * 512 < fe.size - 4096
  /-- directories and symlinks -/
  not_regular : fe.is_dir = true ∨ fe.is_symlink = true → fe.is_sparse = false ∧ fe.allocated_size = 0
  regular_allocated : fe.is_dir = false → fe.is_symlink = false → fe.allocated_size = md.blocks * 512

theorem sparsePair_regular (p : Rs.Path) (md : SMeta) (hd : md.is_dir = false) (hl : md.is_symlink = false) :
    sparsePair p md = detect_sparse_file p md := by
  simp [sparsePair, hd, hl]

theorem sparsePair_not_regular (p : Rs.Path) (md : SMeta) (h : md.is_dir = true ∨ md.is_symlink = true) :
    sparsePair p md = (false, 0) := by
  rcases h with h | h <;> simp [sparsePair, h]

/-- all fields of `mkEntry` at once -/
theorem origin_of_mkEntry {W : Type} (ext : Ext W) (self : StreamingScanner) (de : DirEntry) (md : SMeta) (rel : Rs.Path)
    (xa : Option (Rs.HashMap Rs.Str (List Nat))) (acl : Option (List Nat)) (t : Rs.SystemTime) (w0 w1 : W)
    (hw : runM (ext.walker_next ()) w0 = (.ok (some (.ok de)), w1)) (hne : de.path ≠ self.root) (hmd : de.md = .ok md)
    (hrel : Rs.strip_prefix de.path self.root = .ok rel) (hmt : md.mtime = .ok t) :
    Origin ext self (mkEntry de.path rel md (linkValue ext de.path md w1) xa acl (ext.read_bsd_flags md) t) de md w1 where
  walker := ⟨w0, hw⟩
  path_eq := rfl
  md_ok := hmd
  path_ne_root := hne
  relative_path := hrel
  is_dir := rfl
  size := rfl
  is_symlink := rfl
  nlink := rfl
  inode := rfl
  modified := hmt
  bsd_flags := rfl
  target_none := fun h => by
    have h' : md.is_symlink = false := h
    simp [mkEntry, linkValue, h']
  target_link := fun h => by
    have h' : md.is_symlink = true := h
    simp [mkEntry, linkValue, h']
  sparse_iff := by
    show (sparsePair de.path md).1 = true ↔ md.is_dir = false ∧ md.is_symlink = false ∧ md.size > 4096 ∧
      md.blocks * 512 < md.size - 4096
    by_cases hd : md.is_dir = true
    · rw [sparsePair_not_regular _ _ (Or.inl hd)]; simp [hd]
    · by_cases hl : md.is_symlink = true
      · rw [sparsePair_not_regular _ _ (Or.inr hl)]; simp [hl]
      · have hd' : md.is_dir = false := by simpa using hd
        have hl' : md.is_symlink = false := by simpa using hl
        rw [sparsePair_regular _ _ hd' hl', detect_sparse_file_iff]
        simp [hd', hl']
  not_regular := fun h => by
    show (sparsePair de.path md).1 = false ∧ (sparsePair de.path md).2 = 0
    rw [sparsePair_not_regular _ _ h]; exact ⟨rfl, rfl⟩
  regular_allocated := fun hd hl => by
    show (sparsePair de.path md).2 = md.blocks * 512
    rw [sparsePair_regular _ _ hd hl]; rfl

/-- **the origin of every listed entry** (any instance, any fuel, any world) -/
theorem scanner_next_origin {W : Type} (ext : Ext W) (self : StreamingScanner) (w w' : W) (fe : FileEntry)
    (h : runM (scanner_next ext self) w = (.ok (some (.ok fe)), w')) : ∃ de md w1, Origin ext self fe de md w1 := by
  rw [scanner_next_nf] at h
  obtain ⟨w0, w1, de, md, rel, xa, acl, t, hw, hne, hmd, hrel, hmt, rfl⟩ := iter_listed ext self ext.fuel w w' fe h
  exact ⟨de, md, w1, origin_of_mkEntry ext self de md rel xa acl t w0 w1 hw hne hmd hrel hmt⟩

theorem listed_origin {W : Type} (ext : Ext W) (self : StreamingScanner) (fe : FileEntry) (h : Listed ext self fe) :
    ∃ de md w1, Origin ext self fe de md w1 := by
  obtain ⟨w, w', h⟩ := h; exact scanner_next_origin ext self w w' fe h

/-- **the root itself is never listed** -/
theorem listed_path_ne_root {W : Type} (ext : Ext W) (self : StreamingScanner) (fe : FileEntry) (h : Listed ext self fe) :
    fe.path ≠ self.root := by
  obtain ⟨de, md, w1, o⟩ := listed_origin ext self fe h; exact o.path_ne_root

/-- **the relative path is the path with the root stripped** -/
theorem listed_relative_path {W : Type} (ext : Ext W) (self : StreamingScanner) (fe : FileEntry) (h : Listed ext self fe) :
    Rs.strip_prefix fe.path self.root = .ok fe.relative_path := by
  obtain ⟨de, md, w1, o⟩ := listed_origin ext self fe h; exact o.relative_path

/-- the metadata-derived fields are those of the walker's metadata for this path -/
theorem listed_metadata_fields {W : Type} (ext : Ext W) (self : StreamingScanner) (fe : FileEntry) (h : Listed ext self fe) :
    ∃ de md, (∃ w0 w1, runM (ext.walker_next ()) w0 = (.ok (some (.ok de)), w1)) ∧ de.path = fe.path ∧ de.md = .ok md ∧
      fe.is_dir = md.is_dir ∧ fe.size = md.size ∧ fe.is_symlink = md.is_symlink ∧ fe.nlink = md.nlink ∧
      fe.inode = some md.ino ∧ md.mtime = .ok fe.modified := by
  obtain ⟨de, md, w1, o⟩ := listed_origin ext self fe h
  obtain ⟨w0, hw⟩ := o.walker
  exact ⟨de, md, ⟨w0, w1, hw⟩, o.path_eq.symm, o.md_ok, o.is_dir, o.size, o.is_symlink, o.nlink, o.inode, o.modified⟩

/-- **only symlinks carry a target** -/
theorem listed_symlink_target_none {W : Type} (ext : Ext W) (self : StreamingScanner) (fe : FileEntry) (h : Listed ext self fe)
    (hl : fe.is_symlink = false) : fe.symlink_target = none := by
  obtain ⟨de, md, w1, o⟩ := listed_origin ext self fe h; exact o.target_none hl

/-- **a symlink's target is `read_link(path).ok()`**, asked in the world right after the walker's answer -/
theorem listed_symlink_target {W : Type} (ext : Ext W) (self : StreamingScanner) (fe : FileEntry) (h : Listed ext self fe)
    (hl : fe.is_symlink = true) : ∃ w1, fe.symlink_target = Rs.ok (runM (ext.std_fs_read_link fe.path) w1).1 := by
  obtain ⟨de, md, w1, o⟩ := listed_origin ext self fe h; exact ⟨w1, o.target_link hl⟩

/-- **a sparse entry is a regular file larger than 4096 bytes whose allocated bytes are below `size - 4096`** -/
theorem listed_sparse {W : Type} (ext : Ext W) (self : StreamingScanner) (fe : FileEntry) (h : Listed ext self fe)
    (hs : fe.is_sparse = true) :
    fe.is_dir = false ∧ fe.is_symlink = false ∧ fe.size > 4096 ∧
      ∃ (de : DirEntry) (md : SMeta), de.path = fe.path ∧ de.md = .ok md ∧ md.blocks * 512 < fe.size - 4096 := by
  obtain ⟨de, md, w1, o⟩ := listed_origin ext self fe h
  obtain ⟨h1, h2, h3, h4⟩ := o.sparse_iff.mp hs
  exact ⟨h1, h2, h3, de, md, o.path_eq.symm, o.md_ok, h4⟩

/-- **directories and symlinks are never sparse and have allocated size 0** -/
theorem listed_not_regular {W : Type} (ext : Ext W) (self : StreamingScanner) (fe : FileEntry) (h : Listed ext self fe)
    (hk : fe.is_dir = true ∨ fe.is_symlink = true) : fe.is_sparse = false ∧ fe.allocated_size = 0 := by
  obtain ⟨de, md, w1, o⟩ := listed_origin ext self fe h; exact o.not_regular hk

/-- every listed entry has an inode number (Unix build) -/
theorem listed_inode_some {W : Type} (ext : Ext W) (self : StreamingScanner) (fe : FileEntry) (h : Listed ext self fe) :
    fe.inode.isSome = true := by
  obtain ⟨de, md, w1, o⟩ := listed_origin ext self fe h; rw [o.inode]; rfl

/-! ### 3. no listed entry has the relative path "." -/

/-- the cache key of the source root (`GenEngineCache.rootKey`) -/
def rootKey : Rs.Path := ['.']

/-- under the abstract hypothesis on `Rs.strip_prefix` (stripping the root from a DIFFERENT path never answers ".") -/
theorem relative_path_ne_dot_of_strip {W : Type} (ext : Ext W) (self : StreamingScanner) (fe : FileEntry)
    (hstrip : ∀ p, p ≠ self.root → Rs.strip_prefix p self.root ≠ .ok rootKey) (h : Listed ext self fe) :
    fe.relative_path ≠ rootKey := by
  intro hc
  have h1 := listed_relative_path ext self fe h
  rw [hc] at h1
  exact hstrip fe.path (listed_path_ne_root ext self fe h) h1

/-- **`relative_path ≠ "."`** for every listed entry whose path text is clean (`noDotTail`: not "." and not ending in "/.") -/
theorem relative_path_ne_dot {W : Type} (ext : Ext W) (self : StreamingScanner) (fe : FileEntry)
    (hclean : noDotTail fe.path = true) (h : Listed ext self fe) : fe.relative_path ≠ rootKey := by
  intro hc
  have h1 := listed_relative_path ext self fe h
  rw [hc] at h1
  exact strip_prefix_ne_dot fe.path self.root (listed_path_ne_root ext self fe h) hclean h1

/-- the same with the cleanliness stated once, about the walker: it never answers a path that is "." or ends in "/." -/
theorem relative_path_ne_dot_of_walker {W : Type} (ext : Ext W) (self : StreamingScanner)
    (hwalk : ∀ w0 w1 de, runM (ext.walker_next ()) w0 = (.ok (some (.ok de)), w1) → noDotTail de.path = true)
    (fe : FileEntry) (h : Listed ext self fe) : fe.relative_path ≠ rootKey := by
  obtain ⟨de, md, w1, o⟩ := listed_origin ext self fe h
  obtain ⟨w0, hw⟩ := o.walker
  exact relative_path_ne_dot ext self fe (by rw [o.path_eq]; exact hwalk w0 w1 de hw) h

/-- a whole scan (any list of listed entries) -/
theorem scan_relative_paths_ne_dot {W : Type} (ext : Ext W) (self : StreamingScanner) (files : List FileEntry)
    (hl : ∀ f ∈ files, Listed ext self f) (hclean : ∀ f ∈ files, noDotTail f.path = true) :
    ∀ f ∈ files, f.relative_path ≠ rootKey :=
  fun f hf => relative_path_ne_dot ext self f (hclean f hf) (hl f hf)

/-! ### 5. non-vacuity: a world that is the list of the walker's answers still to come -/

section nonvacuity
/-- equality of results is decidable (only for the kernel-evaluated runs below; local to this section) -/
@[instance_reducible] def exceptDecEq {ε α : Type} [DecidableEq ε] [DecidableEq α] : DecidableEq (Except ε α) := fun a b =>
  match a, b with
  | .ok x, .ok y => if h : x = y then isTrue (h ▸ rfl) else isFalse (fun e => h (Except.ok.inj e))
  | .error x, .error y => if h : x = y then isTrue (h ▸ rfl) else isFalse (fun e => h (Except.error.inj e))
  | .ok _, .error _ => isFalse (fun e => by cases e)
  | .error _, .ok _ => isFalse (fun e => by cases e)
attribute [local instance] exceptDecEq

abbrev TW := List (Except Rs.Err DirEntry)

/-- the walker pops the list (`None` at its end); `read_link` knows one link, `r/l → tgt`; no xattrs, no ACLs -/
def testExt (fuel : Nat) : Ext TW where
  fuel := fuel
  walker_next := fun _ w => match w with
    | [] => (.ok none, [])
    | a :: t => (.ok (some a), t)
  std_fs_read_link := fun p w => if p = ['r', '/', 'l'] then (.ok ['t', 'g', 't'], w) else (.error Rs.Err.io, w)
  read_xattrs := fun _ w => (.ok none, w)
  read_acls := fun _ w => (.ok none, w)
  read_bsd_flags := fun _ => none

def self0 : StreamingScanner := ⟨['r']⟩
def dirMeta : SMeta := ⟨4096, 8, 2, 2, true, false, .ok 7⟩
def linkMeta : SMeta := ⟨3, 0, 3, 1, false, true, .ok 8⟩
/-- 10000 bytes in 8 blocks: 4096 allocated < 10000 - 4096 -/
def sparseMeta : SMeta := ⟨10000, 8, 4, 1, false, false, .ok 9⟩
/-- 10000 bytes in 24 blocks: fully allocated -/
def denseMeta : SMeta := ⟨10000, 24, 5, 2, false, false, .ok 9⟩
def rootE : Except Rs.Err DirEntry := .ok ⟨['r'], .ok dirMeta⟩
def linkE : Except Rs.Err DirEntry := .ok ⟨['r', '/', 'l'], .ok linkMeta⟩
def sparseE : Except Rs.Err DirEntry := .ok ⟨['r', '/', 's'], .ok sparseMeta⟩
def denseE : Except Rs.Err DirEntry := .ok ⟨['r', '/', 'd'], .ok denseMeta⟩
def dirE : Except Rs.Err DirEntry := .ok ⟨['r', '/', 'a'], .ok dirMeta⟩

def linkFe : FileEntry :=
  { path := ['r', '/', 'l'], relative_path := ['l'], size := 3, modified := 8, is_dir := false, is_symlink := true,
    symlink_target := some ['t', 'g', 't'], is_sparse := false, allocated_size := 0, xattrs := none, inode := some 3,
    nlink := 1, acls := none, bsd_flags := none }
def sparseFe : FileEntry :=
  { path := ['r', '/', 's'], relative_path := ['s'], size := 10000, modified := 9, is_dir := false, is_symlink := false,
    symlink_target := none, is_sparse := true, allocated_size := 4096, xattrs := none, inode := some 4,
    nlink := 1, acls := none, bsd_flags := none }
def denseFe : FileEntry :=
  { path := ['r', '/', 'd'], relative_path := ['d'], size := 10000, modified := 9, is_dir := false, is_symlink := false,
    symlink_target := none, is_sparse := false, allocated_size := 12288, xattrs := none, inode := some 5,
    nlink := 2, acls := none, bsd_flags := none }
def dirFe : FileEntry :=
  { path := ['r', '/', 'a'], relative_path := ['a'], size := 4096, modified := 7, is_dir := true, is_symlink := false,
    symlink_target := none, is_sparse := false, allocated_size := 0, xattrs := none, inode := some 2,
    nlink := 2, acls := none, bsd_flags := none }

/-- the root is skipped; the symlink comes with its target; the rest of the walk stays in the world -/
theorem nv_root_skipped_symlink : (runM (scanner_next (testExt 5) self0) [rootE, linkE, sparseE]).1 = .ok (some (.ok linkFe)) := by
  rw [scanner_next_nf]; decide
theorem nv_rest_of_walk_kept : (runM (scanner_next (testExt 5) self0) [rootE, linkE, sparseE]).2.length = 1 := by
  rw [scanner_next_nf]; decide
/-- the same run evaluated on the generated code itself (only the library's range loop rewritten to its list form) -/
theorem nv_root_skipped_symlink_generated : (runM (scanner_next (testExt 5) self0) [rootE, linkE, sparseE]).1 = .ok (some (.ok linkFe)) := by
  unfold scanner_next
  rw [Std.Legacy.Range.forIn_eq_forIn_range']
  decide
/-- a sparse file, a fully allocated file (hard link count 2), a directory (`+kernel`: the numerals 10000 / 4096 exceed the
    elaborator's recursion depth; the kernel evaluates them) -/
theorem nv_sparse : (runM (scanner_next (testExt 5) self0) [sparseE]).1 = .ok (some (.ok sparseFe)) := by
  rw [scanner_next_nf]; decide +kernel
theorem nv_dense : (runM (scanner_next (testExt 5) self0) [denseE]).1 = .ok (some (.ok denseFe)) := by
  rw [scanner_next_nf]; decide +kernel
theorem nv_dir : (runM (scanner_next (testExt 5) self0) [dirE]).1 = .ok (some (.ok dirFe)) := by
  rw [scanner_next_nf]; decide
/-- a symlink whose `read_link` fails is listed without target -/
theorem nv_symlink_unreadable : (runM (scanner_next (testExt 5) self0) [.ok ⟨['r', '/', 'k'], .ok linkMeta⟩]).1 =
    .ok (some (.ok { linkFe with path := ['r', '/', 'k'], relative_path := ['k'], symlink_target := none })) := by
  rw [scanner_next_nf]; decide
/-- the end of the walk; a walker error; a metadata error; a path that is not below the root; an unreadable mtime -/
theorem nv_end_of_walk : (runM (scanner_next (testExt 5) self0) [rootE]).1 = .ok none := by
  rw [scanner_next_nf]; decide
theorem nv_walker_error : (runM (scanner_next (testExt 5) self0) [rootE, .error Rs.Err.other, linkE]).1 = .ok (some (.error Rs.Err.io)) := by
  rw [scanner_next_nf]; decide
theorem nv_metadata_error : (runM (scanner_next (testExt 5) self0) [.ok ⟨['r', '/', 'x'], .error Rs.Err.other⟩]).1 =
    .ok (some (.error Rs.Err.io)) := by
  rw [scanner_next_nf]; decide
theorem nv_not_below_root : (runM (scanner_next (testExt 5) self0) [.ok ⟨['r', 'x'], .ok dirMeta⟩]).1 = .ok (some (.error Rs.Err.other)) := by
  rw [scanner_next_nf]; decide
theorem nv_mtime_error : (runM (scanner_next (testExt 5) self0) [.ok ⟨['r', '/', 'x'], .ok { dirMeta with mtime := .error Rs.Err.io }⟩]).1 =
    .ok (some (.error Rs.Err.io)) := by
  rw [scanner_next_nf]; decide
/-- fuel exhaustion: two root answers use up a fuel of 2; a fuel of 3 reaches the entry (and any larger fuel agrees) -/
theorem nv_fuel_exhausted : (runM (scanner_next (testExt 2) self0) [rootE, rootE, linkE]).1 = .error Rs.Err.other := by
  rw [scanner_next_nf]; decide
theorem nv_fuel_enough : (runM (scanner_next (testExt 3) self0) [rootE, rootE, linkE]).1 = .ok (some (.ok linkFe)) := by
  rw [scanner_next_nf]; decide
theorem nv_decidedWithin : decidedWithin (testExt 0) self0 3 [rootE, rootE, linkE] = true ∧
    decidedWithin (testExt 0) self0 2 [rootE, rootE, linkE] = false := by decide
theorem nv_fuel_irrelevant (f : Nat) (hf : 3 ≤ f) :
    runM (scanner_next (withFuel (testExt 0) f) self0) [rootE, rootE, linkE] =
      runM (scanner_next (withFuel (testExt 0) 3) self0) [rootE, rootE, linkE] :=
  scanner_next_fuel_irrelevant (testExt 0) self0 3 f 3 _ (by decide) hf (Nat.le_refl 3)
/-- the hypotheses of the field theorems are met: `linkFe` is listed, and its path is clean -/
theorem nv_listed : Listed (testExt 5) self0 linkFe := ⟨[rootE, linkE], [], by rw [scanner_next_nf]; rfl⟩
theorem nv_clean : noDotTail linkFe.path = true := by decide
theorem nv_relative_path_ne_dot : linkFe.relative_path ≠ rootKey :=
  relative_path_ne_dot (testExt 5) self0 linkFe (by decide) ⟨[rootE, linkE], [], by rw [scanner_next_nf]; rfl⟩
/-- without cleanliness "." IS listed: a walker answering `r/.` (the real one never does) -/
theorem nv_dot_listed_without_cleanliness : (runM (scanner_next (testExt 5) self0) [.ok ⟨['r', '/', '.'], .ok dirMeta⟩]).1 =
    .ok (some (.ok { dirFe with path := ['r', '/', '.'], relative_path := ['.'] })) := by
  rw [scanner_next_nf]; decide
end nonvacuity

end SyModel.Props.GenScanner
