/-
  C16 — Filters select exactly the documented set (engine leg): entries that are filtered out
  are never created or updated in the destination.  Property theorems only.
-/
import SyModel.Lemmas.EngineEvents
import SyModel.Lemmas.EngineFilter
namespace SyModel.Props.C16Engine
open SyModel SyModel.Engine

/-- **Filtered entries are never transferred.**  For a scanned entry that the filter (rules,
    excluded ancestors, size bounds) drops:
    * no task of the plan — create, update, skip or delete — targets its path;
    * hence no action event and no error record of the report carries its path;
    * and the node at its path is unchanged by the run, under every fault plan, as long as the
      path is not a parent of a selected entry (sy creates missing parents of what it transfers)
      and — with `--delete` — the scan is parent-closed (no stale directory above it). -/
theorem filtered_never_transferred (cfg : Cfg) (flt : Faults) (scan : List SEntry) (dst : Map DNode) (n : Nat)
    (hu : UniqueRels scan) (e : SEntry) (he : e ∈ scan) (hf : e ∉ scanFilter cfg scan) :
    (∀ t ∈ plan cfg scan dst, t.rel ≠ e.rel) ∧
    (∀ a, (a, e.rel) ∉ (runF cfg flt scan dst n).events ∧ (a, e.rel) ∉ (runF cfg flt scan dst n).errors) ∧
    ((∀ s ∈ scanFilter cfg scan, isPrefix e.rel s.rel = false) →
      (cfg.delete = true → ParentClosed scan ∧ dst.get? [] = none) →
      (runF cfg flt scan dst n).dst.get? e.rel = dst.get? e.rel) := by
  have hplan : ∀ t ∈ plan cfg scan dst, t.rel ≠ e.rel := by
    intro t ht
    by_cases hd : t.act = .delete
    · obtain ⟨_, htd⟩ := deletion_of_task ht hd
      obtain ⟨p, rfl, _, _, hs, _⟩ := mem_planDeletions.1 htd
      exact fun h => hs e he h.symm
    · obtain ⟨s, hs, rfl⟩ := entry_of_task ht hd
      rw [planEntry_rel]
      intro hr
      have := hu.eq_of_rel (mem_of_mem_scanFilter hs) he hr
      subst this; exact hf hs
  refine ⟨hplan, fun a => ?_, fun hanc hdel => ?_⟩
  · cases hr : (runF cfg flt scan dst n).refused with
    | true =>
      unfold runF at hr ⊢
      simp only at hr ⊢
      split
      · simp
      · rename_i hg; simp [hg] at hr
    | false =>
      obtain ⟨_, h2, h3, _⟩ := runF_of_not_refused hr
      rw [h2, h3, List.mem_reverse, List.mem_reverse]
      -- events and errors only carry paths of planned tasks
      have key : ∀ (ts : List Task) (st : Exec) (ev : Act × Path),
          (ev ∈ (ts.foldl (execTask cfg flt) st).b.events ∨ ev ∈ (ts.foldl (execTask cfg flt) st).b.errors) →
          (ev ∈ st.b.events ∨ ev ∈ st.b.errors) ∨ ∃ t ∈ ts, ev.2 = t.rel := by
        intro ts
        induction ts with
        | nil => intro st ev h; exact Or.inl h
        | cons t ts ih =>
          intro st ev h
          rw [List.foldl_cons] at h
          rcases ih _ ev h with h1 | ⟨t', ht', hr'⟩
          · rcases execTask_events cfg flt st t with ⟨e1, e2⟩ | ⟨e1, e2⟩ <;> rw [e1, e2] at h1
            · rcases h1 with h1 | h1
              · exact Or.inl (Or.inl h1)
              · rcases List.mem_cons.1 h1 with h1 | h1
                · exact Or.inr ⟨t, List.mem_cons_self .., by rw [h1]⟩
                · exact Or.inl (Or.inr h1)
            · rcases h1 with h1 | h1
              · rcases List.mem_cons.1 h1 with h1 | h1
                · exact Or.inr ⟨t, List.mem_cons_self .., by rw [h1]⟩
                · exact Or.inl (Or.inl h1)
              · exact Or.inl (Or.inr h1)
          · exact Or.inr ⟨t', List.mem_cons_of_mem _ ht', hr'⟩
      have hno : ¬ ((a, e.rel) ∈ (finalExec cfg flt scan dst n).b.events ∨
          (a, e.rel) ∈ (finalExec cfg flt scan dst n).b.errors) := by
        intro h
        unfold finalExec at h
        rcases key _ _ _ h with h1 | ⟨t, ht, hr'⟩
        · rcases h1 with h1 | h1 <;> cases h1
        · exact hplan t ht hr'.symm
      exact ⟨fun h => hno (Or.inl h), fun h => hno (Or.inr h)⟩
  · cases hr : (runF cfg flt scan dst n).refused with
    | true => rw [runF_refused_dst hr]
    | false =>
      rw [(runF_of_not_refused hr).1]
      apply foldl_get?_eq
      intro t ht hcov
      rcases hcov with ⟨hd, hp⟩ | ⟨hd, _, hp⟩
      · obtain ⟨hdl, htd⟩ := deletion_of_task ht hd
        have := deletion_not_above (hdel hdl).1 (hdel hdl).2 htd he
        rw [hp] at this; cases this
      · obtain ⟨s, hs, rfl⟩ := entry_of_task ht hd
        rw [planEntry_rel] at hp
        rw [hanc s hs] at hp; cases hp

/-- What the filter drops, spelled out on one step of the fold (src/sync/mod.rs:370-411): an
    entry below an already excluded directory, an entry excluded by a rule, or a non-directory
    outside the size bounds is not selected. -/
theorem dropped_cases (cfg : Cfg) (e : SEntry) (rest : List SEntry) (ex : List Path)
    (h : ex.any (fun d => isPrefix d e.rel) = true ∨ e.excluded = true ∨
      (e.isDir = false ∧ sizeFiltered cfg e.size = true)) :
    scanFilterGo cfg (e :: rest) ex =
      scanFilterGo cfg rest (if ex.any (fun d => isPrefix d e.rel) = true then ex
        else if e.excluded = true ∧ e.isDir = true then ex ++ [e.rel] else ex) := by
  rw [scanFilterGo]
  by_cases h1 : ex.any (fun d => isPrefix d e.rel) = true
  · simp [h1]
  · by_cases h2 : e.excluded = true
    · by_cases h3 : e.isDir = true <;> simp [h1, h2, h3]
    · rcases h with h | h | ⟨h3, h4⟩
      · exact absurd h h1
      · exact absurd h h2
      · simp [h1, h2, h3, h4]

def exCfgOrder : Cfg where
  delete := false
  force := false
  dryRun := false
  xattrs := false
  hardlinks := false
  threshold := 50
  links := .preserve
  compare := .default
  minSize := none
  maxSize := none
  maxErrors := 100
  tie := false

/-- **Subtree exclusion relies on scan order, and holds under it**: when parents precede their
    children in the scan, nothing below a directory that is not selected (excluded by a rule, or
    itself below an excluded directory) is selected — hence (by `filtered_never_transferred`)
    nothing below it is ever transferred. -/
theorem excluded_dir_drops_subtree (cfg : Cfg) (scan : List SEntry) (hu : UniqueRels scan)
    (hpf : ParentsFirst scan) (d e : SEntry) (hd : d ∈ scan) (hdk : d.kind = .dir)
    (hdn : d ∉ scanFilter cfg scan) (hp : isPrefix d.rel e.rel = true) (hne : d.rel ≠ e.rel)
    (hd0 : d.rel ≠ []) : e ∉ scanFilter cfg scan :=
  below_unselected_dir_dropped hu hpf hd hdk hdn hp hne hd0

/-- … and conversely the selected set is closed under (non-root) ancestors. -/
theorem selected_closed_under_ancestors (cfg : Cfg) (scan : List SEntry) (hu : UniqueRels scan)
    (hpf : ParentsFirst scan) (e : SEntry) (he : e ∈ scanFilter cfg scan) (a : Path) (ha : a ≠ [])
    (hp : isPrefix a e.rel = true) (hne : a ≠ e.rel) :
    ∃ d ∈ scanFilter cfg scan, d.rel = a ∧ d.kind = .dir :=
  selected_ancestors_selected hu hpf he (mem_ancestors.2 ⟨ha, hp, hne⟩)

/-- the order matters: with the child listed *before* its excluded parent the child is selected
    (the situation `ParentsFirst` excludes; `ignore::Walk` never produces it) -/
theorem order_matters_counterexample :
    let child : SEntry := ⟨["a", "f"], .file (exMeta 1 1 1 1) 1, 1, false⟩
    let parent : SEntry := ⟨["a"], .dir, 0, true⟩
    child ∈ scanFilter exCfgOrder [child, parent] ∧ child ∉ scanFilter exCfgOrder [parent, child] := by decide

/-! ### non-vacuity: `big` is excluded by a rule and exists on both sides -/

def exCfg : Cfg where
  delete := true
  force := true
  dryRun := false
  xattrs := true
  hardlinks := false
  threshold := 50
  links := .preserve
  compare := .default
  minSize := none
  maxSize := some 500
  maxErrors := 100
  tie := false

def dstBig : Map DNode := (["big"], .file (exMeta 77 5 5 5)) :: exDst

example : (run exCfg exScan dstBig 1000).dst.get? ["big"] = some (.file (exMeta 77 5 5 5)) :=
  (filtered_never_transferred exCfg noFaults exScan dstBig 1000 (by decide)
    ⟨["big"], .file (exMeta 9 900 1 8) 1, 900, true⟩ (by decide) (by decide)).2.2 (by decide)
    (fun _ => ⟨by decide, by decide⟩)

/-- the same entry dropped by the size bound alone (not excluded, 900 > 500) -/
example : (⟨["big"], .file (exMeta 9 900 1 8) 1, 900, false⟩ : SEntry) ∉
    scanFilter exCfg [⟨["big"], .file (exMeta 9 900 1 8) 1, 900, false⟩] := by decide

end SyModel.Props.C16Engine
