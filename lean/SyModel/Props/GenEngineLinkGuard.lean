/-
  GenEngineLinkGuard — the guard of the worker loop of `SyncEngine::sync` added by repo fix 0e87354 (src/sync/mod.rs), TRANSLATED on
  every run into `SyModel/Generated/Code/EngineLinkGuard.lean`:

      let unreplaced = replaced_links.iter().find(|link| {
          task.dest_path != **link && task.dest_path.starts_with(link)
              && std::fs::symlink_metadata(link).map(|m| m.file_type().is_symlink()).unwrap_or(false) });

  A task for which this answers `Some(link)` is failed, not executed (glue: the error record, the `continue`).  C02: nothing is
  written below a destination link whose replacement by a directory failed — the path would lead through the link, possibly into the
  source tree (the defect: source files truncated to 0 bytes).  Proved about the translation, for every instance whose `lstat` does
  not change the world:

    * `unreplaced_link_eq`      — the answer is the FIRST replaced link that is strictly above the task's path and is still a symlink
                                   (`List.find?`), the world is untouched;
    * `detected`                — whenever such a link exists the answer is `some` (the task is not executed);
    * `no_false_positive`       — an answer `some l` means `l` is a replaced link, strictly above the path, still a symlink: tasks
                                   elsewhere, the replacement task itself, and tasks below a link that WAS replaced are executed;
    * `none_of_all_replaced`    — when every replacement succeeded (no replaced link is a symlink any more) nothing is held back.
-/
import SyModel.Generated.Code.EngineLinkGuard
namespace SyModel.Props.GenEngineLinkGuard
open SyModel.Generated SyModel.Generated.EngineLinkGuard

def runM {W α : Type} (x : Rs.M W α) (w : W) : Except Rs.Err α × W := x.run.run w

/-- `lstat` is a read: it answers, the world stays -/
def ReadOnly {W : Type} (ext : Ext W) : Prop := ∀ p w, (runM (ext.std_fs_symlink_metadata p) w).2 = w

/-- is the entry at `p` a symbolic link in world `w` (an `lstat` error counts as "no") -/
def isLink {W : Type} (ext : Ext W) (w : W) (p : Rs.Path) : Bool :=
  match (runM (ext.std_fs_symlink_metadata p) w).1 with
  | .ok m => m.kind == .symlink
  | .error _ => false

/-- the predicate of the `find` -/
def holds {W : Type} (ext : Ext W) (w : W) (task : SyncTask) (l : Rs.Path) : Bool :=
  (task.dest_path != l && Rs.path_starts_with task.dest_path l) && isLink ext w l

/-- a `for` loop over a list whose body only reads is a fold -/
theorem forIn_readonly {W σ α : Type} (g : α → σ → σ) (l : List α) (s : σ) (w : W) (body : α → σ → Rs.M W (ForInStep σ))
    (h : ∀ x s, runM (body x s) w = (.ok (ForInStep.yield (g x s)), w)) :
    runM (forIn l s body) w = (.ok (l.foldl (fun s x => g x s) s), w) := by
  induction l generalizing s with
  | nil => rfl
  | cons x xs ih =>
    have hx := h x s
    simp only [runM] at hx ih ⊢
    simp only [List.forIn_cons, ExceptT.run_bind, StateT.run_bind, hx, List.foldl_cons]
    exact ih (g x s)

theorem fold_find {α : Type} (P : α → Bool) (l : List α) (s : Option α) :
    l.foldl (fun s x => if s.isNone then (if P x then some x else s) else s) s = (match s with | some v => some v | none => l.find? P) := by
  induction l generalizing s with
  | nil => cases s <;> rfl
  | cons x xs ih =>
    rw [List.foldl_cons, ih]
    cases s with
    | some v => rfl
    | none =>
      by_cases hp : P x = true
      · simp [hp, List.find?_cons]
      · have : P x = false := by simpa using hp
        simp [this, List.find?_cons]

/-- **the guard, in closed form** -/
theorem unreplaced_link_eq {W : Type} (ext : Ext W) (hro : ReadOnly ext) (task : SyncTask) (links : List Rs.Path) (w : W) :
    runM (unreplaced_link ext task links) w = (.ok (links.find? (holds ext w task)), w) := by
  unfold unreplaced_link
  have key := forIn_readonly (W := W) (fun (l : Rs.Path) (s : Option Rs.Path) => if s.isNone then (if holds ext w task l then some l else s) else s)
    links none w
  simp only [runM] at key ⊢
  simp only [ExceptT.run_bind, StateT.run_bind]
  rw [key]
  · simp only [fold_find]; rfl
  · intro l s
    have hs := hro l w
    simp only [runM] at hs
    cases s with
    | some v => rfl
    | none =>
      simp only [Option.isNone_none, if_true, holds, isLink, runM]
      by_cases hc : (task.dest_path != l && Rs.path_starts_with task.dest_path l) = true
      · simp only [hc, if_true, Bool.true_and]
        rcases hr : ext.std_fs_symlink_metadata l w with ⟨r, w'⟩
        change (ext.std_fs_symlink_metadata l w).2 = w at hs
        rw [hr] at hs
        simp only at hs
        subst hs
        simp only [Rs.capture, ExceptT.run_bind, StateT.run_bind, bind, ExceptT.bind, ExceptT.mk, ExceptT.bindCont, ExceptT.lift, ExceptT.run,
          StateT.bind, StateT.run, Functor.map, StateT.map, pure, ExceptT.pure, StateT.pure, hr]
        cases r with
        | error e => rfl
        | ok m =>
          rcases m with ⟨k, n⟩
          cases k <;> rfl
      · have hf : (task.dest_path != l && Rs.path_starts_with task.dest_path l) = false := by simpa using hc
        simp only [hf, Bool.false_and, Bool.false_eq_true, if_false]
        rfl

/-- **C02**: a task strictly below a replaced link that is still a symlink is held back -/
theorem detected {W : Type} (ext : Ext W) (hro : ReadOnly ext) (task : SyncTask) (links : List Rs.Path) (w : W)
    (l : Rs.Path) (hl : l ∈ links) (hne : task.dest_path ≠ l) (hbelow : Rs.path_starts_with task.dest_path l = true)
    (hlink : isLink ext w l = true) :
    ∃ l', runM (unreplaced_link ext task links) w = (.ok (some l'), w) ∧ holds ext w task l' = true := by
  rw [unreplaced_link_eq ext hro]
  have hh : holds ext w task l = true := by simp [holds, hne, hbelow, hlink]
  cases hf : links.find? (holds ext w task) with
  | none => exact absurd hh (by simpa using List.find?_eq_none.mp hf l hl)
  | some l' => exact ⟨l', rfl, List.find?_some hf⟩

/-- an answer `some l` names a replaced link, strictly above the task's path, that is still a symlink -/
theorem no_false_positive {W : Type} (ext : Ext W) (hro : ReadOnly ext) (task : SyncTask) (links : List Rs.Path) (w w' : W)
    (l : Rs.Path) (h : runM (unreplaced_link ext task links) w = (.ok (some l), w')) :
    l ∈ links ∧ task.dest_path ≠ l ∧ Rs.path_starts_with task.dest_path l = true ∧ isLink ext w l = true := by
  rw [unreplaced_link_eq ext hro] at h
  have hf : links.find? (holds ext w task) = some l := by
    have := congrArg Prod.fst h; simpa using this
  have hm := List.mem_of_find?_eq_some hf
  have hp := List.find?_some hf
  simp only [holds, Bool.and_eq_true, bne_iff_ne, ne_eq] at hp
  exact ⟨hm, hp.1.1, hp.1.2, hp.2⟩

/-- when every replacement succeeded nothing is held back; in particular without replaced links -/
theorem none_of_all_replaced {W : Type} (ext : Ext W) (hro : ReadOnly ext) (task : SyncTask) (links : List Rs.Path) (w : W)
    (h : ∀ l ∈ links, isLink ext w l = false) :
    runM (unreplaced_link ext task links) w = (.ok none, w) := by
  rw [unreplaced_link_eq ext hro]
  have : links.find? (holds ext w task) = none := List.find?_eq_none.mpr (fun l hl => by simp [holds, h l hl])
  rw [this]

/-- the replacement task itself (its path IS the link) is never held back by its own link -/
theorem replacement_task_not_held_by_itself {W : Type} (ext : Ext W) (w : W) (task : SyncTask) :
    holds ext w task task.dest_path = false := by
  simp [holds]

/-! ### non-vacuity: a world that lists which paths are symlinks -/
namespace Example
def world : Ext (List Rs.Path) where
  std_fs_symlink_metadata p := fun w => pure (.ok ⟨if w.contains p then .symlink else .dir, 1⟩, w)
def mk (p : List Char) : SyncTask := { source := none, dest_path := p, action := .Create, source_checksum := none, dest_checksum := none }
theorem world_readonly : ReadOnly world := fun _ _ => rfl
/-- `d` is still a link: the task `d/a` is held back, the task `e/a` below the replaced `e` is not, nor is the task at `d` itself,
    nor `dx/a` whose name merely starts with `d` -/
example : (match (runM (unreplaced_link world (mk ['d', '/', 'a']) [['e'], ['d']]) [['d']]).1 with | .ok r => r == some ['d'] | .error _ => false) = true := by
  rw [unreplaced_link_eq world world_readonly]; decide
example : (match (runM (unreplaced_link world (mk ['e', '/', 'a']) [['e'], ['d']]) [['d']]).1 with | .ok r => r == none | .error _ => false) = true := by
  rw [unreplaced_link_eq world world_readonly]; decide
example : (match (runM (unreplaced_link world (mk ['d']) [['e'], ['d']]) [['d']]).1 with | .ok r => r == none | .error _ => false) = true := by
  rw [unreplaced_link_eq world world_readonly]; decide
example : (match (runM (unreplaced_link world (mk ['d', 'x', '/', 'a']) [['e'], ['d']]) [['d']]).1 with | .ok r => r == none | .error _ => false) = true := by
  rw [unreplaced_link_eq world world_readonly]; decide
end Example

end SyModel.Props.GenEngineLinkGuard
