/-
  GenMainExit — the two exit-status decisions of `main` (src/main.rs), TRANSLATED on every run into
  `SyModel/Generated/Code/MainExit.lean` as fragments of the 750-line `main`:

    * `verify_exit_code`  — `let exit_code = if !result.errors.is_empty() { 2 } else if … { 1 } else { 0 }` of the
      `--verify-only` arm, followed in the source by `std::process::exit(exit_code)`;
    * `sync_failed`       — the condition of the LAST `if` of `main` that mentions `stats`
      (`!stats.errors.is_empty() || stats.verification_failures > 0`), whose body is `anyhow::bail!(…)`: `main` then
      returns `Err`, which the Rust runtime turns into exit status 1.

  They are proved equal, for all inputs, to what the handwritten models say: `Engine.exitCode` (C15) and the `exit` field
  of `Engine.runF` (C10: the model's verification failures are error records, so the model's test is "no error record").
  A change of either decision in `main.rs` (a dropped clause, `>`→`>=`, swapped codes) changes the generated definition and
  breaks a theorem below.  Trusted: the translator's fragment selection (`let:exit_code`, `iflast:stats`) — that the
  fragments are what decides the process status is read off the source (`std::process::exit(exit_code)` / `bail!`) and is
  validated on every run by the binary-level streams (exit status compared per case).
-/
import SyModel.Generated.Code.MainExit
import SyModel.Engine.Verify
import SyModel.Engine.Model
namespace SyModel.Props.GenMainExit
open SyModel SyModel.Engine SyModel.Generated SyModel.Generated.MainExit

/-- the view of a model result: one opaque token per list element (the decisions only test emptiness) -/
def viewOf (r : VResult) : VerificationResultView :=
  { errors := r.errors.map (fun _ => ⟨⟩), files_mismatched := r.mismatched.map (fun _ => ⟨⟩),
    files_only_in_source := r.onlySrc.map (fun _ => ⟨⟩), files_only_in_dest := r.onlyDst.map (fun _ => ⟨⟩) }

private theorem is_empty_map {α β : Type} (l : List α) (f : α → β) : Rs.is_empty (l.map f) = l.isEmpty := by
  cases l <;> simp [Rs.is_empty, Rs.Len.len]

/-- **the translated `--verify-only` exit code is the model's `exitCode`** (C15), for every result -/
theorem verify_exit_code_eq_model (r : VResult) : verify_exit_code (viewOf r) = exitCode r := by
  unfold verify_exit_code exitCode viewOf
  simp only [is_empty_map]

/-- the code is 0 exactly when all four lists are empty; 2 exactly when a file could not be read; never above 2 -/
theorem verify_exit_code_zero_iff (v : VerificationResultView) :
    verify_exit_code v = 0 ↔ v.errors = [] ∧ v.files_mismatched = [] ∧ v.files_only_in_source = [] ∧ v.files_only_in_dest = [] := by
  unfold verify_exit_code
  rcases v with ⟨e, m, s, d⟩
  cases e <;> cases m <;> cases s <;> cases d <;> simp [Rs.is_empty, Rs.Len.len]

theorem verify_exit_code_two_iff (v : VerificationResultView) : verify_exit_code v = 2 ↔ v.errors ≠ [] := by
  unfold verify_exit_code
  rcases v with ⟨e, m, s, d⟩
  cases e <;> cases m <;> cases s <;> cases d <;> simp [Rs.is_empty, Rs.Len.len]

theorem verify_exit_code_le_two (v : VerificationResultView) : verify_exit_code v ≤ 2 := by
  unfold verify_exit_code
  repeat' split
  all_goals omega

/-- C15's headline about the TRANSLATED exit decision: it answers 0 on the model's result exactly when the model does,
    hence (`C15.verify_exit_zero_iff`) iff both trees hold the same files with equal content -/
theorem translated_verify_exit_zero_iff (c : VCfg) (src dst : List VEntry) :
    verify_exit_code (viewOf (verify c src dst)) = 0 ↔ exitCode (verify c src dst) = 0 := by
  rw [verify_exit_code_eq_model]

/-- **the translated failure test of a sync run**: it fires iff an operation failed or a verification failed -/
theorem sync_failed_iff (s : StatsView) : sync_failed s = true ↔ s.errors ≠ [] ∨ 0 < s.verification_failures := by
  unfold sync_failed
  rcases s with ⟨e, n⟩
  cases e <;> simp [Rs.is_empty, Rs.Len.len]

/-- exit status 0 (no `bail!`) means: no failed operation AND no failed verification (C10 "truthfully reported") -/
theorem sync_ok_clean (s : StatsView) (h : sync_failed s = false) : s.errors = [] ∧ s.verification_failures = 0 := by
  unfold sync_failed at h
  rcases s with ⟨e, n⟩
  cases e <;> simp_all [Rs.is_empty, Rs.Len.len]

/-- the statistics view of a model run: its error records (a failed verification is an error record in the model) -/
def statsOf (r : Result) : StatsView := { errors := r.errors.map (fun _ => ⟨⟩), verification_failures := 0 }

/-- **the model's exit status is the translated decision** applied to the model's error list (C10), for every
    configuration, fault plan, scan and destination — refused runs (mass-deletion guard) exit 1 before the decision -/
theorem model_exit_eq_translated (cfg : Cfg) (flt : Faults) (scan : List SEntry) (dst : Map DNode) (n : Nat)
    (hr : (runF cfg flt scan dst n).refused = false) :
    (runF cfg flt scan dst n).exit = if sync_failed (statsOf (runF cfg flt scan dst n)) then 1 else 0 := by
  by_cases hg : guardRefuses cfg ((plan cfg scan dst).filter (·.act == .delete)).length (destCount dst) = true
  · simp [runF, hg] at hr
  · simp only [runF, hg, statsOf, sync_failed, is_empty_map]
    cases (List.foldl (execTask cfg flt) (initExec dst n) (plan cfg scan dst)).b.errors <;> simp

/-- non-vacuity: a result with one mismatch exits 1, one with an unreadable file 2, a clean one 0; a run with one failed
    verification and no error record fails -/
example : verify_exit_code ⟨[], [⟨⟩], [], []⟩ = 1 ∧ verify_exit_code ⟨[⟨⟩], [⟨⟩], [], []⟩ = 2 ∧ verify_exit_code ⟨[], [], [], []⟩ = 0
    ∧ sync_failed ⟨[], 1⟩ = true ∧ sync_failed ⟨[], 0⟩ = false := by decide

end SyModel.Props.GenMainExit
