/-
  GenPlanner — the translated `StrategyPlanner::{mtime_matches, needs_update}` (src/sync/strategy.rs, as
  regenerated into `SyModel/Generated/Code/Planner.lean` on every run) compute the handwritten
  `Engine.mtimeMatches` / `Engine.needsUpdate` the engine model and C01/C03/C09 are about.

  Abstraction map.
    * `StrategyPlanner ↦ Compare` (`modeOf`): the three booleans `--checksum`, `--ignore-times`,
      `--size-only` as `with_comparison_flags` stores them, read in the order `needs_update` tests them:
        checksum = true                                   ↦ .checksum      (4 combinations)
        checksum = false, ignore_times = true             ↦ .ignoreTimes   (2 combinations)
        checksum = false, ignore_times = false, size_only ↦ .sizeOnly      (1 combination)
        all three false                                   ↦ .default       (1 combination)
      `verifier` is ignored by the map (it is `Some` exactly when `checksum`; `needs_update` never reads it).
    * `FileEntry ↦ (size, modified)`, `FileInfo ↦ (size, modified)`: every other field is ignored.
    * `mtime_tolerance`: the model has the tolerance built in (1 s); `with_comparison_flags` — the only
      constructor `SyncEngine::sync` uses (src/sync/mod.rs:524) — stores the literal `1`, which the
      constant extractor re-reads on every run as `Generated.MTIME_TOLERANCE_SECS`.  Hypothesis `FromCli`.
-/
import SyModel.Generated.Code.Planner
import SyModel.Generated.Consts
import SyModel.Engine.Model
namespace SyModel.Props.GenPlanner
open SyModel SyModel.Engine SyModel.Generated SyModel.Generated.Planner

/-- the comparison mode a planner value stands for; the order of the tests is the order of the `if`s of
    `needs_update`: checksum wins over ignore_times wins over size_only. -/
def modeOf (p : StrategyPlanner) : Compare :=
  if p.checksum then .checksum
  else if p.ignore_times then .ignoreTimes
  else if p.size_only then .sizeOnly
  else .default

/-- the 8 flag combinations, spelled out. -/
theorem modeOf_table (tol : Nat) (v : Option Rs.Opaque) :
    modeOf ⟨tol, false, false, false, v⟩ = .default ∧
    modeOf ⟨tol, false, true,  false, v⟩ = .sizeOnly ∧
    modeOf ⟨tol, true,  false, false, v⟩ = .ignoreTimes ∧
    modeOf ⟨tol, true,  true,  false, v⟩ = .ignoreTimes ∧
    modeOf ⟨tol, false, false, true,  v⟩ = .checksum ∧
    modeOf ⟨tol, false, true,  true,  v⟩ = .checksum ∧
    modeOf ⟨tol, true,  false, true,  v⟩ = .checksum ∧
    modeOf ⟨tol, true,  true,  true,  v⟩ = .checksum := by
  simp [modeOf]

/-- every mode is reached (the map is onto: nothing of the model's `Compare` is unreachable from the CLI). -/
theorem modeOf_onto (c : Compare) : ∃ p : StrategyPlanner, p.mtime_tolerance = MTIME_TOLERANCE_SECS ∧ modeOf p = c := by
  cases c
  · exact ⟨⟨MTIME_TOLERANCE_SECS, false, false, false, none⟩, rfl, rfl⟩
  · exact ⟨⟨MTIME_TOLERANCE_SECS, false, false, true, none⟩, rfl, rfl⟩
  · exact ⟨⟨MTIME_TOLERANCE_SECS, true, false, false, none⟩, rfl, rfl⟩
  · exact ⟨⟨MTIME_TOLERANCE_SECS, false, true, false, none⟩, rfl, rfl⟩

/-- the planner was built by `with_comparison_flags` (tolerance = the literal of that constructor). -/
def FromCli (p : StrategyPlanner) : Prop := p.mtime_tolerance = MTIME_TOLERANCE_SECS

/-- the constant re-read from the source on this run is the model's built-in tolerance. -/
theorem consts_ok_tolerance : MTIME_TOLERANCE_SECS = 1 := by decide
/-- `StrategyPlanner::new()` (the other constructor; used by tests and `Default`) stores the same literal, so
    `FromCli` holds for every planner the crate can build. -/
theorem consts_ok_tolerance_new : MTIME_TOLERANCE_S = MTIME_TOLERANCE_SECS := by decide

example : FromCli ⟨1, false, false, false, none⟩ := rfl

/-- `Rs.duration_since` + `as_secs` on either arm is the whole seconds of the absolute difference. -/
theorem mtime_matches_eq_absDiff (p : StrategyPlanner) (a b : Nat) :
    p.mtime_matches a b = decide (absDiff a b / 1000000000 ≤ p.mtime_tolerance) := by
  unfold StrategyPlanner.mtime_matches Rs.duration_since Rs.as_secs Rs.duration absDiff
  by_cases hab : a ≤ b <;> by_cases hba : b ≤ a
  · have : a = b := Nat.le_antisymm hab hba
    subst this; simp
  · simp [hab, hba]
  · simp [hab, hba]
  · omega

/-- BRIDGE: `mtime_matches` of a CLI-built planner is the model's `mtimeMatches`, for all time stamps. -/
theorem mtime_matches_eq_model (p : StrategyPlanner) (hp : FromCli p) (a b : Rs.SystemTime) :
    p.mtime_matches a b = mtimeMatches a b := by
  rw [mtime_matches_eq_absDiff, hp, consts_ok_tolerance]; rfl

/-- BRIDGE: `needs_update` of a CLI-built planner is the model's `needsUpdate` at the mode its flags stand
    for — all 8 flag combinations, all entries. -/
theorem needs_update_eq_model (p : StrategyPlanner) (hp : FromCli p) (src : FileEntry) (dst : FileInfo) :
    p.needs_update src dst = needsUpdate (modeOf p) src.size src.modified dst.size dst.modified := by
  have hm := mtime_matches_eq_model p hp src.modified dst.modified
  unfold StrategyPlanner.needs_update modeOf needsUpdate
  rw [← hm]
  generalize p.mtime_matches src.modified dst.modified = mm
  cases p.checksum <;> cases p.ignore_times <;> cases p.size_only <;> cases mm <;>
    cases hs : (src.size != dst.size) <;> simp [Id.run] <;> rfl

/-- the same, one line per flag combination (what a reader of the CLI wants to see). -/
theorem needs_update_eq_model_per_flags (v : Option Rs.Opaque) (src : FileEntry) (dst : FileInfo) :
    let P := fun it so ck => StrategyPlanner.needs_update ⟨MTIME_TOLERANCE_SECS, it, so, ck, v⟩ src dst
    let M := fun c => needsUpdate c src.size src.modified dst.size dst.modified
    P false false false = M .default ∧ P false true false = M .sizeOnly ∧
    P true false false = M .ignoreTimes ∧ P true true false = M .ignoreTimes ∧
    P false false true = M .checksum ∧ P false true true = M .checksum ∧
    P true false true = M .checksum ∧ P true true true = M .checksum := by
  intro P M
  refine ⟨?_, ?_, ?_, ?_, ?_, ?_, ?_, ?_⟩ <;> exact needs_update_eq_model ⟨_, _, _, _, _⟩ rfl src dst

end SyModel.Props.GenPlanner
