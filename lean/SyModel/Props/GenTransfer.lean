/-
  GenTransfer — the translated task executors of the one-way engine (`SyModel/Generated/Code/Transfer.lean`,
  regenerated on every run from src/sync/transfer.rs: `Transferrer::{create, update, delete, create_directory,
  copy_file, handle_symlink}`) do what the handwritten engine model's `perform` (`Engine/Model.lean`) does for the
  task they are called for — the `perform` that C01, C03, C06, C08, C10, C17, C19 are about.

  The world `XWorld` (the model's own `World` under a root text + what source path texts resolve to), the instance
  `extOf cfg : Ext XWorld` (every transport operation = the model's own helper at the key of its path: `mkdirAll`,
  `writeFile`, `writeSymlink`, `linkFile`/`relinkFile`, erase) and the abstraction maps (`absMode`, `absPayload`,
  `absTask`, `metaOf`, `Agrees`) are defined and documented in `Lemmas/GenTransfer.lean`.  Because the instance reuses
  the model's helpers, the theorems below are about the CONTROL FLOW of the executors: which operation is called when,
  on which path, what a dry run does, what each symlink mode does, when the hard-link hand-off is taken, what is
  written after a transfer.

  `runM x w` = (result, world afterwards).  `Agree xw k res m` reads: when the model's answer `m` is `some w'` the call
  returned `Ok` and the world is `xw` with `w := w'` (the WHOLE model world: destination map, link map, next inode,
  byte count); when it is `none` the call returned `Err(io)` and what is left is `xw` itself or `xw` with the parent
  directories of `k` created (`Left`).

  Part 1 — facts for ANY instance `ext : Ext W` (the world is whatever it is, the operations do whatever they do).
  Part 2 — the bridges on `extOf cfg`, for every executor value, entry, key, world, under these hypotheses (each with a
           satisfiability example in Part 5):
    * `Agrees self cfg`   the executor value and `cfg` describe the same run (dry_run, -H, symlink mode);
    * `CleanPath k`, and the call is made with `dest_path = destOf root k = root.join(text of k)`: the destination path
                          of a task is `dest_root.join(relative_path)` of a walked entry (non-empty components, no `/`);
    * `Readable cfg e`    a symlink entry has `symlink_target = Some(..)` unless the mode is skip — the model has no
                          unreadable links; `unreadable_link_fails` says what the code does then;
    * `SrcFile xw e`      a regular-file entry still names a regular file — the model has no vanishing sources;
                          `create_vanished_source_fails` says what the code does then;
    * `HasInode cfg e`    with -H a multiply-linked regular file carries `inode = Some(..)` (always on Unix);
                          `hardlink_without_inode_is_plain_copy` says what the code does otherwise;
    * (no more `NotPlainDir e`: since fix 862af11 `update` of a plain directory entry is planned — for a destination
                          link standing where the source has a directory — and bridged: `update_dir_call_sequence`,
                          `update_dir_eq_model`; `update_eq_model` covers every entry kind);
    * `FlagOK`            (delete only) the `is_dir` flag describes the node (computed by the engine right before).
  Part 3 — where code and model differ (concrete inputs).
  Part 4 — C17 restated about the TRANSLATED `create`: preserve / follow / skip, and the xattrs of a transferred file.
-/
import SyModel.Lemmas.GenTransfer
set_option linter.unusedVariables false
set_option linter.unusedSimpArgs false
namespace SyModel.Props.GenTransfer
open SyModel SyModel.Engine SyModel.Generated SyModel.Generated.Transfer SyModel.Lemmas.GenTransfer

/-! ## Part 1 — control flow, for ANY instance -/

section anyInstance
variable {W : Type} (ext : Ext W) (self : Transferrer) (e : FileEntry) (d : Rs.Path) (w : W)

/-- DRY RUN: with `dry_run` all three executors return `Ok` without calling any operation — whatever the operations
    would do, the world is unchanged (diff mode or not, every entry kind, every flag). -/
theorem dry_run_changes_nothing (hdry : self.dry_run = true) (isDir : Bool) :
    runM (self.create ext e d) w = (.ok none, w) ∧ runM (self.update ext e d) w = (.ok none, w) ∧
      runM (self.delete ext d isDir) w = (.ok (), w) := by
  refine ⟨?_, ?_, ?_⟩
  · unfold Transferrer.create
    simp only [hdry, ↓reduceIte]
    split <;> rfl
  · unfold Transferrer.update
    simp only [hdry, ↓reduceIte]
    split <;> rfl
  · unfold Transferrer.delete
    simp only [hdry, ↓reduceIte]
    rfl

/-- `delete` outside a dry run is exactly ONE call of `Transport::remove` on the same path with the same flag. -/
theorem delete_calls_remove_once (hdry : self.dry_run = false) (isDir : Bool) :
    runM (self.delete ext d isDir) w = runM (ext.t_remove self.transport d isDir) w := by
  unfold Transferrer.delete
  simp only [hdry, Bool.false_eq_true, ↓reduceIte, runM_bind]
  rcases runM (ext.t_remove self.transport d isDir) w with ⟨r, w'⟩
  cases r <;> rfl

/-- `create` of a directory entry is exactly one `create_dir_all(dest_path)`; the answer is `Ok(None)`. -/
theorem create_dir_calls_only_create_dir_all (hdry : self.dry_run = false) (hs : e.is_symlink = false)
    (hd : e.is_dir = true) :
    runM (self.create ext e d) w = runM (ext.t_create_dir_all self.transport d >>= fun _ => pure none) w := by
  unfold Transferrer.create Transferrer.create_directory
  simp only [hdry, hs, hd, Bool.false_eq_true, ↓reduceIte, runM_bind]
  rcases runM (ext.t_create_dir_all self.transport d) w with ⟨r, w'⟩
  cases r <;> rfl

/-- `Rs.capture` (a `Result` kept as a value): the computation runs, its outcome is the value, nothing is thrown -/
theorem runM_capture {W α : Type} (x : Rs.M W α) (w : W) :
    runM (Rs.capture x) w = ((.ok (runM x w).1 : Except Rs.Err (Except Rs.Err α)), (runM x w).2) := by
  simp only [runM, Rs.capture]
  rfl

/-- `update` of a plain directory entry (planned only when the destination holds a symlink where the source has a
    directory, fix 862af11): a dry run calls nothing; a real run probes the path with `read_link`, removes the entry (as a
    non-directory: the link itself) when the probe answers "a link" — a failing probe is "no link" —, then runs
    `create_dir_all`; the answer is `Ok(None)`, and a failing removal or creation fails the task. -/
theorem update_dir_call_sequence (hdry : self.dry_run = false) (hs : e.is_symlink = false) (hd : e.is_dir = true) :
    runM (self.update ext e d) w =
      match runM (ext.t_read_link self.transport d) w with
      | (.ok (some _), w1) =>
        (match runM (ext.t_remove self.transport d false) w1 with
         | (.ok _, w2) =>
           (match runM (ext.t_create_dir_all self.transport d) w2 with
            | (.ok _, w3) => (.ok none, w3)
            | (.error er, w3) => (.error er, w3))
         | (.error er, w2) => (.error er, w2))
      | (_, w1) =>
        (match runM (ext.t_create_dir_all self.transport d) w1 with
         | (.ok _, w3) => (.ok none, w3)
         | (.error er, w3) => (.error er, w3)) := by
  unfold Transferrer.update Transferrer.create_directory
  simp only [hdry, hs, hd, Bool.false_eq_true, ↓reduceIte, Bool.not_true, Bool.false_and, runM_bind, runM_capture]
  rcases h1 : runM (ext.t_read_link self.transport d) w with ⟨r, w1⟩
  rcases r with er | (_ | t)
  · simp only [runM_bind, runM_pure]
    rcases runM (ext.t_create_dir_all self.transport d) w1 with ⟨r3, w3⟩
    cases r3 <;> rfl
  · simp only [runM_bind, runM_pure]
    rcases runM (ext.t_create_dir_all self.transport d) w1 with ⟨r3, w3⟩
    cases r3 <;> rfl
  · simp only [runM_bind, runM_pure]
    rcases runM (ext.t_remove self.transport d false) w1 with ⟨r2, w2⟩
    cases r2
    · rfl
    · simp only []
      rcases runM (ext.t_create_dir_all self.transport d) w2 with ⟨r3, w3⟩
      cases r3 <;> rfl

theorem update_dir_dry_run_does_nothing (hdry : self.dry_run = true) :
    runM (self.update ext e d) w = (.ok none, w) :=
  (dry_run_changes_nothing ext self e d w hdry false).2.1

/-- SKIP mode: nothing is called for a symlink entry, by `create` or by `update`. -/
theorem skip_mode_calls_nothing (hs : e.is_symlink = true) (hm : self.symlink_mode = .Skip) :
    runM (self.create ext e d) w = (.ok none, w) ∧ runM (self.update ext e d) w = (.ok none, w) := by
  cases hdry : self.dry_run with
  | true => exact ⟨(dry_run_changes_nothing ext self e d w hdry false).1, (dry_run_changes_nothing ext self e d w hdry false).2.1⟩
  | false =>
    unfold Transferrer.create Transferrer.update Transferrer.handle_symlink
    constructor <;> simp only [hdry, hs, hm, Bool.false_eq_true, ↓reduceIte] <;> rfl

/-- PRESERVE mode: exactly one `create_symlink(target text, dest_path)`; the answer is `Ok(None)`. -/
theorem preserve_mode_calls_create_symlink_once (hdry : self.dry_run = false) (hs : e.is_symlink = true)
    (hm : self.symlink_mode = .Preserve) (t : Rs.Path) (ht : e.symlink_target = some t) :
    runM (self.create ext e d) w = runM (ext.t_create_symlink self.transport t d >>= fun _ => pure none) w ∧
      runM (self.update ext e d) w = runM (ext.t_create_symlink self.transport t d >>= fun _ => pure none) w := by
  unfold Transferrer.create Transferrer.update Transferrer.handle_symlink
  constructor <;> simp only [hdry, hs, hm, ht, Bool.false_eq_true, ↓reduceIte]

/-- a link the scanner could not read (`symlink_target = None`) is an ERROR in preserve and in follow mode, and nothing
    is called. -/
theorem unreadable_link_fails (hdry : self.dry_run = false) (hs : e.is_symlink = true)
    (hm : self.symlink_mode ≠ .Skip) (ht : e.symlink_target = none) :
    runM (self.create ext e d) w = (.error .io, w) ∧ runM (self.update ext e d) w = (.error .io, w) := by
  unfold Transferrer.create Transferrer.update Transferrer.handle_symlink
  cases hmode : self.symlink_mode with
  | Skip => exact absurd hmode hm
  | Preserve =>
    constructor <;> simp only [hdry, hs, ht, Bool.false_eq_true, ↓reduceIte] <;> rfl
  | Follow =>
    constructor <;>
      simp only [hdry, hs, ht, Rs.is_some, Option.isSome_none, Bool.false_eq_true, ↓reduceIte] <;> rfl

/-- -H: a regular file with several names and a known inode is handed to `transfer_link_member` — with
    `is_update = false` by `create`, `true` by `update` — and NOTHING else is called (no `write_xattrs` afterwards). -/
theorem hardlink_candidate_is_handed_off (hdry : self.dry_run = false) (hs : e.is_symlink = false)
    (hd : e.is_dir = false) (hh : self.preserve_hardlinks = true) (hn : 1 < e.nlink) (i : Nat)
    (hi : e.inode = some i) :
    runM (self.create ext e d) w = runM (ext.transfer_link_member self e d i false) w ∧
      runM (self.update ext e d) w = runM (ext.transfer_link_member self e d i true) w := by
  have hn' : decide (e.nlink > 1) = true := by simpa using hn
  unfold Transferrer.create Transferrer.update
  constructor
  · simp only [hdry, hs, hd, hh, hn', hi, Bool.false_eq_true, ↓reduceIte, Bool.and_self]
  · simp only [hdry, hs, hd, hh, hn', hi, Bool.false_eq_true, ↓reduceIte, Bool.not_false, Bool.and_self, runM_bind]
    rcases runM (ext.transfer_link_member self e d i true) w with ⟨r, w'⟩
    cases r <;> rfl

/-- without -H, or for a singly linked file, or when the entry carries no inode number, `transfer_link_member` is never
    called: `create` is `copy_file` then the
    three attribute writers, `update` is `sync_file_with_delta` then the three attribute writers — in this order, on
    `(source.path, dest_path)`. -/
theorem plain_file_call_sequence (hdry : self.dry_run = false) (hs : e.is_symlink = false) (hd : e.is_dir = false)
    (hh : self.preserve_hardlinks = false ∨ e.nlink ≤ 1 ∨ e.inode = none) :
    runM (self.create ext e d) w =
        runM (self.copy_file ext e.path d >>= fun r => ext.write_xattrs self e d >>= fun _ =>
          ext.write_acls self e d >>= fun _ => ext.write_bsd_flags self e d >>= fun _ => pure (some r)) w ∧
      runM (self.update ext e d) w =
        runM (ext.t_sync_file_with_delta self.transport e.path d >>= fun r => ext.write_xattrs self e d >>= fun _ =>
          ext.write_acls self e d >>= fun _ => ext.write_bsd_flags self e d >>= fun _ => pure (some r)) w := by
  unfold Transferrer.create Transferrer.update
  rcases hh with h | h | h
  · constructor <;> simp only [hdry, hs, hd, h, Bool.false_eq_true, ↓reduceIte, Bool.not_false, Bool.false_and,
      Bool.and_false, Bool.true_and]
  · have hc : decide (e.nlink > 1) = false := by
      have : ¬ (e.nlink > 1) := by omega
      simp [this]
    constructor <;> simp only [hdry, hs, hd, hc, Bool.false_eq_true, ↓reduceIte, Bool.not_false, Bool.false_and,
      Bool.and_false, Bool.true_and]
  · constructor <;> (simp only [hdry, hs, hd, h, Bool.false_eq_true, ↓reduceIte, Bool.not_false, Bool.true_and]
                     split <;> rfl)

end anyInstance

/-! ## Part 2 — the bridges on the model's instance -/

/-- BRIDGE (`create`): for every executor value, entry, key and world, running the translated `create` on the model's
    instance agrees with `perform` of the create task for that entry: `Ok` in exactly the world `perform` computes, `Err`
    exactly when `perform` gives `none`.  Every payload kind: directory, regular file, hard-link candidate with/without
    -H (first member or later member), symlink in skip / preserve / follow mode (dangling, directory and file targets),
    with and without dry run. -/
theorem create_eq_model (cfg : Cfg) (self : Transferrer) (ha : Agrees self cfg) (xw : XWorld) (e : FileEntry)
    (k : Engine.Path) (hk : CleanPath k) (hread : Readable cfg e) (hsrc : SrcFile xw e) (hino : HasInode cfg e) :
    Agree xw k (runM (self.create (extOf cfg) e (destOf xw.root k)) xw)
      (perform cfg xw.w (absTask cfg xw .create e k)) :=
  create_agree cfg self ha xw e k hk hread hsrc hino

/-- BRIDGE (`update`): the same for the update task (later members of a link group are RE-linked; `sync_file_with_delta`
    instead of `copy_file`). -/
theorem update_eq_model (cfg : Cfg) (self : Transferrer) (ha : Agrees self cfg) (xw : XWorld) (e : FileEntry)
    (k : Engine.Path) (hk : CleanPath k) (hread : Readable cfg e) (hsrc : SrcFile xw e) (hino : HasInode cfg e) :
    Agree xw k (runM (self.update (extOf cfg) e (destOf xw.root k)) xw)
      (perform cfg xw.w (absTask cfg xw .update e k)) :=
  update_agree cfg self ha xw e k hk hread hsrc hino

/-- BRIDGE (`update` of a plain DIRECTORY entry, fix 862af11 — the replacement of a destination link standing where the
    source has a directory): running the translated `update` (`read_link` probe → `remove(path, false)` of a link →
    `create_dir_all`) on the model's instance agrees with `perform` of the `.update` task with payload `.dir`, success
    and failure, for EVERY node at the key — absent or a directory (`create_dir_all` alone), a regular file (the probe
    answers "not a link", `create_dir_all` fails, nothing changes), a symlink (unlinked as itself, never followed; then
    the directory is created).  No hypothesis on the entry beyond its kind. -/
theorem update_dir_eq_model (cfg : Cfg) (self : Transferrer) (ha : Agrees self cfg) (xw : XWorld) (e : FileEntry)
    (k : Engine.Path) (hk : CleanPath k) (hs : e.is_symlink = false) (hdir : e.is_dir = true) :
    Agree xw k (runM (self.update (extOf cfg) e (destOf xw.root k)) xw)
      (perform cfg xw.w (absTask cfg xw .update e k)) :=
  update_dir_agree cfg self ha xw e k hk hs hdir

/-- … and what that means at the key, for a real (non-dry) run over a symlink node: `Ok`, the node at the key is a
    directory afterwards, and every other path of the destination map is as it was except absent ancestors (now
    directories) — the link's text is never used. -/
theorem update_dir_over_link_replaces (cfg : Cfg) (self : Transferrer) (ha : Agrees self cfg) (hnd : cfg.dryRun = false)
    (xw : XWorld) (e : FileEntry) (k : Engine.Path) (hk : CleanPath k) (hs : e.is_symlink = false)
    (hdir : e.is_dir = true) (t : String) (hl : xw.w.dst.get? k = some (.symlink t))
    (hanc : ∀ a, a ≠ [] → isPrefix a k = true → a ≠ k → xw.w.dst.get? a = some .dir) :
    ∃ r xw', runM (self.update (extOf cfg) e (destOf xw.root k)) xw = (.ok r, xw') ∧
      xw'.w.dst.get? k = some .dir ∧ ∀ x, x ≠ k → xw'.w.dst.get? x = xw.w.dst.get? x := by
  have hag := update_dir_eq_model cfg self ha xw e k hk hs hdir
  have hp : ∃ w', perform cfg xw.w (absTask cfg xw .update e k) = some w' ∧ w'.dst.get? k = some .dir ∧
      ∀ x, x ≠ k → w'.dst.get? x = xw.w.dst.get? x := by
    unfold absTask
    rw [perform_update cfg _ _ _ hnd]
    simp only [absPayload, hs, hdir, cuArm, Bool.false_eq_true, ↓reduceIte, mkdirW, unlinkLink_of_link _ _ t hl]
    have hdirs : ∀ x, x ≠ [] → isPrefix x k = true → x ≠ k → (xw.w.dst.erase k).get? x = some .dir := by
      intro x hx hp hne
      rw [Map.get?_erase]; simp only [Ne.symm hne, ↓reduceIte]; exact hanc x hx hp hne
    cases hm : mkdirAll (xw.w.dst.erase k) k with
    | none =>
      exfalso
      -- every strict prefix is a directory and the key itself is absent: `mkdirAll` cannot fail
      have hpar : mkdirAll (xw.w.dst.erase k) (parentOf k) = some (xw.w.dst.erase k) :=
        mkdirAll_of_dirs _ _ (fun x hx hp => hdirs x hx (isPrefix_trans hp (parentOf_isPrefix k)) (by
          intro he; subst he
          have h1 := isPrefix_length hp
          have : 0 < x.length := List.length_pos_iff.mpr hx
          simp [parentOf] at h1; omega))
      have hk0 : (xw.w.dst.erase k).get? k = none := by simp [Map.get?_erase]
      have : mkdirAll (xw.w.dst.erase k) k = some ((xw.w.dst.erase k).set k .dir) := by
        rw [mkdirAll_eq]
        rw [List.foldl_append]
        rw [mkdirAll_eq] at hpar
        have hanc' : (ancestors k).foldl mkStep (some (xw.w.dst.erase k)) = some (xw.w.dst.erase k) :=
          foldl_mkStep_of_dirs _ _ (fun x hx hne => by
            obtain ⟨h1, h2, h3⟩ := mem_ancestors.1 hx
            exact hdirs x h1 h2 h3)
        rw [hanc']
        simp [mkStep, hk.1, hk0]
      rw [this] at hm; cases hm
    | some d =>
      refine ⟨_, rfl, mkdirAll_dirs hm k hk.1 (isPrefix_refl k), fun x hx => ?_⟩
      show d.get? x = _
      rcases mkdirAll_frame hm x with h | ⟨_, hp, hn, _⟩
      · rw [h, Map.get?_erase]; simp [Ne.symm hx]
      · -- an absent strict prefix would contradict `hanc`
        exfalso
        have := hdirs x (by intro h0; subst h0; simp_all) hp hx
        rw [this] at hn; cases hn
  obtain ⟨w', hw, h1, h2⟩ := hp
  rw [hw] at hag
  obtain ⟨r, hr⟩ := hag
  exact ⟨r, _, hr, h1, h2⟩

/-- BRIDGE (`delete`), entry present: `Ok`, and the world is `perform`'s — a directory goes with its subtree, a file or
    link alone; a dry run changes nothing.  (`perform` never answers `none` for a delete task.) -/
theorem delete_eq_model (cfg : Cfg) (self : Transferrer) (hdry : self.dry_run = cfg.dryRun) (xw : XWorld)
    (k : Engine.Path) (hk : CleanPath k) (isDir : Bool) (pl : Payload) (n : DNode) (hn : xw.w.dst.get? k = some n)
    (hf : FlagOK xw.w k isDir) :
    Agree xw k (runM (self.delete (extOf cfg) (destOf xw.root k) isDir) xw) (perform cfg xw.w ⟨.delete, k, pl⟩) := by
  rw [delete_run cfg self xw k hk isDir, perform_delete_at, hdry]
  cases hd : cfg.dryRun with
  | true => exact ⟨(), rfl⟩
  | false =>
    simp only [Bool.false_eq_true, ↓reduceIte, removeW, hn]
    cases n with
    | dir => simp only [hf.1 hn, ↓reduceIte, Option.map_some, outcome_some]; exact ⟨(), rfl⟩
    | file m => simp only [hf.2 m hn, Bool.false_eq_true, ↓reduceIte, Option.map_some, outcome_some]; exact ⟨(), rfl⟩
    | symlink t => simp only [Option.map_some, outcome_some]; exact ⟨(), rfl⟩

/-- `delete`, entry ABSENT (it went with its parent directory): `Transport::remove` fails (NotFound) and so does
    `Transferrer::delete`, leaving the world as it was — which is the world `perform` answers.  The engine turns exactly
    this error into success OUTSIDE the translated unit (src/sync/mod.rs:1085-1095), which is what `perform` records. -/
theorem delete_absent_is_not_found (cfg : Cfg) (self : Transferrer) (hdry : self.dry_run = false)
    (hd : cfg.dryRun = false) (xw : XWorld) (k : Engine.Path) (hk : CleanPath k) (isDir : Bool) (pl : Payload)
    (hn : xw.w.dst.get? k = none) :
    runM (self.delete (extOf cfg) (destOf xw.root k) isDir) xw = (.error .io, xw) ∧
      perform cfg xw.w ⟨.delete, k, pl⟩ = some xw.w := by
  rw [delete_run cfg self xw k hk isDir, perform_delete_at]
  simp [hdry, hd, removeW, hn]

/-- a wrong flag makes `remove` fail and nothing is removed (`remove_file` on a directory: EISDIR; `remove_dir_all` on a
    regular file: ENOTDIR). -/
theorem delete_wrong_flag_fails (cfg : Cfg) (self : Transferrer) (hdry : self.dry_run = false) (xw : XWorld)
    (k : Engine.Path) (hk : CleanPath k) :
    (xw.w.dst.get? k = some .dir → runM (self.delete (extOf cfg) (destOf xw.root k) false) xw = (.error .io, xw)) ∧
    (∀ m, xw.w.dst.get? k = some (.file m) →
      runM (self.delete (extOf cfg) (destOf xw.root k) true) xw = (.error .io, xw)) := by
  refine ⟨fun hn => ?_, fun m hn => ?_⟩ <;>
    rw [delete_run cfg self xw k hk] <;> simp [hdry, removeW, hn]

/-! ### the bridges in plain words -/

section plain
variable (cfg : Cfg) (self : Transferrer) (ha : Agrees self cfg) (xw : XWorld) (e : FileEntry) (k : Engine.Path)
  (hk : CleanPath k) (hread : Readable cfg e) (hsrc : SrcFile xw e) (hino : HasInode cfg e)
include ha hk hread hsrc hino

/-- `create` returns `Ok` exactly when the model's task succeeds … -/
theorem create_ok_iff_model :
    (∃ r xw', runM (self.create (extOf cfg) e (destOf xw.root k)) xw = (.ok r, xw')) ↔
      (perform cfg xw.w (absTask cfg xw .create e k)).isSome = true :=
  (create_eq_model cfg self ha xw e k hk hread hsrc hino).ok_iff

/-- … then the world it leaves is the model's (root and sources untouched) … -/
theorem create_ok_world (r : Option TransferResult) (xw' : XWorld)
    (h : runM (self.create (extOf cfg) e (destOf xw.root k)) xw = (.ok r, xw')) :
    perform cfg xw.w (absTask cfg xw .create e k) = some xw'.w ∧ xw' = { xw with w := xw'.w } :=
  (create_eq_model cfg self ha xw e k hk hread hsrc hino).world h

/-- … and it returns `Err` exactly when the model's task fails; what is left is the world as it was, or with the
    parent directories of the path created. -/
theorem create_err_iff_model :
    (∃ er xw', runM (self.create (extOf cfg) e (destOf xw.root k)) xw = (.error er, xw')) ↔
      perform cfg xw.w (absTask cfg xw .create e k) = none :=
  (create_eq_model cfg self ha xw e k hk hread hsrc hino).err_iff

theorem create_err_left (er : Rs.Err) (xw' : XWorld)
    (h : runM (self.create (extOf cfg) e (destOf xw.root k)) xw = (.error er, xw')) : er = .io ∧ Left xw xw' k :=
  ((create_eq_model cfg self ha xw e k hk hread hsrc hino).left h).2

theorem update_ok_iff_model :
    (∃ r xw', runM (self.update (extOf cfg) e (destOf xw.root k)) xw = (.ok r, xw')) ↔
      (perform cfg xw.w (absTask cfg xw .update e k)).isSome = true :=
  (update_eq_model cfg self ha xw e k hk hread hsrc hino).ok_iff

theorem update_ok_world (r : Option TransferResult) (xw' : XWorld)
    (h : runM (self.update (extOf cfg) e (destOf xw.root k)) xw = (.ok r, xw')) :
    perform cfg xw.w (absTask cfg xw .update e k) = some xw'.w ∧ xw' = { xw with w := xw'.w } :=
  (update_eq_model cfg self ha xw e k hk hread hsrc hino).world h

theorem update_err_iff_model :
    (∃ er xw', runM (self.update (extOf cfg) e (destOf xw.root k)) xw = (.error er, xw')) ↔
      perform cfg xw.w (absTask cfg xw .update e k) = none :=
  (update_eq_model cfg self ha xw e k hk hread hsrc hino).err_iff

end plain


/-! ## Part 3 — where the code and the model differ -/


/-- OUTSIDE THE MODEL (a source that vanished or stopped being a regular file after the scan): `create` of a
    regular-file entry fails in `copy_file`, after `create_dir_all(parent)`; nothing is written at the path.  The model
    has no such event of its own — it is one of the faults of `execTask`'s fault plan (the task fails, the path keeps
    what it had). -/
theorem create_vanished_source_fails (cfg : Cfg) (self : Transferrer) (xw : XWorld) (e : FileEntry) (k : Engine.Path)
    (hk : CleanPath k) (hdry : self.dry_run = false) (hs : e.is_symlink = false) (hdir : e.is_dir = false)
    (hh : self.preserve_hardlinks = false ∨ e.nlink ≤ 1 ∨ e.inode = none)
    (hgone : ∀ sm, xw.src e.path ≠ .file sm) :
    ∃ xw', runM (self.create (extOf cfg) e (destOf xw.root k)) xw = (.error .io, xw') ∧ Left xw xw' k ∧
      xw'.w.dst.get? k = xw.w.dst.get? k := by
  rw [(plain_file_call_sequence (extOf cfg) self e _ xw hdry hs hdir hh).1]
  obtain ⟨xw', h1, h2⟩ := copy_file_err_strong cfg self xw e.path k hk (fun sm h => absurd h (hgone sm))
  refine ⟨xw', runM_bind_error h1, h2.elim Or.inl (fun h => Or.inr (Or.inl h)), ?_⟩
  rcases h2 with rfl | ⟨d, hm, rfl⟩
  · rfl
  · show d.get? k = xw.w.dst.get? k
    rcases mkdirAll_frame hm k with h | ⟨_, hp, _, _⟩
    · exact h
    · -- `k` is no prefix of its own parent
      exfalso
      have := isPrefix_length hp
      have hl : (parentOf k).length < k.length := by
        unfold parentOf; rw [List.length_dropLast]
        have : 0 < k.length := List.length_pos_iff.mpr hk.1
        omega
      omega

/-- the follow arm of `handle_symlink` (a SYMLINK entry in follow mode) transfers no attributes even with -X: it calls
    `copy_file` only.  In the engine that arm is not reached for links to files: `plan_symlink` hands the executors a
    dereferenced NON-symlink entry (src/sync/mod.rs:1466-1480), which takes the regular-file path and does write the
    entry's attributes; the model's `planEntry` payload `.file m 1` (the target's meta) describes that path.  Stated as
    `create_follow_copies_target` below (`node.xattrs = []`). -/
theorem follow_arm_payload_has_no_xattrs (sm : FileMeta) : (followMeta sm).xattrs = [] := rfl

/-! ## Part 4 — C17 about the translated `create` -/

section c17
variable (cfg : Cfg) (self : Transferrer) (ha : Agrees self cfg) (xw : XWorld) (e : FileEntry) (k : Engine.Path)
  (hk : CleanPath k) (hd : cfg.dryRun = false)
include ha hk hd

/-- C17 preserve: after a successful `create` of a symlink entry the destination holds a SYMLINK with exactly the
    source link's target text — whatever was at the path before (nothing, a file, another link), whatever the link
    points to (dangling, relative, absolute, a directory). -/
theorem create_preserve_places_link (hs : e.is_symlink = true) (hl : cfg.links = .preserve) (t : Rs.Path)
    (ht : e.symlink_target = some t) (r : Option TransferResult) (xw' : XWorld)
    (h : runM (self.create (extOf cfg) e (destOf xw.root k)) xw = (.ok r, xw')) :
    xw'.w.dst.get? k = some (.symlink (String.ofList t)) := by
  have hw := ((create_eq_model cfg self ha xw e k hk (fun _ _ => by simp [ht]) (fun h' => by simp [hs] at h')
    (fun h' => by simp [hs] at h')).world h).1
  unfold absTask at hw
  rw [perform_create cfg _ _ _ hd] at hw
  simp only [absPayload, hs, hl, ht, ↓reduceIte, cuArm] at hw
  obtain ⟨d, _, _, hdst, _⟩ := writeSymlink_spec hw
  rw [hdst, Map.get?_set_same]

/-- C17 follow: a link whose target is a regular file becomes a REGULAR FILE with the target's content, size and mtime
    (and no attributes: see `follow_arm_payload_has_no_xattrs`). -/
theorem create_follow_copies_target (hs : e.is_symlink = true) (hl : cfg.links = .follow) (t : Rs.Path)
    (ht : e.symlink_target = some t) (sm : FileMeta) (hsm : xw.src e.path = .file sm) (r : Option TransferResult)
    (xw' : XWorld) (h : runM (self.create (extOf cfg) e (destOf xw.root k)) xw = (.ok r, xw')) :
    ∃ node, xw'.w.dst.get? k = some (.file node) ∧ node.content = sm.content ∧ node.size = sm.size ∧
      node.mtime = sm.mtime ∧ node.xattrs = [] := by
  have hw := ((create_eq_model cfg self ha xw e k hk (fun _ _ => by simp [ht]) (fun h' => by simp [hs] at h')
    (fun h' => by simp [hs] at h')).world h).1
  unfold absTask at hw
  rw [perform_create cfg _ _ _ hd] at hw
  simp only [absPayload, hs, hl, hsm, ↓reduceIte, cuArm, fileArm, Nat.lt_irrefl, decide_false, Bool.and_false,
    Bool.false_eq_true] at hw
  obtain ⟨d, node, _, _, hdst, ⟨h1, h2, h3, h4⟩, _, _⟩ := writeFile_spec hw
  refine ⟨node, by rw [hdst, Map.get?_set_same], h1, h2, h3, ?_⟩
  rw [h4]; cases cfg.xattrs <;> rfl

/-- C17 follow, dangling link or link to a directory: `Ok`, and nothing is created. -/
theorem create_follow_skips_unfollowable (hs : e.is_symlink = true) (hl : cfg.links = .follow) (t : Rs.Path)
    (ht : e.symlink_target = some t) (hsrc : xw.src e.path = .dangling ∨ xw.src e.path = .dir) :
    ∃ r, runM (self.create (extOf cfg) e (destOf xw.root k)) xw = (.ok r, xw) := by
  have hag := create_eq_model cfg self ha xw e k hk (fun _ _ => by simp [ht]) (fun h' => by simp [hs] at h')
    (fun h' => by simp [hs] at h')
  unfold absTask at hag
  rw [perform_create cfg _ _ _ hd] at hag
  rcases hsrc with hsrc | hsrc <;>
    · simp only [absPayload, hs, hl, hsrc, ↓reduceIte, cuArm] at hag
      exact hag

omit hk hd in
/-- C17 skip: `Ok(None)`, and nothing is created. -/
theorem create_skip_creates_nothing (hs : e.is_symlink = true) (hl : cfg.links = .skip) :
    runM (self.create (extOf cfg) e (destOf xw.root k)) xw = (.ok none, xw) := by
  have hm : self.symlink_mode = .Skip := by
    obtain ⟨_, _, this⟩ := ha; rw [hl] at this
    cases hmode : self.symlink_mode <;> simp [hmode, absMode] at this ⊢
  exact (skip_mode_calls_nothing (extOf cfg) self e _ xw hs hm).1

/-- C17 xattrs: a regular file transferred by `create` (not through the hard-link hand-off) carries exactly the
    ENTRY's attributes with -X and none without; content, size and mtime are the source file's. -/
theorem create_file_xattrs (hs : e.is_symlink = false) (hdir : e.is_dir = false)
    (hh : cfg.hardlinks = false ∨ e.nlink ≤ 1) (sm : FileMeta) (hsm : xw.src e.path = .file sm)
    (r : Option TransferResult) (xw' : XWorld)
    (h : runM (self.create (extOf cfg) e (destOf xw.root k)) xw = (.ok r, xw')) :
    ∃ node, xw'.w.dst.get? k = some (.file node) ∧ node.content = sm.content ∧ node.size = sm.size ∧
      node.mtime = sm.mtime ∧ node.xattrs = if cfg.xattrs then absX xw.valId e.xattrs else [] := by
  have hc : (cfg.hardlinks && decide (1 < e.nlink)) = false := by
    rcases hh with h' | h'
    · simp [h']
    · have : ¬ (1 < e.nlink) := by omega
      simp [this]
  have hw := ((create_eq_model cfg self ha xw e k hk (fun h' => by simp [hs] at h') (fun _ _ => ⟨sm, hsm⟩)
    (fun _ _ h1 h2 => by simp [h1, h2] at hc)).world h).1
  unfold absTask at hw
  rw [perform_create cfg _ _ _ hd] at hw
  simp only [absPayload, hs, hdir, Bool.false_eq_true, ↓reduceIte, cuArm, fileArm, hc] at hw
  obtain ⟨d, node, _, _, hdst, ⟨h1, h2, h3, h4⟩, _, _⟩ := writeFile_spec hw
  refine ⟨node, by rw [hdst, Map.get?_set_same], ?_, ?_, ?_, ?_⟩
  · rw [h1]; simp [metaOf, hsm]
  · rw [h2]; simp [metaOf, hsm]
  · rw [h3]; simp [metaOf, hsm]
  · rw [h4, metaOf_xattrs]

end c17

/-! ## Part 5 — the hypotheses are satisfiable; concrete runs of the translated code -/

def exCfg : Cfg where
  delete := true
  force := false
  dryRun := false
  xattrs := true
  hardlinks := true
  threshold := 50
  links := .preserve
  compare := .default
  minSize := none
  maxSize := none
  maxErrors := 100
  tie := false

def exSelf : Transferrer := { transport := ⟨⟩, dry_run := false, diff_mode := false, symlink_mode := .Preserve,
                              preserve_hardlinks := true }

/-- destination `/dst` holding the directory `a` and the file `a/old`; sources `/src/f` (a regular file, two names) and
    `/src/l` (a link to it) -/
def exWorld : XWorld where
  root := ['/', 'd', 's', 't']
  w := { dst := [(["a"], .dir), (["a", "old"], .file ⟨9, 1, 1, [], 4⟩)], linkMap := [], nextIno := 7, bytes := 0 }
  src := fun p => if p = ['/', 's', 'r', 'c', '/', 'f'] ∨ p = ['/', 's', 'r', 'c', '/', 'l']
                  then .file ⟨1, 10, 5000, [], 3⟩ else .dangling
  valId := List.length

def exFile : FileEntry :=
  { path := ['/', 's', 'r', 'c', '/', 'f'], relative_path := ['f'], size := 10, modified := 5000, is_dir := false,
    is_symlink := false, symlink_target := none, is_sparse := false, allocated_size := 0,
    xattrs := some [(['u', 's', 'e', 'r', '.', 'k'], [1, 2])], inode := some 3, nlink := 2, acls := none,
    bsd_flags := none }

def exLink : FileEntry :=
  { exFile with path := ['/', 's', 'r', 'c', '/', 'l'], relative_path := ['l'], is_symlink := true,
                symlink_target := some ['f'], xattrs := none, nlink := 1 }

def exDir : FileEntry := { exFile with is_dir := true, xattrs := none, nlink := 1 }

example : Agrees exSelf exCfg := ⟨rfl, rfl, rfl⟩
example : CleanPath ["a", "f"] := by decide
example : Readable exCfg exLink := fun _ _ => rfl
example : Readable exCfg exFile := fun h => by cases h
example : SrcFile exWorld exFile := fun _ _ => ⟨_, rfl⟩
example : HasInode exCfg exFile := fun _ _ _ _ => rfl
example : NotPlainDir exFile := fun _ => rfl
example : FlagOK exWorld.w ["a"] true := ⟨fun _ => rfl, fun m h => by simp [exWorld, Map.get?_cons] at h⟩
example : FlagOK exWorld.w ["a", "old"] false := ⟨fun h => by simp [exWorld, Map.get?_cons] at h, fun _ _ => rfl⟩

/-- the translated `create`, run on the instance: the link is placed with its text, under the existing directory -/
example : (runM (exSelf.create (extOf exCfg) exLink (destOf exWorld.root ["a", "l"])) exWorld).2.w.dst.get? ["a", "l"]
    = some (.symlink "f") := by decide

/-- the first member of a link group with -H: copied with the entry's attributes and recorded as the group's path -/
example : (runM (exSelf.create (extOf exCfg) exFile (destOf exWorld.root ["a", "f"])) exWorld).2.w.dst.get? ["a", "f"]
    = some (.file ⟨1, 10, 5000, [("user.k", 2)], 7⟩) := by decide
example : (runM (exSelf.create (extOf exCfg) exFile (destOf exWorld.root ["a", "f"])) exWorld).2.w.linkMap
    = [(3, ["a", "f"], 7)] := by decide

/-- a directory over the existing file `a/old`: `create_dir_all` fails, nothing changes -/
example : (runM (exSelf.create (extOf exCfg) exDir (destOf exWorld.root ["a", "old"])) exWorld).2.w.dst
    = exWorld.w.dst := by decide
example : (runM (exSelf.create (extOf exCfg) exDir (destOf exWorld.root ["a", "old"])) exWorld).1.toBool = false := by
  decide

/-- `update` of a directory entry over a destination LINK (fix 862af11): the world holds `lk -> /elsewhere`; the
    translated `update` answers `Ok`, the link is gone and a directory stands at the key — nothing else changed -/
def exWorldLink : XWorld :=
  { exWorld with w := { exWorld.w with dst := (["lk"], .symlink "/elsewhere") :: exWorld.w.dst } }

example : (runM (exSelf.update (extOf exCfg) exDir (destOf exWorldLink.root ["lk"])) exWorldLink).1.toBool = true := by
  decide
example : (runM (exSelf.update (extOf exCfg) exDir (destOf exWorldLink.root ["lk"])) exWorldLink).2.w.dst.get? ["lk"]
    = some .dir := by decide
example : (runM (exSelf.update (extOf exCfg) exDir (destOf exWorldLink.root ["lk"])) exWorldLink).2.w.dst.get? ["a", "old"]
    = exWorldLink.w.dst.get? ["a", "old"] := by decide
/-- … and it is what the model's `perform` computes (`update_dir_eq_model` applied) -/
example : Agree exWorldLink ["lk"]
    (runM (exSelf.update (extOf exCfg) exDir (destOf exWorldLink.root ["lk"])) exWorldLink)
    (perform exCfg exWorldLink.w (absTask exCfg exWorldLink .update exDir ["lk"])) :=
  update_dir_eq_model exCfg exSelf ⟨rfl, rfl, rfl⟩ exWorldLink exDir ["lk"] (by decide) rfl rfl
/-- over the regular file `a/old` the probe answers "not a link" and `create_dir_all` fails: nothing changes -/
example : (runM (exSelf.update (extOf exCfg) exDir (destOf exWorld.root ["a", "old"])) exWorld).1.toBool = false ∧
    (runM (exSelf.update (extOf exCfg) exDir (destOf exWorld.root ["a", "old"])) exWorld).2.w.dst = exWorld.w.dst ∧
    perform exCfg exWorld.w (absTask exCfg exWorld .update exDir ["a", "old"]) = none := by decide

/-- deleting the directory `a` takes `a/old` with it -/
example : (runM (exSelf.delete (extOf exCfg) (destOf exWorld.root ["a"]) true) exWorld).2.w.dst = [] := by decide

end SyModel.Props.GenTransfer
