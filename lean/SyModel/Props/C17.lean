/-
  C17 — Symlinks and extended attributes are reproduced per the selected mode (engine level).
  Property theorems only.  `tgt` (what the source link resolves to) is arbitrary in the preserve
  theorems: dangling, relative, absolute, directory-targeting and chained links are all just a
  link text here, exactly as `read_link` captured it.
-/
import SyModel.Lemmas.EngineClosed
namespace SyModel.Props.C17
open SyModel SyModel.Engine

/-- **preserve**: after a run that exits 0 the destination has a symlink with exactly the source
    link's text — whatever was at that path before (nothing, a file, another link). -/
theorem preserve_text (cfg : Cfg) (hnd : cfg.dryRun = false) (hl : cfg.links = .preserve) (flt : Faults)
    (scan : List SEntry) (dst : Map DNode) (n : Nat) (hu : UniqueRels scan)
    (hdel : cfg.delete = true → ParentClosed scan ∧ dst.get? [] = none)
    (hino : cfg.hardlinks = true → InoConsistent scan)
    (hok : (runF cfg flt scan dst n).exit = 0)
    (e : SEntry) (he : e ∈ scanFilter cfg scan) (text : String) (tgt : LinkTarget)
    (hk : e.kind = .symlink text tgt) :
    (runF cfg flt scan dst n).dst.get? e.rel = some (.symlink text) :=
  (entryPost_of_exit_zero hnd flt scan dst n hu hdel hino he hok).link_preserve text tgt hk hl

/-- … also in a run that failed elsewhere, for every link whose action was reported as done. -/
theorem preserve_text_reported (cfg : Cfg) (hnd : cfg.dryRun = false) (hl : cfg.links = .preserve) (flt : Faults)
    (scan : List SEntry) (dst : Map DNode) (n : Nat) (hu : UniqueRels scan)
    (hdel : cfg.delete = true → ParentClosed scan ∧ dst.get? [] = none)
    (hino : cfg.hardlinks = true → InoConsistent scan)
    (e : SEntry) (he : e ∈ scanFilter cfg scan) (text : String) (tgt : LinkTarget)
    (hk : e.kind = .symlink text tgt)
    (hev : ((planEntry cfg dst e).act, e.rel) ∈ (runF cfg flt scan dst n).events) :
    (runF cfg flt scan dst n).dst.get? e.rel = some (.symlink text) :=
  (entryPost_of_event hnd flt scan dst n hu hdel hino he hev).link_preserve text tgt hk hl

/-- **preserve, stable**: after any number `k` of re-syncs it is still that symlink with that
    text (every comparison mode; the prior destination a real tree). -/
theorem preserve_stable (cfg : Cfg) (hnd : cfg.dryRun = false) (hl : cfg.links = .preserve)
    (scan : List SEntry) (dst : Map DNode) (ns : Nat → Nat) (hu : UniqueRels scan) (hnr : NoRoot scan)
    (hdel : cfg.delete = true → ParentClosed scan ∧ dst.get? [] = none)
    (hino : cfg.hardlinks = true → InoConsistent scan) (hc : DstParentClosed dst)
    (hok : (iterRun cfg scan dst ns 0).exit = 0)
    (e : SEntry) (he : e ∈ scanFilter cfg scan) (text : String) (tgt : LinkTarget)
    (hk : e.kind = .symlink text tgt) (k : Nat) :
    (iterRun cfg scan dst ns k).dst.get? e.rel = some (.symlink text) ∧ (iterRun cfg scan dst ns k).exit = 0 := by
  obtain ⟨a, b, _⟩ := iterRun_stable hnd ns hu hnr hdel hino ((gclosed_iff dst).2 hc) hok k
  refine ⟨?_, a⟩
  rw [b]
  exact preserve_text cfg hnd hl noFaults scan dst (ns 0) hu hdel hino hok e he text tgt hk

/-- **preserve, retargeted**: when the source link is retargeted (`scan'` lists it with the new
    text) the next clean sync over a destination still holding the old link leaves the new text. -/
theorem preserve_retarget (cfg : Cfg) (hnd : cfg.dryRun = false) (hl : cfg.links = .preserve)
    (scan' : List SEntry) (dst1 : Map DNode) (n : Nat) (hu : UniqueRels scan')
    (hdel : cfg.delete = true → ParentClosed scan' ∧ dst1.get? [] = none)
    (hino : cfg.hardlinks = true → InoConsistent scan')
    (hok : (run cfg scan' dst1 n).exit = 0)
    (e' : SEntry) (he : e' ∈ scanFilter cfg scan') (old new : String) (tgt : LinkTarget)
    (hk : e'.kind = .symlink new tgt) (_hold : dst1.get? e'.rel = some (.symlink old)) :
    (run cfg scan' dst1 n).dst.get? e'.rel = some (.symlink new) :=
  preserve_text cfg hnd hl noFaults scan' dst1 n hu hdel hino hok e' he new tgt hk

/-- **follow**: a link whose target is a regular file becomes a regular file; when it was absent
    or differed under the comparison rule it carries the target's content, size and mtime. -/
theorem follow_copies (cfg : Cfg) (hnd : cfg.dryRun = false) (hl : cfg.links = .follow) (flt : Faults)
    (scan : List SEntry) (dst : Map DNode) (n : Nat) (hu : UniqueRels scan)
    (hdel : cfg.delete = true → ParentClosed scan ∧ dst.get? [] = none)
    (hino : cfg.hardlinks = true → InoConsistent scan)
    (hok : (runF cfg flt scan dst n).exit = 0)
    (e : SEntry) (he : e ∈ scanFilter cfg scan) (text : String) (m : FileMeta)
    (hk : e.kind = .symlink text (.file m)) :
    ∃ d, (runF cfg flt scan dst n).dst.get? e.rel = some (.file d) ∧
      (planFileAct cfg m (dst.get? e.rel) ≠ .skip →
        d.content = m.content ∧ d.size = m.size ∧ d.mtime = m.mtime) := by
  obtain ⟨d, h1, _, h3, _⟩ := (entryPost_of_exit_zero hnd flt scan dst n hu hdel hino he hok).link_follow text m hk hl
  exact ⟨d, h1, fun h => ⟨(h3 h).1, (h3 h).2.1, (h3 h).2.2.1⟩⟩

/-- **follow**, directory or dangling target: nothing is planned for the link. -/
theorem follow_skips_unfollowable (cfg : Cfg) (hl : cfg.links = .follow) (dst : Map DNode) (e : SEntry)
    (text : String) (tgt : LinkTarget) (hk : e.kind = .symlink text tgt) (hnf : ∀ m, tgt ≠ .file m) :
    planEntry cfg dst e = ⟨.skip, e.rel, .nothing⟩ := by
  unfold planEntry
  cases tgt with
  | file m => exact absurd rfl (hnf m)
  | dir => simp [hk, hl]
  | dangling => simp [hk, hl]

/-- **skip**: the planned task for a link is a skip with nothing to transfer, so the report
    never shows a create/update for it … -/
theorem skip_plans_nothing (cfg : Cfg) (hl : cfg.links = .skip) (dst : Map DNode) (e : SEntry)
    (text : String) (tgt : LinkTarget) (hk : e.kind = .symlink text tgt) :
    planEntry cfg dst e = ⟨.skip, e.rel, .nothing⟩ := by
  unfold planEntry; simp [hk, hl]

/-- … **and nothing is created**: the node at the link's path is what it was before the run
    (in particular an absent path stays absent), under every fault plan hitting other tasks. -/
theorem skip_creates_nothing (cfg : Cfg) (hnd : cfg.dryRun = false) (hl : cfg.links = .skip) (flt : Faults)
    (scan : List SEntry) (dst : Map DNode) (n : Nat) (hu : UniqueRels scan) (hc : ParentClosed scan)
    (hroot : cfg.delete = true → dst.get? [] = none)
    (hino : cfg.hardlinks = true → InoConsistent scan)
    (e : SEntry) (he : e ∈ scanFilter cfg scan) (text : String) (tgt : LinkTarget)
    (hk : e.kind = .symlink text tgt)
    (hev : (Act.skip, e.rel) ∈ (runF cfg flt scan dst n).events) :
    (runF cfg flt scan dst n).dst.get? e.rel = dst.get? e.rel := by
  have hpe := skip_plans_nothing cfg hl dst e text tgt hk
  have ep := entryPost_of_event hnd flt scan dst n hu (fun h => ⟨hc, hroot h⟩) hino he (by rw [hpe]; exact hev)
  exact (ep.link_skip text tgt hk hl).eq hu hc (mem_of_mem_scanFilter he) (by rw [hk]; simp)

/-- **xattrs with `-X`**: every regular file transferred by the run carries exactly the source's
    user extended attributes … -/
theorem xattrs_with_X (cfg : Cfg) (hnd : cfg.dryRun = false) (hx : cfg.xattrs = true) (flt : Faults)
    (scan : List SEntry) (dst : Map DNode) (n : Nat) (hu : UniqueRels scan)
    (hdel : cfg.delete = true → ParentClosed scan ∧ dst.get? [] = none)
    (hino : cfg.hardlinks = true → InoConsistent scan)
    (hok : (runF cfg flt scan dst n).exit = 0)
    (e : SEntry) (he : e ∈ scanFilter cfg scan) (m : FileMeta) (k : Nat) (hk : e.kind = .file m k)
    (htr : planFileAct cfg m (dst.get? e.rel) ≠ .skip) :
    ∃ d, (runF cfg flt scan dst n).dst.get? e.rel = some (.file d) ∧ d.xattrs = m.xattrs := by
  obtain ⟨d, h1, _, h3, _⟩ := (entryPost_of_exit_zero hnd flt scan dst n hu hdel hino he hok).file m k hk
  exact ⟨d, h1, by rw [(h3 htr).2.2.2, hx]; rfl⟩

/-- … **and without `-X` none**. -/
theorem xattrs_without_X (cfg : Cfg) (hnd : cfg.dryRun = false) (hx : cfg.xattrs = false) (flt : Faults)
    (scan : List SEntry) (dst : Map DNode) (n : Nat) (hu : UniqueRels scan)
    (hdel : cfg.delete = true → ParentClosed scan ∧ dst.get? [] = none)
    (hino : cfg.hardlinks = true → InoConsistent scan)
    (hok : (runF cfg flt scan dst n).exit = 0)
    (e : SEntry) (he : e ∈ scanFilter cfg scan) (m : FileMeta) (k : Nat) (hk : e.kind = .file m k)
    (htr : planFileAct cfg m (dst.get? e.rel) ≠ .skip) :
    ∃ d, (runF cfg flt scan dst n).dst.get? e.rel = some (.file d) ∧ d.xattrs = [] := by
  obtain ⟨d, h1, _, h3, _⟩ := (entryPost_of_exit_zero hnd flt scan dst n hu hdel hino he hok).file m k hk
  exact ⟨d, h1, by rw [(h3 htr).2.2.2, hx]; rfl⟩

/-! ### non-vacuity -/

def exCfg : Cfg where
  delete := false
  force := false
  dryRun := false
  xattrs := true
  hardlinks := false
  threshold := 50
  links := .preserve
  compare := .default
  minSize := none
  maxSize := none
  maxErrors := 100
  tie := false

/-- a dangling link `dl -> nowhere` next to the example tree -/
def scanL : List SEntry := ⟨["dl"], .symlink "nowhere" .dangling, 7, false⟩ :: exScan
/-- the same tree after retargeting `dl` -/
def scanL' : List SEntry := ⟨["dl"], .symlink "elsewhere" .dir, 9, false⟩ :: exScan

example : ∀ k, (iterRun exCfg scanL exDst (fun i => 1000 * (i + 1)) k).dst.get? ["dl"] = some (.symlink "nowhere") :=
  fun k => (preserve_stable exCfg rfl rfl scanL exDst _ (by decide) (by decide) (fun h => by cases h)
    (fun h => by cases h) (by decide) (by decide) ⟨["dl"], .symlink "nowhere" .dangling, 7, false⟩ (by decide)
    "nowhere" .dangling rfl k).1

example : (run exCfg scanL' (run exCfg scanL exDst 1000).dst 2000).dst.get? ["dl"] = some (.symlink "elsewhere") :=
  preserve_retarget exCfg rfl rfl scanL' _ 2000 (by decide) (fun h => by cases h) (fun h => by cases h) (by decide)
    ⟨["dl"], .symlink "elsewhere" .dir, 9, false⟩ (by decide) "nowhere" "elsewhere" .dir rfl (by decide)

example : ∃ d, (run { exCfg with links := .follow } exScan exDst 1000).dst.get? ["l"] = some (.file d) ∧
    d.content = 1 := by
  obtain ⟨d, h1, h2⟩ := follow_copies { exCfg with links := .follow } rfl rfl noFaults exScan exDst 1000 (by decide)
    (fun h => by cases h) (fun h => by cases h) (by decide)
    ⟨["l"], .symlink "d/f" (.file (exMeta 1 10 5000000000 3)), 3, false⟩ (by decide) "d/f" _ rfl
  exact ⟨d, h1, (h2 (by decide)).1⟩

example : (run { exCfg with links := .skip } exScan exDst 1000).dst.get? ["l"] = none :=
  skip_creates_nothing { exCfg with links := .skip } rfl rfl noFaults exScan exDst 1000 (by decide) (by decide)
    (fun h => by cases h) (fun h => by cases h)
    ⟨["l"], .symlink "d/f" (.file (exMeta 1 10 5000000000 3)), 3, false⟩ (by decide) "d/f" _ rfl (by decide)

example : ∃ d, (run exCfg exScan exDst 1000).dst.get? ["d", "f"] = some (.file d) ∧ d.xattrs = [("user.k", 1)] :=
  xattrs_with_X exCfg rfl rfl noFaults exScan exDst 1000 (by decide) (fun h => by cases h) (fun h => by cases h)
    (by decide) ⟨["d", "f"], .file (exMeta 1 10 5000000000 3) 1, 10, false⟩ (by decide) _ 1 rfl (by decide)

example : ∃ d, (run { exCfg with xattrs := false } exScan exDst 1000).dst.get? ["d", "f"] = some (.file d) ∧
    d.xattrs = [] :=
  xattrs_without_X { exCfg with xattrs := false } rfl rfl noFaults exScan exDst 1000 (by decide)
    (fun h => by cases h) (fun h => by cases h)
    (by decide) ⟨["d", "f"], .file (exMeta 1 10 5000000000 3) 1, 10, false⟩ (by decide) _ 1 rfl (by decide)

end SyModel.Props.C17
