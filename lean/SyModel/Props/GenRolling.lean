/-
  GenRolling — bridge between the TRANSLATED `src/delta/rolling.rs`
  (`SyModel.Generated.Rolling`, regenerated from the Rust source on every run: `UInt32`/`UInt8`/`UInt64`,
  wrapping arithmetic as in a release build) and the HANDWRITTEN Adler-32 model `SyModel.Delta.Adler`
  (over `Nat`, explicit `wrap32`) that the C04 property theorems are about.

  Abstraction map: `absS s = ⟨s.a.toNat, s.b.toNat⟩`; the field `block_size` (which the model passes as the
  explicit parameter `n` of `Adler.roll`/`rollN`) is mapped by `UInt64.toNat`.
  State invariant: `Inv s := s.a.toNat < 65521 ∧ s.b.toNat < 65521`.

  The generated definitions are only referred to by name; every proof unfolds them, so any semantic change of
  the Rust functions breaks the corresponding theorem.
-/
import SyModel.Generated.Code.Rolling
import SyModel.Lemmas.Adler
import SyModel.Props.C04

namespace SyModel.Props.GenRolling
open SyModel SyModel.Delta
open SyModel.Generated SyModel.Generated.Rolling

/-! ### abstraction map and invariant -/

/-- generated hasher state ↦ model state (`block_size` is not part of the model state). -/
def absS (s : Adler32) : Adler := ⟨s.a.toNat, s.b.toNat⟩

/-- both running sums are reduced modulo `MOD_ADLER`. -/
def Inv (s : Adler32) : Prop := s.a.toNat < MOD ∧ s.b.toNat < MOD

/-- the generated constant is the model's modulus. -/
theorem mod_adler_eq_model : Rolling.MOD_ADLER.toNat = 65521 := by decide

/-! ### a generic simulation lemma for `for byte in data do …` loops in `Id`

  It does not mention the loop body: the body `f` is whatever the generated code contains, and the proof
  obligation `hf` (one iteration simulates `Adler.push` and keeps the invariant) is discharged at each use
  by unfolding the generated definition. -/

theorem forIn_sim {σ : Type} (abs : σ → Adler) (inv : σ → Prop)
    (f : UInt8 → σ → Id (ForInStep σ))
    (hf : ∀ x s, inv s → ∃ s', f x s = pure (ForInStep.yield s') ∧ inv s' ∧ abs s' = (abs s).push x)
    (data : List UInt8) (s : σ) (hs : inv s) (P : σ → Prop)
    (hP : ∀ r, inv r → abs r = data.foldl Adler.push (abs s) → P r) :
    P (Id.run (forIn data s f)) := by
  induction data generalizing s with
  | nil => exact hP s hs rfl
  | cons x d ih =>
    obtain ⟨s', h1, h2, h3⟩ := hf x s hs
    simp only [List.forIn_cons, h1, pure_bind]
    exact ih s' h2 (fun r hr hr' => hP r hr (by simpa [List.foldl_cons, ← h3] using hr'))

/-- model states reachable by `push` are below 2^16, so `(b << 16) | a` does not lose bits in `u32`. -/
theorem digest_toNat (a b : UInt32) (hb : b.toNat < 65536) :
    ((b <<< 16) ||| a).toNat = (b.toNat <<< 16) ||| a.toNat := by
  rw [UInt32.toNat_or, UInt32.toNat_shiftLeft]
  have h16 : (16 : UInt32).toNat % 32 = 16 := by decide
  rw [h16, Nat.shiftLeft_eq, Nat.mod_eq_of_lt]
  omega

/-- `u32` wrapping subtraction `A - o` (as `toNat`) when it does not underflow. -/
theorem sub_mod_wrap (o A : Nat) (h1 : o ≤ A) (h2 : A < 4294967296) :
    (4294967296 - o + A) % 4294967296 = A - o := by omega

/-! ### bridge theorems -/

/-- `Adler32::new(n)` is the model's `init` (and stores `n`). -/
theorem new_eq_model (n : UInt64) :
    absS (Adler32.new n) = Adler.init ∧ (Adler32.new n).block_size = n ∧ Inv (Adler32.new n) := by
  refine ⟨rfl, rfl, ?_, ?_⟩ <;> simp [Adler32.new, MOD]

/-- `Adler32::hash(data)` is the model's `hashBytes data`, for every `data` (no length bound: the running
    sums stay below `MOD_ADLER`, so no `u32` addition ever wraps and the final shift loses nothing). -/
theorem hash_eq_model (data : List UInt8) : (Adler32.hash data).toNat = hashBytes data := by
  unfold Adler32.hash
  simp only [bind, pure]
  refine forIn_sim (σ := UInt32 × UInt32) (fun p => ⟨p.1.toNat, p.2.toNat⟩)
    (fun p => p.1.toNat < MOD ∧ p.2.toNat < MOD) _ ?_ data _ ?_
    (fun r => ((r.2 <<< 16) ||| r.1).toNat = hashBytes data) ?_
  · intro x s hs
    refine ⟨_, rfl, ?_⟩
    have hx := x.toNat_lt
    simp only [MOD] at hs
    simp only [Rs.cast, mod_adler_eq_model, MOD, Nat.reducePow, Adler.push, UInt32.toNat_mod, UInt32.toNat_add,
      UInt8.toNat_toUInt32, Adler.mk.injEq]
    omega
  · decide
  · intro r hr habs
    simp only [MOD] at hr
    rw [digest_toNat _ _ (by omega)]
    simp only [hashBytes, Adler.ofBlock, Adler.digest, Adler.init]
    have h1 : (1 : UInt32).toNat = 1 := by decide
    have h0 : (0 : UInt32).toNat = 0 := by decide
    simp only [h1, h0] at habs
    rw [← habs]

/-- `update_block(block)` from ANY starting state gives the model's `ofBlock block`; `block_size` is
    unchanged; the result satisfies the invariant. -/
theorem update_block_eq_model (s : Adler32) (block : List UInt8) :
    absS (s.update_block block) = Adler.ofBlock block ∧
    (s.update_block block).block_size = s.block_size ∧
    Inv (s.update_block block) := by
  unfold Adler32.update_block
  simp only [bind, pure]
  refine forIn_sim (σ := Adler32) absS (fun r => Inv r ∧ r.block_size = s.block_size) _ ?_ block _ ?_
    (fun r => absS r = Adler.ofBlock block ∧ r.block_size = s.block_size ∧ Inv r) ?_
  · intro x r hr
    refine ⟨_, rfl, ?_⟩
    have hx := x.toNat_lt
    obtain ⟨⟨ha, hb⟩, hbs⟩ := hr
    simp only [MOD] at ha hb
    simp only [Inv, absS, Rs.cast, mod_adler_eq_model, MOD, Nat.reducePow, Adler.push, UInt32.toNat_mod, UInt32.toNat_add,
      UInt8.toNat_toUInt32, Adler.mk.injEq, hbs, and_true]
    omega
  · exact ⟨by constructor <;> simp [MOD], rfl⟩
  · intro r hr habs
    refine ⟨?_, hr.2, hr.1⟩
    rw [habs]; rfl

/-- `roll(old, new)` on a state satisfying the invariant is the model's `Adler.roll n` with
    `n = block_size` (the model's inner `wrap32 n` is the truncating cast `block_size as u32`, its outer
    `wrap32 (… * old)` is the wrapping `u32` product `n * old`); `block_size` is unchanged and the result
    satisfies the invariant again.  Since the model's other operations are the unbounded `Nat` ones (with
    truncated subtraction), this equality also says that under the invariant none of the intermediate `u32`
    values `self.a + MOD_ADLER*2 - old + new` and `self.b + MOD_ADLER*3 - n_old + self.a - 1` wraps in either
    direction (see `roll_no_wrap` for the explicit statement). -/
theorem roll_eq_model (s : Adler32) (old new : UInt8) (h : Inv s) :
    absS (s.roll old new) = Adler.roll s.block_size.toNat (absS s) old new ∧
    (s.roll old new).block_size = s.block_size ∧
    Inv (s.roll old new) := by
  -- (destructuring `s` first keeps the kernel from comparing `s.roll old new` with `s` field by field
  --  when it checks the `block_size` conjunct)
  obtain ⟨a, b, n⟩ := s
  obtain ⟨ha, hb⟩ := h
  have hx := old.toNat_lt
  have hy := new.toNat_lt
  unfold Adler32.roll
  simp only [Id.run, pure, MOD, Nat.reducePow] at ha hb hx hy ⊢
  -- everything as `Nat` arithmetic with explicit `% 2^32`
  simp only [Inv, absS, Rs.cast, mod_adler_eq_model, MOD, Nat.reducePow, Nat.reduceMod, Nat.reduceMul,
    Adler.roll, wrap32, UInt32.toNat_mod, UInt32.toNat_add, UInt32.toNat_sub, UInt32.toNat_mul,
    UInt8.toNat_toUInt32, UInt64.toNat_toUInt32, UInt32.toNat_ofNat, Adler.mk.injEq, true_and]
  -- the only product: `(block_size as u32) * old`, wrapping, then `% MOD_ADLER` — literally the model's term
  have ht : n.toNat % 4294967296 * old.toNat % 4294967296 % 65521 < 65521 := Nat.mod_lt _ (by omega)
  generalize n.toNat % 4294967296 * old.toNat % 4294967296 % 65521 = t at ht ⊢
  -- every remaining `% 2^32` is the identity (no wrap), every `u32` subtraction is exact (no underflow)
  simp (disch := omega) only [sub_mod_wrap, Nat.mod_eq_of_lt, and_self, true_and]
  omega

/-- Explicit no-wrap statement for `roll`: with the exact (unbounded, non-truncated) integer values of the two
    expressions of the Rust source, every subtraction has a non-negative result and every intermediate value
    is below 2^32, where `a'` is the freshly updated `self.a` actually computed by the generated code and
    `n_old` the (deliberately wrapping) `(n * old) % MOD_ADLER`. -/
theorem roll_no_wrap (s : Adler32) (old new : UInt8) (h : Inv s) :
    let n_old := wrap32 (wrap32 s.block_size.toNat * old.toNat) % MOD
    let a' := (s.roll old new).a.toNat
    old.toNat ≤ s.a.toNat + MOD * 2 ∧
    s.a.toNat + MOD * 2 - old.toNat + new.toNat < 4294967296 ∧
    n_old ≤ s.b.toNat + MOD * 3 ∧
    1 ≤ s.b.toNat + MOD * 3 - n_old + a' ∧
    s.b.toNat + MOD * 3 - n_old + a' - 1 < 4294967296 := by
  intro n_old a'
  have hx := old.toNat_lt
  have hy := new.toNat_lt
  have hn : n_old < 65521 := Nat.mod_lt _ (by decide)
  have ha' : a' < 65521 := (roll_eq_model s old new h).2.2.1
  obtain ⟨h1, h2⟩ := h
  clear_value n_old a'
  simp only [MOD, Nat.reducePow] at h1 h2 hx hy ⊢
  omega

/-- `digest()` is the model's `digest` whenever `b` fits 16 bits (in particular under the invariant);
    otherwise the `u32` shift drops the high bits of `b`, see `digest_eq_model_wrap`. -/
theorem digest_eq_model (s : Adler32) (hb : s.b.toNat < 65536) :
    s.digest.toNat = (absS s).digest := by
  unfold Adler32.digest
  exact digest_toNat _ _ hb

theorem digest_eq_model_of_inv (s : Adler32) (h : Inv s) : s.digest.toNat = (absS s).digest :=
  digest_eq_model s (by have := h.2; simp only [MOD] at this; omega)

/-- unconditional form: the generated `digest` is the model's `digest` truncated to 32 bits. -/
theorem digest_eq_model_wrap (s : Adler32) : s.digest.toNat = wrap32 (absS s).digest := by
  unfold Adler32.digest
  rw [UInt32.toNat_or, UInt32.toNat_shiftLeft]
  have h16 : (16 : UInt32).toNat % 32 = 16 := by decide
  have ha : s.a.toNat % 2 ^ 32 = s.a.toNat := Nat.mod_eq_of_lt s.a.toNat_lt
  simp only [h16, wrap32, Adler.digest, absS]
  rw [show (4294967296 : Nat) = 2 ^ 32 by decide, Nat.or_mod_two_pow, ha]

/-- `hash` is `new` + `update_block` + `digest` (all on the generated side). -/
theorem hash_eq_update_block_digest (n : UInt64) (data : List UInt8) :
    Adler32.hash data = ((Adler32.new n).update_block data).digest := by
  apply UInt32.toNat.inj
  obtain ⟨h1, _, h3⟩ := update_block_eq_model (Adler32.new n) data
  rw [hash_eq_model, digest_eq_model_of_inv _ h3, h1]; rfl

/-! ### k roll steps

  The driver loop (`generator.rs`) is not part of the translated unit, so the iteration is written here, over
  the GENERATED `roll`, in the same shape as the model's `rollN`: step `i` removes `d[i]` and adds
  `d[i + block_size]`. -/

def genRollN (s : Adler32) : List UInt8 → Nat → Adler32
  | _, 0 => s
  | [], _ + 1 => s
  | x :: t, k + 1 =>
    match (x :: t).drop s.block_size.toNat with
    | y :: _ => genRollN (s.roll x y) t k
    | [] => s

/-- `k` generated roll steps are the model's `rollN` (with `n = block_size`), and keep the invariant. -/
theorem rollN_eq_model (s : Adler32) (h : Inv s) (d : List UInt8) (k : Nat) :
    absS (genRollN s d k) = rollN s.block_size.toNat (absS s) d k ∧
    (genRollN s d k).block_size = s.block_size ∧
    Inv (genRollN s d k) := by
  induction k generalizing s d with
  | zero => cases d <;> exact ⟨rfl, rfl, h⟩
  | succ k ih =>
    cases d with
    | nil => exact ⟨rfl, rfl, h⟩
    | cons x t =>
      simp only [genRollN, rollN]
      cases hd : (x :: t).drop s.block_size.toNat with
      | nil => exact ⟨rfl, rfl, h⟩
      | cons y rest =>
        obtain ⟨e1, e2, e3⟩ := roll_eq_model s x y h
        obtain ⟨i1, i2, i3⟩ := ih (s.roll x y) e3 t
        simp only
        rw [e2] at i1 i2
        exact ⟨by rw [i1, e1], i2, i3⟩

/-- End to end, entirely on the generated side: starting from `new(n)` + `update_block(d[0..n))` and rolling
    `k` times over `d` gives a hasher whose `digest()` is `hash(d[k..k+n))` — for every block size whose
    product with a byte cannot wrap `u32` (C04's `consts_ok_adler`: true for every size sy can choose). -/
theorem roll_window_eq_hash (n : UInt64) (d : List UInt8) (k : Nat) (hn : 0 < n.toNat)
    (hov : n.toNat * 255 < 4294967296) (hk : k + n.toNat ≤ d.length) :
    (genRollN ((Adler32.new n).update_block (d.take n.toNat)) d k).digest
      = Adler32.hash ((d.drop k).take n.toNat) := by
  apply UInt32.toNat.inj
  obtain ⟨u1, u2, u3⟩ := update_block_eq_model (Adler32.new n) (d.take n.toNat)
  obtain ⟨r1, _, r3⟩ := rollN_eq_model _ u3 d k
  rw [u2, u1, (new_eq_model n).2.1] at r1
  rw [digest_eq_model_of_inv _ r3, r1, hash_eq_model]
  exact C04.adler_roll_window d n.toNat k hn hov hk

/-! ### non-vacuity, and necessity of the invariant -/

/-- the invariant holds for non-trivial reachable states … -/
example : Inv ((Adler32.new 4).update_block [0x61, 0x62, 0x63, 0x64]) :=
  (update_block_eq_model _ _).2.2

example : Inv (((Adler32.new 4).update_block [0xff, 0xff, 0xff, 0xff]).roll 0xff 0x01) :=
  (roll_eq_model _ _ _ (update_block_eq_model _ _).2.2).2.2

/-- … `roll_eq_model` is used on concrete data … -/
example : (genRollN ((Adler32.new 4).update_block [1, 2, 3, 4]) [1, 2, 3, 4, 5, 6, 7] 3).digest
    = Adler32.hash [4, 5, 6, 7] :=
  roll_window_eq_hash 4 [1, 2, 3, 4, 5, 6, 7] 3 (by decide) (by decide) (by decide)

/-- … and it cannot be dropped: outside the invariant `self.a + MOD_ADLER * 2` wraps in `u32` and the generated
    `roll` differs from the `Nat` model.  (Harmless: the fields are private in rolling.rs and every
    constructor/mutator — `new`, `update_block`, `roll`, `reset` — establishes or preserves the invariant.) -/
example : absS (Adler32.roll ⟨4294967295, 0, 1⟩ 0 0) ≠ Adler.roll 1 (absS ⟨4294967295, 0, 1⟩) 0 0 := by
  decide

end SyModel.Props.GenRolling
