/-
  C20 — Watch mode eventually propagates every change; it terminates cleanly on SIGINT.

  Property theorems only; the model is `SyModel/Watch/Loop.lean` (src/sync/watch.rs:37-121,
  src/main.rs:489-500), helper lemmas are in `SyModel/Lemmas/Watch*.lean`.

  All statements quantify over *every* schedule (`List Input`): arbitrary interleavings of
  source edits / watcher events, passage of time, SIGINTs and moves of the loop thread —
  before, during and after syncs.  "Bounded time" is a bound in loop iterations (`nSteps`);
  inotify delivery, wall-clock time and the scheduler are outside the model (DESIGN §6 C20).

  Status on the pinned tree:
  * `…_counterexample_pinned`: with the pinned order (initial sync, *then* `watcher.watch`) a
    change made while the initial sync runs is lost — repaired by
    `fix-c20-arm-before-initial-sync.diff`; the theorems below are about the repaired order,
    which `consts_ok_arm_first` ties to the source on every run.
  * `counterexample_same_size`: an edit that keeps the size and lands within the mtime
    tolerance is invisible to the comparison rule; the loop does sync, the destination never
    changes.  Known finding `C20/same-size-edit-within-tolerance`; the full-strength statement
    `FullConvergence` is refuted, `converges_after_quiescence` (= `…_partial`) is proved under
    `hcmp`.
  * `never_exits_counterexample_initial_sync_error`: a source entry that vanishes under the
    *initial* sync makes that sync fail and `?` ends the process (status 1).  Finding
    `C20/watch-exited-early/during-initial-sync`, found by the harness (a race, not deterministic);
    `never_exits_partial` covers the complement, `failed_sync_recovers` the same failure inside
    the loop (recovered).
-/
import SyModel.Lemmas.WatchConverge
import SyModel.Lemmas.WatchCounter
import SyModel.Generated.Consts
namespace SyModel.Props.C20
open SyModel SyModel.Watch

/-! ### side conditions on what the Rust source says on this run -/

/-- debounce (main.rs:495), receive timeout (watch.rs:73), select sleep (watch.rs:67) and the
    mtime tolerance (strategy.rs:50) are the model's constants. -/
theorem consts_ok_watch :
    Generated.WATCH_DEBOUNCE_MS = Cfg.sy.debounce ∧
    Generated.WATCH_RECV_TIMEOUT_MS = Cfg.sy.recvTimeout ∧
    Generated.WATCH_SELECT_SLEEP_MS = Cfg.sy.selectSleep ∧
    Generated.MTIME_TOLERANCE_S = Cfg.sy.tolerance := by decide

/-- the code arms the watcher before it starts the initial sync (the order the theorems assume) -/
theorem consts_ok_arm_first : Generated.WATCH_ARM_FIRST = Cfg.sy.armFirst := by decide

/-- `should_sync_event` keeps exactly the kinds the model keeps (watch.rs:116) -/
theorem consts_ok_kept (k : Kind) : k.kept = true ↔ k.rust ∈ Generated.WATCH_KEPT_KINDS := by
  cases k <;> simp [Kind.kept, Kind.rust, Generated.WATCH_KEPT_KINDS]

/-- a receive timeout takes time (needed by the iteration bound) -/
theorem consts_ok_recv_pos : 0 < Cfg.sy.recvTimeout := by decide

/-! ### no event is lost -/

/-- An event delivered while the watcher is armed is appended to the channel. -/
theorem event_enqueued (c : Cfg) (s : State) (k : Kind) (e : Option Ver) (ha : s.armed = true) :
    (apply c s (.event k e)).queue = s.queue ++ [k] := by
  cases e <;> simp [apply, deliver, ha]

/-- **Eventually in `pending`.**  From the top of the loop, as long as no SIGINT arrives, the
    first `queue.length` iterations receive exactly the queued events — every relevant one
    lands in `pending`, in order — whatever else is delivered or however much time passes
    meanwhile; no sync starts (and nothing is cleared) before they are all received. -/
theorem no_event_lost_eventually (c : Cfg) (s : State) (hp : s.phase = .loop) (hsig : s.sig = false)
    (is : List Input) (hns : NoSigint is) (hn : nSteps is = s.queue.length) :
    (run c s is).pending = s.pending ++ s.queue.filter Kind.kept ∧ (run c s is).syncs = s.syncs := by
  obtain ⟨h1, _, _, h4, _⟩ := receive_prefix c is s hns hp hsig (by omega)
  rw [hn, List.take_length] at h1
  exact ⟨h1, h4⟩

/-- **…or queued before a later sync started.**  In every reachable state of the repaired
    order, for every schedule whatsoever: if the source differs from the snapshot of the most
    recently started sync, then a relevant event is still in the channel, or `pending` is
    non-empty at the top of the loop (so it can only be cleared by a sync that *starts* later and
    therefore works from a snapshot at least as new) — unless the initial sync is still ahead
    or the process has exited.  `pending.clear()` never drops the only trace of a change — not
    even after a sync that failed because the source changed under it (`admissible`: source changes
    come with a kept event, syncs fail only when the source changed during them). -/
theorem no_event_lost (c : Cfg) (hfix : c.armFirst = true) (v0 d0 : Ver) (is : List Input)
    (hf : admissible c (init v0 d0) is = true) :
    (run c (init v0 d0) is).phase = .done ∨ Covered (run c (init v0 d0) is) := by
  rcases invD_run c hfix is (init v0 d0) hf (Or.inr (inv_init c v0 d0)) with h | h
  · exact Or.inl h
  · exact Or.inr h.covered

/-- `pending` only ever grows by received events; it is emptied exactly by the completion of a
    sync (`pending_changes.clear()`, watch.rs:98) and by its creation when the loop is entered. -/
theorem pending_cleared_only_by_sync_end (c : Cfg) (s : State) (i : Input) :
    (apply c s i).pending = s.pending ∨ (∃ k, k.kept = true ∧ (apply c s i).pending = s.pending ++ [k]) ∨
      ((i = .step ∨ i = .fail) ∧ (s.phase = .sync ∨ s.phase = .postInit) ∧ (apply c s i).pending = []) := by
  have hstep : (step c s).1.pending = s.pending ∨
      (∃ k, k.kept = true ∧ (step c s).1.pending = s.pending ++ [k]) ∨
      ((s.phase = .sync ∨ s.phase = .postInit) ∧ (step c s).1.pending = []) := by
    simp only [step]
    split
    · split <;> (left; rfl)
    · left; rfl
    · rename_i hp
      split
      · left; rfl
      · right; right; exact ⟨Or.inr hp, by first | rfl | trivial⟩
    · split
      · left; rfl
      · split
        · rename_i k q _
          split
          · rename_i hk; right; left; exact ⟨k, hk, rfl⟩
          · left; rfl
        · (try dsimp only); split <;> (left; rfl)
    · rename_i hp; right; right; exact ⟨Or.inl hp, by first | rfl | trivial⟩
    · left; rfl
  cases i with
  | fail =>
    simp only [apply]
    by_cases hs : s.phase = .sync
    · rw [failMove_sync c s hs]; right; right; exact ⟨by simp, Or.inl hs, rfl⟩
    · by_cases hi : s.phase = .initSync
      · rw [failMove_init c s hi]; left; rfl
      · rw [failMove_other c s hs hi]
        rcases hstep with h | h | h
        · exact Or.inl h
        · exact Or.inr (Or.inl h)
        · exact Or.inr (Or.inr ⟨by simp, h⟩)
  | event k e => left; exact deliver_pending s k e
  | tick δ => left; rfl
  | sigint => left; simp only [apply, signal]; split <;> (try split) <;> rfl
  | step =>
    simp only [apply]
    rcases hstep with h | h | h
    · exact Or.inl h
    · exact Or.inr (Or.inl h)
    · exact Or.inr (Or.inr ⟨by simp, h⟩)

/-! ### a sync starts within a bounded number of iterations -/

/-- With `q` events queued and quiescence from now on (only time passes), a sync starts within
    `q + ⌈debounce / recv-timeout⌉ + 1` loop iterations: all queued events are received first
    (the channel is empty and `pending` holds every relevant one), and the sync works from the
    current source. -/
theorem sync_after_quiescence (c : Cfg) (hr : 0 < c.recvTimeout) (s : State)
    (hp : s.phase = .loop) (hsig : s.sig = false) (hls : s.lastSync ≤ s.now)
    (hwork : s.pending ≠ [] ∨ ∃ k ∈ s.queue, k.kept = true)
    (is : List Input) (hq : Quiescent is)
    (hn : s.queue.length + ceilDiv c.debounce c.recvTimeout + 1 ≤ nSteps is) :
    ∃ pre post, is = pre ++ post ∧
      nSteps pre ≤ s.queue.length + ceilDiv c.debounce c.recvTimeout + 1 ∧
      (run c s pre).phase = .sync ∧ (run c s pre).queue = [] ∧ (run c s pre).snap = s.src ∧
      (run c s pre).pending = s.pending ++ s.queue.filter Kind.kept ∧
      (run c s pre).syncs = s.syncs + 1 := by
  have hmul := ceilDiv_mul_ge c.debounce c.recvTimeout hr
  obtain ⟨pre, post, h1, h2, h3, h4, h5, _, _, _, h9, h10⟩ :=
    reach_sync c is s (ceilDiv c.debounce c.recvTimeout) hq hp hsig hls hwork (by omega) (by omega)
  exact ⟨pre, post, h1, by omega, h3, h4, h5, h9, h10⟩

/-- …with sy's constants: at most `q + 6` iterations (500 ms / 100 ms). -/
theorem sync_after_quiescence_sy (s : State)
    (hp : s.phase = .loop) (hsig : s.sig = false) (hls : s.lastSync ≤ s.now)
    (hwork : s.pending ≠ [] ∨ ∃ k ∈ s.queue, k.kept = true)
    (is : List Input) (hq : Quiescent is) (hn : s.queue.length + 6 ≤ nSteps is) :
    ∃ pre post, is = pre ++ post ∧ nSteps pre ≤ s.queue.length + 6 ∧
      (run Cfg.sy s pre).phase = .sync ∧ (run Cfg.sy s pre).queue = [] ∧
      (run Cfg.sy s pre).snap = s.src :=
  have hc : ceilDiv Cfg.sy.debounce Cfg.sy.recvTimeout = 5 := by decide
  have ⟨pre, post, h1, h2, h3, h4, h5, _, _⟩ :=
    sync_after_quiescence Cfg.sy consts_ok_recv_pos s hp hsig hls hwork is hq (by rw [hc]; exact hn)
  ⟨pre, post, h1, by rw [hc] at h2; exact h2, h3, h4, h5⟩

/-! ### convergence -/

/-- **Convergence after quiescence** (the `_partial` theorem: everything except edits the
    comparison rule cannot see).  In any state satisfying the invariant of the repaired order —
    at any program point: before / during the initial sync, at the top of the loop, during a
    sync — with no SIGINT pending: if the last edit is visible to the comparison rule (`hcmp`),
    then after `queue.length + ⌈debounce / recv-timeout⌉ + 6` loop iterations of quiescence the
    destination equals the source, and stays so. -/
theorem converges_after_quiescence (c : Cfg) (hfix : c.armFirst = true) (hr : 0 < c.recvTimeout)
    (s : State) (hinv : Inv c s) (hnd : s.phase ≠ .done) (hsig : s.sig = false)
    (hcmp : Hcmp c s) (is : List Input) (hq : Quiescent is) (hn : convergeBound c s ≤ nSteps is) :
    (run c s is).dst = s.src ∧ (run c s is).src = s.src :=
  converge_rank c hfix hr 4 s is (rank_le_four s) hinv hnd hsig hcmp hq
    (by unfold convergeBound at hn; omega)

/-- the name under which the finding's complement is registered -/
theorem converges_after_quiescence_partial (c : Cfg) (hfix : c.armFirst = true) (hr : 0 < c.recvTimeout)
    (s : State) (hinv : Inv c s) (hnd : s.phase ≠ .done) (hsig : s.sig = false)
    (hcmp : Hcmp c s) (is : List Input) (hq : Quiescent is) (hn : convergeBound c s ≤ nSteps is) :
    (run c s is).dst = s.src ∧ (run c s is).src = s.src :=
  converges_after_quiescence c hfix hr s hinv hnd hsig hcmp is hq hn

/-- The same for every state reachable from the start of `watch()` under any schedule whose
    source changes come with a kept event (the `notify` assumption) and whose syncs fail only when
    the source changed under them (`admissible`): changes made before, during or after a running
    sync — including the initial one, including syncs that failed over them — are all propagated. -/
theorem converges_after_quiescence_reachable (c : Cfg) (hfix : c.armFirst = true)
    (hr : 0 < c.recvTimeout) (v0 d0 : Ver) (hist : List Input) (hf : admissible c (init v0 d0) hist = true)
    (hnd : (run c (init v0 d0) hist).phase ≠ .done) (hsig : (run c (init v0 d0) hist).sig = false)
    (hcmp : Hcmp c (run c (init v0 d0) hist)) (is : List Input) (hq : Quiescent is)
    (hn : convergeBound c (run c (init v0 d0) hist) ≤ nSteps is) :
    (run c (init v0 d0) (hist ++ is)).dst = (run c (init v0 d0) hist).src := by
  rw [run_append]
  rcases invD_run c hfix hist (init v0 d0) hf (Or.inr (inv_init c v0 d0)) with h | h
  · exact absurd h hnd
  · exact (converges_after_quiescence c hfix hr _ h hnd hsig hcmp is hq hn).1

/-- The full-strength statement: convergence without the visibility hypothesis. -/
def FullConvergence (c : Cfg) : Prop :=
  ∀ (v0 d0 : Ver) (hist : List Input), admissible c (init v0 d0) hist = true →
    (run c (init v0 d0) hist).phase ≠ .done → (run c (init v0 d0) hist).sig = false →
    ∃ n, ∀ is, Quiescent is → n ≤ nSteps is →
      (run c (init v0 d0) (hist ++ is)).dst = (run c (init v0 d0) hist).src

/-! ### SIGINT -/

/-- **SIGINT ends the loop at the next iteration boundary.**  In every reachable state, after
    a SIGINT the process is gone after at most two further moves of the loop thread (the
    completion of a running sync, then the `select!`), whatever else happens meanwhile —
    immediately if tokio's handler is not installed yet. -/
theorem sigint_exits (c : Cfg) (v0 d0 : Ver) (hist is : List Input) (hn : 2 ≤ nSteps is) :
    (run c (init v0 d0) (hist ++ .sigint :: is)).phase = .done := by
  rw [run_append, run_cons]
  have hh := handlerOK_run c hist (init v0 d0) (handlerOK_init v0 d0)
  generalize run c (init v0 d0) hist = s at hh ⊢
  simp only [apply, signal]
  split
  · exact run_done c is s (by assumption)
  · rename_i hnd
    split
    · rename_i hhd
      apply sig_progress c is _ rfl
      rcases hh.1 hhd with h | h | h
      · exact Or.inr (Or.inl ⟨h, by omega⟩)
      · exact Or.inr (Or.inr ⟨h, hn⟩)
      · exact absurd h hnd
    · exact run_done c is _ rfl

/-- A SIGINT caught by the loop leads to the clean exit path (`break`, `Ok(())`, status 0). -/
theorem sigint_exits_clean (c : Cfg) (s : State) (hp : s.phase = .loop) (hsig : s.sig = true) :
    (step c s).1.phase = .done ∧ (step c s).1.exit = some .sigint ∧ (step c s).2 = .exitSigint := by
  simp [step, hp, hsig]

/-! ### the two defects of the pinned tree -/

def v0 : Ver := { id := 0, size := 10, mtime := 100000000000 }
/-- empty destination -/
def d0 : Ver := { id := 99, size := 0, mtime := 0 }
/-- a change the comparison rule sees (new size) -/
def v1 : Ver := { id := 1, size := 20, mtime := 105000000000 }
/-- same size, mtime 1 s later: inside the tolerance (`as_secs() = 1 ≤ 1`) -/
def v1same : Ver := { id := 2, size := 10, mtime := 101000000000 }

/-- pinned order: the initial sync starts, a file changes, the sync ends, the watcher is armed,
    the loop is entered -/
def pinnedHistory : List Input :=
  [.step, .event .create (some v1), .step, .step, .step]

/-- the state the pinned order is in after `pinnedHistory` -/
def pinnedAfter : State :=
  { phase := .loop, pending := [], lastSync := 0, queue := [], now := 0, src := v1, dst := v0,
    snap := v0, armed := true, handler := true, sig := false, exit := none, syncs := 1, ok := true }

theorem pinnedAfter_eq : run Cfg.pinned (init v0 d0) pinnedHistory = pinnedAfter := by decide

/-- **Defect (a), pinned order.**  The change made during the initial sync is visible to the
    comparison rule (`Hcmp` holds) and yet it is never propagated: no event was queued, the
    loop idles forever.  `no_event_lost` fails (`¬ Covered`), and no amount of quiescence helps. -/
theorem no_event_lost_counterexample_pinned :
    admissible Cfg.pinned (init v0 d0) pinnedHistory = true ∧
    ¬ Covered (run Cfg.pinned (init v0 d0) pinnedHistory) ∧
    (run Cfg.pinned (init v0 d0) pinnedHistory).phase = .loop := by
  refine ⟨by decide, ?_, by decide⟩
  rw [pinnedAfter_eq]
  simp [Covered, pinnedAfter, v0, v1]

theorem converges_after_quiescence_counterexample_pinned :
    Hcmp Cfg.pinned (run Cfg.pinned (init v0 d0) pinnedHistory) ∧
    ∀ is, Quiescent is →
      (run Cfg.pinned (init v0 d0) (pinnedHistory ++ is)).dst = v0 ∧
      (run Cfg.pinned (init v0 d0) (pinnedHistory ++ is)).src = v1 := by
  refine ⟨by rw [pinnedAfter_eq]; decide, fun is hq => ?_⟩
  rw [run_append, pinnedAfter_eq]
  obtain ⟨h1, h2, _⟩ := idle_run Cfg.pinned is pinnedAfter hq rfl rfl rfl rfl
  exact ⟨h1, h2⟩

/-- the same history in the repaired order: arm, start the initial sync, the file changes, … -/
def fixedHistory : List Input :=
  [.step, .step, .event .create (some v1), .step, .step]

/-- …and there the change is propagated (instance of `converges_after_quiescence_reachable`). -/
theorem pinned_history_repaired (is : List Input) (hq : Quiescent is) (hn : 12 ≤ nSteps is) :
    (run Cfg.sy (init v0 d0) (fixedHistory ++ is)).dst = v1 := by
  have h := converges_after_quiescence_reachable Cfg.sy rfl (by decide) v0 d0 fixedHistory
    (by decide) (by decide) (by decide) (by decide) is hq (by
      have : convergeBound Cfg.sy (run Cfg.sy (init v0 d0) fixedHistory) = 12 := by decide
      omega)
  rw [h]; decide

/-- the loop is running and in sync; then a same-size edit within the tolerance -/
def sameSizeHistory : List Input :=
  [.step, .step, .step, .step, .event .modify (some v1same)]

/-- the state after `sameSizeHistory` -/
def sameSizeAfter : State :=
  { phase := .loop, pending := [], lastSync := 0, queue := [.modify], now := 0, src := v1same,
    dst := v0, snap := v0, armed := true, handler := true, sig := false, exit := none, syncs := 1,
    ok := true }

theorem sameSizeAfter_eq : run Cfg.sy (init v0 d0) sameSizeHistory = sameSizeAfter := by decide

/-- **Defect (b), known finding `C20/same-size-edit-within-tolerance`.**  In the repaired
    order: the event is kept, a sync does start (`syncs` grows), and the destination still
    never becomes equal to the source — the comparison rule skips the entry. -/
theorem counterexample_same_size :
    needsUpdate Cfg.sy v1same v0 = false ∧
    (∀ is, Quiescent is →
      (run Cfg.sy (init v0 d0) (sameSizeHistory ++ is)).dst = v0 ∧
      (run Cfg.sy (init v0 d0) (sameSizeHistory ++ is)).src = v1same) ∧
    (∀ is, Quiescent is → 7 ≤ nSteps is →
      2 ≤ (run Cfg.sy (init v0 d0) (sameSizeHistory ++ is)).syncs) := by
  refine ⟨by decide, fun is hq => ?_, fun is hq hn => ?_⟩
  · rw [run_append, sameSizeAfter_eq]
    exact blind_run Cfg.sy v1same v0 (by decide) is sameSizeAfter hq rfl rfl rfl (Or.inl rfl)
  · rw [run_append, sameSizeAfter_eq]
    have hc : ceilDiv Cfg.sy.debounce Cfg.sy.recvTimeout = 5 := by decide
    obtain ⟨pre, post, h1, _, _, _, _, _, h7⟩ :=
      sync_after_quiescence Cfg.sy consts_ok_recv_pos sameSizeAfter rfl rfl (Nat.le_refl _)
        (Or.inr ⟨.modify, by decide, rfl⟩) is hq (by rw [hc]; exact hn)
    subst h1
    rw [run_append]
    -- `syncs` never decreases
    have hstepmono : ∀ s : State, s.syncs ≤ (step Cfg.sy s).1.syncs := by
      intro s
      simp only [step]
      split
      · split <;> simp
      · simp
      · split <;> simp
      · split
        · simp
        · split
          · split <;> simp
          · (try dsimp only); split <;> simp
      · simp
      · simp
    have mono : ∀ (l : List Input) (s : State), s.syncs ≤ (run Cfg.sy s l).syncs := by
      intro l
      induction l with
      | nil => intro s; simp
      | cons i t ih =>
        intro s
        refine Nat.le_trans ?_ (ih _)
        cases i with
        | event k e => cases e <;> simp only [apply, deliver] <;> split <;> exact Nat.le_refl _
        | tick δ => exact Nat.le_refl _
        | sigint => simp only [apply, signal]; split <;> (try split) <;> exact Nat.le_refl _
        | fail =>
          simp only [apply, failMove]
          split
          · exact Nat.le_refl _
          · exact Nat.le_refl _
          · exact hstepmono _
        | step => exact hstepmono _
    have := mono post (run Cfg.sy sameSizeAfter pre)
    rw [h7] at this
    exact this

/-- hence the full-strength statement is false on the current (repaired) code -/
theorem converges_after_quiescence_counterexample_same_size : ¬ FullConvergence Cfg.sy := by
  intro hfull
  obtain ⟨n, hn⟩ := hfull v0 d0 sameSizeHistory (by decide) (by decide) (by decide)
  have hq := quiescent_replicate n
  have hs := nSteps_replicate n
  have h1 := hn _ hq (by omega)
  have h2 := (counterexample_same_size.2.1 _ hq).1
  rw [h2] at h1
  revert h1; decide

/-! ### syncs that fail because the source changed under them -/

def v2 : Ver := { id := 3, size := 30, mtime := 108000000000 }

/-- the loop is running; a change is received and, the debounce having elapsed, a sync starts;
    the source changes again under that sync (a file vanishes) and the sync fails -/
def failedSyncHistory : List Input :=
  [.step, .step, .step, .step, .event .create (some v1), .step, .tick 400, .step,
   .event .remove (some v2), .fail]

/-- **A failed sync inside the loop is recovered.**  `pending` was cleared after the failure
    (watch.rs:98), but the event of the change that made the sync fail is still queued, so a
    further sync follows and the destination converges (instance of
    `converges_after_quiescence_reachable`; the H4 traces show the same on the real binary). -/
theorem failed_sync_recovers (is : List Input) (hq : Quiescent is) (hn : 12 ≤ nSteps is) :
    (run Cfg.sy (init v0 d0) failedSyncHistory).ok = false ∧
    (run Cfg.sy (init v0 d0) failedSyncHistory).pending = [] ∧
    (run Cfg.sy (init v0 d0) (failedSyncHistory ++ is)).dst = v2 := by
  refine ⟨by decide, by decide, ?_⟩
  have h := converges_after_quiescence_reachable Cfg.sy rfl (by decide) v0 d0 failedSyncHistory
    (by decide) (by decide) (by decide) (by decide) is hq (by
      have : convergeBound Cfg.sy (run Cfg.sy (init v0 d0) failedSyncHistory) = 12 := by decide
      omega)
  rw [h]; decide

/-- the initial sync is running, a source entry vanishes under it, the sync fails -/
def initialErrorHistory : List Input :=
  [.step, .step, .event .remove (some v1), .fail]

/-- "unless it is told to stop, `sy --watch` keeps running" -/
def NeverExitsByItself (c : Cfg) : Prop :=
  ∀ (v0 d0 : Ver) (hist : List Input), admissible c (init v0 d0) hist = true →
    (∀ i ∈ hist, i ≠ .sigint) → (run c (init v0 d0) hist).phase ≠ .done

/-- **Defect (c), finding `C20/watch-exited-early/during-initial-sync`.**  When the source changes
    under the *initial* sync and that sync fails, the error is propagated with `?` (watch.rs:40):
    `watch()` returns, the process exits with status 1 although nobody asked it to stop, and the
    change is never propagated.  (The same failure of a later sync is only printed.) -/
theorem never_exits_counterexample_initial_sync_error :
    admissible Cfg.sy (init v0 d0) initialErrorHistory = true ∧
    (run Cfg.sy (init v0 d0) initialErrorHistory).exit = some .error ∧
    (∀ is, (run Cfg.sy (init v0 d0) (initialErrorHistory ++ is)).dst = d0 ∧
           (run Cfg.sy (init v0 d0) (initialErrorHistory ++ is)).phase = .done) ∧
    ¬ NeverExitsByItself Cfg.sy := by
  refine ⟨by decide, by decide, fun is => ?_, fun h => ?_⟩
  · rw [run_append]
    have hd : (run Cfg.sy (init v0 d0) initialErrorHistory).phase = .done := by decide
    refine ⟨?_, run_done Cfg.sy is _ hd⟩
    rw [(done_run Cfg.sy is _ hd).1]; decide
  · exact h v0 d0 initialErrorHistory (by decide) (by decide) (by decide)

/-- The complement: as long as no sync fails, only a SIGINT ends `watch()` — for every schedule. -/
theorem never_exits_partial (c : Cfg) (v0 d0 : Ver) (hist : List Input)
    (h : ∀ i ∈ hist, i ≠ .sigint ∧ i ≠ .fail) : (run c (init v0 d0) hist).phase ≠ .done :=
  (no_exit_run c hist (init v0 d0) h rfl (by simp [init])).1

/-! ### non-vacuity: every hypothesis is satisfiable on non-trivial states -/

/-- a running loop with two queued events (one relevant), a non-empty `pending`, 300 ms after the
    last sync, the source already ahead of the destination -/
def sEx : State :=
  { phase := .loop, pending := [.modify], lastSync := 1000, queue := [.access, .create], now := 1300,
    src := v1, dst := v0, snap := v0, armed := true, handler := true, sig := false, exit := none,
    syncs := 1, ok := true }

example : Inv Cfg.sy sEx :=
  ⟨Or.inr (Or.inr (Or.inl ⟨.create, by decide, rfl⟩)), fun _ => rfl, fun _ _ => Or.inl rfl,
   by decide, fun h => by rcases h with h | h | h <;> cases h⟩
example : Hcmp Cfg.sy sEx := ⟨by decide, fun h => by rcases h with h | h <;> cases h⟩
example : sEx.pending ≠ [] ∨ ∃ k ∈ sEx.queue, k.kept = true := Or.inl (by decide)
example : sEx.lastSync ≤ sEx.now := by decide
example : Quiescent [.step, .tick 40, .step, .step, .step, .tick 7, .step] := by decide
example : NoSigint [.step, .event .modify (some v1), .tick 3, .step] := by decide
example : admissible Cfg.sy (init v0 d0) fixedHistory = true := by decide
example : Cfg.sy.armFirst = true := rfl
example : admissible Cfg.sy (init v0 d0) failedSyncHistory = true := by decide
example : ∀ i ∈ fixedHistory, i ≠ Input.sigint ∧ i ≠ Input.fail := by decide
/-- the conclusion of `converges_after_quiescence` on `sEx`, computed by the model: after
    `convergeBound = 13` iterations the destination is the source -/
example : convergeBound Cfg.sy sEx = 13 ∧
    (run Cfg.sy sEx (List.replicate 13 .step)).dst = v1 := by decide
/-- reachable states satisfy `Inv` (so the hypothesis of `converges_after_quiescence` is met by
    every run, not only by hand-made states) -/
example : Inv Cfg.sy (run Cfg.sy (init v0 d0) fixedHistory) := by
  rcases invD_run Cfg.sy rfl fixedHistory (init v0 d0) (by decide) (Or.inr (inv_init _ _ _)) with h | h
  · exact absurd h (by decide)
  · exact h
/-- `sigint_exits` on a concrete history: SIGINT during a running sync, two more moves -/
example : (run Cfg.sy (init v0 d0) (fixedHistory ++ .sigint :: [.step, .tick 5, .step])).exit = some .sigint := by
  decide
/-- SIGINT before the handler is installed kills the process -/
example : (run Cfg.sy (init v0 d0) [.step, .step, .sigint]).exit = some .killed := by decide

end SyModel.Props.C20
